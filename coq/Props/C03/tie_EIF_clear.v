(* Obligation C03/tie_EIF_clear.  Statement as printed by Coq from Inferno.C03.GenTieEIF; proof by reference.
   This file contains nothing else, so the statement cannot be weakened quietly. *)
From Coq Require Import List ZArith Bool.
From Inferno Require Import Base.Num Gen.NeuronDynamics Gen.NeuronAdaptation Gen.NeuronApply Gen.NeuronClasses C03.Neuron C03.GenTieEIF.
Import ListNotations.
Theorem tie_EIF_clear : forall (N : Num) (p : params N) (keep : bool) (cs : list (column N)),
  clear N EIF p keep cs =
  map
    (fun col : column N =>
     {|
       ad := ad N col;
       cells := map (fun _ : cell N => EIF_clear_cell N (rest_v N p)) (cells N col)
     |}) cs.
Proof. exact (@Inferno.C03.GenTieEIF.tie_EIF_clear). Qed.
Print Assumptions tie_EIF_clear.
