(* Obligation C03/tie_AdEx_forward_cell.  Statement as printed by Coq from Inferno.C03.GenTieAdEx; proof by reference.
   This file contains nothing else, so the statement cannot be weakened quietly. *)
From Coq Require Import List ZArith Bool.
From Inferno Require Import Base.Num Gen.NeuronDynamics Gen.NeuronAdaptation Gen.NeuronApply Gen.NeuronClasses C03.Neuron C03.GenTieAdEx.
Import ListNotations.
Theorem tie_AdEx_forward_cell : forall (N : Num) (p : params N) (a : list (T N)) (lock : bool) (x v r : T N),
  cls_cell N AdEx p lock (cls_thresh N AdEx p a) (cls_input N AdEx a x) (v, r) =
  AdEx_forward_cell N a r (refrac_t N p) (reset_v N p) (resistance N p) 
    (rest_v N p) (rheobase_v N p) (sharpness N p) (step_time N p) 
    (time_constant N p) (thresh_v N p) v x lock.
Proof. exact (@Inferno.C03.GenTieAdEx.tie_AdEx_forward_cell). Qed.
Print Assumptions tie_AdEx_forward_cell.
