(* Obligation C03/adaptation_active.  Statement as printed by Coq from Inferno.C03.AdaptationProofs; proof by reference.
   This file contains nothing else, so the statement cannot be weakened quietly. *)
From Coq Require Import List ZArith Bool Reals.
From Flocq Require Import Core.Raux.
From Inferno Require Import Base.Num Base.NumR Gen.NeuronDynamics Gen.NeuronAdaptation C03.Neuron C03.NeuronSpec C03.AdaptationProofs.
Import ListNotations.
Open Scope R_scope.
Theorem adaptation_active : forall (a v : R) (s : bool) (dt rest tc vc inc : R) (ro : option R),
  match ro with
  | Some r => r <= 0
  | None => True
  end ->
  adaptive_currents_linear RN a v s dt rest tc vc inc ro =
  a + dt / tc * (vc * (v - rest) - a) + inc * ind s /\
  adaptive_thresholds_linear_spike RN a s dt tc inc ro =
  a * Rtrigo_def.exp (- dt / tc) + inc * ind s /\
  (forall ar rr : R,
   adaptive_thresholds_linear_voltage RN a v dt rest ar rr None (Some s) ro =
   a + dt * (ar * (v - rest) - rr * a)).
Proof. exact (@Inferno.C03.AdaptationProofs.adaptation_active). Qed.
Print Assumptions adaptation_active.
