(* Obligation C03/integration_linear_semigroup.  Statement as printed by Coq from Inferno.C03.IntegrationProofs; proof by reference.
   This file contains nothing else, so the statement cannot be weakened quietly. *)
From Coq Require Import List ZArith Bool Reals.
From Flocq Require Import Core.Raux.
From Inferno Require Import Base.Num Base.NumR Gen.NeuronDynamics Gen.NeuronAdaptation C03.Neuron C03.NeuronSpec C03.IntegrationProofs.
Import ListNotations.
Open Scope R_scope.
Theorem integration_linear_semigroup : forall I v s1 s2 tau rest Rm : R,
  voltage_integration_linear RN I (voltage_integration_linear RN I v s1 tau rest Rm) s2 tau
    rest Rm = voltage_integration_linear RN I v (s1 + s2) tau rest Rm.
Proof. exact (@Inferno.C03.IntegrationProofs.integration_linear_semigroup). Qed.
Print Assumptions integration_linear_semigroup.
