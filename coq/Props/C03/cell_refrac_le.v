(* Obligation C03/cell_refrac_le.  Statement as printed by Coq from Inferno.C03.NeuronProofs; proof by reference.
   This file contains nothing else, so the statement cannot be weakened quietly. *)
From Coq Require Import List ZArith Bool Reals.
From Flocq Require Import Core.Raux.
From Inferno Require Import Base.Num Base.NumR Gen.NeuronDynamics Gen.NeuronAdaptation C03.Neuron C03.NeuronSpec C03.NeuronProofs.
Import ListNotations.
Open Scope R_scope.
Theorem cell_refrac_le : forall (c : cls) (p : params RN),
  ctor_ok RN c p = true ->
  forall (evs : list cev) (ce : T RN * R),
  snd ce <= refrac_t RN p ->
  Forall (fun o : cellout RN => o_r RN o <= refrac_t RN p) (cell_run c p ce evs).
Proof. exact (@Inferno.C03.NeuronProofs.cell_refrac_le). Qed.
Print Assumptions cell_refrac_le.
