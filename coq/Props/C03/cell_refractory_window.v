(* Obligation C03/cell_refractory_window.  Statement as printed by Coq from Inferno.C03.NeuronProofs; proof by reference.
   This file contains nothing else, so the statement cannot be weakened quietly. *)
From Coq Require Import List ZArith Bool Reals.
From Flocq Require Import Core.Raux.
From Inferno Require Import Base.Num Base.NumR Gen.NeuronDynamics Gen.NeuronAdaptation C03.Neuron C03.NeuronSpec C03.NeuronProofs.
Import ListNotations.
Open Scope R_scope.
Theorem cell_refractory_window : forall (c : cls) (p : params RN),
  ctor_ok RN c p = true ->
  forall (ce : cell RN) (evs : list cev) (t : nat) (o : cellout RN),
  nth_error (cell_run c p ce evs) t = Some o ->
  o_spike RN o = true ->
  forall (j : nat) (o' : cellout RN),
  (1 <= j < window p)%nat ->
  nth_error (cell_run c p ce evs) (t + j) = Some o' ->
  o_spike RN o' = false /\
  o_r RN o' = refrac_t RN p - INR j * step_time RN p /\
  (Forall (fun e : cev => ev_lock e = true) (firstn j (skipn (S t) evs)) ->
   o_v RN o' = o_v RN o).
Proof. exact (@Inferno.C03.NeuronProofs.cell_refractory_window). Qed.
Print Assumptions cell_refractory_window.
