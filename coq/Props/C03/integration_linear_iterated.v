(* Obligation C03/integration_linear_iterated.  Statement as printed by Coq from Inferno.C03.IntegrationProofs; proof by reference.
   This file contains nothing else, so the statement cannot be weakened quietly. *)
From Coq Require Import List ZArith Bool Reals.
From Flocq Require Import Core.Raux.
From Inferno Require Import Base.Num Base.NumR Gen.NeuronDynamics Gen.NeuronAdaptation C03.Neuron C03.NeuronSpec C03.IntegrationProofs.
Import ListNotations.
Open Scope R_scope.
Theorem integration_linear_iterated : forall (I dt tau rest Rm : R) (n : nat) (v : R),
  Nat.iter n (fun u : T RN => voltage_integration_linear RN I u dt tau rest Rm) v =
  (v - rest - Rm * I) * Rtrigo_def.exp (- (INR n * dt) / tau) + rest + Rm * I.
Proof. exact (@Inferno.C03.IntegrationProofs.integration_linear_iterated). Qed.
Print Assumptions integration_linear_iterated.
