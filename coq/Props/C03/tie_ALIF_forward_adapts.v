(* Obligation C03/tie_ALIF_forward_adapts.  Statement as printed by Coq from Inferno.C03.GenTieALIF; proof by reference.
   This file contains nothing else, so the statement cannot be weakened quietly. *)
From Coq Require Import List ZArith Bool.
From Inferno Require Import Base.Num Gen.NeuronDynamics Gen.NeuronAdaptation Gen.NeuronApply Gen.NeuronClasses C03.Neuron C03.GenTieALIF.
Import ListNotations.
Theorem tie_ALIF_forward_adapts : forall (adapt : option bool) (training : bool),
  eff_adapt adapt training = ALIF_forward_adapts adapt training.
Proof. exact (@Inferno.C03.GenTieALIF.tie_ALIF_forward_adapts). Qed.
Print Assumptions tie_ALIF_forward_adapts.
