(* Obligation C03/tie_EIF_forward_cell.  Statement as printed by Coq from Inferno.C03.GenTieEIF; proof by reference.
   This file contains nothing else, so the statement cannot be weakened quietly. *)
From Coq Require Import List ZArith Bool.
From Inferno Require Import Base.Num Gen.NeuronDynamics Gen.NeuronAdaptation Gen.NeuronApply Gen.NeuronClasses C03.Neuron C03.GenTieEIF.
Import ListNotations.
Theorem tie_EIF_forward_cell : forall (N : Num) (p : params N) (a : list (T N)) (lock : bool) (x v r : T N),
  cls_cell N EIF p lock (cls_thresh N EIF p a) (cls_input N EIF a x) (v, r) =
  EIF_forward_cell N r (refrac_t N p) (reset_v N p) (resistance N p) 
    (rest_v N p) (rheobase_v N p) (sharpness N p) (step_time N p) 
    (thresh_v N p) (time_constant N p) v x lock.
Proof. exact (@Inferno.C03.GenTieEIF.tie_EIF_forward_cell). Qed.
Print Assumptions tie_EIF_forward_cell.
