(* Obligation C03/tie_GLIF2_integrate_v.  Statement as printed by Coq from Inferno.C03.GenTieGLIF2; proof by reference.
   This file contains nothing else, so the statement cannot be weakened quietly. *)
From Coq Require Import List ZArith Bool.
From Inferno Require Import Base.Num Gen.NeuronDynamics Gen.NeuronAdaptation Gen.NeuronApply Gen.NeuronClasses C03.Neuron C03.GenTieGLIF2.
Import ListNotations.
Theorem tie_GLIF2_integrate_v : forall (N : Num) (p : params N) (v masked_inputs : T N),
  cls_integ N GLIF2 p v masked_inputs =
  GLIF2_integrate_v N (resistance N p) (rest_v N p) (step_time N p) 
    (time_constant N p) v masked_inputs.
Proof. exact (@Inferno.C03.GenTieGLIF2.tie_GLIF2_integrate_v). Qed.
Print Assumptions tie_GLIF2_integrate_v.
