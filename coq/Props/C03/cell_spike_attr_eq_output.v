(* Obligation C03/cell_spike_attr_eq_output.  Statement as printed by Coq from Inferno.C03.NeuronProofs; proof by reference.
   This file contains nothing else, so the statement cannot be weakened quietly. *)
From Coq Require Import List ZArith Bool Reals.
From Flocq Require Import Core.Raux.
From Inferno Require Import Base.Num Base.NumR Gen.NeuronDynamics Gen.NeuronAdaptation C03.Neuron C03.NeuronSpec C03.NeuronProofs.
Import ListNotations.
Open Scope R_scope.
Theorem cell_spike_attr_eq_output : forall (c : cls) (p : params RN),
  ctor_ok RN c p = true ->
  0 < refrac_t RN p ->
  forall (evs : list cev) (ce : T RN * R),
  snd ce <= refrac_t RN p ->
  Forall (fun o : cellout RN => eqb RN (o_r RN o) (refrac_t RN p) = o_spike RN o)
    (cell_run c p ce evs).
Proof. exact (@Inferno.C03.NeuronProofs.cell_spike_attr_eq_output). Qed.
Print Assumptions cell_spike_attr_eq_output.
