(* Obligation C03/column_adaptation_frozen.  Statement as printed by Coq from Inferno.C03.AdaptationProofs; proof by reference.
   This file contains nothing else, so the statement cannot be weakened quietly. *)
From Coq Require Import List ZArith Bool Reals.
From Flocq Require Import Core.Raux.
From Inferno Require Import Base.Num Base.NumR Gen.NeuronDynamics Gen.NeuronAdaptation C03.Neuron C03.NeuronSpec C03.AdaptationProofs.
Import ListNotations.
Open Scope R_scope.
Theorem column_adaptation_frozen : forall (c : cls) (p : params RN) (a : list R) (outs : list (cellout RN)),
  outs <> [] ->
  Forall (fun o : cellout RN => 0 < o_r RN o) outs ->
  let rate := batch_mean RN (map (fun o : cellout RN => ind (o_spike RN o)) outs) in
  cls_adapt RN c p true a outs =
  match c with
  | ALIF | GLIF2 =>
      map3 (fun (a0 : R) (_ : T RN) (inc : R) => a0 + inc * rate) a 
        (tc_adaptation RN p) (adapt_increment RN p)
  | Izhikevich | AdEx =>
      map4 (fun (a0 : R) (_ _ : T RN) (inc : R) => a0 + inc * rate) a 
        (tc_adaptation RN p) (adapt_vc_coupling RN p) (adapt_increment RN p)
  | _ => a
  end.
Proof. exact (@Inferno.C03.AdaptationProofs.column_adaptation_frozen). Qed.
Print Assumptions column_adaptation_frozen.
