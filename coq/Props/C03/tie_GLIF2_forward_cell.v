(* Obligation C03/tie_GLIF2_forward_cell.  Statement as printed by Coq from Inferno.C03.GenTieGLIF2; proof by reference.
   This file contains nothing else, so the statement cannot be weakened quietly. *)
From Coq Require Import List ZArith Bool.
From Inferno Require Import Base.Num Gen.NeuronDynamics Gen.NeuronAdaptation Gen.NeuronApply Gen.NeuronClasses C03.Neuron C03.GenTieGLIF2.
Import ListNotations.
Theorem tie_GLIF2_forward_cell : forall (N : Num) (p : params N) (a : list (T N)) (lock : bool) (x v r : T N),
  cls_cell N GLIF2 p lock (cls_thresh N GLIF2 p a) (cls_input N GLIF2 a x) (v, r) =
  GLIF2_forward_cell N r (refrac_t N p) (reset_v_add N p) (reset_v_mul N p) 
    (resistance N p) (rest_v N p) (step_time N p) (time_constant N p) 
    (thresh_v N p) a v x lock.
Proof. exact (@Inferno.C03.GenTieGLIF2.tie_GLIF2_forward_cell). Qed.
Print Assumptions tie_GLIF2_forward_cell.
