(* Obligation C03/tie_apply_adaptive_currents.  Statement as printed by Coq from Inferno.C03.GenTie; proof by reference.
   This file contains nothing else, so the statement cannot be weakened quietly. *)
From Coq Require Import List ZArith Bool.
From Inferno Require Import Base.Num Gen.NeuronDynamics Gen.NeuronAdaptation Gen.NeuronApply Gen.NeuronClasses C03.Neuron C03.GenTie.
Import ListNotations.
Theorem tie_apply_adaptive_currents : forall (N : Num) (current : T N) (adaptations : list (T N)),
  apply_adaptive_currents N current adaptations =
  NeuronApply.apply_adaptive_currents N current adaptations.
Proof. exact (@Inferno.C03.GenTie.tie_apply_adaptive_currents). Qed.
Print Assumptions tie_apply_adaptive_currents.
