(* Obligation C03/tie_Izhikevich_forward_adapt.  Statement as printed by Coq from Inferno.C03.GenTieIzhikevich; proof by reference.
   This file contains nothing else, so the statement cannot be weakened quietly. *)
From Coq Require Import List ZArith Bool.
From Inferno Require Import Base.Num Gen.NeuronDynamics Gen.NeuronAdaptation Gen.NeuronApply Gen.NeuronClasses C03.Neuron C03.GenTieIzhikevich.
Import ListNotations.
Theorem tie_Izhikevich_forward_adapt : forall (N : Num) (p : params N) (lock : bool) (a : list (T N)) (outs : list (cellout N)),
  cls_adapt N Izhikevich p lock a outs =
  map4
    (fun a_k tc_k vc_k inc_k : T N =>
     batch_mean N
       (map
          (fun o : cellout N =>
           Izhikevich_forward_adapt N inc_k vc_k a_k (rest_v N p) 
             (step_time N p) tc_k (o_spike N o) (o_v N o) (o_r N o) lock) outs)) a
    (tc_adaptation N p) (adapt_vc_coupling N p) (adapt_increment N p).
Proof. exact (@Inferno.C03.GenTieIzhikevich.tie_Izhikevich_forward_adapt). Qed.
Print Assumptions tie_Izhikevich_forward_adapt.
