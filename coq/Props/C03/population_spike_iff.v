(* Obligation C03/population_spike_iff.  Statement as printed by Coq from Inferno.C03.NeuronProofs; proof by reference.
   This file contains nothing else, so the statement cannot be weakened quietly. *)
From Coq Require Import List ZArith Bool Reals.
From Flocq Require Import Core.Raux.
From Inferno Require Import Base.Num Base.NumR Gen.NeuronDynamics Gen.NeuronAdaptation C03.Neuron C03.NeuronSpec C03.NeuronProofs.
Import ListNotations.
Open Scope R_scope.
Theorem population_spike_iff : forall (c : cls) (p : params RN) (adapt lock : bool) (cs : list (column RN))
    (xs : list (list (T RN))) (i b : nat) (col : column RN) (v r x : T RN),
  nth_error cs i = Some col ->
  nth_error (cells RN col) b = Some (v, r) ->
  at2 xs i b = Some x ->
  forall o : cellout RN,
  obs_at (forward RN c p adapt lock cs xs) i b = Some o ->
  (o_spike RN o = true <->
   Rmax (r - step_time RN p) 0 = 0 /\
   cls_thresh RN c p (ad RN col) <= cls_integ RN c p v (cls_input RN c (ad RN col) x)) /\
  (o_spike RN o = true ->
   o_v RN o = reset_of c p (cls_integ RN c p v (cls_input RN c (ad RN col) x)) /\
   o_r RN o = refrac_t RN p).
Proof. exact (@Inferno.C03.NeuronProofs.population_spike_iff). Qed.
Print Assumptions population_spike_iff.
