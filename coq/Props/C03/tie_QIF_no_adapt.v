(* Obligation C03/tie_QIF_no_adapt.  Statement as printed by Coq from Inferno.C03.GenTieQIF; proof by reference.
   This file contains nothing else, so the statement cannot be weakened quietly. *)
From Coq Require Import List ZArith Bool.
From Inferno Require Import Base.Num Gen.NeuronDynamics Gen.NeuronAdaptation Gen.NeuronApply Gen.NeuronClasses C03.Neuron C03.GenTieQIF.
Import ListNotations.
Theorem tie_QIF_no_adapt : forall (N : Num) (p : params N) (lock : bool) (a : list (T N)) (outs : list (cellout N)),
  cls_adapt N QIF p lock a outs = a.
Proof. exact (@Inferno.C03.GenTieQIF.tie_QIF_no_adapt). Qed.
Print Assumptions tie_QIF_no_adapt.
