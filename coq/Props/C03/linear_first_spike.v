(* Obligation C03/linear_first_spike.  Statement as printed by Coq from Inferno.C03.RunProofs; proof by reference.
   This file contains nothing else, so the statement cannot be weakened quietly. *)
From Coq Require Import List ZArith Bool Reals.
From Flocq Require Import Core.Raux.
From Inferno Require Import Base.Num Base.NumR Gen.NeuronDynamics Gen.NeuronAdaptation C03.Neuron C03.NeuronSpec C03.RunProofs.
Import ListNotations.
Open Scope R_scope.
Theorem linear_first_spike : forall (c : cls) (p : params RN),
  linear_cls c ->
  forall (lock : bool) (th x : R) (n : nat) (v0 r0 : R),
  r0 - step_time RN p <= 0 ->
  0 < step_time RN p ->
  (forall k : nat, (1 <= k <= n)%nat -> lin_u p v0 x k < th) ->
  th <= lin_u p v0 x (S n) ->
  cell_run c p (v0, r0) (repeat (lock, th, x) (S n)) =
  map (fun k : nat => (false, lin_u p v0 x k, 0)) (seq 1 n) ++
  [(true, reset_of c p (lin_u p v0 x (S n)), refrac_t RN p)].
Proof. exact (@Inferno.C03.RunProofs.linear_first_spike). Qed.
Print Assumptions linear_first_spike.
