(* Obligation C03/adaptation_frozen_in_refractory.  Statement as printed by Coq from Inferno.C03.AdaptationProofs; proof by reference.
   This file contains nothing else, so the statement cannot be weakened quietly. *)
From Coq Require Import List ZArith Bool Reals.
From Flocq Require Import Core.Raux.
From Inferno Require Import Base.Num Base.NumR Gen.NeuronDynamics Gen.NeuronAdaptation C03.Neuron C03.NeuronSpec C03.AdaptationProofs.
Import ListNotations.
Open Scope R_scope.
Theorem adaptation_frozen_in_refractory : forall (a v : R) (s : bool) (dt rest tc vc inc r : R),
  0 < r ->
  adaptive_currents_linear RN a v s dt rest tc vc inc (Some r) = a + inc * ind s /\
  adaptive_thresholds_linear_spike RN a s dt tc inc (Some r) = a + inc * ind s /\
  (forall ar rr : R,
   adaptive_thresholds_linear_voltage RN a v dt rest ar rr None (Some s) (Some r) = a) /\
  (forall ar rr m : R,
   adaptive_thresholds_linear_voltage RN a v dt rest ar rr (Some m) (Some s) (Some r) =
   (if s then Rmax a m else a)).
Proof. exact (@Inferno.C03.AdaptationProofs.adaptation_frozen_in_refractory). Qed.
Print Assumptions adaptation_frozen_in_refractory.
