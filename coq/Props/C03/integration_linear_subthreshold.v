(* Obligation C03/integration_linear_subthreshold.  Statement as printed by Coq from Inferno.C03.IntegrationProofs; proof by reference.
   This file contains nothing else, so the statement cannot be weakened quietly. *)
From Coq Require Import List ZArith Bool Reals.
From Flocq Require Import Core.Raux.
From Inferno Require Import Base.Num Base.NumR Gen.NeuronDynamics Gen.NeuronAdaptation C03.Neuron C03.NeuronSpec C03.IntegrationProofs.
Import ListNotations.
Open Scope R_scope.
Theorem integration_linear_subthreshold : forall I v dt tau rest Rm th : R,
  0 < dt ->
  0 < tau ->
  v < th -> rest + Rm * I < th -> voltage_integration_linear RN I v dt tau rest Rm < th.
Proof. exact (@Inferno.C03.IntegrationProofs.integration_linear_subthreshold). Qed.
Print Assumptions integration_linear_subthreshold.
