(* Obligation C03/tie_AdEx_col_forward.  Statement as printed by Coq from Inferno.C03.GenTieAdEx; proof by reference.
   This file contains nothing else, so the statement cannot be weakened quietly. *)
From Coq Require Import List ZArith Bool.
From Inferno Require Import Base.Num Gen.NeuronDynamics Gen.NeuronAdaptation Gen.NeuronApply Gen.NeuronClasses C03.Neuron C03.GenTieAdEx.
Import ListNotations.
Theorem tie_AdEx_col_forward : forall (N : Num) (p : params N) (adapt : option bool) (training lock : bool)
    (col : column N) (xs : list (T N)),
  col_forward N AdEx p (eff_adapt adapt training) lock col xs =
  (let outs :=
     map2
       (fun (x : T N) (ce : cell N) =>
        AdEx_forward_cell N (ad N col) (snd ce) (refrac_t N p) (reset_v N p) 
          (resistance N p) (rest_v N p) (rheobase_v N p) (sharpness N p) 
          (step_time N p) (time_constant N p) (thresh_v N p) (fst ce) x lock) xs 
       (cells N col) in
   (map (o_spike N) outs,
    {|
      ad :=
        if AdEx_forward_adapts adapt training
        then
         map4
           (fun a_k tc_k vc_k inc_k : T N =>
            batch_mean N
              (map
                 (fun o : cellout N =>
                  AdEx_forward_adapt N inc_k vc_k a_k (rest_v N p) 
                    (step_time N p) tc_k (o_spike N o) (o_v N o) (o_r N o) lock) outs))
           (ad N col) (tc_adaptation N p) (adapt_vc_coupling N p) 
           (adapt_increment N p)
        else ad N col;
      cells := map (o_cell N) outs
    |})).
Proof. exact (@Inferno.C03.GenTieAdEx.tie_AdEx_col_forward). Qed.
Print Assumptions tie_AdEx_col_forward.
