(* Obligation C03/tie_GLIF2_clear.  Statement as printed by Coq from Inferno.C03.GenTieGLIF2; proof by reference.
   This file contains nothing else, so the statement cannot be weakened quietly. *)
From Coq Require Import List ZArith Bool.
From Inferno Require Import Base.Num Gen.NeuronDynamics Gen.NeuronAdaptation Gen.NeuronApply Gen.NeuronClasses C03.Neuron C03.GenTieGLIF2.
Import ListNotations.
Theorem tie_GLIF2_clear : forall (N : Num) (p : params N) (keep : bool) (cs : list (column N)),
  clear N GLIF2 p keep cs =
  map
    (fun col : column N =>
     {|
       ad := map (fun a_k : T N => GLIF2_clear_adapt N a_k keep) (ad N col);
       cells := map (fun _ : cell N => GLIF2_clear_cell N (rest_v N p)) (cells N col)
     |}) cs.
Proof. exact (@Inferno.C03.GenTieGLIF2.tie_GLIF2_clear). Qed.
Print Assumptions tie_GLIF2_clear.
