(* Obligation C03/tie_Izhikevich_clear.  Statement as printed by Coq from Inferno.C03.GenTieIzhikevich; proof by reference.
   This file contains nothing else, so the statement cannot be weakened quietly. *)
From Coq Require Import List ZArith Bool.
From Inferno Require Import Base.Num Gen.NeuronDynamics Gen.NeuronAdaptation Gen.NeuronApply Gen.NeuronClasses C03.Neuron C03.GenTieIzhikevich.
Import ListNotations.
Theorem tie_Izhikevich_clear : forall (N : Num) (p : params N) (keep : bool) (cs : list (column N)),
  clear N Izhikevich p keep cs =
  map
    (fun col : column N =>
     {|
       ad := map (fun a_k : T N => Izhikevich_clear_adapt N a_k keep) (ad N col);
       cells := map (fun _ : cell N => Izhikevich_clear_cell N (rest_v N p)) (cells N col)
     |}) cs.
Proof. exact (@Inferno.C03.GenTieIzhikevich.tie_Izhikevich_clear). Qed.
Print Assumptions tie_Izhikevich_clear.
