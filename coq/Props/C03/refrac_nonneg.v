(* Obligation C03/refrac_nonneg.  Statement as printed by Coq from Inferno.C03.ThresholdProofs; proof by reference.
   This file contains nothing else, so the statement cannot be weakened quietly. *)
From Coq Require Import List ZArith Bool Reals.
From Flocq Require Import Core.Raux.
From Inferno Require Import Base.Num Base.NumR Gen.NeuronDynamics Gen.NeuronAdaptation C03.Neuron C03.NeuronSpec C03.ThresholdProofs.
Import ListNotations.
Open Scope R_scope.
Theorem refrac_nonneg : forall (x r : T RN) (dyn : T RN -> T RN) (held : option (T RN)) (dt th : T RN) (Rt : R),
  0 <= Rt ->
  (forall reset : T RN,
   0 <= snd (voltage_thresholding_constant RN x r dyn held dt reset th Rt)) /\
  (forall rest slope icpt : T RN,
   0 <= snd (voltage_thresholding_linear RN x r dyn held dt rest slope icpt th Rt)).
Proof. exact (@Inferno.C03.ThresholdProofs.refrac_nonneg). Qed.
Print Assumptions refrac_nonneg.
