(* Obligation C07/matchb_spec.  Statement as printed by Coq from Inferno.C07.TraceProofs; proof by reference.
   This file contains nothing else, so the statement cannot be weakened quietly. *)
From Coq Require Import List ZArith Reals Bool Lra Lia.
From Inferno Require Import Base.Num Base.NumR Gen.Trace Gen.Interpolation C01.Ring C07.Reducer C07.TraceProofs.
Import ListNotations.
Open Scope R_scope.
Theorem matchb_spec : forall (target : R) (tol : option R) (o : R),
  reflect (is_event target tol o) (matchb target tol o).
Proof. exact (@Inferno.C07.TraceProofs.matchb_spec). Qed.
Print Assumptions matchb_spec.
