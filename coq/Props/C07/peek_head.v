(* Obligation C07/peek_head.  Statement as printed by Coq from Inferno.C07.ReducerProofs; proof by reference.
   This file contains nothing else, so the statement cannot be weakened quietly. *)
From Coq Require Import List ZArith Bool Arith Lia.
From Inferno Require Import Base.Num Gen.Infra C01.Ring C01.RingProofs C07.Reducer C07.ReducerProofs.
Import ListNotations.
Theorem peek_head : forall (M : Num) (A : Type) (r : @reducer M A),
  @rwf M A r ->
  0 < @N A unit (@rrec M A r) ->
  @rd_peek M A r =
  @ROk M A r
    (if @rinit M A r
     then @RNone A
     else
      @RObs A match @stored_shape M A r with
              | Some s => s
              | None => []
              end (@hd (list A) [] (@rhist M A r))).
Proof. exact (@Inferno.C07.ReducerProofs.peek_head). Qed.
Print Assumptions peek_head.
