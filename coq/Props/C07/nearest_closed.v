(* Obligation C07/nearest_closed.  Statement as printed by Coq from Inferno.C07.TraceProofs; proof by reference.
   This file contains nothing else, so the statement cannot be weakened quietly. *)
From Coq Require Import List ZArith Reals Bool Lra Lia.
From Inferno Require Import Base.Num Base.NumR Gen.Trace Gen.Interpolation C01.Ring C07.Reducer C07.TraceProofs.
Import ListNotations.
Open Scope R_scope.
Theorem nearest_closed : forall (tau a target : R) (tol : option R) (l : list (R * R)),
  run_state (nearest_step tau a target tol) l =
  match l with
  | [] => None
  | _ :: _ =>
      Some
        match last_event (matchb target tol) l with
        | Some (age, _) => a * Rtrigo_def.exp (- age / tau)
        | None => 0
        end
  end.
Proof. exact (@Inferno.C07.TraceProofs.nearest_closed). Qed.
Print Assumptions nearest_closed.
