(* Obligation C07/tie_FoldReducer_clear.  Statement as printed by Coq from Inferno.C07.GenTieFoldReducer; proof by reference.
   This file contains nothing else, so the statement cannot be weakened quietly. *)
From Coq Require Import List ZArith Bool.
From Inferno Require Import Base.Num Gen.Infra Gen.Trace Gen.Math Gen.Interpolation Gen.ReducerClasses C01.Ring C07.Reducer C07.ReducerProofs C07.GenTieFoldReducer.
Import ListNotations.
Theorem tie_FoldReducer_clear : forall (M : Num) (A Obs : Type) (K : @rclass M A Obs) (r r' : @reducer M A) 
    (ks : bool) (out : @rout A),
  @rd_clear M A Obs K r ks = @ROk M A r' out ->
  (@rrec M A r', @rinit M A r') =
  @FoldReducer_clear (@ring A unit) (@op_reset_fill M A Obs K) (@deinitialize A) ks
    (@rrec M A r).
Proof. exact (@Inferno.C07.GenTieFoldReducer.tie_FoldReducer_clear). Qed.
Print Assumptions tie_FoldReducer_clear.
