(* Obligation C07/fresh_run_record.  Statement as printed by Coq from Inferno.C07.ClosedProofs; proof by reference.
   This file contains nothing else, so the statement cannot be weakened quietly. *)
From Coq Require Import List ZArith Reals Bool Lra Lia.
From Flocq Require Import Core.Raux.
From Inferno Require Import Base.Num Base.NumR Gen.Infra Gen.Trace Gen.Interpolation C01.Ring C01.RingProofs C07.Reducer C07.ReducerProofs C07.TraceProofs C07.ViewProofs C07.ClosedProofs.
Import ListNotations.
Open Scope R_scope.
Theorem fresh_run_record : forall (M : Num) (A Obs : Type) (K : @rclass M A Obs) (dt dur : T M) 
    (incl inpl : bool) (l : list Obs),
  l <> [] ->
  let r0 := @fresh M A Obs K dt dur incl inpl in
  let r := @final M A Obs K r0 (@fwd_ops M Obs [] (@map Obs (list Obs) (@single Obs) l)) in
  let n := @length Obs l in
  @rwf M A r /\
  @rinit M A r = false /\
  @N A unit (@rrec M A r) = @N A unit (@rrec M A r0) /\
  @stored_shape M A r = @Some (list nat) [] /\
  @same_cfg M A r0 r /\
  @all_ok M A
    (@outputs M A Obs K r0 (@fwd_ops M Obs [] (@map Obs (list Obs) (@single Obs) l))) /\
  @rhist M A r =
  @firstn (list A) (@N A unit (@rrec M A r0))
    (@map nat (list A)
       (fun k : nat =>
        @orow A
          (@elem_fold M A Obs K (@rdt M A r0) (@rdecay M A r0) 0 (@None A)
             (@firstn Obs (n - k) l))) (seq 0 n) ++
     @repeat (list A) [@kfill M A Obs K] (@N A unit (@rrec M A r0))).
Proof. exact (@Inferno.C07.ClosedProofs.fresh_run_record). Qed.
Print Assumptions fresh_run_record.
