(* Obligation XM/c07_view_tensor_eq_R.  Statement as printed by Coq from Inferno.XModel.SelectC07R; proof by reference.
   This file contains nothing else, so the statement cannot be weakened quietly. *)
From Coq Require Import List ZArith Bool Arith Reals.
From Inferno Require Import Base.Num Base.NumR Gen.Infra C01.Ring.
From Inferno Require C02.Select.
From Inferno Require Import C07.Reducer XModel.XLists XModel.SelectC07 XModel.SelectC07R.
Import ListNotations.
Theorem c07_view_tensor_eq_R : forall (Obs : Type) (K : @rclass RN R Obs),
  @kzero RN R Obs K = zero RN ->
  forall (r : @reducer RN R) (d : unit) (sh : list nat) (rows : list (list R))
    (times : list (list (T RN))) (tol : T RN) (tnd : nat),
  @rinit RN R r = false ->
  @st R unit (@rrec RN R r) = @SFull R unit d sh rows ->
  @length (list (T RN)) times = nel sh ->
  tnd = S (@length nat sh) \/
  tnd = @length nat sh /\
  @Forall (list (T RN)) (fun ts : list (T RN) => @length (T RN) ts = 1%nat) times ->
  @rd_view_tensor RN R Obs K r times tol =
  match
    Select.select_tensor RN (@rrec RN R r) (@rdt RN R r) tol 1 tnd times (@kinterp RN R Obs K)
  with
  | Ok _ o => @ROk RN R r (@RView (T RN) (@cols_of (T RN) unit o))
  | Err e => @RErr RN R r e
  end.
Proof. exact (@Inferno.XModel.SelectC07R.c07_view_tensor_eq_R). Qed.
Print Assumptions c07_view_tensor_eq_R.
