(* Obligation XM/shipped_kzero.  Statement as printed by Coq from Inferno.XModel.SelectC07; proof by reference.
   This file contains nothing else, so the statement cannot be weakened quietly. *)
From Coq Require Import List ZArith Bool Arith Lia.
From Inferno Require Import Base.Num Gen.Infra C01.Ring.
From Inferno Require C02.Select C07.Reducer.
From Inferno Require Import XModel.XLists XModel.SelectC07.
Import ListNotations.
Theorem shipped_kzero : forall (M : Num) (tau amp target scale alpha : T M) (tol : option (T M))
    (crit : T M -> bool),
  Reducer.kzero (Reducer.cls_nearest M tau amp target tol) = zero M /\
  Reducer.kzero (Reducer.cls_cumulative M tau amp target tol) = zero M /\
  Reducer.kzero (Reducer.cls_scaled_nearest M tau amp scale crit) = zero M /\
  Reducer.kzero (Reducer.cls_scaled_cumulative M tau amp scale crit) = zero M /\
  Reducer.kzero (Reducer.cls_cond_nearest M tau amp scale) = zero M /\
  Reducer.kzero (Reducer.cls_cond_cumulative M tau amp scale) = zero M /\
  Reducer.kzero (Reducer.cls_pass M) = zero M /\
  Reducer.kzero (Reducer.cls_ema M alpha) = zero M /\
  Reducer.kzero (Reducer.cls_ca M) = zero M.
Proof. exact (@Inferno.XModel.SelectC07.shipped_kzero). Qed.
Print Assumptions shipped_kzero.
