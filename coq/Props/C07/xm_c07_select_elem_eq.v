(* Obligation XM/c07_select_elem_eq.  Statement as printed by Coq from Inferno.XModel.SelectC07; proof by reference.
   This file contains nothing else, so the statement cannot be weakened quietly. *)
From Coq Require Import List ZArith Bool Arith Lia.
From Inferno Require Import Base.Num Gen.Infra C01.Ring.
From Inferno Require C02.Select C07.Reducer.
From Inferno Require Import XModel.XLists XModel.SelectC07.
Import ListNotations.
Theorem c07_select_elem_eq : forall (M : Num) (Obs : Type) (K : @Reducer.rclass M (T M) Obs),
  ofZ M 1 = one M ->
  @Reducer.kzero M (T M) Obs K = zero M ->
  forall (r : @Reducer.reducer M (T M)) (rows : list (list (T M))) (e : nat) (time tol : T M),
  @Reducer.select_elem M (T M) Obs K r rows e time tol =
  Select.sel_elem M (@Reducer.rrec M (T M) r) rows (@Reducer.rdt M (T M) r) tol 1
    (@Reducer.kinterp M (T M) Obs K) e time.
Proof. exact (@Inferno.XModel.SelectC07.c07_select_elem_eq). Qed.
Print Assumptions c07_select_elem_eq.
