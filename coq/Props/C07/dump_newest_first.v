(* Obligation C07/dump_newest_first.  Statement as printed by Coq from Inferno.C07.ReducerProofs; proof by reference.
   This file contains nothing else, so the statement cannot be weakened quietly. *)
From Coq Require Import List ZArith Bool Arith Lia.
From Inferno Require Import Base.Num Gen.Infra C01.Ring C01.RingProofs C07.Reducer C07.ReducerProofs.
Import ListNotations.
Theorem dump_newest_first : forall (M : Num) (A Obs : Type),
  @rclass M A Obs ->
  forall r : @reducer M A,
  @rwf M A r ->
  0 < @N A unit (@rrec M A r) ->
  @rinit M A r = false ->
  exists rec' : @ring A unit,
    @rd_dump M A r =
    @ROk M A (@set_rec M A r rec')
      (@RRows A match @stored_shape M A r with
                | Some s => s
                | None => []
                end (@rhist M A r)) /\
    @wf A unit rec' /\
    @full A unit rec' /\
    @N A unit rec' = @N A unit (@rrec M A r) /\
    @hist A unit rec' = @rhist M A r /\
    @stored_shape M A (@set_rec M A r rec') = @stored_shape M A r.
Proof. exact (@Inferno.C07.ReducerProofs.dump_newest_first). Qed.
Print Assumptions dump_newest_first.
