(* Obligation C07/tie_EventReducer_fill.  Statement as printed by Coq from Inferno.C07.GenTieEvent; proof by reference.
   This file contains nothing else, so the statement cannot be weakened quietly. *)
From Coq Require Import List ZArith Bool.
From Inferno Require Import Base.Num Gen.Infra Gen.Trace Gen.Math Gen.Interpolation Gen.ReducerClasses C01.Ring C07.Reducer C07.ReducerProofs C07.GenTieEvent.
Import ListNotations.
Theorem tie_EventReducer_fill : forall (N : Num) (crit : T N -> bool) (i : einit),
  kfill (cls_event N crit i) = event_init N i /\
  (forall init : T N,
   event_init N i = Some init -> kfill (cls_event N crit i) = Some (EventReducer_fill N init)) /\
  kdecay (cls_event N crit i) = None /\ kcounts (cls_event N crit i) = false.
Proof. exact (@Inferno.C07.GenTieEvent.tie_EventReducer_fill). Qed.
Print Assumptions tie_EventReducer_fill.
