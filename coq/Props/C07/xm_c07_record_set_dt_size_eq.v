(* Obligation XM/c07_record_set_dt_size_eq.  Statement as printed by Coq from Inferno.XModel.RecSize; proof by reference.
   This file contains nothing else, so the statement cannot be weakened quietly. *)
From Coq Require Import List ZArith Bool Arith Lia.
From Inferno Require Import Base.Num Gen.Infra C01.Ring C01.RingProofs.
From Inferno Require C13.Shaped C13.Resize C13.ResizeProofs C14.Config C14.RecordCfg C14.RecordCfgProofs.
From Inferno Require C04.Synapse C07.Reducer C08.Stdp.
From Inferno Require Import XModel.RecSize.
Import ListNotations.
Theorem c07_record_set_dt_size_eq : forall (M : Num) (A Obs : Type) (K : @Reducer.rclass M A Obs) (r : @Reducer.reducer M A)
    (v : T M) (size0 : Z),
  0 < @N A unit (@Reducer.rrec M A r) ->
  @N A unit (@Reducer.record_set_dt M A Obs K r v) =
  Z.to_nat
    (Config.r_size M
       (Config.rec_set_dt M v
          {|
            Config.r_dt := @Reducer.rdt M A r;
            Config.r_dur := @Reducer.rdur M A r;
            Config.r_incl := @Reducer.rincl M A r;
            Config.r_size := size0
          |})).
Proof. exact (@Inferno.XModel.RecSize.c07_record_set_dt_size_eq). Qed.
Print Assumptions c07_record_set_dt_size_eq.
