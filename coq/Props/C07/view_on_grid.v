(* Obligation C07/view_on_grid.  Statement as printed by Coq from Inferno.C07.ViewProofs; proof by reference.
   This file contains nothing else, so the statement cannot be weakened quietly. *)
From Coq Require Import List ZArith Reals Bool Lra Lia.
From Flocq Require Import Core.Raux Core.Generic_fmt.
From Inferno Require Import Base.Num Base.NumR Gen.Infra Gen.Interpolation C01.Ring C01.RingProofs C07.Reducer C07.ReducerProofs C07.ViewProofs.
Import ListNotations.
Open Scope R_scope.
Theorem view_on_grid : forall (A Obs : Type) (K : @rclass RN A Obs) (r : @reducer RN A) (time tol : R) (k : Z),
  @rwf RN A r ->
  @rinit RN A r = false ->
  0 < @rdt RN A r ->
  0 <= tol < @rdt RN A r / 2 ->
  (0 <= k < Z.of_nat (@N A unit (@rrec RN A r)))%Z ->
  Rabs (IZR k * @rdt RN A r - time) <= tol ->
  @rd_view_scalar RN A Obs K r time tol =
  @ROk RN A r
    (@RObs A match @stored_shape RN A r with
             | Some s => s
             | None => []
             end (@nth (list A) (Z.to_nat k) (@rhist RN A r) [])).
Proof. exact (@Inferno.C07.ViewProofs.view_on_grid). Qed.
Print Assumptions view_on_grid.
