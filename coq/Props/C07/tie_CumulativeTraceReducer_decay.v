(* Obligation C07/tie_CumulativeTraceReducer_decay.  Statement as printed by Coq from Inferno.C07.GenTieCumulative; proof by reference.
   This file contains nothing else, so the statement cannot be weakened quietly. *)
From Coq Require Import List ZArith Bool.
From Inferno Require Import Base.Num Gen.Infra Gen.Trace Gen.Math Gen.Interpolation Gen.ReducerClasses C01.Ring C07.Reducer C07.ReducerProofs C07.GenTieCumulative.
Import ListNotations.
Theorem tie_CumulativeTraceReducer_decay : forall (N : Num) (tau amp target : T N) (tol : option (T N)),
  kdecay (cls_cumulative N tau amp target tol) =
  Some (fun dt : T N => CumulativeTraceReducer_decay N dt tau).
Proof. exact (@Inferno.C07.GenTieCumulative.tie_CumulativeTraceReducer_decay). Qed.
Print Assumptions tie_CumulativeTraceReducer_decay.
