(* Obligation C07/tie_ScaledNearestTraceReducer_set_dt_decay.  Statement as printed by Coq from Inferno.C07.GenTieScaledNearest; proof by reference.
   This file contains nothing else, so the statement cannot be weakened quietly. *)
From Coq Require Import List ZArith Bool.
From Inferno Require Import Base.Num Gen.Infra Gen.Trace Gen.Math Gen.Interpolation Gen.ReducerClasses C01.Ring C07.Reducer C07.ReducerProofs C07.GenTieScaledNearest.
Import ListNotations.
Theorem tie_ScaledNearestTraceReducer_set_dt_decay : forall (N : Num) (tau amp scale : T N) (crit : T N -> bool) (r : reducer N) 
    (v : T N) (r' : reducer N) (out : rout),
  rd_set_dt N (cls_scaled_nearest N tau amp scale crit) r v = ROk r' out ->
  rdecay r' = ScaledNearestTraceReducer_decay N (rdt r') tau.
Proof. exact (@Inferno.C07.GenTieScaledNearest.tie_ScaledNearestTraceReducer_set_dt_decay). Qed.
Print Assumptions tie_ScaledNearestTraceReducer_set_dt_decay.
