(* Obligation C07/forward_spec.  Statement as printed by Coq from Inferno.C07.ReducerProofs; proof by reference.
   This file contains nothing else, so the statement cannot be weakened quietly. *)
From Coq Require Import List ZArith Bool Arith Lia.
From Inferno Require Import Base.Num Gen.Infra C01.Ring C01.RingProofs C07.Reducer C07.ReducerProofs.
Import ListNotations.
Theorem forward_spec : forall (M : Num) (A Obs : Type) (K : @rclass M A Obs) (r : @reducer M A) 
    (sh : list nat) (obs : list Obs),
  @rwf M A r ->
  0 < @N A unit (@rrec M A r) ->
  @shape_ok M A r sh ->
  exists rec' : @ring A unit,
    @forward M A Obs K r sh obs =
    @ROk M A (@set_init M A (@set_rec M A (@bump M A Obs K r) rec') false) (@RUnit A) /\
    @wf A unit rec' /\
    @full A unit rec' /\
    @N A unit rec' = @N A unit (@rrec M A r) /\
    @st A unit rec' =
    @SFull A unit tt match @stored_shape M A r with
                     | Some s => s
                     | None => sh
                     end (@rows A unit rec') /\
    @hist A unit rec' =
    @zipfold M A Obs K (@bump M A Obs K r) obs (@prior M A r)
    :: @removelast (list A) (@base M A Obs K r sh).
Proof. exact (@Inferno.C07.ReducerProofs.forward_spec). Qed.
Print Assumptions forward_spec.
