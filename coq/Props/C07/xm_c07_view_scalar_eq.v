(* Obligation XM/c07_view_scalar_eq.  Statement as printed by Coq from Inferno.XModel.SelectC07; proof by reference.
   This file contains nothing else, so the statement cannot be weakened quietly. *)
From Coq Require Import List ZArith Bool Arith Lia.
From Inferno Require Import Base.Num Gen.Infra C01.Ring.
From Inferno Require C02.Select C07.Reducer.
From Inferno Require Import XModel.XLists XModel.SelectC07.
Import ListNotations.
Theorem c07_view_scalar_eq : forall (M : Num) (Obs : Type) (K : @Reducer.rclass M (T M) Obs),
  ofZ M 1 = one M ->
  forall (r : @Reducer.reducer M (T M)) (time tol : T M),
  @Reducer.rinit M (T M) r = false ->
  @Reducer.rd_view_scalar M (T M) Obs K r time tol =
  of_result M r
    (Select.select_scalar M (@Reducer.rrec M (T M) r) (@Reducer.rdt M (T M) r) tol 1 time
       (@Reducer.kinterp M (T M) Obs K)).
Proof. exact (@Inferno.XModel.SelectC07.c07_view_scalar_eq). Qed.
Print Assumptions c07_view_scalar_eq.
