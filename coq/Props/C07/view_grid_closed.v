(* Obligation C07/view_grid_closed.  Statement as printed by Coq from Inferno.C07.ClosedProofs; proof by reference.
   This file contains nothing else, so the statement cannot be weakened quietly. *)
From Coq Require Import List ZArith Reals Bool Lra Lia.
From Flocq Require Import Core.Raux.
From Inferno Require Import Base.Num Base.NumR Gen.Infra Gen.Trace Gen.Interpolation C01.Ring C01.RingProofs C07.Reducer C07.ReducerProofs C07.TraceProofs C07.ViewProofs C07.ClosedProofs.
Import ListNotations.
Open Scope R_scope.
Theorem view_grid_closed : forall (A Obs : Type) (K : @rclass RN A Obs) (r : @reducer RN A) 
    (cf : list Obs -> A) (l : list Obs),
  @rwf RN A r ->
  @rinit RN A r = false ->
  @stored_shape RN A r = @Some (list nat) [] ->
  @rhist RN A r = @record_spec A Obs cf (@kfill RN A Obs K) (@N A unit (@rrec RN A r)) l ->
  forall (time tol : R) (k : Z),
  0 < @rdt RN A r ->
  0 <= tol < @rdt RN A r / 2 ->
  (0 <= k < Z.of_nat (@N A unit (@rrec RN A r)))%Z ->
  Rabs (IZR k * @rdt RN A r - time) <= tol ->
  @rd_view_scalar RN A Obs K r time tol =
  @ROk RN A r
    (@RObs A []
       (if Z.to_nat k <? @length Obs l
        then [cf (@firstn Obs (@length Obs l - Z.to_nat k) l)]
        else [@kfill RN A Obs K])).
Proof. exact (@Inferno.C07.ClosedProofs.view_grid_closed). Qed.
Print Assumptions view_grid_closed.
