(* Obligation C07/view_off_grid.  Statement as printed by Coq from Inferno.C07.ViewProofs; proof by reference.
   This file contains nothing else, so the statement cannot be weakened quietly. *)
From Coq Require Import List ZArith Reals Bool Lra Lia.
From Flocq Require Import Core.Raux Core.Generic_fmt.
From Inferno Require Import Base.Num Base.NumR Gen.Infra Gen.Interpolation C01.Ring C01.RingProofs C07.Reducer C07.ReducerProofs C07.ViewProofs.
Import ListNotations.
Open Scope R_scope.
Theorem view_off_grid : forall (A Obs : Type) (K : @rclass RN A Obs) (r : @reducer RN A) (time tol : R),
  @rwf RN A r ->
  @rinit RN A r = false ->
  0 < @rdt RN A r ->
  0 <= tol ->
  0 <= time <= @rdt RN A r * IZR (Z.of_nat (@N A unit (@rrec RN A r)) - 1) ->
  (forall j : Z, tol < Rabs (IZR j * @rdt RN A r - time)) ->
  let kf := Zfloor (time / @rdt RN A r) in
  let kc := (kf + 1)%Z in
  (0 <= kf)%Z /\
  (kc < Z.of_nat (@N A unit (@rrec RN A r)))%Z /\
  @rd_view_scalar RN A Obs K r time tol =
  @ROk RN A r
    (@RObs A match @stored_shape RN A r with
             | Some s => s
             | None => []
             end
       (@map2 A A A
          (fun p n : A => @kinterp RN A Obs K p n (IZR kc * @rdt RN A r - time) (@rdt RN A r))
          (@nth (list A) (Z.to_nat kc) (@rhist RN A r) [])
          (@nth (list A) (Z.to_nat kf) (@rhist RN A r) []))).
Proof. exact (@Inferno.C07.ViewProofs.view_off_grid). Qed.
Print Assumptions view_off_grid.
