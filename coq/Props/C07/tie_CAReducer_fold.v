(* Obligation C07/tie_CAReducer_fold.  Statement as printed by Coq from Inferno.C07.GenTieCA; proof by reference.
   This file contains nothing else, so the statement cannot be weakened quietly. *)
From Coq Require Import List ZArith Bool.
From Inferno Require Import Base.Num Gen.Infra Gen.Trace Gen.Math Gen.Interpolation Gen.ReducerClasses C01.Ring C07.Reducer C07.ReducerProofs C07.GenTieCA.
Import ListNotations.
Theorem tie_CAReducer_fold : forall (N : Num) (dt decay : T N) (cnt : Z) (o : T N) (s : option (T N)),
  kfold (cls_ca N) dt decay cnt o s = CAReducer_fold N cnt o s.
Proof. exact (@Inferno.C07.GenTieCA.tie_CAReducer_fold). Qed.
Print Assumptions tie_CAReducer_fold.
