(* Obligation C07/set_dt_trace_decay.  Statement as printed by Coq from Inferno.C07.ElementwiseProofs; proof by reference.
   This file contains nothing else, so the statement cannot be weakened quietly. *)
From Coq Require Import List ZArith Reals Bool Lra Lia.
From Flocq Require Import Core.Raux.
From Inferno Require Import Base.Num Base.NumR Gen.Infra Gen.Trace Gen.Interpolation C01.Ring C01.RingProofs C07.Reducer C07.ReducerProofs C07.TraceProofs C07.ViewProofs C07.ClosedProofs C07.ElementwiseProofs.
Import ListNotations.
Open Scope R_scope.
Theorem set_dt_trace_decay : forall (r : reducer RN) (tau a target : T RN) (tol : option (T RN)) (v : R),
  0 < v ->
  exists r' : reducer RN,
    rd_set_dt RN (cls_cumulative RN tau a target tol) r v = ROk r' RUnit /\
    rdt r' = v /\ rdecay r' = Rtrigo_def.exp (- v / tau).
Proof. exact (@Inferno.C07.ElementwiseProofs.set_dt_trace_decay). Qed.
Print Assumptions set_dt_trace_decay.
