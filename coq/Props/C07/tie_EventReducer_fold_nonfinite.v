(* Obligation C07/tie_EventReducer_fold_nonfinite.  Statement as printed by Coq from Inferno.C07.GenTieEvent; proof by reference.
   This file contains nothing else, so the statement cannot be weakened quietly. *)
From Coq Require Import List ZArith Bool.
From Inferno Require Import Base.Num Gen.Infra Gen.Trace Gen.Math Gen.Interpolation Gen.ReducerClasses C01.Ring C07.Reducer C07.ReducerProofs C07.GenTieEvent.
Import ListNotations.
Theorem tie_EventReducer_fold_nonfinite : forall (N : Num) (crit : T N -> bool) (i : einit) (dt decay : T N) (cnt : Z) (o : T N),
  kfold (cls_event N crit i) dt decay cnt o (Some None) =
  (if crit o then Some (zero N) else None) /\
  (event_init N i = None ->
   kfold (cls_event N crit i) dt decay cnt o None = (if crit o then Some (zero N) else None)).
Proof. exact (@Inferno.C07.GenTieEvent.tie_EventReducer_fold_nonfinite). Qed.
Print Assumptions tie_EventReducer_fold_nonfinite.
