(* Obligation C07/fold_rows_prefix.  Statement as printed by Coq from Inferno.C07.ReducerProofs; proof by reference.
   This file contains nothing else, so the statement cannot be weakened quietly. *)
From Coq Require Import List ZArith Bool Arith Lia.
From Inferno Require Import Base.Num Gen.Infra C01.Ring C01.RingProofs C07.Reducer C07.ReducerProofs.
Import ListNotations.
Theorem fold_rows_prefix : forall (M : Num) (A Obs : Type) (K : rclass M) (r : reducer M) (p : option (list A))
    (l : list (list Obs)) (k : nat),
  k < length l ->
  nth k (fold_rows K r p l) [] = hd [] (fold_rows K r p (firstn (length l - k) l)).
Proof. exact (@Inferno.C07.ReducerProofs.fold_rows_prefix). Qed.
Print Assumptions fold_rows_prefix.
