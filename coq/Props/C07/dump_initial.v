(* Obligation C07/dump_initial.  Statement as printed by Coq from Inferno.C07.ReducerProofs; proof by reference.
   This file contains nothing else, so the statement cannot be weakened quietly. *)
From Coq Require Import List ZArith Bool Arith Lia.
From Inferno Require Import Base.Num Gen.Infra C01.Ring C01.RingProofs C07.Reducer C07.ReducerProofs.
Import ListNotations.
Theorem dump_initial : forall (M : Num) (A : Type) (r : @reducer M A),
  @rinit M A r = true -> @rd_dump M A r = @ROk M A r (@RNone A).
Proof. exact (@Inferno.C07.ReducerProofs.dump_initial). Qed.
Print Assumptions dump_initial.
