(* Obligation C07/tie_ScaledCumulativeTraceReducer_fold.  Statement as printed by Coq from Inferno.C07.GenTieScaledCumulative; proof by reference.
   This file contains nothing else, so the statement cannot be weakened quietly. *)
From Coq Require Import List ZArith Bool.
From Inferno Require Import Base.Num Gen.Infra Gen.Trace Gen.Math Gen.Interpolation Gen.ReducerClasses C01.Ring C07.Reducer C07.ReducerProofs C07.GenTieScaledCumulative.
Import ListNotations.
Theorem tie_ScaledCumulativeTraceReducer_fold : forall (N : Num) (tau amp scale : T N) (crit : T N -> bool) (dt decay : T N) 
    (cnt : Z) (o : T N) (s : option (T N)),
  kfold (cls_scaled_cumulative N tau amp scale crit) dt decay cnt o s =
  ScaledCumulativeTraceReducer_fold N amp crit decay scale o s.
Proof. exact (@Inferno.C07.GenTieScaledCumulative.tie_ScaledCumulativeTraceReducer_fold). Qed.
Print Assumptions tie_ScaledCumulativeTraceReducer_fold.
