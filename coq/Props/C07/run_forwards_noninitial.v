(* Obligation C07/run_forwards_noninitial.  Statement as printed by Coq from Inferno.C07.ReducerProofs; proof by reference.
   This file contains nothing else, so the statement cannot be weakened quietly. *)
From Coq Require Import List ZArith Bool Arith Lia.
From Inferno Require Import Base.Num Gen.Infra C01.Ring C01.RingProofs C07.Reducer C07.ReducerProofs.
Import ListNotations.
Theorem run_forwards_noninitial : forall (M : Num) (A Obs : Type) (K : @rclass M A Obs) (sh : list nat)
    (obs : list (list Obs)) (r : @reducer M A),
  @rwf M A r ->
  0 < @N A unit (@rrec M A r) ->
  @shape_ok M A r sh ->
  @rinit M A r = false ->
  let r' := @final M A Obs K r (@fwd_ops M Obs sh obs) in
  @rwf M A r' /\
  @N A unit (@rrec M A r') = @N A unit (@rrec M A r) /\
  @rinit M A r' = false /\
  @stored_shape M A r' = @stored_shape M A r /\
  @same_cfg M A r r' /\
  @all_ok M A (@outputs M A Obs K r (@fwd_ops M Obs sh obs)) /\
  @rhist M A r' =
  @firstn (list A) (@N A unit (@rrec M A r))
    (@fold_rows M A Obs K r (@Some (list A) (@hd (list A) [] (@rhist M A r))) obs ++
     @rhist M A r).
Proof. exact (@Inferno.C07.ReducerProofs.run_forwards_noninitial). Qed.
Print Assumptions run_forwards_noninitial.
