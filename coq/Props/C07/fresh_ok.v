(* Obligation C07/fresh_ok.  Statement as printed by Coq from Inferno.C07.ReducerProofs; proof by reference.
   This file contains nothing else, so the statement cannot be weakened quietly. *)
From Coq Require Import List ZArith Bool Arith Lia.
From Inferno Require Import Base.Num Gen.Infra C01.Ring C01.RingProofs C07.Reducer C07.ReducerProofs.
Import ListNotations.
Theorem fresh_ok : forall (M : Num) (A Obs : Type) (K : @rclass M A Obs) (dt dur : T M) (incl inpl : bool),
  @state_ok M A Obs K (@fresh M A Obs K dt dur incl inpl).
Proof. exact (@Inferno.C07.ReducerProofs.fresh_ok). Qed.
Print Assumptions fresh_ok.
