(* Obligation C07/view_out_of_range.  Statement as printed by Coq from Inferno.C07.ViewProofs; proof by reference.
   This file contains nothing else, so the statement cannot be weakened quietly. *)
From Coq Require Import List ZArith Reals Bool Lra Lia.
From Flocq Require Import Core.Raux Core.Generic_fmt.
From Inferno Require Import Base.Num Base.NumR Gen.Infra Gen.Interpolation C01.Ring C01.RingProofs C07.Reducer C07.ReducerProofs C07.ViewProofs.
Import ListNotations.
Open Scope R_scope.
Theorem view_out_of_range : forall (A Obs : Type) (K : @rclass RN A Obs) (r : @reducer RN A) (time tol : R),
  @rwf RN A r ->
  @rinit RN A r = false ->
  time < - tol \/ @rdt RN A r * IZR (Z.of_nat (@N A unit (@rrec RN A r)) - 1) + tol < time ->
  @rd_view_scalar RN A Obs K r time tol = @RErr RN A r EValue.
Proof. exact (@Inferno.C07.ViewProofs.view_out_of_range). Qed.
Print Assumptions view_out_of_range.
