(* Obligation C07/set_dt_rejects.  Statement as printed by Coq from Inferno.C07.ElementwiseProofs; proof by reference.
   This file contains nothing else, so the statement cannot be weakened quietly. *)
From Coq Require Import List ZArith Reals Bool Lra Lia.
From Flocq Require Import Core.Raux.
From Inferno Require Import Base.Num Base.NumR Gen.Infra Gen.Trace Gen.Interpolation C01.Ring C01.RingProofs C07.Reducer C07.ReducerProofs C07.TraceProofs C07.ViewProofs C07.ClosedProofs C07.ElementwiseProofs.
Import ListNotations.
Open Scope R_scope.
Theorem set_dt_rejects : forall (A Obs : Type) (K : @rclass RN A Obs) (r : @reducer RN A) (v : R),
  v <= 0 -> @rd_set_dt RN A Obs K r v = @RErr RN A r EValue.
Proof. exact (@Inferno.C07.ElementwiseProofs.set_dt_rejects). Qed.
Print Assumptions set_dt_rejects.
