(* Obligation C07/tie_EMAReducer_interpolate.  Statement as printed by Coq from Inferno.C07.GenTieEMA; proof by reference.
   This file contains nothing else, so the statement cannot be weakened quietly. *)
From Coq Require Import List ZArith Bool.
From Inferno Require Import Base.Num Gen.Infra Gen.Trace Gen.Math Gen.Interpolation Gen.ReducerClasses C01.Ring C07.Reducer C07.ReducerProofs C07.GenTieEMA.
Import ListNotations.
Theorem tie_EMAReducer_interpolate : forall (N : Num) (alpha p n sa st : T N),
  kinterp (cls_ema N alpha) p n sa st = EMAReducer_interpolate N p n sa st.
Proof. exact (@Inferno.C07.GenTieEMA.tie_EMAReducer_interpolate). Qed.
Print Assumptions tie_EMAReducer_interpolate.
