(* Obligation C07/tie_PassthroughReducer_fold.  Statement as printed by Coq from Inferno.C07.GenTiePassthrough; proof by reference.
   This file contains nothing else, so the statement cannot be weakened quietly. *)
From Coq Require Import List ZArith Bool.
From Inferno Require Import Base.Num Gen.Infra Gen.Trace Gen.Math Gen.Interpolation Gen.ReducerClasses C01.Ring C07.Reducer C07.ReducerProofs C07.GenTiePassthrough.
Import ListNotations.
Theorem tie_PassthroughReducer_fold : forall (N : Num) (dt decay : T N) (cnt : Z) (o : T N) (s : option (T N)),
  kfold (cls_pass N) dt decay cnt o s = PassthroughReducer_fold N o s.
Proof. exact (@Inferno.C07.GenTiePassthrough.tie_PassthroughReducer_fold). Qed.
Print Assumptions tie_PassthroughReducer_fold.
