(* Obligation XM/c07_view_scalar_eq_R.  Statement as printed by Coq from Inferno.XModel.SelectC07R; proof by reference.
   This file contains nothing else, so the statement cannot be weakened quietly. *)
From Coq Require Import List ZArith Bool Arith Reals.
From Inferno Require Import Base.Num Base.NumR Gen.Infra C01.Ring.
From Inferno Require C02.Select.
From Inferno Require Import C07.Reducer XModel.XLists XModel.SelectC07 XModel.SelectC07R.
Import ListNotations.
Theorem c07_view_scalar_eq_R : forall (Obs : Type) (K : @rclass RN R Obs) (r : @reducer RN R) (time tol : T RN),
  @rinit RN R r = false ->
  @rd_view_scalar RN R Obs K r time tol =
  of_result RN r
    (Select.select_scalar RN (@rrec RN R r) (@rdt RN R r) tol 1 time (@kinterp RN R Obs K)).
Proof. exact (@Inferno.XModel.SelectC07R.c07_view_scalar_eq_R). Qed.
Print Assumptions c07_view_scalar_eq_R.
