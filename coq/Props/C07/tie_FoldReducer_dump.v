(* Obligation C07/tie_FoldReducer_dump.  Statement as printed by Coq from Inferno.C07.GenTieFoldReducer; proof by reference.
   This file contains nothing else, so the statement cannot be weakened quietly. *)
From Coq Require Import List ZArith Bool.
From Inferno Require Import Base.Num Gen.Infra Gen.Trace Gen.Math Gen.Interpolation Gen.ReducerClasses C01.Ring C07.Reducer C07.ReducerProofs C07.GenTieFoldReducer.
Import ListNotations.
Theorem tie_FoldReducer_dump : forall (M : Num) (A : Type) (r r' : @reducer M A) (out : @rout A),
  @rd_dump M A r = @ROk M A r' out ->
  @rrec M A r' =
  @fst (@ring A unit) (option (option (list nat * list (list A))))
    (@FoldReducer_dump (@ring A unit) (option (list nat * list (list A))) 
       (@op_align0 A) (@op_value_flip A) (@rinit M A r) (@rrec M A r)) /\
  out =
  match
    @snd (@ring A unit) (option (option (list nat * list (list A))))
      (@FoldReducer_dump (@ring A unit) (option (list nat * list (list A))) 
         (@op_align0 A) (@op_value_flip A) (@rinit M A r) (@rrec M A r))
  with
  | Some (Some (sh, rows)) => @RRows A sh rows
  | _ => @RNone A
  end.
Proof. exact (@Inferno.C07.GenTieFoldReducer.tie_FoldReducer_dump). Qed.
Print Assumptions tie_FoldReducer_dump.
