(* Obligation C07/clear_keepshape.  Statement as printed by Coq from Inferno.C07.ReducerProofs; proof by reference.
   This file contains nothing else, so the statement cannot be weakened quietly. *)
From Coq Require Import List ZArith Bool Arith Lia.
From Inferno Require Import Base.Num Gen.Infra C01.Ring C01.RingProofs C07.Reducer C07.ReducerProofs.
Import ListNotations.
Theorem clear_keepshape : forall (M : Num) (A Obs : Type) (K : @rclass M A Obs) (r : @reducer M A),
  @rwf M A r ->
  @full A unit (@rrec M A r) ->
  exists rec' : @ring A unit,
    @rd_clear M A Obs K r true =
    @ROk M A
      (@set_init M A
         (@set_rec M A (if @kcounts M A Obs K then @set_count M A r 0 else r) rec') true)
      (@RUnit A) /\
    @wf A unit rec' /\
    @full A unit rec' /\
    @N A unit rec' = @N A unit (@rrec M A r) /\
    @stored_shape M A (@set_rec M A r rec') = @stored_shape M A r /\
    @Forall (list A) (fun row : list A => @Forall A (@eq A (@kfill M A Obs K)) row)
      (@hist A unit rec') /\
    (forall k : Z,
     @length A (@at_ A unit rec' k) =
     @length A (@at_ A unit (@rrec M A r) (k + Z.of_nat (@ptr A unit (@rrec M A r))))).
Proof. exact (@Inferno.C07.ReducerProofs.clear_keepshape). Qed.
Print Assumptions clear_keepshape.
