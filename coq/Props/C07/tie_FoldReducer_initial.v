(* Obligation C07/tie_FoldReducer_initial.  Statement as printed by Coq from Inferno.C07.GenTieFoldReducer; proof by reference.
   This file contains nothing else, so the statement cannot be weakened quietly. *)
From Coq Require Import List ZArith Bool.
From Inferno Require Import Base.Num Gen.Infra Gen.Trace Gen.Math Gen.Interpolation Gen.ReducerClasses C01.Ring C07.Reducer C07.ReducerProofs C07.GenTieFoldReducer.
Import ListNotations.
Theorem tie_FoldReducer_initial : forall (M : Num) (A Obs : Type) (K : @rclass M A Obs) (dt dur : T M) (incl inpl : bool),
  @rinit M A (@fresh M A Obs K dt dur incl inpl) = FoldReducer_initial.
Proof. exact (@Inferno.C07.GenTieFoldReducer.tie_FoldReducer_initial). Qed.
Print Assumptions tie_FoldReducer_initial.
