(* Obligation C07/set_dt_spec.  Statement as printed by Coq from Inferno.C07.ElementwiseProofs; proof by reference.
   This file contains nothing else, so the statement cannot be weakened quietly. *)
From Coq Require Import List ZArith Reals Bool Lra Lia.
From Flocq Require Import Core.Raux.
From Inferno Require Import Base.Num Base.NumR Gen.Infra Gen.Trace Gen.Interpolation C01.Ring C01.RingProofs C07.Reducer C07.ReducerProofs C07.TraceProofs C07.ViewProofs C07.ClosedProofs C07.ElementwiseProofs.
Import ListNotations.
Open Scope R_scope.
Theorem set_dt_spec : forall (A Obs : Type) (K : @rclass RN A Obs) (r : @reducer RN A) (v : R),
  0 < v ->
  exists r' : @reducer RN A,
    @rd_set_dt RN A Obs K r v = @ROk RN A r' (@RUnit A) /\
    @rdt RN A r' = v /\
    @rdecay RN A r' =
    match @kdecay RN A Obs K with
    | Some f => f v
    | None => @rdecay RN A r
    end /\
    @rdur RN A r' = @rdur RN A r /\
    @rincl RN A r' = @rincl RN A r /\
    @rinpl RN A r' = @rinpl RN A r /\
    @rcount RN A r' = @rcount RN A r /\
    @rinit RN A r' = @rinit RN A r /\ (v = @rdt RN A r -> @rrec RN A r' = @rrec RN A r).
Proof. exact (@Inferno.C07.ElementwiseProofs.set_dt_spec). Qed.
Print Assumptions set_dt_spec.
