(* Obligation C07/ca_is_mean.  Statement as printed by Coq from Inferno.C07.TraceProofs; proof by reference.
   This file contains nothing else, so the statement cannot be weakened quietly. *)
From Coq Require Import List ZArith Reals Bool Lra Lia.
From Inferno Require Import Base.Num Base.NumR Gen.Trace Gen.Interpolation C01.Ring C07.Reducer C07.TraceProofs.
Import ListNotations.
Open Scope R_scope.
Theorem ca_is_mean : forall l : list R,
  ca_run l =
  match l with
  | [] => (None, 0%Z)
  | _ :: _ => (Some (sum_list l / INR (length l)), Z.of_nat (length l))
  end.
Proof. exact (@Inferno.C07.TraceProofs.ca_is_mean). Qed.
Print Assumptions ca_is_mean.
