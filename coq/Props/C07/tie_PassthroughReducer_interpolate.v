(* Obligation C07/tie_PassthroughReducer_interpolate.  Statement as printed by Coq from Inferno.C07.GenTiePassthrough; proof by reference.
   This file contains nothing else, so the statement cannot be weakened quietly. *)
From Coq Require Import List ZArith Bool.
From Inferno Require Import Base.Num Gen.Infra Gen.Trace Gen.Math Gen.Interpolation Gen.ReducerClasses C01.Ring C07.Reducer C07.ReducerProofs C07.GenTiePassthrough.
Import ListNotations.
Theorem tie_PassthroughReducer_interpolate : forall (N : Num) (p n sa st : T N),
  kinterp (cls_pass N) p n sa st = PassthroughReducer_interpolate N p n sa st.
Proof. exact (@Inferno.C07.GenTiePassthrough.tie_PassthroughReducer_interpolate). Qed.
Print Assumptions tie_PassthroughReducer_interpolate.
