(* Obligation C07/select_elem_eq_scalar.  Statement as printed by Coq from Inferno.C07.ViewProofs; proof by reference.
   This file contains nothing else, so the statement cannot be weakened quietly. *)
From Coq Require Import List ZArith Reals Bool Lra Lia.
From Flocq Require Import Core.Raux Core.Generic_fmt.
From Inferno Require Import Base.Num Base.NumR Gen.Infra Gen.Interpolation C01.Ring C01.RingProofs C07.Reducer C07.ReducerProofs C07.ViewProofs.
Import ListNotations.
Open Scope R_scope.
Theorem select_elem_eq_scalar : forall (A Obs : Type) (K : @rclass RN A Obs) (r : @reducer RN A) 
    (rows : list (list A)) (e : nat) (time : T RN) (tol : R),
  0 < @rdt RN A r ->
  0 <= tol ->
  (forall k : Z, (e < @length A (@row_at A (@rrec RN A r) rows k))%nat) ->
  @select_elem RN A Obs K r rows e time tol =
  @nth A e (@select_scalar RN A Obs K r rows time tol) (@kzero RN A Obs K).
Proof. exact (@Inferno.C07.ViewProofs.select_elem_eq_scalar). Qed.
Print Assumptions select_elem_eq_scalar.
