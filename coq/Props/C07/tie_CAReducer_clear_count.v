(* Obligation C07/tie_CAReducer_clear_count.  Statement as printed by Coq from Inferno.C07.GenTieCA; proof by reference.
   This file contains nothing else, so the statement cannot be weakened quietly. *)
From Coq Require Import List ZArith Bool.
From Inferno Require Import Base.Num Gen.Infra Gen.Trace Gen.Math Gen.Interpolation Gen.ReducerClasses C01.Ring C07.Reducer C07.ReducerProofs C07.GenTieCA.
Import ListNotations.
Theorem tie_CAReducer_clear_count : forall (N : Num) (r : reducer N) (ks : bool),
  rcount (res_state (rd_clear N (cls_ca N) r ks)) = CAReducer_clear_count.
Proof. exact (@Inferno.C07.GenTieCA.tie_CAReducer_clear_count). Qed.
Print Assumptions tie_CAReducer_clear_count.
