(* Obligation C07/event_time_since_last.  Statement as printed by Coq from Inferno.C07.TraceProofs; proof by reference.
   This file contains nothing else, so the statement cannot be weakened quietly. *)
From Coq Require Import List ZArith Reals Bool Lra Lia.
From Inferno Require Import Base.Num Base.NumR Gen.Trace Gen.Interpolation C01.Ring C07.Reducer C07.TraceProofs.
Import ListNotations.
Open Scope R_scope.
Theorem event_time_since_last : forall (crit : R -> bool) (i : einit) (l : list (R * R)),
  event_run crit i l = match l with
                       | [] => None
                       | _ :: _ => Some (event_closed crit i l)
                       end.
Proof. exact (@Inferno.C07.TraceProofs.event_time_since_last). Qed.
Print Assumptions event_time_since_last.
