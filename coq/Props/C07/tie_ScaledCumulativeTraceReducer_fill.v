(* Obligation C07/tie_ScaledCumulativeTraceReducer_fill.  Statement as printed by Coq from Inferno.C07.GenTieScaledCumulative; proof by reference.
   This file contains nothing else, so the statement cannot be weakened quietly. *)
From Coq Require Import List ZArith Bool.
From Inferno Require Import Base.Num Gen.Infra Gen.Trace Gen.Math Gen.Interpolation Gen.ReducerClasses C01.Ring C07.Reducer C07.ReducerProofs C07.GenTieScaledCumulative.
Import ListNotations.
Theorem tie_ScaledCumulativeTraceReducer_fill : forall (N : Num) (tau amp scale : T N) (crit : T N -> bool),
  kfill (cls_scaled_cumulative N tau amp scale crit) = ScaledCumulativeTraceReducer_fill N /\
  kcounts (cls_scaled_cumulative N tau amp scale crit) = false.
Proof. exact (@Inferno.C07.GenTieScaledCumulative.tie_ScaledCumulativeTraceReducer_fill). Qed.
Print Assumptions tie_ScaledCumulativeTraceReducer_fill.
