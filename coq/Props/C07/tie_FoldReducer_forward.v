(* Obligation C07/tie_FoldReducer_forward.  Statement as printed by Coq from Inferno.C07.GenTieFoldReducer; proof by reference.
   This file contains nothing else, so the statement cannot be weakened quietly. *)
From Coq Require Import List ZArith Bool.
From Inferno Require Import Base.Num Gen.Infra Gen.Trace Gen.Math Gen.Interpolation Gen.ReducerClasses C01.Ring C07.Reducer C07.ReducerProofs C07.GenTieFoldReducer.
Import ListNotations.
Theorem tie_FoldReducer_forward : forall (M : Num) (A Obs : Type) (K : @rclass M A Obs) (r r' : @reducer M A) 
    (sh : list nat) (obs : list Obs) (out : @rout A),
  @forward M A Obs K r sh obs = @ROk M A r' out ->
  (@rrec M A r', @rinit M A r') =
  @FoldReducer_forward (@ring A unit) (list A) (@zipfold M A Obs K (@bump M A Obs K r) obs)
    (@op_peek A) (@op_push M A Obs K sh (@rinpl M A r)) (@ignored A)
    (@op_initialize M A Obs K sh) (@rinit M A r) (@rrec M A r).
Proof. exact (@Inferno.C07.GenTieFoldReducer.tie_FoldReducer_forward). Qed.
Print Assumptions tie_FoldReducer_forward.
