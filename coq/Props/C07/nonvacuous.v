(* Obligation C07/nonvacuous: the hypotheses of the C07 theorems (state invariants rwf / state_ok, "the record is the
   closed-form record of a history", the on-grid and off-grid time conditions of the view theorems) are met by a
   concrete non-trivial reducer reached by real operations: a cumulative trace reducer (tau = 2, amplitude = 3/2,
   dt = 1, duration = 2 inclusive, i.e. three record slots) that has observed [1; 0; 1].  Its peek is the closed form
   3/2 * exp(-1) + 3/2. *)
From Coq Require Import List ZArith Reals Bool Lra Lia.
From Flocq Require Import Core.Raux.
From Inferno Require Import Base.Num Base.NumR Gen.Infra Gen.Trace Gen.Interpolation C01.Ring C01.RingProofs
  C07.Reducer C07.ReducerProofs C07.TraceProofs C07.ViewProofs C07.ClosedProofs.
Import ListNotations.
Open Scope R_scope.

Definition Kc := cls_cumulative RN 2 (3 / 2) 1 None.
Definition hist3 : list R := [1; 0; 1].
Definition r3 := final Kc (fresh RN Kc 1 2 true false) (fwd_ops [] (map single hist3)).

Lemma N_fresh : N (rrec (fresh RN Kc 1 2 true false)) = 3%nat.
Proof.
  unfold fresh, recordsz_expr. cbn [rrec N]. rn_simpl.
  replace (2 / 1) with (IZR 2) by (cbn; field). rewrite Zceil_IZR. reflexivity.
Qed.

Theorem nonvacuous :
  state_ok Kc r3 /\ rwf r3 /\ rinit r3 = false /\ stored_shape r3 = Some [] /\ N (rrec r3) = 3%nat /\ rdt r3 = 1 /\
  hist3 <> [] /\
  rhist r3 = record_spec (cumulative_cf 1 2 (3 / 2) 1 None) (kfill Kc) (N (rrec r3)) hist3 /\
  (* time conditions of view_on_grid / view_grid_closed with k = 1, time = 1, tolerance 1/10 *)
  0 < rdt r3 /\ 0 <= / 10 < rdt r3 / 2 /\ (0 <= 1 < Z.of_nat (N (rrec r3)))%Z /\ Rabs (IZR 1 * rdt r3 - 1) <= / 10 /\
  (* time conditions of view_off_grid / view_offgrid_closed with time = 3/2 *)
  0 <= 3 / 2 <= rdt r3 * IZR (Z.of_nat (N (rrec r3)) - 1) /\ (forall j : Z, / 10 < Rabs (IZR j * rdt r3 - 3 / 2)) /\
  (* and the conclusion of peek_closed on it, evaluated *)
  rd_peek RN r3 = ROk r3 (RObs [] [3 / 2 * Rtrigo_def.exp (- 1) + 3 / 2]).
Proof.
  assert (Hne : hist3 <> []) by discriminate.
  destruct (cumulative_reducer_record 1 2 true false 2 (3 / 2) 1 None hist3 Hne) as (Hw & Hi & HN & Hs & Hdt & _ & Hh).
  fold Kc in Hw, Hi, HN, Hs, Hdt, Hh. fold r3 in Hw, Hi, HN, Hs, Hdt, Hh.
  rewrite N_fresh in HN, Hh.
  split. { unfold r3. apply run_ok. apply fresh_ok. }
  split; [exact Hw|]. split; [exact Hi|]. split; [exact Hs|]. split; [exact HN|]. split; [exact Hdt|].
  split; [exact Hne|]. split; [rewrite HN; exact Hh|].
  rewrite Hdt, HN. split; [lra|]. split; [lra|]. split; [lia|].
  split. { replace (IZR 1 * 1 - 1) with 0 by (cbn; ring). rewrite Rabs_R0. lra. }
  split. { cbn. lra. }
  split.
  { intros j. destruct (Z_le_gt_dec j 1) as [Hj|Hj].
    - apply IZR_le in Hj. rewrite Rabs_left by lra. lra.
    - assert (Hj2 : (2 <= j)%Z) by lia. apply IZR_le in Hj2. rewrite Rabs_right by lra. lra. }
  rewrite (peek_closed Kc r3 (cumulative_cf 1 2 (3 / 2) 1 None) hist3 Hw Hi Hs Hne) by (rewrite HN; exact Hh).
  f_equal. f_equal. f_equal. unfold cumulative_cf, hist3, ages, matchb. cbn [length seq rev app combine map sum_list fst snd].
  destruct (Reqb'_spec 1 1) as [_|H]; [|lra]. destruct (Reqb'_spec 0 1) as [H|_]; [lra|].
  replace (- (INR 2 * 1) / 2) with (- 1) by (cbn; field).
  replace (- (INR 0 * 1) / 2) with 0 by (cbn; field). rewrite exp_0. lra.
Qed.
Print Assumptions nonvacuous.
