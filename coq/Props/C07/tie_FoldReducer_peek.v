(* Obligation C07/tie_FoldReducer_peek.  Statement as printed by Coq from Inferno.C07.GenTieFoldReducer; proof by reference.
   This file contains nothing else, so the statement cannot be weakened quietly. *)
From Coq Require Import List ZArith Bool.
From Inferno Require Import Base.Num Gen.Infra Gen.Trace Gen.Math Gen.Interpolation Gen.ReducerClasses C01.Ring C07.Reducer C07.ReducerProofs C07.GenTieFoldReducer.
Import ListNotations.
Theorem tie_FoldReducer_peek : forall (M : Num) (A : Type) (r : @reducer M A),
  @rd_peek M A r =
  @ROk M A r
    match
      @FoldReducer_peek (@ring A unit) (list nat * list A)
        (fun s : @ring A unit =>
         match @peek A unit s with
         | Ok _ (OObs _ sh el) => @Some (list nat * list A) (sh, el)
         | _ => @None (list nat * list A)
         end) (@rinit M A r) (@rrec M A r)
    with
    | Some (sh, el) => @RObs A sh el
    | None => @RNone A
    end.
Proof. exact (@Inferno.C07.GenTieFoldReducer.tie_FoldReducer_peek). Qed.
Print Assumptions tie_FoldReducer_peek.
