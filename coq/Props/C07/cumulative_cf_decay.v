(* Obligation C07/cumulative_cf_decay.  Statement as printed by Coq from Inferno.C07.ElementwiseProofs; proof by reference.
   This file contains nothing else, so the statement cannot be weakened quietly. *)
From Coq Require Import List ZArith Reals Bool Lra Lia.
From Flocq Require Import Core.Raux.
From Inferno Require Import Base.Num Base.NumR Gen.Infra Gen.Trace Gen.Interpolation C01.Ring C01.RingProofs C07.Reducer C07.ReducerProofs C07.TraceProofs C07.ViewProofs C07.ClosedProofs C07.ElementwiseProofs.
Import ListNotations.
Open Scope R_scope.
Theorem cumulative_cf_decay : forall (dt tau a target : R) (tol : option R) (m : list R) (s : R),
  cumulative_cf dt tau a target tol m * Rtrigo_def.exp (- s / tau) =
  sum_list
    (map
       (fun ko : nat * R =>
        if matchb target tol (snd ko)
        then a * Rtrigo_def.exp (- (INR (fst ko) * dt + s) / tau)
        else 0) (ages m)).
Proof. exact (@Inferno.C07.ElementwiseProofs.cumulative_cf_decay). Qed.
Print Assumptions cumulative_cf_decay.
