(* Obligation C07/last_event_none.  Statement as printed by Coq from Inferno.C07.TraceProofs; proof by reference.
   This file contains nothing else, so the statement cannot be weakened quietly. *)
From Coq Require Import List ZArith Reals Bool Lra Lia.
From Inferno Require Import Base.Num Base.NumR Gen.Trace Gen.Interpolation C01.Ring C07.Reducer C07.TraceProofs.
Import ListNotations.
Open Scope R_scope.
Theorem last_event_none : forall (Obs : Type) (m : Obs -> bool) (l : list (R * Obs)),
  last_event m l = None <-> (forall p : R * Obs, In p l -> m (snd p) = false).
Proof. exact (@Inferno.C07.TraceProofs.last_event_none). Qed.
Print Assumptions last_event_none.
