(* Obligation C07/interp_avg_linear.  Statement as printed by Coq from Inferno.C07.ViewProofs; proof by reference.
   This file contains nothing else, so the statement cannot be weakened quietly. *)
From Coq Require Import List ZArith Reals Bool Lra Lia.
From Flocq Require Import Core.Raux Core.Generic_fmt.
From Inferno Require Import Base.Num Base.NumR Gen.Infra Gen.Interpolation C01.Ring C01.RingProofs C07.Reducer C07.ReducerProofs C07.ViewProofs.
Import ListNotations.
Open Scope R_scope.
Theorem interp_avg_linear : forall p n sa dt : R, kinterp (cls_ca RN) p n sa dt = p + (n - p) / dt * sa.
Proof. exact (@Inferno.C07.ViewProofs.interp_avg_linear). Qed.
Print Assumptions interp_avg_linear.
