(* Obligation C07/tie_CAReducer_interpolate.  Statement as printed by Coq from Inferno.C07.GenTieCA; proof by reference.
   This file contains nothing else, so the statement cannot be weakened quietly. *)
From Coq Require Import List ZArith Bool.
From Inferno Require Import Base.Num Gen.Infra Gen.Trace Gen.Math Gen.Interpolation Gen.ReducerClasses C01.Ring C07.Reducer C07.ReducerProofs C07.GenTieCA.
Import ListNotations.
Theorem tie_CAReducer_interpolate : forall (N : Num) (p n sa st : T N),
  kinterp (cls_ca N) p n sa st = CAReducer_interpolate N p n sa st.
Proof. exact (@Inferno.C07.GenTieCA.tie_CAReducer_interpolate). Qed.
Print Assumptions tie_CAReducer_interpolate.
