(* Obligation C07/tie_ConditionalNearestTraceReducer_fold.  Statement as printed by Coq from Inferno.C07.GenTieConditionalNearest; proof by reference.
   This file contains nothing else, so the statement cannot be weakened quietly. *)
From Coq Require Import List ZArith Bool.
From Inferno Require Import Base.Num Gen.Infra Gen.Trace Gen.Math Gen.Interpolation Gen.ReducerClasses C01.Ring C07.Reducer C07.ReducerProofs C07.GenTieConditionalNearest.
Import ListNotations.
Theorem tie_ConditionalNearestTraceReducer_fold : forall (N : Num) (tau amp scale dt decay : T N) (cnt : Z) (o : T N * bool)
    (s : option (T N)),
  kfold (cls_cond_nearest N tau amp scale) dt decay cnt o s =
  ConditionalNearestTraceReducer_fold N amp decay scale (fst o) (snd o) s.
Proof. exact (@Inferno.C07.GenTieConditionalNearest.tie_ConditionalNearestTraceReducer_fold). Qed.
Print Assumptions tie_ConditionalNearestTraceReducer_fold.
