(* Obligation C07/tie_NearestTraceReducer_fill.  Statement as printed by Coq from Inferno.C07.GenTieNearest; proof by reference.
   This file contains nothing else, so the statement cannot be weakened quietly. *)
From Coq Require Import List ZArith Bool.
From Inferno Require Import Base.Num Gen.Infra Gen.Trace Gen.Math Gen.Interpolation Gen.ReducerClasses C01.Ring C07.Reducer C07.ReducerProofs C07.GenTieNearest.
Import ListNotations.
Theorem tie_NearestTraceReducer_fill : forall (N : Num) (tau amp target : T N) (tol : option (T N)),
  kfill (cls_nearest N tau amp target tol) = NearestTraceReducer_fill N /\
  kcounts (cls_nearest N tau amp target tol) = false.
Proof. exact (@Inferno.C07.GenTieNearest.tie_NearestTraceReducer_fill). Qed.
Print Assumptions tie_NearestTraceReducer_fill.
