(* Obligation C07/cumulative_closed.  Statement as printed by Coq from Inferno.C07.TraceProofs; proof by reference.
   This file contains nothing else, so the statement cannot be weakened quietly. *)
From Coq Require Import List ZArith Reals Bool Lra Lia.
From Inferno Require Import Base.Num Base.NumR Gen.Trace Gen.Interpolation C01.Ring C07.Reducer C07.TraceProofs.
Import ListNotations.
Open Scope R_scope.
Theorem cumulative_closed : forall (tau a target : R) (tol : option R) (l : list (R * R)),
  run_state (cumulative_step tau a target tol) l =
  match l with
  | [] => None
  | _ :: _ =>
      Some
        (sum_list
           (map
              (fun p0 : R * R =>
               (if matchb target tol (snd p0) then a else 0) * Rtrigo_def.exp (- fst p0 / tau))
              (elapsed l)))
  end.
Proof. exact (@Inferno.C07.TraceProofs.cumulative_closed). Qed.
Print Assumptions cumulative_closed.
