(* Obligation C07/run_ok.  Statement as printed by Coq from Inferno.C07.ReducerProofs; proof by reference.
   This file contains nothing else, so the statement cannot be weakened quietly. *)
From Coq Require Import List ZArith Bool Arith Lia.
From Inferno Require Import Base.Num Gen.Infra C01.Ring C01.RingProofs C07.Reducer C07.ReducerProofs.
Import ListNotations.
Theorem run_ok : forall (M : Num) (A Obs : Type) (K : @rclass M A Obs) (ops : list (@rop M Obs))
    (r : @reducer M A), @state_ok M A Obs K r -> @state_ok M A Obs K (@final M A Obs K r ops).
Proof. exact (@Inferno.C07.ReducerProofs.run_ok). Qed.
Print Assumptions run_ok.
