(* Obligation C07/view_tensor_spec.  Statement as printed by Coq from Inferno.C07.ElementwiseProofs; proof by reference.
   This file contains nothing else, so the statement cannot be weakened quietly. *)
From Coq Require Import List ZArith Reals Bool Lra Lia.
From Flocq Require Import Core.Raux.
From Inferno Require Import Base.Num Base.NumR Gen.Infra Gen.Trace Gen.Interpolation C01.Ring C01.RingProofs C07.Reducer C07.ReducerProofs C07.TraceProofs C07.ViewProofs C07.ClosedProofs C07.ElementwiseProofs.
Import ListNotations.
Open Scope R_scope.
Theorem view_tensor_spec : forall (A Obs : Type) (K : @rclass RN A Obs) (r : @reducer RN A) 
    (times : list (list R)) (tol : R) (d : unit) (sh : list nat) (rows : list (list A)),
  @rinit RN A r = false ->
  @st A unit (@rrec RN A r) = @SFull A unit d sh rows ->
  0 < @rdt RN A r ->
  0 <= tol ->
  (forall (k : Z) (e : nat),
   (e < @length (list R) times)%nat -> (e < @length A (@row_at A (@rrec RN A r) rows k))%nat) ->
  @existsb (list (T RN))
    (fun ts : list (T RN) => @existsb (T RN) (fun t : T RN => @out_of_range RN A r t tol) ts)
    times = false ->
  @rd_view_tensor RN A Obs K r times tol =
  @ROk RN A r
    (@RView A
       (@map (nat * list (T RN)) (list A)
          (fun ets : nat * list (T RN) =>
           @map (T RN) A
             (fun t : T RN =>
              @nth A (@fst nat (list (T RN)) ets) (@select_scalar RN A Obs K r rows t tol)
                (@kzero RN A Obs K)) (@snd nat (list (T RN)) ets))
          (@combine nat (list R) (seq 0 (@length (list R) times)) times))).
Proof. exact (@Inferno.C07.ElementwiseProofs.view_tensor_spec). Qed.
Print Assumptions view_tensor_spec.
