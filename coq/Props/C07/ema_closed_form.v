(* Obligation C07/ema_closed_form.  Statement as printed by Coq from Inferno.C07.TraceProofs; proof by reference.
   This file contains nothing else, so the statement cannot be weakened quietly. *)
From Coq Require Import List ZArith Reals Bool Lra Lia.
From Inferno Require Import Base.Num Base.NumR Gen.Trace Gen.Interpolation C01.Ring C07.Reducer C07.TraceProofs.
Import ListNotations.
Open Scope R_scope.
Theorem ema_closed_form : forall (alpha : R) (l : list R),
  ema_run alpha l = match l with
                    | [] => None
                    | _ :: _ => Some (ema_closed alpha l)
                    end.
Proof. exact (@Inferno.C07.TraceProofs.ema_closed_form). Qed.
Print Assumptions ema_closed_form.
