(* Obligation C07/tie_EventReducer_fold_finite.  Statement as printed by Coq from Inferno.C07.GenTieEvent; proof by reference.
   This file contains nothing else, so the statement cannot be weakened quietly. *)
From Coq Require Import List ZArith Bool.
From Inferno Require Import Base.Num Gen.Infra Gen.Trace Gen.Math Gen.Interpolation Gen.ReducerClasses C01.Ring C07.Reducer C07.ReducerProofs C07.GenTieEvent.
Import ListNotations.
Theorem tie_EventReducer_fold_finite : forall (N : Num) (crit : T N -> bool) (i : einit) (init dt decay : T N) 
    (cnt : Z) (o : T N) (s : option (T N)),
  event_init N i = Some init ->
  kfold (cls_event N crit i) dt decay cnt o (option_map Some s) =
  Some (EventReducer_fold N crit dt (EventReducer_initial_value N init) o s).
Proof. exact (@Inferno.C07.GenTieEvent.tie_EventReducer_fold_finite). Qed.
Print Assumptions tie_EventReducer_fold_finite.
