(* Obligation C07/ema_reducer_record.  Statement as printed by Coq from Inferno.C07.ClosedProofs; proof by reference.
   This file contains nothing else, so the statement cannot be weakened quietly. *)
From Coq Require Import List ZArith Reals Bool Lra Lia.
From Flocq Require Import Core.Raux.
From Inferno Require Import Base.Num Base.NumR Gen.Infra Gen.Trace Gen.Interpolation C01.Ring C01.RingProofs C07.Reducer C07.ReducerProofs C07.TraceProofs C07.ViewProofs C07.ClosedProofs.
Import ListNotations.
Open Scope R_scope.
Theorem ema_reducer_record : forall (dt dur : R) (incl inpl : bool) (alpha : T RN) (l : list R),
  l <> [] ->
  let K := cls_ema RN alpha in
  let r0 := fresh RN K dt dur incl inpl in
  let r := final K r0 (fwd_ops [] (map single l)) in
  rwf r /\
  rinit r = false /\
  N (rrec r) = N (rrec r0) /\
  stored_shape r = Some [] /\
  rdt r = dt /\
  all_ok (outputs K r0 (fwd_ops [] (map single l))) /\
  rhist r = record_spec (ema_closed alpha) 0 (N (rrec r0)) l.
Proof. exact (@Inferno.C07.ClosedProofs.ema_reducer_record). Qed.
Print Assumptions ema_reducer_record.
