(* Obligation C07/tie_ScaledNearestTraceReducer_decay.  Statement as printed by Coq from Inferno.C07.GenTieScaledNearest; proof by reference.
   This file contains nothing else, so the statement cannot be weakened quietly. *)
From Coq Require Import List ZArith Bool.
From Inferno Require Import Base.Num Gen.Infra Gen.Trace Gen.Math Gen.Interpolation Gen.ReducerClasses C01.Ring C07.Reducer C07.ReducerProofs C07.GenTieScaledNearest.
Import ListNotations.
Theorem tie_ScaledNearestTraceReducer_decay : forall (N : Num) (tau amp scale : T N) (crit : T N -> bool),
  kdecay (cls_scaled_nearest N tau amp scale crit) =
  Some (fun dt : T N => ScaledNearestTraceReducer_decay N dt tau).
Proof. exact (@Inferno.C07.GenTieScaledNearest.tie_ScaledNearestTraceReducer_decay). Qed.
Print Assumptions tie_ScaledNearestTraceReducer_decay.
