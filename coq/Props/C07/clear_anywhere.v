(* Obligation C07/clear_anywhere.  Statement as printed by Coq from Inferno.C07.ReducerProofs; proof by reference.
   This file contains nothing else, so the statement cannot be weakened quietly. *)
From Coq Require Import List ZArith Bool Arith Lia.
From Inferno Require Import Base.Num Gen.Infra C01.Ring C01.RingProofs C07.Reducer C07.ReducerProofs.
Import ListNotations.
Theorem clear_anywhere : forall (M : Num) (A Obs : Type) (K : @rclass M A Obs) (dt dur : T M) 
    (incl inpl : bool) (ops : list (@rop M Obs)),
  let r := @final M A Obs K (@fresh M A Obs K dt dur incl inpl) ops in
  @rd_clear M A Obs K r false =
  @ROk M A (@fresh M A Obs K (@rdt M A r) (@rdur M A r) (@rincl M A r) (@rinpl M A r))
    (@RUnit A).
Proof. exact (@Inferno.C07.ReducerProofs.clear_anywhere). Qed.
Print Assumptions clear_anywhere.
