(* Obligation C07/tie_EventReducer_interpolate.  Statement as printed by Coq from Inferno.C07.GenTieEvent; proof by reference.
   This file contains nothing else, so the statement cannot be weakened quietly. *)
From Coq Require Import List ZArith Bool.
From Inferno Require Import Base.Num Gen.Infra Gen.Trace Gen.Math Gen.Interpolation Gen.ReducerClasses C01.Ring C07.Reducer C07.ReducerProofs C07.GenTieEvent.
Import ListNotations.
Theorem tie_EventReducer_interpolate : forall (N : Num) (crit : T N -> bool) (i : einit) (p : T N) (n : option (T N))
    (n' sa st : T N),
  kinterp (cls_event N crit i) (Some p) n sa st = Some (EventReducer_interpolate N p n' sa st) /\
  kinterp (cls_event N crit i) None n sa st = None.
Proof. exact (@Inferno.C07.GenTieEvent.tie_EventReducer_interpolate). Qed.
Print Assumptions tie_EventReducer_interpolate.
