(* Obligation C07/tie_CumulativeTraceReducer_interpolate.  Statement as printed by Coq from Inferno.C07.GenTieCumulative; proof by reference.
   This file contains nothing else, so the statement cannot be weakened quietly. *)
From Coq Require Import List ZArith Bool.
From Inferno Require Import Base.Num Gen.Infra Gen.Trace Gen.Math Gen.Interpolation Gen.ReducerClasses C01.Ring C07.Reducer C07.ReducerProofs C07.GenTieCumulative.
Import ListNotations.
Theorem tie_CumulativeTraceReducer_interpolate : forall (N : Num) (tau amp target : T N) (tol : option (T N)) (p n sa st : T N),
  kinterp (cls_cumulative N tau amp target tol) p n sa st =
  CumulativeTraceReducer_interpolate N tau p n sa st.
Proof. exact (@Inferno.C07.GenTieCumulative.tie_CumulativeTraceReducer_interpolate). Qed.
Print Assumptions tie_CumulativeTraceReducer_interpolate.
