(* Obligation XM/c07_select_elem_eq_R.  Statement as printed by Coq from Inferno.XModel.SelectC07R; proof by reference.
   This file contains nothing else, so the statement cannot be weakened quietly. *)
From Coq Require Import List ZArith Bool Arith Reals.
From Inferno Require Import Base.Num Base.NumR Gen.Infra C01.Ring.
From Inferno Require C02.Select.
From Inferno Require Import C07.Reducer XModel.XLists XModel.SelectC07 XModel.SelectC07R.
Import ListNotations.
Theorem c07_select_elem_eq_R : forall (Obs : Type) (K : @rclass RN R Obs),
  @kzero RN R Obs K = zero RN ->
  forall (r : @reducer RN R) (rows : list (list R)) (e : nat) (time tol : T RN),
  @select_elem RN R Obs K r rows e time tol =
  Select.sel_elem RN (@rrec RN R r) rows (@rdt RN R r) tol 1 (@kinterp RN R Obs K) e time.
Proof. exact (@Inferno.XModel.SelectC07R.c07_select_elem_eq_R). Qed.
Print Assumptions c07_select_elem_eq_R.
