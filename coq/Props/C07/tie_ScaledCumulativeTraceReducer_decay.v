(* Obligation C07/tie_ScaledCumulativeTraceReducer_decay.  Statement as printed by Coq from Inferno.C07.GenTieScaledCumulative; proof by reference.
   This file contains nothing else, so the statement cannot be weakened quietly. *)
From Coq Require Import List ZArith Bool.
From Inferno Require Import Base.Num Gen.Infra Gen.Trace Gen.Math Gen.Interpolation Gen.ReducerClasses C01.Ring C07.Reducer C07.ReducerProofs C07.GenTieScaledCumulative.
Import ListNotations.
Theorem tie_ScaledCumulativeTraceReducer_decay : forall (N : Num) (tau amp scale : T N) (crit : T N -> bool),
  kdecay (cls_scaled_cumulative N tau amp scale crit) =
  Some (fun dt : T N => ScaledCumulativeTraceReducer_decay N dt tau).
Proof. exact (@Inferno.C07.GenTieScaledCumulative.tie_ScaledCumulativeTraceReducer_decay). Qed.
Print Assumptions tie_ScaledCumulativeTraceReducer_decay.
