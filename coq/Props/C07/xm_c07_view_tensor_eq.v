(* Obligation XM/c07_view_tensor_eq.  Statement as printed by Coq from Inferno.XModel.SelectC07; proof by reference.
   This file contains nothing else, so the statement cannot be weakened quietly. *)
From Coq Require Import List ZArith Bool Arith Lia.
From Inferno Require Import Base.Num Gen.Infra C01.Ring.
From Inferno Require C02.Select C07.Reducer.
From Inferno Require Import XModel.XLists XModel.SelectC07.
Import ListNotations.
Theorem c07_view_tensor_eq : forall (M : Num) (Obs : Type) (K : @Reducer.rclass M (T M) Obs),
  ofZ M 1 = one M ->
  @Reducer.kzero M (T M) Obs K = zero M ->
  forall (r : @Reducer.reducer M (T M)) (d : unit) (sh : list nat)
    (rows times : list (list (T M))) (tol : T M) (tnd : nat),
  @Reducer.rinit M (T M) r = false ->
  @st (T M) unit (@Reducer.rrec M (T M) r) = @SFull (T M) unit d sh rows ->
  @length (list (T M)) times = nel sh ->
  tnd = S (@length nat sh) \/
  tnd = @length nat sh /\
  @Forall (list (T M)) (fun ts : list (T M) => @length (T M) ts = 1) times ->
  @Reducer.rd_view_tensor M (T M) Obs K r times tol =
  match
    Select.select_tensor M (@Reducer.rrec M (T M) r) (@Reducer.rdt M (T M) r) tol 1 tnd times
      (@Reducer.kinterp M (T M) Obs K)
  with
  | Ok _ o => @Reducer.ROk M (T M) r (@Reducer.RView (T M) (@cols_of (T M) unit o))
  | Err e => @Reducer.RErr M (T M) r e
  end.
Proof. exact (@Inferno.XModel.SelectC07.c07_view_tensor_eq). Qed.
Print Assumptions c07_view_tensor_eq.
