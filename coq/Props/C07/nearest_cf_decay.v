(* Obligation C07/nearest_cf_decay.  Statement as printed by Coq from Inferno.C07.ElementwiseProofs; proof by reference.
   This file contains nothing else, so the statement cannot be weakened quietly. *)
From Coq Require Import List ZArith Reals Bool Lra Lia.
From Flocq Require Import Core.Raux.
From Inferno Require Import Base.Num Base.NumR Gen.Infra Gen.Trace Gen.Interpolation C01.Ring C01.RingProofs C07.Reducer C07.ReducerProofs C07.TraceProofs C07.ViewProofs C07.ClosedProofs C07.ElementwiseProofs.
Import ListNotations.
Open Scope R_scope.
Theorem nearest_cf_decay : forall (dt tau a target : R) (tol : option R) (m : list R) (s : R),
  nearest_cf dt tau a target tol m * Rtrigo_def.exp (- s / tau) =
  match last_event (matchb target tol) (map (fun o : R => (dt, o)) m) with
  | Some (age, _) => a * Rtrigo_def.exp (- (age + s) / tau)
  | None => 0
  end.
Proof. exact (@Inferno.C07.ElementwiseProofs.nearest_cf_decay). Qed.
Print Assumptions nearest_cf_decay.
