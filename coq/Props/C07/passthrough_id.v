(* Obligation C07/passthrough_id.  Statement as printed by Coq from Inferno.C07.TraceProofs; proof by reference.
   This file contains nothing else, so the statement cannot be weakened quietly. *)
From Coq Require Import List ZArith Reals Bool Lra Lia.
From Inferno Require Import Base.Num Base.NumR Gen.Trace Gen.Interpolation C01.Ring C07.Reducer C07.TraceProofs.
Import ListNotations.
Open Scope R_scope.
Theorem passthrough_id : forall l : list R,
  fold_left (fun (s : option (T RN)) (o : T RN) => Some (kfold (cls_pass RN) 0 0 0 o s)) l
    None = match rev l with
           | [] => None
           | x :: _ => Some x
           end.
Proof. exact (@Inferno.C07.TraceProofs.passthrough_id). Qed.
Print Assumptions passthrough_id.
