(* Obligation C07/dump_closed.  Statement as printed by Coq from Inferno.C07.ClosedProofs; proof by reference.
   This file contains nothing else, so the statement cannot be weakened quietly. *)
From Coq Require Import List ZArith Reals Bool Lra Lia.
From Flocq Require Import Core.Raux.
From Inferno Require Import Base.Num Base.NumR Gen.Infra Gen.Trace Gen.Interpolation C01.Ring C01.RingProofs C07.Reducer C07.ReducerProofs C07.TraceProofs C07.ViewProofs C07.ClosedProofs.
Import ListNotations.
Open Scope R_scope.
Theorem dump_closed : forall (A Obs : Type) (K : @rclass RN A Obs) (r : @reducer RN A) 
    (cf : list Obs -> A) (l : list Obs),
  @rwf RN A r ->
  @rinit RN A r = false ->
  @stored_shape RN A r = @Some (list nat) [] ->
  @rhist RN A r = @record_spec A Obs cf (@kfill RN A Obs K) (@N A unit (@rrec RN A r)) l ->
  exists rec' : @ring A unit,
    @rd_dump RN A r =
    @ROk RN A (@set_rec RN A r rec')
      (@RRows A [] (@record_spec A Obs cf (@kfill RN A Obs K) (@N A unit (@rrec RN A r)) l)) /\
    @hist A unit rec' = @rhist RN A r.
Proof. exact (@Inferno.C07.ClosedProofs.dump_closed). Qed.
Print Assumptions dump_closed.
