(* Obligation C07/inplace_eq.  Statement as printed by Coq from Inferno.C07.ReducerProofs; proof by reference.
   This file contains nothing else, so the statement cannot be weakened quietly. *)
From Coq Require Import List ZArith Bool Arith Lia.
From Inferno Require Import Base.Num Gen.Infra C01.Ring C01.RingProofs C07.Reducer C07.ReducerProofs.
Import ListNotations.
Theorem inplace_eq : forall (M : Num) (A Obs : Type) (K : @rclass M A Obs) (r : @reducer M A) 
    (sh : list nat) (obs : list Obs),
  @rwf M A r ->
  0 < @N A unit (@rrec M A r) ->
  @forward M A Obs K (@set_inplace M A r true) sh obs =
  match @forward M A Obs K (@set_inplace M A r false) sh obs with
  | ROk r' o => @ROk M A (@set_inplace M A r' true) o
  | RErr r' e => @RErr M A (@set_inplace M A r' true) e
  end.
Proof. exact (@Inferno.C07.ReducerProofs.inplace_eq). Qed.
Print Assumptions inplace_eq.
