(* Obligation C07/view_tensor_out_of_range.  Statement as printed by Coq from Inferno.C07.ElementwiseProofs; proof by reference.
   This file contains nothing else, so the statement cannot be weakened quietly. *)
From Coq Require Import List ZArith Reals Bool Lra Lia.
From Flocq Require Import Core.Raux.
From Inferno Require Import Base.Num Base.NumR Gen.Infra Gen.Trace Gen.Interpolation C01.Ring C01.RingProofs C07.Reducer C07.ReducerProofs C07.TraceProofs C07.ViewProofs C07.ClosedProofs C07.ElementwiseProofs.
Import ListNotations.
Open Scope R_scope.
Theorem view_tensor_out_of_range : forall (A Obs : Type) (K : @rclass RN A Obs) (r : @reducer RN A) 
    (times : list (list R)) (tol : T RN) (d : unit) (sh : list nat) 
    (rows : list (list A)),
  @rinit RN A r = false ->
  @st A unit (@rrec RN A r) = @SFull A unit d sh rows ->
  @existsb (list (T RN))
    (fun ts : list (T RN) => @existsb (T RN) (fun t : T RN => @out_of_range RN A r t tol) ts)
    times = true -> @rd_view_tensor RN A Obs K r times tol = @RErr RN A r EValue.
Proof. exact (@Inferno.C07.ElementwiseProofs.view_tensor_out_of_range). Qed.
Print Assumptions view_tensor_out_of_range.
