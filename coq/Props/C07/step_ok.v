(* Obligation C07/step_ok.  Statement as printed by Coq from Inferno.C07.ReducerProofs; proof by reference.
   This file contains nothing else, so the statement cannot be weakened quietly. *)
From Coq Require Import List ZArith Bool Arith Lia.
From Inferno Require Import Base.Num Gen.Infra C01.Ring C01.RingProofs C07.Reducer C07.ReducerProofs.
Import ListNotations.
Theorem step_ok : forall (M : Num) (A Obs : Type) (K : @rclass M A Obs) (r : @reducer M A) (o : @rop M Obs),
  @state_ok M A Obs K r -> @state_ok M A Obs K (@res_state M A (@rstep M A Obs K r o)).
Proof. exact (@Inferno.C07.ReducerProofs.step_ok). Qed.
Print Assumptions step_ok.
