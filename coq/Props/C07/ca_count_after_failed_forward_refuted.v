(* Obligation C07/ca_count_after_failed_forward_refuted.  Statement as printed by Coq from Inferno.C07.Findings; proof by reference.
   This file contains nothing else, so the statement cannot be weakened quietly. *)
From Coq Require Import List ZArith Reals Bool Lra Lia.
From Inferno Require Import Base.Num Base.NumR Gen.Infra C01.Ring C07.Reducer C07.ReducerProofs C07.Findings.
Import ListNotations.
Theorem ca_count_after_failed_forward_refuted : let r0 := fresh RN (cls_ca RN) 1 0 false false in
  let r := final (cls_ca RN) r0 ca_ops in
  (exists r1 : reducer RN,
     nth 1 (outputs (cls_ca RN) r0 ca_ops) (ROk r0 RNone) = RErr r1 ERuntime) /\
  (exists x y : T RN,
     rd_peek RN r = ROk r (RObs [2%nat] [x; y]) /\
     x = 2 / 3 /\ y = 4 / 3 /\ x <> (1 + 0) / 2 /\ y <> (0 + 4) / 2).
Proof. exact (@Inferno.C07.Findings.ca_count_after_failed_forward_refuted). Qed.
Print Assumptions ca_count_after_failed_forward_refuted.
