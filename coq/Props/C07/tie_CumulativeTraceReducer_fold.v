(* Obligation C07/tie_CumulativeTraceReducer_fold.  Statement as printed by Coq from Inferno.C07.GenTieCumulative; proof by reference.
   This file contains nothing else, so the statement cannot be weakened quietly. *)
From Coq Require Import List ZArith Bool.
From Inferno Require Import Base.Num Gen.Infra Gen.Trace Gen.Math Gen.Interpolation Gen.ReducerClasses C01.Ring C07.Reducer C07.ReducerProofs C07.GenTieCumulative.
Import ListNotations.
Theorem tie_CumulativeTraceReducer_fold : forall (N : Num) (tau amp target : T N) (tol : option (T N)) (dt decay : T N) 
    (cnt : Z) (o : T N) (s : option (T N)),
  kfold (cls_cumulative N tau amp target tol) dt decay cnt o s =
  CumulativeTraceReducer_fold N amp decay target tol o s.
Proof. exact (@Inferno.C07.GenTieCumulative.tie_CumulativeTraceReducer_fold). Qed.
Print Assumptions tie_CumulativeTraceReducer_fold.
