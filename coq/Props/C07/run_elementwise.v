(* Obligation C07/run_elementwise.  Statement as printed by Coq from Inferno.C07.ElementwiseProofs; proof by reference.
   This file contains nothing else, so the statement cannot be weakened quietly. *)
From Coq Require Import List ZArith Reals Bool Lra Lia.
From Flocq Require Import Core.Raux.
From Inferno Require Import Base.Num Base.NumR Gen.Infra Gen.Trace Gen.Interpolation C01.Ring C01.RingProofs C07.Reducer C07.ReducerProofs C07.TraceProofs C07.ViewProofs C07.ClosedProofs C07.ElementwiseProofs.
Import ListNotations.
Open Scope R_scope.
Theorem run_elementwise : forall (M : Num) (A Obs : Type) (K : rclass M) (dA : A) (dO : Obs) 
    (e : nat) (dt dur : T M) (incl inpl : bool) (sh : list nat) (o : list Obs)
    (obs : list (list Obs)),
  (e < nel sh)%nat ->
  Forall (fun x : list Obs => length x = nel sh) (o :: obs) ->
  let r0 := fresh M K dt dur incl inpl in
  map (colA dA e) (rhist (final K r0 (fwd_ops sh (o :: obs)))) =
  rhist (final K r0 (fwd_ops [] (map (colO dO e) (o :: obs)))).
Proof. exact (@Inferno.C07.ElementwiseProofs.run_elementwise). Qed.
Print Assumptions run_elementwise.
