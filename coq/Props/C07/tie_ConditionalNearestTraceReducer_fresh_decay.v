(* Obligation C07/tie_ConditionalNearestTraceReducer_fresh_decay.  Statement as printed by Coq from Inferno.C07.GenTieConditionalNearest; proof by reference.
   This file contains nothing else, so the statement cannot be weakened quietly. *)
From Coq Require Import List ZArith Bool.
From Inferno Require Import Base.Num Gen.Infra Gen.Trace Gen.Math Gen.Interpolation Gen.ReducerClasses C01.Ring C07.Reducer C07.ReducerProofs C07.GenTieConditionalNearest.
Import ListNotations.
Theorem tie_ConditionalNearestTraceReducer_fresh_decay : forall (N : Num) (tau amp scale dt dur : T N) (incl inpl : bool),
  rdecay (fresh N (cls_cond_nearest N tau amp scale) dt dur incl inpl) =
  ConditionalNearestTraceReducer_decay N dt tau.
Proof. exact (@Inferno.C07.GenTieConditionalNearest.tie_ConditionalNearestTraceReducer_fresh_decay). Qed.
Print Assumptions tie_ConditionalNearestTraceReducer_fresh_decay.
