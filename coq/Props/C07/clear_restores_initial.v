(* Obligation C07/clear_restores_initial.  Statement as printed by Coq from Inferno.C07.ReducerProofs; proof by reference.
   This file contains nothing else, so the statement cannot be weakened quietly. *)
From Coq Require Import List ZArith Bool Arith Lia.
From Inferno Require Import Base.Num Gen.Infra C01.Ring C01.RingProofs C07.Reducer C07.ReducerProofs.
Import ListNotations.
Theorem clear_restores_initial : forall (M : Num) (A Obs : Type) (K : @rclass M A Obs) (r : @reducer M A),
  @rinv M A Obs K r ->
  @rd_clear M A Obs K r false =
  @ROk M A (@fresh M A Obs K (@rdt M A r) (@rdur M A r) (@rincl M A r) (@rinpl M A r))
    (@RUnit A).
Proof. exact (@Inferno.C07.ReducerProofs.clear_restores_initial). Qed.
Print Assumptions clear_restores_initial.
