(* Obligation C07/decay_pow.  Statement as printed by Coq from Inferno.C07.TraceProofs; proof by reference.
   This file contains nothing else, so the statement cannot be weakened quietly. *)
From Coq Require Import List ZArith Reals Bool Lra Lia.
From Inferno Require Import Base.Num Base.NumR Gen.Trace Gen.Interpolation C01.Ring C07.Reducer C07.TraceProofs.
Import ListNotations.
Open Scope R_scope.
Theorem decay_pow : forall (tau dt : R) (n : nat),
  Rtrigo_def.exp (- dt / tau) ^ n = Rtrigo_def.exp (- (INR n * dt) / tau).
Proof. exact (@Inferno.C07.TraceProofs.decay_pow). Qed.
Print Assumptions decay_pow.
