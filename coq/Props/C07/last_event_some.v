(* Obligation C07/last_event_some.  Statement as printed by Coq from Inferno.C07.TraceProofs; proof by reference.
   This file contains nothing else, so the statement cannot be weakened quietly. *)
From Coq Require Import List ZArith Reals Bool Lra Lia.
From Inferno Require Import Base.Num Base.NumR Gen.Trace Gen.Interpolation C01.Ring C07.Reducer C07.TraceProofs.
Import ListNotations.
Open Scope R_scope.
Theorem last_event_some : forall (Obs : Type) (m : Obs -> bool) (l : list (R * Obs)) (age : R) (o : Obs),
  last_event m l = Some (age, o) ->
  exists (l1 : list (R * Obs)) (dt : R) (l2 : list (R * Obs)),
    l = l1 ++ (dt, o) :: l2 /\
    m o = true /\ age = sum_dt l2 /\ (forall p : R * Obs, In p l2 -> m (snd p) = false).
Proof. exact (@Inferno.C07.TraceProofs.last_event_some). Qed.
Print Assumptions last_event_some.
