(* Obligation C07/tie_ConditionalCumulativeTraceReducer_decay.  Statement as printed by Coq from Inferno.C07.GenTieConditionalCumulative; proof by reference.
   This file contains nothing else, so the statement cannot be weakened quietly. *)
From Coq Require Import List ZArith Bool.
From Inferno Require Import Base.Num Gen.Infra Gen.Trace Gen.Math Gen.Interpolation Gen.ReducerClasses C01.Ring C07.Reducer C07.ReducerProofs C07.GenTieConditionalCumulative.
Import ListNotations.
Theorem tie_ConditionalCumulativeTraceReducer_decay : forall (N : Num) (tau amp scale : T N),
  kdecay (cls_cond_cumulative N tau amp scale) =
  Some (fun dt : T N => ConditionalCumulativeTraceReducer_decay N dt tau).
Proof. exact (@Inferno.C07.GenTieConditionalCumulative.tie_ConditionalCumulativeTraceReducer_decay). Qed.
Print Assumptions tie_ConditionalCumulativeTraceReducer_decay.
