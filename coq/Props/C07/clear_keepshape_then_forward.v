(* Obligation C07/clear_keepshape_then_forward.  Statement as printed by Coq from Inferno.C07.ElementwiseProofs; proof by reference.
   This file contains nothing else, so the statement cannot be weakened quietly. *)
From Coq Require Import List ZArith Reals Bool Lra Lia.
From Flocq Require Import Core.Raux.
From Inferno Require Import Base.Num Base.NumR Gen.Infra Gen.Trace Gen.Interpolation C01.Ring C01.RingProofs C07.Reducer C07.ReducerProofs C07.TraceProofs C07.ViewProofs C07.ClosedProofs C07.ElementwiseProofs.
Import ListNotations.
Open Scope R_scope.
Theorem clear_keepshape_then_forward : forall (M : Num) (A Obs : Type) (K : rclass M) (r : reducer M) (sh : list nat)
    (obs : list Obs),
  rwf r ->
  full (rrec r) ->
  shape_ok r sh ->
  let rc := res_state (rd_clear M K r true) in
  rinit rc = true /\
  Forall (fun row : list A => Forall (eq (kfill K)) row) (rhist rc) /\
  (exists rec' : ring,
     forward M K rc sh obs = ROk (set_init (set_rec (bump K rc) rec') false) RUnit /\
     wf rec' /\
     full rec' /\ hist rec' = zipfold M K (bump K rc) obs None :: removelast (rhist rc)).
Proof. exact (@Inferno.C07.ElementwiseProofs.clear_keepshape_then_forward). Qed.
Print Assumptions clear_keepshape_then_forward.
