(* Obligation C07/cumulative_closed_fixed_dt.  Statement as printed by Coq from Inferno.C07.TraceProofs; proof by reference.
   This file contains nothing else, so the statement cannot be weakened quietly. *)
From Coq Require Import List ZArith Reals Bool Lra Lia.
From Inferno Require Import Base.Num Base.NumR Gen.Trace Gen.Interpolation C01.Ring C07.Reducer C07.TraceProofs.
Import ListNotations.
Open Scope R_scope.
Theorem cumulative_closed_fixed_dt : forall (tau a target : R) (tol : option R) (dt : R) (obs : list R),
  run_state (cumulative_step tau a target tol) (map (fun o : R => (dt, o)) obs) =
  match obs with
  | [] => None
  | _ :: _ =>
      Some
        (sum_list
           (map
              (fun ko : nat * R =>
               if matchb target tol (snd ko)
               then a * Rtrigo_def.exp (- (INR (fst ko) * dt) / tau)
               else 0) (ages obs)))
  end.
Proof. exact (@Inferno.C07.TraceProofs.cumulative_closed_fixed_dt). Qed.
Print Assumptions cumulative_closed_fixed_dt.
