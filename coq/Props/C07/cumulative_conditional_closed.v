(* Obligation C07/cumulative_conditional_closed.  Statement as printed by Coq from Inferno.C07.TraceProofs; proof by reference.
   This file contains nothing else, so the statement cannot be weakened quietly. *)
From Coq Require Import List ZArith Reals Bool Lra Lia.
From Inferno Require Import Base.Num Base.NumR Gen.Trace Gen.Interpolation C01.Ring C07.Reducer C07.TraceProofs.
Import ListNotations.
Open Scope R_scope.
Theorem cumulative_conditional_closed : forall (tau a scale : R) (l : list (R * (R * bool))),
  run_state (cumulative_cond_step tau a scale) l =
  match l with
  | [] => None
  | _ :: _ =>
      Some
        (sum_list
           (map
              (fun p0 : R * (R * bool) =>
               (if snd (snd p0) then scale * fst (snd p0) + a else 0) *
               Rtrigo_def.exp (- fst p0 / tau)) (elapsed l)))
  end.
Proof. exact (@Inferno.C07.TraceProofs.cumulative_conditional_closed). Qed.
Print Assumptions cumulative_conditional_closed.
