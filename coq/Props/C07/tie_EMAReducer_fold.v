(* Obligation C07/tie_EMAReducer_fold.  Statement as printed by Coq from Inferno.C07.GenTieEMA; proof by reference.
   This file contains nothing else, so the statement cannot be weakened quietly. *)
From Coq Require Import List ZArith Bool.
From Inferno Require Import Base.Num Gen.Infra Gen.Trace Gen.Math Gen.Interpolation Gen.ReducerClasses C01.Ring C07.Reducer C07.ReducerProofs C07.GenTieEMA.
Import ListNotations.
Theorem tie_EMAReducer_fold : forall (N : Num) (alpha dt decay : T N) (cnt : Z) (o : T N) (s : option (T N)),
  kfold (cls_ema N alpha) dt decay cnt o s = EMAReducer_fold N alpha o s.
Proof. exact (@Inferno.C07.GenTieEMA.tie_EMAReducer_fold). Qed.
Print Assumptions tie_EMAReducer_fold.
