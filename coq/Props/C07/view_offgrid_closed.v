(* Obligation C07/view_offgrid_closed.  Statement as printed by Coq from Inferno.C07.ClosedProofs; proof by reference.
   This file contains nothing else, so the statement cannot be weakened quietly. *)
From Coq Require Import List ZArith Reals Bool Lra Lia.
From Flocq Require Import Core.Raux.
From Inferno Require Import Base.Num Base.NumR Gen.Infra Gen.Trace Gen.Interpolation C01.Ring C01.RingProofs C07.Reducer C07.ReducerProofs C07.TraceProofs C07.ViewProofs C07.ClosedProofs.
Import ListNotations.
Open Scope R_scope.
Theorem view_offgrid_closed : forall (A Obs : Type) (K : @rclass RN A Obs) (r : @reducer RN A) 
    (cf : list Obs -> A) (l : list Obs),
  @rwf RN A r ->
  @rinit RN A r = false ->
  @stored_shape RN A r = @Some (list nat) [] ->
  @rhist RN A r = @record_spec A Obs cf (@kfill RN A Obs K) (@N A unit (@rrec RN A r)) l ->
  forall time tol : R,
  0 < @rdt RN A r ->
  0 <= tol ->
  0 <= time <= @rdt RN A r * IZR (Z.of_nat (@N A unit (@rrec RN A r)) - 1) ->
  (forall j : Z, tol < Rabs (IZR j * @rdt RN A r - time)) ->
  let kf := Z.to_nat (Zfloor (time / @rdt RN A r)) in
  let kc := S kf in
  let entry :=
    fun k : nat =>
    if k <? @length Obs l then cf (@firstn Obs (@length Obs l - k) l) else @kfill RN A Obs K
    in
  @rd_view_scalar RN A Obs K r time tol =
  @ROk RN A r
    (@RObs A []
       [@kinterp RN A Obs K (entry kc) (entry kf) (INR kc * @rdt RN A r - time) (@rdt RN A r)]).
Proof. exact (@Inferno.C07.ClosedProofs.view_offgrid_closed). Qed.
Print Assumptions view_offgrid_closed.
