(* Obligation XM/c07_frac_eq.  Statement as printed by Coq from Inferno.XModel.SelectC07; proof by reference.
   This file contains nothing else, so the statement cannot be weakened quietly. *)
From Coq Require Import List ZArith Bool Arith Lia.
From Inferno Require Import Base.Num Gen.Infra C01.Ring.
From Inferno Require C02.Select C07.Reducer.
From Inferno Require Import XModel.XLists XModel.SelectC07.
Import ListNotations.
Theorem c07_frac_eq : forall M : Num, Reducer.frac M = Select.frac1 M.
Proof. exact (@Inferno.XModel.SelectC07.c07_frac_eq). Qed.
Print Assumptions c07_frac_eq.
