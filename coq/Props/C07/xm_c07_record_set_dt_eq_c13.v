(* Obligation XM/c07_record_set_dt_eq_c13.  Statement as printed by Coq from Inferno.XModel.ResizeC07; proof by reference.
   This file contains nothing else, so the statement cannot be weakened quietly. *)
From Coq Require Import List ZArith Bool Arith Lia.
From Inferno Require Import Base.Num Gen.Infra C01.Ring C01.RingProofs.
From Inferno Require C13.Shaped C13.Resize C13.ResizeProofs C07.Reducer.
From Inferno Require Import XModel.ResizeC07.
Import ListNotations.
Theorem c07_record_set_dt_eq_c13 : forall (Nm : Num) (A Obs : Type) (K : @Reducer.rclass Nm A Obs),
  (unit -> A -> A) ->
  (unit -> unit -> unit) ->
  (unit -> unit -> bool) ->
  forall (r13 : @Resize.rec Nm A unit) (r07 : @Reducer.reducer Nm A) (v : T Nm),
  @ResizeProofs.rwf Nm A unit r13 ->
  @Resize.rvalid Nm A unit r13 = true ->
  @ResizeProofs.no_alias0 Nm A unit r13 ->
  @Resize.rg Nm A unit r13 = @Reducer.rrec Nm A r07 ->
  @Resize.rdur Nm A unit r13 = @Reducer.rdur Nm A r07 ->
  @Resize.rincl Nm A unit r13 = @Reducer.rincl Nm A r07 ->
  gtb Nm v (zero Nm) = true ->
  let g13 :=
    @Resize.rg Nm A unit
      (@fst (@Resize.rec Nm A unit) (option Shaped.xerr)
         (@Resize.set_dt Nm A unit (@Reducer.kzero Nm A Obs K) r13 v)) in
  let g07 := @Reducer.record_set_dt Nm A Obs K r07 v in
  @snd (@Resize.rec Nm A unit) (option Shaped.xerr)
    (@Resize.set_dt Nm A unit (@Reducer.kzero Nm A Obs K) r13 v) = 
  @None Shaped.xerr /\
  @N A unit g13 = @N A unit g07 /\
  (@full A unit g13 <-> @full A unit g07) /\
  (forall (d : unit) (sh : list nat) (rws : list (list A)),
   @st A unit g13 = @SFull A unit d sh rws ->
   exists rws' : list (list A), @st A unit g07 = @SFull A unit d sh rws') /\
  @hist A unit g13 = @hist A unit g07.
Proof. exact (@Inferno.XModel.ResizeC07.c07_record_set_dt_eq_c13). Qed.
Print Assumptions c07_record_set_dt_eq_c13.
