(* Obligation C07/tie_FoldReducer_view.  Statement as printed by Coq from Inferno.C07.GenTieFoldReducer; proof by reference.
   This file contains nothing else, so the statement cannot be weakened quietly. *)
From Coq Require Import List ZArith Bool.
From Inferno Require Import Base.Num Gen.Infra Gen.Trace Gen.Math Gen.Interpolation Gen.ReducerClasses C01.Ring C07.Reducer C07.ReducerProofs C07.GenTieFoldReducer.
Import ListNotations.
Theorem tie_FoldReducer_view : forall (M : Num) (A Obs : Type) (K : @rclass M A Obs) (r r' : @reducer M A) 
    (time tol : T M) (out : @rout A),
  @rd_view_scalar M A Obs K r time tol = @ROk M A r' out ->
  out =
  match
    @FoldReducer_view (@ring A unit) (@rout A)
      (fun s : @ring A unit =>
       match @st A unit s with
       | SFull _ sh rows => @RObs A sh (@select_scalar M A Obs K r rows time tol)
       | _ => @RNone A
       end) (@rinit M A r) (@rrec M A r)
  with
  | Some o => o
  | None => @RNone A
  end.
Proof. exact (@Inferno.C07.GenTieFoldReducer.tie_FoldReducer_view). Qed.
Print Assumptions tie_FoldReducer_view.
