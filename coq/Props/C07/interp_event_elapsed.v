(* Obligation C07/interp_event_elapsed.  Statement as printed by Coq from Inferno.C07.ViewProofs; proof by reference.
   This file contains nothing else, so the statement cannot be weakened quietly. *)
From Coq Require Import List ZArith Reals Bool Lra Lia.
From Flocq Require Import Core.Raux Core.Generic_fmt.
From Inferno Require Import Base.Num Base.NumR Gen.Infra Gen.Interpolation C01.Ring C01.RingProofs C07.Reducer C07.ReducerProofs C07.ViewProofs.
Import ListNotations.
Open Scope R_scope.
Theorem interp_event_elapsed : forall (crit : T RN -> bool) (i : einit) (p n : option R) (sa dt : T RN),
  kinterp (cls_event RN crit i) p n sa dt = option_map (fun y : R => y + sa) p.
Proof. exact (@Inferno.C07.ViewProofs.interp_event_elapsed). Qed.
Print Assumptions interp_event_elapsed.
