(* Obligation XM/c07_out_of_range_eq.  Statement as printed by Coq from Inferno.XModel.SelectC07; proof by reference.
   This file contains nothing else, so the statement cannot be weakened quietly. *)
From Coq Require Import List ZArith Bool Arith Lia.
From Inferno Require Import Base.Num Gen.Infra C01.Ring.
From Inferno Require C02.Select C07.Reducer.
From Inferno Require Import XModel.XLists XModel.SelectC07.
Import ListNotations.
Theorem c07_out_of_range_eq : forall (M : Num) (r : @Reducer.reducer M (T M)) (time tol : T M),
  @Reducer.out_of_range M (T M) r time tol =
  Select.out_of_range M (@N (T M) unit (@Reducer.rrec M (T M) r)) 
    (@Reducer.rdt M (T M) r) tol time.
Proof. exact (@Inferno.XModel.SelectC07.c07_out_of_range_eq). Qed.
Print Assumptions c07_out_of_range_eq.
