(* Obligation C05/tie_LinearDense_constructor.  Statement as printed by Coq from Inferno.C05.GenTieLinearDense; proof by reference.
   This file contains nothing else, so the statement cannot be weakened quietly. *)
From Coq Require Import List ZArith Bool String Arith.
From Inferno Require Import Base.Num Gen.ConnectionClasses C05.Conn C05.ConnPatterns C05.GenTieLinearDense.
Import ListNotations.
Open Scope string_scope.
Theorem tie_LinearDense_constructor : LinearDense_bases = ["WeightBiasDelayMixin"; "Connection"] /\
  LinearDense_init_positional = ["in_shape"; "out_shape"; "step_time"] /\
  LinearDense_init_kwonly =
  ["synapse"; "bias"; "delay"; "batch_size"; "weight_init"; "bias_init"; "delay_init"] /\
  LinearDense_default_bias = ABool false /\
  LinearDense_default_delay = ANone /\
  LinearDense_default_batch_size = AInt 1 /\
  LinearDense_default_weight_init = ANone /\
  LinearDense_default_bias_init = ANone /\ LinearDense_default_delay_init = ANone.
Proof. exact (@Inferno.C05.GenTieLinearDense.tie_LinearDense_constructor). Qed.
Print Assumptions tie_LinearDense_constructor.
