(* Obligation C05/tie_Conv2D_presyn_receptive.  Statement as printed by Coq from Inferno.C05.GenTieConv2D; proof by reference.
   This file contains nothing else, so the statement cannot be weakened quietly. *)
From Coq Require Import List ZArith Bool String Arith.
From Inferno Require Import Base.Num Gen.ConnectionClasses C05.Conn C05.ConnPatterns C05.GenTieConv2D.
Import ListNotations.
Open Scope string_scope.
Theorem tie_Conv2D_presyn_receptive : Conv2D_presyn_receptive_patterns = [pat_Conv2D_presyn_receptive] /\
  Conv2D_presyn_receptive_params = ["data"] /\
  Conv2D_presyn_receptive_is_property = false /\
  Conv2D_presyn_receptive =
  [SReturn
     (ACall "ein.rearrange"
        [AVar "data"; AStr pat_Conv2D_presyn_receptive; AKw "c" (ASelf "channels");
         AKw "kh" (ASub (ASelf "kernel") (AInt 0)); AKw "kw" (ASub (ASelf "kernel") (AInt 1))])].
Proof. exact (@Inferno.C05.GenTieConv2D.tie_Conv2D_presyn_receptive). Qed.
Print Assumptions tie_Conv2D_presyn_receptive.
