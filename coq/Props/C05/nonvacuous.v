(* Obligation C05/nonvacuous: the hypotheses of the C05 theorems are met by concrete non-trivial instances
   - a constructed 3x3 / 2x2-kernel Conv2D (well-formed kernel, non-empty 2x2 output, an image position that is read),
     on which the cross-correlation spec takes the expected value;
   - a constructed 2-neuron lateral connection with delays and a history of a broadcast assignment, an updater
     application and a delay assignment (well-formed operations), on which the history spec takes the expected values;
   so the theorems are not about an empty class of states. *)
From Coq Require Import List ZArith Bool Arith Lia Reals Lra.
From Inferno Require Import Base.Num Base.NumR C05.Conn C05.ConnSpec C05.ConnProofs.
Import ListNotations.
Open Scope R_scope.

Definition g33 : geom := mkG 3 3 1 1 2 2 1 1 0 0 1 1.
Definition w22 : list (list (list (list R))) := [[[[1; 2]; [3; 4]]]].
Definition x33 : image RN := [[[1; 2; 3]; [4; 5; 6]; [7; 8; 9]]].
Definition ops2 : list (lop RN) :=
  [OpSetW RN (VScalar RN 3);
   OpUpd RN [[[1; 1]; [10; 1]]] [[[0; 0]; [/ 2; 0]]] [] [];
   OpSetD RN (VRow RN [4; 6])].

Theorem nonvacuous :
  (exists c, conv_ctor RN g33 1 w22 None = Ok c) /\
  outH RN g33 = 2%Z /\ outW RN g33 = 2%Z /\ wf_kernel g33 w22 /\
  conv_spec g33 w22 None x33 0 1 1 = 1 * 5 + 2 * 6 + 3 * 8 + 4 * 9 /\
  (exists i j oh ow, (i < 2)%nat /\ (j < 2)%nat /\ (oh < 2)%nat /\ (ow < 2)%nat /\
                     rowpos g33 oh i = 2%Z /\ colpos g33 ow j = 2%Z) /\
  exists s0, lat_ctor RN [2%Z] 1 [[5; 1]; [2; 7]] true None (Some [/ 2; / 4]) = Ok s0 /\
             lat_inv s0 /\ l_n RN s0 = 2%nat /\ is_mat 2 (l_w RN s0) /\ Forall (wf_op 2) ops2 /\
             (exists d, l_d RN s0 = Some d /\ is_mat 2 d) /\
             fold_left wstep ops2 (mat_at (l_w RN s0)) 1%nat 0%nat = 3 + 10 - / 2 /\
             fold_left wstep ops2 (mat_at (l_w RN s0)) 1%nat 1%nat = 0 /\
             fold_left dstep ops2 (fun _ _ => 0) 1%nat 0%nat = 4.
Proof.
  assert (Hh : outH RN g33 = 2%Z)
    by (change (outH RN g33) with (outsz_code RN 3 0 1 2 1); rewrite outsz_code_spec by lia; reflexivity).
  assert (Hw : outW RN g33 = 2%Z)
    by (change (outW RN g33) with (outsz_code RN 3 0 1 2 1); rewrite outsz_code_spec by lia; reflexivity).
  split; [eexists; unfold conv_ctor; rewrite Hh, Hw; reflexivity|].
  split; [exact Hh|]. split; [exact Hw|].
  split.
  { intros wf [<-|[]]. split; [reflexivity|]. intros wc [<-|[]]. split; [reflexivity|].
    intros row [<-|[<-|[]]]; reflexivity. }
  split.
  { unfold conv_spec, w4, xp, xpad, rowpos, colpos, pos, bias_at, nth0, g33, w22, x33. simpl. lra. }
  split.
  { exists 1%nat, 1%nat, 1%nat, 1%nat. repeat split; try lia; reflexivity. }
  eexists. split; [reflexivity|].
  split; [apply (lat_ctor_inv [2%Z] 1%Z [[5; 1]; [2; 7]] true None (Some [/ 2; / 4])); reflexivity|].
  split; [reflexivity|].
  split.
  { split; [reflexivity|]. intros r Hin. unfold masked, mapi in Hin. simpl in Hin.
    destruct Hin as [<-|[<-|[]]]; reflexivity. }
  split.
  { unfold ops2. repeat constructor; simpl; try reflexivity;
      intros r [<-|[<-|[]]]; reflexivity. }
  split.
  { eexists. split; [reflexivity|]. split; [reflexivity|].
    intros r Hin. unfold masked, mapi, zeros in Hin. simpl in Hin. destruct Hin as [<-|[<-|[]]]; reflexivity. }
  unfold ops2, wstep, dstep, off, bval_at, parts_at, mat_at. simpl.
  repeat split; lra.
Qed.
Print Assumptions nonvacuous.
