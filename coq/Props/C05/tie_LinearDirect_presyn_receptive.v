(* Obligation C05/tie_LinearDirect_presyn_receptive.  Statement as printed by Coq from Inferno.C05.GenTieLinearDirect; proof by reference.
   This file contains nothing else, so the statement cannot be weakened quietly. *)
From Coq Require Import List ZArith Bool String Arith.
From Inferno Require Import Base.Num Gen.ConnectionClasses C05.Conn C05.ConnPatterns C05.GenTieLinearDirect.
Import ListNotations.
Open Scope string_scope.
Theorem tie_LinearDirect_presyn_receptive : LinearDirect_presyn_receptive_patterns = [pat_LinearDirect_presyn_receptive] /\
  LinearDirect_presyn_receptive_params = ["data"] /\
  LinearDirect_presyn_receptive_is_property = false /\
  LinearDirect_presyn_receptive =
  [SReturn (ACall "ein.rearrange" [AVar "data"; AStr pat_LinearDirect_presyn_receptive])].
Proof. exact (@Inferno.C05.GenTieLinearDirect.tie_LinearDirect_presyn_receptive). Qed.
Print Assumptions tie_LinearDirect_presyn_receptive.
