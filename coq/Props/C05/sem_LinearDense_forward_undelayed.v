(* Obligation C05/sem_LinearDense_forward_undelayed.  Statement as printed by Coq from Inferno.C05.GenTieSem; proof by reference.
   This file contains nothing else, so the statement cannot be weakened quietly. *)
From Coq Require Import List ZArith Bool String Arith.
From Inferno Require Import Base.Num Gen.ConnectionClasses C05.Conn C05.ConnPatterns C05.GenTieSem.
Import ListNotations.
Open Scope string_scope.
Theorem sem_LinearDense_forward_undelayed : forall (N : Num) (cur W : list (list (T N))) (b : option (list (T N))),
  run N {| e_cur := cur; e_w := VMat N W; e_b := b; e_delayed := false |} 10
    LinearDense_forward (VNone N) = Some (VMat N (linear N cur W b)).
Proof. exact (@Inferno.C05.GenTieSem.sem_LinearDense_forward_undelayed). Qed.
Print Assumptions sem_LinearDense_forward_undelayed.
