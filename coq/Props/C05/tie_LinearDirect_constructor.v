(* Obligation C05/tie_LinearDirect_constructor.  Statement as printed by Coq from Inferno.C05.GenTieLinearDirect; proof by reference.
   This file contains nothing else, so the statement cannot be weakened quietly. *)
From Coq Require Import List ZArith Bool String Arith.
From Inferno Require Import Base.Num Gen.ConnectionClasses C05.Conn C05.ConnPatterns C05.GenTieLinearDirect.
Import ListNotations.
Open Scope string_scope.
Theorem tie_LinearDirect_constructor : LinearDirect_bases = ["WeightBiasDelayMixin"; "Connection"] /\
  LinearDirect_init_positional = ["shape"; "step_time"] /\
  LinearDirect_init_kwonly =
  ["synapse"; "bias"; "delay"; "batch_size"; "weight_init"; "bias_init"; "delay_init"] /\
  LinearDirect_default_bias = ABool false /\
  LinearDirect_default_delay = ANone /\
  LinearDirect_default_batch_size = AInt 1 /\
  LinearDirect_default_weight_init = ANone /\
  LinearDirect_default_bias_init = ANone /\ LinearDirect_default_delay_init = ANone.
Proof. exact (@Inferno.C05.GenTieLinearDirect.tie_LinearDirect_constructor). Qed.
Print Assumptions tie_LinearDirect_constructor.
