(* Obligation C05/unfold_spec.  Statement as printed by Coq from Inferno.C05.ConnProofs; proof by reference.
   This file contains nothing else, so the statement cannot be weakened quietly. *)
From Coq Require Import List ZArith Bool Arith Lia Reals.
From Inferno Require Import Base.Num Base.NumR C05.Conn C05.ConnSpec C05.ConnProofs.
Import ListNotations.
Open Scope R_scope.
Theorem unfold_spec : forall (g : geom) (x : image RN) (c i j oh ow : nat),
  (c < Z.to_nat (gC g))%nat ->
  (i < Z.to_nat (kH g))%nat ->
  (j < Z.to_nat (kW g))%nat ->
  (oh < Z.to_nat (outH RN g))%nat ->
  (ow < Z.to_nat (outW RN g))%nat ->
  nth (oh * Z.to_nat (outW RN g) + ow)
    (nth ((c * Z.to_nat (kH g) + i) * Z.to_nat (kW g) + j) (unfold RN g x) []) 0 =
  xp g x c (rowpos g oh i) (colpos g ow j).
Proof. exact (@Inferno.C05.ConnProofs.unfold_spec). Qed.
Print Assumptions unfold_spec.
