(* Obligation C05/tie_LinearLateral_selector.  Statement as printed by Coq from Inferno.C05.GenTieLinearLateral; proof by reference.
   This file contains nothing else, so the statement cannot be weakened quietly. *)
From Coq Require Import List ZArith Bool String Arith.
From Inferno Require Import Base.Num Gen.ConnectionClasses C05.Conn C05.ConnPatterns C05.GenTieLinearLateral.
Import ListNotations.
Open Scope string_scope.
Theorem tie_LinearLateral_selector : LinearLateral_selector_patterns = [] /\
  LinearLateral_selector_params = [] /\
  LinearLateral_selector_is_property = true /\
  LinearLateral_selector =
  [SReturn (AMeth (AAttr (AVar "LinearDense") "selector") "fget" [AVar "self"])].
Proof. exact (@Inferno.C05.GenTieLinearLateral.tie_LinearLateral_selector). Qed.
Print Assumptions tie_LinearLateral_selector.
