(* Obligation C05/conv_ctor_accepts_negative_output.  Statement as printed by Coq from Inferno.C05.ConnProofs; proof by reference.
   This file contains nothing else, so the statement cannot be weakened quietly. *)
From Coq Require Import List ZArith Bool Arith Lia Reals.
From Inferno Require Import Base.Num Base.NumR C05.Conn C05.ConnSpec C05.ConnProofs.
Import ListNotations.
Open Scope R_scope.
Theorem conv_ctor_accepts_negative_output : exists c : conv RN,
    conv_ctor RN g_neg 1 [] None = Ok c /\
    outH RN g_neg = (-1)%Z /\
    outW RN g_neg = (-1)%Z /\
    (forall xs : list (image RN),
     conv_forward RN c [1%nat; 1%nat; 1%nat; 1%nat] xs = Err ERuntime).
Proof. exact (@Inferno.C05.ConnProofs.conv_ctor_accepts_negative_output). Qed.
Print Assumptions conv_ctor_accepts_negative_output.
