(* Obligation C05/like_input_like_synaptic_conv.  Statement as printed by Coq from Inferno.C05.ConnProofs; proof by reference.
   This file contains nothing else, so the statement cannot be weakened quietly. *)
From Coq Require Import List ZArith Bool Arith Lia Reals.
From Inferno Require Import Base.Num Base.NumR C05.Conn C05.ConnSpec C05.ConnProofs.
Import ListNotations.
Open Scope R_scope.
Theorem like_input_like_synaptic_conv : forall (g : geom) (x : image RN) (c y s : nat),
  (c < Z.to_nat (gC g))%nat ->
  (Z.of_nat y < gH g)%Z ->
  (Z.of_nat s < gW g)%Z ->
  (exists i j oh ow : nat,
     (i < Z.to_nat (kH g))%nat /\
     (j < Z.to_nat (kW g))%nat /\
     (oh < Z.to_nat (outH RN g))%nat /\
     (ow < Z.to_nat (outW RN g))%nat /\
     rowpos g oh i = Z.of_nat y /\ colpos g ow j = Z.of_nat s) ->
  img_at (conv_like_input RN g (unfold RN g x)) c y s = img_at x c y s.
Proof. exact (@Inferno.C05.ConnProofs.like_input_like_synaptic_conv). Qed.
Print Assumptions like_input_like_synaptic_conv.
