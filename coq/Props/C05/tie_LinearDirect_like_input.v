(* Obligation C05/tie_LinearDirect_like_input.  Statement as printed by Coq from Inferno.C05.GenTieLinearDirect; proof by reference.
   This file contains nothing else, so the statement cannot be weakened quietly. *)
From Coq Require Import List ZArith Bool String Arith.
From Inferno Require Import Base.Num Gen.ConnectionClasses C05.Conn C05.ConnPatterns C05.GenTieLinearDirect.
Import ListNotations.
Open Scope string_scope.
Theorem tie_LinearDirect_like_input : LinearDirect_like_input_patterns = [] /\
  LinearDirect_like_input_params = ["data"] /\
  LinearDirect_like_input_is_property = false /\
  LinearDirect_like_input =
  [SReturn (AMeth (AVar "data") "view" [AInt (-1); AStar (ASelf "inshape")])].
Proof. exact (@Inferno.C05.GenTieLinearDirect.tie_LinearDirect_like_input). Qed.
Print Assumptions tie_LinearDirect_like_input.
