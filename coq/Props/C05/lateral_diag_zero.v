(* Obligation C05/lateral_diag_zero.  Statement as printed by Coq from Inferno.C05.ConnProofs; proof by reference.
   This file contains nothing else, so the statement cannot be weakened quietly. *)
From Coq Require Import List ZArith Bool Arith Lia Reals.
From Inferno Require Import Base.Num Base.NumR C05.Conn C05.ConnSpec C05.ConnProofs.
Import ListNotations.
Open Scope R_scope.
Theorem lateral_diag_zero : forall (sh : list Z) (B : Z) (winit : list (list (T RN))) (hd : bool)
    (dinit : option (list (list (T RN)))) (binit : option (list (T RN))) 
    (s0 : lat RN) (ops : list (lop RN)),
  lat_ctor RN sh B winit hd dinit binit = Ok s0 ->
  let s := lat_run RN s0 ops in
  (forall i : nat, mat_at (l_w RN s) i i = 0) /\
  (forall d : list (list (T RN)), l_d RN s = Some d -> forall i : nat, mat_at d i i = 0).
Proof. exact (@Inferno.C05.ConnProofs.lateral_diag_zero). Qed.
Print Assumptions lateral_diag_zero.
