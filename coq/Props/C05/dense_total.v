(* Obligation C05/dense_total.  Statement as printed by Coq from Inferno.C05.ConnProofs; proof by reference.
   This file contains nothing else, so the statement cannot be weakened quietly. *)
From Coq Require Import List ZArith Bool Arith Lia Reals.
From Inferno Require Import Base.Num Base.NumR C05.Conn C05.ConnSpec C05.ConnProofs.
Import ListNotations.
Open Scope R_scope.
Theorem dense_total : forall (ins outs : list Z) (B : Z) (w : list (list (T RN))) (b : option (list (T RN)))
    (xd : list (T RN)),
  all_pos ins = true ->
  all_pos outs = true ->
  (0 < B)%Z ->
  exists c : dense RN,
    dense_ctor RN ins outs B w b = Ok c /\
    (exists out : tensor RN,
       dense_forward RN c {| tshape := Z.to_nat B :: map Z.to_nat ins; tdata := xd |} = Ok out).
Proof. exact (@Inferno.C05.ConnProofs.dense_total). Qed.
Print Assumptions dense_total.
