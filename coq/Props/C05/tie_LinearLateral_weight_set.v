(* Obligation C05/tie_LinearLateral_weight_set.  Statement as printed by Coq from Inferno.C05.GenTieLinearLateral; proof by reference.
   This file contains nothing else, so the statement cannot be weakened quietly. *)
From Coq Require Import List ZArith Bool String Arith.
From Inferno Require Import Base.Num Gen.ConnectionClasses C05.Conn C05.ConnPatterns C05.GenTieLinearLateral.
Import ListNotations.
Open Scope string_scope.
Theorem tie_LinearLateral_weight_set : forall (N : Num) (v : list (list (T N))),
  masked N v =
  mapi
    (fun (i : nat) (row : list (T N)) =>
     mapi (fun (j : nat) (a : T N) => LinearLateral_weight_set N a (LinearLateral_mask N i j))
       row) v /\ LinearLateral_mask_persistent = ABool false.
Proof. exact (@Inferno.C05.GenTieLinearLateral.tie_LinearLateral_weight_set). Qed.
Print Assumptions tie_LinearLateral_weight_set.
