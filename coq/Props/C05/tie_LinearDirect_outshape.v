(* Obligation C05/tie_LinearDirect_outshape.  Statement as printed by Coq from Inferno.C05.GenTieLinearDirect; proof by reference.
   This file contains nothing else, so the statement cannot be weakened quietly. *)
From Coq Require Import List ZArith Bool String Arith.
From Inferno Require Import Base.Num Gen.ConnectionClasses C05.Conn C05.ConnPatterns C05.GenTieLinearDirect.
Import ListNotations.
Open Scope string_scope.
Theorem tie_LinearDirect_outshape : LinearDirect_outshape_patterns = [] /\
  LinearDirect_outshape_params = [] /\
  LinearDirect_outshape_is_property = true /\
  LinearDirect_outshape = [SReturn (ASelf "shape")].
Proof. exact (@Inferno.C05.GenTieLinearDirect.tie_LinearDirect_outshape). Qed.
Print Assumptions tie_LinearDirect_outshape.
