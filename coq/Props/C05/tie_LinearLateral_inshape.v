(* Obligation C05/tie_LinearLateral_inshape.  Statement as printed by Coq from Inferno.C05.GenTieLinearLateral; proof by reference.
   This file contains nothing else, so the statement cannot be weakened quietly. *)
From Coq Require Import List ZArith Bool String Arith.
From Inferno Require Import Base.Num Gen.ConnectionClasses C05.Conn C05.ConnPatterns C05.GenTieLinearLateral.
Import ListNotations.
Open Scope string_scope.
Theorem tie_LinearLateral_inshape : LinearLateral_inshape_patterns = [] /\
  LinearLateral_inshape_params = [] /\
  LinearLateral_inshape_is_property = true /\
  LinearLateral_inshape = [SReturn (ASelf "shape")].
Proof. exact (@Inferno.C05.GenTieLinearLateral.tie_LinearLateral_inshape). Qed.
Print Assumptions tie_LinearLateral_inshape.
