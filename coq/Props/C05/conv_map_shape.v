(* Obligation C05/conv_map_shape.  Statement as printed by Coq from Inferno.C05.ConnProofs; proof by reference.
   This file contains nothing else, so the statement cannot be weakened quietly. *)
From Coq Require Import List ZArith Bool Arith Lia Reals.
From Inferno Require Import Base.Num Base.NumR C05.Conn C05.ConnSpec C05.ConnProofs.
Import ListNotations.
Open Scope R_scope.
Theorem conv_map_shape : forall (g : geom) (w : list (list (list (list (T RN))))) (b : option (list (T RN)))
    (cur : list (list (T RN))),
  (forall bv : list (T RN), b = Some bv -> length bv = length w) ->
  length (conv_map RN g w b cur) = length w /\
  (forall f : nat,
   (f < length w)%nat ->
   length (nth f (conv_map RN g w b cur) []) = Z.to_nat (outH RN g) /\
   (forall oh : nat,
    (oh < Z.to_nat (outH RN g))%nat ->
    length (nth oh (nth f (conv_map RN g w b cur) []) []) = Z.to_nat (outW RN g))).
Proof. exact (@Inferno.C05.ConnProofs.conv_map_shape). Qed.
Print Assumptions conv_map_shape.
