(* Obligation C05/direct_total.  Statement as printed by Coq from Inferno.C05.ConnProofs; proof by reference.
   This file contains nothing else, so the statement cannot be weakened quietly. *)
From Coq Require Import List ZArith Bool Arith Lia Reals.
From Inferno Require Import Base.Num Base.NumR C05.Conn C05.ConnSpec C05.ConnProofs.
Import ListNotations.
Open Scope R_scope.
Theorem direct_total : forall (sh : list Z) (B : Z) (w : list (T RN)) (b : option (list (T RN))) (xd : list (T RN)),
  all_pos sh = true ->
  (0 < B)%Z ->
  exists c : direct RN,
    direct_ctor RN sh B w b = Ok c /\
    (exists out : tensor RN,
       direct_forward RN c {| tshape := Z.to_nat B :: map Z.to_nat sh; tdata := xd |} = Ok out).
Proof. exact (@Inferno.C05.ConnProofs.direct_total). Qed.
Print Assumptions direct_total.
