(* Obligation C05/direct_forward_spec.  Statement as printed by Coq from Inferno.C05.ConnProofs; proof by reference.
   This file contains nothing else, so the statement cannot be weakened quietly. *)
From Coq Require Import List ZArith Bool Arith Lia Reals.
From Inferno Require Import Base.Num Base.NumR C05.Conn C05.ConnSpec C05.ConnProofs.
Import ListNotations.
Open Scope R_scope.
Theorem direct_forward_spec : forall (c : direct RN) (x out : tensor RN),
  let n := prodn (r_shape RN c) in
  let B := r_B RN c in
  direct_forward RN c x = Ok out ->
  length (tdata x) = (B * n)%nat ->
  length (r_w RN c) = n ->
  (forall bv : list (T RN), r_b RN c = Some bv -> length bv = n) ->
  (0 < n)%nat ->
  tshape out = B :: r_shape RN c /\
  length (tdata out) = (B * n)%nat /\
  (forall r o : nat,
   (r < B)%nat ->
   (o < n)%nat ->
   nth (r * n + o) (tdata out) 0 =
   nth (r * n + o) (tdata x) 0 * nth o (r_w RN c) 0 + bias_at (r_b RN c) o).
Proof. exact (@Inferno.C05.ConnProofs.direct_forward_spec). Qed.
Print Assumptions direct_forward_spec.
