(* Obligation C05/dense_receptive_broadcast.  Statement as printed by Coq from Inferno.C05.ConnProofs; proof by reference.
   This file contains nothing else, so the statement cannot be weakened quietly. *)
From Coq Require Import List ZArith Bool Arith Lia Reals.
From Inferno Require Import Base.Num Base.NumR C05.Conn C05.ConnSpec C05.ConnProofs.
Import ListNotations.
Open Scope R_scope.
Theorem dense_receptive_broadcast : forall (B : nat) (ins outs : list nat),
  bshape (dense_postsyn_shape (B :: outs)) (dense_presyn2_shape (flat_shape (B :: ins))) =
  Some ([B] ++ [prodn outs; prodn ins] ++ [1%nat]).
Proof. exact (@Inferno.C05.ConnProofs.dense_receptive_broadcast). Qed.
Print Assumptions dense_receptive_broadcast.
