(* Obligation C05/conv_presyn4_spec.  Statement as printed by Coq from Inferno.C05.ConnProofs; proof by reference.
   This file contains nothing else, so the statement cannot be weakened quietly. *)
From Coq Require Import List ZArith Bool Arith Lia Reals.
From Inferno Require Import Base.Num Base.NumR C05.Conn C05.ConnSpec C05.ConnProofs.
Import ListNotations.
Open Scope R_scope.
Theorem conv_presyn4_spec : forall (d : list (list (list R))) (nf f n l : nat),
  (f < nf)%nat ->
  (n < length d)%nat ->
  (l < length (nth n d []))%nat ->
  nth l (nth n (nth f (conv_presyn4 RN nf d) []) []) 0 = nth f (nth l (nth n d []) []) 0.
Proof. exact (@Inferno.C05.ConnProofs.conv_presyn4_spec). Qed.
Print Assumptions conv_presyn4_spec.
