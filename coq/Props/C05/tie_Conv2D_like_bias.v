(* Obligation C05/tie_Conv2D_like_bias.  Statement as printed by Coq from Inferno.C05.GenTieConv2D; proof by reference.
   This file contains nothing else, so the statement cannot be weakened quietly. *)
From Coq Require Import List ZArith Bool String Arith.
From Inferno Require Import Base.Num Gen.ConnectionClasses C05.Conn C05.ConnPatterns C05.GenTieConv2D.
Import ListNotations.
Open Scope string_scope.
Theorem tie_Conv2D_like_bias : Conv2D_like_bias_patterns = [pat_Conv2D_like_bias] /\
  Conv2D_like_bias_params = ["data"] /\
  Conv2D_like_bias_is_property = false /\
  Conv2D_like_bias =
  [SReturn (ACall "ein.rearrange" [AVar "data"; AStr pat_Conv2D_like_bias])].
Proof. exact (@Inferno.C05.GenTieConv2D.tie_Conv2D_like_bias). Qed.
Print Assumptions tie_Conv2D_like_bias.
