(* Obligation C05/tie_LinearDense_selector.  Statement as printed by Coq from Inferno.C05.GenTieLinearDense; proof by reference.
   This file contains nothing else, so the statement cannot be weakened quietly. *)
From Coq Require Import List ZArith Bool String Arith.
From Inferno Require Import Base.Num Gen.ConnectionClasses C05.Conn C05.ConnPatterns C05.GenTieLinearDense.
Import ListNotations.
Open Scope string_scope.
Theorem tie_LinearDense_selector : LinearDense_selector_patterns = [pat_LinearDense_selector] /\
  LinearDense_selector_params = [] /\
  LinearDense_selector_is_property = true /\
  LinearDense_selector =
  [SIf (ACmp "is not" (ASelf "delayedby") ANone) [SAssign "delays" (ASelf "delay")]
     [SAssign "delays" (ACall "torch.zeros_like" [ASelf "weight"])];
   SReturn
     (AMeth (ACall "ein.rearrange" [AVar "delays"; AStr pat_LinearDense_selector]) "expand"
        [ASelf "batchsz"; AInt (-1); AInt (-1)])].
Proof. exact (@Inferno.C05.GenTieLinearDense.tie_LinearDense_selector). Qed.
Print Assumptions tie_LinearDense_selector.
