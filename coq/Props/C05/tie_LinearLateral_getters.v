(* Obligation C05/tie_LinearLateral_getters.  Statement as printed by Coq from Inferno.C05.GenTieLinearLateral; proof by reference.
   This file contains nothing else, so the statement cannot be weakened quietly. *)
From Coq Require Import List ZArith Bool String Arith.
From Inferno Require Import Base.Num Gen.ConnectionClasses C05.Conn C05.ConnPatterns C05.GenTieLinearLateral.
Import ListNotations.
Open Scope string_scope.
Theorem tie_LinearLateral_getters : LinearLateral_weight_get =
  [SReturn (AMeth (AAttr (AVar "WeightBiasDelayMixin") "weight") "fget" [AVar "self"])] /\
  LinearLateral_delay_get =
  [SReturn (AMeth (AAttr (AVar "WeightBiasDelayMixin") "delay") "fget" [AVar "self"])].
Proof. exact (@Inferno.C05.GenTieLinearLateral.tie_LinearLateral_getters). Qed.
Print Assumptions tie_LinearLateral_getters.
