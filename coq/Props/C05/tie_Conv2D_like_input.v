(* Obligation C05/tie_Conv2D_like_input.  Statement as printed by Coq from Inferno.C05.GenTieConv2D; proof by reference.
   This file contains nothing else, so the statement cannot be weakened quietly. *)
From Coq Require Import List ZArith Bool String Arith.
From Inferno Require Import Base.Num Gen.ConnectionClasses C05.Conn C05.ConnPatterns C05.GenTieConv2D.
Import ListNotations.
Open Scope string_scope.
Theorem tie_Conv2D_like_input : Conv2D_like_input_patterns = [] /\
  Conv2D_like_input_params = ["data"] /\
  Conv2D_like_input_is_property = false /\
  Conv2D_like_input =
  [SIf (ACall "torch.is_floating_point" [AVar "data"])
     [SReturn
        (ABin "/"
           (ACall "F.fold"
              [AVar "data"; ATuple [ASelf "height"; ASelf "width"]; 
               ASelf "kernel"; AKw "dilation" (ASelf "dilation");
               AKw "padding" (ASelf "padding"); AKw "stride" (ASelf "stride")])
           (ACall "F.fold"
              [ACall "torch.ones_like" [AVar "data"]; ATuple [ASelf "height"; ASelf "width"];
               ASelf "kernel"; AKw "dilation" (ASelf "dilation");
               AKw "padding" (ASelf "padding"); AKw "stride" (ASelf "stride")]))]
     [SReturn
        (AMeth
           (ABin "/"
              (ACall "F.fold"
                 [AMeth (AVar "data") "to" [AKw "dtype" (AAttr (ASelf "weight") "dtype")];
                  ATuple [ASelf "height"; ASelf "width"]; ASelf "kernel";
                  AKw "dilation" (ASelf "dilation"); AKw "padding" (ASelf "padding");
                  AKw "stride" (ASelf "stride")])
              (ACall "F.fold"
                 [ACall "ones" [AVar "data"; AKw "dtype" (AAttr (ASelf "weight") "dtype")];
                  ATuple [ASelf "height"; ASelf "width"]; ASelf "kernel";
                  AKw "dilation" (ASelf "dilation"); AKw "padding" (ASelf "padding");
                  AKw "stride" (ASelf "stride")])) "to"
           [AKw "dtype" (AAttr (AVar "data") "dtype")])]].
Proof. exact (@Inferno.C05.GenTieConv2D.tie_Conv2D_like_input). Qed.
Print Assumptions tie_Conv2D_like_input.
