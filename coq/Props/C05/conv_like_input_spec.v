(* Obligation C05/conv_like_input_spec.  Statement as printed by Coq from Inferno.C05.ConnProofs; proof by reference.
   This file contains nothing else, so the statement cannot be weakened quietly. *)
From Coq Require Import List ZArith Bool Arith Lia Reals.
From Inferno Require Import Base.Num Base.NumR C05.Conn C05.ConnSpec C05.ConnProofs.
Import ListNotations.
Open Scope R_scope.
Theorem conv_like_input_spec : forall (g : geom) (data : list (list R)) (c y s : nat),
  (c < Z.to_nat (gC g))%nat ->
  (y < Z.to_nat (gH g))%nat ->
  (s < Z.to_nat (gW g))%nat ->
  length data = (Z.to_nat (gC g) * (Z.to_nat (kH g) * Z.to_nat (kW g)))%nat ->
  (forall n : nat,
   (n < Z.to_nat (gC g) * (Z.to_nat (kH g) * Z.to_nat (kW g)))%nat ->
   length (nth n data []) = (Z.to_nat (outH RN g) * Z.to_nat (outW RN g))%nat) ->
  img_at (conv_like_input RN g data) c y s =
  Rsum (Z.to_nat (kH g))
    (fun i : nat =>
     Rsum (Z.to_nat (kW g))
       (fun j : nat =>
        Rsum (Z.to_nat (outH RN g))
          (fun oh : nat =>
           Rsum (Z.to_nat (outW RN g))
             (fun ow : nat =>
              if reads g i j oh ow y s
              then
               mat_at data ((c * Z.to_nat (kH g) + i) * Z.to_nat (kW g) + j)
                 (oh * Z.to_nat (outW RN g) + ow)
              else 0)))) / cnt g y s.
Proof. exact (@Inferno.C05.ConnProofs.conv_like_input_spec). Qed.
Print Assumptions conv_like_input_spec.
