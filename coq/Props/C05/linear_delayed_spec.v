(* Obligation C05/linear_delayed_spec.  Statement as printed by Coq from Inferno.C05.ConnProofs; proof by reference.
   This file contains nothing else, so the statement cannot be weakened quietly. *)
From Coq Require Import List ZArith Bool Arith Lia Reals.
From Inferno Require Import Base.Num Base.NumR C05.Conn C05.ConnSpec C05.ConnProofs.
Import ListNotations.
Open Scope R_scope.
Theorem linear_delayed_spec : forall (cur3 : list (list (list R))) (W : list (list R)) (b : option (list (T RN)))
    (I bi o : nat),
  (bi < length cur3)%nat ->
  (o < length W)%nat ->
  length (nth bi cur3 []) = I ->
  length (nth o W []) = I ->
  (forall bv : list (T RN), b = Some bv -> length bv = length W) ->
  nth o (nth bi (linear_delayed RN cur3 W b) []) 0 =
  Rsum I (fun i : nat => nth o (nth i (nth bi cur3 []) []) 0 * nth i (nth o W []) 0) +
  bias_at b o.
Proof. exact (@Inferno.C05.ConnProofs.linear_delayed_spec). Qed.
Print Assumptions linear_delayed_spec.
