(* Obligation C05/linear_like_input_like_synaptic.  Statement as printed by Coq from Inferno.C05.ConnProofs; proof by reference.
   This file contains nothing else, so the statement cannot be weakened quietly. *)
From Coq Require Import List ZArith Bool Arith Lia Reals.
From Inferno Require Import Base.Num Base.NumR C05.Conn C05.ConnSpec C05.ConnProofs.
Import ListNotations.
Open Scope R_scope.
Theorem linear_like_input_like_synaptic : forall (B : nat) (ins : list nat),
  (0 < prodn ins)%nat ->
  flat_shape (B :: ins) = [B; prodn ins] /\ view_shape (B * prodn ins) ins = B :: ins.
Proof. exact (@Inferno.C05.ConnProofs.linear_like_input_like_synaptic). Qed.
Print Assumptions linear_like_input_like_synaptic.
