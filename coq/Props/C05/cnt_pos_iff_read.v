(* Obligation C05/cnt_pos_iff_read.  Statement as printed by Coq from Inferno.C05.ConnProofs; proof by reference.
   This file contains nothing else, so the statement cannot be weakened quietly. *)
From Coq Require Import List ZArith Bool Arith Lia Reals.
From Inferno Require Import Base.Num Base.NumR C05.Conn C05.ConnSpec C05.ConnProofs.
Import ListNotations.
Open Scope R_scope.
Theorem cnt_pos_iff_read : forall (g : geom) (y s : nat),
  cnt g y s <> 0 <->
  (exists i j oh ow : nat,
     (i < Z.to_nat (kH g))%nat /\
     (j < Z.to_nat (kW g))%nat /\
     (oh < Z.to_nat (outH RN g))%nat /\
     (ow < Z.to_nat (outW RN g))%nat /\
     rowpos g oh i = Z.of_nat y /\ colpos g ow j = Z.of_nat s).
Proof. exact (@Inferno.C05.ConnProofs.cnt_pos_iff_read). Qed.
Print Assumptions cnt_pos_iff_read.
