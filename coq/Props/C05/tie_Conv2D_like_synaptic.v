(* Obligation C05/tie_Conv2D_like_synaptic.  Statement as printed by Coq from Inferno.C05.GenTieConv2D; proof by reference.
   This file contains nothing else, so the statement cannot be weakened quietly. *)
From Coq Require Import List ZArith Bool String Arith.
From Inferno Require Import Base.Num Gen.ConnectionClasses C05.Conn C05.ConnPatterns C05.GenTieConv2D.
Import ListNotations.
Open Scope string_scope.
Theorem tie_Conv2D_like_synaptic : Conv2D_like_synaptic_patterns = [] /\
  Conv2D_like_synaptic_params = ["data"] /\
  Conv2D_like_synaptic_is_property = false /\
  Conv2D_like_synaptic =
  [SIf (ACall "torch.is_floating_point" [AVar "data"])
     [SReturn
        (ACall "F.unfold"
           [AVar "data"; ASelf "kernel"; AKw "dilation" (ASelf "dilation");
            AKw "padding" (ASelf "padding"); AKw "stride" (ASelf "stride")])]
     [SReturn
        (AMeth
           (ACall "F.unfold"
              [AMeth (AVar "data") "to" [AKw "dtype" (AAttr (ASelf "weight") "dtype")];
               ASelf "kernel"; AKw "dilation" (ASelf "dilation");
               AKw "padding" (ASelf "padding"); AKw "stride" (ASelf "stride")]) "to"
           [AKw "dtype" (AAttr (AVar "data") "dtype")])]].
Proof. exact (@Inferno.C05.GenTieConv2D.tie_Conv2D_like_synaptic). Qed.
Print Assumptions tie_Conv2D_like_synaptic.
