(* Obligation C05/tie_LinearDense_inshape.  Statement as printed by Coq from Inferno.C05.GenTieLinearDense; proof by reference.
   This file contains nothing else, so the statement cannot be weakened quietly. *)
From Coq Require Import List ZArith Bool String Arith.
From Inferno Require Import Base.Num Gen.ConnectionClasses C05.Conn C05.ConnPatterns C05.GenTieLinearDense.
Import ListNotations.
Open Scope string_scope.
Theorem tie_LinearDense_inshape : LinearDense_inshape_patterns = [] /\
  LinearDense_inshape_params = [] /\
  LinearDense_inshape_is_property = true /\ LinearDense_inshape = [SReturn (ASelf "in_shape")].
Proof. exact (@Inferno.C05.GenTieLinearDense.tie_LinearDense_inshape). Qed.
Print Assumptions tie_LinearDense_inshape.
