(* Obligation C05/lateral_forward_history.  Statement as printed by Coq from Inferno.C05.ConnProofs; proof by reference.
   This file contains nothing else, so the statement cannot be weakened quietly. *)
From Coq Require Import List ZArith Bool Arith Lia Reals.
From Inferno Require Import Base.Num Base.NumR C05.Conn C05.ConnSpec C05.ConnProofs.
Import ListNotations.
Open Scope R_scope.
Theorem lateral_forward_history : forall (s : lat RN) (ops : list (lop RN)) (w : nat -> nat -> R) (x out : tensor RN),
  let n := l_n RN s in
  let B := l_B RN s in
  let s' := lat_run RN s ops in
  lat_inv s ->
  is_mat n (l_w RN s) ->
  Forall (wf_op n) ops ->
  agree n (l_w RN s) w ->
  lat_forward RN s' x = Ok out ->
  length (tdata x) = (B * n)%nat ->
  (forall bv : list (T RN), l_b RN s' = Some bv -> length bv = n) ->
  (0 < n)%nat ->
  tshape out = B :: l_shape RN s /\
  (forall r o : nat,
   (r < B)%nat ->
   (o < n)%nat ->
   nth (r * n + o) (tdata out) 0 =
   Rsum n
     (fun i : nat =>
      if i =? o then 0 else nth (r * n + i) (tdata x) 0 * fold_left wstep ops w o i) +
   bias_at (l_b RN s') o).
Proof. exact (@Inferno.C05.ConnProofs.lateral_forward_history). Qed.
Print Assumptions lateral_forward_history.
