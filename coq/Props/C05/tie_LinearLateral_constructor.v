(* Obligation C05/tie_LinearLateral_constructor.  Statement as printed by Coq from Inferno.C05.GenTieLinearLateral; proof by reference.
   This file contains nothing else, so the statement cannot be weakened quietly. *)
From Coq Require Import List ZArith Bool String Arith.
From Inferno Require Import Base.Num Gen.ConnectionClasses C05.Conn C05.ConnPatterns C05.GenTieLinearLateral.
Import ListNotations.
Open Scope string_scope.
Theorem tie_LinearLateral_constructor : LinearLateral_bases = ["WeightBiasDelayMixin"; "Connection"] /\
  LinearLateral_init_positional = ["shape"; "step_time"] /\
  LinearLateral_init_kwonly =
  ["synapse"; "bias"; "delay"; "batch_size"; "weight_init"; "bias_init"; "delay_init"] /\
  LinearLateral_default_bias = ABool false /\
  LinearLateral_default_delay = ANone /\
  LinearLateral_default_batch_size = AInt 1 /\
  LinearLateral_default_weight_init = ANone /\
  LinearLateral_default_bias_init = ANone /\ LinearLateral_default_delay_init = ANone.
Proof. exact (@Inferno.C05.GenTieLinearLateral.tie_LinearLateral_constructor). Qed.
Print Assumptions tie_LinearLateral_constructor.
