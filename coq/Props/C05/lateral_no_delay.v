(* Obligation C05/lateral_no_delay.  Statement as printed by Coq from Inferno.C05.ConnProofs; proof by reference.
   This file contains nothing else, so the statement cannot be weakened quietly. *)
From Coq Require Import List ZArith Bool Arith Lia Reals.
From Inferno Require Import Base.Num Base.NumR C05.Conn C05.ConnSpec C05.ConnProofs.
Import ListNotations.
Open Scope R_scope.
Theorem lateral_no_delay : forall (ops : list (lop RN)) (s : lat RN),
  l_d RN s = None -> l_d RN (lat_run RN s ops) = None.
Proof. exact (@Inferno.C05.ConnProofs.lateral_no_delay). Qed.
Print Assumptions lateral_no_delay.
