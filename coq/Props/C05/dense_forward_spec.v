(* Obligation C05/dense_forward_spec.  Statement as printed by Coq from Inferno.C05.ConnProofs; proof by reference.
   This file contains nothing else, so the statement cannot be weakened quietly. *)
From Coq Require Import List ZArith Bool Arith Lia Reals.
From Inferno Require Import Base.Num Base.NumR C05.Conn C05.ConnSpec C05.ConnProofs.
Import ListNotations.
Open Scope R_scope.
Theorem dense_forward_spec : forall (c : dense RN) (x out : tensor RN),
  let I := prodn (d_in RN c) in
  let O0 := prodn (d_out RN c) in
  let B := d_B RN c in
  dense_forward RN c x = Ok out ->
  length (tdata x) = (B * I)%nat ->
  length (d_w RN c) = O0 ->
  (forall wr : list (T RN), In wr (d_w RN c) -> length wr = I) ->
  (forall bv : list (T RN), d_b RN c = Some bv -> length bv = O0) ->
  (0 < O0)%nat ->
  tshape out = B :: d_out RN c /\
  length (tdata out) = (B * O0)%nat /\
  (forall r o : nat,
   (r < B)%nat ->
   (o < O0)%nat ->
   nth (r * O0 + o) (tdata out) 0 =
   Rsum I (fun i : nat => nth (r * I + i) (tdata x) 0 * nth i (nth o (d_w RN c) []) 0) +
   bias_at (d_b RN c) o).
Proof. exact (@Inferno.C05.ConnProofs.dense_forward_spec). Qed.
Print Assumptions dense_forward_spec.
