(* Obligation C05/tie_LinearDirect_inshape.  Statement as printed by Coq from Inferno.C05.GenTieLinearDirect; proof by reference.
   This file contains nothing else, so the statement cannot be weakened quietly. *)
From Coq Require Import List ZArith Bool String Arith.
From Inferno Require Import Base.Num Gen.ConnectionClasses C05.Conn C05.ConnPatterns C05.GenTieLinearDirect.
Import ListNotations.
Open Scope string_scope.
Theorem tie_LinearDirect_inshape : LinearDirect_inshape_patterns = [] /\
  LinearDirect_inshape_params = [] /\
  LinearDirect_inshape_is_property = true /\ LinearDirect_inshape = [SReturn (ASelf "shape")].
Proof. exact (@Inferno.C05.GenTieLinearDirect.tie_LinearDirect_inshape). Qed.
Print Assumptions tie_LinearDirect_inshape.
