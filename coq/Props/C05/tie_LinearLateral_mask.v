(* Obligation C05/tie_LinearLateral_mask.  Statement as printed by Coq from Inferno.C05.GenTieLinearLateral; proof by reference.
   This file contains nothing else, so the statement cannot be weakened quietly. *)
From Coq Require Import List ZArith Bool String Arith.
From Inferno Require Import Base.Num Gen.ConnectionClasses C05.Conn C05.ConnPatterns C05.GenTieLinearLateral.
Import ListNotations.
Open Scope string_scope.
Theorem tie_LinearLateral_mask : forall (N : Num) (i j : nat), mask_el N i j = LinearLateral_mask N i j.
Proof. exact (@Inferno.C05.GenTieLinearLateral.tie_LinearLateral_mask). Qed.
Print Assumptions tie_LinearLateral_mask.
