(* Obligation C05/conv_forward_spec.  Statement as printed by Coq from Inferno.C05.ConnProofs; proof by reference.
   This file contains nothing else, so the statement cannot be weakened quietly. *)
From Coq Require Import List ZArith Bool Arith Lia Reals.
From Inferno Require Import Base.Num Base.NumR C05.Conn C05.ConnSpec C05.ConnProofs.
Import ListNotations.
Open Scope R_scope.
Theorem conv_forward_spec : forall (c : conv RN) (xshape : list nat) (xs : list (image RN))
    (outs : list (list (list (list (T RN))))),
  let g := c_g RN c in
  conv_forward RN c xshape xs = Ok outs ->
  wf_kernel g (c_w RN c) ->
  (forall bv : list (T RN), c_b RN c = Some bv -> length bv = length (c_w RN c)) ->
  (0 < outH RN g)%Z /\
  (0 < outW RN g)%Z /\
  length outs = length xs /\
  (forall bi f oh ow : nat,
   (bi < length xs)%nat ->
   (f < length (c_w RN c))%nat ->
   (oh < Z.to_nat (outH RN g))%nat ->
   (ow < Z.to_nat (outW RN g))%nat ->
   nth ow (nth oh (nth f (nth bi outs []) []) []) 0 =
   conv_spec g (c_w RN c) (c_b RN c) (nth bi xs []) f oh ow).
Proof. exact (@Inferno.C05.ConnProofs.conv_forward_spec). Qed.
Print Assumptions conv_forward_spec.
