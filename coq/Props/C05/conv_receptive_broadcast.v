(* Obligation C05/conv_receptive_broadcast.  Statement as printed by Coq from Inferno.C05.ConnProofs; proof by reference.
   This file contains nothing else, so the statement cannot be weakened quietly. *)
From Coq Require Import List ZArith Bool Arith Lia Reals.
From Inferno Require Import Base.Num Base.NumR C05.Conn C05.ConnSpec C05.ConnProofs.
Import ListNotations.
Open Scope R_scope.
Theorem conv_receptive_broadcast : forall (g : geom) (B Fn ho wo n : nat),
  bshape (conv_postsyn_shape [B; Fn; ho; wo]) (conv_presyn3_shape g [B; n; (ho * wo)%nat]) =
  Some ([B] ++ [Fn; Z.to_nat (gC g); Z.to_nat (kH g); Z.to_nat (kW g)] ++ [(ho * wo)%nat]).
Proof. exact (@Inferno.C05.ConnProofs.conv_receptive_broadcast). Qed.
Print Assumptions conv_receptive_broadcast.
