(* Obligation C05/direct_receptive_broadcast.  Statement as printed by Coq from Inferno.C05.ConnProofs; proof by reference.
   This file contains nothing else, so the statement cannot be weakened quietly. *)
From Coq Require Import List ZArith Bool Arith Lia Reals.
From Inferno Require Import Base.Num Base.NumR C05.Conn C05.ConnSpec C05.ConnProofs.
Import ListNotations.
Open Scope R_scope.
Theorem direct_receptive_broadcast : forall (B : nat) (sh : list nat),
  bshape (direct_postsyn_shape (B :: sh)) (direct_presyn_shape (flat_shape (B :: sh))) =
  Some ([B] ++ [prodn sh] ++ [1%nat]).
Proof. exact (@Inferno.C05.ConnProofs.direct_receptive_broadcast). Qed.
Print Assumptions direct_receptive_broadcast.
