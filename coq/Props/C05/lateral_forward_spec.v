(* Obligation C05/lateral_forward_spec.  Statement as printed by Coq from Inferno.C05.ConnProofs; proof by reference.
   This file contains nothing else, so the statement cannot be weakened quietly. *)
From Coq Require Import List ZArith Bool Arith Lia Reals.
From Inferno Require Import Base.Num Base.NumR C05.Conn C05.ConnSpec C05.ConnProofs.
Import ListNotations.
Open Scope R_scope.
Theorem lateral_forward_spec : forall (s : lat RN) (x out : tensor RN),
  let n := prodn (l_shape RN s) in
  let B := l_B RN s in
  lat_forward RN s x = Ok out ->
  diag_zero (l_w RN s) ->
  length (tdata x) = (B * n)%nat ->
  length (l_w RN s) = n ->
  (forall wr : list (T RN), In wr (l_w RN s) -> length wr = n) ->
  (forall bv : list (T RN), l_b RN s = Some bv -> length bv = n) ->
  (0 < n)%nat ->
  tshape out = B :: l_shape RN s /\
  (forall r o : nat,
   (r < B)%nat ->
   (o < n)%nat ->
   nth (r * n + o) (tdata out) 0 =
   Rsum n
     (fun i : nat => if i =? o then 0 else nth (r * n + i) (tdata x) 0 * mat_at (l_w RN s) o i) +
   bias_at (l_b RN s) o).
Proof. exact (@Inferno.C05.ConnProofs.lateral_forward_spec). Qed.
Print Assumptions lateral_forward_spec.
