(* Obligation C05/tie_LinearDense_like_input.  Statement as printed by Coq from Inferno.C05.GenTieLinearDense; proof by reference.
   This file contains nothing else, so the statement cannot be weakened quietly. *)
From Coq Require Import List ZArith Bool String Arith.
From Inferno Require Import Base.Num Gen.ConnectionClasses C05.Conn C05.ConnPatterns C05.GenTieLinearDense.
Import ListNotations.
Open Scope string_scope.
Theorem tie_LinearDense_like_input : LinearDense_like_input_patterns = [] /\
  LinearDense_like_input_params = ["data"] /\
  LinearDense_like_input_is_property = false /\
  LinearDense_like_input =
  [SReturn (AMeth (AVar "data") "view" [AInt (-1); AStar (ASelf "inshape")])].
Proof. exact (@Inferno.C05.GenTieLinearDense.tie_LinearDense_like_input). Qed.
Print Assumptions tie_LinearDense_like_input.
