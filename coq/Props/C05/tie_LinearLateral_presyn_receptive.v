(* Obligation C05/tie_LinearLateral_presyn_receptive.  Statement as printed by Coq from Inferno.C05.GenTieLinearLateral; proof by reference.
   This file contains nothing else, so the statement cannot be weakened quietly. *)
From Coq Require Import List ZArith Bool String Arith.
From Inferno Require Import Base.Num Gen.ConnectionClasses C05.Conn C05.ConnPatterns C05.GenTieLinearLateral.
Import ListNotations.
Open Scope string_scope.
Theorem tie_LinearLateral_presyn_receptive : LinearLateral_presyn_receptive_patterns = [] /\
  LinearLateral_presyn_receptive_params = ["data"] /\
  LinearLateral_presyn_receptive_is_property = false /\
  LinearLateral_presyn_receptive =
  [SReturn (AMeth (AVar "LinearDense") "presyn_receptive" [AVar "self"; AVar "data"])].
Proof. exact (@Inferno.C05.GenTieLinearLateral.tie_LinearLateral_presyn_receptive). Qed.
Print Assumptions tie_LinearLateral_presyn_receptive.
