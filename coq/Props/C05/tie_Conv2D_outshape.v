(* Obligation C05/tie_Conv2D_outshape.  Statement as printed by Coq from Inferno.C05.GenTieConv2D; proof by reference.
   This file contains nothing else, so the statement cannot be weakened quietly. *)
From Coq Require Import List ZArith Bool String Arith.
From Inferno Require Import Base.Num Gen.ConnectionClasses C05.Conn C05.ConnPatterns C05.GenTieConv2D.
Import ListNotations.
Open Scope string_scope.
Theorem tie_Conv2D_outshape : Conv2D_outshape_patterns = [] /\
  Conv2D_outshape_params = [] /\
  Conv2D_outshape_is_property = true /\
  Conv2D_outshape = [SReturn (ATuple [ASelf "filters"; ASelf "outheight"; ASelf "outwidth"])].
Proof. exact (@Inferno.C05.GenTieConv2D.tie_Conv2D_outshape). Qed.
Print Assumptions tie_Conv2D_outshape.
