(* Obligation C05/tie_LinearDense_like_synaptic.  Statement as printed by Coq from Inferno.C05.GenTieLinearDense; proof by reference.
   This file contains nothing else, so the statement cannot be weakened quietly. *)
From Coq Require Import List ZArith Bool String Arith.
From Inferno Require Import Base.Num Gen.ConnectionClasses C05.Conn C05.ConnPatterns C05.GenTieLinearDense.
Import ListNotations.
Open Scope string_scope.
Theorem tie_LinearDense_like_synaptic : LinearDense_like_synaptic_patterns = [pat_LinearDense_like_synaptic] /\
  LinearDense_like_synaptic_params = ["data"] /\
  LinearDense_like_synaptic_is_property = false /\
  LinearDense_like_synaptic =
  [SReturn (ACall "ein.rearrange" [AVar "data"; AStr pat_LinearDense_like_synaptic])].
Proof. exact (@Inferno.C05.GenTieLinearDense.tie_LinearDense_like_synaptic). Qed.
Print Assumptions tie_LinearDense_like_synaptic.
