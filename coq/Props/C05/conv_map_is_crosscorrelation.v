(* Obligation C05/conv_map_is_crosscorrelation.  Statement as printed by Coq from Inferno.C05.ConnProofs; proof by reference.
   This file contains nothing else, so the statement cannot be weakened quietly. *)
From Coq Require Import List ZArith Bool Arith Lia Reals.
From Inferno Require Import Base.Num Base.NumR C05.Conn C05.ConnSpec C05.ConnProofs.
Import ListNotations.
Open Scope R_scope.
Theorem conv_map_is_crosscorrelation : forall (g : geom) (w : list (list (list (list R)))) (b : option (list (T RN)))
    (x : image RN) (f oh ow : nat),
  wf_kernel g w ->
  (forall bv : list (T RN), b = Some bv -> length bv = length w) ->
  (f < length w)%nat ->
  (oh < Z.to_nat (outH RN g))%nat ->
  (ow < Z.to_nat (outW RN g))%nat ->
  nth ow (nth oh (nth f (conv_map RN g w b (unfold RN g x)) []) []) 0 =
  conv_spec g w b x f oh ow.
Proof. exact (@Inferno.C05.ConnProofs.conv_map_is_crosscorrelation). Qed.
Print Assumptions conv_map_is_crosscorrelation.
