(* Obligation C05/lateral_delay_history.  Statement as printed by Coq from Inferno.C05.ConnProofs; proof by reference.
   This file contains nothing else, so the statement cannot be weakened quietly. *)
From Coq Require Import List ZArith Bool Arith Lia Reals.
From Inferno Require Import Base.Num Base.NumR C05.Conn C05.ConnSpec C05.ConnProofs.
Import ListNotations.
Open Scope R_scope.
Theorem lateral_delay_history : forall (ops : list (lop RN)) (s : lat RN) (n : nat) (d : list (list (T RN)))
    (f : nat -> nat -> R),
  l_n RN s = n ->
  l_d RN s = Some d ->
  is_mat n d ->
  Forall (wf_op n) ops ->
  agree n d f ->
  exists d' : list (list (T RN)),
    l_d RN (lat_run RN s ops) = Some d' /\ is_mat n d' /\ agree n d' (fold_left dstep ops f).
Proof. exact (@Inferno.C05.ConnProofs.lateral_delay_history). Qed.
Print Assumptions lateral_delay_history.
