(* Obligation C05/tie_LinearLateral_like_bias.  Statement as printed by Coq from Inferno.C05.GenTieLinearLateral; proof by reference.
   This file contains nothing else, so the statement cannot be weakened quietly. *)
From Coq Require Import List ZArith Bool String Arith.
From Inferno Require Import Base.Num Gen.ConnectionClasses C05.Conn C05.ConnPatterns C05.GenTieLinearLateral.
Import ListNotations.
Open Scope string_scope.
Theorem tie_LinearLateral_like_bias : LinearLateral_like_bias_patterns = [pat_LinearLateral_like_bias] /\
  LinearLateral_like_bias_params = ["data"] /\
  LinearLateral_like_bias_is_property = false /\
  LinearLateral_like_bias =
  [SReturn (ACall "ein.rearrange" [AVar "data"; AStr pat_LinearLateral_like_bias])].
Proof. exact (@Inferno.C05.GenTieLinearLateral.tie_LinearLateral_like_bias). Qed.
Print Assumptions tie_LinearLateral_like_bias.
