(* Obligation C05/tie_LinearLateral_like_input.  Statement as printed by Coq from Inferno.C05.GenTieLinearLateral; proof by reference.
   This file contains nothing else, so the statement cannot be weakened quietly. *)
From Coq Require Import List ZArith Bool String Arith.
From Inferno Require Import Base.Num Gen.ConnectionClasses C05.Conn C05.ConnPatterns C05.GenTieLinearLateral.
Import ListNotations.
Open Scope string_scope.
Theorem tie_LinearLateral_like_input : LinearLateral_like_input_patterns = [] /\
  LinearLateral_like_input_params = ["data"] /\
  LinearLateral_like_input_is_property = false /\
  LinearLateral_like_input =
  [SReturn (AMeth (AVar "LinearDense") "like_input" [AVar "self"; AVar "data"])].
Proof. exact (@Inferno.C05.GenTieLinearLateral.tie_LinearLateral_like_input). Qed.
Print Assumptions tie_LinearLateral_like_input.
