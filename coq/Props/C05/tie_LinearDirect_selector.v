(* Obligation C05/tie_LinearDirect_selector.  Statement as printed by Coq from Inferno.C05.GenTieLinearDirect; proof by reference.
   This file contains nothing else, so the statement cannot be weakened quietly. *)
From Coq Require Import List ZArith Bool String Arith.
From Inferno Require Import Base.Num Gen.ConnectionClasses C05.Conn C05.ConnPatterns C05.GenTieLinearDirect.
Import ListNotations.
Open Scope string_scope.
Theorem tie_LinearDirect_selector : LinearDirect_selector_patterns = [pat_LinearDirect_selector] /\
  LinearDirect_selector_params = [] /\
  LinearDirect_selector_is_property = true /\
  LinearDirect_selector =
  [SIf (ACmp "is not" (ASelf "delayedby") ANone) [SAssign "delays" (ASelf "delay")]
     [SAssign "delays" (ACall "torch.zeros_like" [ASelf "weight"])];
   SReturn
     (AMeth (ACall "ein.rearrange" [AVar "delays"; AStr pat_LinearDirect_selector]) "expand"
        [ASelf "batchsz"; AInt (-1); AInt (-1)])].
Proof. exact (@Inferno.C05.GenTieLinearDirect.tie_LinearDirect_selector). Qed.
Print Assumptions tie_LinearDirect_selector.
