(* Obligation C05/dense_presyn3_spec.  Statement as printed by Coq from Inferno.C05.ConnProofs; proof by reference.
   This file contains nothing else, so the statement cannot be weakened quietly. *)
From Coq Require Import List ZArith Bool Arith Lia Reals.
From Inferno Require Import Base.Num Base.NumR C05.Conn C05.ConnSpec C05.ConnProofs.
Import ListNotations.
Open Scope R_scope.
Theorem dense_presyn3_spec : forall (d : list (list (list R))) (no b o i : nat),
  (b < length d)%nat ->
  (o < no)%nat ->
  (i < length (nth b d []))%nat ->
  nth i (nth o (nth b (dense_presyn3 RN no d) []) []) 0 = nth o (nth i (nth b d []) []) 0.
Proof. exact (@Inferno.C05.ConnProofs.dense_presyn3_spec). Qed.
Print Assumptions dense_presyn3_spec.
