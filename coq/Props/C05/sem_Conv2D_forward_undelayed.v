(* Obligation C05/sem_Conv2D_forward_undelayed.  Statement as printed by Coq from Inferno.C05.GenTieSem; proof by reference.
   This file contains nothing else, so the statement cannot be weakened quietly. *)
From Coq Require Import List ZArith Bool String Arith.
From Inferno Require Import Base.Num Gen.ConnectionClasses C05.Conn C05.ConnPatterns C05.GenTieSem.
Import ListNotations.
Open Scope string_scope.
Theorem sem_Conv2D_forward_undelayed : forall (N : Num) (g : geom) (curs : list (list (list (T N))))
    (w : list (list (list (list (T N))))) (b : option (list (T N))),
  runc N g {| c_cur := curs; c_w4 := w; c_bias := b; c_delayed := false |} 12 Conv2D_forward
    (CNone N) (CNone N) = Some (CB4 N (map (conv_map N g w b) curs)).
Proof. exact (@Inferno.C05.GenTieSem.sem_Conv2D_forward_undelayed). Qed.
Print Assumptions sem_Conv2D_forward_undelayed.
