(* Obligation C05/tie_LinearLateral_outshape.  Statement as printed by Coq from Inferno.C05.GenTieLinearLateral; proof by reference.
   This file contains nothing else, so the statement cannot be weakened quietly. *)
From Coq Require Import List ZArith Bool String Arith.
From Inferno Require Import Base.Num Gen.ConnectionClasses C05.Conn C05.ConnPatterns C05.GenTieLinearLateral.
Import ListNotations.
Open Scope string_scope.
Theorem tie_LinearLateral_outshape : LinearLateral_outshape_patterns = [] /\
  LinearLateral_outshape_params = [] /\
  LinearLateral_outshape_is_property = true /\
  LinearLateral_outshape = [SReturn (ASelf "shape")].
Proof. exact (@Inferno.C05.GenTieLinearLateral.tie_LinearLateral_outshape). Qed.
Print Assumptions tie_LinearLateral_outshape.
