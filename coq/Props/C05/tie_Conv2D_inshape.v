(* Obligation C05/tie_Conv2D_inshape.  Statement as printed by Coq from Inferno.C05.GenTieConv2D; proof by reference.
   This file contains nothing else, so the statement cannot be weakened quietly. *)
From Coq Require Import List ZArith Bool String Arith.
From Inferno Require Import Base.Num Gen.ConnectionClasses C05.Conn C05.ConnPatterns C05.GenTieConv2D.
Import ListNotations.
Open Scope string_scope.
Theorem tie_Conv2D_inshape : Conv2D_inshape_patterns = [] /\
  Conv2D_inshape_params = [] /\
  Conv2D_inshape_is_property = true /\
  Conv2D_inshape = [SReturn (ATuple [ASelf "channels"; ASelf "height"; ASelf "width"])].
Proof. exact (@Inferno.C05.GenTieConv2D.tie_Conv2D_inshape). Qed.
Print Assumptions tie_Conv2D_inshape.
