(* Obligation C05/conv_outshape.  Statement as printed by Coq from Inferno.C05.ConnProofs; proof by reference.
   This file contains nothing else, so the statement cannot be weakened quietly. *)
From Coq Require Import List ZArith Bool Arith Lia Reals.
From Inferno Require Import Base.Num Base.NumR C05.Conn C05.ConnSpec C05.ConnProofs.
Import ListNotations.
Open Scope R_scope.
Theorem conv_outshape : forall (g : geom) (B : Z) (w : list (list (list (list (T RN))))) 
    (b : option (list (T RN))) (c : conv RN),
  conv_ctor RN g B w b = Ok c ->
  c_g RN c = g /\
  c_w RN c = w /\
  c_b RN c = b /\
  outH RN g = ((gH g + 2 * pH g - dH g * (kH g - 1) - 1) / sH g + 1)%Z /\
  outW RN g = ((gW g + 2 * pW g - dW g * (kW g - 1) - 1) / sW g + 1)%Z.
Proof. exact (@Inferno.C05.ConnProofs.conv_outshape). Qed.
Print Assumptions conv_outshape.
