(* Obligation C05/sem_LinearDirect_forward_undelayed.  Statement as printed by Coq from Inferno.C05.GenTieSem; proof by reference.
   This file contains nothing else, so the statement cannot be weakened quietly. *)
From Coq Require Import List ZArith Bool String Arith.
From Inferno Require Import Base.Num Gen.ConnectionClasses C05.Conn C05.ConnPatterns C05.GenTieSem.
Import ListNotations.
Open Scope string_scope.
Theorem sem_LinearDirect_forward_undelayed : forall (N : Num) (cur : list (list (T N))) (w : list (T N)) (b : option (list (T N))),
  run N {| e_cur := cur; e_w := VVec N w; e_b := b; e_delayed := false |} 10
    LinearDirect_forward (VNone N) = Some (VMat N (direct_map N cur w b)).
Proof. exact (@Inferno.C05.GenTieSem.sem_LinearDirect_forward_undelayed). Qed.
Print Assumptions sem_LinearDirect_forward_undelayed.
