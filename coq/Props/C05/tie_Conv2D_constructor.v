(* Obligation C05/tie_Conv2D_constructor.  Statement as printed by Coq from Inferno.C05.GenTieConv2D; proof by reference.
   This file contains nothing else, so the statement cannot be weakened quietly. *)
From Coq Require Import List ZArith Bool String Arith.
From Inferno Require Import Base.Num Gen.ConnectionClasses C05.Conn C05.ConnPatterns C05.GenTieConv2D.
Import ListNotations.
Open Scope string_scope.
Theorem tie_Conv2D_constructor : Conv2D_bases = ["WeightBiasDelayMixin"; "Connection"] /\
  Conv2D_init_positional = ["height"; "width"; "channels"; "filters"; "step_time"; "kernel"] /\
  Conv2D_init_kwonly =
  ["stride"; "padding"; "dilation"; "synapse"; "bias"; "delay"; "batch_size"; "weight_init";
   "bias_init"; "delay_init"] /\
  Conv2D_default_stride = AInt 1 /\
  Conv2D_default_padding = AInt 0 /\
  Conv2D_default_dilation = AInt 1 /\
  Conv2D_default_bias = ABool false /\
  Conv2D_default_delay = ANone /\
  Conv2D_default_batch_size = AInt 1 /\
  Conv2D_default_weight_init = ANone /\
  Conv2D_default_bias_init = ANone /\ Conv2D_default_delay_init = ANone.
Proof. exact (@Inferno.C05.GenTieConv2D.tie_Conv2D_constructor). Qed.
Print Assumptions tie_Conv2D_constructor.
