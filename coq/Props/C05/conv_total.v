(* Obligation C05/conv_total.  Statement as printed by Coq from Inferno.C05.ConnProofs; proof by reference.
   This file contains nothing else, so the statement cannot be weakened quietly. *)
From Coq Require Import List ZArith Bool Arith Lia Reals.
From Inferno Require Import Base.Num Base.NumR C05.Conn C05.ConnSpec C05.ConnProofs.
Import ListNotations.
Open Scope R_scope.
Theorem conv_total : forall (g : geom) (B : Z) (w : list (list (list (list (T RN))))) (b : option (list (T RN))),
  (0 < gH g)%Z ->
  (0 < gW g)%Z ->
  (0 < gC g)%Z ->
  (0 < gF g)%Z ->
  (0 < kH g)%Z ->
  (0 < kW g)%Z ->
  (0 < sH g)%Z ->
  (0 < sW g)%Z ->
  (0 <= pH g)%Z ->
  (0 <= pW g)%Z ->
  (0 < dH g)%Z ->
  (0 < dW g)%Z ->
  (0 < B)%Z ->
  (1 <= (gH g + 2 * pH g - dH g * (kH g - 1) - 1) / sH g + 1)%Z ->
  (1 <= (gW g + 2 * pW g - dW g * (kW g - 1) - 1) / sW g + 1)%Z ->
  exists c : conv RN,
    conv_ctor RN g B w b = Ok c /\
    (forall xs : list (image RN),
     exists outs : list (list (list (list (T RN)))),
       conv_forward RN c [Z.to_nat B; Z.to_nat (gC g); Z.to_nat (gH g); Z.to_nat (gW g)] xs =
       Ok outs).
Proof. exact (@Inferno.C05.ConnProofs.conv_total). Qed.
Print Assumptions conv_total.
