(* Obligation C05/lateral_weight_history.  Statement as printed by Coq from Inferno.C05.ConnProofs; proof by reference.
   This file contains nothing else, so the statement cannot be weakened quietly. *)
From Coq Require Import List ZArith Bool Arith Lia Reals.
From Inferno Require Import Base.Num Base.NumR C05.Conn C05.ConnSpec C05.ConnProofs.
Import ListNotations.
Open Scope R_scope.
Theorem lateral_weight_history : forall (ops : list (lop RN)) (s : lat RN) (n : nat) (w : nat -> nat -> R),
  l_n RN s = n ->
  is_mat n (l_w RN s) ->
  Forall (wf_op n) ops ->
  agree n (l_w RN s) w ->
  is_mat n (l_w RN (lat_run RN s ops)) /\
  agree n (l_w RN (lat_run RN s ops)) (fold_left wstep ops w).
Proof. exact (@Inferno.C05.ConnProofs.lateral_weight_history). Qed.
Print Assumptions lateral_weight_history.
