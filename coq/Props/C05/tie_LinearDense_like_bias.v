(* Obligation C05/tie_LinearDense_like_bias.  Statement as printed by Coq from Inferno.C05.GenTieLinearDense; proof by reference.
   This file contains nothing else, so the statement cannot be weakened quietly. *)
From Coq Require Import List ZArith Bool String Arith.
From Inferno Require Import Base.Num Gen.ConnectionClasses C05.Conn C05.ConnPatterns C05.GenTieLinearDense.
Import ListNotations.
Open Scope string_scope.
Theorem tie_LinearDense_like_bias : LinearDense_like_bias_patterns = [pat_LinearDense_like_bias] /\
  LinearDense_like_bias_params = ["data"] /\
  LinearDense_like_bias_is_property = false /\
  LinearDense_like_bias =
  [SReturn (ACall "ein.rearrange" [AVar "data"; AStr pat_LinearDense_like_bias])].
Proof. exact (@Inferno.C05.GenTieLinearDense.tie_LinearDense_like_bias). Qed.
Print Assumptions tie_LinearDense_like_bias.
