(* Obligation C05/outsz_code_spec.  Statement as printed by Coq from Inferno.C05.ConnProofs; proof by reference.
   This file contains nothing else, so the statement cannot be weakened quietly. *)
From Coq Require Import List ZArith Bool Arith Lia Reals.
From Inferno Require Import Base.Num Base.NumR C05.Conn C05.ConnSpec C05.ConnProofs.
Import ListNotations.
Open Scope R_scope.
Theorem outsz_code_spec : forall size p d k s : Z,
  (0 < s)%Z -> outsz_code RN size p d k s = ((size + 2 * p - d * (k - 1) - 1) / s + 1)%Z.
Proof. exact (@Inferno.C05.ConnProofs.outsz_code_spec). Qed.
Print Assumptions outsz_code_spec.
