(* Obligation C15/hooks_wf_always.  Statement as printed by Coq from Inferno.C15.LifecycleProofs; proof by reference.
   This file contains nothing else, so the statement cannot be weakened quietly. *)
From Coq Require Import List ZArith Bool Arith Lia.
From Inferno Require Import C15.Lifecycle C15.LifecycleLemmas C15.LifecycleProofs C15.LifecycleTI C15.LifecycleRefuted.
Import ListNotations.
Theorem hooks_wf_always : forall (w : world) (tys : list ttype) (ops : list op), HW (run w (init_state w tys) ops).
Proof. exact (@Inferno.C15.LifecycleProofs.hooks_wf_always). Qed.
Print Assumptions hooks_wf_always.
