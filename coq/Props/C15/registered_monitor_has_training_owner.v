(* Obligation C15/registered_monitor_has_training_owner.  Statement as printed by Coq from Inferno.C15.LifecycleTI; proof by reference.
   This file contains nothing else, so the statement cannot be weakened quietly. *)
From Coq Require Import List ZArith Bool Arith Lia.
From Inferno Require Import C15.Lifecycle C15.LifecycleLemmas C15.LifecycleProofs C15.LifecycleTI C15.LifecycleRefuted.
Import ListNotations.
Theorem registered_monitor_has_training_owner : forall (w : world) (tys : list ttype) (s : state) (i : nat),
  reachable w tys s ->
  i < length (mons s) ->
  m_reg (get_mon s i) = true ->
  exists t : nat,
    t_alive (get_trainer s t) = true /\
    t_training (get_trainer s t) = true /\ In i (pool_mids (get_trainer s t)).
Proof. exact (@Inferno.C15.LifecycleTI.registered_monitor_has_training_owner). Qed.
Print Assumptions registered_monitor_has_training_owner.
