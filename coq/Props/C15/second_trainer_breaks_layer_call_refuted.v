(* Obligation C15/second_trainer_breaks_layer_call_refuted.  Statement as printed by Coq from Inferno.C15.LifecycleRefuted; proof by reference.
   This file contains nothing else, so the statement cannot be weakened quietly. *)
From Coq Require Import List ZArith Bool Arith Lia.
From Inferno Require Import C15.Lifecycle C15.LifecycleLemmas C15.LifecycleProofs C15.LifecycleTI C15.LifecycleRefuted.
Import ListNotations.
Theorem second_trainer_breaks_layer_call_refuted : exists (w : world) (tys : list ttype),
    snd
      (step w
         (run w (init_state w tys)
            [RegisterCell 0 0 cA 0; TrainerMode 1 false; RegisterCell 1 0 cA 0]) 
         (LayerStep 0)) = Some ERuntime /\
    snd
      (step w
         (run w (init_state w tys)
            [RegisterCell 0 0 cA 0; RegisterCell 1 0 cA 0; DropTrainer 1]) 
         (LayerStep 0)) = Some EAttribute.
Proof. exact (@Inferno.C15.LifecycleRefuted.second_trainer_breaks_layer_call_refuted). Qed.
Print Assumptions second_trainer_breaks_layer_call_refuted.
