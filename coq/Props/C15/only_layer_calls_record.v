(* Obligation C15/only_layer_calls_record.  Statement as printed by Coq from Inferno.C15.LifecycleComplete; proof by reference.
   This file contains nothing else, so the statement cannot be weakened quietly. *)
From Coq Require Import List ZArith Bool Arith Lia.
From Inferno Require Import C15.Lifecycle C15.LifecycleLemmas C15.LifecycleProofs C15.LifecycleTI C15.LifecycleIso C15.LifecycleComplete C15.LifecycleRefuted.
Import ListNotations.
Theorem only_layer_calls_record : forall (w : world) (tys : list ttype) (s : state) (o : op) (i : nat),
  reachable w tys s ->
  (forall l : nat, o <> LayerStep l) ->
  i < length (mons s) -> m_obs (get_mon (fst (step w s o)) i) = m_obs (get_mon s i).
Proof. exact (@Inferno.C15.LifecycleComplete.only_layer_calls_record). Qed.
Print Assumptions only_layer_calls_record.
