(* Obligation C15/other_trainers_untouched.  Statement as printed by Coq from Inferno.C15.LifecycleIso; proof by reference.
   This file contains nothing else, so the statement cannot be weakened quietly. *)
From Coq Require Import List ZArith Bool Arith Lia.
From Inferno Require Import C15.Lifecycle C15.LifecycleLemmas C15.LifecycleProofs C15.LifecycleTI C15.LifecycleIso C15.LifecycleComplete C15.LifecycleRefuted.
Import ListNotations.
Theorem other_trainers_untouched : forall (w : world) (tys : list ttype) (s : state) (o : op) (ti k : nat),
  reachable w tys s ->
  op_trainer o = Some ti ->
  k <> ti ->
  t_alive (get_trainer s k) = true ->
  let s' := fst (step w s o) in
  get_trainer s' k = get_trainer s k /\
  (forall j : nat, In j (pool_mids (get_trainer s k)) -> get_mon s' j = get_mon s j).
Proof. exact (@Inferno.C15.LifecycleIso.other_trainers_untouched). Qed.
Print Assumptions other_trainers_untouched.
