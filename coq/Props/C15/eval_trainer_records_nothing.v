(* Obligation C15/eval_trainer_records_nothing.  Statement as printed by Coq from Inferno.C15.LifecycleTI; proof by reference.
   This file contains nothing else, so the statement cannot be weakened quietly. *)
From Coq Require Import List ZArith Bool Arith Lia.
From Inferno Require Import C15.Lifecycle C15.LifecycleLemmas C15.LifecycleProofs C15.LifecycleTI C15.LifecycleRefuted.
Import ListNotations.
Theorem eval_trainer_records_nothing : forall (w : world) (tys : list ttype) (s : state) (t i l : nat) 
    (s' : state) (r : option err),
  reachable w tys s ->
  In i (pool_mids (get_trainer s t)) ->
  t_training (get_trainer s t) = false ->
  layer_step s l = (s', r) -> get_mon s' i = get_mon s i.
Proof. exact (@Inferno.C15.LifecycleTI.eval_trainer_records_nothing). Qed.
Print Assumptions eval_trainer_records_nothing.
