(* Obligation C15/pools_disjoint.  Statement as printed by Coq from Inferno.C15.LifecycleTI; proof by reference.
   This file contains nothing else, so the statement cannot be weakened quietly. *)
From Coq Require Import List ZArith Bool Arith Lia.
From Inferno Require Import C15.Lifecycle C15.LifecycleLemmas C15.LifecycleProofs C15.LifecycleTI C15.LifecycleRefuted.
Import ListNotations.
Theorem pools_disjoint : forall (w : world) (tys : list ttype) (s : state) (t1 t2 i : nat),
  reachable w tys s ->
  In i (pool_mids (get_trainer s t1)) -> In i (pool_mids (get_trainer s t2)) -> t1 = t2.
Proof. exact (@Inferno.C15.LifecycleTI.pools_disjoint). Qed.
Print Assumptions pools_disjoint.
