(* Obligation C15/elig_reads_own_traces_refuted.  Statement as printed by Coq from Inferno.C15.LifecycleRefuted; proof by reference.
   This file contains nothing else, so the statement cannot be weakened quietly. *)
From Coq Require Import List ZArith Bool Arith Lia.
From Inferno Require Import C15.Lifecycle C15.LifecycleLemmas C15.LifecycleProofs C15.LifecycleTI C15.LifecycleRefuted.
Import ListNotations.
Theorem elig_reads_own_traces_refuted : exists
    (w : world) (tys : list ttype) (ops : list op) (i stamp : nat) 
  (rd : list (nat * option nat)) (r : nat * option nat),
    let s := run w (init_state w tys) ops in
    In i (pool_mids (get_trainer s 0)) /\
    m_obs (get_mon s i) = [(stamp, rd)] /\
    In r rd /\
    In (fst r) (pool_mids (get_trainer s 1)) /\ ~ In (fst r) (pool_mids (get_trainer s 0)).
Proof. exact (@Inferno.C15.LifecycleRefuted.elig_reads_own_traces_refuted). Qed.
Print Assumptions elig_reads_own_traces_refuted.
