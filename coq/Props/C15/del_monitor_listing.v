(* Obligation C15/del_monitor_listing.  Statement as printed by Coq from Inferno.C15.LifecycleListing; proof by reference.
   This file contains nothing else, so the statement cannot be weakened quietly. *)
From Coq Require Import List ZArith Bool Arith Lia.
From Inferno Require Import C15.Lifecycle C15.LifecycleLemmas C15.LifecycleProofs C15.LifecycleTI C15.LifecycleIso C15.LifecycleComplete C15.LifecycleListing C15.LifecycleRefuted.
Import ListNotations.
Theorem del_monitor_listing : forall (s : state) (ti cn mn : nat) (s' : state),
  pool_del_monitor s ti cn mn = (s', None) ->
  TI s ->
  ti < length (trainers s) ->
  t_cells (get_trainer s' ti) = t_cells (get_trainer s ti) /\
  (forall c m j : nat,
   In (c, m, j) (pool_named (get_trainer s' ti)) <->
   In (c, m, j) (pool_named (get_trainer s ti)) /\ (c, m) <> (cn, mn)).
Proof. exact (@Inferno.C15.LifecycleListing.del_monitor_listing). Qed.
Print Assumptions del_monitor_listing.
