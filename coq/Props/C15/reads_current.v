(* Obligation C15/reads_current.  Statement as printed by Coq from Inferno.C15.LifecycleProofs; proof by reference.
   This file contains nothing else, so the statement cannot be weakened quietly. *)
From Coq Require Import List ZArith Bool Arith Lia.
From Inferno Require Import C15.Lifecycle C15.LifecycleLemmas C15.LifecycleProofs C15.LifecycleTI C15.LifecycleRefuted.
Import ListNotations.
Theorem reads_current : forall (s : state) (l : nat) (s' : state) (i : nat) (cell : cellid) 
    (names : list nat) (strict : bool),
  HW s ->
  l < length (layers s) ->
  layer_step s l = (s', None) ->
  l_training (get_layer s l) = true ->
  i < length (mons s) ->
  m_reg (get_mon s i) = true ->
  m_layer (get_mon s i) = l ->
  m_prepend (get_mon s i) = false ->
  m_reads (get_mon s i) = Some (cell, names, strict) ->
  exists rd : list (nat * option nat),
    get_mon s' i = add_obs (S (l_steps (get_layer s l)), rd) (get_mon s i) /\
    Forall2
      (fun (n : nat) (r : nat * option nat) =>
       alookup n (cmon_get cell (cmon s)) = Some (fst r) /\
       (fst r < length (mons s) ->
        m_reg (get_mon s (fst r)) = true ->
        m_layer (get_mon s (fst r)) = l ->
        m_prepend (get_mon s (fst r)) = true -> snd r = Some (S (l_steps (get_layer s l)))))
      names rd.
Proof. exact (@Inferno.C15.LifecycleProofs.reads_current). Qed.
Print Assumptions reads_current.
