(* Obligation C15/layer_step_exactly_once.  Statement as printed by Coq from Inferno.C15.LifecycleProofs; proof by reference.
   This file contains nothing else, so the statement cannot be weakened quietly. *)
From Coq Require Import List ZArith Bool Arith Lia.
From Inferno Require Import C15.Lifecycle C15.LifecycleLemmas C15.LifecycleProofs C15.LifecycleTI C15.LifecycleRefuted.
Import ListNotations.
Theorem layer_step_exactly_once : forall (s : state) (l : nat) (s' : state),
  HW s ->
  l < length (layers s) ->
  layer_step s l = (s', None) ->
  forall i : nat,
  i < length (mons s) ->
  if records s l i
  then
   exists rd : list (nat * option nat),
     get_mon s' i = add_obs (S (l_steps (get_layer s l)), rd) (get_mon s i)
  else get_mon s' i = get_mon s i.
Proof. exact (@Inferno.C15.LifecycleProofs.layer_step_exactly_once). Qed.
Print Assumptions layer_step_exactly_once.
