(* Obligation C15/one_obs_per_training_step_partial.  Statement as printed by Coq from Inferno.C15.LifecycleComplete; proof by reference.
   This file contains nothing else, so the statement cannot be weakened quietly. *)
From Coq Require Import List ZArith Bool Arith Lia.
From Inferno Require Import C15.Lifecycle C15.LifecycleLemmas C15.LifecycleProofs C15.LifecycleTI C15.LifecycleIso C15.LifecycleComplete C15.LifecycleRefuted.
Import ListNotations.
Theorem one_obs_per_training_step_partial : forall (w : world) (tys : list ttype) (ops : list op) (l : nat) 
    (s' : state) (t cn mn i : nat) (c : cellid),
  safe_run w (init_state w tys) ops = true ->
  let s := run w (init_state w tys) ops in
  layer_step s l = (s', None) ->
  l < length (layers s) ->
  In (cn, mn, i) (pool_named (get_trainer s t)) ->
  alookup cn (t_cells (get_trainer s t)) = Some c ->
  cell_layer c = l ->
  if t_training (get_trainer s t) && l_training (get_layer s l)
  then
   exists rd : list (nat * option nat),
     get_mon s' i = add_obs (S (l_steps (get_layer s l)), rd) (get_mon s i)
  else get_mon s' i = get_mon s i.
Proof. exact (@Inferno.C15.LifecycleComplete.one_obs_per_training_step_partial). Qed.
Print Assumptions one_obs_per_training_step_partial.
