(* Obligation C15/run_Complete.  Statement as printed by Coq from Inferno.C15.LifecycleComplete; proof by reference.
   This file contains nothing else, so the statement cannot be weakened quietly. *)
From Coq Require Import List ZArith Bool Arith Lia.
From Inferno Require Import C15.Lifecycle C15.LifecycleLemmas C15.LifecycleProofs C15.LifecycleTI C15.LifecycleIso C15.LifecycleComplete C15.LifecycleRefuted.
Import ListNotations.
Theorem run_Complete : forall (w : world) (ops : list op) (s : state),
  safe_run w s ops = true -> Inv1 s -> TI s -> Complete s -> Complete (run w s ops).
Proof. exact (@Inferno.C15.LifecycleComplete.run_Complete). Qed.
Print Assumptions run_Complete.
