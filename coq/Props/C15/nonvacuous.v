(* Obligation C15/nonvacuous: the hypotheses of the C15 theorems are met by a concrete, non-trivial reachable state
   (an MSTDPET trainer on a cell, through eval()/train() re-registration and a layer call), and the executable
   model really computes on it: the eligibility monitor (id 4, prepend=False) is hooked on the training layer,
   reads two monitors by name, and at the next layer call reads data stamped with that very step. *)
From Coq Require Import List ZArith Bool Arith Lia.
From Inferno Require Import C15.Lifecycle C15.LifecycleLemmas C15.LifecycleProofs C15.LifecycleTI C15.LifecycleIso
  C15.LifecycleComplete C15.LifecycleRefuted.
Import ListNotations.

Definition ops_nv : list op :=
  [RegisterCell 0 0 cA 0%Z; LayerStep 0; TrainerMode 0 false; LayerStep 0; TrainerMode 0 true].
Definition s_nv : state := run w1 (init_state w1 [TMSTDPET]) ops_nv.
(* a safe sequence with two trainers, shared monitors, and the deletion of a monitor that is NOT shared *)
Definition ops_safe : list op :=
  [RegisterCell 0 0 cA 0%Z; RegisterCell 0 1 cB 0%Z; RegisterCell 1 0 cB 0%Z; LayerStep 0;
   DelMonitor 0 1 n_trace_pre; TrainerMode 1 false; LayerStep 0; DelCell 1 0].

(* an instance of the history theorem obs_count_is_training_steps: 4 calls, 2 of them while trainer and layer train *)
Definition s_h : state := run w1 (init_state w1 [TMSTDPET]) [RegisterCell 0 0 cA 0%Z].
Definition ops_h : list op :=
  [LayerStep 0; TrainerMode 0 false; LayerStep 0; TrainerMode 0 true; LayerMode 0 false; LayerStep 0; LayerMode 0 true;
   LayerStep 0].
Theorem nonvacuous_history :
  Inv1 s_h /\ TI s_h /\ Complete s_h /\ safe_run w1 s_h ops_h = true /\ persists w1 s_h ops_h 0 4 /\
  m_layer (get_mon s_h 4) < length (layers s_h) /\ training_steps w1 s_h ops_h 0 (m_layer (get_mon s_h 4)) = 2 /\
  length (m_obs (get_mon (run w1 s_h ops_h) 4)) = 2.
Proof.
  assert (R : Inv1 s_h /\ TI s_h) by (apply run_TI; [apply Inv1_init|apply TI_init]). destruct R as [I T].
  split; [exact I|]. split; [exact T|].
  split; [apply run_Complete; [vm_compute; reflexivity|apply Inv1_init|apply TI_init|apply Complete_init]|].
  split; [vm_compute; reflexivity|].
  split; [|vm_compute; repeat split; lia].
  vm_compute. repeat split; try tauto; intros l E; try discriminate E; reflexivity.
Qed.
Print Assumptions nonvacuous_history.

Theorem nonvacuous :
  safe_run w1 (init_state w1 [TMSTDPET]) ops_nv = true /\
  safe_run w1 (init_state w1 [TSTDP false; THomeostasis]) ops_safe = true /\
  Complete s_nv /\ In (0, n_elig_post, 4) (pool_named (get_trainer s_nv 0)) /\
  alookup 0 (t_cells (get_trainer s_nv 0)) = Some cA /\
  reachable w1 [TMSTDPET] s_nv /\ HW s_nv /\ TI s_nv /\ 0 < length (layers s_nv) /\
  l_training (get_layer s_nv 0) = true /\ l_steps (get_layer s_nv 0) = 2 /\
  4 < length (mons s_nv) /\ m_reg (get_mon s_nv 4) = true /\ m_layer (get_mon s_nv 4) = 0 /\
  m_prepend (get_mon s_nv 4) = false /\
  m_reads (get_mon s_nv 4) = Some (cA, [n_trace_pre; n_spike_post], true) /\
  In 4 (pool_mids (get_trainer s_nv 0)) /\ t_training (get_trainer s_nv 0) = true /\
  l_hooks (get_layer s_nv 0) = [3; 2; 1; 0; 4; 5] /\
  (* one observation per training step so far: step 1 recorded, step 2 (trainer in eval mode) not *)
  map fst (m_obs (get_mon s_nv 0)) = [1] /\
  exists s', layer_step s_nv 0 = (s', None) /\
             m_obs (get_mon s' 4) = [(3, [(2, Some 3); (1, Some 3)]); (1, [(2, Some 1); (1, Some 1)])].
Proof.
  split; [vm_compute; reflexivity|]. split; [vm_compute; reflexivity|].
  split; [apply run_Complete; [vm_compute; reflexivity|apply Inv1_init|apply TI_init|apply Complete_init]|].
  split; [vm_compute; tauto|]. split; [vm_compute; reflexivity|].
  split; [exists ops_nv; reflexivity|].
  split; [apply hooks_wf_always|].
  split; [apply run_TI; [apply Inv1_init|apply TI_init]|].
  vm_compute. repeat split; try lia; auto.
  eexists. split; reflexivity.
Qed.
Print Assumptions nonvacuous.
