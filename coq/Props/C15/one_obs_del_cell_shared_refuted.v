(* Obligation C15/one_obs_del_cell_shared_refuted.  Statement as printed by Coq from Inferno.C15.LifecycleRefuted; proof by reference.
   This file contains nothing else, so the statement cannot be weakened quietly. *)
From Coq Require Import List ZArith Bool Arith Lia.
From Inferno Require Import C15.Lifecycle C15.LifecycleLemmas C15.LifecycleProofs C15.LifecycleTI C15.LifecycleRefuted.
Import ListNotations.
Theorem one_obs_del_cell_shared_refuted : exists (w : world) (tys : list ttype) (ops : list op) (t cn mn i : nat),
    let s := run w (init_state w tys) ops in
    let s' := fst (step w s (LayerStep 0)) in
    t_alive (get_trainer s t) = true /\
    t_training (get_trainer s t) = true /\
    l_training (get_layer s 0) = true /\
    m_layer (get_mon s i) = 0 /\
    In (cn, mn, i) (pool_named (get_trainer s t)) /\
    m_reg (get_mon s i) = false /\
    snd (step w s (LayerStep 0)) = None /\
    m_obs (get_mon s' i) = m_obs (get_mon s i) /\
    (exists mn2 i2 : nat,
       In (cn, mn2, i2) (pool_named (get_trainer s t)) /\
       m_obs (get_mon s' i2) = (S (l_steps (get_layer s 0)), []) :: m_obs (get_mon s i2)).
Proof. exact (@Inferno.C15.LifecycleRefuted.one_obs_del_cell_shared_refuted). Qed.
Print Assumptions one_obs_del_cell_shared_refuted.
