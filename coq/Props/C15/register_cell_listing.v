(* Obligation C15/register_cell_listing.  Statement as printed by Coq from Inferno.C15.LifecycleListing; proof by reference.
   This file contains nothing else, so the statement cannot be weakened quietly. *)
From Coq Require Import List ZArith Bool Arith Lia.
From Inferno Require Import C15.Lifecycle C15.LifecycleLemmas C15.LifecycleProofs C15.LifecycleTI C15.LifecycleIso C15.LifecycleComplete C15.LifecycleListing C15.LifecycleRefuted.
Import ListNotations.
Theorem register_cell_listing : forall (w : world) (s : state) (ti cn : nat) (c : cellid) (hp : Z) (s' : state),
  register_cell w s ti cn c hp = (s', None) ->
  t_alive (get_trainer s ti) = true ->
  Inv1 s ->
  TI s ->
  let t := get_trainer s ti in
  let specs := trainer_specs (t_type t) (fst (conn_info w c)) (snd (conn_info w c)) hp in
  alookup cn (t_cells t) = None /\
  t_cells (get_trainer s' ti) = t_cells t ++ [(cn, c)] /\
  (forall c' m : nat,
   has_key (get_trainer s' ti) c' m <-> c' = cn /\ In m (map sp_name specs) \/ has_key t c' m).
Proof. exact (@Inferno.C15.LifecycleListing.register_cell_listing). Qed.
Print Assumptions register_cell_listing.
