(* Obligation C15/obs_count_is_training_steps.  Statement as printed by Coq from Inferno.C15.LifecycleComplete; proof by reference.
   This file contains nothing else, so the statement cannot be weakened quietly. *)
From Coq Require Import List ZArith Bool Arith Lia.
From Inferno Require Import C15.Lifecycle C15.LifecycleLemmas C15.LifecycleProofs C15.LifecycleTI C15.LifecycleIso C15.LifecycleComplete C15.LifecycleListing C15.LifecycleRefuted.
Import ListNotations.
Theorem obs_count_is_training_steps : forall (w : world) (ops : list op) (s : state) (t i : nat),
  Inv1 s ->
  TI s ->
  Complete s ->
  safe_run w s ops = true ->
  persists w s ops t i ->
  m_layer (get_mon s i) < length (layers s) ->
  length (m_obs (get_mon (run w s ops) i)) =
  length (m_obs (get_mon s i)) + training_steps w s ops t (m_layer (get_mon s i)).
Proof. exact (@Inferno.C15.LifecycleComplete.obs_count_is_training_steps). Qed.
Print Assumptions obs_count_is_training_steps.
