(* Obligation C15/run_TI.  Statement as printed by Coq from Inferno.C15.LifecycleTI; proof by reference.
   This file contains nothing else, so the statement cannot be weakened quietly. *)
From Coq Require Import List ZArith Bool Arith Lia.
From Inferno Require Import C15.Lifecycle C15.LifecycleLemmas C15.LifecycleProofs C15.LifecycleTI C15.LifecycleRefuted.
Import ListNotations.
Theorem run_TI : forall (w : world) (ops : list op) (s : state),
  Inv1 s -> TI s -> Inv1 (run w s ops) /\ TI (run w s ops).
Proof. exact (@Inferno.C15.LifecycleTI.run_TI). Qed.
Print Assumptions run_TI.
