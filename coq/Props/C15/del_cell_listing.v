(* Obligation C15/del_cell_listing.  Statement as printed by Coq from Inferno.C15.LifecycleListing; proof by reference.
   This file contains nothing else, so the statement cannot be weakened quietly. *)
From Coq Require Import List ZArith Bool Arith Lia.
From Inferno Require Import C15.Lifecycle C15.LifecycleLemmas C15.LifecycleProofs C15.LifecycleTI C15.LifecycleIso C15.LifecycleComplete C15.LifecycleListing C15.LifecycleRefuted.
Import ListNotations.
Theorem del_cell_listing : forall (s : state) (ti cn : nat) (s' : state),
  del_cell s ti cn = (s', None) ->
  TI s ->
  ti < length (trainers s) ->
  t_cells (get_trainer s' ti) = adel cn (t_cells (get_trainer s ti)) /\
  (forall c m j : nat,
   In (c, m, j) (pool_named (get_trainer s' ti)) <->
   In (c, m, j) (pool_named (get_trainer s ti)) /\ c <> cn).
Proof. exact (@Inferno.C15.LifecycleListing.del_cell_listing). Qed.
Print Assumptions del_cell_listing.
