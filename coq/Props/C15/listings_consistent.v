(* Obligation C15/listings_consistent.  Statement as printed by Coq from Inferno.C15.LifecycleListing; proof by reference.
   This file contains nothing else, so the statement cannot be weakened quietly. *)
From Coq Require Import List ZArith Bool Arith Lia.
From Inferno Require Import C15.Lifecycle C15.LifecycleLemmas C15.LifecycleProofs C15.LifecycleTI C15.LifecycleIso C15.LifecycleComplete C15.LifecycleListing C15.LifecycleRefuted.
Import ListNotations.
Theorem listings_consistent : forall (w : world) (tys : list ttype) (s : state) (t : nat),
  reachable w tys s ->
  NoDup (pool_monitors (get_trainer s t)) /\
  (forall i : nat,
   In i (pool_monitors (get_trainer s t)) <->
   (exists cn mn : nat, In (cn, mn, i) (pool_named (get_trainer s t)))) /\
  (forall cn mn i j : nat,
   In (cn, mn, i) (pool_named (get_trainer s t)) ->
   In (cn, mn, j) (pool_named (get_trainer s t)) -> i = j) /\
  (forall cn mn i : nat,
   In (cn, mn, i) (pool_named (get_trainer s t)) ->
   exists c : cellid, alookup cn (t_cells (get_trainer s t)) = Some c).
Proof. exact (@Inferno.C15.LifecycleListing.listings_consistent). Qed.
Print Assumptions listings_consistent.
