(* Obligation C12/reducer_resume_reachable.  Statement as printed by Coq from Inferno.C12.ComponentsProofs; proof by reference.
   This file contains nothing else, so the statement cannot be weakened quietly. *)
From Coq Require Import List ZArith Bool String Reals.
From Inferno Require Import Base.Num Base.NumR Gen.Infra C01.Ring C07.Reducer C07.ReducerProofs C12.Checkpoint C12.Components C12.ComponentsProofs.
From Inferno Require C04.Synapse C03.Neuron.
Import ListNotations.
Theorem reducer_resume_reachable : forall (M : Num) (A Obs : Type) (K : @rclass M A Obs) (dt dur : T M) 
    (incl inpl : bool) (pre prior post : list (@rop M Obs)),
  let s := @final M A Obs K (@fresh M A Obs K dt dur incl inpl) pre in
  let t := @final M A Obs K (@fresh M A Obs K dt dur incl inpl) prior in
  @rdt M A t = @rdt M A s ->
  @rdur M A t = @rdur M A s ->
  @rincl M A t = @rincl M A s ->
  @rinpl M A t = @rinpl M A s ->
  @same_shape A unit (@st A unit (@rrec M A s)) (@st A unit (@rrec M A t)) ->
  @rrun M A Obs K (@red_load M A (@red_save M A Obs K s) t) post = @rrun M A Obs K s post.
Proof. exact (@Inferno.C12.ComponentsProofs.reducer_resume_reachable). Qed.
Print Assumptions reducer_resume_reachable.
