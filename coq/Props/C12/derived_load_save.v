(* Obligation C12/derived_load_save.  Statement as printed by Coq from Inferno.C12.Checkpoint; proof by reference.
   This file contains nothing else, so the statement cannot be weakened quietly. *)
From Coq Require Import List ZArith Bool Lia.
From Inferno Require Import C01.Ring C01.RingExec C12.Checkpoint.
Import ListNotations.
Theorem derived_load_save : forall (P D : Type) (derive : P -> D) (s t : P * D),
  dinv derive s -> dload derive (dsave s) t = s.
Proof. exact (@Inferno.C12.Checkpoint.derived_load_save). Qed.
Print Assumptions derived_load_save.
