(* Obligation C12/initial_must_persist_refuted.  Statement as printed by Coq from Inferno.C12.ComponentsProofs; proof by reference.
   This file contains nothing else, so the statement cannot be weakened quietly. *)
From Coq Require Import List ZArith Bool String Reals.
From Inferno Require Import Base.Num Base.NumR Gen.Infra C01.Ring C07.Reducer C07.ReducerProofs C12.Checkpoint C12.Components C12.ComponentsProofs.
From Inferno Require C04.Synapse C03.Neuron.
Import ListNotations.
Theorem initial_must_persist_refuted : exists (s0 : reducer RN) (pre : list (rop RN)) (t : reducer RN) 
  (post : list (rop RN)),
    let K := cls_pass RN in
    state_ok K s0 /\
    (let s := fst (run (red_step RN K) s0 pre) in
     red_compat RN K s t /\
     map (red_out RN)
       (snd (run (red_step RN K) (red_load RN (red_save_noinitial RN K s) t) post)) <>
     map (red_out RN) (snd (run (red_step RN K) s post))).
Proof. exact (@Inferno.C12.ComponentsProofs.initial_must_persist_refuted). Qed.
Print Assumptions initial_must_persist_refuted.
