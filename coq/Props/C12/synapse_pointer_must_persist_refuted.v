(* Obligation C12/synapse_pointer_must_persist_refuted.  Statement as printed by Coq from Inferno.C12.ComponentsProofs; proof by reference.
   This file contains nothing else, so the statement cannot be weakened quietly. *)
From Coq Require Import List ZArith Bool String Reals.
From Inferno Require Import Base.Num Base.NumR Gen.Infra C01.Ring C07.Reducer C07.ReducerProofs C12.Checkpoint C12.Components C12.ComponentsProofs.
From Inferno Require C04.Synapse C03.Neuron.
Import ListNotations.
Theorem synapse_pointer_must_persist_refuted : exists
    (c : Synapse.cfg RN) (s0 : Synapse.syn RN) (pre : list (Synapse.sop RN)) 
  (t : Synapse.syn RN) (post : list (Synapse.sop RN)),
    syn_inv RN c s0 /\
    (let s := fst (run (syn_step RN c) s0 pre) in
     syn_compat RN c s t /\
     snd (run (syn_step RN c) (syn_load RN c (syn_save_noptr RN c s) t) post) <>
     snd (run (syn_step RN c) s post)).
Proof. exact (@Inferno.C12.ComponentsProofs.synapse_pointer_must_persist_refuted). Qed.
Print Assumptions synapse_pointer_must_persist_refuted.
