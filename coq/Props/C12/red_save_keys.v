(* Obligation C12/red_save_keys.  Statement as printed by Coq from Inferno.C12.ComponentsProofs; proof by reference.
   This file contains nothing else, so the statement cannot be weakened quietly. *)
From Coq Require Import List ZArith Bool String Reals.
From Inferno Require Import Base.Num Base.NumR Gen.Infra C01.Ring C07.Reducer C07.ReducerProofs C12.Checkpoint C12.Components C12.ComponentsProofs.
From Inferno Require C04.Synapse C03.Neuron.
Import ListNotations.
Theorem red_save_keys : forall (M : Num) (A Obs : Type) (K : @rclass M A Obs) (r : @reducer M A),
  @keys (@rval A) (@red_save M A Obs K r) = red_keys (@kcounts M A Obs K).
Proof. exact (@Inferno.C12.ComponentsProofs.red_save_keys). Qed.
Print Assumptions red_save_keys.
