(* Obligation C12/cumulative_trace_reducer_resume.  Statement as printed by Coq from Inferno.C12.ComponentsProofs; proof by reference.
   This file contains nothing else, so the statement cannot be weakened quietly. *)
From Coq Require Import List ZArith Bool String Reals.
From Inferno Require Import Base.Num Base.NumR Gen.Infra C01.Ring C07.Reducer C07.ReducerProofs C12.Checkpoint C12.Components C12.ComponentsProofs.
From Inferno Require C04.Synapse C03.Neuron.
Import ListNotations.
Theorem cumulative_trace_reducer_resume : forall (M : Num) (tau amp target : T M) (tol : option (T M)),
  let K := cls_cumulative M tau amp target tol in
  forall (s0 : reducer M) (pre post : list (rop M)) (t : reducer M),
  state_ok K s0 ->
  let s := fst (run (red_step M K) s0 pre) in
  red_compat M K s t ->
  run (red_step M K) (red_load M (red_save M K s) t) post = run (red_step M K) s post.
Proof. exact (@Inferno.C12.ComponentsProofs.cumulative_trace_reducer_resume). Qed.
Print Assumptions cumulative_trace_reducer_resume.
