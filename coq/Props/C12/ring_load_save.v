(* Obligation C12/ring_load_save.  Statement as printed by Coq from Inferno.C12.Checkpoint; proof by reference.
   This file contains nothing else, so the statement cannot be weakened quietly. *)
From Coq Require Import List ZArith Bool Lia.
From Inferno Require Import C01.Ring C01.RingExec C12.Checkpoint.
Import ListNotations.
Theorem ring_load_save : forall s t : ring0, rcompat s t -> rload (rsave s) t = s.
Proof. exact (@Inferno.C12.Checkpoint.ring_load_save). Qed.
Print Assumptions ring_load_save.
