(* Obligation C12/syn_save_keys.  Statement as printed by Coq from Inferno.C12.ComponentsProofs; proof by reference.
   This file contains nothing else, so the statement cannot be weakened quietly. *)
From Coq Require Import List ZArith Bool String Reals.
From Inferno Require Import Base.Num Base.NumR Gen.Infra C01.Ring C07.Reducer C07.ReducerProofs C12.Checkpoint C12.Components C12.ComponentsProofs.
From Inferno Require C04.Synapse C03.Neuron.
Import ListNotations.
Theorem syn_save_keys : forall (NM : Num) (c : Synapse.cfg NM) (s : Synapse.syn NM),
  keys (syn_save NM c s) = syn_keys (Synapse.ckind NM c).
Proof. exact (@Inferno.C12.ComponentsProofs.syn_save_keys). Qed.
Print Assumptions syn_save_keys.
