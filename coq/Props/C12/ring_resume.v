(* Obligation C12/ring_resume.  Statement as printed by Coq from Inferno.C12.Checkpoint; proof by reference.
   This file contains nothing else, so the statement cannot be weakened quietly. *)
From Coq Require Import List ZArith Bool Lia.
From Inferno Require Import C01.Ring C01.RingExec C12.Checkpoint.
Import ListNotations.
Theorem ring_resume : forall (s0 : ring0) (pre post : list op) (t : ring0),
  let s := fst (run rstep s0 pre) in
  rcompat s t -> run rstep (rload (rsave s) t) post = run rstep s post.
Proof. exact (@Inferno.C12.Checkpoint.ring_resume). Qed.
Print Assumptions ring_resume.
