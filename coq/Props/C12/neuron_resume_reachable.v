(* Obligation C12/neuron_resume_reachable.  Statement as printed by Coq from Inferno.C12.ComponentsProofs; proof by reference.
   This file contains nothing else, so the statement cannot be weakened quietly. *)
From Coq Require Import List ZArith Bool String Reals.
From Inferno Require Import Base.Num Base.NumR Gen.Infra C01.Ring C07.Reducer C07.ReducerProofs C12.Checkpoint C12.Components C12.ComponentsProofs.
From Inferno Require C04.Synapse C03.Neuron.
Import ListNotations.
Theorem neuron_resume_reachable : forall (NM : Num) (c : Neuron.cls) (p : Neuron.params NM) (n b : nat)
    (pre prior post : list (Neuron.op NM)),
  Forall (nrn_op_ok NM c) pre ->
  Forall (nrn_op_ok NM c) prior ->
  let s := fst (run (nrn_step NM c p) (Neuron.init NM c p n b) pre) in
  let t := fst (run (nrn_step NM c p) (Neuron.init NM c p n b) prior) in
  Neuron.training NM t = Neuron.training NM s ->
  Datatypes.length (Neuron.cols NM t) = Datatypes.length (Neuron.cols NM s) ->
  run (nrn_step NM c p) (nrn_load NM c (nrn_save NM c s) t) post =
  run (nrn_step NM c p) s post.
Proof. exact (@Inferno.C12.ComponentsProofs.neuron_resume_reachable). Qed.
Print Assumptions neuron_resume_reachable.
