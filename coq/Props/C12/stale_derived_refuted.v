(* Obligation C12/stale_derived_refuted.  Statement as printed by Coq from Inferno.C12.Checkpoint; proof by reference.
   This file contains nothing else, so the statement cannot be weakened quietly. *)
From Coq Require Import List ZArith Bool Lia.
From Inferno Require Import C01.Ring C01.RingExec C12.Checkpoint.
Import ListNotations.
Theorem stale_derived_refuted : forall (P D : Type) (derive : P -> D) (s t : P * D),
  dinv derive s -> snd t <> derive (fst s) -> dload_stale (dsave s) t <> s.
Proof. exact (@Inferno.C12.Checkpoint.stale_derived_refuted). Qed.
Print Assumptions stale_derived_refuted.
