(* Obligation C12/nonvacuous: the hypotheses of the component resume theorems (reachability invariant of the source,
   compatibility of the target) are met by concrete, non-trivial pairs of states - a source reached by real operations
   and a target in a DIFFERENT state (other data, other counter / pointer / voltages) - for a reducer with a counter
   (CAReducer), a delayed synapse and a neuron class without adaptation (where the invariant is not vacuous); and the
   saved dictionaries have exactly the declared keys. *)
From Coq Require Import List ZArith Bool String Reals Lra.
From Inferno Require Import Base.Num Base.NumR Gen.Infra C01.Ring C07.Reducer C07.ReducerProofs C12.Checkpoint
  C12.Components C12.ComponentsProofs.
From Inferno Require C04.Synapse C03.Neuron.
Import ListNotations.
Open Scope R_scope.

Definition nv_params : Neuron.params RN :=
  @Neuron.mkParams RN 1 (-60) (-65) 0 0 (-50) 2 20 1 0 0 0 0 [] [] [].
Definition nv_target : Neuron.nstate RN :=
  @Neuron.mkState RN false [@Neuron.mkCol RN [] [(5, 1)]; @Neuron.mkCol RN [] [(7, 0)]].

Theorem nonvacuous :
  (let K := cls_ca RN in
   let s0 := fresh RN K 1 0 false false in
   let s := fst (run (red_step RN K) s0 [@OFwd RN R [1%nat] [1]; @OFwd RN R [1%nat] [3]]) in
   let t := final K s0 [@OFwd RN R [1%nat] [0]] in
   state_ok K s0 /\ red_compat RN K s t /\
   rcount s = 2%Z /\ rcount t = 1%Z /\ rinit s = false /\ ptr (rrec s) = 0%nat /\
   keys (red_save RN K s) = ["_data__data"; "_extra_state._data__pointer"; "_extra_state._initial";
                             "_extra_state._count"]%string) /\
  (let c := wit_cfg in
   let s0 := Synapse.init RN c in
   let s := fst (run (syn_step RN c) s0 [Synapse.OStep RN [1%nat; 1%nat] [1] []]) in
   syn_inv RN c s0 /\ syn_compat RN c s s0 /\ ptr (Synapse.spk RN s) = 1%nat /\ ptr (Synapse.spk RN s0) = 0%nat /\
   N (Synapse.spk RN s) = 3%nat /\
   keys (syn_save RN c s) = ["_spike__data"; "_extra_state._spike__pointer"]%string) /\
  (let s0 := Neuron.init RN Neuron.LIF nv_params 2 1 in
   let s := fst (run (nrn_step RN Neuron.LIF nv_params) s0 [Neuron.OpTrain false; Neuron.OpClear false]) in
   nrn_inv RN Neuron.LIF s0 /\ nrn_compat RN Neuron.LIF s nv_target /\ s <> nv_target /\
   nrn_load RN Neuron.LIF (nrn_save RN Neuron.LIF s) nv_target = s /\
   keys (nrn_save RN Neuron.LIF s) = ["_voltage__data"; "_refrac__data"]%string).
Proof.
  split; [|split].
  - cbn zeta.
    pose proof (fresh_ok RN (cls_ca RN) 1 0 false false) as H0.
    pose proof (run_ok RN (cls_ca RN) [@OFwd RN R [1%nat] [0]] _ H0) as Hok.
    split; [exact H0|]. rewrite fresh_ca_1_0 in *.
    split; [refine (conj _ (conj _ (conj _ (conj _ (conj _ Hok))))); vm_compute; auto|].
    repeat split; vm_compute; reflexivity.
  - cbn zeta. split; [apply syn_init_inv|].
    assert (Es : fst (run (syn_step RN wit_cfg) (Synapse.init RN wit_cfg) [Synapse.OStep RN [1%nat; 1%nat] [1] []])
                 = Synapse.mkSyn RN (mkRing 3 1 (SFull tt [1%nat; 1%nat] [[1]; [0]; [0]]))
                                  (Synapse.fresh RN 3 [1%nat; 1%nat]) (Synapse.fresh RN 3 [1%nat; 1%nat])).
    { cbn [run]. unfold syn_step, Synapse.sstep, Synapse.forward, Synapse.init.
      cbn [Synapse.cdt Synapse.cdelay Synapse.cshape Synapse.ckind wit_cfg map]. rewrite wit_recordsz, wit_boolify.
      vm_compute. reflexivity. }
    rewrite Es. split.
    + unfold syn_compat. split; [|split; [|split]].
      * unfold Synapse.init. cbn [Synapse.cdt Synapse.cdelay Synapse.cshape wit_cfg]. rewrite wit_recordsz.
        vm_compute. auto.
      * intros H. exfalso. apply H. reflexivity.
      * intros H. discriminate H.
      * apply syn_init_inv.
    + unfold Synapse.init. cbn [Synapse.cdt Synapse.cdelay Synapse.cshape wit_cfg]. rewrite wit_recordsz.
      repeat split; vm_compute; reflexivity.
  - cbn zeta. split; [apply nrn_init_inv|].
    assert (Hc : nrn_compat RN Neuron.LIF
                   (fst (run (nrn_step RN Neuron.LIF nv_params) (Neuron.init RN Neuron.LIF nv_params 2 1)
                             [Neuron.OpTrain false; Neuron.OpClear false])) nv_target).
    { split; [vm_compute; reflexivity|]. split; [vm_compute; reflexivity|].
      intros _. unfold nv_target. cbn [Neuron.cols]. repeat constructor. }
    assert (Hi : nrn_inv RN Neuron.LIF
                   (fst (run (nrn_step RN Neuron.LIF nv_params) (Neuron.init RN Neuron.LIF nv_params 2 1)
                             [Neuron.OpTrain false; Neuron.OpClear false]))).
    { apply nrn_run_inv; [|apply nrn_init_inv]. repeat constructor. }
    split; [exact Hc|]. split; [|split; [exact (neuron_load_save RN Neuron.LIF _ _ Hi Hc)|vm_compute; reflexivity]].
    intros E. apply (f_equal (fun s => match Neuron.cols RN s with c :: _ => match Neuron.cells RN c with (v, _) :: _ => v | _ => 0 end | _ => 0 end)) in E.
    vm_compute in E. lra.
Qed.
Print Assumptions nonvacuous.
