(* Obligation C12/synapse_resume.  Statement as printed by Coq from Inferno.C12.ComponentsProofs; proof by reference.
   This file contains nothing else, so the statement cannot be weakened quietly. *)
From Coq Require Import List ZArith Bool String Reals.
From Inferno Require Import Base.Num Base.NumR Gen.Infra C01.Ring C07.Reducer C07.ReducerProofs C12.Checkpoint C12.Components C12.ComponentsProofs.
From Inferno Require C04.Synapse C03.Neuron.
Import ListNotations.
Theorem synapse_resume : forall (NM : Num) (c : Synapse.cfg NM) (s0 : Synapse.syn NM)
    (pre post : list (Synapse.sop NM)) (t : Synapse.syn NM),
  syn_inv NM c s0 ->
  let s := fst (run (syn_step NM c) s0 pre) in
  syn_compat NM c s t ->
  run (syn_step NM c) (syn_load NM c (syn_save NM c s) t) post = run (syn_step NM c) s post.
Proof. exact (@Inferno.C12.ComponentsProofs.synapse_resume). Qed.
Print Assumptions synapse_resume.
