(* Obligation C12/pointer_must_persist_refuted.  Statement as printed by Coq from Inferno.C12.Checkpoint; proof by reference.
   This file contains nothing else, so the statement cannot be weakened quietly. *)
From Coq Require Import List ZArith Bool Lia.
From Inferno Require Import C01.Ring C01.RingExec C12.Checkpoint.
Import ListNotations.
Theorem pointer_must_persist_refuted : exists (s t : ring0) (post : list op),
    rcompat s t /\ snd (run rstep (rload_noptr (rsave s) t) post) <> snd (run rstep s post).
Proof. exact (@Inferno.C12.Checkpoint.pointer_must_persist_refuted). Qed.
Print Assumptions pointer_must_persist_refuted.
