(* Obligation C12/syn_run_inv.  Statement as printed by Coq from Inferno.C12.ComponentsProofs; proof by reference.
   This file contains nothing else, so the statement cannot be weakened quietly. *)
From Coq Require Import List ZArith Bool String Reals.
From Inferno Require Import Base.Num Base.NumR Gen.Infra C01.Ring C07.Reducer C07.ReducerProofs C12.Checkpoint C12.Components C12.ComponentsProofs.
From Inferno Require C04.Synapse C03.Neuron.
Import ListNotations.
Theorem syn_run_inv : forall (NM : Num) (c : Synapse.cfg NM) (ops : list (Synapse.sop NM)),
  syn_inv NM c (fst (run (syn_step NM c) (Synapse.init NM c) ops)).
Proof. exact (@Inferno.C12.ComponentsProofs.syn_run_inv). Qed.
Print Assumptions syn_run_inv.
