(* Obligation C12/reducer_load_save.  Statement as printed by Coq from Inferno.C12.ComponentsProofs; proof by reference.
   This file contains nothing else, so the statement cannot be weakened quietly. *)
From Coq Require Import List ZArith Bool String Reals.
From Inferno Require Import Base.Num Base.NumR Gen.Infra C01.Ring C07.Reducer C07.ReducerProofs C12.Checkpoint C12.Components C12.ComponentsProofs.
From Inferno Require C04.Synapse C03.Neuron.
Import ListNotations.
Theorem reducer_load_save : forall (M : Num) (A Obs : Type) (K : @rclass M A Obs) (s t : @reducer M A),
  @state_ok M A Obs K s ->
  @red_compat M A Obs K s t -> @red_load M A (@red_save M A Obs K s) t = s.
Proof. exact (@Inferno.C12.ComponentsProofs.reducer_load_save). Qed.
Print Assumptions reducer_load_save.
