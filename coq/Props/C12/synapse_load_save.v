(* Obligation C12/synapse_load_save.  Statement as printed by Coq from Inferno.C12.ComponentsProofs; proof by reference.
   This file contains nothing else, so the statement cannot be weakened quietly. *)
From Coq Require Import List ZArith Bool String Reals.
From Inferno Require Import Base.Num Base.NumR Gen.Infra C01.Ring C07.Reducer C07.ReducerProofs C12.Checkpoint C12.Components C12.ComponentsProofs.
From Inferno Require C04.Synapse C03.Neuron.
Import ListNotations.
Theorem synapse_load_save : forall (NM : Num) (c : Synapse.cfg NM) (s t : Synapse.syn NM),
  syn_inv NM c s -> syn_compat NM c s t -> syn_load NM c (syn_save NM c s) t = s.
Proof. exact (@Inferno.C12.ComponentsProofs.synapse_load_save). Qed.
Print Assumptions synapse_load_save.
