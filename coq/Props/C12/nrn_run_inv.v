(* Obligation C12/nrn_run_inv.  Statement as printed by Coq from Inferno.C12.ComponentsProofs; proof by reference.
   This file contains nothing else, so the statement cannot be weakened quietly. *)
From Coq Require Import List ZArith Bool String Reals.
From Inferno Require Import Base.Num Base.NumR Gen.Infra C01.Ring C07.Reducer C07.ReducerProofs C12.Checkpoint C12.Components C12.ComponentsProofs.
From Inferno Require C04.Synapse C03.Neuron.
Import ListNotations.
Theorem nrn_run_inv : forall (NM : Num) (c : Neuron.cls) (p : Neuron.params NM) (ops : list (Neuron.op NM))
    (s : Neuron.nstate NM),
  Forall (nrn_op_ok NM c) ops ->
  nrn_inv NM c s -> nrn_inv NM c (fst (run (nrn_step NM c p) s ops)).
Proof. exact (@Inferno.C12.ComponentsProofs.nrn_run_inv). Qed.
Print Assumptions nrn_run_inv.
