(* Obligation C12/reducer_resume.  Statement as printed by Coq from Inferno.C12.ComponentsProofs; proof by reference.
   This file contains nothing else, so the statement cannot be weakened quietly. *)
From Coq Require Import List ZArith Bool String Reals.
From Inferno Require Import Base.Num Base.NumR Gen.Infra C01.Ring C07.Reducer C07.ReducerProofs C12.Checkpoint C12.Components C12.ComponentsProofs.
From Inferno Require C04.Synapse C03.Neuron.
Import ListNotations.
Theorem reducer_resume : forall (M : Num) (A Obs : Type) (K : @rclass M A Obs) (s0 : @reducer M A)
    (pre post : list (@rop M Obs)) (t : @reducer M A),
  @state_ok M A Obs K s0 ->
  let s :=
    @fst (@reducer M A) (list (@rres M A))
      (@run (@reducer M A) (@rop M Obs) (@rres M A) (@red_step M A Obs K) s0 pre) in
  @red_compat M A Obs K s t ->
  @run (@reducer M A) (@rop M Obs) (@rres M A) (@red_step M A Obs K)
    (@red_load M A (@red_save M A Obs K s) t) post =
  @run (@reducer M A) (@rop M Obs) (@rres M A) (@red_step M A Obs K) s post.
Proof. exact (@Inferno.C12.ComponentsProofs.reducer_resume). Qed.
Print Assumptions reducer_resume.
