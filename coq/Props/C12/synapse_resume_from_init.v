(* Obligation C12/synapse_resume_from_init.  Statement as printed by Coq from Inferno.C12.ComponentsProofs; proof by reference.
   This file contains nothing else, so the statement cannot be weakened quietly. *)
From Coq Require Import List ZArith Bool String Reals.
From Inferno Require Import Base.Num Base.NumR Gen.Infra C01.Ring C07.Reducer C07.ReducerProofs C12.Checkpoint C12.Components C12.ComponentsProofs.
From Inferno Require C04.Synapse C03.Neuron.
Import ListNotations.
Theorem synapse_resume_from_init : forall (NM : Num) (c : Synapse.cfg NM) (pre prior post : list (Synapse.sop NM)),
  let s := fst (Synapse.run NM c (Synapse.init NM c) pre) in
  let t := fst (Synapse.run NM c (Synapse.init NM c) prior) in
  Synapse.run NM c (syn_load NM c (syn_save NM c s) t) post = Synapse.run NM c s post.
Proof. exact (@Inferno.C12.ComponentsProofs.synapse_resume_from_init). Qed.
Print Assumptions synapse_resume_from_init.
