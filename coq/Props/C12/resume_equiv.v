(* Obligation C12/resume_equiv.  Statement as printed by Coq from Inferno.C12.Checkpoint; proof by reference.
   This file contains nothing else, so the statement cannot be weakened quietly. *)
From Coq Require Import List ZArith Bool Lia.
From Inferno Require Import C01.Ring C01.RingExec C12.Checkpoint.
Import ListNotations.
Theorem resume_equiv : forall (St In Out Per : Type) (step : St -> In -> St * Out) (save : St -> Per)
    (load : Per -> St -> St) (compat : St -> St -> Prop) (Inv : St -> Prop),
  (forall s t : St, Inv s -> compat s t -> load (save s) t = s) ->
  (forall (s : St) (x : In), Inv s -> Inv (fst (step s x))) ->
  forall (s0 : St) (pre post : list In) (t : St),
  Inv s0 ->
  let s := fst (run step s0 pre) in
  compat s t -> run step (load (save s) t) post = run step s post.
Proof. exact (@Inferno.C12.Checkpoint.resume_equiv). Qed.
Print Assumptions resume_equiv.
