(* Obligation C12/nrn_save_keys.  Statement as printed by Coq from Inferno.C12.ComponentsProofs; proof by reference.
   This file contains nothing else, so the statement cannot be weakened quietly. *)
From Coq Require Import List ZArith Bool String Reals.
From Inferno Require Import Base.Num Base.NumR Gen.Infra C01.Ring C07.Reducer C07.ReducerProofs C12.Checkpoint C12.Components C12.ComponentsProofs.
From Inferno Require C04.Synapse C03.Neuron.
Import ListNotations.
Theorem nrn_save_keys : forall (NM : Num) (c : Neuron.cls) (s : Neuron.nstate NM),
  keys (nrn_save NM c s) = nrn_keys c.
Proof. exact (@Inferno.C12.ComponentsProofs.nrn_save_keys). Qed.
Print Assumptions nrn_save_keys.
