(* Obligation C12/neuron_resume.  Statement as printed by Coq from Inferno.C12.ComponentsProofs; proof by reference.
   This file contains nothing else, so the statement cannot be weakened quietly. *)
From Coq Require Import List ZArith Bool String Reals.
From Inferno Require Import Base.Num Base.NumR Gen.Infra C01.Ring C07.Reducer C07.ReducerProofs C12.Checkpoint C12.Components C12.ComponentsProofs.
From Inferno Require C04.Synapse C03.Neuron.
Import ListNotations.
Theorem neuron_resume : forall (NM : Num) (c : Neuron.cls) (p : Neuron.params NM) (s0 : Neuron.nstate NM)
    (pre post : list (Neuron.op NM)) (t : Neuron.nstate NM),
  nrn_inv NM c s0 ->
  Forall (nrn_op_ok NM c) pre ->
  let s := fst (run (nrn_step NM c p) s0 pre) in
  nrn_compat NM c s t ->
  run (nrn_step NM c p) (nrn_load NM c (nrn_save NM c s) t) post =
  run (nrn_step NM c p) s post.
Proof. exact (@Inferno.C12.ComponentsProofs.neuron_resume). Qed.
Print Assumptions neuron_resume.
