(* Obligation C06/direct_part_is_undelayed_forward.  Statement as printed by Coq from Inferno.C06.DecompProofs; proof by reference.
   This file contains nothing else, so the statement cannot be weakened quietly. *)
From Coq Require Import List ZArith Bool Arith Lia Reals Lra.
From Flocq Require Import Core.Raux Core.Generic_fmt.
From Inferno Require Import Base.Num Base.NumR Gen.Infra Gen.Interpolation C01.Ring C01.RingProofs C04.Synapse C04.HistProofs C04.ClosedForms C04.SelectProofs C04.SynapseProofs C06.Delay C06.DelaySpec C06.DecompSpec C06.DecompProofs.
From Inferno Require C05.Conn C05.ConnSpec.
Import ListNotations.
Open Scope R_scope.
Theorem direct_part_is_undelayed_forward : forall (k : direct RN) (c : cfgR) (p : pastR) (xsh : list nat) (kk : nat -> nat) 
    (K : nat) (s0 : synR) (q : pastR) (x0 : list (T RN)) (inj0 : list (list (T RN))),
  cshape RN c = [dr_B RN k; dr_n RN k] ->
  (0 < dr_n RN k)%nat ->
  Conn.flat_shape xsh = [dr_B RN k; dr_n RN k] ->
  Forall (entry_ok RN c) p ->
  shifted (undelayed c) p K = (x0, inj0) :: q ->
  Inv RN (undelayed c) s0 q ->
  exists (s0' : synR) (out : list (T RN)),
    direct_forward RN (direct_part k kk K) (undelayed c) s0 xsh x0 inj0 =
    (s0', SOk (dr_B RN k :: dr_shape RN k, out)) /\
    (forall b j : nat,
     (b < dr_B RN k)%nat ->
     (j < dr_n RN k)%nat ->
     nth (b * dr_n RN k + j) out 0 =
     direct_undelayed_part c p (dr_w RN k) kk (dr_n RN k) K b j).
Proof. exact (@Inferno.C06.DecompProofs.direct_part_is_undelayed_forward). Qed.
Print Assumptions direct_part_is_undelayed_forward.
