(* Obligation C06/conv_entry_ok.  Statement as printed by Coq from Inferno.C06.ConvPixel; proof by reference.
   This file contains nothing else, so the statement cannot be weakened quietly. *)
From Coq Require Import List ZArith Bool Arith Lia Reals Lra.
From Flocq Require Import Core.Raux Core.Generic_fmt.
From Inferno Require Import Base.Num Base.NumR Gen.Infra Gen.Interpolation C01.Ring C01.RingProofs C04.Synapse C04.HistProofs C04.ClosedForms C04.SelectProofs C04.SynapseProofs C06.Delay C06.DelaySpec C06.ConvPixel.
From Inferno Require C05.Conn C05.ConnSpec.
Import ListNotations.
Open Scope R_scope.
Theorem conv_entry_ok : forall (k : conv RN) (c : cfgR) (xs : list R) (inj : list (list R)),
  cshape RN c = [cv_B RN k; cv_N RN k; cv_L RN k] ->
  entry_ok RN c (ConvProofs.conv_unfolded k xs, map (ConvProofs.conv_unfolded k) inj).
Proof. exact (@Inferno.C06.ConvPixel.conv_entry_ok). Qed.
Print Assumptions conv_entry_ok.
