(* Obligation C06/delayed_cur_zero.  Statement as printed by Coq from Inferno.C06.ReadProofs; proof by reference.
   This file contains nothing else, so the statement cannot be weakened quietly. *)
From Coq Require Import List ZArith Bool Arith Lia Reals Lra.
From Flocq Require Import Core.Raux Core.Generic_fmt.
From Inferno Require Import Base.Num Base.NumR Gen.Infra Gen.Interpolation C01.Ring C01.RingProofs C04.Synapse C04.HistProofs C04.ClosedForms C04.SelectProofs C04.SynapseProofs C06.Delay C06.DelaySpec C06.ReadProofs.
From Inferno Require C05.Conn C05.ConnSpec.
Import ListNotations.
Open Scope R_scope.
Theorem delayed_cur_zero : forall (c : cfgR) (p : pastR),
  cfg_ok c ->
  forall (e : nat) (t : R),
  0 <= t <= cdelay RN c ->
  Rabs t <= ctol RN c -> delayed_cur c p e t = nth e (cur_out RN c p) 0.
Proof. exact (@Inferno.C06.ReadProofs.delayed_cur_zero). Qed.
Print Assumptions delayed_cur_zero.
