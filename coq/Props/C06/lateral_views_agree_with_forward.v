(* Obligation C06/lateral_views_agree_with_forward.  Statement as printed by Coq from Inferno.C06.DenseShift; proof by reference.
   This file contains nothing else, so the statement cannot be weakened quietly. *)
From Coq Require Import List ZArith Bool Arith Lia Reals Lra.
From Flocq Require Import Core.Raux Core.Generic_fmt.
From Inferno Require Import Base.Num Base.NumR Gen.Infra Gen.Interpolation C01.Ring C01.RingProofs C04.Synapse C04.HistProofs C04.ClosedForms C04.SelectProofs C04.SynapseProofs C06.Delay C06.DelaySpec C06.DenseShift.
From Inferno Require C05.Conn C05.ConnSpec.
Import ListNotations.
Open Scope R_scope.
Theorem lateral_views_agree_with_forward : forall (l : Conn.lat RN) (c : cfgR) (s : synR) (p : pastR),
  Inv RN c s p ->
  cfg_ok c ->
  cshape RN c = [Conn.l_B RN l; Conn.l_n RN l] ->
  is_mat (Conn.l_n RN l) (Conn.l_n RN l) (Conn.l_w RN l) ->
  bias_ok (Conn.l_n RN l) (Conn.l_b RN l) ->
  (0 < Conn.l_n RN l)%nat ->
  forall (xsh : list nat) (xs : list R) (inj : list (list R)),
  Conn.flat_shape xsh = [Conn.l_B RN l; Conn.l_n RN l] ->
  entry_ok RN c (xs, inj) ->
  forall d : list (list R),
  Conn.l_d RN l = Some d ->
  cdelay RN c <> 0 ->
  forall kk : nat -> nat -> nat,
  (forall o i : nat,
   (o < Conn.l_n RN l)%nat ->
   (i < Conn.l_n RN l)%nat -> on_grid_delay c (mat_at d o i) (kk o i)) ->
  exists (s' : synR) (out vc vs : list (T RN)),
    dense_forward RN (lat_dense RN l) c s xsh xs inj =
    (s', SOk (Conn.l_B RN l :: Conn.l_shape RN l, out)) /\
    syncurrent RN c s' (has (Conn.l_d RN l)) (dense_selector RN (lat_dense RN l)) =
    SOk ([Conn.l_B RN l; Conn.l_n RN l; Conn.l_n RN l], vc) /\
    synspike RN c s' (has (Conn.l_d RN l)) (dense_selector RN (lat_dense RN l)) =
    SOk ([Conn.l_B RN l; Conn.l_n RN l; Conn.l_n RN l], vs) /\
    (forall b i o : nat,
     (b < Conn.l_B RN l)%nat ->
     (i < Conn.l_n RN l)%nat ->
     (o < Conn.l_n RN l)%nat ->
     nth ((b * Conn.l_n RN l + i) * Conn.l_n RN l + o) vc 0 =
     value_ago c ((xs, inj) :: p) (kk o i) (b * Conn.l_n RN l + i) /\
     nth ((b * Conn.l_n RN l + i) * Conn.l_n RN l + o) vs 0 =
     spike_ago c ((xs, inj) :: p) (kk o i) (b * Conn.l_n RN l + i)) /\
    (forall b o : nat,
     (b < Conn.l_B RN l)%nat ->
     (o < Conn.l_n RN l)%nat ->
     nth (b * Conn.l_n RN l + o) out 0 =
     Rsum (Conn.l_n RN l)
       (fun i : nat =>
        mat_at (Conn.l_w RN l) o i * nth ((b * Conn.l_n RN l + i) * Conn.l_n RN l + o) vc 0) +
     bias_at (Conn.l_b RN l) o).
Proof. exact (@Inferno.C06.DenseShift.lateral_views_agree_with_forward). Qed.
Print Assumptions lateral_views_agree_with_forward.
