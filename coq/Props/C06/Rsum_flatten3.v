(* Obligation C06/Rsum_flatten3.  Statement as printed by Coq from Inferno.C06.ConvPixel; proof by reference.
   This file contains nothing else, so the statement cannot be weakened quietly. *)
From Coq Require Import List ZArith Bool Arith Lia Reals Lra.
From Flocq Require Import Core.Raux Core.Generic_fmt.
From Inferno Require Import Base.Num Base.NumR Gen.Infra Gen.Interpolation C01.Ring C01.RingProofs C04.Synapse C04.HistProofs C04.ClosedForms C04.SelectProofs C04.SynapseProofs C06.Delay C06.DelaySpec C06.ConvPixel.
From Inferno Require C05.Conn C05.ConnSpec.
Import ListNotations.
Open Scope R_scope.
Theorem Rsum_flatten3 : forall (A Bn Cn : nat) (f : nat -> R),
  Rsum (A * (Bn * Cn)) f =
  Rsum A
    (fun a : nat =>
     Rsum Bn (fun b : nat => Rsum Cn (fun c : nat => f ((a * Bn + b) * Cn + c)%nat))).
Proof. exact (@Inferno.C06.ConvPixel.Rsum_flatten3). Qed.
Print Assumptions Rsum_flatten3.
