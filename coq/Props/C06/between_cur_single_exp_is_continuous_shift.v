(* Obligation C06/between_cur_single_exp_is_continuous_shift.  Statement as printed by Coq from Inferno.C06.ClosedShift; proof by reference.
   This file contains nothing else, so the statement cannot be weakened quietly. *)
From Coq Require Import List ZArith Bool Arith Lia Reals Lra.
From Flocq Require Import Core.Raux Core.Generic_fmt.
From Inferno Require Import Base.Num Base.NumR Gen.Infra Gen.Interpolation C01.Ring C01.RingProofs C04.Synapse C04.HistProofs C04.ClosedForms C04.SelectProofs C04.SynapseProofs C06.Delay C06.DelaySpec C06.ClosedShift.
From Inferno Require C05.Conn C05.ConnSpec.
Import ListNotations.
Open Scope R_scope.
Theorem between_cur_single_exp_is_continuous_shift : forall (c : cfgR) (p : pastR) (e : nat) (t : R),
  ckind RN c = KSingleExp ->
  Forall (entry_ok RN c) p ->
  (e < nel (cshape RN c))%nat ->
  between_cur c p e t =
  isum
    (fun j : nat =>
     cQ RN c / ctau RN c * Rexp (- (INR j * cdt RN c + since_older c t) / ctau RN c))
    (skipn (Z.to_nat (Zceil (t / cdt RN c))) (train p e)).
Proof. exact (@Inferno.C06.ClosedShift.between_cur_single_exp_is_continuous_shift). Qed.
Print Assumptions between_cur_single_exp_is_continuous_shift.
