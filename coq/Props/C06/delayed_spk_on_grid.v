(* Obligation C06/delayed_spk_on_grid.  Statement as printed by Coq from Inferno.C06.ReadProofs; proof by reference.
   This file contains nothing else, so the statement cannot be weakened quietly. *)
From Coq Require Import List ZArith Bool Arith Lia Reals Lra.
From Flocq Require Import Core.Raux Core.Generic_fmt.
From Inferno Require Import Base.Num Base.NumR Gen.Infra Gen.Interpolation C01.Ring C01.RingProofs C04.Synapse C04.HistProofs C04.ClosedForms C04.SelectProofs C04.SynapseProofs C06.Delay C06.DelaySpec C06.ReadProofs.
From Inferno Require C05.Conn C05.ConnSpec.
Import ListNotations.
Open Scope R_scope.
Theorem delayed_spk_on_grid : forall (c : cfgR) (p : pastR),
  cfg_ok c ->
  forall (e : nat) (t : R) (k : nat),
  on_grid_delay c t k -> delayed_spk c p e t = spike_ago c p k e.
Proof. exact (@Inferno.C06.ReadProofs.delayed_spk_on_grid). Qed.
Print Assumptions delayed_spk_on_grid.
