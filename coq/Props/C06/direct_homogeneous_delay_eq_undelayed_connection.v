(* Obligation C06/direct_homogeneous_delay_eq_undelayed_connection.  Statement as printed by Coq from Inferno.C06.DirectProofs; proof by reference.
   This file contains nothing else, so the statement cannot be weakened quietly. *)
From Coq Require Import List ZArith Bool Arith Lia Reals Lra.
From Flocq Require Import Core.Raux Core.Generic_fmt.
From Inferno Require Import Base.Num Base.NumR Gen.Infra Gen.Interpolation C01.Ring C01.RingProofs C04.Synapse C04.HistProofs C04.ClosedForms C04.SelectProofs C04.SynapseProofs C06.Delay C06.DelaySpec C06.DirectProofs.
From Inferno Require C05.Conn C05.ConnSpec.
Import ListNotations.
Open Scope R_scope.
Theorem direct_homogeneous_delay_eq_undelayed_connection : forall (k : direct RN) (c : cfgR) (s : synR) (p : pastR),
  Inv RN c s p ->
  cfg_ok c ->
  cshape RN c = [dr_B RN k; dr_n RN k] ->
  length (dr_w RN k) = dr_n RN k ->
  bias_ok (dr_n RN k) (dr_b RN k) ->
  (0 < dr_n RN k)%nat ->
  forall (xsh : list nat) (xs : list R) (inj : list (list R)),
  Conn.flat_shape xsh = [dr_B RN k; dr_n RN k] ->
  entry_ok RN c (xs, inj) ->
  forall d : list R,
  dr_d RN k = Some d ->
  cdelay RN c <> 0 ->
  forall (K : nat) (s0 : synR) (q : pastR) (x0 : list (T RN)) (inj0 : list (list (T RN))),
  (forall j : nat, (j < dr_n RN k)%nat -> on_grid_delay c (nth j d 0) K) ->
  shifted (undelayed c) ((xs, inj) :: p) K = (x0, inj0) :: q ->
  Inv RN (undelayed c) s0 q ->
  exists (s' s0' : synR) (out : list (T RN)),
    direct_forward RN k c s xsh xs inj = (s', SOk (dr_B RN k :: dr_shape RN k, out)) /\
    direct_forward RN (direct_no_delay k) (undelayed c) s0 xsh x0 inj0 =
    (s0', SOk (dr_B RN k :: dr_shape RN k, out)).
Proof. exact (@Inferno.C06.DirectProofs.direct_homogeneous_delay_eq_undelayed_connection). Qed.
Print Assumptions direct_homogeneous_delay_eq_undelayed_connection.
