(* Obligation C06/takes_delayed_zero.  Statement as printed by Coq from Inferno.C06.ViewProofs; proof by reference.
   This file contains nothing else, so the statement cannot be weakened quietly. *)
From Coq Require Import List ZArith Bool Arith Lia Reals Lra.
From Flocq Require Import Core.Raux Core.Generic_fmt.
From Inferno Require Import Base.Num Base.NumR Gen.Infra Gen.Interpolation C01.Ring C01.RingProofs C04.Synapse C04.HistProofs C04.ClosedForms C04.SelectProofs C04.SynapseProofs C06.Delay C06.DelaySpec C06.ViewProofs.
From Inferno Require C05.Conn C05.ConnSpec.
Import ListNotations.
Open Scope R_scope.
Theorem takes_delayed_zero : forall (c : cfgR) (h : bool), cdelay RN c = 0 -> takes_delayed RN c h = false.
Proof. exact (@Inferno.C06.ViewProofs.takes_delayed_zero). Qed.
Print Assumptions takes_delayed_zero.
