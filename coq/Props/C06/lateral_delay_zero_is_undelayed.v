(* Obligation C06/lateral_delay_zero_is_undelayed.  Statement as printed by Coq from Inferno.C06.DenseShift; proof by reference.
   This file contains nothing else, so the statement cannot be weakened quietly. *)
From Coq Require Import List ZArith Bool Arith Lia Reals Lra.
From Flocq Require Import Core.Raux Core.Generic_fmt.
From Inferno Require Import Base.Num Base.NumR Gen.Infra Gen.Interpolation C01.Ring C01.RingProofs C04.Synapse C04.HistProofs C04.ClosedForms C04.SelectProofs C04.SynapseProofs C06.Delay C06.DelaySpec C06.DenseShift.
From Inferno Require C05.Conn C05.ConnSpec.
Import ListNotations.
Open Scope R_scope.
Theorem lateral_delay_zero_is_undelayed : forall (l : Conn.lat RN) (c : cfgR) (s : synR) (p : pastR),
  Inv RN c s p ->
  cfg_ok c ->
  cshape RN c = [Conn.l_B RN l; Conn.l_n RN l] ->
  is_mat (Conn.l_n RN l) (Conn.l_n RN l) (Conn.l_w RN l) ->
  bias_ok (Conn.l_n RN l) (Conn.l_b RN l) ->
  (0 < Conn.l_n RN l)%nat ->
  forall (xsh : list nat) (xs : list R) (inj : list (list R)),
  Conn.flat_shape xsh = [Conn.l_B RN l; Conn.l_n RN l] ->
  entry_ok RN c (xs, inj) ->
  forall d : list (list R),
  Conn.l_d RN l = Some d ->
  cdelay RN c <> 0 ->
  forall s0 : synR,
  (forall o i : nat,
   (o < Conn.l_n RN l)%nat ->
   (i < Conn.l_n RN l)%nat ->
   0 <= mat_at d o i <= cdelay RN c /\ Rabs (mat_at d o i) <= ctol RN c) ->
  Inv RN (undelayed c) s0 p ->
  exists (s' s0' : synR) (out : list (T RN)),
    dense_forward RN (lat_dense RN l) c s xsh xs inj =
    (s', SOk (Conn.l_B RN l :: Conn.l_shape RN l, out)) /\
    dense_forward RN (dense_no_delay (lat_dense RN l)) (undelayed c) s0 xsh xs inj =
    (s0', SOk (Conn.l_B RN l :: Conn.l_shape RN l, out)).
Proof. exact (@Inferno.C06.DenseShift.lateral_delay_zero_is_undelayed). Qed.
Print Assumptions lateral_delay_zero_is_undelayed.
