(* Obligation C06/value_ago_shifted_response.  Statement as printed by Coq from Inferno.C06.ClosedShift; proof by reference.
   This file contains nothing else, so the statement cannot be weakened quietly. *)
From Coq Require Import List ZArith Bool Arith Lia Reals Lra.
From Flocq Require Import Core.Raux Core.Generic_fmt.
From Inferno Require Import Base.Num Base.NumR Gen.Infra Gen.Interpolation C01.Ring C01.RingProofs C04.Synapse C04.HistProofs C04.ClosedForms C04.SelectProofs C04.SynapseProofs C06.Delay C06.DelaySpec C06.ClosedShift.
From Inferno Require C05.Conn C05.ConnSpec.
Import ListNotations.
Open Scope R_scope.
Theorem value_ago_shifted_response : forall (c : cfgR) (p : pastR) (k e : nat),
  Forall (entry_ok RN c) p ->
  (e < nel (cshape RN c))%nat -> value_ago c p k e = shifted_response c p k e.
Proof. exact (@Inferno.C06.ClosedShift.value_ago_shifted_response). Qed.
Print Assumptions value_ago_shifted_response.
