(* Obligation C06/lateral_offgrid_reads_interpolated.  Statement as printed by Coq from Inferno.C06.DenseShift; proof by reference.
   This file contains nothing else, so the statement cannot be weakened quietly. *)
From Coq Require Import List ZArith Bool Arith Lia Reals Lra.
From Flocq Require Import Core.Raux Core.Generic_fmt.
From Inferno Require Import Base.Num Base.NumR Gen.Infra Gen.Interpolation C01.Ring C01.RingProofs C04.Synapse C04.HistProofs C04.ClosedForms C04.SelectProofs C04.SynapseProofs C06.Delay C06.DelaySpec C06.DenseShift.
From Inferno Require C05.Conn C05.ConnSpec.
Import ListNotations.
Open Scope R_scope.
Theorem lateral_offgrid_reads_interpolated : forall (l : Conn.lat RN) (c : cfgR) (s : synR) (p : pastR),
  Inv RN c s p ->
  cfg_ok c ->
  cshape RN c = [Conn.l_B RN l; Conn.l_n RN l] ->
  is_mat (Conn.l_n RN l) (Conn.l_n RN l) (Conn.l_w RN l) ->
  bias_ok (Conn.l_n RN l) (Conn.l_b RN l) ->
  (0 < Conn.l_n RN l)%nat ->
  forall (xsh : list nat) (xs : list R) (inj : list (list R)),
  Conn.flat_shape xsh = [Conn.l_B RN l; Conn.l_n RN l] ->
  entry_ok RN c (xs, inj) ->
  forall d : list (list R),
  Conn.l_d RN l = Some d ->
  cdelay RN c <> 0 ->
  (forall o i : nat,
   (o < Conn.l_n RN l)%nat ->
   (i < Conn.l_n RN l)%nat ->
   0 <= mat_at d o i <= cdelay RN c /\
   (forall z : Z, ctol RN c < Rabs (IZR z * cdt RN c - mat_at d o i))) ->
  exists (s' : synR) (out : list (T RN)),
    dense_forward RN (lat_dense RN l) c s xsh xs inj =
    (s', SOk (Conn.l_B RN l :: Conn.l_shape RN l, out)) /\
    (forall b o : nat,
     (b < Conn.l_B RN l)%nat ->
     (o < Conn.l_n RN l)%nat ->
     nth (b * Conn.l_n RN l + o) out 0 =
     Rsum (Conn.l_n RN l)
       (fun i : nat =>
        mat_at (Conn.l_w RN l) o i *
        between_cur c ((xs, inj) :: p) (b * Conn.l_n RN l + i) (mat_at d o i)) +
     bias_at (Conn.l_b RN l) o).
Proof. exact (@Inferno.C06.DenseShift.lateral_offgrid_reads_interpolated). Qed.
Print Assumptions lateral_offgrid_reads_interpolated.
