(* Obligation C06/undelayed_part_is_undelayed_forward.  Statement as printed by Coq from Inferno.C06.ClosedShift; proof by reference.
   This file contains nothing else, so the statement cannot be weakened quietly. *)
From Coq Require Import List ZArith Bool Arith Lia Reals Lra.
From Flocq Require Import Core.Raux Core.Generic_fmt.
From Inferno Require Import Base.Num Base.NumR Gen.Infra Gen.Interpolation C01.Ring C01.RingProofs C04.Synapse C04.HistProofs C04.ClosedForms C04.SelectProofs C04.SynapseProofs C06.Delay C06.DelaySpec C06.ClosedShift.
From Inferno Require C05.Conn C05.ConnSpec.
Import ListNotations.
Open Scope R_scope.
Theorem undelayed_part_is_undelayed_forward : forall (k : dense RN) (c : cfgR) (p : pastR) (xsh : list nat) (kk : nat -> nat -> nat)
    (K : nat) (s0 : synR) (q : pastR) (x0 : list (T RN)) (inj0 : list (list (T RN))),
  cshape RN c = [dn_B RN k; dn_I RN k] ->
  (0 < dn_O RN k)%nat ->
  Conn.flat_shape xsh = [dn_B RN k; dn_I RN k] ->
  Forall (entry_ok RN c) p ->
  shifted (undelayed c) p K = (x0, inj0) :: q ->
  Inv RN (undelayed c) s0 q ->
  exists (s0' : synR) (out : list (T RN)),
    dense_forward RN (dense_part k kk K) (undelayed c) s0 xsh x0 inj0 =
    (s0', SOk (dn_B RN k :: dn_out RN k, out)) /\
    (forall b o : nat,
     (b < dn_B RN k)%nat ->
     (o < dn_O RN k)%nat ->
     nth (b * dn_O RN k + o) out 0 = undelayed_part c p (dn_w RN k) kk (dn_I RN k) K b o).
Proof. exact (@Inferno.C06.ClosedShift.undelayed_part_is_undelayed_forward). Qed.
Print Assumptions undelayed_part_is_undelayed_forward.
