(* Obligation C06/tie_LinearLateral_forward.  Statement as printed by Coq from Inferno.C05.GenTieLinearLateral; proof by reference.
   This file contains nothing else, so the statement cannot be weakened quietly. *)
From Coq Require Import List ZArith Bool String Arith.
From Inferno Require Import Base.Num Gen.ConnectionClasses C05.Conn C05.ConnPatterns C05.GenTieLinearLateral.
Import ListNotations.
Open Scope string_scope.
Theorem tie_LinearLateral_forward : LinearLateral_forward_patterns = [] /\
  LinearLateral_forward_params = ["*inputs"; "**kwargs"] /\
  LinearLateral_forward_is_property = false /\
  LinearLateral_forward =
  [SReturn
     (AMeth (AVar "LinearDense") "forward"
        [AVar "self"; AStar (AVar "inputs"); AKwStar (AVar "kwargs")])].
Proof. exact (@Inferno.C05.GenTieLinearLateral.tie_LinearLateral_forward). Qed.
Print Assumptions tie_LinearLateral_forward.
