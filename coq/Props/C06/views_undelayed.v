(* Obligation C06/views_undelayed.  Statement as printed by Coq from Inferno.C06.ViewProofs; proof by reference.
   This file contains nothing else, so the statement cannot be weakened quietly. *)
From Coq Require Import List ZArith Bool Arith Lia Reals Lra.
From Flocq Require Import Core.Raux Core.Generic_fmt.
From Inferno Require Import Base.Num Base.NumR Gen.Infra Gen.Interpolation C01.Ring C01.RingProofs C04.Synapse C04.HistProofs C04.ClosedForms C04.SelectProofs C04.SynapseProofs C06.Delay C06.DelaySpec C06.ViewProofs.
From Inferno Require C05.Conn C05.ConnSpec.
Import ListNotations.
Open Scope R_scope.
Theorem views_undelayed : forall (c : cfgR) (s : synR) (p : pastR),
  Inv RN c s p ->
  forall (h : bool) (sel : view RN),
  takes_delayed RN c h = false ->
  syncurrent RN c s h sel = SOk (cshape RN c, cur_out RN c p) /\
  synspike RN c s h sel = SOk (cshape RN c, spike_hist RN c p 0).
Proof. exact (@Inferno.C06.ViewProofs.views_undelayed). Qed.
Print Assumptions views_undelayed.
