(* Obligation C06/direct_reachable_forward_is_shift.  Statement as printed by Coq from Inferno.C06.ReachProofs; proof by reference.
   This file contains nothing else, so the statement cannot be weakened quietly. *)
From Coq Require Import List ZArith Bool Arith Lia Reals Lra.
From Flocq Require Import Core.Raux Core.Generic_fmt.
From Inferno Require Import Base.Num Base.NumR Gen.Infra Gen.Interpolation C01.Ring C01.RingProofs C04.Synapse C04.HistProofs C04.ClosedForms C04.SelectProofs C04.SynapseProofs C06.Delay C06.DelaySpec C06.DecompSpec C06.ReachProofs.
From Inferno Require C05.Conn C05.ConnSpec.
Import ListNotations.
Open Scope R_scope.
Theorem direct_reachable_forward_is_shift : forall (k0 : conn RN) (c : cfgR) (ops : list (cop RN)),
  cfg_ok c ->
  RunProofs.cops_ok RN k0 ops ->
  forall (k : direct RN) (d : list R) (kk : nat -> nat) (xsh : list nat) 
    (xs : list (T RN)) (inj : list (list (T RN))),
  cshape RN c = [dr_B RN k; dr_n RN k] ->
  length (dr_w RN k) = dr_n RN k ->
  bias_ok (dr_n RN k) (dr_b RN k) ->
  (0 < dr_n RN k)%nat ->
  Conn.flat_shape xsh = [dr_B RN k; dr_n RN k] ->
  entry_ok RN c (xs, inj) ->
  dr_d RN k = Some d ->
  cdelay RN c <> 0 ->
  (forall j : nat, (j < dr_n RN k)%nat -> on_grid_delay c (nth j d 0) (kk j)) ->
  exists (s' : synR) (out : list (T RN)),
    direct_forward RN k c (snd (fst (crun RN c (k0, init RN c) ops))) xsh xs inj =
    (s', SOk (dr_B RN k :: dr_shape RN k, out)) /\
    (forall b j : nat,
     (b < dr_B RN k)%nat ->
     (j < dr_n RN k)%nat ->
     nth (b * dr_n RN k + j) out 0 =
     nth j (dr_w RN k) 0 *
     value_ago c ((xs, inj) :: RunProofs.conn_history_run RN c k0 [] ops) 
       (kk j) (b * dr_n RN k + j) + bias_at (dr_b RN k) j).
Proof. exact (@Inferno.C06.ReachProofs.direct_reachable_forward_is_shift). Qed.
Print Assumptions direct_reachable_forward_is_shift.
