(* Obligation C06/dense_step_uses_delays_in_force.  Statement as printed by Coq from Inferno.C06.ReachProofs; proof by reference.
   This file contains nothing else, so the statement cannot be weakened quietly. *)
From Coq Require Import List ZArith Bool Arith Lia Reals Lra.
From Flocq Require Import Core.Raux Core.Generic_fmt.
From Inferno Require Import Base.Num Base.NumR Gen.Infra Gen.Interpolation C01.Ring C01.RingProofs C04.Synapse C04.HistProofs C04.ClosedForms C04.SelectProofs C04.SynapseProofs C06.Delay C06.DelaySpec C06.DecompSpec C06.ReachProofs.
From Inferno Require C05.Conn C05.ConnSpec.
Import ListNotations.
Open Scope R_scope.
Theorem dense_step_uses_delays_in_force : forall (k : dense RN) (d0 : list (list R)) (c : cfgR) (ops : list (cop RN)) 
    (xsh : list nat) (xs : list (T RN)) (inj : list (list (T RN))) 
    (kk : nat -> nat -> nat),
  cfg_ok c ->
  RunProofs.cops_ok RN (CDense RN (dense_with_delay k d0)) ops ->
  cshape RN c = [dn_B RN k; dn_I RN k] ->
  is_mat (dn_O RN k) (dn_I RN k) (dn_w RN k) ->
  bias_ok (dn_O RN k) (dn_b RN k) ->
  (0 < dn_O RN k)%nat ->
  Conn.flat_shape xsh = [dn_B RN k; dn_I RN k] ->
  entry_ok RN c (xs, inj) ->
  cdelay RN c <> 0 ->
  let start := (CDense RN (dense_with_delay k d0), init RN c) in
  let d := dense_delay_in_force k d0 ops in
  let p := RunProofs.conn_history_run RN c (CDense RN (dense_with_delay k d0)) [] ops in
  (forall o i : nat,
   (o < dn_O RN k)%nat -> (i < dn_I RN k)%nat -> on_grid_delay c (mat_at d o i) (kk o i)) ->
  exists out : list (T RN),
    snd (crun RN c start (ops ++ [KStep RN xsh xs inj])) =
    snd (crun RN c start ops) ++ [COFloat RN (dn_B RN k :: dn_out RN k, out)] /\
    (forall b o : nat,
     (b < dn_B RN k)%nat ->
     (o < dn_O RN k)%nat ->
     nth (b * dn_O RN k + o) out 0 =
     Rsum (dn_I RN k)
       (fun i : nat =>
        mat_at (dn_w RN k) o i * value_ago c ((xs, inj) :: p) (kk o i) (b * dn_I RN k + i)) +
     bias_at (dn_b RN k) o).
Proof. exact (@Inferno.C06.ReachProofs.dense_step_uses_delays_in_force). Qed.
Print Assumptions dense_step_uses_delays_in_force.
