(* Obligation C06/tie_Conv2D_selector.  Statement as printed by Coq from Inferno.C05.GenTieConv2D; proof by reference.
   This file contains nothing else, so the statement cannot be weakened quietly. *)
From Coq Require Import List ZArith Bool String Arith.
From Inferno Require Import Base.Num Gen.ConnectionClasses C05.Conn C05.ConnPatterns C05.GenTieConv2D.
Import ListNotations.
Open Scope string_scope.
Theorem tie_Conv2D_selector : Conv2D_selector_patterns = [pat_Conv2D_selector] /\
  Conv2D_selector_params = [] /\
  Conv2D_selector_is_property = true /\
  Conv2D_selector =
  [SIf (ACmp "is not" (ASelf "delayedby") ANone) [SAssign "delays" (ASelf "delay")]
     [SAssign "delays" (ACall "torch.zeros_like" [ASelf "weight"])];
   SReturn
     (AMeth (ACall "ein.rearrange" [AVar "delays"; AStr pat_Conv2D_selector]) "expand"
        [ASelf "batchsz"; AInt (-1); ASub (AAttr (ASelf "synapse") "shape") (AInt (-1));
         AInt (-1)])].
Proof. exact (@Inferno.C05.GenTieConv2D.tie_Conv2D_selector). Qed.
Print Assumptions tie_Conv2D_selector.
