(* Obligation C06/direct_after_run.  Statement as printed by Coq from Inferno.C06.ReachProofs; proof by reference.
   This file contains nothing else, so the statement cannot be weakened quietly. *)
From Coq Require Import List ZArith Bool Arith Lia Reals Lra.
From Flocq Require Import Core.Raux Core.Generic_fmt.
From Inferno Require Import Base.Num Base.NumR Gen.Infra Gen.Interpolation C01.Ring C01.RingProofs C04.Synapse C04.HistProofs C04.ClosedForms C04.SelectProofs C04.SynapseProofs C06.Delay C06.DelaySpec C06.DecompSpec C06.ReachProofs.
From Inferno Require C05.Conn C05.ConnSpec.
Import ListNotations.
Open Scope R_scope.
Theorem direct_after_run : forall (k : direct RN) (ops : list (cop RN)) (d : list R),
  fold_left (RunProofs.conn_after RN) ops (CDirect RN (direct_with_delay k d)) =
  CDirect RN (direct_with_delay k (direct_delay_in_force d ops)).
Proof. exact (@Inferno.C06.ReachProofs.direct_after_run). Qed.
Print Assumptions direct_after_run.
