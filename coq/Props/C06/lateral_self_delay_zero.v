(* Obligation C06/lateral_self_delay_zero.  Statement as printed by Coq from Inferno.C06.DenseShift; proof by reference.
   This file contains nothing else, so the statement cannot be weakened quietly. *)
From Coq Require Import List ZArith Bool Arith Lia Reals Lra.
From Flocq Require Import Core.Raux Core.Generic_fmt.
From Inferno Require Import Base.Num Base.NumR Gen.Infra Gen.Interpolation C01.Ring C01.RingProofs C04.Synapse C04.HistProofs C04.ClosedForms C04.SelectProofs C04.SynapseProofs C06.Delay C06.DelaySpec C06.DenseShift.
From Inferno Require C05.Conn C05.ConnSpec.
Import ListNotations.
Open Scope R_scope.
Theorem lateral_self_delay_zero : forall l : Conn.lat RN,
  ConnSpec.lat_inv l ->
  forall d : list (list R), Conn.l_d RN l = Some d -> forall o : nat, mat_at d o o = 0.
Proof. exact (@Inferno.C06.DenseShift.lateral_self_delay_zero). Qed.
Print Assumptions lateral_self_delay_zero.
