(* Obligation C06/Rsum_swap.  Statement as printed by Coq from Inferno.C06.ClosedShift; proof by reference.
   This file contains nothing else, so the statement cannot be weakened quietly. *)
From Coq Require Import List ZArith Bool Arith Lia Reals Lra.
From Flocq Require Import Core.Raux Core.Generic_fmt.
From Inferno Require Import Base.Num Base.NumR Gen.Infra Gen.Interpolation C01.Ring C01.RingProofs C04.Synapse C04.HistProofs C04.ClosedForms C04.SelectProofs C04.SynapseProofs C06.Delay C06.DelaySpec C06.ClosedShift.
From Inferno Require C05.Conn C05.ConnSpec.
Import ListNotations.
Open Scope R_scope.
Theorem Rsum_swap : forall (n m : nat) (f : nat -> nat -> R),
  Rsum n (fun a : nat => Rsum m (fun b : nat => f a b)) =
  Rsum m (fun b : nat => Rsum n (fun a : nat => f a b)).
Proof. exact (@Inferno.C06.ClosedShift.Rsum_swap). Qed.
Print Assumptions Rsum_swap.
