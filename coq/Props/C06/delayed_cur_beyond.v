(* Obligation C06/delayed_cur_beyond.  Statement as printed by Coq from Inferno.C06.ReadProofs; proof by reference.
   This file contains nothing else, so the statement cannot be weakened quietly. *)
From Coq Require Import List ZArith Bool Arith Lia Reals Lra.
From Flocq Require Import Core.Raux Core.Generic_fmt.
From Inferno Require Import Base.Num Base.NumR Gen.Infra Gen.Interpolation C01.Ring C01.RingProofs C04.Synapse C04.HistProofs C04.ClosedForms C04.SelectProofs C04.SynapseProofs C06.Delay C06.DelaySpec C06.ReadProofs.
From Inferno Require C05.Conn C05.ConnSpec.
Import ListNotations.
Open Scope R_scope.
Theorem delayed_cur_beyond : forall (c : cfgR) (p : pastR),
  cfg_ok c ->
  forall (e : nat) (t : R),
  cdelay RN c + ctol RN c < t ->
  delayed_cur c p e t =
  match ccur_ob RN c with
  | Some o => o
  | None => past_cur c p e (cdelay RN c)
  end.
Proof. exact (@Inferno.C06.ReadProofs.delayed_cur_beyond). Qed.
Print Assumptions delayed_cur_beyond.
