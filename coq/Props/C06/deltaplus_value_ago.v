(* Obligation C06/deltaplus_value_ago.  Statement as printed by Coq from Inferno.C06.ConvPixel; proof by reference.
   This file contains nothing else, so the statement cannot be weakened quietly. *)
From Coq Require Import List ZArith Bool Arith Lia Reals Lra.
From Flocq Require Import Core.Raux Core.Generic_fmt.
From Inferno Require Import Base.Num Base.NumR Gen.Infra Gen.Interpolation C01.Ring C01.RingProofs C04.Synapse C04.HistProofs C04.ClosedForms C04.SelectProofs C04.SynapseProofs C06.Delay C06.DelaySpec C06.ConvPixel.
From Inferno Require C05.Conn C05.ConnSpec.
Import ListNotations.
Open Scope R_scope.
Theorem deltaplus_value_ago : forall (c : cfgR) (p : pastR) (k e : nat),
  ckind RN c = KDeltaPlus ->
  no_injection p k -> value_ago c p k e = input_ago p k e * (cQ RN c / cdt RN c).
Proof. exact (@Inferno.C06.ConvPixel.deltaplus_value_ago). Qed.
Print Assumptions deltaplus_value_ago.
