(* Obligation C06/cstep_inv.  Statement as printed by Coq from Inferno.C06.RunProofs; proof by reference.
   This file contains nothing else, so the statement cannot be weakened quietly. *)
From Coq Require Import List ZArith Bool Arith Lia Reals Lra.
From Flocq Require Import Core.Raux Core.Generic_fmt.
From Inferno Require Import Base.Num Base.NumR Gen.Infra Gen.Interpolation C01.Ring C01.RingProofs C04.Synapse C04.HistProofs C04.ClosedForms C04.SelectProofs C04.SynapseProofs C06.Delay C06.DelaySpec C06.RunProofs.
From Inferno Require C05.Conn C05.ConnSpec.
Import ListNotations.
Open Scope R_scope.
Theorem cstep_inv : forall (NM : Num) (c : cfg NM) (k : conn NM) (s : syn NM) (p : past NM) (o : cop NM),
  Inv NM c s p ->
  cop_ok NM k o -> Inv NM c (snd (fst (cstep NM c (k, s) o))) (conn_history NM c k p o).
Proof. exact (@Inferno.C06.RunProofs.cstep_inv). Qed.
Print Assumptions cstep_inv.
