(* Obligation C06/conv_delayed_forward_is_shifted_crosscorrelation.  Statement as printed by Coq from Inferno.C06.ConvPixel; proof by reference.
   This file contains nothing else, so the statement cannot be weakened quietly. *)
From Coq Require Import List ZArith Bool Arith Lia Reals Lra.
From Flocq Require Import Core.Raux Core.Generic_fmt.
From Inferno Require Import Base.Num Base.NumR Gen.Infra Gen.Interpolation C01.Ring C01.RingProofs C04.Synapse C04.HistProofs C04.ClosedForms C04.SelectProofs C04.SynapseProofs C06.Delay C06.DelaySpec C06.ConvPixel.
From Inferno Require C05.Conn C05.ConnSpec.
Import ListNotations.
Open Scope R_scope.
Theorem conv_delayed_forward_is_shifted_crosscorrelation : forall (k : conv RN) (c : cfgR) (s : synR) (p : pastR),
  Inv RN c s p ->
  cfg_ok c ->
  cshape RN c = [cv_B RN k; cv_N RN k; cv_L RN k] ->
  is_mat (cv_F RN k) (cv_N RN k) (Conn.flatten_kernel RN (cv_w RN k)) ->
  ConnSpec.wf_kernel (cv_g RN k) (cv_w RN k) ->
  bias_ok (cv_F RN k) (cv_b RN k) ->
  (0 <= Conn.gC (cv_g RN k))%Z /\
  (0 <= Conn.gH (cv_g RN k))%Z /\
  (0 <= Conn.gW (cv_g RN k))%Z /\
  (0 < Conn.outH RN (cv_g RN k))%Z /\ (0 < Conn.outW RN (cv_g RN k))%Z ->
  forall (xs : list R) (inj : list (list R)),
  entry_ok RN c (ConvProofs.conv_unfolded k xs, map (ConvProofs.conv_unfolded k) inj) ->
  forall d : kernel4 RN,
  cv_d RN k = Some d ->
  cdelay RN c <> 0 ->
  forall kk : nat -> nat -> nat -> nat -> nat,
  (forall f cc i j : nat,
   (f < cv_F RN k)%nat ->
   (cc < Z.to_nat (Conn.gC (cv_g RN k)))%nat ->
   (i < Z.to_nat (Conn.kH (cv_g RN k)))%nat ->
   (j < Z.to_nat (Conn.kW (cv_g RN k)))%nat ->
   on_grid_delay c
     (mat_at (Conn.flatten_kernel RN d) f
        ((cc * Z.to_nat (Conn.kH (cv_g RN k)) + i) * Z.to_nat (Conn.kW (cv_g RN k)) + j))
     (kk f cc i j)) ->
  exists (s' : synR) (out : list (T RN)),
    conv_forward RN k c s
      [cv_B RN k; Z.to_nat (Conn.gC (cv_g RN k)); Z.to_nat (Conn.gH (cv_g RN k));
       Z.to_nat (Conn.gW (cv_g RN k))] xs inj =
    (s', SOk ([cv_B RN k; cv_F RN k; cv_HO RN k; cv_WO RN k], out)) /\
    (forall b f oh ow : nat,
     (b < cv_B RN k)%nat ->
     (f < cv_F RN k)%nat ->
     (oh < cv_HO RN k)%nat ->
     (ow < cv_WO RN k)%nat ->
     nth (((b * cv_F RN k + f) * cv_HO RN k + oh) * cv_WO RN k + ow) out 0 =
     bias_at (cv_b RN k) f +
     Rsum (Z.to_nat (Conn.gC (cv_g RN k)))
       (fun cc : nat =>
        Rsum (Z.to_nat (Conn.kH (cv_g RN k)))
          (fun i : nat =>
           Rsum (Z.to_nat (Conn.kW (cv_g RN k)))
             (fun j : nat =>
              ConnSpec.w4 (cv_w RN k) f cc i j *
              value_ago c
                ((ConvProofs.conv_unfolded k xs, map (ConvProofs.conv_unfolded k) inj) :: p)
                (kk f cc i j) (syn_index k b cc i j oh ow))))).
Proof. exact (@Inferno.C06.ConvPixel.conv_delayed_forward_is_shifted_crosscorrelation). Qed.
Print Assumptions conv_delayed_forward_is_shifted_crosscorrelation.
