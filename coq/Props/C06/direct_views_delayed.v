(* Obligation C06/direct_views_delayed.  Statement as printed by Coq from Inferno.C06.DirectProofs; proof by reference.
   This file contains nothing else, so the statement cannot be weakened quietly. *)
From Coq Require Import List ZArith Bool Arith Lia Reals Lra.
From Flocq Require Import Core.Raux Core.Generic_fmt.
From Inferno Require Import Base.Num Base.NumR Gen.Infra Gen.Interpolation C01.Ring C01.RingProofs C04.Synapse C04.HistProofs C04.ClosedForms C04.SelectProofs C04.SynapseProofs C06.Delay C06.DelaySpec C06.DirectProofs.
From Inferno Require C05.Conn C05.ConnSpec.
Import ListNotations.
Open Scope R_scope.
Theorem direct_views_delayed : forall (k : direct RN) (c : cfgR) (s : synR) (p : pastR),
  Inv RN c s p ->
  cfg_ok c ->
  cshape RN c = [dr_B RN k; dr_n RN k] ->
  length (dr_w RN k) = dr_n RN k ->
  (0 < dr_n RN k)%nat ->
  forall d : list (T RN),
  dr_d RN k = Some d ->
  cdelay RN c <> 0 ->
  exists vc vs : list (T RN),
    syncurrent RN c s (has (dr_d RN k)) (direct_selector RN k) =
    SOk ([dr_B RN k; dr_n RN k; 1%nat], vc) /\
    synspike RN c s (has (dr_d RN k)) (direct_selector RN k) =
    SOk ([dr_B RN k; dr_n RN k; 1%nat], vs) /\
    (forall b j : nat,
     (b < dr_B RN k)%nat ->
     (j < dr_n RN k)%nat ->
     nth (b * dr_n RN k + j) vc 0 = delayed_cur c p (b * dr_n RN k + j) (nth j d 0) /\
     nth (b * dr_n RN k + j) vs 0 = delayed_spk c p (b * dr_n RN k + j) (nth j d 0)).
Proof. exact (@Inferno.C06.DirectProofs.direct_views_delayed). Qed.
Print Assumptions direct_views_delayed.
