(* Obligation C06/tie_LinearDirect_forward.  Statement as printed by Coq from Inferno.C05.GenTieLinearDirect; proof by reference.
   This file contains nothing else, so the statement cannot be weakened quietly. *)
From Coq Require Import List ZArith Bool String Arith.
From Inferno Require Import Base.Num Gen.ConnectionClasses C05.Conn C05.ConnPatterns C05.GenTieLinearDirect.
Import ListNotations.
Open Scope string_scope.
Theorem tie_LinearDirect_forward : LinearDirect_forward_patterns = [pat_LinearDirect_forward] /\
  LinearDirect_forward_params = ["*inputs"; "**kwargs"] /\
  LinearDirect_forward_is_property = false /\
  LinearDirect_forward =
  [SAssign "res"
     (AMeth (AVar "self") "synapse"
        [AStar (AGen (AMeth (AVar "self") "like_synaptic" [AVar "inp"]) "inp" (AVar "inputs"));
         AKwStar (AVar "kwargs")]);
   SIf (ASelf "delayedby")
     [SAssign "res"
        (ACall "ein.rearrange" [ASelf "syncurrent"; AStr pat_LinearDirect_forward])] [];
   SIf (ASelf "biased")
     [SAssign "res" (ABin "+" (ABin "*" (AVar "res") (ASelf "weight")) (ASelf "bias"))]
     [SAssign "res" (ABin "*" (AVar "res") (ASelf "weight"))];
   SReturn (AMeth (AVar "res") "view" [AInt (-1); AStar (ASelf "outshape")])].
Proof. exact (@Inferno.C05.GenTieLinearDirect.tie_LinearDirect_forward). Qed.
Print Assumptions tie_LinearDirect_forward.
