(* Obligation C06/delta_value_ago_spike_ago.  Statement as printed by Coq from Inferno.C06.ReadProofs; proof by reference.
   This file contains nothing else, so the statement cannot be weakened quietly. *)
From Coq Require Import List ZArith Bool Arith Lia Reals Lra.
From Flocq Require Import Core.Raux Core.Generic_fmt.
From Inferno Require Import Base.Num Base.NumR Gen.Infra Gen.Interpolation C01.Ring C01.RingProofs C04.Synapse C04.HistProofs C04.ClosedForms C04.SelectProofs C04.SynapseProofs C06.Delay C06.DelaySpec C06.ReadProofs.
From Inferno Require C05.Conn C05.ConnSpec.
Import ListNotations.
Open Scope R_scope.
Theorem delta_value_ago_spike_ago : forall (c : cfgR) (p : pastR) (k e : nat),
  ckind RN c = KDelta -> value_ago c p k e = spike_ago c p k e * (cQ RN c / cdt RN c).
Proof. exact (@Inferno.C06.ReadProofs.delta_value_ago_spike_ago). Qed.
Print Assumptions delta_value_ago_spike_ago.
