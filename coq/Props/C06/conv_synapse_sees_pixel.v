(* Obligation C06/conv_synapse_sees_pixel.  Statement as printed by Coq from Inferno.C06.ConvPixel; proof by reference.
   This file contains nothing else, so the statement cannot be weakened quietly. *)
From Coq Require Import List ZArith Bool Arith Lia Reals Lra.
From Flocq Require Import Core.Raux Core.Generic_fmt.
From Inferno Require Import Base.Num Base.NumR Gen.Infra Gen.Interpolation C01.Ring C01.RingProofs C04.Synapse C04.HistProofs C04.ClosedForms C04.SelectProofs C04.SynapseProofs C06.Delay C06.DelaySpec C06.ConvPixel.
From Inferno Require C05.Conn C05.ConnSpec.
Import ListNotations.
Open Scope R_scope.
Theorem conv_synapse_sees_pixel : forall (k : conv RN) (xs : list R) (b cc i j oh ow : nat),
  (b < cv_B RN k)%nat ->
  (cc < Z.to_nat (Conn.gC (cv_g RN k)))%nat ->
  (i < Z.to_nat (Conn.kH (cv_g RN k)))%nat ->
  (j < Z.to_nat (Conn.kW (cv_g RN k)))%nat ->
  (oh < cv_HO RN k)%nat ->
  (ow < cv_WO RN k)%nat ->
  nth (syn_index k b cc i j oh ow) (ConvProofs.conv_unfolded k xs) 0 =
  ConnSpec.xp (cv_g RN k) (image_of k xs b) cc (ConnSpec.rowpos (cv_g RN k) oh i)
    (ConnSpec.colpos (cv_g RN k) ow j).
Proof. exact (@Inferno.C06.ConvPixel.conv_synapse_sees_pixel). Qed.
Print Assumptions conv_synapse_sees_pixel.
