(* Obligation C06/nonvacuous: the hypotheses of the C06 theorems are met by a concrete, non-trivial configuration -
   a 2 -> 2 LinearDense on a DeltaPlusCurrent synapse (dt = 1, maximum delay 2), heterogeneous on-grid delays
   [[0; 1]; [2; 0]], reached from the constructor by two real forward steps - and the shifted values the theorems
   speak about are the expected concrete numbers (so the statements are not about an empty class). *)
From Coq Require Import List ZArith Bool Arith Lia Reals Lra.
From Flocq Require Import Core.Raux Core.Generic_fmt.
From Inferno Require Import Base.Num Base.NumR Gen.Infra Gen.Interpolation C01.Ring C01.RingProofs C04.Synapse C04.HistProofs
  C04.ClosedForms C04.SelectProofs C04.SynapseProofs C06.Delay C06.DelaySpec C06.RunProofs.
From Inferno Require C05.Conn C05.ConnSpec.
Import ListNotations.
Open Scope R_scope.

Definition c0 : cfgR := mkCfg RN KDeltaPlus [1%nat; 2%nat] 1 2 1 1 1 IPrevious 0 (Some 0) (Some false) false.
Definition k0 : dense RN := mkDense RN [2%nat] [2%nat] 1 [[1; 2]; [3; 4]] None (Some [[0; 1]; [2; 0]]).
Definition d0 : list (list R) := [[0; 1]; [2; 0]].
Definition kk0 (o i : nat) : nat := match o, i with 0%nat, 1%nat => 1%nat | 1%nat, 0%nat => 2%nat | _, _ => 0%nat end.
Definition ops0 : list (cop RN) := [KStep RN [1%nat; 2%nat] [1; 0] []; KSynCurrent RN; KStep RN [1%nat; 2%nat] [0; 1] []].
Definition st0 := fst (crun RN c0 (CDense RN k0, init RN c0) ops0).
Definition p0 : pastR := [([0; 1], []); ([1; 0], [])].
(* the history seen by the third step *)
Definition p0' : pastR := ([1; 1], []) :: p0.

Theorem nonvacuous :
  cfg_ok c0 /\ cops_ok RN (CDense RN k0) ops0 /\ conn_history_run RN c0 (CDense RN k0) [] ops0 = p0 /\
  Inv RN c0 (snd st0) p0 /\
  cshape RN c0 = [dn_B RN k0; dn_I RN k0] /\ is_mat (dn_O RN k0) (dn_I RN k0) (dn_w RN k0) /\ bias_ok (dn_O RN k0) (dn_b RN k0) /\
  (0 < dn_O RN k0)%nat /\ Conn.flat_shape [1%nat; 2%nat] = [dn_B RN k0; dn_I RN k0] /\ entry_ok RN c0 ([1; 1], []) /\
  dn_d RN k0 = Some d0 /\ cdelay RN c0 <> 0 /\
  (forall o i, (o < dn_O RN k0)%nat -> (i < dn_I RN k0)%nat -> on_grid_delay c0 (mat_at d0 o i) (kk0 o i)) /\
  (* synapse 1 one step ago carried the spike of step 2, synapse 0 two steps ago the spike of step 1, three steps ago: rest *)
  value_ago c0 p0' 1 1 = 1 /\ value_ago c0 p0' 2 0 = 1 /\ value_ago c0 p0' 0 0 = 1 /\ value_ago c0 p0' 3 0 = 0.
Proof.
  assert (Hok : cops_ok RN (CDense RN k0) ops0).
  { cbn. repeat split; constructor. }
  split; [unfold cfg_ok; cbn; lra|]. split; [exact Hok|]. split; [reflexivity|].
  split; [exact (crun_inv_init RN c0 (CDense RN k0) ops0 Hok)|].
  split; [reflexivity|]. split; [split; [reflexivity|]; intros r [<-|[<-|[]]]; reflexivity|].
  split; [intros bv E; discriminate|]. split; [cbn; lia|]. split; [reflexivity|].
  split; [split; [reflexivity|constructor]|]. split; [reflexivity|]. split; [cbn; lra|].
  split.
  - intros o i Ho Hi. cbn in Ho, Hi.
    assert (Hz : Rabs 0 <= 0) by (rewrite Rabs_R0; lra).
    destruct o as [|[|o]]; destruct i as [|[|i]]; try lia; unfold on_grid_delay, ConnSpec.mat_at, kk0, d0; cbn [nth INR cdelay cdt ctol c0].
    + split; [lra|]. replace (0 * 1 - 0) with 0 by ring. exact Hz.
    + split; [lra|]. replace (1 * 1 - 1) with 0 by ring. exact Hz.
    + split; [lra|]. replace ((1 + 1) * 1 - 2) with 0 by ring. exact Hz.
    + split; [lra|]. replace (0 * 1 - 0) with 0 by ring. exact Hz.
  - unfold value_ago, cur_out, p0', p0, zrow. cbn. rn_simpl. repeat split; lra.
Qed.
Print Assumptions nonvacuous.
