(* Obligation C06/read_spk_is_delayed_spk.  Statement as printed by Coq from Inferno.C06.ReadProofs; proof by reference.
   This file contains nothing else, so the statement cannot be weakened quietly. *)
From Coq Require Import List ZArith Bool Arith Lia Reals Lra.
From Flocq Require Import Core.Raux Core.Generic_fmt.
From Inferno Require Import Base.Num Base.NumR Gen.Infra Gen.Interpolation C01.Ring C01.RingProofs C04.Synapse C04.HistProofs C04.ClosedForms C04.SelectProofs C04.SynapseProofs C06.Delay C06.DelaySpec C06.ReadProofs.
From Inferno Require C05.Conn C05.ConnSpec.
Import ListNotations.
Open Scope R_scope.
Theorem read_spk_is_delayed_spk : forall (c : cfgR) (s : synR) (p : pastR),
  Inv RN c s p ->
  cfg_ok c ->
  forall (e : nat) (t : R),
  boolify RN
    (read_one (spk_sel c s) (cdelay RN c) (ctol RN c) (option_map (b2t RN) (cspk_ob RN c)) e t) =
  delayed_spk c p e t.
Proof. exact (@Inferno.C06.ReadProofs.read_spk_is_delayed_spk). Qed.
Print Assumptions read_spk_is_delayed_spk.
