(* Obligation C06/lateral_delayed_eq_sum_of_undelayed_connections.  Statement as printed by Coq from Inferno.C06.DecompProofs; proof by reference.
   This file contains nothing else, so the statement cannot be weakened quietly. *)
From Coq Require Import List ZArith Bool Arith Lia Reals Lra.
From Flocq Require Import Core.Raux Core.Generic_fmt.
From Inferno Require Import Base.Num Base.NumR Gen.Infra Gen.Interpolation C01.Ring C01.RingProofs C04.Synapse C04.HistProofs C04.ClosedForms C04.SelectProofs C04.SynapseProofs C06.Delay C06.DelaySpec C06.DecompSpec C06.DecompProofs.
From Inferno Require C05.Conn C05.ConnSpec.
Import ListNotations.
Open Scope R_scope.
Theorem lateral_delayed_eq_sum_of_undelayed_connections : forall (l : Conn.lat RN) (c : cfgR) (s : synR) (p : pastR) (xsh : list nat)
    (xs : list (T RN)) (inj d : list (list (T RN))) (kk : nat -> nat -> nat) 
    (Kmax : nat),
  Inv RN c s p ->
  cfg_ok c ->
  cshape RN c = [Conn.l_B RN l; Conn.l_n RN l] ->
  is_mat (Conn.l_n RN l) (Conn.l_n RN l) (Conn.l_w RN l) ->
  bias_ok (Conn.l_n RN l) (Conn.l_b RN l) ->
  (0 < Conn.l_n RN l)%nat ->
  Conn.flat_shape xsh = [Conn.l_B RN l; Conn.l_n RN l] ->
  entry_ok RN c (xs, inj) ->
  Conn.l_d RN l = Some d ->
  cdelay RN c <> 0 ->
  (forall o i : nat,
   (o < Conn.l_n RN l)%nat ->
   (i < Conn.l_n RN l)%nat -> on_grid_delay c (mat_at d o i) (kk o i) /\ (kk o i <= Kmax)%nat) ->
  exists (s' : synR) (out : list (T RN)),
    dense_forward RN (lat_dense RN l) c s xsh xs inj =
    (s', SOk (Conn.l_B RN l :: Conn.l_shape RN l, out)) /\
    (forall b o : nat,
     (b < Conn.l_B RN l)%nat ->
     (o < Conn.l_n RN l)%nat ->
     nth (b * Conn.l_n RN l + o) out 0 =
     bias_at (Conn.l_b RN l) o +
     Rsum (S Kmax)
       (fun K : nat =>
        undelayed_part c ((xs, inj) :: p) (Conn.l_w RN l) kk (Conn.l_n RN l) K b o)).
Proof. exact (@Inferno.C06.DecompProofs.lateral_delayed_eq_sum_of_undelayed_connections). Qed.
Print Assumptions lateral_delayed_eq_sum_of_undelayed_connections.
