(* Obligation C06/lateral_part_diag_zero.  Statement as printed by Coq from Inferno.C06.DecompProofs; proof by reference.
   This file contains nothing else, so the statement cannot be weakened quietly. *)
From Coq Require Import List ZArith Bool Arith Lia Reals Lra.
From Flocq Require Import Core.Raux Core.Generic_fmt.
From Inferno Require Import Base.Num Base.NumR Gen.Infra Gen.Interpolation C01.Ring C01.RingProofs C04.Synapse C04.HistProofs C04.ClosedForms C04.SelectProofs C04.SynapseProofs C06.Delay C06.DelaySpec C06.DecompSpec C06.DecompProofs.
From Inferno Require C05.Conn C05.ConnSpec.
Import ListNotations.
Open Scope R_scope.
Theorem lateral_part_diag_zero : forall (l : Conn.lat RN) (kk : nat -> nat -> nat) (K o : nat),
  ConnSpec.lat_inv l -> masked_weight (Conn.l_w RN l) kk K o o = 0.
Proof. exact (@Inferno.C06.DecompProofs.lateral_part_diag_zero). Qed.
Print Assumptions lateral_part_diag_zero.
