(* Obligation C06/shifted_entry_ok.  Statement as printed by Coq from Inferno.C06.ReadProofs; proof by reference.
   This file contains nothing else, so the statement cannot be weakened quietly. *)
From Coq Require Import List ZArith Bool Arith Lia Reals Lra.
From Flocq Require Import Core.Raux Core.Generic_fmt.
From Inferno Require Import Base.Num Base.NumR Gen.Infra Gen.Interpolation C01.Ring C01.RingProofs C04.Synapse C04.HistProofs C04.ClosedForms C04.SelectProofs C04.SynapseProofs C06.Delay C06.DelaySpec C06.ReadProofs.
From Inferno Require C05.Conn C05.ConnSpec.
Import ListNotations.
Open Scope R_scope.
Theorem shifted_entry_ok : forall (c : cfgR) (p : pastR) (k : nat),
  Forall (entry_ok RN c) p -> Forall (entry_ok RN (undelayed c)) (shifted (undelayed c) p k).
Proof. exact (@Inferno.C06.ReadProofs.shifted_entry_ok). Qed.
Print Assumptions shifted_entry_ok.
