(* Obligation C06/direct_delayed_eq_sum_of_undelayed_connections.  Statement as printed by Coq from Inferno.C06.DecompProofs; proof by reference.
   This file contains nothing else, so the statement cannot be weakened quietly. *)
From Coq Require Import List ZArith Bool Arith Lia Reals Lra.
From Flocq Require Import Core.Raux Core.Generic_fmt.
From Inferno Require Import Base.Num Base.NumR Gen.Infra Gen.Interpolation C01.Ring C01.RingProofs C04.Synapse C04.HistProofs C04.ClosedForms C04.SelectProofs C04.SynapseProofs C06.Delay C06.DelaySpec C06.DecompSpec C06.DecompProofs.
From Inferno Require C05.Conn C05.ConnSpec.
Import ListNotations.
Open Scope R_scope.
Theorem direct_delayed_eq_sum_of_undelayed_connections : forall (k : direct RN) (c : cfgR) (s : synR) (p : pastR) (xsh : list nat) 
    (xs : list (T RN)) (inj : list (list (T RN))) (d : list (T RN)) 
    (kk : nat -> nat) (Kmax : nat),
  Inv RN c s p ->
  cfg_ok c ->
  cshape RN c = [dr_B RN k; dr_n RN k] ->
  length (dr_w RN k) = dr_n RN k ->
  bias_ok (dr_n RN k) (dr_b RN k) ->
  (0 < dr_n RN k)%nat ->
  Conn.flat_shape xsh = [dr_B RN k; dr_n RN k] ->
  entry_ok RN c (xs, inj) ->
  dr_d RN k = Some d ->
  cdelay RN c <> 0 ->
  (forall j : nat,
   (j < dr_n RN k)%nat -> on_grid_delay c (nth j d 0) (kk j) /\ (kk j <= Kmax)%nat) ->
  exists (s' : synR) (out : list (T RN)),
    direct_forward RN k c s xsh xs inj = (s', SOk (dr_B RN k :: dr_shape RN k, out)) /\
    (forall b j : nat,
     (b < dr_B RN k)%nat ->
     (j < dr_n RN k)%nat ->
     nth (b * dr_n RN k + j) out 0 =
     bias_at (dr_b RN k) j +
     Rsum (S Kmax)
       (fun K : nat =>
        direct_undelayed_part c ((xs, inj) :: p) (dr_w RN k) kk (dr_n RN k) K b j)).
Proof. exact (@Inferno.C06.DecompProofs.direct_delayed_eq_sum_of_undelayed_connections). Qed.
Print Assumptions direct_delayed_eq_sum_of_undelayed_connections.
