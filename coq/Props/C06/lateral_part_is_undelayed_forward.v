(* Obligation C06/lateral_part_is_undelayed_forward.  Statement as printed by Coq from Inferno.C06.DecompProofs; proof by reference.
   This file contains nothing else, so the statement cannot be weakened quietly. *)
From Coq Require Import List ZArith Bool Arith Lia Reals Lra.
From Flocq Require Import Core.Raux Core.Generic_fmt.
From Inferno Require Import Base.Num Base.NumR Gen.Infra Gen.Interpolation C01.Ring C01.RingProofs C04.Synapse C04.HistProofs C04.ClosedForms C04.SelectProofs C04.SynapseProofs C06.Delay C06.DelaySpec C06.DecompSpec C06.DecompProofs.
From Inferno Require C05.Conn C05.ConnSpec.
Import ListNotations.
Open Scope R_scope.
Theorem lateral_part_is_undelayed_forward : forall (l : Conn.lat RN) (c : cfgR) (p : pastR) (xsh : list nat) 
    (kk : nat -> nat -> nat) (K : nat) (s0 : synR) (q : pastR) (x0 : list (T RN))
    (inj0 : list (list (T RN))),
  cshape RN c = [Conn.l_B RN l; Conn.l_n RN l] ->
  (0 < Conn.l_n RN l)%nat ->
  Conn.flat_shape xsh = [Conn.l_B RN l; Conn.l_n RN l] ->
  Forall (entry_ok RN c) p ->
  shifted (undelayed c) p K = (x0, inj0) :: q ->
  Inv RN (undelayed c) s0 q ->
  exists (s0' : synR) (out : list (T RN)),
    dense_forward RN (dense_part (lat_dense RN l) kk K) (undelayed c) s0 xsh x0 inj0 =
    (s0', SOk (Conn.l_B RN l :: Conn.l_shape RN l, out)) /\
    (forall b o : nat,
     (b < Conn.l_B RN l)%nat ->
     (o < Conn.l_n RN l)%nat ->
     nth (b * Conn.l_n RN l + o) out 0 =
     undelayed_part c p (Conn.l_w RN l) kk (Conn.l_n RN l) K b o).
Proof. exact (@Inferno.C06.DecompProofs.lateral_part_is_undelayed_forward). Qed.
Print Assumptions lateral_part_is_undelayed_forward.
