(* Obligation C06/tie_Conv2D_forward.  Statement as printed by Coq from Inferno.C05.GenTieConv2D; proof by reference.
   This file contains nothing else, so the statement cannot be weakened quietly. *)
From Coq Require Import List ZArith Bool String Arith.
From Inferno Require Import Base.Num Gen.ConnectionClasses C05.Conn C05.ConnPatterns C05.GenTieConv2D.
Import ListNotations.
Open Scope string_scope.
Theorem tie_Conv2D_forward : Conv2D_forward_patterns =
  [pat_Conv2D_forward_0; pat_Conv2D_forward_1; pat_Conv2D_forward_2; pat_Conv2D_forward_3;
   pat_Conv2D_forward_3; pat_Conv2D_forward_4] /\
  Conv2D_forward_params = ["*inputs"; "**kwargs"] /\
  Conv2D_forward_is_property = false /\
  Conv2D_forward =
  [SAssign "res"
     (AMeth (AVar "self") "synapse"
        [AStar (AGen (AMeth (AVar "self") "like_synaptic" [AVar "inp"]) "inp" (AVar "inputs"));
         AKwStar (AVar "kwargs")]);
   SAssign "kernel" (ACall "ein.rearrange" [ASelf "weight"; AStr pat_Conv2D_forward_0]);
   SIf (ASelf "delayedby")
     [SAssign "res" (ACall "ein.rearrange" [ASelf "syncurrent"; AStr pat_Conv2D_forward_1]);
      SAssign "res"
        (ACall "ein.rearrange"
           [ACall "ein.einsum" [AVar "kernel"; AVar "res"; AStr pat_Conv2D_forward_2];
            AStr pat_Conv2D_forward_3; AKw "oh" (ASelf "outheight");
            AKw "ow" (ASelf "outwidth")])]
     [SAssign "res"
        (ACall "ein.rearrange"
           [ACall "torch.matmul" [AVar "kernel"; AVar "res"]; AStr pat_Conv2D_forward_3;
            AKw "oh" (ASelf "outheight"); AKw "ow" (ASelf "outwidth")])];
   SIf (ASelf "biased")
     [SReturn
        (ABin "+" (AVar "res")
           (ACall "ein.rearrange" [ASelf "bias"; AStr pat_Conv2D_forward_4]))]
     [SReturn (AVar "res")]].
Proof. exact (@Inferno.C05.GenTieConv2D.tie_Conv2D_forward). Qed.
Print Assumptions tie_Conv2D_forward.
