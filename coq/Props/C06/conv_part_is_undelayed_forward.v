(* Obligation C06/conv_part_is_undelayed_forward.  Statement as printed by Coq from Inferno.C06.DecompProofs; proof by reference.
   This file contains nothing else, so the statement cannot be weakened quietly. *)
From Coq Require Import List ZArith Bool Arith Lia Reals Lra.
From Flocq Require Import Core.Raux Core.Generic_fmt.
From Inferno Require Import Base.Num Base.NumR Gen.Infra Gen.Interpolation C01.Ring C01.RingProofs C04.Synapse C04.HistProofs C04.ClosedForms C04.SelectProofs C04.SynapseProofs C06.Delay C06.DelaySpec C06.DecompSpec C06.DecompProofs.
From Inferno Require C05.Conn C05.ConnSpec.
Import ListNotations.
Open Scope R_scope.
Theorem conv_part_is_undelayed_forward : forall (k : conv RN) (c : cfgR),
  cshape RN c = [cv_B RN k; cv_N RN k; cv_L RN k] ->
  (0 <= Conn.gC (cv_g RN k))%Z /\
  (0 <= Conn.gH (cv_g RN k))%Z /\
  (0 <= Conn.gW (cv_g RN k))%Z /\
  (0 < Conn.outH RN (cv_g RN k))%Z /\ (0 < Conn.outW RN (cv_g RN k))%Z ->
  forall (p : pastR) (kk : nat -> nat -> nat) (K0 : nat) (s0 : synR) 
    (q : pastR) (xs0 : list R) (inj0 : list (list R)),
  shifted (undelayed c) p K0 =
  (ConvProofs.conv_unfolded k xs0, map (ConvProofs.conv_unfolded k) inj0) :: q ->
  Inv RN (undelayed c) s0 q ->
  exists (s0' : synR) (out : list (T RN)),
    conv_forward RN (conv_part k kk K0) (undelayed c) s0
      [cv_B RN k; Z.to_nat (Conn.gC (cv_g RN k)); Z.to_nat (Conn.gH (cv_g RN k));
       Z.to_nat (Conn.gW (cv_g RN k))] xs0 inj0 =
    (s0', SOk ([cv_B RN k; cv_F RN k; cv_HO RN k; cv_WO RN k], out)) /\
    (forall b f oh ow : nat,
     (b < cv_B RN k)%nat ->
     (f < cv_F RN k)%nat ->
     (oh < cv_HO RN k)%nat ->
     (ow < cv_WO RN k)%nat ->
     nth (((b * cv_F RN k + f) * cv_HO RN k + oh) * cv_WO RN k + ow) out 0 =
     conv_undelayed_part c p (Conn.flatten_kernel RN (cv_w RN k)) kk 
       (cv_N RN k) (cv_L RN k) K0 b f (oh * cv_WO RN k + ow)).
Proof. exact (@Inferno.C06.DecompProofs.conv_part_is_undelayed_forward). Qed.
Print Assumptions conv_part_is_undelayed_forward.
