(* Obligation C06/conv_step_always_ok.  Statement as printed by Coq from Inferno.C06.RunProofs; proof by reference.
   This file contains nothing else, so the statement cannot be weakened quietly. *)
From Coq Require Import List ZArith Bool Arith Lia Reals Lra.
From Flocq Require Import Core.Raux Core.Generic_fmt.
From Inferno Require Import Base.Num Base.NumR Gen.Infra Gen.Interpolation C01.Ring C01.RingProofs C04.Synapse C04.HistProofs C04.ClosedForms C04.SelectProofs C04.SynapseProofs C06.Delay C06.DelaySpec C06.RunProofs.
From Inferno Require C05.Conn C05.ConnSpec.
Import ListNotations.
Open Scope R_scope.
Theorem conv_step_always_ok : forall (NM : Num) (v : conv NM) (xsh : list nat) (xs : list (T NM))
    (inj : list (list (T NM))), cop_ok NM (CConv NM v) (KStep NM xsh xs inj).
Proof. exact (@Inferno.C06.RunProofs.conv_step_always_ok). Qed.
Print Assumptions conv_step_always_ok.
