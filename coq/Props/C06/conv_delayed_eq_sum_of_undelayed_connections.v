(* Obligation C06/conv_delayed_eq_sum_of_undelayed_connections.  Statement as printed by Coq from Inferno.C06.DecompProofs; proof by reference.
   This file contains nothing else, so the statement cannot be weakened quietly. *)
From Coq Require Import List ZArith Bool Arith Lia Reals Lra.
From Flocq Require Import Core.Raux Core.Generic_fmt.
From Inferno Require Import Base.Num Base.NumR Gen.Infra Gen.Interpolation C01.Ring C01.RingProofs C04.Synapse C04.HistProofs C04.ClosedForms C04.SelectProofs C04.SynapseProofs C06.Delay C06.DelaySpec C06.DecompSpec C06.DecompProofs.
From Inferno Require C05.Conn C05.ConnSpec.
Import ListNotations.
Open Scope R_scope.
Theorem conv_delayed_eq_sum_of_undelayed_connections : forall (k : conv RN) (c : cfgR),
  cshape RN c = [cv_B RN k; cv_N RN k; cv_L RN k] ->
  (0 <= Conn.gC (cv_g RN k))%Z /\
  (0 <= Conn.gH (cv_g RN k))%Z /\
  (0 <= Conn.gW (cv_g RN k))%Z /\
  (0 < Conn.outH RN (cv_g RN k))%Z /\ (0 < Conn.outW RN (cv_g RN k))%Z ->
  forall (s : synR) (p : pastR) (xs : list (T RN)) (inj : list (list (T RN))) 
    (d : kernel4 RN) (kk : nat -> nat -> nat) (Kmax : nat),
  Inv RN c s p ->
  cfg_ok c ->
  is_mat (cv_F RN k) (cv_N RN k) (Conn.flatten_kernel RN (cv_w RN k)) ->
  bias_ok (cv_F RN k) (cv_b RN k) ->
  cv_d RN k = Some d ->
  cdelay RN c <> 0 ->
  (forall f n : nat,
   (f < cv_F RN k)%nat ->
   (n < cv_N RN k)%nat ->
   on_grid_delay c (mat_at (Conn.flatten_kernel RN d) f n) (kk f n) /\ (kk f n <= Kmax)%nat) ->
  exists (s' : synR) (out : list (T RN)),
    conv_forward RN k c s
      [cv_B RN k; Z.to_nat (Conn.gC (cv_g RN k)); Z.to_nat (Conn.gH (cv_g RN k));
       Z.to_nat (Conn.gW (cv_g RN k))] xs inj =
    (s', SOk ([cv_B RN k; cv_F RN k; cv_HO RN k; cv_WO RN k], out)) /\
    (forall b f oh ow : nat,
     (b < cv_B RN k)%nat ->
     (f < cv_F RN k)%nat ->
     (oh < cv_HO RN k)%nat ->
     (ow < cv_WO RN k)%nat ->
     nth (((b * cv_F RN k + f) * cv_HO RN k + oh) * cv_WO RN k + ow) out 0 =
     bias_at (cv_b RN k) f +
     Rsum (S Kmax)
       (fun K0 : nat =>
        conv_undelayed_part c
          ((ConvProofs.conv_unfolded k xs, map (ConvProofs.conv_unfolded k) inj) :: p)
          (Conn.flatten_kernel RN (cv_w RN k)) kk (cv_N RN k) (cv_L RN k) K0 b f
          (oh * cv_WO RN k + ow))).
Proof. exact (@Inferno.C06.DecompProofs.conv_delayed_eq_sum_of_undelayed_connections). Qed.
Print Assumptions conv_delayed_eq_sum_of_undelayed_connections.
