(* Obligation C06/dense_delayed_eq_sum_of_undelayed_connections.  Statement as printed by Coq from Inferno.C06.ClosedShift; proof by reference.
   This file contains nothing else, so the statement cannot be weakened quietly. *)
From Coq Require Import List ZArith Bool Arith Lia Reals Lra.
From Flocq Require Import Core.Raux Core.Generic_fmt.
From Inferno Require Import Base.Num Base.NumR Gen.Infra Gen.Interpolation C01.Ring C01.RingProofs C04.Synapse C04.HistProofs C04.ClosedForms C04.SelectProofs C04.SynapseProofs C06.Delay C06.DelaySpec C06.ClosedShift.
From Inferno Require C05.Conn C05.ConnSpec.
Import ListNotations.
Open Scope R_scope.
Theorem dense_delayed_eq_sum_of_undelayed_connections : forall (k : dense RN) (c : cfgR) (s : synR) (p : pastR) (xsh : list nat) 
    (xs : list (T RN)) (inj d : list (list (T RN))) (kk : nat -> nat -> nat) 
    (Kmax : nat),
  Inv RN c s p ->
  cfg_ok c ->
  cshape RN c = [dn_B RN k; dn_I RN k] ->
  is_mat (dn_O RN k) (dn_I RN k) (dn_w RN k) ->
  bias_ok (dn_O RN k) (dn_b RN k) ->
  (0 < dn_O RN k)%nat ->
  Conn.flat_shape xsh = [dn_B RN k; dn_I RN k] ->
  entry_ok RN c (xs, inj) ->
  dn_d RN k = Some d ->
  cdelay RN c <> 0 ->
  (forall o i : nat,
   (o < dn_O RN k)%nat ->
   (i < dn_I RN k)%nat -> on_grid_delay c (mat_at d o i) (kk o i) /\ (kk o i <= Kmax)%nat) ->
  exists (s' : synR) (out : list (T RN)),
    dense_forward RN k c s xsh xs inj = (s', SOk (dn_B RN k :: dn_out RN k, out)) /\
    (forall b o : nat,
     (b < dn_B RN k)%nat ->
     (o < dn_O RN k)%nat ->
     nth (b * dn_O RN k + o) out 0 =
     bias_at (dn_b RN k) o +
     Rsum (S Kmax)
       (fun K : nat => undelayed_part c ((xs, inj) :: p) (dn_w RN k) kk (dn_I RN k) K b o)).
Proof. exact (@Inferno.C06.ClosedShift.dense_delayed_eq_sum_of_undelayed_connections). Qed.
Print Assumptions dense_delayed_eq_sum_of_undelayed_connections.
