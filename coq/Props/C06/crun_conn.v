(* Obligation C06/crun_conn.  Statement as printed by Coq from Inferno.C06.ReachProofs; proof by reference.
   This file contains nothing else, so the statement cannot be weakened quietly. *)
From Coq Require Import List ZArith Bool Arith Lia Reals Lra.
From Flocq Require Import Core.Raux Core.Generic_fmt.
From Inferno Require Import Base.Num Base.NumR Gen.Infra Gen.Interpolation C01.Ring C01.RingProofs C04.Synapse C04.HistProofs C04.ClosedForms C04.SelectProofs C04.SynapseProofs C06.Delay C06.DelaySpec C06.DecompSpec C06.ReachProofs.
From Inferno Require C05.Conn C05.ConnSpec.
Import ListNotations.
Open Scope R_scope.
Theorem crun_conn : forall (NM : Num) (c : cfg NM) (ops : list (cop NM)) (k : conn NM) (s : syn NM),
  fst (fst (crun NM c (k, s) ops)) = fold_left (RunProofs.conn_after NM) ops k.
Proof. exact (@Inferno.C06.ReachProofs.crun_conn). Qed.
Print Assumptions crun_conn.
