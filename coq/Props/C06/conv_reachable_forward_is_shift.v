(* Obligation C06/conv_reachable_forward_is_shift.  Statement as printed by Coq from Inferno.C06.ReachProofs; proof by reference.
   This file contains nothing else, so the statement cannot be weakened quietly. *)
From Coq Require Import List ZArith Bool Arith Lia Reals Lra.
From Flocq Require Import Core.Raux Core.Generic_fmt.
From Inferno Require Import Base.Num Base.NumR Gen.Infra Gen.Interpolation C01.Ring C01.RingProofs C04.Synapse C04.HistProofs C04.ClosedForms C04.SelectProofs C04.SynapseProofs C06.Delay C06.DelaySpec C06.DecompSpec C06.ReachProofs.
From Inferno Require C05.Conn C05.ConnSpec.
Import ListNotations.
Open Scope R_scope.
Theorem conv_reachable_forward_is_shift : forall (k0 : conn RN) (c : cfgR) (ops : list (cop RN)),
  cfg_ok c ->
  RunProofs.cops_ok RN k0 ops ->
  forall (k : conv RN) (d : kernel4 RN) (kk : nat -> nat -> nat) (xs : list (T RN))
    (inj : list (list (T RN))),
  cshape RN c = [cv_B RN k; cv_N RN k; cv_L RN k] ->
  is_mat (cv_F RN k) (cv_N RN k) (Conn.flatten_kernel RN (cv_w RN k)) ->
  bias_ok (cv_F RN k) (cv_b RN k) ->
  (0 <= Conn.gC (cv_g RN k))%Z /\
  (0 <= Conn.gH (cv_g RN k))%Z /\
  (0 <= Conn.gW (cv_g RN k))%Z /\
  (0 < Conn.outH RN (cv_g RN k))%Z /\ (0 < Conn.outW RN (cv_g RN k))%Z ->
  cv_d RN k = Some d ->
  cdelay RN c <> 0 ->
  (forall f n : nat,
   (f < cv_F RN k)%nat ->
   (n < cv_N RN k)%nat -> on_grid_delay c (mat_at (Conn.flatten_kernel RN d) f n) (kk f n)) ->
  exists (s' : synR) (out : list (T RN)),
    conv_forward RN k c (snd (fst (crun RN c (k0, init RN c) ops)))
      [cv_B RN k; Z.to_nat (Conn.gC (cv_g RN k)); Z.to_nat (Conn.gH (cv_g RN k));
       Z.to_nat (Conn.gW (cv_g RN k))] xs inj =
    (s', SOk ([cv_B RN k; cv_F RN k; cv_HO RN k; cv_WO RN k], out)) /\
    (forall b f oh ow : nat,
     (b < cv_B RN k)%nat ->
     (f < cv_F RN k)%nat ->
     (oh < cv_HO RN k)%nat ->
     (ow < cv_WO RN k)%nat ->
     nth (((b * cv_F RN k + f) * cv_HO RN k + oh) * cv_WO RN k + ow) out 0 =
     Rsum (cv_N RN k)
       (fun n : nat =>
        mat_at (Conn.flatten_kernel RN (cv_w RN k)) f n *
        value_ago c
          ((ConvProofs.conv_unfolded k xs, map (ConvProofs.conv_unfolded k) inj)
           :: RunProofs.conn_history_run RN c k0 [] ops) (kk f n)
          ((b * cv_N RN k + n) * cv_L RN k + (oh * cv_WO RN k + ow))) + 
     bias_at (cv_b RN k) f).
Proof. exact (@Inferno.C06.ReachProofs.conv_reachable_forward_is_shift). Qed.
Print Assumptions conv_reachable_forward_is_shift.
