(* Obligation C06/spk_sel_is_past_spk.  Statement as printed by Coq from Inferno.C06.ReadProofs; proof by reference.
   This file contains nothing else, so the statement cannot be weakened quietly. *)
From Coq Require Import List ZArith Bool Arith Lia Reals Lra.
From Flocq Require Import Core.Raux Core.Generic_fmt.
From Inferno Require Import Base.Num Base.NumR Gen.Infra Gen.Interpolation C01.Ring C01.RingProofs C04.Synapse C04.HistProofs C04.ClosedForms C04.SelectProofs C04.SynapseProofs C06.Delay C06.DelaySpec C06.ReadProofs.
From Inferno Require C05.Conn C05.ConnSpec.
Import ListNotations.
Open Scope R_scope.
Theorem spk_sel_is_past_spk : forall (c : cfgR) (s : synR) (p : pastR),
  Inv RN c s p ->
  cfg_ok c ->
  forall (e : nat) (b : R), 0 <= b <= cdelay RN c -> spk_sel c s e b = past_spk c p e b.
Proof. exact (@Inferno.C06.ReadProofs.spk_sel_is_past_spk). Qed.
Print Assumptions spk_sel_is_past_spk.
