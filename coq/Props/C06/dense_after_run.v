(* Obligation C06/dense_after_run.  Statement as printed by Coq from Inferno.C06.ReachProofs; proof by reference.
   This file contains nothing else, so the statement cannot be weakened quietly. *)
From Coq Require Import List ZArith Bool Arith Lia Reals Lra.
From Flocq Require Import Core.Raux Core.Generic_fmt.
From Inferno Require Import Base.Num Base.NumR Gen.Infra Gen.Interpolation C01.Ring C01.RingProofs C04.Synapse C04.HistProofs C04.ClosedForms C04.SelectProofs C04.SynapseProofs C06.Delay C06.DelaySpec C06.DecompSpec C06.ReachProofs.
From Inferno Require C05.Conn C05.ConnSpec.
Import ListNotations.
Open Scope R_scope.
Theorem dense_after_run : forall (k : dense RN) (ops : list (cop RN)) (d : list (list R)),
  fold_left (RunProofs.conn_after RN) ops (CDense RN (dense_with_delay k d)) =
  CDense RN (dense_with_delay k (dense_delay_in_force k d ops)).
Proof. exact (@Inferno.C06.ReachProofs.dense_after_run). Qed.
Print Assumptions dense_after_run.
