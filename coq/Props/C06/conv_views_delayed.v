(* Obligation C06/conv_views_delayed.  Statement as printed by Coq from Inferno.C06.ConvProofs; proof by reference.
   This file contains nothing else, so the statement cannot be weakened quietly. *)
From Coq Require Import List ZArith Bool Arith Lia Reals Lra.
From Flocq Require Import Core.Raux Core.Generic_fmt.
From Inferno Require Import Base.Num Base.NumR Gen.Infra Gen.Interpolation C01.Ring C01.RingProofs C04.Synapse C04.HistProofs C04.ClosedForms C04.SelectProofs C04.SynapseProofs C06.Delay C06.DelaySpec C06.ConvProofs.
From Inferno Require C05.Conn C05.ConnSpec.
Import ListNotations.
Open Scope R_scope.
Theorem conv_views_delayed : forall (k : conv RN) (c : cfgR) (s : synR) (p : pastR),
  Inv RN c s p ->
  cfg_ok c ->
  cshape RN c = [cv_B RN k; cv_N RN k; cv_L RN k] ->
  forall d : kernel4 RN,
  cv_d RN k = Some d ->
  cdelay RN c <> 0 ->
  exists vc vs : list (T RN),
    syncurrent RN c s (has (cv_d RN k)) (conv_selector RN k) =
    SOk ([cv_B RN k; cv_N RN k; cv_L RN k; cv_F RN k], vc) /\
    synspike RN c s (has (cv_d RN k)) (conv_selector RN k) =
    SOk ([cv_B RN k; cv_N RN k; cv_L RN k; cv_F RN k], vs) /\
    (forall b n l f : nat,
     (b < cv_B RN k)%nat ->
     (n < cv_N RN k)%nat ->
     (l < cv_L RN k)%nat ->
     (f < cv_F RN k)%nat ->
     nth (((b * cv_N RN k + n) * cv_L RN k + l) * cv_F RN k + f) vc 0 =
     delayed_cur c p ((b * cv_N RN k + n) * cv_L RN k + l)
       (mat_at (Conn.flatten_kernel RN d) f n) /\
     nth (((b * cv_N RN k + n) * cv_L RN k + l) * cv_F RN k + f) vs 0 =
     delayed_spk c p ((b * cv_N RN k + n) * cv_L RN k + l)
       (mat_at (Conn.flatten_kernel RN d) f n)).
Proof. exact (@Inferno.C06.ConvProofs.conv_views_delayed). Qed.
Print Assumptions conv_views_delayed.
