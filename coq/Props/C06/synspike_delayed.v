(* Obligation C06/synspike_delayed.  Statement as printed by Coq from Inferno.C06.ViewProofs; proof by reference.
   This file contains nothing else, so the statement cannot be weakened quietly. *)
From Coq Require Import List ZArith Bool Arith Lia Reals Lra.
From Flocq Require Import Core.Raux Core.Generic_fmt.
From Inferno Require Import Base.Num Base.NumR Gen.Infra Gen.Interpolation C01.Ring C01.RingProofs C04.Synapse C04.HistProofs C04.ClosedForms C04.SelectProofs C04.SynapseProofs C06.Delay C06.DelaySpec C06.ViewProofs.
From Inferno Require C05.Conn C05.ConnSpec.
Import ListNotations.
Open Scope R_scope.
Theorem synspike_delayed : forall (c : cfgR) (s : synR) (p : pastR),
  Inv RN c s p ->
  cfg_ok c ->
  forall (D : nat) (sel : list (T RN)),
  cdelay RN c <> 0 ->
  exists vals : list (T RN),
    synspike RN c s true (cshape RN c ++ [D], sel) = SOk (cshape RN c ++ [D], vals) /\
    length vals = (nel (cshape RN c) * D)%nat /\
    (forall e j : nat,
     (e < nel (cshape RN c))%nat ->
     (j < D)%nat -> nth (e * D + j) vals 0 = delayed_spk c p e (nth (e * D + j) sel 0)).
Proof. exact (@Inferno.C06.ViewProofs.synspike_delayed). Qed.
Print Assumptions synspike_delayed.
