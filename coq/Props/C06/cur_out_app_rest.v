(* Obligation C06/cur_out_app_rest.  Statement as printed by Coq from Inferno.C06.ReadProofs; proof by reference.
   This file contains nothing else, so the statement cannot be weakened quietly. *)
From Coq Require Import List ZArith Bool Arith Lia Reals Lra.
From Flocq Require Import Core.Raux Core.Generic_fmt.
From Inferno Require Import Base.Num Base.NumR Gen.Infra Gen.Interpolation C01.Ring C01.RingProofs C04.Synapse C04.HistProofs C04.ClosedForms C04.SelectProofs C04.SynapseProofs C06.Delay C06.DelaySpec C06.ReadProofs.
From Inferno Require C05.Conn C05.ConnSpec.
Import ListNotations.
Open Scope R_scope.
Theorem cur_out_app_rest : forall (c : cfgR) (q : list (list R * list (list R))) (m : nat),
  cur_out RN c (q ++ repeat (rest_entry c) m) = cur_out RN c q.
Proof. exact (@Inferno.C06.ReadProofs.cur_out_app_rest). Qed.
Print Assumptions cur_out_app_rest.
