(* Obligation C06/dense_delay_zero_is_undelayed.  Statement as printed by Coq from Inferno.C06.DenseShift; proof by reference.
   This file contains nothing else, so the statement cannot be weakened quietly. *)
From Coq Require Import List ZArith Bool Arith Lia Reals Lra.
From Flocq Require Import Core.Raux Core.Generic_fmt.
From Inferno Require Import Base.Num Base.NumR Gen.Infra Gen.Interpolation C01.Ring C01.RingProofs C04.Synapse C04.HistProofs C04.ClosedForms C04.SelectProofs C04.SynapseProofs C06.Delay C06.DelaySpec C06.DenseShift.
From Inferno Require C05.Conn C05.ConnSpec.
Import ListNotations.
Open Scope R_scope.
Theorem dense_delay_zero_is_undelayed : forall (k : dense RN) (c : cfgR) (s : synR) (p : pastR),
  Inv RN c s p ->
  cfg_ok c ->
  cshape RN c = [dn_B RN k; dn_I RN k] ->
  is_mat (dn_O RN k) (dn_I RN k) (dn_w RN k) ->
  bias_ok (dn_O RN k) (dn_b RN k) ->
  (0 < dn_O RN k)%nat ->
  forall (xsh : list nat) (xs : list R) (inj : list (list R)),
  Conn.flat_shape xsh = [dn_B RN k; dn_I RN k] ->
  entry_ok RN c (xs, inj) ->
  forall d : list (list R),
  dn_d RN k = Some d ->
  cdelay RN c <> 0 ->
  forall s0 : synR,
  (forall o i : nat,
   (o < dn_O RN k)%nat ->
   (i < dn_I RN k)%nat -> 0 <= mat_at d o i <= cdelay RN c /\ Rabs (mat_at d o i) <= ctol RN c) ->
  Inv RN (undelayed c) s0 p ->
  exists (s' s0' : synR) (out : list (T RN)),
    dense_forward RN k c s xsh xs inj = (s', SOk (dn_B RN k :: dn_out RN k, out)) /\
    dense_forward RN (dense_no_delay k) (undelayed c) s0 xsh xs inj =
    (s0', SOk (dn_B RN k :: dn_out RN k, out)).
Proof. exact (@Inferno.C06.DenseShift.dense_delay_zero_is_undelayed). Qed.
Print Assumptions dense_delay_zero_is_undelayed.
