(* Obligation C06/tie_LinearDense_forward.  Statement as printed by Coq from Inferno.C05.GenTieLinearDense; proof by reference.
   This file contains nothing else, so the statement cannot be weakened quietly. *)
From Coq Require Import List ZArith Bool String Arith.
From Inferno Require Import Base.Num Gen.ConnectionClasses C05.Conn C05.ConnPatterns C05.GenTieLinearDense.
Import ListNotations.
Open Scope string_scope.
Theorem tie_LinearDense_forward : LinearDense_forward_patterns = [pat_LinearDense_forward; pat_LinearDense_forward] /\
  LinearDense_forward_params = ["*inputs"; "**kwargs"] /\
  LinearDense_forward_is_property = false /\
  LinearDense_forward =
  [SAssign "res"
     (AMeth (AVar "self") "synapse"
        [AStar (AGen (AMeth (AVar "self") "like_synaptic" [AVar "inp"]) "inp" (AVar "inputs"));
         AKwStar (AVar "kwargs")]);
   SIf (ASelf "delayedby")
     [SAssign "res" (ASelf "syncurrent");
      SIf (ASelf "biased")
        [SAssign "res"
           (ABin "+"
              (ACall "ein.einsum" [AVar "res"; ASelf "weight"; AStr pat_LinearDense_forward])
              (ASelf "bias"))]
        [SAssign "res"
           (ACall "ein.einsum" [AVar "res"; ASelf "weight"; AStr pat_LinearDense_forward])]]
     [SAssign "res" (ACall "F.linear" [AVar "res"; ASelf "weight"; ASelf "bias"])];
   SReturn (AMeth (AVar "res") "view" [AInt (-1); AStar (ASelf "outshape")])].
Proof. exact (@Inferno.C05.GenTieLinearDense.tie_LinearDense_forward). Qed.
Print Assumptions tie_LinearDense_forward.
