(* Obligation C06/dense_views_delayed.  Statement as printed by Coq from Inferno.C06.DenseProofs; proof by reference.
   This file contains nothing else, so the statement cannot be weakened quietly. *)
From Coq Require Import List ZArith Bool Arith Lia Reals Lra.
From Flocq Require Import Core.Raux Core.Generic_fmt.
From Inferno Require Import Base.Num Base.NumR Gen.Infra Gen.Interpolation C01.Ring C01.RingProofs C04.Synapse C04.HistProofs C04.ClosedForms C04.SelectProofs C04.SynapseProofs C06.Delay C06.DelaySpec C06.DenseProofs.
From Inferno Require C05.Conn C05.ConnSpec.
Import ListNotations.
Open Scope R_scope.
Theorem dense_views_delayed : forall (k : dense RN) (c : cfgR) (s : synR) (p : pastR),
  Inv RN c s p ->
  cfg_ok c ->
  cshape RN c = [dn_B RN k; dn_I RN k] ->
  (0 < dn_O RN k)%nat ->
  forall d : list (list (T RN)),
  dn_d RN k = Some d ->
  cdelay RN c <> 0 ->
  exists vc vs : list (T RN),
    syncurrent RN c s (has (dn_d RN k)) (dense_selector RN k) =
    SOk ([dn_B RN k; dn_I RN k; dn_O RN k], vc) /\
    synspike RN c s (has (dn_d RN k)) (dense_selector RN k) =
    SOk ([dn_B RN k; dn_I RN k; dn_O RN k], vs) /\
    (forall b i o : nat,
     (b < dn_B RN k)%nat ->
     (i < dn_I RN k)%nat ->
     (o < dn_O RN k)%nat ->
     nth ((b * dn_I RN k + i) * dn_O RN k + o) vc 0 =
     delayed_cur c p (b * dn_I RN k + i) (mat_at d o i) /\
     nth ((b * dn_I RN k + i) * dn_O RN k + o) vs 0 =
     delayed_spk c p (b * dn_I RN k + i) (mat_at d o i)).
Proof. exact (@Inferno.C06.DenseProofs.dense_views_delayed). Qed.
Print Assumptions dense_views_delayed.
