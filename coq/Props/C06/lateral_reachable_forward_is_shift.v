(* Obligation C06/lateral_reachable_forward_is_shift.  Statement as printed by Coq from Inferno.C06.ReachProofs; proof by reference.
   This file contains nothing else, so the statement cannot be weakened quietly. *)
From Coq Require Import List ZArith Bool Arith Lia Reals Lra.
From Flocq Require Import Core.Raux Core.Generic_fmt.
From Inferno Require Import Base.Num Base.NumR Gen.Infra Gen.Interpolation C01.Ring C01.RingProofs C04.Synapse C04.HistProofs C04.ClosedForms C04.SelectProofs C04.SynapseProofs C06.Delay C06.DelaySpec C06.DecompSpec C06.ReachProofs.
From Inferno Require C05.Conn C05.ConnSpec.
Import ListNotations.
Open Scope R_scope.
Theorem lateral_reachable_forward_is_shift : forall (k0 : conn RN) (c : cfgR) (ops : list (cop RN)),
  cfg_ok c ->
  RunProofs.cops_ok RN k0 ops ->
  forall (l : Conn.lat RN) (d : list (list R)) (kk : nat -> nat -> nat) 
    (xsh : list nat) (xs : list (T RN)) (inj : list (list (T RN))),
  cshape RN c = [Conn.l_B RN l; Conn.l_n RN l] ->
  is_mat (Conn.l_n RN l) (Conn.l_n RN l) (Conn.l_w RN l) ->
  bias_ok (Conn.l_n RN l) (Conn.l_b RN l) ->
  (0 < Conn.l_n RN l)%nat ->
  ConnSpec.lat_inv l ->
  Conn.flat_shape xsh = [Conn.l_B RN l; Conn.l_n RN l] ->
  entry_ok RN c (xs, inj) ->
  Conn.l_d RN l = Some d ->
  cdelay RN c <> 0 ->
  (forall o i : nat,
   (o < Conn.l_n RN l)%nat ->
   (i < Conn.l_n RN l)%nat -> on_grid_delay c (mat_at d o i) (kk o i)) ->
  exists (s' : synR) (out : list (T RN)),
    dense_forward RN (lat_dense RN l) c (snd (fst (crun RN c (k0, init RN c) ops))) xsh xs inj =
    (s', SOk (Conn.l_B RN l :: Conn.l_shape RN l, out)) /\
    (forall b o : nat,
     (b < Conn.l_B RN l)%nat ->
     (o < Conn.l_n RN l)%nat ->
     nth (b * Conn.l_n RN l + o) out 0 =
     Rsum (Conn.l_n RN l)
       (fun i : nat =>
        if i =? o
        then 0
        else
         mat_at (Conn.l_w RN l) o i *
         value_ago c ((xs, inj) :: RunProofs.conn_history_run RN c k0 [] ops) 
           (kk o i) (b * Conn.l_n RN l + i)) + bias_at (Conn.l_b RN l) o).
Proof. exact (@Inferno.C06.ReachProofs.lateral_reachable_forward_is_shift). Qed.
Print Assumptions lateral_reachable_forward_is_shift.
