(* Obligation C06/masked_kernel_entry.  Statement as printed by Coq from Inferno.C06.DecompProofs; proof by reference.
   This file contains nothing else, so the statement cannot be weakened quietly. *)
From Coq Require Import List ZArith Bool Arith Lia Reals Lra.
From Flocq Require Import Core.Raux Core.Generic_fmt.
From Inferno Require Import Base.Num Base.NumR Gen.Infra Gen.Interpolation C01.Ring C01.RingProofs C04.Synapse C04.HistProofs C04.ClosedForms C04.SelectProofs C04.SynapseProofs C06.Delay C06.DelaySpec C06.DecompSpec C06.DecompProofs.
From Inferno Require C05.Conn C05.ConnSpec.
Import ListNotations.
Open Scope R_scope.
Theorem masked_kernel_entry : forall (k : conv RN) (kk : nat -> nat -> nat) (K0 f n : nat),
  (f < cv_F RN k)%nat ->
  (n < cv_N RN k)%nat ->
  mat_at (Conn.flatten_kernel RN (conv_masked_kernel k kk K0)) f n =
  conv_masked_weight (Conn.flatten_kernel RN (cv_w RN k)) kk K0 f n.
Proof. exact (@Inferno.C06.DecompProofs.masked_kernel_entry). Qed.
Print Assumptions masked_kernel_entry.
