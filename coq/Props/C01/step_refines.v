(* Obligation C01/step_refines.  Statement as printed by Coq from Inferno.C01.RingSpec; proof by reference.
   This file contains nothing else, so the statement cannot be weakened quietly. *)
From Coq Require Import List ZArith Bool Arith Lia.
From Inferno Require Import Gen.Infra C01.Ring C01.RingProofs C01.RingSpec.
Import ListNotations.
Theorem step_refines : forall (A D : Type) (cast : D -> A -> A) (promote : D -> D -> D) 
    (D_eqb : D -> D -> bool) (zeroA : A) (s : ring) (t : spec) (o : op),
  wf s ->
  abs s = Some t ->
  rectS t ->
  sp_valid cast promote D_eqb t o ->
  exists (s' : ring) (out : output),
    step cast promote D_eqb zeroA s o = Ok s' out /\
    wf s' /\
    abs s' = Some (fst (spec_step cast zeroA t o)) /\
    erase (inl out) = inl (snd (spec_step cast zeroA t o)).
Proof. exact (@Inferno.C01.RingSpec.step_refines). Qed.
Print Assumptions step_refines.
