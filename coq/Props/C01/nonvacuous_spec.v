(* Obligation C01/nonvacuous_spec: the hypotheses of the refinement theorems (run_refines,
   run_refines_from_uninit: rectS, valid_ops) are met by a concrete run that starts from a record
   without storage and uses ALL THIRTEEN operations (every variant of the fragment: in place and out of
   place, forward and backward, scalar and tensor offsets, negative and > N offsets, len = N, reset with
   and without fill), and on that run the pointer-free specification machine and the ring-buffer model
   really compute the same non-trivial outputs. *)
From Coq Require Import List ZArith Bool Arith Lia.
From Inferno Require Import Gen.Infra C01.Ring C01.RingProofs C01.RingSpec.
Import ListNotations.
Open Scope Z_scope.

(* elements: integers standing for half-units; data types: 1 = integer (truncating), 2 = float (exact) *)
Definition cz (d z : Z) : Z := if d =? 1 then 2 * Z.quot z 2 else z.
Definition pz (a b : Z) : Z := Z.max a b.
Definition s0 : @ring Z Z := mkRing 3 0 SNone.
Definition x0 : @obs Z Z := mkObs 2 [2%nat] [1; 2].
Definition ops : list (@op Z Z) :=
  [ OpPush (mkObs 2 [2%nat] [3; 4]) true; OpPush (mkObs 1 [2%nat] [5; 6]) false; OpPush (mkObs 2 [2%nat] [7; 8]) false;
    OpPeek; OpRead 2; OpRead (-5); OpIncr 1; OpRead 1; OpDecr 4; OpPop; OpRead 1;
    OpWrite (mkObs 2 [2%nat] [9; 9]) 1 true; OpWrite (mkObs 2 [2%nat] [20; 21]) 5 false; OpAlign 1;
    OpReadRangeS 2 1 false; OpReadRangeS 3 0 true; OpReadRangeT 3 [1; 2] [2%nat] true;
    OpWriteRangeS (mkRng 2 [2%nat] [[10; 11]; [12; 13]]) 1 true true;
    OpWriteRangeS (mkRng 1 [2%nat] [[14; 15; 16]; [17; 18; 19]]) 1 false false;
    OpReadRangeS 3 1 false;
    OpWriteRangeT (mkRng 2 [2%nat] [[30; 31]; [32; 33]]) [0; 1] [2%nat] false true;
    OpReadRangeS 3 1 false;
    OpReset None; OpRead 1; OpReset (Some 5); OpReadRangeS 3 1 false ].
Definition t0 : @spec Z Z := init_spec 0 3 (adopt s0 x0) (oshape x0) (map (cz (adopt s0 x0)) (oel x0)).
Definition expected : list (@output Z Z) :=
  [ OUnit; OUnit; OUnit; OObs 2 [2%nat] [7; 8]; OObs 2 [2%nat] [5; 6]; OObs 2 [2%nat] [7; 8];
    OInt 0; OObs 2 [2%nat] [3; 4]; OInt 0; OObs 2 [2%nat] [7; 8]; OObs 2 [2%nat] [5; 6];
    OUnit; OUnit; OUnit;
    ORng (mkRng 2 [2%nat] [[20; 9]; [21; 9]]);
    ORng (mkRng 2 [2%nat] [[7; 20; 9]; [8; 21; 9]]);
    ORng (mkRng 2 [2%nat] [[9; 7; 20]; [21; 9; 8]]);
    OUnit; OUnit;
    ORng (mkRng 2 [2%nat] [[14; 15; 16]; [17; 18; 19]]);
    OUnit;
    ORng (mkRng 2 [2%nat] [[31; 15; 30]; [17; 32; 33]]);
    OUnit; OObs 2 [2%nat] [30; 33]; OUnit;
    ORng (mkRng 2 [2%nat] [[5; 5; 5]; [5; 5; 5]]) ].

Theorem nonvacuous_spec :
  (0 < N s0)%nat /\ ~ full s0 /\ length (oel x0) = nel (oshape x0) /\
  t0 = mkSpec 3 2 [2%nat] [[0; 0]; [1; 2]; [0; 0]] /\
  rectS t0 /\ valid_ops cz pz Z.eqb 0 t0 ops /\
  snd (spec_run cz 0 t0 ops) = expected /\
  map erase (snd (run cz pz Z.eqb 0 s0 (OpPush x0 false :: ops))) = inl OUnit :: map inl expected /\
  abs (fst (run cz pz Z.eqb 0 s0 (OpPush x0 false :: ops))) = Some (fst (spec_run cz 0 t0 ops)).
Proof.
  split; [cbn; lia|]. split; [cbn; tauto|]. split; [reflexivity|]. split; [vm_compute; reflexivity|].
  split.
  { vm_compute. split; [reflexivity|]. intros [|[|[|i]]] Hi; try reflexivity; lia. }
  split.
  { vm_compute. repeat split; try lia; try reflexivity; try discriminate; try (repeat constructor; fail).
    intros [|[|[|k]]] Hk; try reflexivity; lia. }
  split; [vm_compute; reflexivity|]. split; vm_compute; reflexivity.
Qed.
Print Assumptions nonvacuous_spec.
