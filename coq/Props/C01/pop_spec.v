(* Obligation C01/pop_spec.  Statement as printed by Coq from Inferno.C01.RingProofs; proof by reference.
   This file contains nothing else, so the statement cannot be weakened quietly. *)
From Coq Require Import List ZArith Bool Arith Lia.
From Inferno Require Import Gen.Infra C01.Ring C01.RingProofs.
Import ListNotations.
Theorem pop_spec : forall A D : Type,
  (D -> A -> A) ->
  (D -> D -> D) ->
  (D -> D -> bool) ->
  A ->
  forall s : @ring A D,
  @wf A D s ->
  @full A D s ->
  exists (d : D) (sh : list nat) (s' : @ring A D),
    @st A D s = @SFull A D d sh (@rows A D s) /\
    @pop A D s = @Ok A D s' (@OObs A D d sh (@at_ A D s 1)) /\
    @wf A D s' /\
    @N A D s' = @N A D s /\
    @st A D s' = @st A D s /\ (forall k : Z, @at_ A D s' k = @at_ A D s (k + 1)).
Proof. exact (@Inferno.C01.RingProofs.pop_spec). Qed.
Print Assumptions pop_spec.
