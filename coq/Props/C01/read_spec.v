(* Obligation C01/read_spec.  Statement as printed by Coq from Inferno.C01.RingProofs; proof by reference.
   This file contains nothing else, so the statement cannot be weakened quietly. *)
From Coq Require Import List ZArith Bool Arith Lia.
From Inferno Require Import Gen.Infra C01.Ring C01.RingProofs.
Import ListNotations.
Theorem read_spec : forall (A D : Type) (s : @ring A D) (off : Z),
  @wf A D s ->
  @full A D s ->
  exists (d : D) (sh : list nat),
    @st A D s = @SFull A D d sh (@rows A D s) /\
    @read A D s off = @Ok A D s (@OObs A D d sh (@at_ A D s off)).
Proof. exact (@Inferno.C01.RingProofs.read_spec). Qed.
Print Assumptions read_spec.
