(* Obligation C01/writerange_scalar_spec.  Statement as printed by Coq from Inferno.C01.RingProofs; proof by reference.
   This file contains nothing else, so the statement cannot be weakened quietly. *)
From Coq Require Import List ZArith Bool Arith Lia.
From Inferno Require Import Gen.Infra C01.Ring C01.RingProofs.
Import ListNotations.
Theorem writerange_scalar_spec : forall (A D : Type) (cast : D -> A -> A) (promote : D -> D -> D),
  (D -> D -> bool) ->
  forall (zeroA : A) (s : ring) (r : rng) (off : Z) (fwd inplace : bool),
  wf s ->
  full s ->
  let len := range_len r in
  let off' := shift_off off len fwd in
  1 <= len <= N s ->
  Forall (fun c : list A => length c = len) (rcols r) ->
  exists (d : D) (sh : list nat),
    st s = SFull d sh (rows s) /\
    (shape_eqb (rshape r) sh = true ->
     exists (s' : ring) (d' : D),
       writerange_scalar cast promote zeroA s r off fwd inplace = Ok s' OUnit /\
       wf s' /\
       N s' = N s /\
       ptr s' = ptr s /\
       st s' = SFull d' sh (rows s') /\
       d' = (if inplace || (N s <? idx s off' + len) then d else promote d (rdt r)) /\
       (forall k : Z,
        at_ s' k =
        (if inplace || (N s <? idx s off' + len)
         then
          if hit s off' k <? len
          then map (cast d) (col zeroA (rcols r) (hit s off' k))
          else at_ s k
         else
          map (cast d')
            (if hit s off' k <? len then col zeroA (rcols r) (hit s off' k) else at_ s k)))).
Proof. exact (@Inferno.C01.RingProofs.writerange_scalar_spec). Qed.
Print Assumptions writerange_scalar_spec.
