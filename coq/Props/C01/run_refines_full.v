(* Obligation C01/run_refines_full.  Statement as printed by Coq from Inferno.C01.RingSpec; proof by reference.
   This file contains nothing else, so the statement cannot be weakened quietly. *)
From Coq Require Import List ZArith Bool Arith Lia.
From Inferno Require Import Gen.Infra C01.Ring C01.RingProofs C01.RingSpec.
Import ListNotations.
Theorem run_refines_full : forall (A D : Type) (cast : D -> A -> A) (promote : D -> D -> D) 
    (D_eqb : D -> D -> bool) (zeroA : A) (ops : list op) (s : ring),
  wf s ->
  full s ->
  exists t : spec,
    abs s = Some t /\
    (rectS t ->
     valid_ops cast promote D_eqb zeroA t ops ->
     abs (fst (run cast promote D_eqb zeroA s ops)) = Some (fst (spec_run cast zeroA t ops)) /\
     map erase (snd (run cast promote D_eqb zeroA s ops)) =
     map inl (snd (spec_run cast zeroA t ops))).
Proof. exact (@Inferno.C01.RingSpec.run_refines_full). Qed.
Print Assumptions run_refines_full.
