(* Obligation C01/run_wf.  Statement as printed by Coq from Inferno.C01.RingProofs; proof by reference.
   This file contains nothing else, so the statement cannot be weakened quietly. *)
From Coq Require Import List ZArith Bool Arith Lia.
From Inferno Require Import Gen.Infra C01.Ring C01.RingProofs.
Import ListNotations.
Theorem run_wf : forall (A D : Type) (cast : D -> A -> A) (promote : D -> D -> D) 
    (D_eqb : D -> D -> bool) (zeroA : A) (ops : list op) (s : ring),
  wf s ->
  wf (fst (run cast promote D_eqb zeroA s ops)) /\
  N (fst (run cast promote D_eqb zeroA s ops)) = N s.
Proof. exact (@Inferno.C01.RingProofs.run_wf). Qed.
Print Assumptions run_wf.
