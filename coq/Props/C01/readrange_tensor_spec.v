(* Obligation C01/readrange_tensor_spec.  Statement as printed by Coq from Inferno.C01.RingProofs; proof by reference.
   This file contains nothing else, so the statement cannot be weakened quietly. *)
From Coq Require Import List ZArith Bool Arith Lia.
From Inferno Require Import Gen.Infra C01.Ring C01.RingProofs.
Import ListNotations.
Theorem readrange_tensor_spec : forall (A D : Type) (zeroA : A) (s : ring) (len : nat) (offs : list Z) 
    (osh : list nat) (fwd : bool),
  wf s ->
  full s ->
  exists (d : D) (sh : list nat),
    st s = SFull d sh (rows s) /\
    readrange_tensor zeroA s len offs osh fwd =
    (if shape_eqb osh sh
     then
      Ok s
        (ORng
           {|
             rdt := d;
             rshape := sh;
             rcols :=
               map
                 (fun e : nat =>
                  map
                    (fun j : nat =>
                     nth e (at_ s (shift_off (nth e offs 0%Z) len fwd - Z.of_nat j)) zeroA)
                    (seq 0 len)) (seq 0 (nel sh))
           |})
     else Err EValue).
Proof. exact (@Inferno.C01.RingProofs.readrange_tensor_spec). Qed.
Print Assumptions readrange_tensor_spec.
