(* Obligation C01/writerange_tensor_spec.  Statement as printed by Coq from Inferno.C01.RingProofs; proof by reference.
   This file contains nothing else, so the statement cannot be weakened quietly. *)
From Coq Require Import List ZArith Bool Arith Lia.
From Inferno Require Import Gen.Infra C01.Ring C01.RingProofs.
Import ListNotations.
Theorem writerange_tensor_spec : forall (A D : Type) (cast : D -> A -> A),
  (D -> D -> D) ->
  forall (D_eqb : D -> D -> bool) (zeroA : A) (s : ring) (r : rng) 
    (offs : list Z) (osh : list nat) (fwd inplace : bool),
  wf s ->
  full s ->
  let len := range_len r in
  1 <= len <= N s ->
  exists (d : D) (sh : list nat),
    st s = SFull d sh (rows s) /\
    (rect (rows s) (N s) (nel sh) ->
     shape_eqb (rshape r) sh = true ->
     shape_eqb osh sh = true ->
     D_eqb d (rdt r) = true ->
     exists s' : ring,
       writerange_tensor cast D_eqb zeroA s r offs osh fwd inplace = Ok s' OUnit /\
       wf s' /\
       N s' = N s /\
       ptr s' = ptr s /\
       st s' = SFull d sh (rows s') /\
       rect (rows s') (N s) (nel sh) /\
       (forall (k : Z) (e : nat),
        e < nel sh ->
        nth e (at_ s' k) zeroA =
        (let off' := shift_off (nth e offs 0%Z) len fwd in
         if hit s off' k <? len
         then nth (hit s off' k) (nth e (rcols r) []) zeroA
         else nth e (at_ s k) zeroA))).
Proof. exact (@Inferno.C01.RingProofs.writerange_tensor_spec). Qed.
Print Assumptions writerange_tensor_spec.
