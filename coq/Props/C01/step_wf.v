(* Obligation C01/step_wf.  Statement as printed by Coq from Inferno.C01.RingProofs; proof by reference.
   This file contains nothing else, so the statement cannot be weakened quietly. *)
From Coq Require Import List ZArith Bool Arith Lia.
From Inferno Require Import Gen.Infra C01.Ring C01.RingProofs.
Import ListNotations.
Theorem step_wf : forall (A D : Type) (cast : D -> A -> A) (promote : D -> D -> D) 
    (D_eqb : D -> D -> bool) (zeroA : A) (s : ring) (o : op) (s' : ring) 
    (out : output),
  wf s -> step cast promote D_eqb zeroA s o = Ok s' out -> wf s' /\ N s' = N s.
Proof. exact (@Inferno.C01.RingProofs.step_wf). Qed.
Print Assumptions step_wf.
