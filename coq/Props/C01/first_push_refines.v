(* Obligation C01/first_push_refines.  Statement as printed by Coq from Inferno.C01.RingSpec; proof by reference.
   This file contains nothing else, so the statement cannot be weakened quietly. *)
From Coq Require Import List ZArith Bool Arith Lia.
From Inferno Require Import Gen.Infra C01.Ring C01.RingProofs C01.RingSpec.
Import ListNotations.
Theorem first_push_refines : forall (A D : Type) (cast : D -> A -> A) (promote : D -> D -> D) 
    (D_eqb : D -> D -> bool) (zeroA : A) (s : ring) (x : obs) (ip : bool),
  0 < N s ->
  ~ full s ->
  length (oel x) = nel (oshape x) ->
  let t0 := init_spec zeroA (N s) (adopt s x) (oshape x) (map (cast (adopt s x)) (oel x)) in
  exists s' : ring,
    step cast promote D_eqb zeroA s (OpPush x ip) = Ok s' OUnit /\
    wf s' /\ abs s' = Some t0 /\ rectS t0.
Proof. exact (@Inferno.C01.RingSpec.first_push_refines). Qed.
Print Assumptions first_push_refines.
