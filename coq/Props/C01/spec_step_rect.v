(* Obligation C01/spec_step_rect.  Statement as printed by Coq from Inferno.C01.RingSpec; proof by reference.
   This file contains nothing else, so the statement cannot be weakened quietly. *)
From Coq Require Import List ZArith Bool Arith Lia.
From Inferno Require Import Gen.Infra C01.Ring C01.RingProofs C01.RingSpec.
Import ListNotations.
Theorem spec_step_rect : forall (A D : Type) (cast : D -> A -> A) (promote : D -> D -> D) 
    (D_eqb : D -> D -> bool) (zeroA : A) (t : spec) (o : op),
  rectS t -> sp_valid cast promote D_eqb t o -> rectS (fst (spec_step cast zeroA t o)).
Proof. exact (@Inferno.C01.RingSpec.spec_step_rect). Qed.
Print Assumptions spec_step_rect.
