(* Obligation C01/nonvacuous: the hypotheses used by the C01 theorems (wf, full, length bounds) are met by
   a concrete non-trivial state reached by real operations, and the executable model really computes
   on it (so the theorems are not about an empty class of states). *)
From Coq Require Import List ZArith Bool Arith Lia.
From Inferno Require Import Gen.Infra C01.Ring C01.RingProofs C01.RingExec.
Import ListNotations.

Definition s3 : @ring Z Z :=
  fst (@run Z Z castZ promoteZ Z.eqb 0%Z (mkRing 3 0 SNone)
         [OpPush (mkObs 2%Z [2] [1; 2]%Z) false; OpPush (mkObs 2%Z [2] [3; 4]%Z) true;
          OpPush (mkObs 2%Z [2] [5; 6]%Z) false; OpPush (mkObs 2%Z [2] [7; 8]%Z) false]).

Theorem nonvacuous :
  wf s3 /\ full s3 /\ 1 <= 3 <= N s3 /\ ptr s3 = 1 /\
  hist s3 = [[7; 8]; [5; 6]; [3; 4]]%Z /\
  readrange_scalar 0%Z s3 3 1 false = Ok s3 (ORng (mkRng 2%Z [2] [[3; 5; 7]; [4; 6; 8]]%Z)).
Proof.
  assert (E : s3 = mkRing 3 1 (SFull 2%Z [2] [[7; 8]; [3; 4]; [5; 6]]%Z)) by (vm_compute; reflexivity).
  rewrite E. repeat split; cbn; try lia; try exact I.
Qed.
Print Assumptions nonvacuous.
