(* Obligation C01/writerange_spec_is_writes.  Statement as printed by Coq from Inferno.C01.RingSpec; proof by reference.
   This file contains nothing else, so the statement cannot be weakened quietly. *)
From Coq Require Import List ZArith Bool Arith Lia.
From Inferno Require Import Gen.Infra C01.Ring C01.RingProofs C01.RingSpec.
Import ListNotations.
Theorem writerange_spec_is_writes : forall (A D : Type) (cast : D -> A -> A) (zeroA : A) (t : spec) 
    (r : rng) (off : Z) (fwd ip : bool),
  0 < sN t ->
  length (sh t) = sN t ->
  range_len r <= sN t ->
  sh (fst (spec_step cast zeroA t (OpWriteRangeS r off fwd ip))) =
  fold_left
    (fun (h : list (list A)) (j : nat) =>
     sh
       (fst
          (spec_step cast zeroA (with_sh t h)
             (OpWrite {| odt := sd t; oshape := ssh t; oel := col zeroA (rcols r) j |}
                (first_off off (range_len r) fwd - Z.of_nat j) ip)))) 
    (seq 0 (range_len r)) (sh t).
Proof. exact (@Inferno.C01.RingSpec.writerange_spec_is_writes). Qed.
Print Assumptions writerange_spec_is_writes.
