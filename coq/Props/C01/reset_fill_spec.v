(* Obligation C01/reset_fill_spec.  Statement as printed by Coq from Inferno.C01.RingProofs; proof by reference.
   This file contains nothing else, so the statement cannot be weakened quietly. *)
From Coq Require Import List ZArith Bool Arith Lia.
From Inferno Require Import Gen.Infra C01.Ring C01.RingProofs.
Import ListNotations.
Theorem reset_fill_spec : forall (A D : Type) (cast : D -> A -> A),
  (D -> D -> D) ->
  (D -> D -> bool) ->
  forall (s : ring) (f : A),
  wf s ->
  full s ->
  exists (s' : ring) (d : D) (sh : list nat),
    reset cast s (Some f) = Ok s' OUnit /\
    wf s' /\
    N s' = N s /\
    ptr s' = 0 /\
    st s = SFull d sh (rows s) /\
    st s' = SFull d sh (rows s') /\
    (forall k : Z, at_ s' k = map (fun _ : A => cast d f) (at_ s (k + Z.of_nat (ptr s)))).
Proof. exact (@Inferno.C01.RingProofs.reset_fill_spec). Qed.
Print Assumptions reset_fill_spec.
