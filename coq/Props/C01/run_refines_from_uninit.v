(* Obligation C01/run_refines_from_uninit.  Statement as printed by Coq from Inferno.C01.RingSpec; proof by reference.
   This file contains nothing else, so the statement cannot be weakened quietly. *)
From Coq Require Import List ZArith Bool Arith Lia.
From Inferno Require Import Gen.Infra C01.Ring C01.RingProofs C01.RingSpec.
Import ListNotations.
Theorem run_refines_from_uninit : forall (A D : Type) (cast : D -> A -> A) (promote : D -> D -> D) 
    (D_eqb : D -> D -> bool) (zeroA : A) (ops : list op) (s : ring) 
    (x : obs) (ip : bool),
  0 < N s ->
  ~ full s ->
  length (oel x) = nel (oshape x) ->
  let t0 := init_spec zeroA (N s) (adopt s x) (oshape x) (map (cast (adopt s x)) (oel x)) in
  valid_ops cast promote D_eqb zeroA t0 ops ->
  abs (fst (run cast promote D_eqb zeroA s (OpPush x ip :: ops))) =
  Some (fst (spec_run cast zeroA t0 ops)) /\
  map erase (snd (run cast promote D_eqb zeroA s (OpPush x ip :: ops))) =
  inl OUnit :: map inl (snd (spec_run cast zeroA t0 ops)).
Proof. exact (@Inferno.C01.RingSpec.run_refines_from_uninit). Qed.
Print Assumptions run_refines_from_uninit.
