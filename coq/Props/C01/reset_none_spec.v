(* Obligation C01/reset_none_spec.  Statement as printed by Coq from Inferno.C01.RingProofs; proof by reference.
   This file contains nothing else, so the statement cannot be weakened quietly. *)
From Coq Require Import List ZArith Bool Arith Lia.
From Inferno Require Import Gen.Infra C01.Ring C01.RingProofs.
Import ListNotations.
Theorem reset_none_spec : forall (A D : Type) (cast : D -> A -> A),
  (D -> D -> D) ->
  (D -> D -> bool) ->
  A ->
  forall s : ring,
  wf s ->
  full s ->
  exists s' : ring,
    reset cast s None = Ok s' OUnit /\
    wf s' /\ N s' = N s /\ ptr s' = 0 /\ (forall k : Z, at_ s' k = at_ s k).
Proof. exact (@Inferno.C01.RingProofs.reset_none_spec). Qed.
Print Assumptions reset_none_spec.
