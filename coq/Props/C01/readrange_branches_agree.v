(* Obligation C01/readrange_branches_agree.  Statement as printed by Coq from Inferno.C01.RingProofs; proof by reference.
   This file contains nothing else, so the statement cannot be weakened quietly. *)
From Coq Require Import List ZArith Bool Arith Lia.
From Inferno Require Import Gen.Infra C01.Ring C01.RingProofs.
Import ListNotations.
Theorem readrange_branches_agree : forall A D : Type,
  (D -> A -> A) ->
  forall (zeroA : A) (s : ring) (len : nat) (off : Z) (fwd : bool) (offs : list Z),
  wf s ->
  full s ->
  1 <= len <= N s ->
  (forall e : nat, nth e offs 0%Z = off) ->
  exists (d : D) (sh : list nat),
    st s = SFull d sh (rows s) /\
    readrange_tensor zeroA s len offs sh fwd = readrange_scalar zeroA s len off fwd.
Proof. exact (@Inferno.C01.RingProofs.readrange_branches_agree). Qed.
Print Assumptions readrange_branches_agree.
