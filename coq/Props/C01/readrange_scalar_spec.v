(* Obligation C01/readrange_scalar_spec.  Statement as printed by Coq from Inferno.C01.RingProofs; proof by reference.
   This file contains nothing else, so the statement cannot be weakened quietly. *)
From Coq Require Import List ZArith Bool Arith Lia.
From Inferno Require Import Gen.Infra C01.Ring C01.RingProofs.
Import ListNotations.
Theorem readrange_scalar_spec : forall A D : Type,
  (D -> A -> A) ->
  forall (zeroA : A) (s : ring) (len : nat) (off : Z) (fwd : bool),
  wf s ->
  full s ->
  1 <= len <= N s ->
  exists (d : D) (sh : list nat),
    st s = SFull d sh (rows s) /\
    readrange_scalar zeroA s len off fwd =
    Ok s
      (ORng
         {|
           rdt := d;
           rshape := sh;
           rcols :=
             map
               (fun e : nat =>
                map (fun j : nat => nth e (at_ s (shift_off off len fwd - Z.of_nat j)) zeroA)
                  (seq 0 len)) (seq 0 (nel sh))
         |}).
Proof. exact (@Inferno.C01.RingProofs.readrange_scalar_spec). Qed.
Print Assumptions readrange_scalar_spec.
