(* Obligation C01/align_spec.  Statement as printed by Coq from Inferno.C01.RingProofs; proof by reference.
   This file contains nothing else, so the statement cannot be weakened quietly. *)
From Coq Require Import List ZArith Bool Arith Lia.
From Inferno Require Import Gen.Infra C01.Ring C01.RingProofs.
Import ListNotations.
Theorem align_spec : forall A D : Type,
  (D -> A -> A) ->
  (D -> D -> D) ->
  (D -> D -> bool) ->
  A ->
  forall (s : @ring A D) (i : Z),
  @wf A D s ->
  @full A D s ->
  (0 <= i < Z.of_nat (@N A D s))%Z ->
  exists s' : @ring A D,
    @align A D s i = @Ok A D s' (@OUnit A D) /\
    @wf A D s' /\
    @N A D s' = @N A D s /\
    @ptr A D s' = Z.to_nat i /\
    (exists (d : D) (sh : list nat),
       @st A D s = @SFull A D d sh (@rows A D s) /\
       @st A D s' = @SFull A D d sh (@rows A D s')) /\
    (forall k : Z, @at_ A D s' k = @at_ A D s k).
Proof. exact (@Inferno.C01.RingProofs.align_spec). Qed.
Print Assumptions align_spec.
