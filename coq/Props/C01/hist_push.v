(* Obligation C01/hist_push.  Statement as printed by Coq from Inferno.C01.RingProofs; proof by reference.
   This file contains nothing else, so the statement cannot be weakened quietly. *)
From Coq Require Import List ZArith Bool Arith Lia.
From Inferno Require Import Gen.Infra C01.Ring C01.RingProofs.
Import ListNotations.
Theorem hist_push : forall (A D : Type) (cast : D -> A -> A),
  (D -> D -> D) ->
  (D -> D -> bool) ->
  forall (zeroA : A) (s : ring) (o : obs) (inplace : bool),
  wf s ->
  full s ->
  exists (d : D) (sh : list nat),
    st s = SFull d sh (rows s) /\
    (shape_eqb (oshape o) sh = true ->
     exists s' : ring,
       push cast zeroA s o inplace = Ok s' OUnit /\
       wf s' /\
       N s' = N s /\
       st s' = SFull d sh (rows s') /\ hist s' = map (cast d) (oel o) :: removelast (hist s)).
Proof. exact (@Inferno.C01.RingProofs.hist_push). Qed.
Print Assumptions hist_push.
