(* Obligation C01/writerange_tensor_converts.  Statement as printed by Coq from Inferno.C01.RingProofs; proof by reference.
   This file contains nothing else, so the statement cannot be weakened quietly. *)
From Coq Require Import List ZArith Bool Arith Lia.
From Inferno Require Import Gen.Infra C01.Ring C01.RingProofs.
Import ListNotations.
Theorem writerange_tensor_converts : forall (A D : Type) (cast : D -> A -> A) (D_eqb : D -> D -> bool) 
    (zeroA : A) (s : ring) (r : rng) (offs : list Z) (osh : list nat) 
    (fwd inplace : bool) (d : D) (sh : list nat) (rw : list (list A)),
  st s = SFull d sh rw ->
  D_eqb d (rdt r) = false ->
  D_eqb d d = true ->
  writerange_tensor cast D_eqb zeroA s r offs osh fwd inplace =
  writerange_tensor cast D_eqb zeroA s
    {| rdt := d; rshape := rshape r; rcols := map (map (cast d)) (rcols r) |} offs osh fwd
    inplace.
Proof. exact (@Inferno.C01.RingProofs.writerange_tensor_converts). Qed.
Print Assumptions writerange_tensor_converts.
