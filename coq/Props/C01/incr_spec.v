(* Obligation C01/incr_spec.  Statement as printed by Coq from Inferno.C01.RingProofs; proof by reference.
   This file contains nothing else, so the statement cannot be weakened quietly. *)
From Coq Require Import List ZArith Bool Arith Lia.
From Inferno Require Import Gen.Infra C01.Ring C01.RingProofs.
Import ListNotations.
Theorem incr_spec : forall A D : Type,
  (D -> A -> A) ->
  (D -> D -> D) ->
  (D -> D -> bool) ->
  A ->
  forall (s : @ring A D) (j : Z),
  @wf A D s ->
  @full A D s ->
  exists s' : @ring A D,
    @incr A D s j = @Ok A D s' (@OInt A D (Z.of_nat (@ptr A D s'))) /\
    @wf A D s' /\
    @N A D s' = @N A D s /\
    @st A D s' = @st A D s /\ (forall k : Z, @at_ A D s' k = @at_ A D s (k - j)).
Proof. exact (@Inferno.C01.RingProofs.incr_spec). Qed.
Print Assumptions incr_spec.
