(* Obligation C01/write_spec.  Statement as printed by Coq from Inferno.C01.RingProofs; proof by reference.
   This file contains nothing else, so the statement cannot be weakened quietly. *)
From Coq Require Import List ZArith Bool Arith Lia.
From Inferno Require Import Gen.Infra C01.Ring C01.RingProofs.
Import ListNotations.
Theorem write_spec : forall (A D : Type) (cast : D -> A -> A),
  (D -> D -> D) ->
  (D -> D -> bool) ->
  A ->
  forall (s : ring) (o : obs) (off : Z) (inplace : bool),
  wf s ->
  full s ->
  exists (d : D) (sh : list nat),
    st s = SFull d sh (rows s) /\
    (if shape_eqb (oshape o) sh
     then
      exists s' : ring,
        write cast s o off inplace = Ok s' OUnit /\
        N s' = N s /\
        ptr s' = ptr s /\
        st s' = SFull d sh (rows s') /\
        length (rows s') = N s /\
        (forall k : Z,
         at_ s' k =
         (if (k mod Z.of_nat (N s) =? off mod Z.of_nat (N s))%Z
          then map (cast d) (oel o)
          else at_ s k))
     else write cast s o off inplace = Err EValue).
Proof. exact (@Inferno.C01.RingProofs.write_spec). Qed.
Print Assumptions write_spec.
