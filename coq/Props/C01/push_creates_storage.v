(* Obligation C01/push_creates_storage.  Statement as printed by Coq from Inferno.C01.RingProofs; proof by reference.
   This file contains nothing else, so the statement cannot be weakened quietly. *)
From Coq Require Import List ZArith Bool Arith Lia.
From Inferno Require Import Gen.Infra C01.Ring C01.RingProofs.
Import ListNotations.
Theorem push_creates_storage : forall (A D : Type) (cast : D -> A -> A),
  (D -> D -> D) ->
  (D -> D -> bool) ->
  forall (zeroA : A) (s : ring) (o : obs) (inplace : bool),
  0 < N s ->
  ~ full s ->
  let d := match st s with
           | SEmpty e => e
           | _ => odt o
           end in
  exists s' : ring,
    push cast zeroA s o inplace = Ok s' OUnit /\
    wf s' /\
    N s' = N s /\
    st s' = SFull d (oshape o) (rows s') /\
    hist s' = map (cast d) (oel o) :: repeat (repeat zeroA (nel (oshape o))) (N s - 1).
Proof. exact (@Inferno.C01.RingProofs.push_creates_storage). Qed.
Print Assumptions push_creates_storage.
