(* Executable (binary64) instance of the C08 trainer model for the correspondence check, and its serialiser.
   One term per (case, synapse): the accumulator contents after every trainer call and the applied update. *)
From Coq Require Import List ZArith Bool.
From Inferno Require Import Base.Num Base.NumF C08.Stdp.
Import ListNotations.

Definition ser_part (o : option (T FN)) : tree := ser_option ser_float o.
Definition ser_acc (a : option (T FN) * option (T FN)) : tree := Nd [ser_part (fst a); ser_part (snd a)].

(* [0; accumulators after each step; per-step parts; applied update]  or  [1; error code] *)
Definition run_case (c : config FN) (k : nat) (B : nat) (inps : list (list (bool * bool) * signal FN)) : tree :=
  if hp_ok FN c && cfg_ok FN c k then
    let outs := run FN c k (init_batch FN B) inps in
    Nd [L 0; ser_list ser_acc (accumulate FN (None, None) outs); ser_list ser_acc outs;
        ser_part (acc_update FN (final_acc FN outs))]
  else Nd [L 1; L 2].

(* delays given per step (re-assigned between steps) *)
Definition run_case_k (c : config FN) (B : nat) (inps : list (nat * (list (bool * bool) * signal FN))) : tree :=
  if hp_ok FN c && forallb (fun i => cfg_ok FN c (fst i)) inps then
    let outs := run_k FN c (init_batch FN B) inps in
    Nd [L 0; ser_list ser_acc (accumulate FN (None, None) outs); ser_list ser_acc outs;
        ser_part (acc_update FN (final_acc FN outs))]
  else Nd [L 1; L 2].
