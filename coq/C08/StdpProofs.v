(* C08 - proofs (real-number instance): the per-synapse trainer model computes the documented sums over spike
   pairs, for every spike history.  Part 1: the generated trace kernels in closed form. *)
From Coq Require Import List ZArith Reals Bool Lra Lia Arith.
From Inferno Require Import Base.Num Base.NumR Gen.Trace Gen.Infra C08.Stdp C08.StdpSpec.
Import ListNotations.
Open Scope R_scope.
Local Notation exp := Rtrigo_def.exp.

Lemma b2t_RN b : b2t RN b = b2r b.
Proof. destruct b; reflexivity. Qed.
Lemma ov_hd_error (l : list R) : ov (hd_error l) = hd 0 l.
Proof. destruct l; reflexivity. Qed.

(* ------------------------------------------------------------------ one step of the generated kernels *)
Lemma trace_fold_cum d a o st : trace_fold RN Cumulative d a o st = d * ov st + a * b2r o.
Proof.
  unfold trace_fold, trace_cumulative, b2t. rn_simpl.
  destruct o; cbn [b2r]; rcases; try lra; destruct st; cbn [ov]; lra.
Qed.
Lemma trace_fold_near d a o st : trace_fold RN Nearest d a o st = if o then a else d * ov st.
Proof.
  unfold trace_fold, trace_nearest, b2t. rn_simpl.
  destruct o; cbn [b2r]; rcases; try lra; destruct st; cbn [ov]; lra.
Qed.
Lemma elig_fold d sc x st : trace_cumulative_value RN x st d sc = d * ov st + sc * x.
Proof. unfold trace_cumulative_value. rn_simpl. destruct st; cbn [ov]; lra. Qed.

(* ------------------------------------------------------------------ the history of a trace reducer *)
(* states pushed by a trace reducer that observed `obs` (newest first) *)
Fixpoint tvals (m : tmode) (d a : R) (obs : list bool) : list R :=
  match obs with
  | [] => []
  | o :: r => trace_fold RN m d a o (hd_error (tvals m d a r)) :: tvals m d a r
  end.
Lemma push_trace_tvals m d a r o : push_trace RN m d a (tvals m d a r) o = tvals m d a (o :: r).
Proof. reflexivity. Qed.
(* the newest state, 0 when nothing was observed *)
Definition V (m : tmode) (d a : R) (obs : list bool) : R := hd 0 (tvals m d a obs).

Lemma V_nil m d a : V m d a [] = 0.
Proof. reflexivity. Qed.
Lemma V_cum_cons d a o r : V Cumulative d a (o :: r) = d * V Cumulative d a r + a * b2r o.
Proof. unfold V. cbn [tvals hd]. rewrite trace_fold_cum, ov_hd_error. reflexivity. Qed.
Lemma V_near_cons d a o r : V Nearest d a (o :: r) = if o then a else d * V Nearest d a r.
Proof. unfold V. cbn [tvals hd]. rewrite trace_fold_near, ov_hd_error. reflexivity. Qed.
Lemma length_tvals m d a l : length (tvals m d a l) = length l.
Proof. induction l; cbn; congruence. Qed.

(* reading k steps back = the newest state of the history without its k newest observations *)
Lemma nth_tvals m d a : forall k l, nth k (tvals m d a l) 0 = V m d a (skipn k l).
Proof.
  induction k as [|k IH]; intros l.
  - destruct l; reflexivity.
  - destruct l as [|o r]; [reflexivity|]. cbn [tvals nth skipn]. apply IH.
Qed.
(* observations of "no spike" at the beginning of time do not matter *)
Lemma V_app_false m d a j : forall l, V m d a (l ++ repeat false j) = V m d a l.
Proof.
  assert (Z0 : V m d a (repeat false j) = 0).
  { induction j as [|j IH]; [reflexivity|]. cbn [repeat]. destruct m.
    - rewrite V_cum_cons, IH. cbn. lra.
    - rewrite V_near_cons, IH. lra. }
  induction l as [|o r IH]; [exact Z0|]. cbn [app]. destruct m.
  - rewrite !V_cum_cons, IH. reflexivity.
  - rewrite !V_near_cons, IH. reflexivity.
Qed.
(* the amplitude is a factor *)
Lemma V_scale m d a l : V m d a l = a * V m d 1 l.
Proof.
  induction l as [|o r IH]; [cbn; lra|]. destruct m.
  - rewrite !V_cum_cons, IH. lra.
  - rewrite !V_near_cons, IH. destruct o; lra.
Qed.

(* ------------------------------------------------------------------ spike times and sums over them *)
Lemma sum_over_app ts us f : sum_over (ts ++ us) f = sum_over ts f + sum_over us f.
Proof. induction ts as [|t r IH]; cbn; [lra|rewrite IH; lra]. Qed.
Lemma sum_over_ext ts f g : (forall t, In t ts -> f t = g t) -> sum_over ts f = sum_over ts g.
Proof.
  induction ts as [|t r IH]; intros H; cbn; [reflexivity|].
  rewrite (H t (or_introl eq_refl)), IH; [reflexivity|]. intros u Hu. apply H. right. exact Hu.
Qed.
Lemma sum_over_scale ts c f : sum_over ts (fun t => c * f t) = c * sum_over ts f.
Proof. induction ts as [|t r IH]; cbn; [lra|rewrite IH; lra]. Qed.
Lemma sum_over_plus ts f g : sum_over ts (fun t => f t + g t) = sum_over ts f + sum_over ts g.
Proof. induction ts as [|t r IH]; cbn; [lra|rewrite IH; lra]. Qed.
Lemma sum_over_map (h : nat -> nat) ts f : sum_over (map h ts) f = sum_over ts (fun t => f (h t)).
Proof. induction ts as [|t r IH]; cbn; [reflexivity|rewrite IH; reflexivity]. Qed.

Lemma spike_times_lt l t : In t (spike_times l) -> (t < length l)%nat /\ nth t l false = true.
Proof. unfold spike_times. rewrite filter_In, in_seq. intros [H1 H2]. split; [lia|exact H2]. Qed.
Lemma spike_times_snoc l b :
  spike_times (l ++ [b]) = spike_times l ++ (if b then [length l] else []).
Proof.
  unfold spike_times. rewrite app_length. cbn [length]. rewrite Nat.add_1_r, seq_S, filter_app. cbn [Nat.add filter].
  rewrite nth_middle. f_equal.
  apply filter_ext_in. intros t Ht. apply in_seq in Ht. rewrite app_nth1; [reflexivity|lia].
Qed.
Lemma spike_times_nil : spike_times [] = [].
Proof. reflexivity. Qed.
(* every spike time of a train of length <= t+1 is a partner of a spike at step t *)
Lemma partners_le_all src t : (length src <= S t)%nat -> partners_le src t = spike_times src.
Proof.
  intros H. unfold partners_le. rewrite (filter_ext_in _ (fun _ => true)).
  - induction (spike_times src) as [|x r IH]; cbn; congruence.
  - intros s Hs. apply spike_times_lt in Hs. apply Nat.leb_le. lia.
Qed.
(* later spikes are no partners *)
Lemma partners_le_snoc src b t : (t < length src)%nat -> partners_le (src ++ [b]) t = partners_le src t.
Proof.
  intros H. unfold partners_le. rewrite spike_times_snoc, filter_app.
  destruct b; cbn [filter]; [|apply app_nil_r].
  destruct (Nat.leb_spec (length src) t); [lia|apply app_nil_r].
Qed.
Lemma latest_upto_snoc src b n : (n <= length src)%nat -> latest_upto (src ++ [b]) n = latest_upto src n.
Proof.
  induction n as [|n IH]; intros H; [reflexivity|]. cbn [latest_upto].
  rewrite app_nth1 by lia. rewrite IH by lia. reflexivity.
Qed.
Lemma latest_upto_last src b :
  latest_upto (src ++ [b]) (S (length src)) = if b then Some (length src) else latest_upto src (length src).
Proof. cbn [latest_upto]. rewrite nth_middle, latest_upto_snoc by lia. reflexivity. Qed.
Lemma partner_sum_snoc m dt tau src b t :
  (t < length src)%nat -> partner_sum m dt tau (src ++ [b]) t = partner_sum m dt tau src t.
Proof.
  intros H. destruct m; cbn [partner_sum].
  - rewrite partners_le_snoc by exact H. reflexivity.
  - rewrite latest_upto_snoc by lia. reflexivity.
Qed.
(* the sanity of latest_upto: it is the most recent spike before step n *)
Lemma latest_upto_spec src n :
  match latest_upto src n with
  | Some s => (s < n)%nat /\ nth s src false = true /\ (forall u, (s < u < n)%nat -> nth u src false = false)
  | None => forall u, (u < n)%nat -> nth u src false = false
  end.
Proof.
  induction n as [|n IH]; cbn [latest_upto]; [intros u Hu; lia|].
  destruct (nth n src false) eqn:E.
  - repeat split; [lia|exact E|intros u Hu; lia].
  - destruct (latest_upto src n) as [s|].
    + destruct IH as (H1 & H2 & H3). repeat split; [lia|exact H2|].
      intros u Hu. destruct (Nat.eq_dec u n) as [->|]; [exact E|apply H3; lia].
    + intros u Hu. destruct (Nat.eq_dec u n) as [->|]; [exact E|apply IH; lia].
Qed.

(* ------------------------------------------------------------------ pair weights *)
Lemma pairw_same dt tau t : pairw dt tau t t = 1.
Proof. unfold pairw. replace (- ((INR t - INR t) * dt) / tau) with 0 by (unfold Rdiv; ring). apply exp_0. Qed.
Lemma pairw_S dt tau t s : pairw dt tau (S t) s = exp (- dt / tau) * pairw dt tau t s.
Proof.
  unfold pairw. rewrite <- exp_plus. f_equal. rewrite S_INR. unfold Rdiv. ring.
Qed.
Lemma pairw_shift dt tau t s k : pairw dt tau (t + k) (s + k) = pairw dt tau t s.
Proof. unfold pairw. f_equal. rewrite !plus_INR. unfold Rdiv. ring. Qed.
Lemma decay_of_RN dt tc : decay_of RN dt tc = exp (- dt / tc).
Proof. reflexivity. Qed.

(* ------------------------------------------------------------------ closed forms of the trace: THE geometric-trace lemma *)
(* after observing the train l ++ [b] (oldest first) the trace is amplitude * (sum over the spikes of the
   train of exp(-(age) dt / tau)) in cumulative mode, amplitude * exp(-(age of the most recent spike) dt/tau)
   in nearest mode: amplitude * partner_sum at the current step *)
Theorem trace_closed m dt tau a l b :
  V m (exp (- dt / tau)) a (rev (l ++ [b])) = a * partner_sum m dt tau (l ++ [b]) (length l).
Proof.
  revert b. induction l as [|b' l IH] using rev_ind; intros b.
  - cbn [app rev length]. destruct m.
    + rewrite V_cum_cons, V_nil. cbn [partner_sum]. rewrite partners_le_all by (cbn; lia).
      destruct b; cbn; rewrite ?pairw_same; lra.
    + rewrite V_near_cons, V_nil. cbn [partner_sum latest_upto nth]. destruct b; rewrite ?pairw_same; lra.
  - rewrite rev_app_distr. cbn [rev app]. rewrite app_length. cbn [length]. rewrite Nat.add_1_r.
    destruct m.
    + rewrite V_cum_cons, IH. cbn [partner_sum].
      rewrite !partners_le_all by (rewrite ?app_length; cbn; lia).
      rewrite (spike_times_snoc (l ++ [b'])), sum_over_app.
      rewrite (sum_over_ext _ (pairw dt tau (S (length l))) (fun s => exp (- dt / tau) * pairw dt tau (length l) s))
        by (intros; apply pairw_S).
      rewrite sum_over_scale. rewrite app_length. cbn [length]. rewrite Nat.add_1_r.
      destruct b; cbn [sum_over b2r]; rewrite ?pairw_same; lra.
    + rewrite V_near_cons, IH. cbn [partner_sum].
      assert (E : latest_upto ((l ++ [b']) ++ [b]) (S (S (length l)))
                  = if b then Some (S (length l)) else latest_upto (l ++ [b']) (S (length l))).
      { pose proof (latest_upto_last (l ++ [b']) b) as H. rewrite app_length in H. cbn [length] in H.
        rewrite Nat.add_1_r in H. exact H. }
      rewrite E. destruct b; [rewrite pairw_same; lra|].
      destruct (latest_upto (l ++ [b']) (S (length l))); [rewrite pairw_S; lra|lra].
Qed.

(* ------------------------------------------------------------------ the state of one sample after a history *)
Definition net (o : option R * option R) : R := ov (fst o) - ov (snd o).
Fixpoint sum_net (outs : list (option R * option R)) : R :=
  match outs with [] => 0 | o :: tl => net o + sum_net tl end.

(* observed presynaptic train when the reducers observe connection.synspike (newest first) *)
Fixpoint dlist (j : nat) (r : list bool) : list bool :=
  match r with [] => [] | x :: r' => nth j (x :: r') false :: dlist j r' end.
Lemma skipn_cons_nth {A} (d : A) : forall j (r : list A), (j < length r)%nat -> skipn j r = nth j r d :: skipn (S j) r.
Proof.
  induction j as [|j IH]; intros [|x r] H; cbn [length] in H; try lia; [reflexivity|].
  cbn [skipn nth]. rewrite (IH r) by lia. reflexivity.
Qed.
Lemma dlist_skipn j : forall r, dlist j r = skipn j r ++ repeat false (Nat.min j (length r)).
Proof.
  destruct j as [|j].
  - induction r as [|x r IH]; [reflexivity|]. cbn [dlist nth skipn]. cbn [skipn] in IH. rewrite IH.
    cbn. rewrite app_nil_r. reflexivity.
  - induction r as [|x r IH]; [reflexivity|]. cbn [dlist nth skipn length]. rewrite IH.
    destruct (Nat.lt_ge_cases j (length r)) as [H|H].
    + rewrite !Nat.min_l by lia.
      rewrite (skipn_cons_nth false j r H). reflexivity.
    + rewrite nth_overflow by lia. rewrite !skipn_all2 by lia.
      rewrite !Nat.min_r by lia. reflexivity.
Qed.

Lemma rd_small {A} (fill : A) n hist idx : (Z.of_nat idx < n)%Z -> rd fill n hist idx = nth idx hist fill.
Proof. intros H. unfold rd. rewrite Z.mod_small by lia. rewrite Nat2Z.id. reflexivity. Qed.

Section Run.
Variable c : config RN.
Variable k : nat.

(* state of a sample whose (pre, post) history, newest first, is hn *)
Fixpoint state_of (hn : list (bool * bool)) : sstate RN :=
  match hn with
  | [] => s_init RN
  | pq :: r => observe RN c k (state_of r) (fst pq) (snd pq)
  end.
(* outputs of the trainer calls of a single-sample run continuing the history hp *)
Fixpoint outs_from (hp : list (bool * bool)) (hs : list ((bool * bool) * signal RN)) : list (option R * option R) :=
  match hs with
  | [] => []
  | x :: tl => forward RN c k (snd x) [state_of (fst x :: hp)] :: outs_from (fst x :: hp) tl
  end.
Lemma run_outs_from hs : forall hp, run RN c k [state_of hp] (inps1 hs) = outs_from hp hs.
Proof.
  induction hs as [|x tl IH]; intros hp; [reflexivity|].
  change (inps1 (x :: tl)) with (([fst x], snd x) :: inps1 tl).
  cbn [run outs_from]. unfold step. cbn [fst snd combine map]. rewrite <- (IH (fst x :: hp)). reflexivity.
Qed.

(* the delay seen by the reducers: k steps when the connection has (non-zero) delays *)
Definition keff : nat := if delay_truthy RN c then k else O.
Hypothesis Hsyn : delay_truthy RN c = true -> (Z.of_nat k < sz_syn RN c)%Z.

Lemma synspike_eq raw : synspike RN c k raw = nth keff raw false.
Proof.
  unfold synspike, keff. destruct (delay_truthy RN c) eqn:E.
  - specialize (Hsyn eq_refl). destruct (Z.ltb_spec (Z.of_nat k) (sz_syn RN c)); [|lia].
    apply rd_small. assumption.
  - destruct raw; reflexivity.
Qed.

Definition obsP (r : list bool) : list bool := if del_reg RN c then r else dlist keff r.
Lemma obsP_cons x r : obsP (x :: r) = (if del_reg RN c then x else nth keff (x :: r) false) :: obsP r.
Proof. unfold obsP. destruct (del_reg RN c); reflexivity. Qed.

Definition mo := c_mode RN c.
Definition d_pre := exp (- c_dt RN c / c_tc_pre RN c).
Definition d_post := exp (- c_dt RN c / c_tc_post RN c).
Definition d_pre_slow := exp (- c_dt RN c / c_tc_pre_slow RN c).
Definition d_post_slow := exp (- c_dt RN c / c_tc_post_slow RN c).
Definition d_z := exp (- c_dt RN c / c_tc_elig RN c).

Lemma st_raw hn : s_raw_pre RN (state_of hn) = map fst hn.
Proof. induction hn as [|pq r IH]; [reflexivity|]. cbn [state_of map]. unfold observe. cbn [s_raw_pre]. rewrite IH. reflexivity. Qed.
Lemma st_spike_post hn : s_spike_post RN (state_of hn) = map snd hn.
Proof. induction hn as [|pq r IH]; [reflexivity|]. cbn [state_of map]. unfold observe. cbn [s_spike_post]. rewrite IH. reflexivity. Qed.
Lemma st_spike_pre hn : s_spike_pre RN (state_of hn) = obsP (map fst hn).
Proof.
  induction hn as [|pq r IH]; [unfold obsP; destruct (del_reg RN c); reflexivity|].
  cbn [state_of map]. unfold observe. cbn [s_spike_pre]. rewrite IH, st_raw, obsP_cons, synspike_eq. reflexivity.
Qed.
Lemma st_tr_pre hn : s_tr_pre RN (state_of hn) = tvals mo d_pre (amp_pre RN c) (obsP (map fst hn)).
Proof.
  induction hn as [|pq r IH]; [unfold obsP; destruct (del_reg RN c); reflexivity|].
  cbn [state_of map]. unfold observe. cbn [s_tr_pre]. rewrite IH, st_raw, obsP_cons, synspike_eq. reflexivity.
Qed.
Lemma st_tr_post hn : s_tr_post RN (state_of hn) = tvals mo d_post (amp_post RN c) (map snd hn).
Proof.
  induction hn as [|pq r IH]; [reflexivity|].
  cbn [state_of map]. unfold observe. cbn [s_tr_post]. rewrite IH. reflexivity.
Qed.
Lemma st_tr_pre_slow hn : is_triplet RN c = true ->
  s_tr_pre_slow RN (state_of hn) = tvals mo d_pre_slow (amp_pre_slow RN c) (obsP (map fst hn)).
Proof.
  intros Ht. induction hn as [|pq r IH]; [unfold obsP; destruct (del_reg RN c); reflexivity|].
  cbn [state_of map]. unfold observe. cbn [s_tr_pre_slow]. rewrite Ht, IH, st_raw, obsP_cons, synspike_eq. reflexivity.
Qed.
Lemma st_tr_post_slow hn : is_triplet RN c = true ->
  s_tr_post_slow RN (state_of hn) = tvals mo d_post_slow (amp_post_slow RN c) (map snd hn).
Proof.
  intros Ht. induction hn as [|pq r IH]; [reflexivity|].
  cbn [state_of map]. unfold observe. cbn [s_tr_post_slow]. rewrite Ht, IH. reflexivity.
Qed.
End Run.

(* ------------------------------------------------------------------ delayed trains *)
Lemma rev_repeat {A} (x : A) n : rev (repeat x n) = repeat x n.
Proof.
  induction n as [|n IH]; [reflexivity|]. cbn [repeat rev]. rewrite IH. clear IH.
  induction n as [|n IH]; [reflexivity|]. cbn [repeat app]. rewrite IH. reflexivity.
Qed.
Lemma shift_rev_dlist j L : shift j L = rev (dlist j (rev L)).
Proof.
  rewrite dlist_skipn, rev_app_distr, rev_repeat, skipn_rev, rev_involutive, rev_length. reflexivity.
Qed.
Lemma shift_snoc j L x : shift j (L ++ [x]) = shift j L ++ [nth j (x :: rev L) false].
Proof. rewrite !shift_rev_dlist, rev_app_distr. cbn [rev app dlist]. reflexivity. Qed.
Lemma shift_length j L : length (shift j L) = length L.
Proof. rewrite shift_rev_dlist, rev_length. generalize (rev_length L). generalize (rev L). intros r.
  revert L. induction r as [|x r IH]; intros L H; cbn [dlist length] in *; [exact H|].
  destruct L as [|y L]; [discriminate|]. cbn [length] in *. f_equal. apply (IH L). lia.
Qed.
Lemma shift_0 L : shift 0 L = L.
Proof. unfold shift. cbn. rewrite Nat.sub_0_r, firstn_all. reflexivity. Qed.
(* the spike times of the delayed train are the spike times shifted by the delay (those that still fit) *)
Lemma filter_map_swap' {A B} (f : B -> bool) (g : A -> B) l : filter f (map g l) = map g (filter (fun a => f (g a)) l).
Proof. induction l as [|x l IH]; [reflexivity|]. cbn [map filter]. destruct (f (g x)); cbn [map]; rewrite IH; reflexivity. Qed.
Lemma spike_times_repeat_false j M : spike_times (repeat false j ++ M) = map (fun s => (s + j)%nat) (spike_times M).
Proof.
  induction j as [|j IH].
  - cbn [repeat app]. rewrite (map_ext _ (fun s => s)) by (intros; lia). rewrite map_id. reflexivity.
  - cbn [repeat app]. unfold spike_times in *. cbn [length]. rewrite <- cons_seq. cbn [filter nth].
    rewrite <- seq_shift, filter_map_swap'. cbn [nth]. rewrite IH, map_map. apply map_ext. intros; lia.
Qed.

Lemma skipn_plus1 {A} : forall k (l : list A), skipn (k + 1) l = skipn 1 (skipn k l).
Proof.
  induction k as [|k IH]; intros l; [reflexivity|]. destruct l as [|x l]; [reflexivity|].
  cbn [Nat.add skipn]. apply IH.
Qed.
Lemma V_skipn1_app_false m d a j l : V m d a (skipn 1 (l ++ repeat false j)) = V m d a (skipn 1 l).
Proof.
  destruct l as [|x l]; cbn [app skipn].
  - destruct j as [|j]; [reflexivity|]. cbn [repeat skipn]. apply (V_app_false m d a j []).
  - apply V_app_false.
Qed.

(* ------------------------------------------------------------------ what the trainers read *)
Section Reads.
Variable c : config RN.
Variable k : nat.
Hypothesis Hsyn : delay_truthy RN c = true -> (Z.of_nat k < sz_syn RN c)%Z.
Hypothesis Hoff : c_off RN c = None.
Local Notation kf := (keff c k).
Local Notation oP := (obsP c k).

Lemma del_fwd_true : del_fwd RN c = true -> del_reg RN c = true /\ delay_truthy RN c = true.
Proof.
  unfold del_fwd, del_reg, delay_truthy, has_delay. destruct (delay_aware RN c), (c_delayed RN c), (c_delayedby RN c); cbn; intros H; try discriminate; auto.
Qed.
Lemma del_reg_not_fwd : del_reg RN c = true -> del_fwd RN c = false -> delay_truthy RN c = false.
Proof.
  unfold del_fwd, del_reg. destruct (delay_aware RN c), (c_delayed RN c); cbn; intros H1 H2; try discriminate; auto.
Qed.

(* x_pre / x_a: view(selector) in the delayed mode, peek otherwise *)
Lemma read_trace m d a tc sz r :
  (del_fwd RN c = true -> (Z.of_nat k < sz)%Z) ->
  (if del_fwd RN c then view RN (c_off RN c) (c_dt RN c) tc sz (tvals m d a (oP r)) k else hd 0 (tvals m d a (oP r)))
  = V m d a (skipn kf r).
Proof.
  intros Hsz. unfold view. rewrite Hoff. unfold obsP, keff. destruct (del_fwd RN c) eqn:Ef.
  - destruct (del_fwd_true Ef) as [-> ->]. rewrite rd_small by (apply Hsz; reflexivity). apply nth_tvals.
  - destruct (del_reg RN c) eqn:Er.
    + rewrite (del_reg_not_fwd Er Ef). reflexivity.
    + rewrite dlist_skipn. apply V_app_false.
Qed.
(* i_pre / x: the spike indicator *)
Lemma read_spike sz r :
  (del_fwd RN c = true -> (Z.of_nat k < sz)%Z) ->
  (if del_fwd RN c then rd false sz (oP r) k else hd false (oP r)) = nth kf r false.
Proof.
  intros Hsz. unfold obsP, keff. destruct (del_fwd RN c) eqn:Ef.
  - destruct (del_fwd_true Ef) as [-> ->]. apply rd_small. apply Hsz; reflexivity.
  - destruct (del_reg RN c) eqn:Er.
    + rewrite (del_reg_not_fwd Er Ef). destruct r; reflexivity.
    + destruct r as [|x r]; [destruct (if delay_truthy RN c then k else 0%nat); reflexivity|reflexivity].
Qed.
(* x_b: the slow presynaptic trace one step earlier (select(offset=2) / read(2)) *)
Lemma read_slow m d a tc sz r :
  (del_fwd RN c = true -> (Z.of_nat (k + 1) < sz)%Z) -> (1 < sz)%Z ->
  (if del_fwd RN c then view RN (c_off RN c) (c_dt RN c) tc sz (tvals m d a (oP r)) (k + 1) else rd 0 sz (tvals m d a (oP r)) 1)
  = V m d a (skipn 1 (skipn kf r)).
Proof.
  intros Hsz H1. unfold view. rewrite Hoff. unfold obsP, keff. destruct (del_fwd RN c) eqn:Ef.
  - destruct (del_fwd_true Ef) as [-> ->]. rewrite rd_small by (apply Hsz; reflexivity).
    rewrite nth_tvals, skipn_plus1. reflexivity.
  - rewrite rd_small by exact H1. rewrite nth_tvals. destruct (del_reg RN c) eqn:Er.
    + rewrite (del_reg_not_fwd Er Ef). reflexivity.
    + rewrite dlist_skipn. apply V_skipn1_app_false.
Qed.
End Reads.

(* ------------------------------------------------------------------ routing and reductions *)
Lemma sgn_abs x : sgn x * Rabs x = x.
Proof.
  unfold sgn, nonneg, geb. rn_simpl. rcases.
  - rewrite Rabs_right by lra. lra.
  - rewrite Rabs_left by lra. lra.
Qed.
Lemma sgn_abs_mul x b p : sgn x * (b * (Rabs x * p)) = x * (b * p).
Proof. transitivity ((sgn x * Rabs x) * (b * p)); [ring|rewrite sgn_abs; reflexivity]. Qed.
Lemma net_route bp bq x y :
  net (route RN bp bq x y) = (if bp then 1 else -1) * x + (if bq then 1 else -1) * y.
Proof. destruct bp, bq; unfold net, route; cbn [fst snd ov]; rn_simpl; lra. Qed.
Lemma reduce_single r x : reduce RN r [x] = x.
Proof.
  destruct r; cbn [reduce tsum tmaxl length]; rn_simpl; try lra.
  change (IZR (Z.of_nat 1)) with 1. unfold Rdiv. rewrite Rinv_1. lra.
Qed.

Section Steps.
Variable c : config RN.
Variable k : nat.
Hypothesis Hsyn : delay_truthy RN c = true -> (Z.of_nat k < sz_syn RN c)%Z.
Hypothesis Hpre : del_fwd RN c = true -> (Z.of_nat k < sz_tr_pre RN c)%Z /\ (Z.of_nat k < sz_spike_pre RN c)%Z.
Hypothesis Hoff : c_off RN c = None.
Local Notation kf := (keff c k).
Local Notation dt := (c_dt RN c).
Local Notation m := (c_mode RN c).

(* single sample, no signal: the net update is the signed sum of the two partial updates *)
Lemma net_forward_none s :
  net (forward RN c k (SigNone RN) [s])
  = sgn (c_lr_post RN c) * fst (partials RN c k s) + sgn (c_lr_pre RN c) * snd (partials RN c k s).
Proof.
  unfold forward. cbn [map]. rewrite !reduce_single, net_route. reflexivity.
Qed.
Lemma net_forward_scalar s sv scale :
  net (forward RN c k (SigScalar RN sv scale) [s])
  = sgn (c_lr_post RN c * sv) * (fst (partials RN c k s) * Rabs (sv * scale))
    + sgn (c_lr_pre RN c * sv) * (snd (partials RN c k s) * Rabs (sv * scale)).
Proof.
  unfold forward. cbn [map]. rewrite !reduce_single, net_route. reflexivity.
Qed.

(* the traces and indicators at the current step, for a history h0 ++ [pq] given oldest first *)
Definition Ptr (h : list (bool * bool)) : list bool := shift kf (map fst h).   (* delayed presynaptic train *)
Definition Qtr (h : list (bool * bool)) : list bool := map snd h.               (* postsynaptic train *)

Lemma Ptr_snoc h0 pq : Ptr (h0 ++ [pq]) = Ptr h0 ++ [nth kf (rev (map fst (h0 ++ [pq]))) false].
Proof. unfold Ptr. rewrite map_app. cbn [map]. rewrite shift_snoc, rev_app_distr. reflexivity. Qed.
Lemma Ptr_length h : length (Ptr h) = length h.
Proof. unfold Ptr. rewrite shift_length, map_length. reflexivity. Qed.
Lemma Qtr_snoc h0 pq : Qtr (h0 ++ [pq]) = Qtr h0 ++ [snd pq].
Proof. unfold Qtr. rewrite map_app. reflexivity. Qed.
Lemma Qtr_length h : length (Qtr h) = length h.
Proof. apply map_length. Qed.

Lemma pre_trace_now tau a h0 pq :
  V m (exp (- dt / tau)) a (skipn kf (rev (map fst (h0 ++ [pq]))))
  = a * partner_sum m dt tau (Ptr (h0 ++ [pq])) (length h0).
Proof.
  rewrite <- (V_app_false _ _ _ (Nat.min kf (length (rev (map fst (h0 ++ [pq])))))), <- dlist_skipn.
  rewrite <- (rev_involutive (dlist _ _)), <- shift_rev_dlist. fold (Ptr (h0 ++ [pq])).
  rewrite Ptr_snoc. rewrite trace_closed, Ptr_length. reflexivity.
Qed.
Lemma post_trace_now tau a h0 pq :
  V m (exp (- dt / tau)) a (rev (map snd (h0 ++ [pq])))
  = a * partner_sum m dt tau (Qtr (h0 ++ [pq])) (length h0).
Proof. fold (Qtr (h0 ++ [pq])). rewrite Qtr_snoc, trace_closed, Qtr_length. reflexivity. Qed.
Lemma pre_spike_now h0 pq :
  nth kf (rev (map fst (h0 ++ [pq]))) false = nth (length h0) (Ptr (h0 ++ [pq])) false.
Proof. rewrite Ptr_snoc. replace (length h0) with (length (Ptr h0)) by apply Ptr_length. rewrite nth_middle. reflexivity. Qed.
Lemma post_spike_now h0 pq :
  hd false (rev (map snd (h0 ++ [pq]))) = nth (length h0) (Qtr (h0 ++ [pq])) false.
Proof.
  unfold Qtr. rewrite map_app. cbn [map]. replace (length h0) with (length (map snd h0)) by apply map_length.
  rewrite nth_middle, rev_app_distr. reflexivity.
Qed.

(* the contribution of step t documented for pair-based STDP:
   eta_post [post spike at t] (sum over its partners) + eta_pre [pre spike arriving at t] (sum over its partners) *)
Definition contrib (h : list (bool * bool)) (t : nat) : R :=
  c_lr_post RN c * (b2r (nth t (Qtr h) false) * partner_sum m dt (c_tc_pre RN c) (Ptr h) t)
  + c_lr_pre RN c * (b2r (nth t (Ptr h) false) * partner_sum m dt (c_tc_post RN c) (Qtr h) t).

Lemma partials_stdp h0 pq :
  c_trainer RN c = STDP \/ c_trainer RN c = MSTDP \/ c_trainer RN c = StableSTDP ->
  let h := h0 ++ [pq] in
  partials RN c k (state_of c k (rev h))
  = (b2r (nth (length h0) (Qtr h) false) * (Rabs (c_lr_post RN c) * partner_sum m dt (c_tc_pre RN c) (Ptr h) (length h0)),
     b2r (nth (length h0) (Ptr h) false) * (Rabs (c_lr_pre RN c) * partner_sum m dt (c_tc_post RN c) (Qtr h) (length h0))).
Proof.
  intros Ht h.
  unfold partials. destruct Ht as [E | [E | E]]; rewrite E; cbv zeta;
  rewrite st_tr_pre, st_tr_post, st_spike_pre, st_spike_post by exact Hsyn;
  rewrite (read_trace c k Hoff) by (intros E'; apply Hpre; exact E');
  rewrite (read_spike c k) by (intros E'; apply Hpre; exact E');
  rewrite !map_rev;
  change (hd (zero RN) (tvals (mo c) (d_post c) (amp_post RN c) (rev (map snd h))))
    with (V (mo c) (d_post c) (amp_post RN c) (rev (map snd h)));
  unfold mo, d_pre, d_post, h; rewrite pre_trace_now, post_trace_now, pre_spike_now, post_spike_now;
  unfold amp_pre, amp_post, is_stable; rewrite E; rn_simpl; rewrite (b2t_RN (nth (length h0) (Ptr (h0 ++ [pq])) false)); rewrite (b2t_RN (nth (length h0) (Qtr (h0 ++ [pq])) false)); f_equal; ring.
Qed.
End Steps.

(* ------------------------------------------------------------------ sums over steps, accumulators *)
Lemma sum_steps_ext n f g : (forall t, (t < n)%nat -> f t = g t) -> sum_steps n f = sum_steps n g.
Proof. induction n as [|n IH]; intros H; cbn; [reflexivity|]. rewrite IH, H by (intros; try apply H; lia). reflexivity. Qed.
Lemma sum_steps_plus n f g : sum_steps n (fun t => f t + g t) = sum_steps n f + sum_steps n g.
Proof. induction n as [|n IH]; cbn; [lra|rewrite IH; lra]. Qed.
Lemma sum_steps_scale n a f : sum_steps n (fun t => a * f t) = a * sum_steps n f.
Proof. induction n as [|n IH]; cbn; [lra|rewrite IH; lra]. Qed.
(* a sum over the spike times of a train = a sum over all steps weighted by the spike indicator *)
Lemma sum_over_spike_times l f :
  sum_over (spike_times l) f = sum_steps (length l) (fun t => b2r (nth t l false) * f t).
Proof.
  induction l as [|b l IH] using rev_ind; [reflexivity|].
  rewrite spike_times_snoc, sum_over_app, IH, app_length. cbn [length]. rewrite Nat.add_1_r. cbn [sum_steps].
  rewrite nth_middle. f_equal.
  - apply sum_steps_ext. intros t Ht. rewrite app_nth1 by exact Ht. reflexivity.
  - destruct b; cbn; lra.
Qed.

Lemma sum_net_app a b : sum_net (a ++ b) = sum_net a + sum_net b.
Proof. induction a as [|o a IH]; cbn; [lra|rewrite IH; lra]. Qed.
Lemma ov_acc_add a x : ov (acc_add RN a x) = ov a + ov x.
Proof. destruct a, x; cbn; rn_simpl; lra. Qed.
Lemma ov_acc_update a : ov (acc_update RN a) = ov (fst a) - ov (snd a).
Proof. destruct a as [[p|] [n|]]; cbn; rn_simpl; lra. Qed.
Lemma last_cons {A} (x d : A) l : last (x :: l) d = last l x.
Proof.
  revert x d. induction l as [|y l IH]; intros x d; [reflexivity|].
  change (last (x :: y :: l) d) with (last (y :: l) d). rewrite !IH. reflexivity.
Qed.
Lemma net_accumulate outs : forall a,
  net (last (accumulate RN a outs) a) = net a + sum_net outs.
Proof.
  induction outs as [|o tl IH]; intros a; [cbn [accumulate last sum_net]; rewrite Rplus_0_r; reflexivity|].
  cbn [accumulate sum_net]. rewrite last_cons, IH. unfold net. cbn [fst snd]. rewrite !ov_acc_add. rn_simpl. lra.
Qed.
(* the weight change applied by Accumulator.update (0 when there is no update) is the sum of the net parts *)
Lemma weight_change_sum outs : ov (acc_update RN (final_acc RN outs)) = sum_net outs.
Proof.
  rewrite ov_acc_update. unfold final_acc. pose proof (net_accumulate outs (None, None)) as H.
  unfold net in H. cbn [fst snd ov] in H. rn_simpl. lra.
Qed.


Section Totals.
Variable c : config RN.
Variable k : nat.
Hypothesis Hsyn : delay_truthy RN c = true -> (Z.of_nat k < sz_syn RN c)%Z.
Hypothesis Hpre : del_fwd RN c = true -> (Z.of_nat k < sz_tr_pre RN c)%Z /\ (Z.of_nat k < sz_spike_pre RN c)%Z.
Hypothesis Hoff : c_off RN c = None.
Local Notation dt := (c_dt RN c).
Local Notation m := (c_mode RN c).

Lemma outs_from_snoc hs x : forall hp,
  outs_from c k hp (hs ++ [x])
  = outs_from c k hp hs ++ [forward RN c k (snd x) [state_of c k (fst x :: rev (map fst hs) ++ hp)]].
Proof.
  induction hs as [|y tl IH]; intros hp; [reflexivity|].
  cbn [app outs_from map rev]. rewrite IH, <- app_assoc. reflexivity.
Qed.
Lemma outs_from_snoc0 hs x :
  outs_from c k [] (hs ++ [x])
  = outs_from c k [] hs ++ [forward RN c k (snd x) [state_of c k (rev (map fst (hs ++ [x])))]].
Proof. rewrite outs_from_snoc, app_nil_r, map_app, rev_app_distr. reflexivity. Qed.
Lemma run_single hs : run RN c k (init_batch RN 1) (inps1 hs) = outs_from c k [] hs.
Proof. apply (run_outs_from c k hs []). Qed.

Lemma contrib_prefix h pq t : (t < length h)%nat -> contrib c k (h ++ [pq]) t = contrib c k h t.
Proof.
  intros Ht. unfold contrib. rewrite Ptr_snoc, Qtr_snoc.
  rewrite !app_nth1 by (rewrite ?Ptr_length, ?Qtr_length; exact Ht).
  rewrite !partner_sum_snoc by (rewrite ?Ptr_length, ?Qtr_length; exact Ht). reflexivity.
Qed.
(* the documented per-step contributions add up to the two sums over spike pairs *)
Lemma contrib_pairsum h :
  sum_steps (length h) (contrib c k h)
  = c_lr_post RN c * pairsum m dt (c_tc_pre RN c) (fun _ => 1) (Qtr h) (Ptr c k h)
    + c_lr_pre RN c * pairsum m dt (c_tc_post RN c) (fun _ => 1) (Ptr c k h) (Qtr h).
Proof.
  unfold contrib, pairsum. rewrite !sum_over_spike_times, Ptr_length, Qtr_length.
  rewrite sum_steps_plus, !sum_steps_scale. f_equal; f_equal; apply sum_steps_ext; intros; lra.
Qed.

(* ---- STDP ---- *)
Lemma stdp_steps h : c_trainer RN c = STDP \/ c_trainer RN c = StableSTDP ->
  sum_net (outs_from c k [] (nosig h)) = sum_steps (length h) (contrib c k h).
Proof.
  intros Ht.
  assert (Ht' : c_trainer RN c = STDP \/ c_trainer RN c = MSTDP \/ c_trainer RN c = StableSTDP) by (destruct Ht; auto). induction h as [|pq h IH] using rev_ind; [reflexivity|].
  unfold nosig in *. rewrite map_app. cbn [map]. rewrite outs_from_snoc0, sum_net_app, IH. cbn [sum_net snd].
  rewrite app_length. cbn [length]. rewrite Nat.add_1_r. cbn [sum_steps].
  rewrite (sum_steps_ext _ (contrib c k (h ++ [pq])) (contrib c k h)) by (intros; apply contrib_prefix; assumption).
  rewrite (map_app fst), map_map. cbn [map fst]. rewrite map_id.
  rewrite net_forward_none, (partials_stdp c k Hsyn Hpre Hoff h pq Ht'). cbn [fst snd].
  unfold contrib.
  rewrite !sgn_abs_mul. lra.
Qed.
End Totals.

(* ------------------------------------------------------------------ delays on the step grid: record sizes *)

Lemma recsz_grid dt n : 0 < dt -> recsz RN (INR n * dt) dt = (Z.of_nat n + 1)%Z.
Proof.
  intros H. unfold recsz, recordsz_expr. rn_simpl.
  replace (INR n * dt / dt) with (INR n) by (field; lra).
  rewrite INR_IZR_INZ, Flocq.Core.Raux.Zceil_IZR. cbn [Z.b2z]. lia.
Qed.
Lemma recsz_grid_S dt n : 0 < dt -> recsz RN (INR n * dt + dt) dt = (Z.of_nat n + 2)%Z.
Proof.
  intros H. replace (INR n * dt + dt) with (INR (S n) * dt) by (rewrite S_INR; ring).
  rewrite recsz_grid by exact H. lia.
Qed.
Lemma recsz_zero dt : 0 < dt -> recsz RN 0 dt = 1%Z.
Proof. intros H. replace 0 with (INR 0 * dt) by (cbn; ring). rewrite recsz_grid by exact H. reflexivity. Qed.
Lemma recsz_one dt : 0 < dt -> recsz RN dt dt = 2%Z.
Proof. intros H. replace dt with (INR 1 * dt) at 1 by (cbn; ring). rewrite recsz_grid by exact H. reflexivity. Qed.
Lemma recsz_two dt : 0 < dt -> recsz RN (IZR 2 * dt) dt = 3%Z.
Proof. intros H. replace (IZR 2) with (INR 2) by (cbn; ring). rewrite recsz_grid by exact H. reflexivity. Qed.

Section Grid.
Variable c : config RN.
Variable k : nat.
Hypothesis G : grid_ok c k.

Lemma grid_syn : delay_truthy RN c = true -> (Z.of_nat k < sz_syn RN c)%Z.
Proof.
  destruct (proj2 G) as [Hdt [E | (kmax & E & Hk)]]; unfold delay_truthy, sz_syn, delayedby0; rewrite E; [discriminate|].
  intros _. rewrite recsz_grid by exact Hdt. lia.
Qed.
Lemma grid_pre : del_fwd RN c = true -> (Z.of_nat k < sz_tr_pre RN c)%Z /\ (Z.of_nat k < sz_spike_pre RN c)%Z.
Proof.
  intros Ef. destruct (del_fwd_true c Ef) as [Er Et]. unfold sz_tr_pre, sz_spike_pre. rewrite Er.
  destruct (proj2 G) as [Hdt [E | (kmax & E & Hk)]]; unfold delay_truthy, delayedby0 in *; rewrite E in *; [discriminate|].
  rewrite recsz_grid by exact Hdt. lia.
Qed.
Lemma grid_pre_slow :
  (del_fwd RN c = true -> (Z.of_nat (k + 1) < sz_tr_pre_slow RN c)%Z) /\ (1 < sz_tr_pre_slow RN c)%Z
  /\ (1 < sz_tr_post_slow RN c)%Z.
Proof.
  destruct (proj2 G) as [Hdt HG]. unfold sz_tr_post_slow, two_dt. rn_simpl. rewrite recsz_two by exact Hdt.
  split; [|split; [|lia]].
  - intros Ef. destruct (del_fwd_true c Ef) as [Er Et]. unfold sz_tr_pre_slow. rewrite Er.
    destruct HG as [E | (kmax & E & Hk)]; unfold delay_truthy, delayedby0 in *; rewrite E in *; [discriminate|].
    rn_simpl. rewrite recsz_grid_S by exact Hdt. lia.
  - unfold sz_tr_pre_slow. destruct (del_reg RN c) eqn:Er.
    + destruct HG as [E | (kmax & E & Hk)]; unfold del_reg, has_delay, delayedby0 in *; rewrite E in *.
      * rewrite !andb_false_r in Er. discriminate.
      * rn_simpl. rewrite recsz_grid_S by exact Hdt. lia.
    + unfold two_dt. rn_simpl. rewrite recsz_two by exact Hdt. lia.
Qed.
(* the delay the reducers see: k steps on a connection with delays, none otherwise *)
Lemma keff_grid : keff c k = if has_delay RN c then k else O.
Proof.
  unfold keff, delay_truthy, has_delay. destruct (proj2 G) as [Hdt [E | (kmax & E & Hk)]]; rewrite E; [reflexivity|].
  rn_simpl. destruct (Reqb'_spec (INR kmax * c_dt RN c) 0) as [H|H]; cbn [negb]; [|reflexivity].
  assert (Hz : INR kmax = INR 0) by (cbn; nra). apply INR_eq in Hz. subst kmax. lia.
Qed.
End Grid.

(* ================================================================== STDP / StableSTDP *)

Theorem stdp_pairsum c k h :
  c_trainer RN c = STDP \/ c_trainer RN c = StableSTDP -> grid_ok c k ->
  weight_change c k (nosig h)
  = c_lr_post RN c * pairsum (c_mode RN c) (c_dt RN c) (c_tc_pre RN c) (fun _ => 1) (post_train h) (pre_train c k h)
    + c_lr_pre RN c * pairsum (c_mode RN c) (c_dt RN c) (c_tc_post RN c) (fun _ => 1) (pre_train c k h) (post_train h).
Proof.
  intros Ht G. unfold weight_change. rewrite weight_change_sum, run_single.
  rewrite (stdp_steps c k (grid_syn c k G) (grid_pre c k G) (proj1 G) h Ht), (contrib_pairsum c k h).
  unfold Ptr, Qtr, pre_train, post_train. rewrite (keff_grid c k G). reflexivity.
Qed.

(* cumulative mode, spelled out: every post spike at step tp pairs with EVERY presynaptic spike that has arrived
   (arrival step tq <= tp), weight eta_post exp(-(tp - tq) dt / tau_pre); mirror image for every arriving presynaptic spike *)
Theorem stdp_cumulative_pairsum c k h :
  c_trainer RN c = STDP \/ c_trainer RN c = StableSTDP -> c_mode RN c = Cumulative -> grid_ok c k ->
  weight_change c k (nosig h)
  = c_lr_post RN c *
      sum_over (spike_times (post_train h)) (fun tp =>
        sum_over (filter (fun tq => tq <=? tp) (spike_times (pre_train c k h))) (fun tq =>
          Rtrigo_def.exp (- ((INR tp - INR tq) * c_dt RN c) / c_tc_pre RN c)))
    + c_lr_pre RN c *
      sum_over (spike_times (pre_train c k h)) (fun tq =>
        sum_over (filter (fun tp => tp <=? tq) (spike_times (post_train h))) (fun tp =>
          Rtrigo_def.exp (- ((INR tq - INR tp) * c_dt RN c) / c_tc_post RN c))).
Proof.
  intros Ht Hm G. rewrite (stdp_pairsum c k h Ht G), Hm. unfold pairsum. cbn [partner_sum]. unfold partners_le, pairw.
  f_equal; f_equal; apply sum_over_ext; intros; lra.
Qed.
(* nearest mode: only the most recent partner *)
Theorem stdp_nearest_pairsum c k h :
  c_trainer RN c = STDP \/ c_trainer RN c = StableSTDP -> c_mode RN c = Nearest -> grid_ok c k ->
  weight_change c k (nosig h)
  = c_lr_post RN c *
      sum_over (spike_times (post_train h)) (fun tp =>
        match latest_upto (pre_train c k h) (S tp) with
        | Some tq => Rtrigo_def.exp (- ((INR tp - INR tq) * c_dt RN c) / c_tc_pre RN c)
        | None => 0
        end)
    + c_lr_pre RN c *
      sum_over (spike_times (pre_train c k h)) (fun tq =>
        match latest_upto (post_train h) (S tq) with
        | Some tp => Rtrigo_def.exp (- ((INR tq - INR tp) * c_dt RN c) / c_tc_post RN c)
        | None => 0
        end).
Proof.
  intros Ht Hm G. rewrite (stdp_pairsum c k h Ht G), Hm. unfold pairsum. cbn [partner_sum]. unfold pairw.
  f_equal; f_equal; apply sum_over_ext; intros; lra.
Qed.

(* the delayed and the delay-frozen trainer modes compute the same weight change (delays on the step grid) *)
Theorem stdp_delayed_modes_agree c k h :
  c_trainer RN c = STDP \/ c_trainer RN c = StableSTDP -> grid_ok c k ->
  weight_change (set_delayed c true) k (nosig h) = weight_change (set_delayed c false) k (nosig h).
Proof.
  intros Ht G. rewrite !stdp_pairsum by (try exact Ht; exact G). reflexivity.
Qed.

(* the spike times of the delayed train: the original spike times plus the delay (those that still fit) *)
Lemma spike_times_firstn n l : spike_times (firstn n l) = filter (fun s => s <? n) (spike_times l).
Proof.
  revert n. induction l as [|b l IH] using rev_ind; intros n; [rewrite firstn_nil; reflexivity|].
  destruct (Nat.le_gt_cases n (length l)) as [H|H].
  - rewrite firstn_app. replace (n - length l)%nat with O by lia. cbn [firstn]. rewrite app_nil_r, IH.
    rewrite spike_times_snoc, filter_app. destruct b; cbn [filter]; [|rewrite app_nil_r; reflexivity].
    destruct (Nat.ltb_spec (length l) n); [lia|]. rewrite app_nil_r. reflexivity.
  - rewrite firstn_all2 by (rewrite app_length; cbn; lia).
    symmetry. rewrite (filter_ext_in _ (fun _ => true)).
    + induction (spike_times (l ++ [b])) as [|x r IHr]; cbn; congruence.
    + intros s Hs. apply spike_times_lt in Hs. rewrite app_length in Hs. cbn in Hs. apply Nat.ltb_lt. lia.
Qed.
Theorem spike_times_shift j l :
  spike_times (shift j l) = map (fun s => (s + j)%nat) (filter (fun s => s + j <? length l) (spike_times l)).
Proof.
  unfold shift. destruct (Nat.le_gt_cases j (length l)) as [H|H].
  - rewrite Nat.min_l by exact H. rewrite spike_times_repeat_false, spike_times_firstn. f_equal.
    apply filter_ext_in. intros s Hs. apply spike_times_lt in Hs.
    destruct (Nat.ltb_spec s (length l - j)), (Nat.ltb_spec (s + j) (length l)); try reflexivity; lia.
  - rewrite Nat.min_r by lia. replace (length l - j)%nat with O by lia. cbn [firstn]. rewrite app_nil_r.
    assert (E : spike_times (repeat false (length l)) = []).
    { pose proof (spike_times_repeat_false (length l) []) as E. rewrite app_nil_r in E. exact E. }
    rewrite E. symmetry. rewrite (filter_ext_in _ (fun _ => false)).
    + induction (spike_times l) as [|x r IHr]; cbn; congruence.
    + intros s Hs. apply Nat.ltb_ge. lia.
Qed.

(* ================================================================== MSTDP (scalar signal) *)

Lemma sgn_mul_abs x s g : sgn (x * s) * (Rabs x * Rabs (s * g)) = x * (s * Rabs g).
Proof.
  rewrite Rabs_mult. transitivity ((sgn (x * s) * Rabs (x * s)) * Rabs g); [rewrite (Rabs_mult x s); ring|].
  rewrite sgn_abs. ring.
Qed.

Lemma withsig_snoc hx x : withsig (hx ++ [x]) = withsig hx ++ [(fst x, SigScalar RN (fst (snd x)) (snd (snd x)))].
Proof. unfold withsig. rewrite map_app. reflexivity. Qed.
Lemma withsig_fst hx : map fst (withsig hx) = map fst hx.
Proof. unfold withsig. rewrite map_map. reflexivity. Qed.

Section MSTDP.
Variable c : config RN.
Variable k : nat.
Hypothesis G : grid_ok c k.
Hypothesis Ht : c_trainer RN c = MSTDP.

Lemma mstdp_steps hx :
  sum_net (outs_from c k [] (withsig hx))
  = sum_steps (length hx) (fun t => sigw hx t * contrib c k (map fst hx) t).
Proof.
  induction hx as [|x hx IH] using rev_ind; [reflexivity|].
  rewrite withsig_snoc, outs_from_snoc0, sum_net_app, IH. cbn [sum_net snd].
  rewrite app_length. cbn [length]. rewrite Nat.add_1_r. cbn [sum_steps].
  rewrite (map_app fst), withsig_fst. cbn [map fst].
  rewrite (sum_steps_ext _ (fun t => sigw (hx ++ [x]) t * contrib c k (map fst (hx ++ [x])) t)
                           (fun t => sigw hx t * contrib c k (map fst hx) t)).
  2:{ intros t Hlt. rewrite map_app. cbn [map]. rewrite contrib_prefix by (rewrite map_length; exact Hlt).
      unfold sigw. rewrite map_app, app_nth1 by (rewrite map_length; exact Hlt). reflexivity. }
  rewrite net_forward_scalar.
  pose proof (partials_stdp c k (grid_syn c k G) (grid_pre c k G) (proj1 G) (map fst hx) (fst x) (or_intror (or_introl Ht))) as Hp.
  cbv zeta in Hp. rewrite Hp. cbn [fst snd].
  assert (Ew : sigw (hx ++ [x]) (length hx) = fst (snd x) * Rabs (snd (snd x))).
  { unfold sigw. rewrite map_app. cbn [map]. replace (length hx) with (length (map snd hx)) by apply map_length.
    rewrite nth_middle. reflexivity. }
  rewrite Ew. unfold contrib. rewrite !map_app. cbn [map]. rewrite !map_length.
  set (A := partner_sum _ _ _ _ _). set (B := partner_sum _ _ _ _ _).
  set (qa := b2r _). set (pa := b2r _). f_equal.
  transitivity (qa * A * (sgn (c_lr_post RN c * fst (snd x)) * (Rabs (c_lr_post RN c) * Rabs (fst (snd x) * snd (snd x))))
                + pa * B * (sgn (c_lr_pre RN c * fst (snd x)) * (Rabs (c_lr_pre RN c) * Rabs (fst (snd x) * snd (snd x)))) + 0);
    [ring|]. rewrite !sgn_mul_abs. ring.
Qed.

(* every step's pair contribution is scaled by that step's signal and |scale| *)
Theorem mstdp_scaled hx :
  weight_change c k (withsig hx)
  = c_lr_post RN c * pairsum (c_mode RN c) (c_dt RN c) (c_tc_pre RN c) (sigw hx)
                              (post_train (map fst hx)) (pre_train c k (map fst hx))
    + c_lr_pre RN c * pairsum (c_mode RN c) (c_dt RN c) (c_tc_post RN c) (sigw hx)
                              (pre_train c k (map fst hx)) (post_train (map fst hx)).
Proof.
  unfold weight_change. rewrite weight_change_sum, run_single, mstdp_steps.
  unfold pairsum. rewrite !sum_over_spike_times. unfold pre_train, post_train.
  rewrite shift_length, !map_length. rewrite <- (keff_grid c k G). fold (Ptr c k (map fst hx)). fold (Qtr (map fst hx)).
  unfold contrib. rewrite <- !sum_steps_scale, <- sum_steps_plus. apply sum_steps_ext. intros; ring.
Qed.
End MSTDP.

(* ================================================================== MSTDPET *)
Lemma elig_ext dt tz c1 c2 n : (forall t, (t <= n)%nat -> c1 t = c2 t) -> elig dt tz c1 n = elig dt tz c2 n.
Proof.
  induction n as [|n IH]; intros H; cbn [elig]; [rewrite H by lia; reflexivity|].
  rewrite IH, H by (intros; try apply H; lia). reflexivity.
Qed.
Lemma elig_linear dt tz a b c1 c2 n :
  elig dt tz (fun t => a * c1 t + b * c2 t) n = a * elig dt tz c1 n + b * elig dt tz c2 n.
Proof. induction n as [|n IH]; cbn [elig]; [|rewrite IH]; unfold Rdiv; ring. Qed.

Lemma rev_map_snoc {A B} (f : A -> B) l x : rev (map f (l ++ [x])) = map f (x :: rev l).
Proof. rewrite map_app, rev_app_distr. cbn [map rev app]. rewrite map_rev. reflexivity. Qed.

Section MSTDPET.
Variable c : config RN.
Variable k : nat.
Hypothesis G : grid_ok c k.
Hypothesis Ht : c_trainer RN c = MSTDPET.
Local Notation dt := (c_dt RN c).
Local Notation m := (c_mode RN c).
Local Notation tz := (c_tc_elig RN c).

Lemma mstdpet_no_reg : del_reg RN c = false /\ del_fwd RN c = false.
Proof. unfold del_reg, del_fwd, delay_aware. rewrite Ht. split; reflexivity. Qed.

(* the unit-rate contribution streams *)
Definition cpost (h : list (bool * bool)) (t : nat) : R :=
  b2r (nth t (Qtr h) false) * partner_sum m dt (c_tc_pre RN c) (Ptr c k h) t.
Definition cpre (h : list (bool * bool)) (t : nat) : R :=
  b2r (nth t (Ptr c k h) false) * partner_sum m dt (c_tc_post RN c) (Qtr h) t.
Lemma cpost_prefix h pq t : (t < length h)%nat -> cpost (h ++ [pq]) t = cpost h t.
Proof.
  intros Hl. unfold cpost. rewrite Ptr_snoc, Qtr_snoc. rewrite app_nth1 by (rewrite Qtr_length; exact Hl).
  rewrite partner_sum_snoc by (rewrite Ptr_length; exact Hl). reflexivity.
Qed.
Lemma cpre_prefix h pq t : (t < length h)%nat -> cpre (h ++ [pq]) t = cpre h t.
Proof.
  intros Hl. unfold cpre. rewrite Ptr_snoc, Qtr_snoc. rewrite app_nth1 by (rewrite Ptr_length; exact Hl).
  rewrite partner_sum_snoc by (rewrite Qtr_length; exact Hl). reflexivity.
Qed.

(* the eligibility reducers hold the filtered contribution streams (times the trace amplitude) *)
Lemma elig_state h0 pq :
  let h := h0 ++ [pq] in
  hd 0 (s_elig_post RN (state_of c k (rev h))) = Rabs (c_lr_post RN c) * elig dt tz (cpost h) (length h0)
  /\ hd 0 (s_elig_pre RN (state_of c k (rev h))) = Rabs (c_lr_pre RN c) * elig dt tz (cpre h) (length h0).
Proof.
  destruct mstdpet_no_reg as [Er Ef].
  assert (Hstep : forall h0 pq, let h := h0 ++ [pq] in
    hd 0 (s_elig_post RN (state_of c k (rev h)))
    = exp (- dt / tz) * hd 0 (s_elig_post RN (state_of c k (rev h0))) + / tz * (Rabs (c_lr_post RN c) * cpost h (length h0))
    /\ hd 0 (s_elig_pre RN (state_of c k (rev h)))
    = exp (- dt / tz) * hd 0 (s_elig_pre RN (state_of c k (rev h0))) + / tz * (Rabs (c_lr_pre RN c) * cpre h (length h0))).
  { clear h0 pq. intros h0 pq h. replace (rev h) with (pq :: rev h0) by (unfold h; rewrite rev_app_distr; reflexivity).
    cbn [state_of]. unfold observe at 1 2. rewrite Ht. cbn [s_elig_post s_elig_pre]. unfold push_elig. cbn [hd]. rewrite !elig_fold, !ov_hd_error.
    rewrite (st_tr_pre c k (grid_syn c k G) (rev h0)), (st_tr_post c k (rev h0)), st_raw, Er, (synspike_eq c k (grid_syn c k G)).
    change (decay_of RN dt (c_tc_pre RN c)) with (d_pre c). change (decay_of RN dt (c_tc_post RN c)) with (d_post c).
    change m with (mo c). rewrite !push_trace_tvals.
    assert (Eo : nth (keff c k) (fst pq :: map fst (rev h0)) false :: obsP c k (map fst (rev h0)) = obsP c k (map fst (pq :: rev h0))).
    { cbn [map]. rewrite obsP_cons, Er. reflexivity. }
    rewrite Eo. clear Eo.
    assert (Eo : nth (keff c k) (fst pq :: map fst (rev h0)) false = nth (keff c k) (rev (map fst h)) false).
    { unfold h. rewrite rev_map_snoc. reflexivity. }
    rewrite Eo. clear Eo.
    change (snd pq :: map snd (rev h0)) with (map snd (pq :: rev h0)).
    change (hd (zero RN) (tvals (mo c) (d_pre c) (amp_pre RN c) (obsP c k (map fst (pq :: rev h0)))))
      with (V (mo c) (d_pre c) (amp_pre RN c) (obsP c k (map fst (pq :: rev h0)))).
    change (hd (zero RN) (tvals (mo c) (d_post c) (amp_post RN c) (map snd (pq :: rev h0))))
      with (V (mo c) (d_post c) (amp_post RN c) (map snd (pq :: rev h0))).
    assert (E1 : V (mo c) (d_pre c) (amp_pre RN c) (obsP c k (map fst (pq :: rev h0)))
                 = Rabs (c_lr_post RN c) * partner_sum m dt (c_tc_pre RN c) (Ptr c k h) (length h0)).
    { unfold obsP. rewrite Er, dlist_skipn, V_app_false.
      replace (map fst (pq :: rev h0)) with (rev (map fst (h0 ++ [pq]))) by apply rev_map_snoc.
      unfold mo, d_pre. rewrite (pre_trace_now c k). unfold amp_pre, is_stable. rewrite Ht. reflexivity. }
    assert (E2 : V (mo c) (d_post c) (amp_post RN c) (map snd (pq :: rev h0))
                 = Rabs (c_lr_pre RN c) * partner_sum m dt (c_tc_post RN c) (Qtr h) (length h0)).
    { replace (map snd (pq :: rev h0)) with (rev (map snd (h0 ++ [pq]))) by apply rev_map_snoc.
      unfold mo, d_post. rewrite (post_trace_now c). unfold amp_post, is_stable. rewrite Ht. reflexivity. }
    rewrite E1, E2. unfold h. rewrite (pre_spike_now c k).
    assert (E3 : snd pq = nth (length h0) (Qtr (h0 ++ [pq])) false).
    { rewrite <- post_spike_now. rewrite rev_map_snoc. reflexivity. }
    rewrite E3 at 1. rewrite (b2t_RN (nth (length h0) (Ptr c k (h0 ++ [pq])) false)).
    rewrite (b2t_RN (nth (length h0) (Qtr (h0 ++ [pq])) false)). unfold cpost, cpre, decay_of. rn_simpl. unfold d_z.
    split; unfold Rdiv; ring. }
  revert pq. induction h0 as [|pq' h0 IH] using rev_ind; intros pq h.
  - destruct (Hstep [] pq) as [H1 H2]. unfold h. rewrite H1, H2. cbn [rev state_of s_init s_elig_post s_elig_pre hd length elig].
    split; unfold Rdiv; ring.
  - destruct (Hstep (h0 ++ [pq']) pq) as [H1 H2]. destruct (IH pq') as [I1 I2]. unfold h. rewrite H1, H2, I1, I2.
    rewrite app_length. cbn [length]. rewrite Nat.add_1_r. cbn [elig].
    rewrite (elig_ext dt tz (cpost ((h0 ++ [pq']) ++ [pq])) (cpost (h0 ++ [pq'])) (length h0))
      by (intros; apply cpost_prefix; rewrite app_length; cbn; lia).
    rewrite (elig_ext dt tz (cpre ((h0 ++ [pq']) ++ [pq])) (cpre (h0 ++ [pq'])) (length h0))
      by (intros; apply cpre_prefix; rewrite app_length; cbn; lia).
    split; unfold Rdiv; ring.
Qed.
End MSTDPET.

Section MSTDPET2.
Variable c : config RN.
Variable k : nat.
Hypothesis G : grid_ok c k.
Hypothesis Ht : c_trainer RN c = MSTDPET.
Local Notation dt := (c_dt RN c).
Local Notation tz := (c_tc_elig RN c).

Lemma mstdpet_steps hx :
  sum_net (outs_from c k [] (withsig hx))
  = sum_steps (length hx) (fun t => sigw hx t * elig dt tz (contrib c k (map fst hx)) t).
Proof.
  induction hx as [|x hx IH] using rev_ind; [reflexivity|].
  rewrite withsig_snoc, outs_from_snoc0, sum_net_app, IH. cbn [sum_net snd].
  rewrite app_length. cbn [length]. rewrite Nat.add_1_r. cbn [sum_steps].
  rewrite (map_app fst), withsig_fst. cbn [map fst].
  rewrite (sum_steps_ext _ (fun t => sigw (hx ++ [x]) t * elig dt tz (contrib c k (map fst (hx ++ [x]))) t)
                           (fun t => sigw hx t * elig dt tz (contrib c k (map fst hx)) t)).
  2:{ intros t Hlt. f_equal.
      - unfold sigw. rewrite map_app, app_nth1 by (rewrite map_length; exact Hlt). reflexivity.
      - apply elig_ext. intros u Hu. rewrite map_app. cbn [map]. apply contrib_prefix. rewrite map_length. lia. }
  rewrite net_forward_scalar. unfold partials. rewrite Ht.
  destruct (elig_state c k G Ht (map fst hx) (fst x)) as [E1 E2]. cbv zeta in E1, E2.
  cbn [fst snd]. rn_simpl. rewrite E1, E2. rewrite map_length.
  assert (Ew : sigw (hx ++ [x]) (length hx) = fst (snd x) * Rabs (snd (snd x))).
  { unfold sigw. rewrite map_app. cbn [map]. replace (length hx) with (length (map snd hx)) by apply map_length.
    rewrite nth_middle. reflexivity. }
  rewrite Ew. rewrite (map_app fst). cbn [map].
  rewrite (elig_ext dt tz (contrib c k (map fst hx ++ [fst x]))
             (fun t => c_lr_post RN c * cpost c k (map fst hx ++ [fst x]) t + c_lr_pre RN c * cpre c k (map fst hx ++ [fst x]) t))
    by (intros; reflexivity).
  rewrite elig_linear. f_equal.
  set (A := elig _ _ _ _). set (B := elig _ _ _ _).
  transitivity (A * (sgn (c_lr_post RN c * fst (snd x)) * (Rabs (c_lr_post RN c) * Rabs (fst (snd x) * snd (snd x))))
                + B * (sgn (c_lr_pre RN c * fst (snd x)) * (Rabs (c_lr_pre RN c) * Rabs (fst (snd x) * snd (snd x)))) + 0);
    [ring|]. rewrite !sgn_mul_abs. ring.
Qed.
End MSTDPET2.

(* ================================================================== triplet STDP *)
Lemma abs_ratio a b : a <> 0 -> Rabs a * Rabs (Rabs b / a) = Rabs b.
Proof.
  intros H. rewrite <- Rabs_mult. replace (a * (Rabs b / a)) with (Rabs b) by (field; exact H). apply Rabs_Rabsolu.
Qed.
Lemma prev_sum_snoc m dt tau l b t : (t <= length l)%nat -> prev_sum m dt tau (l ++ [b]) t = prev_sum m dt tau l t.
Proof. intros H. destruct t as [|t]; [reflexivity|]. cbn [prev_sum]. apply partner_sum_snoc. lia. Qed.
(* the trace one step earlier *)
Lemma prev_trace m dt tau a l0 b :
  V m (exp (- dt / tau)) a (rev l0) = a * prev_sum m dt tau (l0 ++ [b]) (length l0).
Proof.
  destruct l0 as [|x l] using rev_ind; [cbn; lra|]. clear IHl.
  rewrite trace_closed, app_length. cbn [length]. rewrite Nat.add_1_r. cbn [prev_sum].
  rewrite (partner_sum_snoc m dt tau (l ++ [x]) b) by (rewrite app_length; cbn; lia). reflexivity.
Qed.
Lemma skipn_1_skipn {A} j (x : A) l : skipn 1 (skipn j (x :: l)) = skipn j l.
Proof. rewrite <- skipn_plus1, Nat.add_1_r. reflexivity. Qed.

Section Triplet.
Variable c : config RN.
Variable k : nat.
Hypothesis G : grid_ok c k.
Hypothesis Ht : c_trainer RN c = TripletSTDP \/ c_trainer RN c = StableTripletSTDP.
Hypothesis Hpost : c_lr_post RN c <> 0.
Hypothesis Hpre0 : c_lr_pre RN c <> 0.
Local Notation dt := (c_dt RN c).
Local Notation m := (c_mode RN c).

Lemma tri : is_triplet RN c = true.
Proof. unfold is_triplet. destruct Ht as [-> | ->]; reflexivity. Qed.

Lemma pre_trace_prev tau a h0 pq :
  V m (exp (- dt / tau)) a (skipn 1 (skipn (keff c k) (rev (map fst (h0 ++ [pq])))))
  = a * prev_sum m dt tau (Ptr c k (h0 ++ [pq])) (length h0).
Proof.
  rewrite rev_map_snoc. cbn [map]. rewrite skipn_1_skipn.
  destruct h0 as [|pq' h0] using rev_ind.
  - cbn [rev map length prev_sum]. rewrite skipn_nil, V_nil. lra.
  - clear IHh0. rewrite map_rev. rewrite (pre_trace_now c k). rewrite app_length. cbn [length]. rewrite Nat.add_1_r.
    cbn [prev_sum]. rewrite (Ptr_snoc c k (h0 ++ [pq'])).
    rewrite partner_sum_snoc by (rewrite Ptr_length, app_length; cbn; lia). reflexivity.
Qed.
Lemma post_trace_prev tau a h0 pq :
  V m (exp (- dt / tau)) a (skipn 1 (rev (map snd (h0 ++ [pq]))))
  = a * prev_sum m dt tau (Qtr (h0 ++ [pq])) (length h0).
Proof.
  rewrite rev_map_snoc. cbn [map skipn]. rewrite map_rev. fold (Qtr h0).
  rewrite (prev_trace m dt tau a (Qtr h0) (snd pq)), Qtr_length, <- Qtr_snoc. reflexivity.
Qed.

(* the documented contribution of step t:
   [post spike at t] (alpha_post + beta_post y_b(t - dt)) x_a(t) + [pre spike at t] (alpha_pre + beta_pre x_b(t - dt)) y_a(t)
   with unit-amplitude traces, the betas entering by absolute value with alpha's sign *)
Definition tcontrib (h : list (bool * bool)) (t : nat) : R :=
  b2r (nth t (Qtr h) false) *
    ((c_lr_post RN c + sgn (c_lr_post RN c) * Rabs (c_lr_post3 RN c) * prev_sum m dt (c_tc_post_slow RN c) (Qtr h) t)
     * partner_sum m dt (c_tc_pre RN c) (Ptr c k h) t)
  + b2r (nth t (Ptr c k h) false) *
    ((c_lr_pre RN c + sgn (c_lr_pre RN c) * Rabs (c_lr_pre3 RN c) * prev_sum m dt (c_tc_pre_slow RN c) (Ptr c k h) t)
     * partner_sum m dt (c_tc_post RN c) (Qtr h) t).

Lemma tcontrib_prefix h pq t : (t < length h)%nat -> tcontrib (h ++ [pq]) t = tcontrib h t.
Proof.
  intros Hl. unfold tcontrib. rewrite Ptr_snoc, Qtr_snoc.
  rewrite !app_nth1 by (rewrite ?Ptr_length, ?Qtr_length; exact Hl).
  rewrite !partner_sum_snoc by (rewrite ?Ptr_length, ?Qtr_length; exact Hl).
  rewrite !prev_sum_snoc by (rewrite ?Ptr_length, ?Qtr_length; lia). reflexivity.
Qed.

Lemma net_triplet h0 pq :
  let h := h0 ++ [pq] in
  net (forward RN c k (SigNone RN) [state_of c k (rev h)]) = tcontrib h (length h0).
Proof.
  intros h. rewrite net_forward_none.
  pose proof (grid_syn c k G) as Hsyn. pose proof (grid_pre c k G) as Hp.
  destruct (grid_pre_slow c k G) as (Hs1 & Hs2 & Hs3).
  unfold partials.
  destruct Ht as [E | E]; rewrite E; cbv zeta;
  rewrite st_tr_pre, st_tr_post, st_spike_pre, st_spike_post by exact Hsyn;
  rewrite (st_tr_pre_slow c k Hsyn _ tri), (st_tr_post_slow c k _ tri);
  rewrite (read_trace c k (proj1 G)) by (intros E'; apply Hp; exact E');
  rewrite (read_spike c k) by (intros E'; apply Hp; exact E');
  rewrite (read_slow c k (proj1 G)) by assumption;
  rewrite (rd_small _ _ _ 1) by assumption; rewrite nth_tvals;
  rewrite !map_rev;
  change (hd (zero RN) (tvals (mo c) (d_post c) (amp_post RN c) (rev (map snd h))))
    with (V (mo c) (d_post c) (amp_post RN c) (rev (map snd h)));
  unfold mo, d_pre, d_post, d_pre_slow, d_post_slow, h;
  rewrite pre_trace_now, post_trace_now, pre_spike_now, post_spike_now, pre_trace_prev, post_trace_prev;
  unfold amp_pre, amp_post, amp_pre_slow, amp_post_slow, lr_post3_abs, lr_pre3_abs, is_stable; rewrite E; cbn [fst snd]; rn_simpl;
  rewrite (b2t_RN (nth (length h0) (Ptr c k (h0 ++ [pq])) false));
  rewrite (b2t_RN (nth (length h0) (Qtr (h0 ++ [pq])) false));
  unfold tcontrib;
  set (PSa := partner_sum m dt (c_tc_pre RN c) _ _); set (PSb := partner_sum m dt (c_tc_post RN c) _ _);
  set (Ya := prev_sum m dt (c_tc_post_slow RN c) _ _); set (Xa := prev_sum m dt (c_tc_pre_slow RN c) _ _);
  set (qa := b2r _); set (pa := b2r _).
  - (* TripletSTDP: amplitudes |alpha| and |beta/alpha| *)
    transitivity (qa * PSa * (sgn (c_lr_post RN c) * Rabs (c_lr_post RN c)
                              + sgn (c_lr_post RN c) * (Rabs (c_lr_post RN c) * Rabs (Rabs (c_lr_post3 RN c) / c_lr_post RN c)) * Ya)
                  + pa * PSb * (sgn (c_lr_pre RN c) * Rabs (c_lr_pre RN c)
                              + sgn (c_lr_pre RN c) * (Rabs (c_lr_pre RN c) * Rabs (Rabs (c_lr_pre3 RN c) / c_lr_pre RN c)) * Xa));
      [ring|]. rewrite !abs_ratio, !sgn_abs by assumption. ring.
  - (* StableTripletSTDP: unit amplitudes, the rates multiply at the end *)
    transitivity (qa * PSa * (sgn (c_lr_post RN c) * Rabs (c_lr_post RN c) + sgn (c_lr_post RN c) * Rabs (c_lr_post3 RN c) * Ya)
                  + pa * PSb * (sgn (c_lr_pre RN c) * Rabs (c_lr_pre RN c) + sgn (c_lr_pre RN c) * Rabs (c_lr_pre3 RN c) * Xa));
      [ring|]. rewrite !sgn_abs. ring.
Qed.

Lemma triplet_steps h :
  sum_net (outs_from c k [] (nosig h)) = sum_steps (length h) (tcontrib h).
Proof.
  induction h as [|pq h IH] using rev_ind; [reflexivity|].
  unfold nosig in *. rewrite map_app. cbn [map]. rewrite outs_from_snoc0, sum_net_app, IH. cbn [sum_net snd].
  rewrite app_length. cbn [length]. rewrite Nat.add_1_r. cbn [sum_steps].
  rewrite (sum_steps_ext _ (tcontrib (h ++ [pq])) (tcontrib h)) by (intros; apply tcontrib_prefix; assumption).
  rewrite (map_app fst), map_map. cbn [map fst]. rewrite map_id.
  pose proof (net_triplet h pq) as Hn. cbv zeta in Hn. rewrite Hn. lra.
Qed.
End Triplet.

(* ================================================================== final statements *)
Lemma contrib_spec c k h : grid_ok c k -> forall t,
  contrib c k h t
  = stdp_contrib (c_mode RN c) (c_dt RN c) (c_lr_post RN c) (c_lr_pre RN c) (c_tc_pre RN c) (c_tc_post RN c)
                 (pre_train c k h) (post_train h) t.
Proof. intros G t. unfold contrib, stdp_contrib, Ptr, Qtr, pre_train, post_train. rewrite (keff_grid c k G). reflexivity. Qed.

(* MSTDPET: the signal (times |scale|) of every step is applied to the STDP contribution stream filtered by
   z(t) = z(t - dt) exp(-dt/tau_z) + contribution(t)/tau_z *)
Theorem mstdpet_filtered c k hx :
  c_trainer RN c = MSTDPET -> grid_ok c k ->
  weight_change c k (withsig hx)
  = sum_steps (length hx) (fun t =>
      sigw hx t *
      elig (c_dt RN c) (c_tc_elig RN c)
           (stdp_contrib (c_mode RN c) (c_dt RN c) (c_lr_post RN c) (c_lr_pre RN c) (c_tc_pre RN c) (c_tc_post RN c)
                         (pre_train c k (map fst hx)) (post_train (map fst hx))) t).
Proof.
  intros Ht G. unfold weight_change. rewrite weight_change_sum, run_single, (mstdpet_steps c k G Ht).
  apply sum_steps_ext. intros t _. f_equal. apply elig_ext. intros u _. apply contrib_spec. exact G.
Qed.
(* MSTDP, per step: the same statement as mstdp_scaled, organised by step *)
Theorem mstdp_stepwise c k hx :
  c_trainer RN c = MSTDP -> grid_ok c k ->
  weight_change c k (withsig hx)
  = sum_steps (length hx) (fun t =>
      sigw hx t *
      stdp_contrib (c_mode RN c) (c_dt RN c) (c_lr_post RN c) (c_lr_pre RN c) (c_tc_pre RN c) (c_tc_post RN c)
                   (pre_train c k (map fst hx)) (post_train (map fst hx)) t).
Proof.
  intros Ht G. unfold weight_change. rewrite weight_change_sum, run_single, (mstdp_steps c k G Ht).
  apply sum_steps_ext. intros t _. f_equal. apply contrib_spec. exact G.
Qed.

(* triplet STDP: every pair term is multiplied by (alpha + sgn(alpha) |beta| * slow trace of the TRIGGERING
   population one step earlier) *)
Theorem triplet_factor c k h :
  c_trainer RN c = TripletSTDP \/ c_trainer RN c = StableTripletSTDP ->
  c_lr_post RN c <> 0 -> c_lr_pre RN c <> 0 -> grid_ok c k ->
  weight_change c k (nosig h)
  = pairsum (c_mode RN c) (c_dt RN c) (c_tc_pre RN c)
            (fun t => c_lr_post RN c + sgn (c_lr_post RN c) * Rabs (c_lr_post3 RN c)
                                       * prev_sum (c_mode RN c) (c_dt RN c) (c_tc_post_slow RN c) (post_train h) t)
            (post_train h) (pre_train c k h)
    + pairsum (c_mode RN c) (c_dt RN c) (c_tc_post RN c)
            (fun t => c_lr_pre RN c + sgn (c_lr_pre RN c) * Rabs (c_lr_pre3 RN c)
                                      * prev_sum (c_mode RN c) (c_dt RN c) (c_tc_pre_slow RN c) (pre_train c k h) t)
            (pre_train c k h) (post_train h).
Proof.
  intros Ht H1 H2 G. unfold weight_change. rewrite weight_change_sum, run_single, (triplet_steps c k G Ht H1 H2).
  unfold pairsum. rewrite !sum_over_spike_times. unfold pre_train, post_train.
  rewrite shift_length, !map_length. rewrite <- (keff_grid c k G). fold (Ptr c k h). fold (Qtr h).
  unfold tcontrib. rewrite <- sum_steps_plus. apply sum_steps_ext. intros; ring.
Qed.
(* without triplet rates the triplet trainers are pair-based STDP *)
Corollary triplet_beta0_is_stdp c k h :
  c_trainer RN c = TripletSTDP \/ c_trainer RN c = StableTripletSTDP ->
  c_lr_post RN c <> 0 -> c_lr_pre RN c <> 0 -> c_lr_post3 RN c = 0 -> c_lr_pre3 RN c = 0 -> grid_ok c k ->
  weight_change c k (nosig h)
  = c_lr_post RN c * pairsum (c_mode RN c) (c_dt RN c) (c_tc_pre RN c) (fun _ => 1) (post_train h) (pre_train c k h)
    + c_lr_pre RN c * pairsum (c_mode RN c) (c_dt RN c) (c_tc_post RN c) (fun _ => 1) (pre_train c k h) (post_train h).
Proof.
  intros Ht H1 H2 B1 B2 G. rewrite (triplet_factor c k h Ht H1 H2 G), B1, B2, Rabs_R0. unfold pairsum.
  rewrite <- !sum_over_scale. f_equal; apply sum_over_ext; intros; ring.
Qed.

(* ================================================================== batches *)
Fixpoint rsum (l : list R) : R := match l with [] => 0 | x :: t => x + rsum t end.
Lemma tsum_RN l : tsum RN l = rsum l.
Proof. induction l as [|x l IH]; [reflexivity|]. cbn [tsum rsum]. rewrite IH. reflexivity. Qed.
Lemma rsum_map_plus {A} (f g : A -> R) l : rsum (map (fun x => f x + g x) l) = rsum (map f l) + rsum (map g l).
Proof. induction l as [|x l IH]; cbn [map rsum]; [lra|rewrite IH; lra]. Qed.
Lemma rsum_map_scale {A} a (f : A -> R) l : rsum (map (fun x => a * f x) l) = a * rsum (map f l).
Proof. induction l as [|x l IH]; cbn [map rsum]; [lra|rewrite IH; lra]. Qed.
Lemma rsum_nth {A} (f : A -> R) (d : A) l : rsum (map f l) = sum_steps (length l) (fun b => f (nth b l d)).
Proof.
  induction l as [|x l IH] using rev_ind; [reflexivity|].
  rewrite map_app, app_length. cbn [map length]. rewrite Nat.add_1_r. cbn [sum_steps]. rewrite nth_middle.
  assert (E : rsum (map f l ++ [f x]) = rsum (map f l) + f x).
  { clear. induction (map f l) as [|y r IHr]; cbn [app rsum]; [lra|rewrite IHr; lra]. }
  rewrite E, IH. f_equal. apply sum_steps_ext. intros b Hb. rewrite app_nth1 by exact Hb. reflexivity.
Qed.

Lemma rsum_lin {A} a b (f g : A -> R) l : rsum (map (fun x => a * f x + b * g x) l) = a * rsum (map f l) + b * rsum (map g l).
Proof. induction l as [|x l IH]; cbn [map rsum]; [lra|rewrite IH; lra]. Qed.
Lemma reduce_sum l : reduce RN RSum l = rsum l.
Proof. apply tsum_RN. Qed.
Lemma reduce_mean l : reduce RN RMean l = rsum l / INR (length l).
Proof. cbn [reduce]. rewrite tsum_RN. rn_simpl. rewrite <- INR_IZR_INZ. reflexivity. Qed.

Section Batch.
Variable c : config RN.
Variable k : nat.
Local Notation fp := (fun s => fst (partials RN c k s)).
Local Notation sp := (fun s => snd (partials RN c k s)).

Lemma forward_none_gen ss :
  net (forward RN c k (SigNone RN) ss)
  = sgn (c_lr_post RN c) * reduce RN (c_red RN c) (map fp ss) + sgn (c_lr_pre RN c) * reduce RN (c_red RN c) (map sp ss).
Proof. unfold forward. rewrite net_route, !map_map. reflexivity. Qed.
Lemma forward_scalar_gen sv scale ss :
  net (forward RN c k (SigScalar RN sv scale) ss)
  = sgn (c_lr_post RN c * sv) * (reduce RN (c_red RN c) (map fp ss) * Rabs (sv * scale))
    + sgn (c_lr_pre RN c * sv) * (reduce RN (c_red RN c) (map sp ss) * Rabs (sv * scale)).
Proof. unfold forward. rewrite net_route, !map_map. reflexivity. Qed.

(* one trainer call on a batch, sum reduction: the net update is the sum of the per-sample net updates *)
Lemma forward_batch_sum sg ss : c_red RN c = RSum -> batch_signal sg ->
  net (forward RN c k sg ss) = rsum (map (fun s => net (forward RN c k sg [s])) ss).
Proof.
  intros Hr Hs. destruct sg as [|sv scale|sv scale]; [| |destruct Hs].
  - rewrite (map_ext _ _ (net_forward_none c k)), forward_none_gen, Hr, (reduce_sum (map fp ss)), (reduce_sum (map sp ss)).
    rewrite (rsum_lin _ _ fp sp). reflexivity.
  - assert (E : forall s, net (forward RN c k (SigScalar RN sv scale) [s])
                          = (sgn (c_lr_post RN c * sv) * Rabs (sv * scale)) * fp s
                            + (sgn (c_lr_pre RN c * sv) * Rabs (sv * scale)) * sp s)
      by (intros s; rewrite net_forward_scalar; ring).
    rewrite (map_ext _ _ E), forward_scalar_gen, Hr, (reduce_sum (map fp ss)), (reduce_sum (map sp ss)).
    rewrite (rsum_lin _ _ fp sp).
    rn_simpl. ring.
Qed.
(* mean reduction: the mean of the per-sample net updates *)
Lemma forward_batch_mean sg ss : c_red RN c = RMean -> batch_signal sg -> ss <> [] ->
  net (forward RN c k sg ss) = rsum (map (fun s => net (forward RN c k sg [s])) ss) / INR (length ss).
Proof.
  intros Hr Hs Hne.
  assert (Hn : INR (length ss) <> 0) by (destruct ss; [congruence|apply not_0_INR; discriminate]).
  destruct sg as [|sv scale|sv scale]; [| |destruct Hs].
  - rewrite (map_ext _ _ (net_forward_none c k)), forward_none_gen, Hr, (reduce_mean (map fp ss)), (reduce_mean (map sp ss)).
    rewrite (rsum_lin _ _ fp sp), !map_length. rn_simpl. field. exact Hn.
  - assert (E : forall s, net (forward RN c k (SigScalar RN sv scale) [s])
                          = (sgn (c_lr_post RN c * sv) * Rabs (sv * scale)) * fp s
                            + (sgn (c_lr_pre RN c * sv) * Rabs (sv * scale)) * sp s)
      by (intros s; rewrite net_forward_scalar; ring).
    rewrite (map_ext _ _ E), forward_scalar_gen, Hr, (reduce_mean (map fp ss)), (reduce_mean (map sp ss)).
    rewrite (rsum_lin _ _ fp sp), !map_length. rn_simpl. field. exact Hn.
Qed.
End Batch.

Lemma sum_steps_zero n : sum_steps n (fun _ => 0) = 0.
Proof. induction n as [|n IH]; cbn; [reflexivity|rewrite IH; lra]. Qed.

Lemma nth_map_lt {A B} (f : A -> B) l b d d' : (b < length l)%nat -> nth b (map f l) d' = f (nth b l d).
Proof. intros H. rewrite (nth_indep _ d' (f d)) by (rewrite map_length; exact H). apply map_nth. Qed.

Section BatchRun.
Variable c : config RN.
Variable k : nat.
Variable B : nat.
Variable phi : R.
(* how one trainer call combines the samples (instantiated below for the sum and the mean) *)
Hypothesis Hf : forall sg ss, batch_signal sg -> length ss = B ->
  net (forward RN c k sg ss) = phi * rsum (map (fun s => net (forward RN c k sg [s])) ss).

Definition col (b : nat) (inps : list (list (bool * bool) * signal RN)) : list (list (bool * bool) * signal RN) :=
  map (fun i => ([nth b (fst i) (false, false)], snd i)) inps.
Definition inputs_ok (inps : list (list (bool * bool) * signal RN)) : Prop :=
  Forall (fun i => batch_signal (snd i) /\ length (fst i) = B) inps.

Lemma nth_observe ss pqs b : length ss = B -> length pqs = B -> (b < B)%nat ->
  nth b (map (fun sx : sstate RN * (bool * bool) => observe RN c k (fst sx) (fst (snd sx)) (snd (snd sx))) (combine ss pqs)) (s_init RN)
  = observe RN c k (nth b ss (s_init RN)) (fst (nth b pqs (false, false))) (snd (nth b pqs (false, false))).
Proof.
  intros H1 H2 Hb.
  rewrite (nth_map_lt _ _ _ (s_init RN, (false, false))) by (rewrite combine_length; lia).
  rewrite combine_nth by lia. reflexivity.
Qed.

Lemma run_batch : forall inps ss, length ss = B -> inputs_ok inps ->
  sum_net (run RN c k ss inps)
  = phi * sum_steps B (fun b => sum_net (run RN c k [nth b ss (s_init RN)] (col b inps))).
Proof.
  induction inps as [|i tl IH]; intros ss Hl Hok.
  - cbn [run col map sum_net]. rewrite sum_steps_zero. lra.
  - inversion Hok as [|? ? [Hsg Hli] Hok']; subst.
    cbn [run]. unfold step at 1. cbn [fst snd sum_net].
    set (ss' := map _ (combine ss (fst i))).
    assert (Hl' : length ss' = B) by (unfold ss'; rewrite map_length, combine_length; lia).
    rewrite (IH ss' Hl' Hok'), (Hf (snd i) ss' Hsg Hl'), (rsum_nth _ (s_init RN)), Hl'.
    rewrite <- Rmult_plus_distr_l, <- sum_steps_plus. f_equal. apply sum_steps_ext. intros b Hb.
    cbn [col map run]. unfold step. cbn [fst snd combine map sum_net].
    unfold ss'. rewrite nth_observe by (try lia; exact Hb). reflexivity.
Qed.
End BatchRun.

Lemma col_sample b inps : col b inps = inps1 (sample b inps).
Proof. unfold col, inps1, sample. rewrite map_map. reflexivity. Qed.
Lemma nth_init_batch b B : nth b (init_batch RN B) (s_init RN) = s_init RN.
Proof. unfold init_batch. destruct (Nat.lt_ge_cases b B); [apply nth_repeat|rewrite nth_overflow; [reflexivity|rewrite repeat_length; lia]]. Qed.

(* batch samples are combined by the configured reduction: with the sum, the weight change of a batch is the sum of
   the weight changes of its samples taken alone; with the mean, their mean *)
Theorem batch_reduction_sum c k B inps :
  c_red RN c = RSum -> inputs_ok B inps ->
  weight_change_batch c k B inps = sum_steps B (fun b => weight_change c k (sample b inps)).
Proof.
  intros Hr Hok. unfold weight_change_batch, weight_change. rewrite weight_change_sum.
  assert (Hf : forall sg ss, batch_signal sg -> length ss = B ->
               net (forward RN c k sg ss) = 1 * rsum (map (fun s => net (forward RN c k sg [s])) ss))
    by (intros; rewrite Rmult_1_l; apply forward_batch_sum; assumption).
  rewrite (run_batch c k B 1 Hf inps (init_batch RN B) (repeat_length _ _) Hok).
  rewrite Rmult_1_l. apply sum_steps_ext. intros b Hb. rewrite weight_change_sum, nth_init_batch, col_sample. reflexivity.
Qed.
Theorem batch_reduction_mean c k B inps :
  c_red RN c = RMean -> (0 < B)%nat -> inputs_ok B inps ->
  weight_change_batch c k B inps = sum_steps B (fun b => weight_change c k (sample b inps)) / INR B.
Proof.
  intros Hr HB Hok. unfold weight_change_batch, weight_change. rewrite weight_change_sum.
  assert (Hf : forall sg ss, batch_signal sg -> length ss = B ->
               net (forward RN c k sg ss) = / INR B * rsum (map (fun s => net (forward RN c k sg [s])) ss)).
  { intros sg ss Hs Hl. assert (Hne : ss <> []) by (destruct ss; [cbn in Hl; lia|discriminate]).
    rewrite (forward_batch_mean c k sg ss Hr Hs Hne), Hl. unfold Rdiv. ring. }
  rewrite (run_batch c k B (/ INR B) Hf inps (init_batch RN B) (repeat_length _ _) Hok).
  unfold Rdiv. rewrite Rmult_comm. f_equal. apply sum_steps_ext. intros b Hb.
  rewrite weight_change_sum, nth_init_batch, col_sample. reflexivity.
Qed.

(* the Stable variants (unit-amplitude traces, rates applied when the update is formed) compute, in exact arithmetic,
   the same weight change as the variants that put the rates in the trace amplitudes *)
Theorem stable_equals_unstable c k h : grid_ok c k ->
  weight_change (set_trainer c StableSTDP) k (nosig h) = weight_change (set_trainer c STDP) k (nosig h).
Proof.
  intros G. rewrite !stdp_pairsum by (try exact G; cbn; auto). reflexivity.
Qed.
Theorem stable_triplet_equals_unstable c k h : grid_ok c k -> c_lr_post RN c <> 0 -> c_lr_pre RN c <> 0 ->
  weight_change (set_trainer c StableTripletSTDP) k (nosig h) = weight_change (set_trainer c TripletSTDP) k (nosig h).
Proof.
  intros G H1 H2. rewrite !triplet_factor by (try exact G; try assumption; cbn; auto). reflexivity.
Qed.

(* ================================================================== the generated kernels, stated directly *)
Lemma fold_kernel_tvals m d a obs :
  fold_kernel (fun o st => trace_fold RN m d a o st) obs = hd_error (tvals m d a obs).
Proof. induction obs as [|o r IH]; [reflexivity|]. cbn [fold_kernel tvals hd_error]. rewrite IH. reflexivity. Qed.

(* Gen.Trace.trace_cumulative folded over ANY spike train (oldest first: l ++ [b]) with decay exp(-dt/tau):
   amplitude * sum over the spikes s of the train of exp(-(age of s) / tau), age = (current step - s) dt *)
Theorem trace_cumulative_geometric dt tau a l b :
  fold_kernel (fun o st => Gen.Trace.trace_cumulative RN (b2t RN o) st (Rtrigo_def.exp (- dt / tau)) a (one RN) None) (rev (l ++ [b]))
  = Some (a * sum_over (spike_times (l ++ [b])) (fun s => Rtrigo_def.exp (- ((INR (length l) - INR s) * dt) / tau))).
Proof.
  change (fun o st => trace_cumulative RN (b2t RN o) st (exp (- dt / tau)) a (one RN) None)
    with (fun o st => trace_fold RN Cumulative (exp (- dt / tau)) a o st).
  rewrite fold_kernel_tvals.
  pose proof (trace_closed Cumulative dt tau a l b) as H. unfold V in H.
  rewrite rev_app_distr in *. cbn [rev app tvals hd_error hd] in *. rewrite H. cbn [partner_sum].
  rewrite partners_le_all by (rewrite app_length; cbn; lia). reflexivity.
Qed.
(* Gen.Trace.trace_nearest: amplitude * exp(-(age of the most recent spike)/tau), 0 when there was none *)
Theorem trace_nearest_latest dt tau a l b :
  fold_kernel (fun o st => Gen.Trace.trace_nearest RN (b2t RN o) st (Rtrigo_def.exp (- dt / tau)) a (one RN) None) (rev (l ++ [b]))
  = Some (a * match latest_upto (l ++ [b]) (S (length l)) with
              | Some s => Rtrigo_def.exp (- ((INR (length l) - INR s) * dt) / tau)
              | None => 0
              end).
Proof.
  change (fun o st => trace_nearest RN (b2t RN o) st (exp (- dt / tau)) a (one RN) None)
    with (fun o st => trace_fold RN Nearest (exp (- dt / tau)) a o st).
  rewrite fold_kernel_tvals.
  pose proof (trace_closed Nearest dt tau a l b) as H. unfold V in H.
  rewrite rev_app_distr in *. cbn [rev app tvals hd_error hd] in *. rewrite H. reflexivity.
Qed.
(* the eligibility filter in closed form: z(t) = sum over u <= t of c(u)/tau_z exp(-(t - u) dt / tau_z) *)
Theorem elig_geometric dt tz cf n :
  elig dt tz cf n = sum_steps (S n) (fun u => cf u / tz * Rtrigo_def.exp (- ((INR n - INR u) * dt) / tz)).
Proof.
  induction n as [|n IH].
  - cbn [elig sum_steps]. replace (- ((INR 0 - INR 0) * dt) / tz) with 0 by (unfold Rdiv; ring). rewrite exp_0. lra.
  - cbn [elig]. rewrite IH. cbn [sum_steps].
    replace (- ((INR (S n) - INR (S n)) * dt) / tz) with 0 by (unfold Rdiv; ring). rewrite exp_0.
    assert (E : forall m' g, sum_steps m' g * exp (- dt / tz) = sum_steps m' (fun u => g u * exp (- dt / tz))).
    { induction m' as [|m' IHm]; intros g; cbn [sum_steps]; [lra|]. rewrite <- IHm. lra. }
    rewrite Rmult_plus_distr_r, E.
    rewrite (sum_steps_ext n _ (fun u => cf u / tz * exp (- ((INR (S n) - INR u) * dt) / tz))).
    2:{ intros u _. rewrite Rmult_assoc, <- exp_plus. f_equal. f_equal. rewrite S_INR. unfold Rdiv. ring. }
    rewrite Rmult_assoc, <- exp_plus.
    replace (- ((INR n - INR n) * dt) / tz + - dt / tz) with (- ((INR (S n) - INR n) * dt) / tz)
      by (rewrite S_INR; unfold Rdiv; ring).
    lra.
Qed.

(* ================================================================== per-sample signals *)
Lemma rsum_app a b : rsum (a ++ b) = rsum a + rsum b.
Proof. induction a as [|x a IH]; cbn [app rsum]; [lra|rewrite IH; lra]. Qed.
Lemma ov_reduce_opt_sum l : ov (reduce_opt RN RSum l) = rsum l.
Proof. destruct l as [|x l]; [reflexivity|]. unfold reduce_opt. cbn [ov]. apply reduce_sum. Qed.
Lemma combine_map2 {A B C D} (f : A -> C) (g : B -> D) l1 l2 :
  combine (map f l1) (map g l2) = map (fun z => (f (fst z), g (snd z))) (combine l1 l2).
Proof. revert l2. induction l1 as [|x l1 IH]; intros [|y l2]; cbn [map combine]; try reflexivity. rewrite IH. reflexivity. Qed.
Lemma pick_combine {A} (f : T RN -> bool) (phi : A * T RN -> T RN) : forall (l : list A) (sv : list (T RN)),
  pick RN f sv (map phi (combine l sv)) = map phi (filter (fun z => f (snd z)) (combine l sv)).
Proof.
  induction l as [|x l IH]; intros [|s sv]; cbn [combine map pick filter snd]; try reflexivity.
  destruct (f s); cbn [map]; rewrite IH; reflexivity.
Qed.
Lemma isneg_nonneg s : ltb RN s (zero RN) = negb (nonneg RN s).
Proof. unfold nonneg, geb. rn_simpl. rcases; try reflexivity; lra. Qed.
Lemma split_sum {A} (phi : A * T RN -> R) (Z : list (A * T RN)) :
  rsum (map phi (filter (fun z => nonneg RN (snd z)) Z)) - rsum (map phi (filter (fun z => ltb RN (snd z) (zero RN)) Z))
  = rsum (map (fun z => sgn (snd z) * phi z) Z).
Proof.
  induction Z as [|z Z IH]; cbn [filter map rsum]; [lra|].
  rewrite isneg_nonneg, <- IH. unfold sgn. change (@snd A R z) with (@snd A (T RN) z).
  destruct (nonneg RN (snd z)); cbn [negb map rsum]; lra.
Qed.

Section Tensor.
Variable c : config RN.
Variable k : nat.
Local Notation fp := (fun s => fst (partials RN c k s)).
Local Notation sp := (fun s => snd (partials RN c k s)).

(* one trainer call with a per-sample signal, sum reduction: every sample contributes with its own signal *)
Lemma forward_tensor_net sv g ss : c_red RN c = RSum ->
  net (forward RN c k (SigTensor RN sv g) ss)
  = rsum (map (fun z => sgn (c_lr_post RN c) * (sgn (snd z) * (fp (fst z) * Rabs (snd z * g)))
                        + sgn (c_lr_pre RN c) * (sgn (snd z) * (sp (fst z) * Rabs (snd z * g)))) (combine ss sv)).
Proof.
  intros Hr. unfold forward. rewrite Hr.
  set (phi1 := fun z : sstate RN * T RN => fp (fst z) * Rabs (snd z * g)).
  set (phi2 := fun z : sstate RN * T RN => sp (fst z) * Rabs (snd z * g)).
  assert (E1 : map (fun xs : T RN * T RN => mul RN (fst xs) (snd xs))
                 (combine (map fst (map (partials RN c k) ss)) (map (fun s : T RN => abs RN (mul RN s g)) sv))
               = map phi1 (combine ss sv)).
  { rewrite map_map, combine_map2, map_map. reflexivity. }
  assert (E2 : map (fun xs : T RN * T RN => mul RN (fst xs) (snd xs))
                 (combine (map snd (map (partials RN c k) ss)) (map (fun s : T RN => abs RN (mul RN s g)) sv))
               = map phi2 (combine ss sv)).
  { rewrite map_map, combine_map2, map_map. reflexivity. }
  rewrite E1, E2, !pick_combine.
  pose proof (split_sum phi1 (combine ss sv)) as S1. pose proof (split_sum phi2 (combine ss sv)) as S2.
  rewrite (rsum_lin _ _ (fun z => sgn (snd z) * phi1 z) (fun z => sgn (snd z) * phi2 z)), <- S1, <- S2.
  unfold sgn at 1 2. unfold net.
  destruct (nonneg RN (c_lr_post RN c)), (nonneg RN (c_lr_pre RN c)); cbn [fst snd];
    rewrite !ov_reduce_opt_sum, !rsum_app; rn_simpl; lra.
Qed.
End Tensor.

Section BatchRunPS.
Variable c : config RN.
Variable k : nat.
Variable B : nat.
Hypothesis Hr : c_red RN c = RSum.

Definition sig_ok (sg : signal RN) : Prop := match sg with SigTensor _ sv _ => length sv = B | _ => True end.

(* one trainer call, sum reduction, any kind of signal: the sum over the samples of what the trainer would do with that
   sample alone and its own signal *)
Lemma forward_sum_ps sg ss : sig_ok sg -> length ss = B ->
  net (forward RN c k sg ss)
  = sum_steps B (fun b => net (forward RN c k (signal_of_sample b sg) [nth b ss (s_init RN)])).
Proof.
  intros Hs Hl. destruct sg as [|sv g|sv g].
  - rewrite (forward_batch_sum c k (SigNone RN) ss Hr I), (rsum_nth _ (s_init RN)), Hl. reflexivity.
  - rewrite (forward_batch_sum c k (SigScalar RN sv g) ss Hr I), (rsum_nth _ (s_init RN)), Hl. reflexivity.
  - unfold sig_ok in Hs. rewrite (forward_tensor_net c k sv g ss Hr).
    rewrite (rsum_nth _ (s_init RN, 0)), combine_length, Hl, Hs, Nat.min_id.
    apply sum_steps_ext. intros b Hb. rewrite combine_nth by (rewrite Hl; symmetry; exact Hs). cbn [signal_of_sample].
    rewrite (forward_tensor_net c k [nth b sv 0] g [nth b ss (s_init RN)] Hr). cbn [combine map rsum fst snd]. rn_simpl. lra.
Qed.

Definition col_ps (b : nat) (inps : list (list (bool * bool) * signal RN)) : list (list (bool * bool) * signal RN) :=
  map (fun i => ([nth b (fst i) (false, false)], signal_of_sample b (snd i))) inps.

Lemma run_batch_ps : forall inps ss, length ss = B -> inputs_ok_ps B inps ->
  sum_net (run RN c k ss inps)
  = sum_steps B (fun b => sum_net (run RN c k [nth b ss (s_init RN)] (col_ps b inps))).
Proof.
  induction inps as [|i tl IH]; intros ss Hl Hok.
  - cbn [run col_ps map sum_net]. rewrite sum_steps_zero. reflexivity.
  - apply Forall_cons_iff in Hok. destruct Hok as [[Hli Hsg] Hok'].
    cbn [run]. unfold step at 1. cbn [fst snd sum_net].
    set (ss' := map _ (combine ss (fst i))).
    assert (Hl' : length ss' = B) by (unfold ss'; rewrite map_length, combine_length; lia).
    rewrite (IH ss' Hl' Hok'), (forward_sum_ps (snd i) ss' Hsg Hl').
    rewrite <- sum_steps_plus. apply sum_steps_ext. intros b Hb.
    cbn [col_ps map run]. unfold step. cbn [fst snd combine map sum_net].
    unfold ss'. rewrite (nth_observe c k B) by (try lia; exact Hb). reflexivity.
Qed.
End BatchRunPS.

Lemma col_ps_sample b inps : col_ps b inps = inps1 (sample_ps b inps).
Proof. unfold col_ps, inps1, sample_ps. rewrite map_map. reflexivity. Qed.

(* sum reduction, scalar or PER-SAMPLE signals: the weight change of the batch is the sum over the samples of the
   weight change of that sample alone with its own signal *)
Theorem batch_reduction_sum_persample c k B inps :
  c_red RN c = RSum -> inputs_ok_ps B inps ->
  weight_change_batch c k B inps = sum_steps B (fun b => weight_change c k (sample_ps b inps)).
Proof.
  intros Hr Hok. unfold weight_change_batch, weight_change. rewrite weight_change_sum.
  rewrite (run_batch_ps c k B Hr inps (init_batch RN B) (repeat_length _ _) Hok).
  apply sum_steps_ext. intros b Hb. rewrite weight_change_sum, nth_init_batch, col_ps_sample. reflexivity.
Qed.

(* a one-sample batch with a per-sample signal behaves like a scalar signal (sum reduction), for the trainers whose
   partial updates carry the factor |eta| *)
Lemma sgn_sgn_abs x s g u : sgn x * (sgn s * (Rabs x * u * Rabs (s * g))) = x * (s * Rabs g) * u.
Proof.
  rewrite Rabs_mult.
  transitivity ((sgn x * Rabs x) * (sgn s * Rabs s) * Rabs g * u); [ring|]. rewrite !sgn_abs. ring.
Qed.
Lemma net_tensor1_scalar c k s g st u v : c_red RN c = RSum ->
  partials RN c k st = (Rabs (c_lr_post RN c) * u, Rabs (c_lr_pre RN c) * v) ->
  net (forward RN c k (SigTensor RN [s] g) [st]) = net (forward RN c k (SigScalar RN s g) [st]).
Proof.
  intros Hr Hp. rewrite (forward_tensor_net c k [s] g [st] Hr), net_forward_scalar. cbn [combine map rsum fst snd].
  rewrite Hp. cbn [fst snd]. rewrite !sgn_sgn_abs.
  transitivity (u * (sgn (c_lr_post RN c * s) * (Rabs (c_lr_post RN c) * Rabs (s * g)))
                + v * (sgn (c_lr_pre RN c * s) * (Rabs (c_lr_pre RN c) * Rabs (s * g)))); [|ring].
  rewrite !sgn_mul_abs. ring.
Qed.

Lemma withsig_ps_snoc hx x :
  withsig_ps (hx ++ [x]) = withsig_ps hx ++ [(fst x, SigTensor RN [fst (snd x)] (snd (snd x)))].
Proof. unfold withsig_ps. rewrite map_app. reflexivity. Qed.
Lemma withsig_ps_fst hx : map fst (withsig_ps hx) = map fst hx.
Proof. unfold withsig_ps. rewrite map_map. reflexivity. Qed.

Section PerSample.
Variable c : config RN.
Variable k : nat.
Hypothesis G : grid_ok c k.
Hypothesis Hr : c_red RN c = RSum.
Hypothesis Ht : c_trainer RN c = MSTDP \/ c_trainer RN c = MSTDPET.

Lemma partials_abs_form h0 pq : exists u v,
  partials RN c k (state_of c k (rev (h0 ++ [pq]))) = (Rabs (c_lr_post RN c) * u, Rabs (c_lr_pre RN c) * v).
Proof.
  destruct Ht as [E | E].
  - pose proof (partials_stdp c k (grid_syn c k G) (grid_pre c k G) (proj1 G) h0 pq (or_intror (or_introl E))) as Hp.
    cbv zeta in Hp. rewrite Hp. eexists. eexists. f_equal; rewrite <- Rmult_assoc, (Rmult_comm (b2r _)), Rmult_assoc; reflexivity.
  - destruct (elig_state c k G E h0 pq) as [E1 E2]. cbv zeta in E1, E2.
    unfold partials. rewrite E. rn_simpl. rewrite E1, E2. eexists. eexists. reflexivity.
Qed.

Lemma persample_eq_scalar hx :
  sum_net (outs_from c k [] (withsig_ps hx)) = sum_net (outs_from c k [] (withsig hx)).
Proof.
  induction hx as [|x hx IH] using rev_ind; [reflexivity|].
  rewrite withsig_ps_snoc, withsig_snoc, !outs_from_snoc0, !sum_net_app, IH. f_equal. cbn [sum_net snd]. f_equal.
  rewrite !(map_app fst), withsig_ps_fst, withsig_fst. cbn [map fst].
  destruct (partials_abs_form (map fst hx) (fst x)) as (u & v & Hp).
  apply (net_tensor1_scalar c k _ _ _ u v Hr Hp).
Qed.
End PerSample.

(* MSTDP / MSTDPET with a per-sample signal on one sample = the scalar-signal statements *)
Theorem persample_signal_is_scalar c k hx :
  c_trainer RN c = MSTDP \/ c_trainer RN c = MSTDPET -> c_red RN c = RSum -> grid_ok c k ->
  weight_change c k (withsig_ps hx) = weight_change c k (withsig hx).
Proof.
  intros Ht Hr G. unfold weight_change. rewrite !weight_change_sum, !run_single. apply persample_eq_scalar; assumption.
Qed.

(* ================================================================== pair sums of a batch *)
Lemma sample_nosig_batch b steps : sample b (nosig_batch steps) = nosig (hist_of b steps).
Proof. unfold sample, nosig_batch, nosig, hist_of. rewrite !map_map. reflexivity. Qed.
Lemma inputs_ok_nosig B steps : Forall (fun pqs => length pqs = B) steps -> inputs_ok B (nosig_batch steps).
Proof.
  intros H. unfold inputs_ok, nosig_batch. rewrite Forall_map. eapply Forall_impl; [|exact H].
  intros pqs Hl. cbn. split; [exact I|exact Hl].
Qed.
(* STDP on a batch: the configured reduction (sum / mean) of the per-sample sums over spike pairs *)
Theorem stdp_batch_pairsum c k B steps :
  c_trainer RN c = STDP \/ c_trainer RN c = StableSTDP -> grid_ok c k ->
  Forall (fun pqs => length pqs = B) steps ->
  let per_sample b :=
    c_lr_post RN c * pairsum (c_mode RN c) (c_dt RN c) (c_tc_pre RN c) (fun _ => 1)
                             (post_train (hist_of b steps)) (pre_train c k (hist_of b steps))
    + c_lr_pre RN c * pairsum (c_mode RN c) (c_dt RN c) (c_tc_post RN c) (fun _ => 1)
                              (pre_train c k (hist_of b steps)) (post_train (hist_of b steps)) in
  (c_red RN c = RSum -> weight_change_batch c k B (nosig_batch steps) = sum_steps B per_sample) /\
  (c_red RN c = RMean -> (0 < B)%nat ->
   weight_change_batch c k B (nosig_batch steps) = sum_steps B per_sample / INR B).
Proof.
  intros Ht G Hl per_sample. split.
  - intros Hr. rewrite (batch_reduction_sum c k B _ Hr (inputs_ok_nosig B steps Hl)).
    apply sum_steps_ext. intros b _. rewrite sample_nosig_batch. apply stdp_pairsum; assumption.
  - intros Hr HB. rewrite (batch_reduction_mean c k B _ Hr HB (inputs_ok_nosig B steps Hl)). f_equal.
    apply sum_steps_ext. intros b _. rewrite sample_nosig_batch. apply stdp_pairsum; assumption.
Qed.

(* the delayed and the delay-frozen modes also agree for the triplet trainers and for MSTDP *)
Theorem triplet_delayed_modes_agree c k h :
  c_trainer RN c = TripletSTDP \/ c_trainer RN c = StableTripletSTDP ->
  c_lr_post RN c <> 0 -> c_lr_pre RN c <> 0 -> grid_ok c k ->
  weight_change (set_delayed c true) k (nosig h) = weight_change (set_delayed c false) k (nosig h).
Proof.
  intros Ht H1 H2 G. rewrite !triplet_factor by (try exact Ht; try exact G; assumption). reflexivity.
Qed.
Theorem mstdp_delayed_modes_agree c k hx :
  c_trainer RN c = MSTDP -> grid_ok c k ->
  weight_change (set_delayed c true) k (withsig hx) = weight_change (set_delayed c false) k (withsig hx).
Proof.
  intros Ht G. rewrite (mstdp_scaled (set_delayed c true) k G Ht), (mstdp_scaled (set_delayed c false) k G Ht). reflexivity.
Qed.

(* the run with per-step delays is the run of the theorems when the delay does not change *)
Theorem run_k_const (N : Num) (c : config N) (k : nat) inps : forall ss,
  run_k N c ss (map (fun i => (k, i)) inps) = run N c k ss inps.
Proof.
  induction inps as [|i tl IH]; intros ss; [reflexivity|].
  cbn [map run_k run fst snd]. destruct (step N c k ss i) as [ss' out]. rewrite IH. reflexivity.
Qed.
