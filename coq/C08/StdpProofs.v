(* C08 - proofs (real-number instance): the per-synapse trainer model computes the documented sums over spike
   pairs, for every spike history.  Part 1: the generated trace kernels in closed form. *)
From Coq Require Import List ZArith Reals Bool Lra Lia Arith.
From Inferno Require Import Base.Num Base.NumR Gen.Trace Gen.Infra C08.Stdp C08.StdpSpec.
Import ListNotations.
Open Scope R_scope.
Local Notation exp := Rtrigo_def.exp.

Definition ov (o : option R) : R := match o with Some x => x | None => 0 end.
Lemma b2t_RN b : b2t RN b = b2r b.
Proof. destruct b; reflexivity. Qed.
Lemma ov_hd_error (l : list R) : ov (hd_error l) = hd 0 l.
Proof. destruct l; reflexivity. Qed.

(* ------------------------------------------------------------------ one step of the generated kernels *)
Lemma trace_fold_cum d a o st : trace_fold RN Cumulative d a o st = d * ov st + a * b2r o.
Proof.
  unfold trace_fold, trace_cumulative, b2t. rn_simpl.
  destruct o; cbn [b2r]; rcases; try lra; destruct st; cbn [ov]; lra.
Qed.
Lemma trace_fold_near d a o st : trace_fold RN Nearest d a o st = if o then a else d * ov st.
Proof.
  unfold trace_fold, trace_nearest, b2t. rn_simpl.
  destruct o; cbn [b2r]; rcases; try lra; destruct st; cbn [ov]; lra.
Qed.
Lemma elig_fold d sc x st : trace_cumulative_value RN x st d sc = d * ov st + sc * x.
Proof. unfold trace_cumulative_value. rn_simpl. destruct st; cbn [ov]; lra. Qed.

(* ------------------------------------------------------------------ the history of a trace reducer *)
(* states pushed by a trace reducer that observed `obs` (newest first) *)
Fixpoint tvals (m : tmode) (d a : R) (obs : list bool) : list R :=
  match obs with
  | [] => []
  | o :: r => trace_fold RN m d a o (hd_error (tvals m d a r)) :: tvals m d a r
  end.
Lemma push_trace_tvals m d a r o : push_trace RN m d a (tvals m d a r) o = tvals m d a (o :: r).
Proof. reflexivity. Qed.
(* the newest state, 0 when nothing was observed *)
Definition V (m : tmode) (d a : R) (obs : list bool) : R := hd 0 (tvals m d a obs).

Lemma V_nil m d a : V m d a [] = 0.
Proof. reflexivity. Qed.
Lemma V_cum_cons d a o r : V Cumulative d a (o :: r) = d * V Cumulative d a r + a * b2r o.
Proof. unfold V. cbn [tvals hd]. rewrite trace_fold_cum, ov_hd_error. reflexivity. Qed.
Lemma V_near_cons d a o r : V Nearest d a (o :: r) = if o then a else d * V Nearest d a r.
Proof. unfold V. cbn [tvals hd]. rewrite trace_fold_near, ov_hd_error. reflexivity. Qed.
Lemma length_tvals m d a l : length (tvals m d a l) = length l.
Proof. induction l; cbn; congruence. Qed.

(* reading k steps back = the newest state of the history without its k newest observations *)
Lemma nth_tvals m d a : forall k l, nth k (tvals m d a l) 0 = V m d a (skipn k l).
Proof.
  induction k as [|k IH]; intros l.
  - destruct l; reflexivity.
  - destruct l as [|o r]; [reflexivity|]. cbn [tvals nth skipn]. apply IH.
Qed.
(* observations of "no spike" at the beginning of time do not matter *)
Lemma V_app_false m d a j : forall l, V m d a (l ++ repeat false j) = V m d a l.
Proof.
  assert (Z0 : V m d a (repeat false j) = 0).
  { induction j as [|j IH]; [reflexivity|]. cbn [repeat]. destruct m.
    - rewrite V_cum_cons, IH. cbn. lra.
    - rewrite V_near_cons, IH. lra. }
  induction l as [|o r IH]; [exact Z0|]. cbn [app]. destruct m.
  - rewrite !V_cum_cons, IH. reflexivity.
  - rewrite !V_near_cons, IH. reflexivity.
Qed.
(* the amplitude is a factor *)
Lemma V_scale m d a l : V m d a l = a * V m d 1 l.
Proof.
  induction l as [|o r IH]; [cbn; lra|]. destruct m.
  - rewrite !V_cum_cons, IH. lra.
  - rewrite !V_near_cons, IH. destruct o; lra.
Qed.

(* ------------------------------------------------------------------ spike times and sums over them *)
Lemma sum_over_app ts us f : sum_over (ts ++ us) f = sum_over ts f + sum_over us f.
Proof. induction ts as [|t r IH]; cbn; [lra|rewrite IH; lra]. Qed.
Lemma sum_over_ext ts f g : (forall t, In t ts -> f t = g t) -> sum_over ts f = sum_over ts g.
Proof.
  induction ts as [|t r IH]; intros H; cbn; [reflexivity|].
  rewrite (H t (or_introl eq_refl)), IH; [reflexivity|]. intros u Hu. apply H. right. exact Hu.
Qed.
Lemma sum_over_scale ts c f : sum_over ts (fun t => c * f t) = c * sum_over ts f.
Proof. induction ts as [|t r IH]; cbn; [lra|rewrite IH; lra]. Qed.
Lemma sum_over_plus ts f g : sum_over ts (fun t => f t + g t) = sum_over ts f + sum_over ts g.
Proof. induction ts as [|t r IH]; cbn; [lra|rewrite IH; lra]. Qed.
Lemma sum_over_map (h : nat -> nat) ts f : sum_over (map h ts) f = sum_over ts (fun t => f (h t)).
Proof. induction ts as [|t r IH]; cbn; [reflexivity|rewrite IH; reflexivity]. Qed.

Lemma spike_times_lt l t : In t (spike_times l) -> (t < length l)%nat /\ nth t l false = true.
Proof. unfold spike_times. rewrite filter_In, in_seq. intros [H1 H2]. split; [lia|exact H2]. Qed.
Lemma spike_times_snoc l b :
  spike_times (l ++ [b]) = spike_times l ++ (if b then [length l] else []).
Proof.
  unfold spike_times. rewrite app_length. cbn [length]. rewrite Nat.add_1_r, seq_S, filter_app. cbn [Nat.add filter].
  rewrite nth_middle. f_equal.
  apply filter_ext_in. intros t Ht. apply in_seq in Ht. rewrite app_nth1; [reflexivity|lia].
Qed.
Lemma spike_times_nil : spike_times [] = [].
Proof. reflexivity. Qed.
(* every spike time of a train of length <= t+1 is a partner of a spike at step t *)
Lemma partners_le_all src t : (length src <= S t)%nat -> partners_le src t = spike_times src.
Proof.
  intros H. unfold partners_le. rewrite (filter_ext_in _ (fun _ => true)).
  - induction (spike_times src) as [|x r IH]; cbn; congruence.
  - intros s Hs. apply spike_times_lt in Hs. apply Nat.leb_le. lia.
Qed.
(* later spikes are no partners *)
Lemma partners_le_snoc src b t : (t < length src)%nat -> partners_le (src ++ [b]) t = partners_le src t.
Proof.
  intros H. unfold partners_le. rewrite spike_times_snoc, filter_app.
  destruct b; cbn [filter]; [|apply app_nil_r].
  destruct (Nat.leb_spec (length src) t); [lia|apply app_nil_r].
Qed.
Lemma latest_upto_snoc src b n : (n <= length src)%nat -> latest_upto (src ++ [b]) n = latest_upto src n.
Proof.
  induction n as [|n IH]; intros H; [reflexivity|]. cbn [latest_upto].
  rewrite app_nth1 by lia. rewrite IH by lia. reflexivity.
Qed.
Lemma latest_upto_last src b :
  latest_upto (src ++ [b]) (S (length src)) = if b then Some (length src) else latest_upto src (length src).
Proof. cbn [latest_upto]. rewrite nth_middle, latest_upto_snoc by lia. reflexivity. Qed.
Lemma partner_sum_snoc m dt tau src b t :
  (t < length src)%nat -> partner_sum m dt tau (src ++ [b]) t = partner_sum m dt tau src t.
Proof.
  intros H. destruct m; cbn [partner_sum].
  - rewrite partners_le_snoc by exact H. reflexivity.
  - rewrite latest_upto_snoc by lia. reflexivity.
Qed.
(* the sanity of latest_upto: it is the most recent spike before step n *)
Lemma latest_upto_spec src n :
  match latest_upto src n with
  | Some s => (s < n)%nat /\ nth s src false = true /\ (forall u, (s < u < n)%nat -> nth u src false = false)
  | None => forall u, (u < n)%nat -> nth u src false = false
  end.
Proof.
  induction n as [|n IH]; cbn [latest_upto]; [intros u Hu; lia|].
  destruct (nth n src false) eqn:E.
  - repeat split; [lia|exact E|intros u Hu; lia].
  - destruct (latest_upto src n) as [s|].
    + destruct IH as (H1 & H2 & H3). repeat split; [lia|exact H2|].
      intros u Hu. destruct (Nat.eq_dec u n) as [->|]; [exact E|apply H3; lia].
    + intros u Hu. destruct (Nat.eq_dec u n) as [->|]; [exact E|apply IH; lia].
Qed.

(* ------------------------------------------------------------------ pair weights *)
Lemma pairw_same dt tau t : pairw dt tau t t = 1.
Proof. unfold pairw. replace (- ((INR t - INR t) * dt) / tau) with 0 by (unfold Rdiv; ring). apply exp_0. Qed.
Lemma pairw_S dt tau t s : pairw dt tau (S t) s = exp (- dt / tau) * pairw dt tau t s.
Proof.
  unfold pairw. rewrite <- exp_plus. f_equal. rewrite S_INR. unfold Rdiv. ring.
Qed.
Lemma pairw_shift dt tau t s k : pairw dt tau (t + k) (s + k) = pairw dt tau t s.
Proof. unfold pairw. f_equal. rewrite !plus_INR. unfold Rdiv. ring. Qed.
Lemma decay_of_RN dt tc : decay_of RN dt tc = exp (- dt / tc).
Proof. reflexivity. Qed.

(* ------------------------------------------------------------------ closed forms of the trace: THE geometric-trace lemma *)
(* after observing the train l ++ [b] (oldest first) the trace is amplitude * (sum over the spikes of the
   train of exp(-(age) dt / tau)) in cumulative mode, amplitude * exp(-(age of the most recent spike) dt/tau)
   in nearest mode: amplitude * partner_sum at the current step *)
Theorem trace_closed m dt tau a l b :
  V m (exp (- dt / tau)) a (rev (l ++ [b])) = a * partner_sum m dt tau (l ++ [b]) (length l).
Proof.
  revert b. induction l as [|b' l IH] using rev_ind; intros b.
  - cbn [app rev length]. destruct m.
    + rewrite V_cum_cons, V_nil. cbn [partner_sum]. rewrite partners_le_all by (cbn; lia).
      destruct b; cbn; rewrite ?pairw_same; lra.
    + rewrite V_near_cons, V_nil. cbn [partner_sum latest_upto nth]. destruct b; rewrite ?pairw_same; lra.
  - rewrite rev_app_distr. cbn [rev app]. rewrite app_length. cbn [length]. rewrite Nat.add_1_r.
    destruct m.
    + rewrite V_cum_cons, IH. cbn [partner_sum].
      rewrite !partners_le_all by (rewrite ?app_length; cbn; lia).
      rewrite (spike_times_snoc (l ++ [b'])), sum_over_app.
      rewrite (sum_over_ext _ (pairw dt tau (S (length l))) (fun s => exp (- dt / tau) * pairw dt tau (length l) s))
        by (intros; apply pairw_S).
      rewrite sum_over_scale. rewrite app_length. cbn [length]. rewrite Nat.add_1_r.
      destruct b; cbn [sum_over b2r]; rewrite ?pairw_same; lra.
    + rewrite V_near_cons, IH. cbn [partner_sum].
      assert (E : latest_upto ((l ++ [b']) ++ [b]) (S (S (length l)))
                  = if b then Some (S (length l)) else latest_upto (l ++ [b']) (S (length l))).
      { pose proof (latest_upto_last (l ++ [b']) b) as H. rewrite app_length in H. cbn [length] in H.
        rewrite Nat.add_1_r in H. exact H. }
      rewrite E. destruct b; [rewrite pairw_same; lra|].
      destruct (latest_upto (l ++ [b']) (S (length l))); [rewrite pairw_S; lra|lra].
Qed.

(* ------------------------------------------------------------------ the state of one sample after a history *)
Definition net (o : option R * option R) : R := ov (fst o) - ov (snd o).
Fixpoint sum_net (outs : list (option R * option R)) : R :=
  match outs with [] => 0 | o :: tl => net o + sum_net tl end.
(* single-sample inputs *)
Definition inps1 (hs : list ((bool * bool) * signal RN)) : list (list (bool * bool) * signal RN) :=
  map (fun x => ([fst x], snd x)) hs.

(* observed presynaptic train when the reducers observe connection.synspike (newest first) *)
Fixpoint dlist (j : nat) (r : list bool) : list bool :=
  match r with [] => [] | x :: r' => nth j (x :: r') false :: dlist j r' end.
Lemma skipn_cons_nth {A} (d : A) : forall j (r : list A), (j < length r)%nat -> skipn j r = nth j r d :: skipn (S j) r.
Proof.
  induction j as [|j IH]; intros [|x r] H; cbn [length] in H; try lia; [reflexivity|].
  cbn [skipn nth]. rewrite (IH r) by lia. reflexivity.
Qed.
Lemma dlist_skipn j : forall r, dlist j r = skipn j r ++ repeat false (Nat.min j (length r)).
Proof.
  destruct j as [|j].
  - induction r as [|x r IH]; [reflexivity|]. cbn [dlist nth skipn]. cbn [skipn] in IH. rewrite IH.
    cbn. rewrite app_nil_r. reflexivity.
  - induction r as [|x r IH]; [reflexivity|]. cbn [dlist nth skipn length]. rewrite IH.
    destruct (Nat.lt_ge_cases j (length r)) as [H|H].
    + rewrite !Nat.min_l by lia.
      rewrite (skipn_cons_nth false j r H). reflexivity.
    + rewrite nth_overflow by lia. rewrite !skipn_all2 by lia.
      rewrite !Nat.min_r by lia. reflexivity.
Qed.

Lemma rd_small {A} (fill : A) n hist idx : (Z.of_nat idx < n)%Z -> rd fill n hist idx = nth idx hist fill.
Proof. intros H. unfold rd. rewrite Z.mod_small by lia. rewrite Nat2Z.id. reflexivity. Qed.

Section Run.
Variable c : config RN.
Variable k : nat.

(* state of a sample whose (pre, post) history, newest first, is hn *)
Fixpoint state_of (hn : list (bool * bool)) : sstate RN :=
  match hn with
  | [] => s_init RN
  | pq :: r => observe RN c k (state_of r) (fst pq) (snd pq)
  end.
(* outputs of the trainer calls of a single-sample run continuing the history hp *)
Fixpoint outs_from (hp : list (bool * bool)) (hs : list ((bool * bool) * signal RN)) : list (option R * option R) :=
  match hs with
  | [] => []
  | x :: tl => forward RN c k (snd x) [state_of (fst x :: hp)] :: outs_from (fst x :: hp) tl
  end.
Lemma run_outs_from hs : forall hp, run RN c k [state_of hp] (inps1 hs) = outs_from hp hs.
Proof.
  induction hs as [|x tl IH]; intros hp; [reflexivity|].
  change (inps1 (x :: tl)) with (([fst x], snd x) :: inps1 tl).
  cbn [run outs_from]. unfold step. cbn [fst snd combine map]. rewrite <- (IH (fst x :: hp)). reflexivity.
Qed.

(* the delay seen by the reducers: k steps when the connection has (non-zero) delays *)
Definition keff : nat := if delay_truthy RN c then k else O.
Hypothesis Hsyn : delay_truthy RN c = true -> (Z.of_nat k < sz_syn RN c)%Z.

Lemma synspike_eq raw : synspike RN c k raw = nth keff raw false.
Proof.
  unfold synspike, keff. destruct (delay_truthy RN c) eqn:E.
  - specialize (Hsyn eq_refl). destruct (Z.ltb_spec (Z.of_nat k) (sz_syn RN c)); [|lia].
    apply rd_small. assumption.
  - destruct raw; reflexivity.
Qed.

Definition obsP (r : list bool) : list bool := if del_reg RN c then r else dlist keff r.
Lemma obsP_cons x r : obsP (x :: r) = (if del_reg RN c then x else nth keff (x :: r) false) :: obsP r.
Proof. unfold obsP. destruct (del_reg RN c); reflexivity. Qed.

Definition mo := c_mode RN c.
Definition d_pre := exp (- c_dt RN c / c_tc_pre RN c).
Definition d_post := exp (- c_dt RN c / c_tc_post RN c).
Definition d_pre_slow := exp (- c_dt RN c / c_tc_pre_slow RN c).
Definition d_post_slow := exp (- c_dt RN c / c_tc_post_slow RN c).
Definition d_z := exp (- c_dt RN c / c_tc_elig RN c).

Lemma st_raw hn : s_raw_pre RN (state_of hn) = map fst hn.
Proof. induction hn as [|pq r IH]; [reflexivity|]. cbn [state_of map]. unfold observe. cbn [s_raw_pre]. rewrite IH. reflexivity. Qed.
Lemma st_spike_post hn : s_spike_post RN (state_of hn) = map snd hn.
Proof. induction hn as [|pq r IH]; [reflexivity|]. cbn [state_of map]. unfold observe. cbn [s_spike_post]. rewrite IH. reflexivity. Qed.
Lemma st_spike_pre hn : s_spike_pre RN (state_of hn) = obsP (map fst hn).
Proof.
  induction hn as [|pq r IH]; [unfold obsP; destruct (del_reg RN c); reflexivity|].
  cbn [state_of map]. unfold observe. cbn [s_spike_pre]. rewrite IH, st_raw, obsP_cons, synspike_eq. reflexivity.
Qed.
Lemma st_tr_pre hn : s_tr_pre RN (state_of hn) = tvals mo d_pre (amp_pre RN c) (obsP (map fst hn)).
Proof.
  induction hn as [|pq r IH]; [unfold obsP; destruct (del_reg RN c); reflexivity|].
  cbn [state_of map]. unfold observe. cbn [s_tr_pre]. rewrite IH, st_raw, obsP_cons, synspike_eq. reflexivity.
Qed.
Lemma st_tr_post hn : s_tr_post RN (state_of hn) = tvals mo d_post (amp_post RN c) (map snd hn).
Proof.
  induction hn as [|pq r IH]; [reflexivity|].
  cbn [state_of map]. unfold observe. cbn [s_tr_post]. rewrite IH. reflexivity.
Qed.
Lemma st_tr_pre_slow hn : is_triplet RN c = true ->
  s_tr_pre_slow RN (state_of hn) = tvals mo d_pre_slow (amp_pre_slow RN c) (obsP (map fst hn)).
Proof.
  intros Ht. induction hn as [|pq r IH]; [unfold obsP; destruct (del_reg RN c); reflexivity|].
  cbn [state_of map]. unfold observe. cbn [s_tr_pre_slow]. rewrite Ht, IH, st_raw, obsP_cons, synspike_eq. reflexivity.
Qed.
Lemma st_tr_post_slow hn : is_triplet RN c = true ->
  s_tr_post_slow RN (state_of hn) = tvals mo d_post_slow (amp_post_slow RN c) (map snd hn).
Proof.
  intros Ht. induction hn as [|pq r IH]; [reflexivity|].
  cbn [state_of map]. unfold observe. cbn [s_tr_post_slow]. rewrite Ht, IH. reflexivity.
Qed.
End Run.

(* ------------------------------------------------------------------ delayed trains *)
Lemma rev_repeat {A} (x : A) n : rev (repeat x n) = repeat x n.
Proof.
  induction n as [|n IH]; [reflexivity|]. cbn [repeat rev]. rewrite IH. clear IH.
  induction n as [|n IH]; [reflexivity|]. cbn [repeat app]. rewrite IH. reflexivity.
Qed.
Lemma shift_rev_dlist j L : shift j L = rev (dlist j (rev L)).
Proof.
  rewrite dlist_skipn, rev_app_distr, rev_repeat, skipn_rev, rev_involutive, rev_length. reflexivity.
Qed.
Lemma shift_snoc j L x : shift j (L ++ [x]) = shift j L ++ [nth j (x :: rev L) false].
Proof. rewrite !shift_rev_dlist, rev_app_distr. cbn [rev app dlist]. reflexivity. Qed.
Lemma shift_length j L : length (shift j L) = length L.
Proof. rewrite shift_rev_dlist, rev_length. generalize (rev_length L). generalize (rev L). intros r.
  revert L. induction r as [|x r IH]; intros L H; cbn [dlist length] in *; [exact H|].
  destruct L as [|y L]; [discriminate|]. cbn [length] in *. f_equal. apply (IH L). lia.
Qed.
Lemma shift_0 L : shift 0 L = L.
Proof. unfold shift. cbn. rewrite Nat.sub_0_r, firstn_all. reflexivity. Qed.
(* the spike times of the delayed train are the spike times shifted by the delay (those that still fit) *)
Lemma filter_map_swap' {A B} (f : B -> bool) (g : A -> B) l : filter f (map g l) = map g (filter (fun a => f (g a)) l).
Proof. induction l as [|x l IH]; [reflexivity|]. cbn [map filter]. destruct (f (g x)); cbn [map]; rewrite IH; reflexivity. Qed.
Lemma spike_times_repeat_false j M : spike_times (repeat false j ++ M) = map (fun s => (s + j)%nat) (spike_times M).
Proof.
  induction j as [|j IH].
  - cbn [repeat app]. rewrite (map_ext _ (fun s => s)) by (intros; lia). rewrite map_id. reflexivity.
  - cbn [repeat app]. unfold spike_times in *. cbn [length]. rewrite <- cons_seq. cbn [filter nth].
    rewrite <- seq_shift, filter_map_swap'. cbn [nth]. rewrite IH, map_map. apply map_ext. intros; lia.
Qed.

Lemma skipn_plus1 {A} : forall k (l : list A), skipn (k + 1) l = skipn 1 (skipn k l).
Proof.
  induction k as [|k IH]; intros l; [reflexivity|]. destruct l as [|x l]; [reflexivity|].
  cbn [Nat.add skipn]. apply IH.
Qed.
Lemma V_skipn1_app_false m d a j l : V m d a (skipn 1 (l ++ repeat false j)) = V m d a (skipn 1 l).
Proof.
  destruct l as [|x l]; cbn [app skipn].
  - destruct j as [|j]; [reflexivity|]. cbn [repeat skipn]. apply (V_app_false m d a j []).
  - apply V_app_false.
Qed.

(* ------------------------------------------------------------------ what the trainers read *)
Section Reads.
Variable c : config RN.
Variable k : nat.
Hypothesis Hsyn : delay_truthy RN c = true -> (Z.of_nat k < sz_syn RN c)%Z.
Local Notation kf := (keff c k).
Local Notation oP := (obsP c k).

Lemma del_fwd_true : del_fwd RN c = true -> del_reg RN c = true /\ delay_truthy RN c = true.
Proof.
  unfold del_fwd, del_reg, delay_truthy, has_delay. destruct (delay_aware RN c), (c_delayed RN c), (c_delayedby RN c); cbn; intros H; try discriminate; auto.
Qed.
Lemma del_reg_not_fwd : del_reg RN c = true -> del_fwd RN c = false -> delay_truthy RN c = false.
Proof.
  unfold del_fwd, del_reg. destruct (delay_aware RN c), (c_delayed RN c); cbn; intros H1 H2; try discriminate; auto.
Qed.

(* x_pre / x_a: view(selector) in the delayed mode, peek otherwise *)
Lemma read_trace m d a sz r :
  (del_fwd RN c = true -> (Z.of_nat k < sz)%Z) ->
  (if del_fwd RN c then rd 0 sz (tvals m d a (oP r)) k else hd 0 (tvals m d a (oP r)))
  = V m d a (skipn kf r).
Proof.
  intros Hsz. unfold obsP, keff. destruct (del_fwd RN c) eqn:Ef.
  - destruct (del_fwd_true Ef) as [-> ->]. rewrite rd_small by (apply Hsz; reflexivity). apply nth_tvals.
  - destruct (del_reg RN c) eqn:Er.
    + rewrite (del_reg_not_fwd Er Ef). reflexivity.
    + rewrite dlist_skipn. apply V_app_false.
Qed.
(* i_pre / x: the spike indicator *)
Lemma read_spike sz r :
  (del_fwd RN c = true -> (Z.of_nat k < sz)%Z) ->
  (if del_fwd RN c then rd false sz (oP r) k else hd false (oP r)) = nth kf r false.
Proof.
  intros Hsz. unfold obsP, keff. destruct (del_fwd RN c) eqn:Ef.
  - destruct (del_fwd_true Ef) as [-> ->]. apply rd_small. apply Hsz; reflexivity.
  - destruct (del_reg RN c) eqn:Er.
    + rewrite (del_reg_not_fwd Er Ef). destruct r; reflexivity.
    + destruct r as [|x r]; [destruct (if delay_truthy RN c then k else 0%nat); reflexivity|reflexivity].
Qed.
(* x_b: the slow presynaptic trace one step earlier (select(offset=2) / read(2)) *)
Lemma read_slow m d a sz r :
  (del_fwd RN c = true -> (Z.of_nat (k + 1) < sz)%Z) -> (1 < sz)%Z ->
  (if del_fwd RN c then rd 0 sz (tvals m d a (oP r)) (k + 1) else rd 0 sz (tvals m d a (oP r)) 1)
  = V m d a (skipn 1 (skipn kf r)).
Proof.
  intros Hsz H1. unfold obsP, keff. destruct (del_fwd RN c) eqn:Ef.
  - destruct (del_fwd_true Ef) as [-> ->]. rewrite rd_small by (apply Hsz; reflexivity).
    rewrite nth_tvals, skipn_plus1. reflexivity.
  - rewrite rd_small by exact H1. rewrite nth_tvals. destruct (del_reg RN c) eqn:Er.
    + rewrite (del_reg_not_fwd Er Ef). reflexivity.
    + rewrite dlist_skipn. apply V_skipn1_app_false.
Qed.
End Reads.

(* ------------------------------------------------------------------ routing and reductions *)
Definition sgn (x : R) : R := if nonneg RN x then 1 else -1.
Lemma sgn_abs x : sgn x * Rabs x = x.
Proof.
  unfold sgn, nonneg, geb. rn_simpl. rcases.
  - rewrite Rabs_right by lra. lra.
  - rewrite Rabs_left by lra. lra.
Qed.
Lemma sgn_abs_mul x b p : sgn x * (b * (Rabs x * p)) = x * (b * p).
Proof. transitivity ((sgn x * Rabs x) * (b * p)); [ring|rewrite sgn_abs; reflexivity]. Qed.
Lemma net_route bp bq x y :
  net (route RN bp bq x y) = (if bp then 1 else -1) * x + (if bq then 1 else -1) * y.
Proof. destruct bp, bq; unfold net, route; cbn [fst snd ov]; rn_simpl; lra. Qed.
Lemma reduce_single r x : reduce RN r [x] = x.
Proof.
  destruct r; cbn [reduce tsum tmaxl length]; rn_simpl; try lra.
  change (IZR (Z.of_nat 1)) with 1. unfold Rdiv. rewrite Rinv_1. lra.
Qed.

Section Steps.
Variable c : config RN.
Variable k : nat.
Hypothesis Hsyn : delay_truthy RN c = true -> (Z.of_nat k < sz_syn RN c)%Z.
Hypothesis Hpre : del_fwd RN c = true -> (Z.of_nat k < sz_tr_pre RN c)%Z /\ (Z.of_nat k < sz_spike_pre RN c)%Z.
Local Notation kf := (keff c k).
Local Notation dt := (c_dt RN c).
Local Notation m := (c_mode RN c).

(* single sample, no signal: the net update is the signed sum of the two partial updates *)
Lemma net_forward_none s :
  net (forward RN c k (SigNone RN) [s])
  = sgn (c_lr_post RN c) * fst (partials RN c k s) + sgn (c_lr_pre RN c) * snd (partials RN c k s).
Proof.
  unfold forward. cbn [map]. rewrite !reduce_single, net_route. reflexivity.
Qed.
Lemma net_forward_scalar s sv scale :
  net (forward RN c k (SigScalar RN sv scale) [s])
  = sgn (c_lr_post RN c * sv) * (fst (partials RN c k s) * Rabs (sv * scale))
    + sgn (c_lr_pre RN c * sv) * (snd (partials RN c k s) * Rabs (sv * scale)).
Proof.
  unfold forward. cbn [map]. rewrite !reduce_single, net_route. reflexivity.
Qed.

(* the traces and indicators at the current step, for a history h0 ++ [pq] given oldest first *)
Definition Ptr (h : list (bool * bool)) : list bool := shift kf (map fst h).   (* delayed presynaptic train *)
Definition Qtr (h : list (bool * bool)) : list bool := map snd h.               (* postsynaptic train *)

Lemma Ptr_snoc h0 pq : Ptr (h0 ++ [pq]) = Ptr h0 ++ [nth kf (rev (map fst (h0 ++ [pq]))) false].
Proof. unfold Ptr. rewrite map_app. cbn [map]. rewrite shift_snoc, rev_app_distr. reflexivity. Qed.
Lemma Ptr_length h : length (Ptr h) = length h.
Proof. unfold Ptr. rewrite shift_length, map_length. reflexivity. Qed.
Lemma Qtr_snoc h0 pq : Qtr (h0 ++ [pq]) = Qtr h0 ++ [snd pq].
Proof. unfold Qtr. rewrite map_app. reflexivity. Qed.
Lemma Qtr_length h : length (Qtr h) = length h.
Proof. apply map_length. Qed.

Lemma pre_trace_now tau a h0 pq :
  V m (exp (- dt / tau)) a (skipn kf (rev (map fst (h0 ++ [pq]))))
  = a * partner_sum m dt tau (Ptr (h0 ++ [pq])) (length h0).
Proof.
  rewrite <- (V_app_false _ _ _ (Nat.min kf (length (rev (map fst (h0 ++ [pq])))))), <- dlist_skipn.
  rewrite <- (rev_involutive (dlist _ _)), <- shift_rev_dlist. fold (Ptr (h0 ++ [pq])).
  rewrite Ptr_snoc. rewrite trace_closed, Ptr_length. reflexivity.
Qed.
Lemma post_trace_now tau a h0 pq :
  V m (exp (- dt / tau)) a (rev (map snd (h0 ++ [pq])))
  = a * partner_sum m dt tau (Qtr (h0 ++ [pq])) (length h0).
Proof. fold (Qtr (h0 ++ [pq])). rewrite Qtr_snoc, trace_closed, Qtr_length. reflexivity. Qed.
Lemma pre_spike_now h0 pq :
  nth kf (rev (map fst (h0 ++ [pq]))) false = nth (length h0) (Ptr (h0 ++ [pq])) false.
Proof. rewrite Ptr_snoc. replace (length h0) with (length (Ptr h0)) by apply Ptr_length. rewrite nth_middle. reflexivity. Qed.
Lemma post_spike_now h0 pq :
  hd false (rev (map snd (h0 ++ [pq]))) = nth (length h0) (Qtr (h0 ++ [pq])) false.
Proof.
  unfold Qtr. rewrite map_app. cbn [map]. replace (length h0) with (length (map snd h0)) by apply map_length.
  rewrite nth_middle, rev_app_distr. reflexivity.
Qed.

(* the contribution of step t documented for pair-based STDP:
   eta_post [post spike at t] (sum over its partners) + eta_pre [pre spike arriving at t] (sum over its partners) *)
Definition contrib (h : list (bool * bool)) (t : nat) : R :=
  c_lr_post RN c * (b2r (nth t (Qtr h) false) * partner_sum m dt (c_tc_pre RN c) (Ptr h) t)
  + c_lr_pre RN c * (b2r (nth t (Ptr h) false) * partner_sum m dt (c_tc_post RN c) (Qtr h) t).

Lemma partials_stdp h0 pq :
  c_trainer RN c = STDP \/ c_trainer RN c = MSTDP \/ c_trainer RN c = StableSTDP ->
  let h := h0 ++ [pq] in
  partials RN c k (state_of c k (rev h))
  = (b2r (nth (length h0) (Qtr h) false) * (Rabs (c_lr_post RN c) * partner_sum m dt (c_tc_pre RN c) (Ptr h) (length h0)),
     b2r (nth (length h0) (Ptr h) false) * (Rabs (c_lr_pre RN c) * partner_sum m dt (c_tc_post RN c) (Qtr h) (length h0))).
Proof.
  intros Ht h.
  unfold partials. destruct Ht as [E | [E | E]]; rewrite E; cbv zeta;
  rewrite st_tr_pre, st_tr_post, st_spike_pre, st_spike_post by exact Hsyn;
  rewrite (read_trace c k) by (intros E'; apply Hpre; exact E');
  rewrite (read_spike c k) by (intros E'; apply Hpre; exact E');
  rewrite !map_rev;
  change (hd (zero RN) (tvals (mo c) (d_post c) (amp_post RN c) (rev (map snd h))))
    with (V (mo c) (d_post c) (amp_post RN c) (rev (map snd h)));
  unfold mo, d_pre, d_post, h; rewrite pre_trace_now, post_trace_now, pre_spike_now, post_spike_now;
  unfold amp_pre, amp_post, is_stable; rewrite E, !b2t_RN; rn_simpl; f_equal. Show. all: ring.
Qed.
End Steps.

(* ------------------------------------------------------------------ sums over steps, accumulators *)
Lemma sum_steps_ext n f g : (forall t, (t < n)%nat -> f t = g t) -> sum_steps n f = sum_steps n g.
Proof. induction n as [|n IH]; intros H; cbn; [reflexivity|]. rewrite IH, H by (intros; try apply H; lia). reflexivity. Qed.
Lemma sum_steps_plus n f g : sum_steps n (fun t => f t + g t) = sum_steps n f + sum_steps n g.
Proof. induction n as [|n IH]; cbn; [lra|rewrite IH; lra]. Qed.
Lemma sum_steps_scale n a f : sum_steps n (fun t => a * f t) = a * sum_steps n f.
Proof. induction n as [|n IH]; cbn; [lra|rewrite IH; lra]. Qed.
(* a sum over the spike times of a train = a sum over all steps weighted by the spike indicator *)
Lemma sum_over_spike_times l f :
  sum_over (spike_times l) f = sum_steps (length l) (fun t => b2r (nth t l false) * f t).
Proof.
  induction l as [|b l IH] using rev_ind; [reflexivity|].
  rewrite spike_times_snoc, sum_over_app, IH, app_length. cbn [length]. rewrite Nat.add_1_r. cbn [sum_steps].
  rewrite nth_middle. f_equal.
  - apply sum_steps_ext. intros t Ht. rewrite app_nth1 by exact Ht. reflexivity.
  - destruct b; cbn; lra.
Qed.

Lemma sum_net_app a b : sum_net (a ++ b) = sum_net a + sum_net b.
Proof. induction a as [|o a IH]; cbn; [lra|rewrite IH; lra]. Qed.
Lemma ov_acc_add a x : ov (acc_add RN a x) = ov a + ov x.
Proof. destruct a, x; cbn; rn_simpl; lra. Qed.
Lemma ov_acc_update a : ov (acc_update RN a) = ov (fst a) - ov (snd a).
Proof. destruct a as [[p|] [n|]]; cbn; rn_simpl; lra. Qed.
Lemma last_cons {A} (x d : A) l : last (x :: l) d = last l x.
Proof.
  revert x d. induction l as [|y l IH]; intros x d; [reflexivity|].
  change (last (x :: y :: l) d) with (last (y :: l) d). rewrite !IH. reflexivity.
Qed.
Lemma net_accumulate outs : forall a,
  net (last (accumulate RN a outs) a) = net a + sum_net outs.
Proof.
  induction outs as [|o tl IH]; intros a; [cbn [accumulate last sum_net]; rewrite Rplus_0_r; reflexivity|].
  cbn [accumulate sum_net]. rewrite last_cons, IH. unfold net. cbn [fst snd]. rewrite !ov_acc_add. rn_simpl. lra.
Qed.
(* the weight change applied by Accumulator.update (0 when there is no update) is the sum of the net parts *)
Lemma weight_change_sum outs : ov (acc_update RN (final_acc RN outs)) = sum_net outs.
Proof.
  rewrite ov_acc_update. unfold final_acc. pose proof (net_accumulate outs (None, None)) as H.
  unfold net in H. cbn [fst snd ov] in H. rn_simpl. lra.
Qed.

Definition nosig (h : list (bool * bool)) : list ((bool * bool) * signal RN) := map (fun pq => (pq, SigNone RN)) h.

Section Totals.
Variable c : config RN.
Variable k : nat.
Hypothesis Hsyn : delay_truthy RN c = true -> (Z.of_nat k < sz_syn RN c)%Z.
Hypothesis Hpre : del_fwd RN c = true -> (Z.of_nat k < sz_tr_pre RN c)%Z /\ (Z.of_nat k < sz_spike_pre RN c)%Z.
Local Notation dt := (c_dt RN c).
Local Notation m := (c_mode RN c).

Lemma outs_from_snoc hs x : forall hp,
  outs_from c k hp (hs ++ [x])
  = outs_from c k hp hs ++ [forward RN c k (snd x) [state_of c k (fst x :: rev (map fst hs) ++ hp)]].
Proof.
  induction hs as [|y tl IH]; intros hp; [reflexivity|].
  cbn [app outs_from map rev]. rewrite IH, <- app_assoc. reflexivity.
Qed.
Lemma outs_from_snoc0 hs x :
  outs_from c k [] (hs ++ [x])
  = outs_from c k [] hs ++ [forward RN c k (snd x) [state_of c k (rev (map fst (hs ++ [x])))]].
Proof. rewrite outs_from_snoc, app_nil_r, map_app, rev_app_distr. reflexivity. Qed.
Lemma run_single hs : run RN c k (init_batch RN 1) (inps1 hs) = outs_from c k [] hs.
Proof. apply (run_outs_from c k hs []). Qed.

Lemma contrib_prefix h pq t : (t < length h)%nat -> contrib c k (h ++ [pq]) t = contrib c k h t.
Proof.
  intros Ht. unfold contrib. rewrite Ptr_snoc, Qtr_snoc.
  rewrite !app_nth1 by (rewrite ?Ptr_length, ?Qtr_length; exact Ht).
  rewrite !partner_sum_snoc by (rewrite ?Ptr_length, ?Qtr_length; exact Ht). reflexivity.
Qed.
(* the documented per-step contributions add up to the two sums over spike pairs *)
Lemma contrib_pairsum h :
  sum_steps (length h) (contrib c k h)
  = c_lr_post RN c * pairsum m dt (c_tc_pre RN c) (fun _ => 1) (Qtr h) (Ptr c k h)
    + c_lr_pre RN c * pairsum m dt (c_tc_post RN c) (fun _ => 1) (Ptr c k h) (Qtr h).
Proof.
  unfold contrib, pairsum. rewrite !sum_over_spike_times, Ptr_length, Qtr_length.
  rewrite sum_steps_plus, !sum_steps_scale. f_equal; f_equal; apply sum_steps_ext; intros; lra.
Qed.

(* ---- STDP ---- *)
Lemma stdp_steps h : c_trainer RN c = STDP \/ c_trainer RN c = StableSTDP ->
  sum_net (outs_from c k [] (nosig h)) = sum_steps (length h) (contrib c k h).
Proof.
  intros Ht.
  assert (Ht' : c_trainer RN c = STDP \/ c_trainer RN c = MSTDP \/ c_trainer RN c = StableSTDP) by (destruct Ht; auto). induction h as [|pq h IH] using rev_ind; [reflexivity|].
  unfold nosig in *. rewrite map_app. cbn [map]. rewrite outs_from_snoc0, sum_net_app, IH. cbn [sum_net snd].
  rewrite app_length. cbn [length]. rewrite Nat.add_1_r. cbn [sum_steps].
  rewrite (sum_steps_ext _ (contrib c k (h ++ [pq])) (contrib c k h)) by (intros; apply contrib_prefix; assumption).
  rewrite (map_app fst), map_map. cbn [map fst]. rewrite map_id.
  rewrite net_forward_none, (partials_stdp c k Hsyn Hpre h pq Ht'). cbn [fst snd].
  unfold contrib.
  rewrite !sgn_abs_mul. lra.
Qed.
End Totals.
