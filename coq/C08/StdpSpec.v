(* C08 - the independent specification the trainer model is proved against: sums over spike pairs.
   Spike trains are lists of booleans indexed by the time step (oldest first).  Definitions only. *)
From Coq Require Import List ZArith Reals Bool.
From Inferno Require Import Base.Num Base.NumR C08.Stdp.
Import ListNotations.
Open Scope R_scope.
Local Notation exp := Rtrigo_def.exp.

Definition b2r (b : bool) : R := if b then 1 else 0.
(* the steps at which a train has a spike, in increasing order *)
Definition spike_times (l : list bool) : list nat := filter (fun t => nth t l false) (seq 0 (length l)).
Fixpoint sum_over (ts : list nat) (f : nat -> R) : R :=
  match ts with [] => 0 | t :: r => f t + sum_over r f end.
(* weight of the pair (triggering spike at step t, partner spike at step s): exp(-(t - s) dt / tau) *)
Definition pairw (dt tau : R) (t s : nat) : R := exp (- ((INR t - INR s) * dt) / tau).
(* the partner spikes a triggering spike at step t pairs with: the earlier-or-simultaneous ones *)
Definition partners_le (src : list bool) (t : nat) : list nat := filter (fun s => s <=? t) (spike_times src).
(* the most recent spike strictly before step n *)
Fixpoint latest_upto (src : list bool) (n : nat) : option nat :=
  match n with
  | O => None
  | S j => if nth j src false then Some j else latest_upto src j
  end.
(* cumulative mode: all partners; nearest mode: the most recent partner only *)
Definition partner_sum (m : tmode) (dt tau : R) (src : list bool) (t : nat) : R :=
  match m with
  | Cumulative => sum_over (partners_le src t) (pairw dt tau t)
  | Nearest => match latest_upto src (S t) with Some s => pairw dt tau t s | None => 0 end
  end.
(* sum over the triggering spikes t of w(t) * (sum over their partners); w = 1 for plain STDP *)
Definition pairsum (m : tmode) (dt tau : R) (w : nat -> R) (trig src : list bool) : R :=
  sum_over (spike_times trig) (fun t => w t * partner_sum m dt tau src t).
(* a spike train delayed by k steps (same length: spikes that would arrive after the end are dropped) *)
Definition shift (k : nat) (l : list bool) : list bool :=
  repeat false (Nat.min k (length l)) ++ firstn (length l - k) l.
(* value of the partner sum one step earlier (0 at the first step): the slow triplet trace *)
Definition prev_sum (m : tmode) (dt tau : R) (src : list bool) (t : nat) : R :=
  match t with O => 0 | S t' => partner_sum m dt tau src t' end.
(* eligibility filter z(t) = z(t - dt) exp(-dt/tau_z) + c(t)/tau_z of a contribution stream c *)
Fixpoint elig (dt tauz : R) (c : nat -> R) (t : nat) : R :=
  match t with
  | O => c O / tauz
  | S t' => elig dt tauz c t' * exp (- dt / tauz) + c (S t') / tauz
  end.
(* sum of g over the steps 0 .. n-1 *)
Fixpoint sum_steps (n : nat) (g : nat -> R) : R :=
  match n with O => 0 | S j => sum_steps j g + g j end.

(* ------------------------------------------------------------------ what the theorems are stated about *)
(* value of an optional update part (None: nothing accumulated) *)
Definition ov (o : option R) : R := match o with Some x => x | None => 0 end.
(* the sign convention of the trainers: a rate >= 0 potentiates *)
Definition sgn (x : R) : R := if nonneg RN x then 1 else -1.
(* single-sample inputs *)
Definition inps1 (hs : list ((bool * bool) * signal RN)) : list (list (bool * bool) * signal RN) :=
  map (fun x => ([fst x], snd x)) hs.
Definition nosig (h : list (bool * bool)) : list ((bool * bool) * signal RN) := map (fun pq => (pq, SigNone RN)) h.
(* history with the reward signal M and the scale gamma given to each trainer call *)
Definition withsig (hx : list ((bool * bool) * (R * R))) : list ((bool * bool) * signal RN) :=
  map (fun x => (fst x, SigScalar RN (fst (snd x)) (snd (snd x)))) hx.
(* weight of step t: M(t) * |gamma(t)| *)
Definition sigw (hx : list ((bool * bool) * (R * R))) (t : nat) : R :=
  fst (nth t (map snd hx) (0, 0)) * Rabs (snd (nth t (map snd hx) (0, 0))).
(* delays on the step grid (no interpolated view); the step time is positive; a connection with delays has
   delayedby = kmax * dt and this synapse's delay is k <= kmax steps *)
Definition grid_ok (c : config RN) (k : nat) : Prop :=
  c_off RN c = None /\ 0 < c_dt RN c /\
  (c_delayedby RN c = None \/
   exists kmax : nat, c_delayedby RN c = Some (INR kmax * c_dt RN c) /\ (k <= kmax)%nat).
(* the weight change of a fresh single-sample cell trained over the history h (oldest first; every step: the
   layer runs, the trainer is called; at the end the accumulated update is applied) *)
Definition weight_change (c : config RN) (k : nat) (inps : list ((bool * bool) * signal RN)) : R :=
  ov (acc_update RN (final_acc RN (run RN c k (init_batch RN 1) (inps1 inps)))).
(* presynaptic train as it reaches the synapse, postsynaptic train *)
Definition pre_train (c : config RN) (k : nat) (h : list (bool * bool)) : list bool :=
  shift (if has_delay RN c then k else O) (map fst h).
Definition post_train (h : list (bool * bool)) : list bool := map snd h.
Definition set_delayed (c : config RN) (b : bool) : config RN :=
  mkConfig RN (c_trainer RN c) (c_mode RN c) (c_dt RN c) (c_lr_post RN c) (c_lr_pre RN c) (c_tc_post RN c) (c_tc_pre RN c)
           (c_lr_post3 RN c) (c_lr_pre3 RN c) (c_tc_post_slow RN c) (c_tc_pre_slow RN c) (c_tc_elig RN c) b
           (c_delayedby RN c) (c_red RN c) (c_off RN c).
(* the contribution of step t documented for pair-based STDP on the trains P (presynaptic, as it reaches the synapse)
   and Q (postsynaptic): eta_post [post spike at t] (sum over its partners) + eta_pre [pre spike at t] (sum over its partners) *)
Definition stdp_contrib (m : tmode) (dt lr_post lr_pre tc_pre tc_post : R) (P Q : list bool) (t : nat) : R :=
  lr_post * (b2r (nth t Q false) * partner_sum m dt tc_pre P t)
  + lr_pre * (b2r (nth t P false) * partner_sum m dt tc_post Q t).
(* the inputs seen by sample b of a batched run *)
Definition sample (b : nat) (inps : list (list (bool * bool) * signal RN)) : list ((bool * bool) * signal RN) :=
  map (fun i => (nth b (fst i) (false, false), snd i)) inps.
(* weight change of a fresh cell with B samples *)
Definition weight_change_batch (c : config RN) (k : nat) (B : nat) (inps : list (list (bool * bool) * signal RN)) : R :=
  ov (acc_update RN (final_acc RN (run RN c k (init_batch RN B) inps))).
(* signals applied to the whole batch (no signal, or a scalar signal) *)
Definition batch_signal (sg : signal RN) : Prop := match sg with SigTensor _ _ _ => False | _ => True end.
Definition set_trainer (c : config RN) (t : trainer) : config RN :=
  mkConfig RN t (c_mode RN c) (c_dt RN c) (c_lr_post RN c) (c_lr_pre RN c) (c_tc_post RN c) (c_tc_pre RN c)
           (c_lr_post3 RN c) (c_lr_pre3 RN c) (c_tc_post_slow RN c) (c_tc_pre_slow RN c) (c_tc_elig RN c) (c_delayed RN c)
           (c_delayedby RN c) (c_red RN c) (c_off RN c).
(* folding a one-step kernel over a train of observations given newest first (None before the first observation) *)
Fixpoint fold_kernel (f : bool -> option R -> R) (obs : list bool) : option R :=
  match obs with [] => None | o :: r => Some (f o (fold_kernel f r)) end.
(* per-sample reward signals: the signal given to sample b alone *)
Definition signal_of_sample (b : nat) (sg : signal RN) : signal RN :=
  match sg with
  | SigTensor _ sv g => SigTensor RN [nth b sv 0] g
  | other => other
  end.
Definition sample_ps (b : nat) (inps : list (list (bool * bool) * signal RN)) : list ((bool * bool) * signal RN) :=
  map (fun i => (nth b (fst i) (false, false), signal_of_sample b (snd i))) inps.
(* well-formed batched inputs: B samples per step, per-sample signals of length B *)
Definition inputs_ok_ps (B : nat) (inps : list (list (bool * bool) * signal RN)) : Prop :=
  Forall (fun i => length (fst i) = B /\ match snd i with SigTensor _ sv _ => length sv = B | _ => True end) inps.
(* history with a per-sample signal (a one-element tensor) and the scale *)
Definition withsig_ps (hx : list ((bool * bool) * (R * R))) : list ((bool * bool) * signal RN) :=
  map (fun x => (fst x, SigTensor RN [fst (snd x)] (snd (snd x)))) hx.
(* batched history without signal: steps = per step the list of the samples' (pre, post) bits *)
Definition nosig_batch (steps : list (list (bool * bool))) : list (list (bool * bool) * signal RN) :=
  map (fun pqs => (pqs, SigNone RN)) steps.
Definition hist_of (b : nat) (steps : list (list (bool * bool))) : list (bool * bool) :=
  map (fun pqs => nth b pqs (false, false)) steps.
