(* C08 - the independent specification the trainer model is proved against: sums over spike pairs.
   Spike trains are lists of booleans indexed by the time step (oldest first).  Definitions only. *)
From Coq Require Import List ZArith Reals Bool.
From Inferno Require Import C08.Stdp.
Import ListNotations.
Open Scope R_scope.
Local Notation exp := Rtrigo_def.exp.

Definition b2r (b : bool) : R := if b then 1 else 0.
(* the steps at which a train has a spike, in increasing order *)
Definition spike_times (l : list bool) : list nat := filter (fun t => nth t l false) (seq 0 (length l)).
Fixpoint sum_over (ts : list nat) (f : nat -> R) : R :=
  match ts with [] => 0 | t :: r => f t + sum_over r f end.
(* weight of the pair (triggering spike at step t, partner spike at step s): exp(-(t - s) dt / tau) *)
Definition pairw (dt tau : R) (t s : nat) : R := exp (- ((INR t - INR s) * dt) / tau).
(* the partner spikes a triggering spike at step t pairs with: the earlier-or-simultaneous ones *)
Definition partners_le (src : list bool) (t : nat) : list nat := filter (fun s => s <=? t) (spike_times src).
(* the most recent spike strictly before step n *)
Fixpoint latest_upto (src : list bool) (n : nat) : option nat :=
  match n with
  | O => None
  | S j => if nth j src false then Some j else latest_upto src j
  end.
(* cumulative mode: all partners; nearest mode: the most recent partner only *)
Definition partner_sum (m : tmode) (dt tau : R) (src : list bool) (t : nat) : R :=
  match m with
  | Cumulative => sum_over (partners_le src t) (pairw dt tau t)
  | Nearest => match latest_upto src (S t) with Some s => pairw dt tau t s | None => 0 end
  end.
(* sum over the triggering spikes t of w(t) * (sum over their partners); w = 1 for plain STDP *)
Definition pairsum (m : tmode) (dt tau : R) (w : nat -> R) (trig src : list bool) : R :=
  sum_over (spike_times trig) (fun t => w t * partner_sum m dt tau src t).
(* a spike train delayed by k steps (same length: spikes that would arrive after the end are dropped) *)
Definition shift (k : nat) (l : list bool) : list bool :=
  repeat false (Nat.min k (length l)) ++ firstn (length l - k) l.
(* value of the partner sum one step earlier (0 at the first step): the slow triplet trace *)
Definition prev_sum (m : tmode) (dt tau : R) (src : list bool) (t : nat) : R :=
  match t with O => 0 | S t' => partner_sum m dt tau src t' end.
(* eligibility filter z(t) = z(t - dt) exp(-dt/tau_z) + c(t)/tau_z of a contribution stream c *)
Fixpoint elig (dt tauz : R) (c : nat -> R) (t : nat) : R :=
  match t with
  | O => c O / tauz
  | S t' => elig dt tauz c t' * exp (- dt / tauz) + c (S t') / tauz
  end.
(* sum of g over the steps 0 .. n-1 *)
Fixpoint sum_steps (n : nat) (g : nat -> R) : R :=
  match n with O => 0 | S j => sum_steps j g + g j end.
