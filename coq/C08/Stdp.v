(* C08 - model of the STDP-family trainers (inferno/learn/trainers/two_factor_stdp.py, three_factor_stdp.py)
   for ONE synapse (one presynaptic input element, one postsynaptic neuron; weight matrices are maps of this
   model over (output, input) pairs) and a batch of B samples.  Definitions only (no proofs here).

   What is mirrored, branch by branch:
   * monitor wiring of register_cell: which attribute each reducer observes (neuron.spike, connection.synspike
     or - when `delayed` and the connection has delays - the raw synapse.spike), the trace amplitude (|lr| of the
     OPPOSITE side, 1 for the Stable variants, |beta/alpha| for the slow triplet traces), the time constant,
     the duration (hence record size, through the generated recordsz_expr);
   * FoldReducer.forward: state' = fold(obs, peek()) with peek() = None before the first observation, pushed on
     the record; the folds are the GENERATED kernels Gen.Trace.trace_cumulative / trace_nearest /
     trace_cumulative_value;
   * the synapse's spike record and Connection.synspike (delayed read, overbound False);
   * forward of every trainer: which trace multiplies which spike indicator, the read positions (peek / view at
     the selector / read(2) / select(offset=2)), batch reduction, sign-mode routing into the (pos, neg) parts,
     signal scaling and the per-sample signal split (MSTDP, MSTDPET), the eligibility reducers (MSTDPET);
   * the Accumulator: parts are appended, pos/neg = sum of the parts (None when there is none), update = pos-neg.

   Histories are lists NEWEST FIRST; a RecordTensor of size n initialised with the fill value 0 is "the n newest
   entries of the history, padded with the fill value" (that is C01's theorem, not re-proved here); an index is
   reduced modulo the record size exactly like _unwind_ptr does.  A delay is given as the index k of the (older)
   observation RecordTensor.select reads (delay/dt when on the step grid, its ceiling otherwise) plus, off the grid, the
   interpolation time (c_off); the spike records interpolate with interp_previous (= the observation k steps back), the
   trace reducers with interp_expdecay.  All theorems are for delays on the grid. *)
From Coq Require Import List ZArith Bool.
From Inferno Require Import Base.Num Gen.Trace Gen.Infra Gen.Interpolation.
Import ListNotations.

Inductive tmode := Cumulative | Nearest.
Inductive trainer := STDP | StableSTDP | TripletSTDP | StableTripletSTDP | MSTDP | MSTDPET.
Inductive reduction := RSum | RMean | RAmax.

Section Model.
Variable N : Num.
Local Notation R := (T N).

Record config := mkConfig {
  c_trainer : trainer;
  c_mode : tmode;                      (* trace_mode *)
  c_dt : R;                            (* cell.connection.dt *)
  c_lr_post : R; c_lr_pre : R;         (* lr_post / lr_post_pair, lr_pre / lr_pre_pair *)
  c_tc_post : R; c_tc_pre : R;         (* tc_post / tc_post_fast, tc_pre / tc_pre_fast *)
  c_lr_post3 : R; c_lr_pre3 : R;       (* lr_post_triplet, lr_pre_triplet (as given; abs is taken by the code) *)
  c_tc_post_slow : R; c_tc_pre_slow : R;
  c_tc_elig : R;
  c_delayed : bool;                    (* hyperparameter `delayed` *)
  c_delayedby : option R;              (* cell.connection.delayedby (None: connection without delays) *)
  c_red : reduction;                   (* batch_reduction *)
  c_off : option R                     (* None: this synapse's delay is on the step grid (k steps).  Some sample_at: the
                                          delay lies strictly between k-1 and k steps and RecordTensor.select interpolates
                                          with sample_at = dt - dt * ((delay/dt) mod 1) from the observation k steps back *)
}.

Inductive signal := SigNone | SigScalar (s : R) (scale : R) | SigTensor (s : list R) (scale : R).

(* ------------------------------------------------------------------ reducers *)
(* math.exp(-self.dt / self.time_constant) *)
Definition decay_of (dt tc : R) : R := exp N (div N (opp N dt) tc).

(* NearestTraceReducer.fold / CumulativeTraceReducer.fold with target=True, tolerance=None; the observation is
   the boolean cast to the record's floating type *)
Definition trace_fold (m : tmode) (decay amp : R) (obs : bool) (st : option R) : R :=
  match m with
  | Cumulative => trace_cumulative N (b2t N obs) st decay amp (one N) None
  | Nearest => trace_nearest N (b2t N obs) st decay amp (one N) None
  end.
(* FoldReducer.forward: push(fold(obs, peek())) *)
Definition push_trace (m : tmode) (decay amp : R) (hist : list R) (obs : bool) : list R :=
  trace_fold m decay amp obs (hd_error hist) :: hist.
(* EligibilityTraceReducer.forward: trace_cumulative_value(einsum(obs, cond), state, decay, scale = 1/tc) *)
Definition push_elig (decay scale : R) (hist : list R) (x : R) : list R :=
  trace_cumulative_value N x (hd_error hist) decay scale :: hist.

(* record size of a reducer / synapse record: max(ceil(duration/dt) + inclusive, 1), inclusive = True *)
Definition recsz (duration dt : R) : Z := recordsz_expr N duration dt true.
(* value `idx` steps before the newest one in a record of size n (index reduced modulo n like _unwind_ptr) *)
Definition rd {A} (fill : A) (n : Z) (hist : list A) (idx : nat) : A :=
  nth (Z.to_nat (Z.modulo (Z.of_nat idx) n)) hist fill.

(* FoldReducer.view at the selector: the recorded state k steps back when the delay is on the grid, otherwise the
   reducer's `interpolate` (GENERATED interp_expdecay with the reducer's time constant) between the observations
   idx and idx-1 steps back *)
Definition view (off : option R) (dt tc : R) (n : Z) (hist : list R) (idx : nat) : R :=
  match off with
  | None => rd (zero N) n hist idx
  | Some sample_at => interp_expdecay N (rd (zero N) n hist idx) (rd (zero N) n hist (idx - 1)) sample_at dt tc
  end.

(* ------------------------------------------------------------------ wiring *)
Definition has_delay (c : config) : bool := match c_delayedby c with Some _ => true | None => false end.
(* `if cell.connection.delayedby` (truthiness of a float / None) *)
Definition delay_truthy (c : config) : bool :=
  match c_delayedby c with Some d => negb (eqb N d (zero N)) | None => false end.
Definition delayedby0 (c : config) : R := match c_delayedby c with Some d => d | None => zero N end.
Definition delay_aware (c : config) : bool := match c_trainer c with MSTDPET => false | _ => true end.
(* register_cell: delayed = state.delayed and cell.connection.delayedby is not None *)
Definition del_reg (c : config) : bool := delay_aware c && c_delayed c && has_delay c.
(* forward: state.delayed and cell.connection.delayedby *)
Definition del_fwd (c : config) : bool := delay_aware c && c_delayed c && delay_truthy c.

Definition is_triplet (c : config) : bool :=
  match c_trainer c with TripletSTDP | StableTripletSTDP => true | _ => false end.
Definition is_stable (c : config) : bool :=
  match c_trainer c with StableSTDP | StableTripletSTDP => true | _ => false end.

(* trace amplitudes *)
Definition amp_post (c : config) : R := if is_stable c then one N else abs N (c_lr_pre c).   (* trace_post[_fast] *)
Definition amp_pre (c : config) : R := if is_stable c then one N else abs N (c_lr_post c).   (* trace_pre[_fast] *)
Definition lr_post3_abs (c : config) : R := abs N (c_lr_post3 c).                             (* state.lr_post_triplet *)
Definition lr_pre3_abs (c : config) : R := abs N (c_lr_pre3 c).
Definition amp_post_slow (c : config) : R :=
  if is_stable c then one N else abs N (div N (lr_post3_abs c) (c_lr_post c)).
Definition amp_pre_slow (c : config) : R :=
  if is_stable c then one N else abs N (div N (lr_pre3_abs c) (c_lr_pre c)).

(* durations -> record sizes *)
Definition two_dt (c : config) : R := mul N (ofZ N 2) (c_dt c).
Definition sz_syn (c : config) : Z := recsz (delayedby0 c) (c_dt c).                 (* synapse.spike_ *)
Definition sz_spike_pre (c : config) : Z :=
  recsz (if del_reg c then delayedby0 c else zero N) (c_dt c).
Definition sz_tr_pre (c : config) : Z :=
  recsz (if del_reg c then delayedby0 c else if is_triplet c then c_dt c else zero N) (c_dt c).
Definition sz_tr_pre_slow (c : config) : Z :=
  recsz (if del_reg c then add N (delayedby0 c) (c_dt c) else two_dt c) (c_dt c).
Definition sz_tr_post_slow (c : config) : Z := recsz (two_dt c) (c_dt c).

(* ------------------------------------------------------------------ per-sample state *)
Record sstate := mkS {
  s_raw_pre : list bool;          (* synapse.spike_ : raw presynaptic spikes *)
  s_spike_pre : list bool;        (* spike_pre reducer (Passthrough) *)
  s_spike_post : list bool;       (* spike_post reducer (Passthrough) *)
  s_tr_pre : list R;              (* trace_pre / trace_pre_fast *)
  s_tr_post : list R;             (* trace_post / trace_post_fast *)
  s_tr_pre_slow : list R;         (* trace_pre_slow (triplet) *)
  s_tr_post_slow : list R;        (* trace_post_slow (triplet) *)
  s_elig_post : list R;           (* elig_post (MSTDPET) *)
  s_elig_pre : list R             (* elig_pre (MSTDPET) *)
}.
Definition s_init : sstate := mkS [] [] [] [] [] [] [] [] [].

(* Connection.synspike after the raw spike has been pushed: spike_at(selector) when the connection has (truthy)
   delays - value k steps back, overbound False when k exceeds the record - else synapse.spike *)
Definition synspike (c : config) (k : nat) (raw : list bool) : bool :=
  if delay_truthy c then
    (if (Z.of_nat k <? sz_syn c)%Z then rd false (sz_syn c) raw k else false)
  else hd false raw.

(* the layer's forward hooks, in the order the monitors fire: the spike / trace monitors (prepended), then the
   two eligibility monitors (MSTDPET) which read the `latest` of the former *)
Definition observe (c : config) (k : nat) (s : sstate) (p q : bool) : sstate :=
  let raw := p :: s_raw_pre s in
  let obs_pre := if del_reg c then p else synspike c k raw in
  let tr_pre := push_trace (c_mode c) (decay_of (c_dt c) (c_tc_pre c)) (amp_pre c) (s_tr_pre s) obs_pre in
  let tr_post := push_trace (c_mode c) (decay_of (c_dt c) (c_tc_post c)) (amp_post c) (s_tr_post s) q in
  let tri := is_triplet c in
  let tr_pre_slow :=
    if tri then push_trace (c_mode c) (decay_of (c_dt c) (c_tc_pre_slow c)) (amp_pre_slow c) (s_tr_pre_slow s) obs_pre
    else s_tr_pre_slow s in
  let tr_post_slow :=
    if tri then push_trace (c_mode c) (decay_of (c_dt c) (c_tc_post_slow c)) (amp_post_slow c) (s_tr_post_slow s) q
    else s_tr_post_slow s in
  let el := match c_trainer c with MSTDPET => true | _ => false end in
  let dz := decay_of (c_dt c) (c_tc_elig c) in
  let sc := div N (one N) (c_tc_elig c) in
  (* elig_post: obs = trace_pre.latest, cond = spike_post.latest; elig_pre: obs = trace_post.latest, cond = spike_pre.latest *)
  let elig_post := if el then push_elig dz sc (s_elig_post s) (mul N (hd (zero N) tr_pre) (b2t N q)) else s_elig_post s in
  let elig_pre := if el then push_elig dz sc (s_elig_pre s) (mul N (hd (zero N) tr_post) (b2t N obs_pre)) else s_elig_pre s in
  mkS raw (obs_pre :: s_spike_pre s) (q :: s_spike_post s) tr_pre tr_post tr_pre_slow tr_post_slow elig_post elig_pre.

(* ------------------------------------------------------------------ forward: per-sample partial updates *)
(* (dpost_b, dpre_b) before the batch reduction *)
Definition partials (c : config) (k : nat) (s : sstate) : R * R :=
  let dv := del_fwd c in
  (* x_pre: view(selector) when delayed else peek *)
  let x_pre := if dv then view (c_off c) (c_dt c) (c_tc_pre c) (sz_tr_pre c) (s_tr_pre s) k else hd (zero N) (s_tr_pre s) in
  let x_post := hd (zero N) (s_tr_post s) in
  let i_pre := if dv then rd false (sz_spike_pre c) (s_spike_pre s) k else hd false (s_spike_pre s) in
  let i_post := hd false (s_spike_post s) in
  match c_trainer c with
  | STDP | MSTDP =>
      (mul N (b2t N i_post) x_pre, mul N (b2t N i_pre) x_post)
  | StableSTDP =>
      (mul N (b2t N i_post) (mul N x_pre (abs N (c_lr_post c))),
       mul N (b2t N i_pre) (mul N x_post (abs N (c_lr_pre c))))
  | TripletSTDP =>
      (* y_b = trace_post_slow.data_.read(2); x_b = select(selector, offset=2) when delayed else read(2) *)
      let y_b := rd (zero N) (sz_tr_post_slow c) (s_tr_post_slow s) 1 in
      let x_b := if dv then view (c_off c) (c_dt c) (c_tc_pre_slow c) (sz_tr_pre_slow c) (s_tr_pre_slow s) (k + 1)
                 else rd (zero N) (sz_tr_pre_slow c) (s_tr_pre_slow s) 1 in
      (mul N (mul N (add N (one N) y_b) (b2t N i_post)) x_pre,
       mul N (mul N (add N (one N) x_b) (b2t N i_pre)) x_post)
  | StableTripletSTDP =>
      let y_b := rd (zero N) (sz_tr_post_slow c) (s_tr_post_slow s) 1 in
      let x_b := if dv then view (c_off c) (c_dt c) (c_tc_pre_slow c) (sz_tr_pre_slow c) (s_tr_pre_slow s) (k + 1)
                 else rd (zero N) (sz_tr_pre_slow c) (s_tr_pre_slow s) 1 in
      (mul N (mul N (add N (abs N (c_lr_post c)) (mul N (lr_post3_abs c) y_b)) (b2t N i_post)) x_pre,
       mul N (mul N (add N (abs N (c_lr_pre c)) (mul N (lr_pre3_abs c) x_b)) (b2t N i_pre)) x_post)
  | MSTDPET =>
      (hd (zero N) (s_elig_post s), hd (zero N) (s_elig_pre s))
  end.

(* ------------------------------------------------------------------ batch reduction, routing *)
Fixpoint tmaxl (l : list R) : R :=
  match l with [] => zero N | [x] => x | x :: t => tmax N x (tmaxl t) end.
Definition reduce (r : reduction) (l : list R) : R :=
  match r with
  | RSum => tsum N l
  | RMean => div N (tsum N l) (ofZ N (Z.of_nat (length l)))
  | RAmax => tmaxl l
  end.

(* match (a >= 0, b >= 0): which partial goes to the potentiating / depressing accumulator part *)
Definition route (bpost bpre : bool) (dpost dpre : R) : option R * option R :=
  match bpost, bpre with
  | false, false => (None, Some (add N dpost dpre))
  | false, true => (Some dpre, Some dpost)
  | true, false => (Some dpost, Some dpre)
  | true, true => (Some (add N dpost dpre), None)
  end.
Definition nonneg (x : R) : bool := geb N x (zero N).

(* select elements of l whose signal satisfies f *)
Fixpoint pick (f : R -> bool) (sig l : list R) : list R :=
  match sig, l with
  | s :: sig', x :: l' => if f s then x :: pick f sig' l' else pick f sig' l'
  | _, _ => []
  end.
Definition reduce_opt (r : reduction) (l : list R) : option R :=
  match l with [] => None | _ => Some (reduce r l) end.

(* one call of trainer(...) on a batch: the (pos, neg) pair handed to cell.updater.weight *)
Definition forward (c : config) (k : nat) (sg : signal) (ss : list sstate) : option R * option R :=
  let ps := map (partials c k) ss in
  let dposts := map fst ps in
  let dpres := map snd ps in
  match sg with
  | SigNone =>
      route (nonneg (c_lr_post c)) (nonneg (c_lr_pre c)) (reduce (c_red c) dposts) (reduce (c_red c) dpres)
  | SigScalar sv scale =>
      let a := abs N (mul N sv scale) in
      route (nonneg (mul N (c_lr_post c) sv)) (nonneg (mul N (c_lr_pre c) sv))
            (mul N (reduce (c_red c) dposts) a) (mul N (reduce (c_red c) dpres) a)
  | SigTensor sv scale =>
      let sc := map (fun s => abs N (mul N s scale)) sv in
      let dposts' := map (fun xs => mul N (fst xs) (snd xs)) (combine dposts sc) in
      let dpres' := map (fun xs => mul N (fst xs) (snd xs)) (combine dpres sc) in
      let isneg := fun s => ltb N s (zero N) in
      let post_reg := pick nonneg sv dposts' in let post_inv := pick isneg sv dposts' in
      let pre_reg := pick nonneg sv dpres' in let pre_inv := pick isneg sv dpres' in
      let '(dpos, dneg) :=
        match nonneg (c_lr_post c), nonneg (c_lr_pre c) with
        | false, false => (post_inv ++ pre_inv, post_reg ++ pre_reg)
        | false, true => (post_inv ++ pre_reg, post_reg ++ pre_inv)
        | true, false => (post_reg ++ pre_inv, post_inv ++ pre_reg)
        | true, true => (post_reg ++ pre_reg, post_inv ++ pre_inv)
        end in
      (reduce_opt (c_red c) dpos, reduce_opt (c_red c) dneg)
  end.

(* ------------------------------------------------------------------ running a history *)
(* one simulation step: the layer runs (monitors fire for every sample), then the trainer is called *)
Definition step (c : config) (k : nat) (ss : list sstate) (inp : list (bool * bool) * signal)
  : list sstate * (option R * option R) :=
  let ss' := map (fun sx => observe c k (fst sx) (fst (snd sx)) (snd (snd sx))) (combine ss (fst inp)) in
  (ss', forward c k (snd inp) ss').

Fixpoint run (c : config) (k : nat) (ss : list sstate) (inps : list (list (bool * bool) * signal))
  : list (option R * option R) :=
  match inps with
  | [] => []
  | i :: tl => let '(ss', out) := step c k ss i in out :: run c k ss' tl
  end.

(* the same with the synapse's delay (in steps) given per step: delays re-assigned between steps through
   Connection.delay's setter / the Updater (delay learning); every read uses the delay in force at that step *)
Fixpoint run_k (c : config) (ss : list sstate) (inps : list (nat * (list (bool * bool) * signal)))
  : list (option R * option R) :=
  match inps with
  | [] => []
  | i :: tl => let '(ss', out) := step c (fst i) ss (snd i) in out :: run_k c ss' tl
  end.

(* Accumulator: appending a part; pos / neg = torch.sum(stack(parts)) or None *)
Definition acc_add (a x : option R) : option R :=
  match x with
  | None => a
  | Some v => Some (match a with None => v | Some s => add N s v end)
  end.
(* accumulator contents after each trainer call *)
Fixpoint accumulate (a : option R * option R) (outs : list (option R * option R)) : list (option R * option R) :=
  match outs with
  | [] => []
  | o :: tl => let a' := (acc_add (fst a) (fst o), acc_add (snd a) (snd o)) in a' :: accumulate a' tl
  end.
(* Accumulator.update with the default binding p - n *)
Definition acc_update (a : option R * option R) : option R :=
  match a with
  | (Some p, Some n) => Some (sub N p n)
  | (Some p, None) => Some p
  | (None, Some n) => Some (opp N n)
  | (None, None) => None
  end.
Definition final_acc (outs : list (option R * option R)) : option R * option R :=
  last (accumulate (None, None) outs) (None, None).

(* static validity of the configuration: RecordTensor.select raises ValueError when the selector exceeds the
   record's span (delayed views) *)
Definition cfg_ok (c : config) (k : nat) : bool :=
  if del_fwd c then (Z.of_nat k <? sz_tr_pre c)%Z && (Z.of_nat k <? sz_spike_pre c)%Z
                    && (if is_triplet c then (Z.of_nat k <? sz_tr_pre_slow c)%Z else true)
  else true.

(* argument validation of the trainer constructors / register_cell (argtest.gt / argtest.neq -> ValueError): time
   constants > 0 (slow > fast for the triplet trainers), pair rates <> 0 for the triplet trainers, and the trace reducers
   refuse a zero amplitude (|eta| for STDP / MSTDP / MSTDPET, |beta/alpha| for the slow triplet traces) *)
Definition nz (x : R) : bool := neb N x (zero N).
Definition hp_ok (c : config) : bool :=
  gtb N (c_dt c) (zero N) && gtb N (c_tc_post c) (zero N) && gtb N (c_tc_pre c) (zero N) &&
  match c_trainer c with
  | STDP | MSTDP => nz (amp_post c) && nz (amp_pre c)
  | StableSTDP => true
  | MSTDPET => nz (amp_post c) && nz (amp_pre c) && gtb N (c_tc_elig c) (zero N)
  | TripletSTDP =>
      nz (c_lr_post c) && nz (c_lr_pre c) && gtb N (c_tc_post_slow c) (c_tc_post c) && gtb N (c_tc_pre_slow c) (c_tc_pre c)
      && nz (amp_post_slow c) && nz (amp_pre_slow c)
  | StableTripletSTDP =>
      nz (c_lr_post c) && nz (c_lr_pre c) && gtb N (c_tc_post_slow c) (c_tc_post c) && gtb N (c_tc_pre_slow c) (c_tc_pre c)
  end.

(* fresh cell, B samples *)
Definition init_batch (B : nat) : list sstate := repeat s_init B.
End Model.
