(* C12 - checkpoint at any step, restore into another instance, identical future.

   Generic resume theorems for a component whose state is  persistent  (what the state dictionary
   holds)  +  derived/transient  (recomputed on load), and their instance for the RecordTensor model:
   persisting the storage TOGETHER WITH the write position is exactly what is needed; persisting the
   storage alone is refuted by a concrete witness.  Which fields of the real classes are persistent is
   validated by the harness against the real state_dict() key sets (tools/props/c12.py). *)
From Coq Require Import List ZArith Bool Lia.
From Inferno Require Import C01.Ring C01.RingExec.
Import ListNotations.

Section Resume.
Context {St In Out Per : Type}.
Variable step : St -> In -> St * Out.
Variable save : St -> Per.
Variable load : Per -> St -> St.          (* load a checkpoint into a target instance *)
Variable compat : St -> St -> Prop.       (* same configuration, shapes match *)
Variable Inv : St -> Prop.                (* what holds of every reachable state *)

Fixpoint run (s : St) (xs : list In) : St * list Out :=
  match xs with
  | [] => (s, [])
  | x :: t => let '(s', o) := step s x in let '(sf, os) := run s' t in (sf, o :: os)
  end.

Hypothesis load_save : forall s t, Inv s -> compat s t -> load (save s) t = s.
Hypothesis step_inv : forall s x, Inv s -> Inv (fst (step s x)).

Lemma run_inv : forall xs s, Inv s -> Inv (fst (run s xs)).
Proof.
  induction xs as [|x xs IH]; intros s Hs; cbn [run]; [exact Hs|].
  pose proof (step_inv s x Hs) as H1. destruct (step s x) as [s' o]. cbn [fst] in H1.
  specialize (IH s' H1). destruct (run s' xs). exact IH.
Qed.

(* checkpoint after ANY prefix, load into ANY compatible target: the whole future (every later
   output and the final state) is that of the uninterrupted run *)
Theorem resume_equiv : forall s0 pre post t, Inv s0 ->
  let s := fst (run s0 pre) in
  compat s t -> run (load (save s) t) post = run s post.
Proof.
  intros s0 pre post t H0 s Hc. rewrite load_save; [reflexivity| |exact Hc]. apply run_inv. exact H0.
Qed.
End Resume.

(* ---- persistent + derived state: derived buffers are recomputed on load (classifier pattern) ---- *)
Section Derived.
Context {P D : Type}.
Variable derive : P -> D.
Definition dinv (s : P * D) : Prop := snd s = derive (fst s).
Definition dsave (s : P * D) : P := fst s.
Definition dload (p : P) (_ : P * D) : P * D := (p, derive p).
Theorem derived_load_save : forall s t, dinv s -> dload (dsave s) t = s.
Proof. intros [p d] t H. unfold dinv, dload, dsave in *. cbn in *. subst d. reflexivity. Qed.
(* without recomputation (load leaves the target's stale derived buffers) the round trip fails as soon as
   the target's derived part differs *)
Definition dload_stale (p : P) (t : P * D) : P * D := (p, snd t).
Theorem stale_derived_refuted : forall s t, dinv s -> snd t <> derive (fst s) -> dload_stale (dsave s) t <> s.
Proof. intros [p d] [p' d'] H Hne Heq. unfold dinv, dload_stale, dsave in *. cbn in *. injection Heq as E. subst. contradiction. Qed.
End Derived.

(* ---- instance: the RecordTensor model ---- *)
Definition rsave (s : ring0) : @storage Z Z * nat := (st s, ptr s).
Definition rload (p : @storage Z Z * nat) (t : ring0) : ring0 := mkRing (N t) (snd p) (fst p).
Definition rcompat (s t : ring0) : Prop := N s = N t.

Theorem ring_load_save : forall s t, rcompat s t -> rload (rsave s) t = s.
Proof. intros [n p x] [n' p' x'] H. unfold rcompat, rload, rsave in *. cbn in *. subst. reflexivity. Qed.

Definition rstep (s : ring0) (o : op) : ring0 * (@output Z Z + err) :=
  match step0 s o with Ok s' out => (s', inl out) | Err e => (s, inr e) end.

(* contents AND write position persisted: every later read of the restored record equals the
   uninterrupted run, whatever state the target was in *)
Theorem ring_resume : forall s0 pre post t,
  let s := fst (run rstep s0 pre) in
  rcompat s t -> run rstep (rload (rsave s) t) post = run rstep s post.
Proof.
  intros s0 pre post t s Hc.
  exact (resume_equiv rstep rsave rload rcompat (fun _ => True)
           (fun s t _ H => ring_load_save s t H) (fun _ _ _ => I) s0 pre post t I Hc).
Qed.

(* persisting the storage WITHOUT the write position is not enough *)
Definition rload_noptr (p : @storage Z Z * nat) (t : ring0) : ring0 := mkRing (N t) (ptr t) (fst p).
Theorem pointer_must_persist_refuted : exists s t post,
  rcompat s t /\ snd (run rstep (rload_noptr (rsave s) t) post) <> snd (run rstep s post).
Proof.
  exists (mkRing 3 1 (SFull 1%Z [] [[2]; [4]; [6]]%Z)), (mkRing 3 0 (SFull 1%Z [] [[0]; [0]; [0]]%Z)), [OpRead 1%Z].
  split; [reflexivity|]. vm_compute. intros H. discriminate H.
Qed.
