(* C12 - checkpoint / restore for the component MODELS that exist in this development (definitions only):

     (a) the fold-reducer state machine of C07 (C07/Reducer.v; ten shipped classes),
     (b) the four synapse classes of C04   (C04/Synapse.v),
     (c) the eight neuron classes of C03   (C03/Neuron.v).

   For each component:  save  = the STATE DICTIONARY of a model state, as a finite map from the REAL key names
   (tensor keys as they appear in Module.state_dict(); an extra  x  of Module._extras under  "_extra_state.x")
   to the value the real class stores there;  load  = Module.load_state_dict into an arbitrary target instance:
   every key that is present overwrites the target's field, a key that is absent leaves the target's value
   (exactly torch's behaviour: buffers are copied key by key, Module.set_extra_state does _extras.update(state),
   inferno/core/infrastructure.py:118-135);  compat  = same configuration (the constructor arguments and plain
   attributes, none of which is in the state dictionary), shapes of the persistent tensors match, and the target is
   itself a reachable state.

   Which fields are persistent was read off the code and confirmed by running state_dict() of the real classes:
     RecordTensor      data: register_buffer (infrastructure.py:341-346), pointer: register_extra (:990-994);
                       dt/duration/inclusive are NOT persisted by the owners below (persist_temporal=False)
     FoldReducer       register_extra("_initial", True)          observe/reducers/base.py:237
     CAReducer         register_extra("_count", 0)               observe/reducers/stats.py:117
     synapses          RecordTensor spike_ / current_ / pos_current_ / neg_current_  (neural/synapses/*.py, mixins.py)
     neurons           ShapedTensor voltage_, refrac_ (buffers); register_buffer("threshold_adaptation_" |
                       "current_adaptation_")  neural/neurons/mixins.py:33, 84;  tc_adaptation, adapt_increment ... are
                       registered with persistent=False (linear.py:241-242, nonlinear.py:274-278) = configuration
   The key lists  red_keys / syn_keys / nrn_keys  are what the harness (tools/props/c12.py) compares with the key
   sets of the real state dictionaries on every run; ComponentsProofs proves they ARE the key sets of  save. *)
From Coq Require Import List ZArith Bool String.
From Inferno Require Import Base.Num Gen.Infra C01.Ring C07.Reducer C07.ReducerProofs C12.Checkpoint.
From Inferno Require C04.Synapse C03.Neuron.
Import ListNotations.
Local Open Scope string_scope.
Local Open Scope list_scope.

(* ------------------------------------------------------------------ state dictionaries *)
Section Dict.
Context {V : Type}.
Definition sdict := list (string * V).
Fixpoint lookup (k : string) (d : sdict) : option V :=
  match d with
  | [] => None
  | (k', v) :: tl => if String.eqb k k' then Some v else lookup k tl
  end.
Definition keys (d : sdict) : list string := map fst d.
(* the same dictionary without one key: what a class that forgets to register a field would export *)
Definition without (k : string) (d : sdict) : sdict := filter (fun e => negb (String.eqb k (fst e))) d.
End Dict.
Arguments sdict V : clear implicits.

(* load_state_dict copies a tensor only into a buffer of the same shape *)
Definition same_shape {A D} (x y : @storage A D) : Prop :=
  match x, y with
  | SNone, SNone => True
  | SEmpty _, SEmpty _ => True
  | SFull _ sh r, SFull _ sh' r' => sh = sh' /\ List.length r = List.length r'
  | _, _ => False
  end.

(* ================================================================== (a) fold reducers *)
Section ReducerCkpt.
Variable M : Num.
Context {A Obs : Type}.
Variable K : @rclass M A Obs.
Notation reducer := (@reducer M A).

Inductive rval :=
| RVData (x : @storage A unit)      (* a tensor *)
| RVNat (n : nat) | RVBool (b : bool) | RVInt (z : Z).

Definition k_data := "_data__data".
Definition k_pointer := "_extra_state._data__pointer".
Definition k_initial := "_extra_state._initial".
Definition k_count := "_extra_state._count".

(* the key set: CAReducer (kcounts) additionally registers _count *)
Definition red_keys (counts : bool) : list string :=
  [k_data; k_pointer; k_initial] ++ (if counts then [k_count] else []).

Definition red_save (r : reducer) : sdict rval :=
  [(k_data, RVData (st (rrec r))); (k_pointer, RVNat (ptr (rrec r))); (k_initial, RVBool (rinit r))]
  ++ (if kcounts K then [(k_count, RVInt (rcount r))] else []).

(* configuration (dt, duration, inclusive, inplace, decay; the record size) is the target's own *)
Definition red_load (d : sdict rval) (t : reducer) : reducer :=
  mkRed (rdt t) (rdur t) (rincl t) (rinpl t) (rdecay t)
        (match lookup k_count d with Some (RVInt c) => c | _ => rcount t end)
        (match lookup k_initial d with Some (RVBool b) => b | _ => rinit t end)
        (mkRing (N (rrec t))
                (match lookup k_pointer d with Some (RVNat p) => p | _ => ptr (rrec t) end)
                (match lookup k_data d with Some (RVData x) => x | _ => st (rrec t) end)).

(* same constructor arguments / attributes, same tensor shape, target reachable (state_ok is the invariant
   C07 proves for every state reachable from the constructor: ReducerProofs.run_ok) *)
Definition red_compat (s t : reducer) : Prop :=
  rdt t = rdt s /\ rdur t = rdur s /\ rincl t = rincl s /\ rinpl t = rinpl s /\
  same_shape (st (rrec s)) (st (rrec t)) /\ @state_ok M A Obs K t.

(* one operation of the C07 machine (forward, peek, dump, view, clear, dt / inplace setters); an operation
   that raises may still have changed the state (res_state), and the output carries it *)
Definition red_step (r : reducer) (o : @rop M Obs) : reducer * @rres M A :=
  let x := Reducer.rstep M K r o in (res_state x, x).

(* what the caller of an operation sees: the returned value or the exception *)
Definition red_out (x : @rres M A) : @rout A + err :=
  match x with ROk _ o => inl o | RErr _ e => inr e end.

(* regressions: a class that does not register the flag / the counter *)
Definition red_save_noinitial (r : reducer) : sdict rval := without k_initial (red_save r).
Definition red_save_nocount (r : reducer) : sdict rval := without k_count (red_save r).
End ReducerCkpt.

Arguments RVData {A} x.
Arguments RVNat {A} n.
Arguments RVBool {A} b.
Arguments RVInt {A} z.

(* ================================================================== (b) synapses *)
Section SynapseCkpt.
Variable NM : Num.
Notation A := (T NM).
Notation cfg := (Synapse.cfg NM).
Notation syn := (Synapse.syn NM).
Notation spk := (Synapse.spk NM).
Notation cur := (Synapse.cur NM).
Notation neg := (Synapse.neg NM).
Notation ckind := (Synapse.ckind NM).

Inductive sval := SVData (x : @storage A unit) | SVNat (n : nat).

(* RecordTensor named  name  in its owner: buffer  _<name>_data,  extra  _<name>_pointer *)
Definition data_key (name : string) : string := String.append "_" (String.append name "_data").
Definition pointer_key (name : string) : string := String.append "_extra_state._" (String.append name "_pointer").
Definition record_entries (name : string) (r : @ring A unit) : sdict sval :=
  [(data_key name, SVData (st r)); (pointer_key name, SVNat (ptr r))].
Definition record_keys (name : string) : list string := [data_key name; pointer_key name].
Definition record_load (name : string) (d : sdict sval) (t : @ring A unit) : @ring A unit :=
  mkRing (N t)
         (match lookup (pointer_key name) d with Some (SVNat p) => p | _ => ptr t end)
         (match lookup (data_key name) d with Some (SVData x) => x | _ => st t end).

(* the name of the second record: current_ (DeltaPlus, SingleExponential) or pos_current_ (DoubleExponential) *)
Definition cur_name (k : Synapse.kind) : string :=
  match k with Synapse.KDoubleExp => "pos_current_" | _ => "current_" end.

Definition syn_keys (k : Synapse.kind) : list string :=
  match k with
  | Synapse.KDelta => record_keys "spike_"
  | Synapse.KDeltaPlus | Synapse.KSingleExp => record_keys "spike_" ++ record_keys (cur_name k)
  | Synapse.KDoubleExp => record_keys "spike_" ++ record_keys (cur_name k) ++ record_keys "neg_current_"
  end.

Definition syn_save (c : cfg) (s : syn) : sdict sval :=
  match ckind c with
  | Synapse.KDelta => record_entries "spike_" (spk s)
  | Synapse.KDeltaPlus | Synapse.KSingleExp =>
      record_entries "spike_" (spk s) ++ record_entries (cur_name (ckind c)) (cur s)
  | Synapse.KDoubleExp =>
      record_entries "spike_" (spk s) ++ record_entries (cur_name (ckind c)) (cur s)
      ++ record_entries "neg_current_" (neg s)
  end.

(* records a class does not have are model artefacts (Synapse.v: "carried along untouched"): the target's *)
Definition syn_load (c : cfg) (d : sdict sval) (t : syn) : syn :=
  match ckind c with
  | Synapse.KDelta => Synapse.mkSyn NM (record_load "spike_" d (spk t)) (cur t) (neg t)
  | Synapse.KDeltaPlus | Synapse.KSingleExp =>
      Synapse.mkSyn NM (record_load "spike_" d (spk t)) (record_load (cur_name (ckind c)) d (cur t)) (neg t)
  | Synapse.KDoubleExp =>
      Synapse.mkSyn NM (record_load "spike_" d (spk t)) (record_load (cur_name (ckind c)) d (cur t))
                    (record_load "neg_current_" d (neg t))
  end.

(* what holds of every state reachable from the constructor (for ANY operations, including raising ones): the
   record sizes are a function of the configuration, and the records a class does not have still hold the
   constructor's value *)
Definition syn_inv (c : cfg) (s : syn) : Prop :=
  let n := Synapse.recordsz NM (Synapse.cdt NM c) (Synapse.cdelay NM c) in
  let f := Synapse.fresh NM n (Synapse.cshape NM c) in
  N (spk s) = n /\ N (cur s) = n /\ N (neg s) = n /\
  match ckind c with
  | Synapse.KDelta => cur s = f /\ neg s = f
  | Synapse.KDeltaPlus | Synapse.KSingleExp => neg s = f
  | Synapse.KDoubleExp => True
  end.

Definition syn_compat (c : cfg) (s t : syn) : Prop :=
  same_shape (st (spk s)) (st (spk t)) /\
  (ckind c <> Synapse.KDelta -> same_shape (st (cur s)) (st (cur t))) /\
  (ckind c = Synapse.KDoubleExp -> same_shape (st (neg s)) (st (neg t))) /\
  syn_inv c t.

(* one operation (step, current / spike, the *_at views, clear); an operation that raises leaves the state *)
Definition syn_step (c : cfg) (s : syn) (o : Synapse.sop NM) : syn * (Synapse.sout NM + err) :=
  match Synapse.sstep NM c s o with
  | Synapse.SOk (s', out) => (s', inl out)
  | Synapse.SErr e => (s, inr e)
  end.

(* regression: the spike record's pointer registered as a plain attribute *)
Definition syn_save_noptr (c : cfg) (s : syn) : sdict sval :=
  without (pointer_key "spike_") (syn_save c s).
End SynapseCkpt.

Arguments SVData {NM} x.
Arguments SVNat {NM} n.

(* ================================================================== (c) neurons *)
Section NeuronCkpt.
Variable NM : Num.
Notation T := (T NM).
Notation nstate := (Neuron.nstate NM).
Notation column := (Neuron.column NM).
Notation cols := (Neuron.cols NM).
Notation ad := (Neuron.ad NM).
Notation cells := (Neuron.cells NM).

(* a tensor: per neuron (column) its values over the batch (voltage, refrac: torch layout is batch-major, the
   transposition is immaterial here) or its K adaptation values *)
Inductive nval := NVMat (x : list (list T)).

Definition adapt_key (c : Neuron.cls) : option string :=
  match c with
  | Neuron.ALIF | Neuron.GLIF2 => Some "threshold_adaptation_"
  | Neuron.Izhikevich | Neuron.AdEx => Some "current_adaptation_"
  | _ => None
  end.

Definition nrn_keys (c : Neuron.cls) : list string :=
  ["_voltage__data"; "_refrac__data"] ++ (match adapt_key c with Some k => [k] | None => [] end).

Definition nrn_save (c : Neuron.cls) (s : nstate) : sdict nval :=
  [("_voltage__data", NVMat (map (fun col => map fst (cells col)) (cols s)));
   ("_refrac__data", NVMat (map (fun col => map snd (cells col)) (cols s)))]
  ++ (match adapt_key c with Some k => [(k, NVMat (map ad (cols s)))] | None => [] end).

Definition get_mat (k : string) (d : sdict nval) (dflt : list (list T)) : list (list T) :=
  match lookup k d with Some (NVMat x) => x | None => dflt end.

(* training (nn.Module mode) and every hyperparameter are the target's own *)
Definition nrn_load (c : Neuron.cls) (d : sdict nval) (t : nstate) : nstate :=
  let vs := get_mat "_voltage__data" d (map (fun col => map fst (cells col)) (cols t)) in
  let rs := get_mat "_refrac__data" d (map (fun col => map snd (cells col)) (cols t)) in
  let ads := match adapt_key c with Some k => get_mat k d (map ad (cols t)) | None => map ad (cols t) end in
  Neuron.mkState (Neuron.training NM t)
                 (Neuron.map3 (fun v r a => Neuron.mkCol a (combine v r)) vs rs ads).

(* classes without adaptation carry an empty adaptation vector (constructor value, never written) *)
Definition nrn_inv (c : Neuron.cls) (s : nstate) : Prop :=
  Neuron.has_adaptation c = false -> Forall (fun col => ad col = []) (cols s).

(* Operations that exist for the class: C03's model lets OpSetAdapt / OpLoad overwrite the adaptation vector of ANY class;
   a class without adaptation has no such attribute / state-dict entry, so for it these operations may only carry empty
   rows (OpAddAdapt on an empty vector is a no-op in the model already). *)
Definition nrn_op_ok (c : Neuron.cls) (o : Neuron.op NM) : Prop :=
  Neuron.has_adaptation c = false ->
  match o with
  | Neuron.OpSetAdapt a => Forall (fun row => row = []) a
  | Neuron.OpLoad _ _ a => Forall (fun row => row = []) a
  | _ => True
  end.

(* same class and hyperparameters (they are parameters of the step function), same mode, same group size *)
Definition nrn_compat (c : Neuron.cls) (s t : nstate) : Prop :=
  Neuron.training NM t = Neuron.training NM s /\ List.length (cols t) = List.length (cols s) /\ nrn_inv c t.

Definition nrn_step (c : Neuron.cls) (p : Neuron.params NM) (s : nstate) (o : Neuron.op NM)
  : nstate * option (list (list bool)) :=
  let r := Neuron.step NM c p s o in (snd r, fst r).
End NeuronCkpt.

Arguments NVMat {NM} x.

(* ================================================================== declared persistent fields, per shipped class
   (evaluated by the harness and compared with the real classes' state_dict() key sets; the class arguments are
   irrelevant for the key set, so one arbitrary number x is used for all of them) *)
Definition declared_fields (M : Num) (x : T M) : list (string * list string) :=
  [("NearestTraceReducer", red_keys (kcounts (cls_nearest M x x x None)));
   ("CumulativeTraceReducer", red_keys (kcounts (cls_cumulative M x x x None)));
   ("ScaledNearestTraceReducer", red_keys (kcounts (cls_scaled_nearest M x x x (fun _ => true))));
   ("ScaledCumulativeTraceReducer", red_keys (kcounts (cls_scaled_cumulative M x x x (fun _ => true))));
   ("ConditionalNearestTraceReducer", red_keys (kcounts (cls_cond_nearest M x x x)));
   ("ConditionalCumulativeTraceReducer", red_keys (kcounts (cls_cond_cumulative M x x x)));
   ("EventReducer", red_keys (kcounts (cls_event M (fun _ => true) (EInf))));
   ("PassthroughReducer", red_keys (kcounts (cls_pass M)));
   ("EMAReducer", red_keys (kcounts (cls_ema M x)));
   ("CAReducer", red_keys (kcounts (cls_ca M)));
   ("DeltaCurrent", syn_keys Synapse.KDelta);
   ("DeltaPlusCurrent", syn_keys Synapse.KDeltaPlus);
   ("SingleExponentialCurrent", syn_keys Synapse.KSingleExp);
   ("DoubleExponentialCurrent", syn_keys Synapse.KDoubleExp);
   ("LIF", nrn_keys Neuron.LIF); ("ALIF", nrn_keys Neuron.ALIF);
   ("GLIF1", nrn_keys Neuron.GLIF1); ("GLIF2", nrn_keys Neuron.GLIF2);
   ("QIF", nrn_keys Neuron.QIF); ("Izhikevich", nrn_keys Neuron.Izhikevich);
   ("EIF", nrn_keys Neuron.EIF); ("AdEx", nrn_keys Neuron.AdEx)].
