(* C12 - proofs about C12/Components.v: for the reducer machine (C07), the four synapses (C04) and the eight neuron
   classes (C03), loading the state dictionary of ANY reachable state into ANY compatible target gives back exactly
   that state; hence (Checkpoint.resume_equiv) the whole future - every output of every later operation and the final
   state - is that of the uninterrupted run.  Refuted variants: a state dictionary without `_initial`, without
   CAReducer's `_count`, without a synapse record's pointer (regressions that were seeded against the real code). *)
From Coq Require Import List ZArith Bool String Arith Lia Reals Lra.
From Flocq Require Import Core.Raux.
From Inferno Require Import Base.Num Base.NumR Gen.Infra C01.Ring C01.RingProofs C07.Reducer C07.ReducerProofs
  C12.Checkpoint C12.Components.
From Inferno Require C04.Synapse C03.Neuron.
Import ListNotations.
Local Open Scope string_scope.
Local Open Scope list_scope.

(* ================================================================== (a) fold reducers *)
Section ReducerProofs.
Variable M : Num.
Context {A Obs : Type}.
Variable K : @rclass M A Obs.
Notation reducer := (@reducer M A).
Notation ok := (@state_ok M A Obs K).
Notation save := (red_save M K).
Notation load := (red_load M).
Notation compat := (red_compat M K).
Notation step := (red_step M K).

(* the declared key list IS the key set of the saved dictionary *)
Theorem red_save_keys (r : reducer) : keys (save r) = red_keys (kcounts K).
Proof. unfold red_save, red_keys, keys. destruct (kcounts K); reflexivity. Qed.

Lemma lookup_data (r : reducer) : lookup k_data (save r) = Some (RVData (st (rrec r))).
Proof. unfold red_save. destruct (kcounts K); reflexivity. Qed.
Lemma lookup_pointer (r : reducer) : lookup k_pointer (save r) = Some (RVNat (ptr (rrec r))).
Proof. unfold red_save. destruct (kcounts K); reflexivity. Qed.
Lemma lookup_initial (r : reducer) : lookup k_initial (save r) = Some (RVBool (rinit r)).
Proof. unfold red_save. destruct (kcounts K); reflexivity. Qed.
Lemma lookup_count (r : reducer) :
  lookup k_count (save r) = if kcounts K then Some (RVInt (rcount r)) else None.
Proof. unfold red_save. destruct (kcounts K); reflexivity. Qed.

(* round trip: every reachable source, every compatible target *)
Theorem reducer_load_save (s t : reducer) : ok s -> compat s t -> load (save s) t = s.
Proof.
  intros (_ & (HN & Hd & Hc) & _) (E1 & E2 & E3 & E4 & _ & (_ & (HN' & Hd' & Hc') & _)).
  unfold red_load. rewrite lookup_data, lookup_pointer, lookup_initial, lookup_count.
  assert (EN : N (rrec t) = N (rrec s)) by (rewrite HN, HN', E1, E2, E3; reflexivity).
  assert (Ed : rdecay t = rdecay s) by (rewrite Hd, Hd', E1; reflexivity).
  assert (Ec : (if kcounts K then rcount s else rcount t) = rcount s).
  { destruct (kcounts K) eqn:Ek; [reflexivity|]. rewrite (Hc eq_refl), (Hc' eq_refl). reflexivity. }
  rewrite E1, E2, E3, E4, EN, Ed.
  replace (match (if kcounts K then Some (RVInt (rcount s)) else None) with Some (RVInt c) => c | _ => rcount t end)
    with (rcount s) by (destruct (kcounts K); [reflexivity|symmetry; exact Ec]).
  destruct s as [dt dur incl inpl dec cnt ini [n p x]]. reflexivity.
Qed.

Lemma red_step_ok (s : reducer) (o : @rop M Obs) : ok s -> ok (fst (step s o)).
Proof. intros H. unfold red_step. cbn [fst]. apply step_ok. exact H. Qed.

(* checkpoint after ANY operation sequence, load into ANY compatible target, continue with ANY operations
   (forward steps, peek / dump / views, clears, dt and inplace setters): identical outputs and final state *)
Theorem reducer_resume (s0 : reducer) (pre post : list (@rop M Obs)) (t : reducer) : ok s0 ->
  let s := fst (run step s0 pre) in
  compat s t -> run step (load (save s) t) post = run step s post.
Proof.
  intros H0 s Hc.
  exact (resume_equiv step save load compat ok reducer_load_save red_step_ok s0 pre post t H0 Hc).
Qed.

(* the generic runner coincides with C07's own rrun *)
Lemma red_run_rrun (ops : list (@rop M Obs)) : forall r : reducer, run step r ops = rrun M K r ops.
Proof.
  induction ops as [|o ops IH]; intros r; [reflexivity|].
  cbn [run rrun]. unfold red_step at 1. rewrite IH. destruct (rrun M K _ ops). reflexivity.
Qed.

(* both the source and the target constructed with the same arguments and run on arbitrary (different) operation
   sequences: if they still have the same dt / inplace (the setters may have changed them) and tensor shape, the
   future of the restored target is the future of the source, in terms of C07's rrun *)
Theorem reducer_resume_reachable (dt dur : T M) (incl inpl : bool) (pre prior post : list (@rop M Obs)) :
  let s := final K (fresh M K dt dur incl inpl) pre in
  let t := final K (fresh M K dt dur incl inpl) prior in
  rdt t = rdt s -> rdur t = rdur s -> rincl t = rincl s -> rinpl t = rinpl s ->
  same_shape (st (rrec s)) (st (rrec t)) ->
  rrun M K (load (save s) t) post = rrun M K s post.
Proof.
  intros s t E1 E2 E3 E4 Hs. rewrite <- !red_run_rrun.
  pose proof (reducer_resume (fresh M K dt dur incl inpl) pre post t (fresh_ok M K dt dur incl inpl)) as H.
  cbn zeta in H. rewrite red_run_rrun in H. apply H.
  repeat split; try assumption; apply (run_ok M K prior); apply fresh_ok.
Qed.
End ReducerProofs.

(* ---- the ten shipped classes (instances; the class parameters are arbitrary) ---- *)
Theorem nearest_trace_reducer_resume (M : Num) (tau amp target : T M) (tol : option (T M)) :
  let K := cls_nearest M tau amp target tol in
  forall s0 pre post t, state_ok K s0 ->
  let s := fst (run (red_step M K) s0 pre) in
  red_compat M K s t -> run (red_step M K) (red_load M (red_save M K s) t) post = run (red_step M K) s post.
Proof. intros K. exact (reducer_resume M K). Qed.
Theorem cumulative_trace_reducer_resume (M : Num) (tau amp target : T M) (tol : option (T M)) :
  let K := cls_cumulative M tau amp target tol in
  forall s0 pre post t, state_ok K s0 ->
  let s := fst (run (red_step M K) s0 pre) in
  red_compat M K s t -> run (red_step M K) (red_load M (red_save M K s) t) post = run (red_step M K) s post.
Proof. intros K. exact (reducer_resume M K). Qed.
Theorem scaled_nearest_trace_reducer_resume (M : Num) (tau amp scale : T M) (crit : T M -> bool) :
  let K := cls_scaled_nearest M tau amp scale crit in
  forall s0 pre post t, state_ok K s0 ->
  let s := fst (run (red_step M K) s0 pre) in
  red_compat M K s t -> run (red_step M K) (red_load M (red_save M K s) t) post = run (red_step M K) s post.
Proof. intros K. exact (reducer_resume M K). Qed.
Theorem scaled_cumulative_trace_reducer_resume (M : Num) (tau amp scale : T M) (crit : T M -> bool) :
  let K := cls_scaled_cumulative M tau amp scale crit in
  forall s0 pre post t, state_ok K s0 ->
  let s := fst (run (red_step M K) s0 pre) in
  red_compat M K s t -> run (red_step M K) (red_load M (red_save M K s) t) post = run (red_step M K) s post.
Proof. intros K. exact (reducer_resume M K). Qed.
Theorem conditional_nearest_trace_reducer_resume (M : Num) (tau amp scale : T M) :
  let K := cls_cond_nearest M tau amp scale in
  forall s0 pre post t, state_ok K s0 ->
  let s := fst (run (red_step M K) s0 pre) in
  red_compat M K s t -> run (red_step M K) (red_load M (red_save M K s) t) post = run (red_step M K) s post.
Proof. intros K. exact (reducer_resume M K). Qed.
Theorem conditional_cumulative_trace_reducer_resume (M : Num) (tau amp scale : T M) :
  let K := cls_cond_cumulative M tau amp scale in
  forall s0 pre post t, state_ok K s0 ->
  let s := fst (run (red_step M K) s0 pre) in
  red_compat M K s t -> run (red_step M K) (red_load M (red_save M K s) t) post = run (red_step M K) s post.
Proof. intros K. exact (reducer_resume M K). Qed.
Theorem event_reducer_resume (M : Num) (crit : T M -> bool) (i : einit) :
  let K := cls_event M crit i in
  forall s0 pre post t, state_ok K s0 ->
  let s := fst (run (red_step M K) s0 pre) in
  red_compat M K s t -> run (red_step M K) (red_load M (red_save M K s) t) post = run (red_step M K) s post.
Proof. intros K. exact (reducer_resume M K). Qed.
Theorem passthrough_reducer_resume (M : Num) :
  let K := cls_pass M in
  forall s0 pre post t, state_ok K s0 ->
  let s := fst (run (red_step M K) s0 pre) in
  red_compat M K s t -> run (red_step M K) (red_load M (red_save M K s) t) post = run (red_step M K) s post.
Proof. intros K. exact (reducer_resume M K). Qed.
Theorem ema_reducer_resume (M : Num) (alpha : T M) :
  let K := cls_ema M alpha in
  forall s0 pre post t, state_ok K s0 ->
  let s := fst (run (red_step M K) s0 pre) in
  red_compat M K s t -> run (red_step M K) (red_load M (red_save M K s) t) post = run (red_step M K) s post.
Proof. intros K. exact (reducer_resume M K). Qed.
Theorem ca_reducer_resume (M : Num) :
  let K := cls_ca M in
  forall s0 pre post t, state_ok K s0 ->
  let s := fst (run (red_step M K) s0 pre) in
  red_compat M K s t -> run (red_step M K) (red_load M (red_save M K s) t) post = run (red_step M K) s post.
Proof. intros K. exact (reducer_resume M K). Qed.

(* ---- refuted variants (real-number instance, concrete witnesses) ---- *)
Open Scope R_scope.

Lemma fresh_pass_1_0 : fresh RN (cls_pass RN) 1 0 false false = @mkRed RN R 1 0 false false 0 0%Z true (mkRing 1 0 (SEmpty tt)).
Proof.
  unfold fresh, recordsz_expr. cbn [kdecay cls_pass]. rn_simpl.
  replace (0 / 1) with (IZR 0) by (cbn; field). rewrite Zceil_IZR. reflexivity.
Qed.
Lemma fresh_ca_1_0 : fresh RN (cls_ca RN) 1 0 false false = @mkRed RN R 1 0 false false 0 0%Z true (mkRing 1 0 (SEmpty tt)).
Proof.
  unfold fresh, recordsz_expr. cbn [kdecay cls_ca]. rn_simpl.
  replace (0 / 1) with (IZR 0) by (cbn; field). rewrite Zceil_IZR. reflexivity.
Qed.

(* a state dictionary WITHOUT `_initial` (FoldReducer registering the flag as a plain attribute): source = a
   PassthroughReducer that has seen the observation 5; target = the same configuration, run on other data, then
   cleared with keepshape (so its flag is True again).  After loading, peek() returns None instead of 5. *)
Theorem initial_must_persist_refuted :
  exists (s0 : @reducer RN R) (pre : list (@rop RN R)) (t : @reducer RN R) (post : list (@rop RN R)),
    let K := cls_pass RN in
    state_ok K s0 /\
    let s := fst (run (red_step RN K) s0 pre) in
    red_compat RN K s t /\
    map (red_out RN) (snd (run (red_step RN K) (red_load RN (red_save_noinitial RN K s) t) post))
    <> map (red_out RN) (snd (run (red_step RN K) s post)).
Proof.
  exists (fresh RN (cls_pass RN) 1 0 false false), [@OFwd RN R [1%nat] [5]],
         (final (cls_pass RN) (fresh RN (cls_pass RN) 1 0 false false) [@OFwd RN R [1%nat] [7]; @OClear RN R true]),
         [@OPeek RN R].
  cbn zeta. split; [apply fresh_ok|].
  pose proof (run_ok RN (cls_pass RN) [@OFwd RN R [1%nat] [7]; @OClear RN R true] _
                (fresh_ok RN (cls_pass RN) 1 0 false false)) as Hok.
  rewrite fresh_pass_1_0 in *. split.
  - refine (conj _ (conj _ (conj _ (conj _ (conj _ Hok))))); vm_compute; auto.
  - vm_compute. intros H. discriminate H.
Qed.

(* a state dictionary WITHOUT `_count` (CAReducer keeping the counter as a plain attribute): source = a CAReducer
   that has averaged 1 and 3 (value 2, count 2); target = the same configuration after one observation (count 1).
   After loading, the next observation 5 gives 2 + (5 - 2) / 2 = 7/2 instead of the mean (1 + 3 + 5) / 3 = 3. *)
Theorem count_must_persist_refuted :
  exists (s0 : @reducer RN R) (pre : list (@rop RN R)) (t : @reducer RN R) (post : list (@rop RN R)),
    let K := cls_ca RN in
    state_ok K s0 /\
    let s := fst (run (red_step RN K) s0 pre) in
    red_compat RN K s t /\
    map (red_out RN) (snd (run (red_step RN K) (red_load RN (red_save_nocount RN K s) t) post))
    <> map (red_out RN) (snd (run (red_step RN K) s post)).
Proof.
  exists (fresh RN (cls_ca RN) 1 0 false false), [@OFwd RN R [1%nat] [1]; @OFwd RN R [1%nat] [3]],
         (final (cls_ca RN) (fresh RN (cls_ca RN) 1 0 false false) [@OFwd RN R [1%nat] [0]]),
         [@OFwd RN R [1%nat] [5]; @OPeek RN R].
  cbn zeta. split; [apply fresh_ok|].
  pose proof (run_ok RN (cls_ca RN) [@OFwd RN R [1%nat] [0]] _ (fresh_ok RN (cls_ca RN) 1 0 false false)) as Hok.
  rewrite fresh_ca_1_0 in *. split.
  - refine (conj _ (conj _ (conj _ (conj _ (conj _ Hok))))); vm_compute; auto.
  - assert (E1 : exists x, map (red_out RN) (snd (run (red_step RN (cls_ca RN))
                   (red_load RN (red_save_nocount RN (cls_ca RN)
                      (fst (run (red_step RN (cls_ca RN)) (@mkRed RN R 1 0 false false 0 0%Z true (mkRing 1 0 (SEmpty tt)))
                                [@OFwd RN R [1%nat] [1]; @OFwd RN R [1%nat] [3]])))
                      (final (cls_ca RN) (@mkRed RN R 1 0 false false 0 0%Z true (mkRing 1 0 (SEmpty tt))) [@OFwd RN R [1%nat] [0]]))
                   [@OFwd RN R [1%nat] [5]; @OPeek RN R])) = [inl RUnit; inl (RObs [1%nat] [x])] /\ x = 7 / 2).
    { eexists. split; [vm_compute; reflexivity|]. rn_simpl. field. }
    assert (E2 : exists y, map (red_out RN) (snd (run (red_step RN (cls_ca RN))
                      (fst (run (red_step RN (cls_ca RN)) (@mkRed RN R 1 0 false false 0 0%Z true (mkRing 1 0 (SEmpty tt)))
                                [@OFwd RN R [1%nat] [1]; @OFwd RN R [1%nat] [3]]))
                   [@OFwd RN R [1%nat] [5]; @OPeek RN R])) = [inl RUnit; inl (RObs [1%nat] [y])] /\ y = 3).
    { eexists. split; [vm_compute; reflexivity|]. rn_simpl. field. }
    destruct E1 as (x & -> & Hx), E2 as (y & -> & Hy). intros H. injection H as H. lra.
Qed.
Close Scope R_scope.

(* ================================================================== (b) synapses *)
Section SynapseProofs.
Variable NM : Num.
Notation A := (T NM).
Notation cfg := (Synapse.cfg NM).
Notation syn := (Synapse.syn NM).
Notation spk := (Synapse.spk NM).
Notation cur := (Synapse.cur NM).
Notation neg := (Synapse.neg NM).
Notation ckind := (Synapse.ckind NM).
Notation ring := (@ring A unit).

Theorem syn_save_keys (c : cfg) (s : syn) : keys (syn_save NM c s) = syn_keys (ckind c).
Proof. unfold syn_save, syn_keys. destruct (ckind c); reflexivity. Qed.

(* round trip: every state satisfying the reachability invariant, every compatible target *)
Theorem synapse_load_save (c : cfg) (s t : syn) : syn_inv NM c s -> syn_compat NM c s t ->
  syn_load NM c (syn_save NM c s) t = s.
Proof.
  intros (Hs1 & Hs2 & Hs3 & Hsk) (_ & _ & _ & (Ht1 & Ht2 & Ht3 & Htk)).
  unfold syn_load, syn_save, record_load.
  destruct s as [[n1 p1 x1] [n2 p2 x2] [n3 p3 x3]]. cbn [Synapse.spk Synapse.cur Synapse.neg N ptr st] in *.
  destruct (ckind c); cbn [cur_name record_entries app]; cbn; rewrite ?Ht1, ?Ht2, ?Ht3; subst n1 n2 n3.
  - destruct Hsk as (-> & ->), Htk as (-> & ->). reflexivity.
  - rewrite Hsk, Htk. reflexivity.
  - rewrite Hsk, Htk. reflexivity.
  - reflexivity.
Qed.

(* ---- the reachability invariant: holds after the constructor and is kept by EVERY operation ---- *)
Lemma push_N (r : ring) o ip r' out : push (Synapse.castU NM) (zero NM) r o ip = Ok r' out -> N r' = N r.
Proof.
  unfold push.
  set (s1 := match st r with SFull _ _ _ => r | _ => initialize (zero NM) r (oshape o) (odt o) end).
  assert (E1 : N s1 = N r) by (subst s1; unfold initialize; destruct (st r); reflexivity).
  unfold write. destruct (st s1) as [|d|d sh rows]; try discriminate.
  destruct (negb (shape_eqb (oshape o) sh)); [discriminate|].
  destruct ip; unfold incr, set_st, set_ptr; cbn [st N ptr]; intros H; injection H as <- _; exact E1.
Qed.
Lemma rpush_N c (r : ring) sh el r' : Synapse.rpush NM c r sh el = Synapse.SOk r' -> N r' = N r.
Proof.
  unfold Synapse.rpush. destruct (push _ _ r _ _) as [r1 o1|e] eqn:E; [|discriminate].
  intros H. injection H as <-. exact (push_N _ _ _ _ _ E).
Qed.
Lemma rreset_N (r : ring) : N (Synapse.rreset NM r) = N r.
Proof. unfold Synapse.rreset, reset. destruct (st r); reflexivity. Qed.

Theorem syn_init_inv (c : cfg) : syn_inv NM c (Synapse.init NM c).
Proof. unfold syn_inv, Synapse.init. cbn. destruct (ckind c); auto. Qed.

Lemma syn_step_inv (c : cfg) (s : syn) (o : Synapse.sop NM) : syn_inv NM c s -> syn_inv NM c (fst (syn_step NM c s o)).
Proof.
  intros I. pose proof I as (H1 & H2 & H3 & Hk). unfold syn_step.
  destruct (Synapse.sstep NM c s o) as [[s' out]|e] eqn:E; cbn [fst]; [|exact I].
  destruct o; cbn [Synapse.sstep] in E;
    try (injection E as <- _; exact I);
    try (unfold Synapse.lift_f, Synapse.lift_b in E;
         match type of E with match ?x with _ => _ end = _ => destruct x as [[? ?]|?] end;
         [injection E as <- _; exact I|discriminate]).
  - (* forward *)
    unfold Synapse.forward in E.
    destruct (Synapse.rpush NM c (spk s) xsh _) as [spk'|e] eqn:Es; [|discriminate].
    pose proof (rpush_N _ _ _ _ _ Es) as Ns.
    unfold syn_inv. destruct (ckind c) eqn:Ek.
    + injection E as <- _. cbn. rewrite Ns. auto.
    + destruct (Synapse.rpush NM c (cur s) xsh _) as [cur'|e] eqn:Ec; [|discriminate].
      pose proof (rpush_N _ _ _ _ _ Ec) as Nc. injection E as <- _. cbn. rewrite Ns, Nc. auto.
    + destruct (Synapse.rpush NM c (cur s) xsh _) as [cur'|e] eqn:Ec; [|discriminate].
      pose proof (rpush_N _ _ _ _ _ Ec) as Nc. injection E as <- _. cbn. rewrite Ns, Nc. auto.
    + destruct (Synapse.rpush NM c (cur s) xsh _) as [cur'|e] eqn:Ec; [|discriminate].
      destruct (Synapse.rpush NM c (neg s) xsh _) as [neg'|e] eqn:En; [|discriminate].
      pose proof (rpush_N _ _ _ _ _ Ec) as Nc. pose proof (rpush_N _ _ _ _ _ En) as Nn.
      injection E as <- _. cbn. rewrite Ns, Nc, Nn. auto.
  - (* clear *)
    injection E as <- _. unfold Synapse.clear, syn_inv.
    destruct (ckind c); cbn; rewrite ?rreset_N; auto.
Qed.

(* every state reachable from the constructor by any operations satisfies the invariant *)
Theorem syn_run_inv (c : cfg) (ops : list (Synapse.sop NM)) :
  syn_inv NM c (fst (run (syn_step NM c) (Synapse.init NM c) ops)).
Proof. apply (Checkpoint.run_inv (syn_step NM c) (syn_inv NM c) (syn_step_inv c)). apply syn_init_inv. Qed.

(* checkpoint after ANY operation sequence (steps, current / spike reads, the delayed *_at views, clears), load into
   ANY compatible target, continue with ANY operations: identical outputs and final state *)
Theorem synapse_resume (c : cfg) (s0 : syn) (pre post : list (Synapse.sop NM)) (t : syn) : syn_inv NM c s0 ->
  let s := fst (run (syn_step NM c) s0 pre) in
  syn_compat NM c s t ->
  run (syn_step NM c) (syn_load NM c (syn_save NM c s) t) post = run (syn_step NM c) s post.
Proof.
  intros H0 s Hc.
  exact (resume_equiv (syn_step NM c) (syn_save NM c) (syn_load NM c) (syn_compat NM c) (syn_inv NM c)
           (synapse_load_save c) (syn_step_inv c) s0 pre post t H0 Hc).
Qed.

(* the generic runner coincides with C04's own run *)
Lemma syn_run_run (c : cfg) (ops : list (Synapse.sop NM)) : forall s : syn,
  run (syn_step NM c) s ops = Synapse.run NM c s ops.
Proof.
  induction ops as [|o ops IH]; intros s; [reflexivity|].
  cbn [run Synapse.run]. unfold syn_step at 1. destruct (Synapse.sstep NM c s o) as [[s' out]|e]; rewrite IH;
    destruct (Synapse.run NM c _ ops); reflexivity.
Qed.

(* source and target both built by the constructor of the same configuration and run on arbitrary operation
   sequences (C04's run): the restored target continues exactly like the source *)
Theorem synapse_resume_reachable (c : cfg) (pre prior post : list (Synapse.sop NM)) :
  let s := fst (Synapse.run NM c (Synapse.init NM c) pre) in
  let t := fst (Synapse.run NM c (Synapse.init NM c) prior) in
  same_shape (st (spk s)) (st (spk t)) -> same_shape (st (cur s)) (st (cur t)) -> same_shape (st (neg s)) (st (neg t)) ->
  Synapse.run NM c (syn_load NM c (syn_save NM c s) t) post = Synapse.run NM c s post.
Proof.
  intros s t S1 S2 S3. rewrite <- !syn_run_run.
  pose proof (synapse_resume c (Synapse.init NM c) pre post t (syn_init_inv c)) as H. cbn zeta in H.
  rewrite syn_run_run in H. apply H. repeat split; auto.
  - subst t. rewrite <- syn_run_run. apply syn_run_inv.
  - subst t. rewrite <- syn_run_run. apply syn_run_inv.
  - subst t. rewrite <- syn_run_run. apply syn_run_inv.
  - subst t. rewrite <- syn_run_run. apply syn_run_inv.
Qed.
(* ---- no lazily shaped state in a synapse: every record is created by the constructor with the configured shape
   and keeps it, so for two runs from the same constructor the shape side conditions hold by themselves ---- *)
Definition rec_shaped (c : cfg) (r : ring) : Prop :=
  RingProofs.wf r /\ exists rows, st r = SFull tt (Synapse.cshape NM c) rows.
Definition syn_shaped (c : cfg) (s : syn) : Prop :=
  rec_shaped c (spk s) /\ rec_shaped c (cur s) /\ rec_shaped c (neg s).

Lemma rpush_shaped c (r : ring) sh el r' : rec_shaped c r -> Synapse.rpush NM c r sh el = Synapse.SOk r' -> rec_shaped c r'.
Proof.
  intros (Hw & rows & Est). unfold Synapse.rpush.
  destruct (push _ _ r _ _) as [r1 o1|e] eqn:E; [|discriminate]. intros H. injection H as <-.
  split.
  - exact (proj1 (step_wf (Synapse.castU NM) Synapse.promU Synapse.eqbU (zero NM) r (OpPush _ _) r1 o1 Hw E)).
  - unfold push in E. rewrite Est in E. unfold write in E. rewrite Est in E.
    destruct (negb (shape_eqb _ _)); [discriminate|].
    destruct (Synapse.cinplace NM c); unfold incr, set_st, set_ptr in E; cbn [st N ptr] in E;
      injection E as <- _; cbn [st]; eexists; reflexivity.
Qed.
Lemma rreset_shaped c (r : ring) : rec_shaped c r -> rec_shaped c (Synapse.rreset NM r).
Proof.
  intros (Hw & rows & Est). unfold Synapse.rreset.
  destruct (reset (Synapse.castU NM) r (Some (zero NM))) as [r1 o1|e] eqn:E.
  - split.
    + exact (proj1 (step_wf (Synapse.castU NM) Synapse.promU Synapse.eqbU (zero NM) r (OpReset _) r1 o1 Hw E)).
    + unfold reset in E. rewrite Est in E. injection E as <- _. cbn [st]. eexists; reflexivity.
  - split; [exact Hw|exists rows; exact Est].
Qed.
Lemma fresh_shaped c : rec_shaped c (Synapse.fresh NM (Synapse.recordsz NM (Synapse.cdt NM c) (Synapse.cdelay NM c)) (Synapse.cshape NM c)).
Proof.
  assert (Hn : 0 < Synapse.recordsz NM (Synapse.cdt NM c) (Synapse.cdelay NM c))
    by (unfold Synapse.recordsz, recordsz_expr; lia).
  split; [|eexists; reflexivity]. unfold RingProofs.wf, Synapse.fresh. cbn [N ptr st]. rewrite repeat_length. lia.
Qed.

Lemma syn_step_shaped (c : cfg) (s : syn) (o : Synapse.sop NM) : syn_shaped c s -> syn_shaped c (fst (syn_step NM c s o)).
Proof.
  intros I. pose proof I as (H1 & H2 & H3). unfold syn_step.
  destruct (Synapse.sstep NM c s o) as [[s' out]|e] eqn:E; cbn [fst]; [|exact I].
  destruct o; cbn [Synapse.sstep] in E;
    try (injection E as <- _; exact I);
    try (unfold Synapse.lift_f, Synapse.lift_b in E;
         match type of E with match ?x with _ => _ end = _ => destruct x as [[? ?]|?] end;
         [injection E as <- _; exact I|discriminate]).
  - unfold Synapse.forward in E.
    destruct (Synapse.rpush NM c (spk s) xsh _) as [spk'|e] eqn:Es; [|discriminate].
    pose proof (rpush_shaped _ _ _ _ _ H1 Es) as Ss.
    destruct (ckind c) eqn:Ek.
    + injection E as <- _. repeat split; cbn; try apply Ss; try apply H2; apply H3.
    + destruct (Synapse.rpush NM c (cur s) xsh _) as [cur'|e] eqn:Ec; [|discriminate].
      pose proof (rpush_shaped _ _ _ _ _ H2 Ec) as Sc. injection E as <- _.
      repeat split; cbn; try apply Ss; try apply Sc; apply H3.
    + destruct (Synapse.rpush NM c (cur s) xsh _) as [cur'|e] eqn:Ec; [|discriminate].
      pose proof (rpush_shaped _ _ _ _ _ H2 Ec) as Sc. injection E as <- _.
      repeat split; cbn; try apply Ss; try apply Sc; apply H3.
    + destruct (Synapse.rpush NM c (cur s) xsh _) as [cur'|e] eqn:Ec; [|discriminate].
      destruct (Synapse.rpush NM c (neg s) xsh _) as [neg'|e] eqn:En; [|discriminate].
      pose proof (rpush_shaped _ _ _ _ _ H2 Ec) as Sc. pose proof (rpush_shaped _ _ _ _ _ H3 En) as Sn.
      injection E as <- _. repeat split; cbn; try apply Ss; try apply Sc; apply Sn.
  - injection E as <- _. unfold Synapse.clear.
    destruct (ckind c); (split; [|split]); cbn [Synapse.spk Synapse.cur Synapse.neg];
      try apply rreset_shaped; assumption.
Qed.

Lemma shaped_same_shape c (r r' : ring) : rec_shaped c r -> rec_shaped c r' -> N r' = N r -> same_shape (st r) (st r').
Proof.
  intros ((_ & _ & Hl) & rows & E) ((_ & _ & Hl') & rows' & E') EN. rewrite E in *. rewrite E' in *.
  cbn. split; [reflexivity|]. lia.
Qed.

(* full strength for synapses: ANY two operation sequences from the same constructor, no side condition *)
Theorem synapse_resume_from_init (c : cfg) (pre prior post : list (Synapse.sop NM)) :
  let s := fst (Synapse.run NM c (Synapse.init NM c) pre) in
  let t := fst (Synapse.run NM c (Synapse.init NM c) prior) in
  Synapse.run NM c (syn_load NM c (syn_save NM c s) t) post = Synapse.run NM c s post.
Proof.
  intros s t.
  assert (Hsh : forall ops, syn_shaped c (fst (Synapse.run NM c (Synapse.init NM c) ops))).
  { intros ops. rewrite <- syn_run_run.
    apply (Checkpoint.run_inv (syn_step NM c) (syn_shaped c) (syn_step_shaped c)).
    unfold Synapse.init. repeat split; cbn [Synapse.spk Synapse.cur Synapse.neg]; apply fresh_shaped. }
  assert (Hiv : forall ops, syn_inv NM c (fst (Synapse.run NM c (Synapse.init NM c) ops))).
  { intros ops. rewrite <- syn_run_run. apply syn_run_inv. }
  destruct (Hsh pre) as (A1 & A2 & A3). destruct (Hsh prior) as (B1 & B2 & B3).
  destruct (Hiv pre) as (N1 & N2 & N3 & _). destruct (Hiv prior) as (M1 & M2 & M3 & _).
  apply synapse_resume_reachable; apply (shaped_same_shape c); auto; congruence.
Qed.
End SynapseProofs.

(* ================================================================== (c) neurons *)
Section NeuronProofs.
Variable NM : Num.
Notation T := (T NM).
Notation nstate := (Neuron.nstate NM).
Notation column := (Neuron.column NM).
Notation cols := (Neuron.cols NM).
Notation ad := (Neuron.ad NM).
Notation cells := (Neuron.cells NM).

Theorem nrn_save_keys (c : Neuron.cls) (s : nstate) : keys (nrn_save NM c s) = nrn_keys c.
Proof. unfold nrn_save, nrn_keys. destruct c; reflexivity. Qed.

Lemma combine_fst_snd {X Y} (l : list (X * Y)) : combine (map fst l) (map snd l) = l.
Proof. induction l as [|[x y] l IH]; cbn; [reflexivity|]. rewrite IH. reflexivity. Qed.

Lemma rebuild_cols (cs : list column) :
  Neuron.map3 (fun v r a => Neuron.mkCol a (combine v r))
              (map (fun col => map fst (cells col)) cs) (map (fun col => map snd (cells col)) cs) (map ad cs) = cs.
Proof.
  induction cs as [|[a ce] cs IH]; cbn; [reflexivity|]. rewrite IH, combine_fst_snd. reflexivity.
Qed.
Lemma rebuild_cols_noad (cs ct : list column) : List.length ct = List.length cs ->
  Forall (fun col => ad col = []) cs -> Forall (fun col => ad col = []) ct ->
  Neuron.map3 (fun v r a => Neuron.mkCol a (combine v r))
              (map (fun col => map fst (cells col)) cs) (map (fun col => map snd (cells col)) cs) (map ad ct) = cs.
Proof.
  intros HL Hs Ht. replace (map ad ct) with (map ad cs); [apply rebuild_cols|].
  revert ct HL Ht. induction Hs as [|[a ce] cs Ha _ IH]; intros [|[a' ce'] ct] HL Ht; cbn in *; try discriminate; auto.
  inversion Ht as [|? ? Ha' Ht']; subst. cbn in *. subst. f_equal. apply IH; [lia|exact Ht'].
Qed.

(* round trip *)
Theorem neuron_load_save (c : Neuron.cls) (s t : nstate) : nrn_inv NM c s -> nrn_compat NM c s t ->
  nrn_load NM c (nrn_save NM c s) t = s.
Proof.
  intros Is (Et & EL & It). unfold nrn_load, nrn_save, get_mat. rewrite Et.
  destruct s as [tr cs]. cbn [Neuron.training Neuron.cols] in *.
  destruct c; cbn [adapt_key app lookup String.eqb Ascii.eqb Bool.eqb]; cbn;
    try (rewrite rebuild_cols; reflexivity);
    (rewrite rebuild_cols_noad; [reflexivity|exact EL|apply Is; reflexivity|apply It; reflexivity]).
Qed.

Lemma map2_Forall_snd {X Y Z} (f : X -> Y -> Z) (P : Z -> Prop) (Q : X -> Prop) (l : list X) (m : list Y) :
  (forall x y, Q x -> P (f x y)) -> Forall Q l -> Forall P (Neuron.map2 f l m).
Proof.
  intros H HQ. revert m. induction HQ as [|x l Hx _ IH]; intros [|y m]; cbn; constructor; auto.
Qed.

Lemma map2_Forall_2nd {X Y Z} (f : X -> Y -> Z) (P : Z -> Prop) (Q : Y -> Prop) (l : list X) (m : list Y) :
  (forall x y, Q y -> P (f x y)) -> Forall Q m -> Forall P (Neuron.map2 f l m).
Proof.
  intros H HQ. revert l. induction HQ as [|y m Hy _ IH]; intros [|x l]; cbn; constructor; auto.
Qed.
Lemma map4_Forall_4th {X Y Z W V} (f : X -> Y -> Z -> W -> V) (P : V -> Prop) (Q : W -> Prop)
      (l : list X) (m : list Y) (n : list Z) (o : list W) :
  (forall x y z w, Q w -> P (f x y z w)) -> Forall Q o -> Forall P (Neuron.map4 f l m n o).
Proof.
  intros H HQ. revert l m n. induction HQ as [|w o Hw _ IH]; intros [|x l] [|y m] [|z n]; cbn; constructor; auto.
Qed.

(* every operation that exists for the class keeps the invariant *)
Lemma nrn_step_inv (c : Neuron.cls) (p : Neuron.params NM) (s : nstate) (o : Neuron.op NM) :
  nrn_op_ok NM c o -> nrn_inv NM c s -> nrn_inv NM c (fst (nrn_step NM c p s o)).
Proof.
  intros Hop I Hc. specialize (I Hc). specialize (Hop Hc). unfold nrn_step. cbn [fst].
  destruct o as [a lock xs|keep|m|a|d|v|r|v r a]; cbn [Neuron.step].
  - unfold Neuron.forward. cbn [snd Neuron.cols].
    rewrite Forall_map. apply (map2_Forall_snd _ _ (fun col => ad col = [])); [|exact I].
    intros col x Hcol. unfold Neuron.col_forward. cbn [snd Neuron.ad].
    destruct (Neuron.eff_adapt a (Neuron.training NM s)); [|exact Hcol].
    destruct c; cbn [Neuron.cls_adapt]; try exact Hcol; discriminate Hc.
  - cbn [snd Neuron.cols]. unfold Neuron.clear. rewrite Forall_map. rewrite Hc. cbn [andb Neuron.ad].
    exact I.
  - exact I.
  - cbn [snd Neuron.cols]. unfold Neuron.set_adapt.
    apply (map2_Forall_2nd _ _ (fun row => row = [])); [|exact Hop]. intros col row Hrow. exact Hrow.
  - cbn [snd Neuron.cols]. unfold Neuron.add_adapt.
    apply (map2_Forall_snd _ _ (fun col => ad col = [])); [|exact I].
    intros col row Hcol. cbn [Neuron.ad]. rewrite Hcol. reflexivity.
  - cbn [snd Neuron.cols]. unfold Neuron.set_voltage.
    apply (map2_Forall_snd _ _ (fun col => ad col = [])); [|exact I]. intros col row Hcol. exact Hcol.
  - cbn [snd Neuron.cols]. unfold Neuron.set_refrac.
    apply (map2_Forall_snd _ _ (fun col => ad col = [])); [|exact I]. intros col row Hcol. exact Hcol.
  - cbn [snd Neuron.cols]. unfold Neuron.load_state.
    apply (map4_Forall_4th _ _ (fun row => row = [])); [|exact Hop]. intros col vr rr row Hrow. exact Hrow.
Qed.

Lemma nrn_run_inv (c : Neuron.cls) (p : Neuron.params NM) (ops : list (Neuron.op NM)) : forall s : nstate,
  Forall (nrn_op_ok NM c) ops -> nrn_inv NM c s -> nrn_inv NM c (fst (run (nrn_step NM c p) s ops)).
Proof.
  induction ops as [|o ops IH]; intros s Hops Hs; [exact Hs|].
  inversion Hops as [|? ? Ho Hops']; subst. cbn [run].
  pose proof (nrn_step_inv c p s o Ho Hs) as H1. destruct (nrn_step NM c p s o) as [s' out]. cbn [fst] in H1.
  specialize (IH s' Hops' H1). destruct (run (nrn_step NM c p) s' ops). exact IH.
Qed.

Theorem nrn_init_inv (c : Neuron.cls) (p : Neuron.params NM) (n b : nat) : nrn_inv NM c (Neuron.init NM c p n b).
Proof.
  intros Hc. unfold Neuron.init. cbn [Neuron.cols]. rewrite Hc. apply Forall_forall. intros col Hin.
  apply repeat_spec in Hin. subst col. reflexivity.
Qed.

(* checkpoint after ANY sequence of operations that exist for the class (forward steps with or without adaptation /
   refractory lock, clears, mode switches, state written from outside through the setters or a load), load into ANY
   target of the same class, hyperparameters, group size and mode, continue with ANY operations: identical spikes and
   final state (voltage, refractory time, adaptation) *)
Theorem neuron_resume (c : Neuron.cls) (p : Neuron.params NM) (s0 : nstate) (pre post : list (Neuron.op NM)) (t : nstate) :
  nrn_inv NM c s0 -> Forall (nrn_op_ok NM c) pre ->
  let s := fst (run (nrn_step NM c p) s0 pre) in
  nrn_compat NM c s t ->
  run (nrn_step NM c p) (nrn_load NM c (nrn_save NM c s) t) post = run (nrn_step NM c p) s post.
Proof.
  intros H0 Hpre s Hc. rewrite (neuron_load_save c s t); [reflexivity| |exact Hc].
  apply nrn_run_inv; assumption.
Qed.

(* source and target both built by the same constructor call and run on arbitrary operation sequences; the mode
   (train / eval) is not part of a state dictionary, so it must agree, and so must the number of neuron columns
   (a forward with a malformed input can truncate the model's column list) *)
Theorem neuron_resume_reachable (c : Neuron.cls) (p : Neuron.params NM) (n b : nat) (pre prior post : list (Neuron.op NM)) :
  Forall (nrn_op_ok NM c) pre -> Forall (nrn_op_ok NM c) prior ->
  let s := fst (run (nrn_step NM c p) (Neuron.init NM c p n b) pre) in
  let t := fst (run (nrn_step NM c p) (Neuron.init NM c p n b) prior) in
  Neuron.training NM t = Neuron.training NM s -> List.length (cols t) = List.length (cols s) ->
  run (nrn_step NM c p) (nrn_load NM c (nrn_save NM c s) t) post = run (nrn_step NM c p) s post.
Proof.
  intros Hpre Hprior s t E1 E2.
  apply (neuron_resume c p (Neuron.init NM c p n b) pre post t (nrn_init_inv c p n b) Hpre).
  split; [exact E1|]. split; [exact E2|]. apply nrn_run_inv; [exact Hprior|apply nrn_init_inv].
Qed.
End NeuronProofs.

(* ---- refuted variant for synapses (real-number instance, concrete witness) ---- *)
Open Scope R_scope.

Definition wit_cfg : Synapse.cfg RN :=
  Synapse.mkCfg RN Synapse.KDelta [1%nat; 1%nat] 1 2 1 1 1 Synapse.IPrevious 0 None None false.

Lemma wit_recordsz : Synapse.recordsz RN 1 2 = 3%nat.
Proof.
  unfold Synapse.recordsz, recordsz_expr. rn_simpl.
  replace (2 / 1) with (IZR 2) by (cbn; field). rewrite Zceil_IZR. reflexivity.
Qed.
Lemma wit_boolify : Synapse.boolify RN 1 = 1.
Proof.
  unfold Synapse.boolify, Synapse.to_bool, neb, b2t. rn_simpl.
  destruct (Reqb'_spec 1 0) as [E|_]; [lra|reflexivity].
Qed.

(* a state dictionary WITHOUT the spike record's pointer (registered as a plain attribute): source = a delayed
   DeltaCurrent (record of 3 steps) that has received one spike; target = a freshly constructed one.  After loading,
   the spike read back (synapse.spike) is False instead of True. *)
Theorem synapse_pointer_must_persist_refuted :
  exists (c : Synapse.cfg RN) (s0 : Synapse.syn RN) (pre : list (Synapse.sop RN)) (t : Synapse.syn RN)
         (post : list (Synapse.sop RN)),
    syn_inv RN c s0 /\
    let s := fst (run (syn_step RN c) s0 pre) in
    syn_compat RN c s t /\
    snd (run (syn_step RN c) (syn_load RN c (syn_save_noptr RN c s) t) post)
    <> snd (run (syn_step RN c) s post).
Proof.
  exists wit_cfg, (Synapse.init RN wit_cfg), [Synapse.OStep RN [1%nat; 1%nat] [1] []], (Synapse.init RN wit_cfg),
         [Synapse.OSpike RN].
  split; [apply syn_init_inv|]. cbn zeta.
  assert (Es : fst (run (syn_step RN wit_cfg) (Synapse.init RN wit_cfg) [Synapse.OStep RN [1%nat; 1%nat] [1] []])
               = Synapse.mkSyn RN (mkRing 3 1 (SFull tt [1%nat; 1%nat] [[1]; [0]; [0]]))
                                (Synapse.fresh RN 3 [1%nat; 1%nat]) (Synapse.fresh RN 3 [1%nat; 1%nat])).
  { cbn [run]. unfold syn_step, Synapse.sstep, Synapse.forward, Synapse.init.
    cbn [Synapse.cdt Synapse.cdelay Synapse.cshape Synapse.ckind wit_cfg map]. rewrite wit_recordsz, wit_boolify.
    vm_compute. reflexivity. }
  rewrite Es. split.
  - unfold syn_compat. split; [|split; [|split]].
    + unfold Synapse.init. cbn [Synapse.cdt Synapse.cdelay Synapse.cshape wit_cfg]. rewrite wit_recordsz.
      vm_compute. auto.
    + intros H. exfalso. apply H. reflexivity.
    + intros H. discriminate H.
    + apply syn_init_inv.
  - unfold Synapse.init. cbn [Synapse.cdt Synapse.cdelay Synapse.cshape wit_cfg]. rewrite wit_recordsz.
    assert (E1 : snd (run (syn_step RN wit_cfg)
                   (syn_load RN wit_cfg (syn_save_noptr RN wit_cfg
                      (Synapse.mkSyn RN (mkRing 3 1 (SFull tt [1%nat; 1%nat] [[1]; [0]; [0]]))
                                     (Synapse.fresh RN 3 [1%nat; 1%nat]) (Synapse.fresh RN 3 [1%nat; 1%nat])))
                      (Synapse.mkSyn RN (Synapse.fresh RN 3 [1%nat; 1%nat]) (Synapse.fresh RN 3 [1%nat; 1%nat])
                                     (Synapse.fresh RN 3 [1%nat; 1%nat])))
                   [Synapse.OSpike RN]) = [inl (Synapse.SOBool RN [1%nat; 1%nat] [0])]) by (vm_compute; reflexivity).
    assert (E2 : snd (run (syn_step RN wit_cfg)
                      (Synapse.mkSyn RN (mkRing 3 1 (SFull tt [1%nat; 1%nat] [[1]; [0]; [0]]))
                                     (Synapse.fresh RN 3 [1%nat; 1%nat]) (Synapse.fresh RN 3 [1%nat; 1%nat]))
                   [Synapse.OSpike RN]) = [inl (Synapse.SOBool RN [1%nat; 1%nat] [1])]) by (vm_compute; reflexivity).
    rewrite E1, E2. intros H. injection H as H. lra.
Qed.
