(* C10, part A: theorems about the bounding kernels GENERATED from inferno/functional/bounding.py
   (Gen/Bounding.v), over the reals.  Independent specs: interval membership, monotonicity, algebraic
   identities. *)
From Coq Require Import List ZArith Bool Reals Lra Lia.
From Inferno Require Import Base.Num Base.NumR Gen.Bounding C10.Updater.
Import ListNotations.
Open Scope R_scope.

Ltac kunfold :=
  unfold half_apply, full_val, bound_power, bound_scaled_power, bound_multiplicative, bound_scaled_multiplicative,
    bound_sharp, bound_upper_power, bound_lower_power, bound_upper_scaled_power, bound_lower_scaled_power,
    bound_upper_multiplicative, bound_lower_multiplicative, bound_upper_scaled_multiplicative,
    bound_lower_scaled_multiplicative, bound_upper_sharp, bound_lower_sharp in *;
  rn_unfold.

(* ------------------------------------------------------------------ x ** y on [0, 1] *)
Lemma Rpow'_nonneg x y : 0 <= x -> 0 <= Rpow' x y.
Proof.
  intros Hx. unfold Rpow'. destruct (Req_EM_T x 0); [destruct (Req_EM_T y 0); lra|].
  unfold Rpower. left. apply exp_pos.
Qed.

Lemma Rpow'_le_base x y : 0 <= x <= 1 -> 1 <= y -> 0 <= Rpow' x y <= x.
Proof.
  intros [H0 H1] Hy. split; [apply Rpow'_nonneg; exact H0|].
  unfold Rpow'. destruct (Req_EM_T x 0) as [E|NE].
  - destruct (Req_EM_T y 0); lra.
  - assert (Hx : 0 < x) by lra.
    unfold Rpower.
    assert (Hln : Rpower.ln x <= 0).
    { destruct (Req_dec x 1) as [->|N1]; [rewrite ln_1; lra|].
      left. rewrite <- ln_1. apply ln_increasing; lra. }
    assert (Hle : y * Rpower.ln x <= Rpower.ln x) by nra.
    rewrite <- (exp_ln x Hx) at 2.
    destruct Hle as [Hlt|Heq]; [left; apply exp_increasing; exact Hlt|rewrite Heq; lra].
Qed.

Lemma Rpow'_one x : 0 <= x -> Rpow' x 1 = x.
Proof.
  intros Hx. unfold Rpow'. destruct (Req_EM_T x 0) as [->|NE].
  - destruct (Req_EM_T 1 0); lra.
  - apply Rpower_1. lra.
Qed.

Lemma unit_scale a q : 0 <= a -> 0 <= q <= 1 -> 0 <= a * q <= a.
Proof. intros. nra. Qed.

(* ------------------------------------------------------------------ the full kernels are upper - lower *)
(* the half kernels a full kernel is made of (range = max - min for the scaled ones) *)
Definition upper_of (k : fullk RN) (mx : R) (mn : option R) : halfk RN :=
  let rg := mx - match mn with Some b => b | None => 0 end in
  match k with
  | FPow _ up _ => HPowU RN up
  | FSPow _ up _ => HSPowU RN up rg
  | FMul _ => HMulU RN
  | FSMul _ => HSMulU RN rg
  | FSharp _ => HSharpU RN
  end.
Definition lower_of (k : fullk RN) (mx : option R) (mn : R) : halfk RN :=
  let rg := match mx with Some a => a | None => 0 end - mn in
  match k with
  | FPow _ _ lp => HPowL RN lp
  | FSPow _ _ lp => HSPowL RN lp rg
  | FMul _ => HMulL RN
  | FSMul _ => HSMulL RN rg
  | FSharp _ => HSharpL RN
  end.
(* bound_upper(.) and bound_lower(.) of the property statement, for a full kernel with optional limits *)
Definition full_upper (k : fullk RN) (mx mn : option R) (x p : R) : R :=
  match mx with Some m => half_apply RN (upper_of k m mn) m x p | None => p end.
Definition full_lower (k : fullk RN) (mx mn : option R) (x n : R) : R :=
  match mn with Some m => half_apply RN (lower_of k mx m) m x n | None => n end.

Theorem full_val_decomp k mx mn x p n :
  full_typeerr RN k mx mn = false ->
  full_val RN k mx mn x p n = full_upper k mx mn x p - full_lower k mx mn x n.
Proof.
  destruct k, mx, mn; cbn [full_typeerr]; intros H; try discriminate H;
    unfold full_upper, full_lower, upper_of, lower_of; kunfold; reflexivity.
Qed.

(* every half kernel is (a factor depending on the parameter) * update: a zero update stays zero *)
Theorem half_apply_zero k lim x : half_apply RN k lim x 0 = 0.
Proof. destruct k; kunfold; ring. Qed.

Theorem full_lower_zero k mx mn x : full_lower k mx mn x 0 = 0.
Proof. unfold full_lower. destruct mn; [apply half_apply_zero|reflexivity]. Qed.
Theorem full_upper_zero k mx mn x : full_upper k mx mn x 0 = 0.
Proof. unfold full_upper. destruct mx; [apply half_apply_zero|reflexivity]. Qed.

(* ------------------------------------------------------------------ range preservation (one step) *)
Theorem multiplicative_step_in_range x p n mx mn :
  mn <= x <= mx -> 0 <= p <= 1 -> 0 <= n <= 1 ->
  mn <= x + bound_multiplicative RN x p n (Some mx) (Some mn) <= mx.
Proof. intros Hx Hp Hn. kunfold. nra. Qed.

Theorem scaled_multiplicative_step_in_range x p n mx mn :
  mn < mx -> mn <= x <= mx -> 0 <= p <= mx - mn -> 0 <= n <= mx - mn ->
  mn <= x + bound_scaled_multiplicative RN x p n mx mn <= mx.
Proof.
  intros Hr Hx Hp Hn. kunfold.
  set (r := mx - mn) in *. assert (Hr0 : 0 < r) by (unfold r; lra).
  replace ((mx - x) / r * p) with ((mx - x) * (p / r)) by (field; lra).
  replace ((x - mn) / r * n) with ((x - mn) * (n / r)) by (field; lra).
  assert (Hp' : 0 <= p / r <= 1).
  { split; [apply Rmult_le_pos; [lra|left; apply Rinv_0_lt_compat; lra]|].
    apply Rmult_le_reg_r with r; [lra|]. unfold Rdiv. rewrite Rmult_assoc, Rinv_l by lra. lra. }
  assert (Hn' : 0 <= n / r <= 1).
  { split; [apply Rmult_le_pos; [lra|left; apply Rinv_0_lt_compat; lra]|].
    apply Rmult_le_reg_r with r; [lra|]. unfold Rdiv. rewrite Rmult_assoc, Rinv_l by lra. lra. }
  pose proof (unit_scale (mx - x) (p / r) ltac:(lra) Hp').
  pose proof (unit_scale (x - mn) (n / r) ltac:(lra) Hn').
  lra.
Qed.

(* scaled power dependence of every REAL order >= 1 (not only natural orders) *)
Theorem scaled_power_step_in_range x p n mx mn up lp :
  mn < mx -> mn <= x <= mx -> 1 <= up -> 1 <= lp -> 0 <= p <= mx - mn -> 0 <= n <= mx - mn ->
  mn <= x + bound_scaled_power RN x p n mx mn up lp <= mx.
Proof.
  intros Hr Hx Hup Hlp Hp Hn. kunfold.
  set (r := mx - mn) in *. assert (Hr0 : 0 < r) by (unfold r; lra).
  assert (Hbu : 0 <= (mx - x) / r <= 1).
  { split; [apply Rmult_le_pos; [lra|left; apply Rinv_0_lt_compat; lra]|].
    apply Rmult_le_reg_r with r; [lra|]. unfold Rdiv. rewrite Rmult_assoc, Rinv_l by lra. unfold r. lra. }
  assert (Hbl : 0 <= (x - mn) / r <= 1).
  { split; [apply Rmult_le_pos; [lra|left; apply Rinv_0_lt_compat; lra]|].
    apply Rmult_le_reg_r with r; [lra|]. unfold Rdiv. rewrite Rmult_assoc, Rinv_l by lra. unfold r. lra. }
  pose proof (Rpow'_le_base _ up Hbu Hup) as Hu.
  pose proof (Rpow'_le_base _ lp Hbl Hlp) as Hl.
  assert (Eu : (mx - x) / r * r = mx - x) by (field; lra).
  assert (El : (x - mn) / r * r = x - mn) by (field; lra).
  assert (0 <= Rpow' ((mx - x) / r) up * p <= mx - x) by nra.
  assert (0 <= Rpow' ((x - mn) / r) lp * n <= x - mn) by nra.
  lra.
Qed.

(* the same for the half kernels installed separately in the two slots *)
Theorem half_multiplicative_step_in_range x p n mx mn :
  mn <= x <= mx -> 0 <= p <= 1 -> 0 <= n <= 1 ->
  mn <= x + (bound_upper_multiplicative RN x p mx - bound_lower_multiplicative RN x n mn) <= mx.
Proof. intros. kunfold. nra. Qed.

(* the hypothesis "magnitude at most 1" cannot be dropped *)
Theorem multiplicative_needs_unit_magnitude :
  exists x p n mx mn, mn <= x <= mx /\ 0 <= p /\ 0 <= n <= 1 /\
    ~ (x + bound_multiplicative RN x p n (Some mx) (Some mn) <= mx).
Proof. exists 0, 2, 0, 1, 0. kunfold. repeat split; try lra. Qed.

(* ------------------------------------------------------------------ power of order 1 = multiplicative *)
Theorem power_one_is_multiplicative x u lim :
  (x <= lim -> bound_upper_power RN x u lim 1 = bound_upper_multiplicative RN x u lim) /\
  (lim <= x -> bound_lower_power RN x u lim 1 = bound_lower_multiplicative RN x u lim).
Proof. split; intros H; kunfold; rewrite Rpow'_one by lra; reflexivity. Qed.

(* ------------------------------------------------------------------ sharp dependence *)
Lemma heaviside_closed d : d <= 0 -> heaviside RN d 0 = 0.
Proof. intros H. rn_unfold. rcases; try reflexivity; lra. Qed.
Lemma heaviside_open d : 0 < d -> heaviside RN d 0 = 1.
Proof. intros H. rn_unfold. rcases; try reflexivity; lra. Qed.
Lemma heaviside_01 d : heaviside RN d 0 = 0 \/ heaviside RN d 0 = 1.
Proof. rn_unfold. rcases; auto. Qed.

(* the gate is closed AT the limit and beyond it *)
Theorem sharp_gate_closed x u lim :
  (lim <= x -> bound_upper_sharp RN x u lim = 0) /\ (x <= lim -> bound_lower_sharp RN x u lim = 0).
Proof.
  split; intros H; unfold bound_upper_sharp, bound_lower_sharp; cbv zeta;
    change (sub RN ?a ?b) with (a - b); change (mul RN ?a ?b) with (a * b); change (zero RN) with 0;
    (rewrite heaviside_closed by lra); rn_simpl; ring.
Qed.
Theorem sharp_gate_open x u lim :
  (x < lim -> bound_upper_sharp RN x u lim = u) /\ (lim < x -> bound_lower_sharp RN x u lim = u).
Proof.
  split; intros H; unfold bound_upper_sharp, bound_lower_sharp; cbv zeta;
    change (sub RN ?a ?b) with (a - b); change (mul RN ?a ?b) with (a * b); change (zero RN) with 0;
    (rewrite heaviside_open by lra); rn_simpl; ring.
Qed.

(* sharp dependence never moves a parameter further beyond a limit it has reached *)
Theorem sharp_never_further x p n mx mn :
  0 <= p -> 0 <= n ->
  (forall m, mx = Some m -> m <= x -> x + bound_sharp RN x p n mx mn <= x) /\
  (forall m, mn = Some m -> x <= m -> x <= x + bound_sharp RN x p n mx mn).
Proof.
  intros Hp Hn. split; intros m -> Hm; unfold bound_sharp; cbv zeta; change (sub RN ?a ?b) with (a - b).
  - rewrite (proj1 (sharp_gate_closed x p m) Hm).
    destruct mn as [b|]; [|lra].
    unfold bound_lower_sharp; cbv zeta; change (sub RN ?a ?b) with (a - b); change (mul RN ?a ?b) with (a * b);
      change (zero RN) with 0.
    destruct (heaviside_01 (x - b)) as [-> | ->]; lra.
  - rewrite (proj2 (sharp_gate_closed x n m) Hm).
    destruct mx as [a|]; [|lra].
    unfold bound_upper_sharp; cbv zeta; change (sub RN ?a ?b) with (a - b); change (mul RN ?a ?b) with (a * b);
      change (zero RN) with 0.
    destruct (heaviside_01 (a - x)) as [-> | ->]; lra.
Qed.

(* strictly inside the limits sharp dependence does nothing; in particular it is no clamp:
   a parameter inside the range can be carried outside in one step *)
Theorem sharp_inside_unbounded x p n mx mn :
  mn < x < mx -> bound_sharp RN x p n (Some mx) (Some mn) = p - n.
Proof.
  intros H. unfold bound_sharp; cbv zeta; change (sub RN ?a ?b) with (a - b).
  rewrite (proj1 (sharp_gate_open x p mx)), (proj2 (sharp_gate_open x n mn)) by lra. reflexivity.
Qed.
Theorem sharp_can_overshoot :
  exists x p n mx mn, mn <= x <= mx /\ 0 <= p <= 1 /\ 0 <= n <= 1 /\
    mx < x + bound_sharp RN x p n (Some mx) (Some mn).
Proof.
  exists (/2), 1, 0, 1, 0. rewrite sharp_inside_unbounded by lra. repeat split; lra.
Qed.
