(* C10: a binary64 witness (NOT an obligation; no theorem over the reals depends on this file).
   Over the reals scaled power dependence keeps a parameter inside [min, max] (KernelRange.scaled_power_step_in_range,
   RangeProofs.scaled_power_stays_in_range).  In binary64 the GENERATED kernel does not: for
   max = 2, min = -0.5, lower order 1.7, a parameter 2 - 2^-52 (inside the limits) and a depression of magnitude
   2.5 = range (admissible), `param - min` rounds to 2.5 (tie to even), the base is exactly 1, the update is -2.5 and
   the parameter becomes -0.5 - 2^-52 < min; at the next depression the base (param - min) / range is negative and its
   fractional power is NaN: the parameter is NaN from then on.  Observed identically on the real implementation
   (corpus/C10/004_float_range_nan.json; tools/props/c10.py reports it as `float_range_nan`). *)
From Coq Require Import List ZArith Bool PrimFloat.
From Inferno Require Import Base.Num Base.NumF Gen.Bounding.
Open Scope float_scope.

Definition w0 : float := 0x1.fffffffffffffp+0.   (* 2 - 2^-52 *)
Definition step1 : float := w0 + bound_scaled_power FN w0 0 0x1.4p+1 2 (-0.5) 1 0x1.b333333333333p+0.
Definition step2 : float := step1 + bound_scaled_power FN step1 0 1 2 (-0.5) 1 0x1.b333333333333p+0.

Theorem scaled_power_range_float_refuted :
  (-0.5 <=? w0) = true /\ (w0 <=? 2) = true /\      (* starts inside [min, max] *)
  (step1 <? -0.5) = true /\                          (* one admissible step later: below min *)
  is_nan step2 = true.                               (* one more: NaN *)
Proof. vm_compute. repeat split. Qed.
