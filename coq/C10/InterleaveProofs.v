(* C10, part F: the parameters after module.update() do not depend on the order in which (one or several)
   trainers contributed their parts - for every interleaving (Permutation) of the contributions, across all
   parameters at once, for any symmetric reduction, error outcomes included. *)
From Coq Require Import List ZArith Bool Arith Reals Lra Lia Permutation.
From Inferno Require Import Base.Num Base.NumR Gen.Bounding C10.Updater C10.KernelAlgebra C10.AccProofs C10.OrderProofs
  C10.WorldProofs.
Import ListNotations.
Open Scope R_scope.

(* one contribution `updater.nm = (p, n)`; either part may be None *)
Definition contrib := (Z * option tensorW * option tensorW)%type.
Definition c_name (c : contrib) : Z := fst (fst c).
Definition add_op (c : contrib) : opR := OpAdd RN (c_name c) (snd (fst c)) (snd c).
Definition add1 (a : accR) (c : contrib) : accR := add_neg RN (add_pos RN a (snd (fst c))) (snd c).
Definition mine (k : Z) (cs : list contrib) : list contrib := filter (fun c => Z.eqb (c_name c) k) cs.
Definition bulk (a : accR) (cs : list contrib) : accR := fold_left add1 cs a.
Definition bulk_all (cs : list contrib) (us : list (Z * accR)) : list (Z * accR) :=
  map (fun na => (fst na, bulk (snd na) (mine (fst na) cs))) us.

Lemma lookup_none_keys {A} k (l : list (Z * A)) : lookup k l = None <-> ~ In k (map fst l).
Proof.
  rewrite <- lookup_in_keys. destruct (lookup k l) as [v|]; split; intros H.
  - discriminate.
  - exfalso. apply H. discriminate.
  - intros H'. apply H'. reflexivity.
  - reflexivity.
Qed.

Lemma bulk_all_skip c cs us :
  ~ In (c_name c) (map fst us) -> bulk_all (c :: cs) us = bulk_all cs us.
Proof.
  intros Hn. unfold bulk_all. apply map_ext_in. intros [k a] Hin. cbn [fst snd mine filter].
  destruct (Z.eqb (c_name c) k) eqn:E; [|reflexivity].
  apply Z.eqb_eq in E. exfalso. apply Hn. rewrite E. apply (in_map fst _ _ Hin).
Qed.

Lemma bulk_all_step c cs us a :
  NoDup (map fst us) -> lookup (c_name c) us = Some a ->
  bulk_all cs (replace (c_name c) (add1 a c) us) = bulk_all (c :: cs) us.
Proof.
  intros Hnd Ea. induction us as [|[k b] t IH]; [discriminate|].
  cbn [map fst] in Hnd. inversion Hnd as [|? ? Hk Ht]; subst.
  cbn [lookup] in Ea. cbn [replace].
  destruct (Z.eqb (c_name c) k) eqn:E.
  - injection Ea as ->. unfold bulk_all. cbn [map fst snd]. f_equal.
    + cbn [mine filter]. rewrite E. reflexivity.
    + change (bulk_all cs t = bulk_all (c :: cs) t). symmetry. apply bulk_all_skip.
      apply Z.eqb_eq in E. rewrite E. exact Hk.
  - unfold bulk_all. cbn [map fst snd]. f_equal.
    + cbn [mine filter]. rewrite E. reflexivity.
    + apply IH; assumption.
Qed.

(* the state after a block of contributions: every accumulator received its own contributions, in order *)
Lemma run_adds cs : forall ps us,
  NoDup (map fst us) ->
  run RN (mkWorld RN ps (Some us)) (map add_op cs) = mkWorld RN ps (Some (bulk_all cs us)).
Proof.
  induction cs as [|c cs IH]; intros ps us Hnd; cbn [map run].
  - f_equal. f_equal. unfold bulk_all. cbn. symmetry. erewrite map_ext; [apply map_id|]. intros [k a]. reflexivity.
  - unfold add_op at 1. cbn [step]. unfold on_acc, find_acc. cbn [upd].
    destruct (lookup (c_name c) us) as [a|] eqn:Ea; cbn [fst].
    + unfold put_acc. cbn [params]. rewrite IH by (rewrite replace_keys; exact Hnd).
      f_equal. f_equal. apply (bulk_all_step c cs us a Hnd Ea).
    + rewrite IH by exact Hnd. f_equal. f_equal. symmetry. apply bulk_all_skip. apply lookup_none_keys, Ea.
Qed.

(* ------------------------------------------------------------------ bulk contributions up to order *)
Definition poss (cs : list contrib) : list tensorW :=
  flat_map (fun c => match snd (fst c) with Some t => [t] | None => [] end) cs.
Definition negs (cs : list contrib) : list tensorW :=
  flat_map (fun c => match snd c with Some t => [t] | None => [] end) cs.

Lemma bulk_fields cs : forall a,
  apos RN (bulk a cs) = apos RN a ++ poss cs /\ aneg RN (bulk a cs) = aneg RN a ++ negs cs /\
  ared RN (bulk a cs) = ared RN a /\ abind RN (bulk a cs) = abind RN a /\
  cpos RN (bulk a cs) = match poss cs with [] => cpos RN a | _ => None end /\
  cneg RN (bulk a cs) = match negs cs with [] => cneg RN a | _ => None end.
Proof.
  induction cs as [|[[k p] n] cs IH]; intros a.
  - cbn. rewrite !app_nil_r. repeat split.
  - change (bulk a ((k, p, n) :: cs)) with (bulk (add1 a (k, p, n)) cs).
    destruct (IH (add1 a (k, p, n))) as (H1 & H2 & H3 & H4 & H5 & H6).
    rewrite H1, H2, H3, H4, H5, H6. clear.
    unfold add1, poss, negs. cbn [fst snd flat_map].
    destruct p as [tp|], n as [tn|];
      cbn [add_pos add_neg set_pos_parts set_neg_parts apos aneg ared abind cpos cneg app];
      rewrite <- ?app_assoc; cbn [app]; repeat split;
      try (match goal with |- context [match ?l with [] => _ | _ :: _ => _ end] => destruct l end; reflexivity).
Qed.

Lemma perm_nil_match {A B} (l l' : list A) (x y : B) :
  Permutation l l' -> match l with [] => x | _ => y end = match l' with [] => x | _ => y end.
Proof.
  intros H. destruct l, l'; auto.
  - apply Permutation_nil in H. discriminate.
  - apply Permutation_sym, Permutation_nil in H. discriminate.
Qed.

Lemma bulk_perm a cs cs' : Permutation cs cs' -> acc_perm (bulk a cs) (bulk a cs').
Proof.
  intros H.
  destruct (bulk_fields cs a) as (H1 & H2 & H3 & H4 & H5 & H6).
  destruct (bulk_fields cs' a) as (G1 & G2 & G3 & G4 & G5 & G6).
  assert (Pp : Permutation (poss cs) (poss cs')) by (apply Permutation_flat_map, H).
  assert (Pn : Permutation (negs cs) (negs cs')) by (apply Permutation_flat_map, H).
  unfold acc_perm. rewrite H1, H2, H5, H6, G1, G2, G3, G4, G5, G6, H3, H4.
  split; [apply Permutation_app_head, Pp|]. split; [apply Permutation_app_head, Pn|].
  split; [reflexivity|]. split; [reflexivity|].
  split; symmetry; apply perm_nil_match; assumption.
Qed.

Lemma mine_perm k cs cs' : Permutation cs cs' -> Permutation (mine k cs) (mine k cs').
Proof.
  unfold mine. induction 1; cbn.
  - constructor.
  - destruct (Z.eqb (c_name x) k); [constructor|]; assumption.
  - destruct (Z.eqb (c_name x) k), (Z.eqb (c_name y) k); try apply perm_swap; apply Permutation_refl.
  - eapply Permutation_trans; eauto.
Qed.

(* ------------------------------------------------------------------ Updater.forward on permuted states *)
Definition us_perm (us us' : list (Z * accR)) : Prop :=
  Forall2 (fun na na' => fst na = fst na' /\ acc_perm (snd na) (snd na')) us us'.
Definition all_sym (us : list (Z * accR)) : Prop :=
  forall nm a, lookup nm us = Some a -> red_sym (ared RN a).

Lemma us_perm_keys us us' : us_perm us us' -> map fst us = map fst us'.
Proof. induction 1 as [|[k a] [k' a'] t t' [E _] _ IH]; cbn in *; [reflexivity|]. subst. f_equal. exact IH. Qed.

Lemma lookup_us_perm nm us us' :
  us_perm us us' ->
  match lookup nm us, lookup nm us' with
  | Some a, Some a' => acc_perm a a'
  | None, None => True
  | _, _ => False
  end.
Proof.
  induction 1 as [|[k a] [k' a'] t t' [E P] _ IH]; cbn in *; [exact I|]. subst k'.
  destruct (Z.eqb nm k); [exact P|exact IH].
Qed.
Lemma replace_us_perm nm a a' us us' :
  us_perm us us' -> acc_perm a a' -> us_perm (replace nm a us) (replace nm a' us').
Proof.
  intros H P. induction H as [|[k b] [k' b'] t t' [E Q] Ht IH]; cbn in *; [constructor|]. subst k'.
  destruct (Z.eqb nm k); constructor; cbn; auto.
Qed.
Lemma all_sym_replace nm a a' us :
  all_sym us -> lookup nm us = Some a -> ared RN a' = ared RN a -> all_sym (replace nm a' us).
Proof.
  intros H Ea Er k b Eb. destruct (Z.eq_dec k nm) as [->|Hne].
  - rewrite lookup_replace_same, Ea in Eb. injection Eb as <-. rewrite Er. apply (H nm a Ea).
  - rewrite lookup_replace_other in Eb by exact Hne. apply (H k b Eb).
Qed.

Lemma apply_names_perm nms : forall ps us us',
  us_perm us us' -> all_sym us ->
  let '(ps1, us1, e1) := apply_names RN ps us nms in
  let '(ps2, us2, e2) := apply_names RN ps us' nms in
  ps1 = ps2 /\ e1 = e2 /\ us_perm us1 us2 /\ all_sym us1.
Proof.
  induction nms as [|k tl IH]; intros ps us us' Hp Hs; cbn [apply_names]; [auto|].
  pose proof (lookup_us_perm k us us' Hp) as Hl.
  destruct (lookup k us) as [a|] eqn:Ea, (lookup k us') as [a'|] eqn:Ea'; try contradiction; [|auto].
  destruct (lookup k ps) as [x|] eqn:Ex; [|auto].
  destruct (order_independent_acc a a' x (Hs k a Ea) Hl) as (Er & Pa & Rr).
  destruct (acc_forward RN a x) as [a1 r1], (acc_forward RN a' x) as [a1' r1']. cbn [fst snd] in *. subst r1'.
  pose proof (replace_us_perm k a1 a1' us us' Hp Pa) as Hp1.
  pose proof (all_sym_replace k a a1 us Hs Ea Rr) as Hs1.
  destruct r1 as [y|e]; [apply IH; assumption|auto].
Qed.

(* ------------------------------------------------------------------ the theorem *)
Lemma lookup_bulk_all k cs us :
  lookup k (bulk_all cs us) = option_map (fun a => bulk a (mine k cs)) (lookup k us).
Proof.
  unfold bulk_all. induction us as [|[k' a] t IH]; cbn; [reflexivity|].
  destruct (Z.eqb k k') eqn:E; [apply Z.eqb_eq in E; subst; reflexivity|exact IH].
Qed.

Theorem order_independent ps us (cs cs' : list contrib) clear :
  NoDup (map fst us) -> all_sym us -> Permutation cs cs' ->
  let w1 := run RN (mkWorld RN ps (Some us)) (map add_op cs) in
  let w2 := run RN (mkWorld RN ps (Some us)) (map add_op cs') in
  params RN (fst (step RN w1 (OpUpdate RN clear))) = params RN (fst (step RN w2 (OpUpdate RN clear))) /\
  snd (step RN w1 (OpUpdate RN clear)) = snd (step RN w2 (OpUpdate RN clear)).
Proof.
  intros Hnd Hs Hperm w1 w2. unfold w1, w2. rewrite !run_adds by exact Hnd. cbn [step upd params].
  assert (Hp : us_perm (bulk_all cs us) (bulk_all cs' us)).
  { unfold us_perm, bulk_all. clear Hnd Hs. induction us as [|[k a] t IH]; cbn; constructor; auto.
    cbn. split; [reflexivity|]. apply bulk_perm, mine_perm, Hperm. }
  assert (Hs1 : all_sym (bulk_all cs us)).
  { intros k b Eb. rewrite lookup_bulk_all in Eb. destruct (lookup k us) as [a|] eqn:Ea; [|discriminate].
    injection Eb as <-. destruct (bulk_fields (mine k cs) a) as (_ & _ & R & _). rewrite R. apply (Hs k a Ea). }
  unfold updater_forward. rewrite <- (us_perm_keys _ _ Hp).
  pose proof (apply_names_perm (map fst (bulk_all cs us)) ps _ _ Hp Hs1) as H.
  destruct (apply_names RN ps (bulk_all cs us) (map fst (bulk_all cs us))) as [[ps1 us1] e1].
  destruct (apply_names RN ps (bulk_all cs' us) (map fst (bulk_all cs us))) as [[ps2 us2] e2].
  destruct H as (-> & -> & _ & _). destruct e2; cbn; auto.
Qed.

(* instance: the default reduction and the library reductions are symmetric *)
Corollary order_independent_fresh ps nms g (cs cs' : list contrib) clear :
  NoDup nms -> red_sym g -> Permutation cs cs' ->
  let us := map (fun nm => (nm, fresh (Some g))) nms in
  params RN (fst (step RN (run RN (mkWorld RN ps (Some us)) (map add_op cs)) (OpUpdate RN clear))) =
  params RN (fst (step RN (run RN (mkWorld RN ps (Some us)) (map add_op cs')) (OpUpdate RN clear))).
Proof.
  intros Hnd Hg Hp us. apply order_independent; [| |exact Hp].
  - unfold us. rewrite map_map. cbn. rewrite map_id. exact Hnd.
  - intros k a Ea. unfold us in Ea. induction nms as [|n t IH]; cbn in Ea; [discriminate|].
    inversion Hnd; subst. destruct (Z.eqb k n); [injection Ea as <-; exact Hg|apply IH; assumption].
Qed.
