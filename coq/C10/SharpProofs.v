(* C10, part E2: sharp dependence as applied by Accumulator.forward. *)
From Coq Require Import List ZArith Bool Arith Reals Lra Lia Permutation.
From Inferno Require Import Base.Num Base.NumR Gen.Bounding C10.Updater C10.KernelAlgebra C10.KernelSharp C10.AccProofs
  C10.OrderProofs C10.WorldProofs C10.UpdateProofs.
Import ListNotations.
Open Scope R_scope.

(* ------------------------------------------------------------------ sharp dependence, as applied *)
(* With the sharp full bound installed, an element that has reached (or passed) a limit is never moved
   further beyond it by an application, whatever was accumulated (non-negative reduced magnitudes). *)
Theorem sharp_never_further_applied (a : accR) (x : tensorW) (j : nat) mx mn :
  abind RN a = BFull RN (FSharp RN) mx mn ->
  0 <= rcol (ared RN a) (apos RN a) j -> 0 <= rcol (ared RN a) (aneg RN a) j ->
  (forall m, mx = Some m -> m <= nth j x 0 -> applied a x j <= nth j x 0) /\
  (forall m, mn = Some m -> nth j x 0 <= m -> nth j x 0 <= applied a x j).
Proof.
  intros Hb Hp Hn. unfold applied. rewrite Hb. cbn [bind_upper bind_lower].
  pose proof (full_val_decomp (FSharp RN) mx mn (nth j x 0) (rcol (ared RN a) (apos RN a) j)
                (rcol (ared RN a) (aneg RN a) j) eq_refl) as D. cbn [full_val] in D.
  destruct (sharp_never_further (nth j x 0) _ _ mx mn Hp Hn) as [U L].
  split; intros m E Hm.
  - specialize (U m E Hm). destruct (apos RN a), (aneg RN a); lra.
  - specialize (L m E Hm). destruct (apos RN a), (aneg RN a); lra.
Qed.
