(* C10, part D2: range preservation over unbounded update histories (instance of the invariant principle
   of WorldProofs.v with the one-step theorems of KernelRange.v). *)
From Coq Require Import List ZArith Bool Arith Reals Lra Lia Permutation.
From Inferno Require Import Base.Num Base.NumR Gen.Bounding C10.Updater C10.KernelAlgebra C10.KernelRange C10.AccProofs
  C10.OrderProofs C10.WorldProofs.
Import ListNotations.
Open Scope R_scope.

(* ================================================================== instance 2: range preservation *)
Section Range.
Variables (target : Z) (len : nat) (mx mn cap : R).

Definition in_range (x : tensorW) : Prop := Forall (fun v => mn <= v <= mx) x.
Definition unit_part (t : tensorW) : Prop := length t = len /\ Forall (fun v => 0 <= v <= cap) t.
(* the dependences for which the property claims the range invariant, with the admissible magnitude *)
Definition range_bind (b : bindT RN) : Prop :=
  (b = BFull RN (FMul RN) (Some mx) (Some mn) /\ cap = 1 /\ mn <= mx) \/
  (b = BFull RN (FSMul RN) (Some mx) (Some mn) /\ cap = mx - mn /\ mn < mx) \/
  (exists up lp, b = BFull RN (FSPow RN up lp) (Some mx) (Some mn) /\ 1 <= up /\ 1 <= lp /\ cap = mx - mn /\ mn < mx) \/
  (b = BHalf RN (HB RN (HMulU RN) (Some mx)) (HB RN (HMulL RN) (Some mn)) /\ cap = 1 /\ mn <= mx) \/
  (b = BHalf RN (HB RN (HSMulU RN (mx - mn)) (Some mx)) (HB RN (HSMulL RN (mx - mn)) (Some mn)) /\
   cap = mx - mn /\ mn < mx).

Lemma range_bind_step b x p n :
  range_bind b -> mn <= x <= mx -> 0 <= p <= cap -> 0 <= n <= cap ->
  mn <= x + bind_upper b x p - bind_lower b x n <= mx.
Proof.
  intros Hb Hx Hp Hn.
  destruct Hb as [(-> & -> & Hm)|[(-> & -> & Hm)|[(up & lp & -> & Hu & Hl & -> & Hm)|[(-> & -> & Hm)|(-> & -> & Hm)]]]];
    cbn [bind_upper bind_lower slot_fn].
  - pose proof (multiplicative_step_in_range x p n mx mn Hx Hp Hn) as H.
    pose proof (full_val_decomp (FMul RN) (Some mx) (Some mn) x p n eq_refl) as D. cbn [full_val] in D. lra.
  - pose proof (scaled_multiplicative_step_in_range x p n mx mn Hm Hx Hp Hn) as H.
    pose proof (full_val_decomp (FSMul RN) (Some mx) (Some mn) x p n eq_refl) as D. cbn [full_val] in D. lra.
  - pose proof (scaled_power_step_in_range x p n mx mn up lp Hm Hx Hu Hl Hp Hn) as H.
    pose proof (full_val_decomp (FSPow RN up lp) (Some mx) (Some mn) x p n eq_refl) as D. cbn [full_val] in D. lra.
  - pose proof (half_multiplicative_step_in_range x p n mx mn Hx Hp Hn) as H. cbn [half_apply]. lra.
  - pose proof (scaled_multiplicative_step_in_range x p n mx mn Hm Hx Hp Hn) as H.
    cbn [half_apply]. unfold bound_scaled_multiplicative in H. cbv zeta in H.
    rn_simpl. lra.
Qed.
Lemma range_bind_ok b : range_bind b -> bind_ok b /\ 0 <= cap.
Proof.
  intros [(-> & -> & Hm)|[(-> & -> & Hm)|[(up & lp & -> & Hu & Hl & -> & Hm)|[(-> & -> & Hm)|(-> & -> & Hm)]]]];
    cbn; repeat split; auto; lra.
Qed.

Ltac isplit := split; [|split; [|split; [|split; [|split; [|split]]]]].

Definition Irange (nm : Z) (x : tensorW) (a : accR) : Prop :=
  nm = target ->
  length x = len /\ in_range x /\ range_bind (abind RN a) /\ red_hull (ared RN a) /\
  Forall unit_part (apos RN a) /\ Forall unit_part (aneg RN a) /\ coh a.

Lemma Irange_cfg nm x a a' :
  Irange nm x a -> same_cfg a a' -> coh a' -> Irange nm x a'.
Proof.
  intros H (P & Nn & Rr & B) Hc E. destruct (H E) as (L & Hx & Hb & Hh & Hp & Hn & _).
  rewrite P, Nn, Rr, B. isplit; auto.
Qed.

Lemma rcol_unit red parts j :
  red_hull red -> 0 <= cap -> Forall unit_part parts -> (j < len)%nat -> 0 <= rcol red parts j <= cap.
Proof.
  intros Hh Hc Hp Hj. unfold rcol. destruct parts as [|p0 t]; [lra|].
  apply Hh; [cbn; congruence|]. unfold column. rewrite Forall_map.
  eapply Forall_impl; [|exact Hp]. intros p [Lp Fp]. rewrite Forall_forall in Fp. apply Fp, nth_In. rewrite <- Lp in Hj. exact Hj.
Qed.

Lemma Irange_stable : stable Irange.
Proof.
  constructor; intros nm x a H.
  - destruct (Z.eq_dec nm target) as [E|NE]; [|intros E; contradiction].
    destruct (H E) as (_ & _ & _ & _ & _ & _ & Hc).
    destruct (get_pos_spec a Hc) as (a' & Eg & Hc' & S). rewrite Eg. eapply Irange_cfg; eauto.
  - destruct (Z.eq_dec nm target) as [E|NE]; [|intros E; contradiction].
    destruct (H E) as (_ & _ & _ & _ & _ & _ & Hc).
    destruct (get_neg_spec a Hc) as (a' & Eg & Hc' & S). rewrite Eg. eapply Irange_cfg; eauto.
  - destruct (Z.eq_dec nm target) as [E|NE]; [|intros E; contradiction].
    destruct (H E) as (_ & _ & _ & _ & _ & _ & Hc).
    destruct (acc_update_coherent a x Hc) as (a' & Eg & Hc' & S). rewrite Eg. eapply Irange_cfg; eauto.
  - destruct (Z.eq_dec nm target) as [E|NE].
    2:{ destruct (acc_forward RN a x) as [a' [y|e]]; intros E; contradiction. }
    destruct (H E) as (L & Hx & Hb & Hh & Hp & Hn & Hc).
    destruct (range_bind_ok _ Hb) as [Hok Hcap].
    assert (W : wshape a (length x)).
    { rewrite L. split; (eapply Forall_impl; [|eassumption]); intros p [Lp _]; exact Lp. }
    destruct (apply_spec a x Hc W Hok) as (a' & y & Eg & Hc' & S & Ly & Hy). rewrite Eg.
    intros _. destruct S as (P & Nn & Rr & B). rewrite P, Nn, Rr, B.
    split; [exact (eq_trans Ly L)|]. split; [|split; [auto|split; [auto|split; [auto|split; auto]]]].
    unfold in_range. apply Forall_forall. intros v Hv.
    destruct (In_nth y v 0 Hv) as (j & Hj & <-). rewrite Ly in Hj. rewrite (Hy j Hj).
    assert (Hxj : mn <= nth j x 0 <= mx).
    { unfold in_range in Hx. rewrite Forall_forall in Hx. apply Hx, nth_In, Hj. }
    assert (Hj' : (j < len)%nat) by (rewrite <- L; exact Hj).
    pose proof (rcol_unit (ared RN a) (apos RN a) j Hh Hcap Hp Hj') as Rp.
    pose proof (rcol_unit (ared RN a) (aneg RN a) j Hh Hcap Hn Hj') as Rn.
    pose proof (range_bind_step _ _ _ _ Hb Hxj Rp Rn) as Hs.
    destruct (apos RN a), (aneg RN a); try exact Hs. exact Hxj.
  - intros E. destruct (H E) as (L & Hx & Hb & Hh & Hp & Hn & Hc).
    isplit; cbn; auto. apply coh_del_pos, Hc.
  - intros E. destruct (H E) as (L & Hx & Hb & Hh & Hp & Hn & Hc).
    isplit; cbn; auto. apply coh_del_neg, Hc.
Qed.

(* admissible operations of a history: contributions to the target parameter have the parameter's size and
   magnitudes in [0, cap]; the target's binding and reduction are not changed; a direct assignment of the
   target keeps it inside the limits; everything else (other parameters, reads, update / updatesome / clear /
   apply in any interleaving) is unrestricted *)
Definition ok_part (p : option tensorW) : Prop := match p with None => True | Some t => unit_part t end.
Definition good_op (o : opR) : Prop :=
  match o with
  | OpAdd _ k p n => k = target -> ok_part p /\ ok_part n
  | OpAddT _ k p | OpAddPos _ k p | OpAddNeg _ k p => k = target -> ok_part p
  | OpReduction _ k _ | OpUpper _ k _ _ | OpLower _ k _ _ | OpFull _ k _ _ _ => k <> target
  | OpSetParam _ k v => k = target -> length v = len /\ in_range v
  | OpNewUpdater _ _ _ => False
  | _ => True
  end.

Lemma Irange_add_pos nm x a p : (nm = target -> ok_part p) -> Irange nm x a -> Irange nm x (add_pos RN a p).
Proof.
  intros Hp H E. destruct (H E) as (L & Hx & Hb & Hh & Fp & Fn & Hc). specialize (Hp E).
  destruct p as [t|]; [|isplit; auto].
  isplit; cbn; auto; [|apply (coh_add_pos a (Some t)), Hc].
  apply Forall_app. split; [exact Fp|constructor; [exact Hp|constructor]].
Qed.
Lemma Irange_add_neg nm x a p : (nm = target -> ok_part p) -> Irange nm x a -> Irange nm x (add_neg RN a p).
Proof.
  intros Hp H E. destruct (H E) as (L & Hx & Hb & Hh & Fp & Fn & Hc). specialize (Hp E).
  destruct p as [t|]; [|isplit; auto].
  isplit; cbn; auto; [|apply (coh_add_neg a (Some t)), Hc].
  apply Forall_app. split; [exact Fn|constructor; [exact Hp|constructor]].
Qed.

Lemma good_op_safe o : good_op o -> safe_op Irange o.
Proof.
  destruct o; cbn; intros Hg; try exact I; try contradiction; intros.
  - apply Irange_add_neg; [intros E; apply Hg, E|]. apply Irange_add_pos; [intros E; apply Hg, E|assumption].
  - apply Irange_add_pos; assumption.
  - apply Irange_add_pos; assumption.
  - apply Irange_add_neg; assumption.
  - intros E; contradiction.
  - intros E; contradiction.
  - intros E; contradiction.
  - intros E; contradiction.
  - intros E. destruct (H E) as (L & Hx & Hr). destruct (Hg E) as [Lv Hv]. split; [exact Lv|split; [exact Hv|exact Hr]].
Qed.

(* THE INVARIANT over arbitrarily long histories *)
Theorem range_invariant_history ops w :
  holds Irange w -> Forall good_op ops -> holds Irange (run RN w ops).
Proof.
  intros H Hg. apply run_holds; [apply Irange_stable| |exact H].
  eapply Forall_impl; [|exact Hg]. apply good_op_safe.
Qed.

(* how the invariant is established: a fresh updater with a hull-preserving reduction, then fullbound *)
Lemma range_setup (ps : list (Z * tensorW)) (x : tensorW) g k :
  lookup target ps = Some x -> length x = len -> in_range x -> red_hull g ->
  range_bind (BFull RN k (Some mx) (Some mn)) ->
  holds Irange (run RN (mkWorld RN ps None)
                  [OpNewUpdater RN [target] (Some g); OpFull RN target (Some k) (Some mx) (Some mn)]).
Proof.
  intros Ex L Hx Hg Hb. cbn [run step fst forallb params]. rewrite Ex. cbn [andb fst map params].
  unfold on_acc, find_acc. cbn [upd lookup]. rewrite Z.eqb_refl. cbn [fst].
  unfold put_acc. cbn [replace params]. rewrite Z.eqb_refl. intros us E. cbn in E. injection E as <-.
  intros nm y a Hy Ha. cbn in Hy, Ha. destruct (Z.eqb nm target) eqn:En; [|discriminate].
  injection Ha as <-. apply Z.eqb_eq in En. subst nm. rewrite Ex in Hy. injection Hy as <-.
  intros _. isplit; cbn; auto. split; cbn; auto.
Qed.
End Range.

(* the property's sentence, end to end: configure, then ANY admissible history, then look at the parameter *)
Theorem stays_in_range_forever target mx mn cap (ps : list (Z * tensorW)) (x : tensorW) g k ops us a (y : tensorW) :
  lookup target ps = Some x -> in_range mx mn x -> red_hull g ->
  range_bind mx mn cap (BFull RN k (Some mx) (Some mn)) ->
  Forall (good_op target (length x) mx mn cap) ops ->
  let w := run RN (mkWorld RN ps None)
             ([OpNewUpdater RN [target] (Some g); OpFull RN target (Some k) (Some mx) (Some mn)] ++ ops) in
  upd RN w = Some us -> lookup target us = Some a -> lookup target (params RN w) = Some y ->
  length y = length x /\ in_range mx mn y.
Proof.
  intros Ex Hx Hg Hb Hops w Eu Ea Ey.
  assert (Hrun : forall l1 l2 w0, run RN w0 (l1 ++ l2) = run RN (run RN w0 l1) l2).
  { induction l1; intros; cbn [run app]; auto. }
  unfold w in *. rewrite Hrun in Eu, Ey.
  pose proof (range_setup target (length x) mx mn cap ps x g k Ex eq_refl Hx Hg Hb) as H0.
  pose proof (range_invariant_history target (length x) mx mn cap ops _ H0 Hops us Eu target y a Ey Ea eq_refl) as H.
  destruct H as (L & Hy & _). auto.
Qed.

(* the three dependences named by the property *)
Corollary multiplicative_stays_in_range target mx mn (ps : list (Z * tensorW)) (x : tensorW) g ops us a (y : tensorW) :
  mn <= mx -> lookup target ps = Some x -> in_range mx mn x -> red_hull g ->
  Forall (good_op target (length x) mx mn 1) ops ->
  let w := run RN (mkWorld RN ps None)
             ([OpNewUpdater RN [target] (Some g); OpFull RN target (Some (FMul RN)) (Some mx) (Some mn)] ++ ops) in
  upd RN w = Some us -> lookup target us = Some a -> lookup target (params RN w) = Some y ->
  in_range mx mn y.
Proof.
  intros Hm Ex Hx Hg Hops w Eu Ea Ey.
  eapply (stays_in_range_forever target mx mn 1 ps x g (FMul RN) ops us a y); eauto.
  left. auto.
Qed.
Corollary scaled_multiplicative_stays_in_range target mx mn (ps : list (Z * tensorW)) (x : tensorW) g ops us a (y : tensorW) :
  mn < mx -> lookup target ps = Some x -> in_range mx mn x -> red_hull g ->
  Forall (good_op target (length x) mx mn (mx - mn)) ops ->
  let w := run RN (mkWorld RN ps None)
             ([OpNewUpdater RN [target] (Some g); OpFull RN target (Some (FSMul RN)) (Some mx) (Some mn)] ++ ops) in
  upd RN w = Some us -> lookup target us = Some a -> lookup target (params RN w) = Some y ->
  in_range mx mn y.
Proof.
  intros Hm Ex Hx Hg Hops w Eu Ea Ey.
  eapply (stays_in_range_forever target mx mn (mx - mn) ps x g (FSMul RN) ops us a y); eauto.
  right. left. auto.
Qed.
Corollary scaled_power_stays_in_range target mx mn up lp (ps : list (Z * tensorW)) (x : tensorW) g ops us a (y : tensorW) :
  mn < mx -> 1 <= up -> 1 <= lp -> lookup target ps = Some x -> in_range mx mn x -> red_hull g ->
  Forall (good_op target (length x) mx mn (mx - mn)) ops ->
  let w := run RN (mkWorld RN ps None)
             ([OpNewUpdater RN [target] (Some g); OpFull RN target (Some (FSPow RN up lp)) (Some mx) (Some mn)] ++ ops) in
  upd RN w = Some us -> lookup target us = Some a -> lookup target (params RN w) = Some y ->
  in_range mx mn y.
Proof.
  intros Hm Hu Hl Ex Hx Hg Hops w Eu Ea Ey.
  eapply (stays_in_range_forever target mx mn (mx - mn) ps x g (FSPow RN up lp) ops us a y); eauto.
  right. right. left. exists up, lp. auto.
Qed.

(* ------------------------------------------------------------------ any reduction (torch.sum, custom ones) *)
(* The history theorem above asks the REDUCTION to keep magnitudes in [0, cap] (mean, amax, amin, ...).
   For an arbitrary reduction (the default torch.sum included) the property's own hypothesis is on the reduced
   magnitudes; here over an arbitrarily long sequence of accumulate-apply-clear rounds. *)
Section Rounds.
Variables (mx mn cap : R) (b : bindT RN) (red : list R -> R).

Definition round_ok (len : nat) (r : list tensorW * list tensorW) : Prop :=
  Forall (fun p => length p = len) (fst r) /\ Forall (fun p => length p = len) (snd r) /\
  forall j, (j < len)%nat -> 0 <= rcol red (fst r) j <= cap /\ 0 <= rcol red (snd r) j <= cap.

(* one round: the trainers contribute fst r / snd r, then Accumulator.forward, then clear *)
Definition round_step (x : tensorW) (r : list tensorW * list tensorW) : res tensorW :=
  snd (acc_forward RN (mkAcc RN (fst r) (snd r) None None red b) x).
Fixpoint rounds (x : tensorW) (rs : list (list tensorW * list tensorW)) : res tensorW :=
  match rs with
  | [] => Ok x
  | r :: tl => match round_step x r with Ok y => rounds y tl | Err e => Err e end
  end.

Theorem rounds_stay_in_range rs : forall (x : tensorW),
  range_bind mx mn cap b -> in_range mx mn x -> Forall (round_ok (length x)) rs ->
  exists y, rounds x rs = Ok y /\ length y = length x /\ in_range mx mn y.
Proof.
  induction rs as [|r tl IH]; intros x Hb Hx Hr; [exists x; auto|].
  inversion Hr as [|? ? (Wp & Wn & Hmag) Htl]; subst.
  destruct (range_bind_ok _ _ _ _ Hb) as [Hok _].
  set (a := mkAcc RN (fst r) (snd r) None None red b).
  assert (Hc : coh a) by (split; exact I).
  destruct (apply_spec a x Hc (conj Wp Wn) Hok) as (a' & y & Eg & _ & _ & Ly & Hy).
  assert (Hy' : in_range mx mn y).
  { unfold in_range. apply Forall_forall. intros v Hv.
    destruct (In_nth y v 0 Hv) as (j & Hj & <-). rewrite Ly in Hj. rewrite (Hy j Hj).
    assert (Hxj : mn <= nth j x 0 <= mx).
    { unfold in_range in Hx. rewrite Forall_forall in Hx. apply Hx, nth_In, Hj. }
    destruct (Hmag j Hj) as [Rp Rn].
    pose proof (range_bind_step mx mn cap _ _ _ _ Hb Hxj Rp Rn) as Hs.
    cbn [a apos aneg ared abind]. destruct (fst r), (snd r); try exact Hs. exact Hxj. }
  destruct (IH y Hb Hy') as (z & Ez & Lz & Hz).
  { eapply Forall_impl; [|exact Htl]. intros r0 H0. unfold tensor in *. change (T RN) with R in *.
    rewrite Ly. exact H0. }
  exists z. split; [|split; [exact (eq_trans Lz Ly)|exact Hz]].
  cbn [rounds]. unfold round_step. fold a. rewrite Eg. cbn [snd]. exact Ez.
Qed.
End Rounds.
