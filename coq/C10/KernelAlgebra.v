(* C10, part A1: algebra of the bounding kernels GENERATED from inferno/functional/bounding.py
   (Gen/Bounding.v), over the reals: every full kernel is (upper half kernel) - (lower half kernel), and
   every half kernel is linear in the update. *)
From Coq Require Import List ZArith Bool Reals Lra Lia.
From Inferno Require Import Base.Num Base.NumR Gen.Bounding C10.Updater.
Import ListNotations.
Open Scope R_scope.

Ltac kunfold :=
  unfold half_apply, full_val, bound_power, bound_scaled_power, bound_multiplicative, bound_scaled_multiplicative,
    bound_sharp, bound_upper_power, bound_lower_power, bound_upper_scaled_power, bound_lower_scaled_power,
    bound_upper_multiplicative, bound_lower_multiplicative, bound_upper_scaled_multiplicative,
    bound_lower_scaled_multiplicative, bound_upper_sharp, bound_lower_sharp in *;
  rn_unfold.

(* ------------------------------------------------------------------ the full kernels are upper - lower *)
(* the half kernels a full kernel is made of (range = max - min for the scaled ones) *)
Definition upper_of (k : fullk RN) (mx : R) (mn : option R) : halfk RN :=
  let rg := mx - match mn with Some b => b | None => 0 end in
  match k with
  | FPow _ up _ => HPowU RN up
  | FSPow _ up _ => HSPowU RN up rg
  | FMul _ => HMulU RN
  | FSMul _ => HSMulU RN rg
  | FSharp _ => HSharpU RN
  end.
Definition lower_of (k : fullk RN) (mx : option R) (mn : R) : halfk RN :=
  let rg := match mx with Some a => a | None => 0 end - mn in
  match k with
  | FPow _ _ lp => HPowL RN lp
  | FSPow _ _ lp => HSPowL RN lp rg
  | FMul _ => HMulL RN
  | FSMul _ => HSMulL RN rg
  | FSharp _ => HSharpL RN
  end.
(* bound_upper(.) and bound_lower(.) of the property statement, for a full kernel with optional limits *)
Definition full_upper (k : fullk RN) (mx mn : option R) (x p : R) : R :=
  match mx with Some m => half_apply RN (upper_of k m mn) m x p | None => p end.
Definition full_lower (k : fullk RN) (mx mn : option R) (x n : R) : R :=
  match mn with Some m => half_apply RN (lower_of k mx m) m x n | None => n end.

Theorem full_val_decomp k mx mn x p n :
  full_typeerr RN k mx mn = false ->
  full_val RN k mx mn x p n = full_upper k mx mn x p - full_lower k mx mn x n.
Proof.
  destruct k, mx, mn; cbn [full_typeerr]; intros H; try discriminate H;
    unfold full_upper, full_lower, upper_of, lower_of; kunfold; reflexivity.
Qed.

(* every half kernel is (a factor depending on the parameter) * update: a zero update stays zero *)
Theorem half_apply_zero k lim x : half_apply RN k lim x 0 = 0.
Proof. destruct k; kunfold; ring. Qed.

Theorem full_lower_zero k mx mn x : full_lower k mx mn x 0 = 0.
Proof. unfold full_lower. destruct mn; [apply half_apply_zero|reflexivity]. Qed.
Theorem full_upper_zero k mx mn x : full_upper k mx mn x 0 = 0.
Proof. unfold full_upper. destruct mx; [apply half_apply_zero|reflexivity]. Qed.

