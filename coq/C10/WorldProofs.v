(* C10, part D: the Updater / Updatable level (operation sequences on a module).
   A generic per-parameter invariant principle over arbitrary operation sequences, and its instances:
   cache coherence, range preservation over unbounded update histories. *)
From Coq Require Import List ZArith Bool Arith Reals Lra Lia Permutation.
From Inferno Require Import Base.Num Base.NumR Gen.Bounding C10.Updater C10.KernelProofs C10.AccProofs C10.OrderProofs.
Import ListNotations.
Open Scope R_scope.

Notation worldR := (world RN).
Notation opR := (op RN).
(* in this file tensors are written as the model writes them (convertible to list R) *)
Notation tensorW := (tensor RN).

(* ------------------------------------------------------------------ association lists *)
Lemma lookup_replace_same {A} k (v : A) l :
  lookup k (replace k v l) = match lookup k l with Some _ => Some v | None => None end.
Proof.
  induction l as [|[k' v'] t IH]; cbn; [reflexivity|].
  destruct (Z.eqb k k') eqn:E; cbn; rewrite E; [reflexivity|exact IH].
Qed.
Lemma lookup_replace_other {A} k k' (v : A) l : k <> k' -> lookup k (replace k' v l) = lookup k l.
Proof.
  intros Hne. induction l as [|[k2 v2] t IH]; cbn; [reflexivity|].
  destruct (Z.eqb k' k2) eqn:E; cbn.
  - apply Z.eqb_eq in E. subst k2. destruct (Z.eqb k k') eqn:E2; [apply Z.eqb_eq in E2; contradiction|reflexivity].
  - destruct (Z.eqb k k2); [reflexivity|exact IH].
Qed.
Lemma replace_keys {A} k (v : A) l : map fst (replace k v l) = map fst l.
Proof.
  induction l as [|[k' v'] t IH]; cbn; [reflexivity|]. destruct (Z.eqb k k'); cbn; [reflexivity|f_equal; exact IH].
Qed.
Lemma replace_same {A} k (v : A) l : lookup k l = Some v -> replace k v l = l.
Proof.
  induction l as [|[k' v'] t IH]; cbn; [reflexivity|]. destruct (Z.eqb k k') eqn:E.
  - intros H. injection H as ->. reflexivity.
  - intros H. f_equal. apply IH, H.
Qed.
Lemma lookup_in_keys {A} k (l : list (Z * A)) : lookup k l <> None <-> In k (map fst l).
Proof.
  induction l as [|[k' v'] t IH]; cbn; [tauto|]. destruct (Z.eqb k k') eqn:E.
  - apply Z.eqb_eq in E. subst. split; [auto|congruence].
  - apply Z.eqb_neq in E. rewrite IH. split; [auto|intros [H|H]; [congruence|exact H]].
Qed.
Lemma lookup_map_snd {A B} (f : A -> B) k (l : list (Z * A)) :
  lookup k (map (fun na => (fst na, f (snd na))) l) = option_map f (lookup k l).
Proof. induction l as [|[k' v'] t IH]; cbn; [reflexivity|]. destruct (Z.eqb k k'); [reflexivity|exact IH]. Qed.

(* ------------------------------------------------------------------ a per-parameter invariant principle *)
(* I nm x a : a property of the value x of parameter nm together with its accumulator a *)
Section Invariant.
Variable I : Z -> tensorW -> accR -> Prop.

Definition holds_on (ps : list (Z * tensorW)) (us : list (Z * accR)) : Prop :=
  forall nm x a, lookup nm ps = Some x -> lookup nm us = Some a -> I nm x a.
Definition holds (w : worldR) : Prop :=
  forall us, upd RN w = Some us -> holds_on (params RN w) us.

(* the accumulator's own methods keep the invariant *)
Record stable : Prop := {
  st_get_pos : forall nm x a, I nm x a -> I nm x (fst (get_pos RN a));
  st_get_neg : forall nm x a, I nm x a -> I nm x (fst (get_neg RN a));
  st_update : forall nm x a, I nm x a -> I nm x (fst (acc_update RN a x));
  st_forward : forall nm x a, I nm x a ->
      match acc_forward RN a x with (a', Ok y) => I nm y a' | (a', Err _) => I nm x a' end;
  st_del_pos : forall nm x a, I nm x a -> I nm x (del_pos RN a);
  st_del_neg : forall nm x a, I nm x a -> I nm x (del_neg RN a)
}.
(* what is asked of the individual operations of a history *)
Definition fresh (f : option (list R -> R)) : accR :=
  match f with Some g => acc_reduction RN (acc_new RN) (Some g) | None => acc_new RN end.
Definition safe_op (o : opR) : Prop :=
  match o with
  | OpAdd _ k p n => forall x a, I k x a -> I k x (add_neg RN (add_pos RN a p) n)
  | OpAddT _ k p | OpAddPos _ k p => forall x a, I k x a -> I k x (add_pos RN a p)
  | OpAddNeg _ k v => forall x a, I k x a -> I k x (add_neg RN a v)
  | OpReduction _ k f => forall x a, I k x a -> I k x (acc_reduction RN a f)
  | OpUpper _ k kk lim => forall x a, I k x a -> I k x (acc_upperbound RN a kk lim)
  | OpLower _ k kk lim => forall x a, I k x a -> I k x (acc_lowerbound RN a kk lim)
  | OpFull _ k kk mx mn => forall x a, I k x a -> I k x (acc_fullbound RN a kk mx mn)
  | OpSetParam _ k v => forall x a, I k x a -> I k v a
  | OpNewUpdater _ nms f => forall k x, I k x (fresh f)
  | _ => True
  end.

Hypothesis Hst : stable.

Lemma st_clear nm x a : I nm x a -> I nm x (acc_clear RN a).
Proof. intros H. unfold acc_clear. apply (st_del_neg Hst), (st_del_pos Hst), H. Qed.

Lemma holds_on_replace_acc ps us k a a' :
  holds_on ps us -> lookup k us = Some a -> (forall x, lookup k ps = Some x -> I k x a -> I k x a') ->
  holds_on ps (replace k a' us).
Proof.
  intros H Hk Hf nm x b Hx Hb. destruct (Z.eq_dec nm k) as [->|Hne].
  - rewrite lookup_replace_same, Hk in Hb. injection Hb as <-. apply Hf; [exact Hx|]. apply (H k x a); assumption.
  - rewrite lookup_replace_other in Hb by exact Hne. apply (H nm x b); assumption.
Qed.

Lemma on_acc_holds w k f :
  holds w -> (forall x a, I k x a -> I k x (f a)) -> holds (fst (on_acc RN w k f)).
Proof.
  intros H Hf. unfold on_acc, find_acc. destruct (upd RN w) as [us|] eqn:Eu; [|exact H].
  destruct (lookup k us) as [a|] eqn:Ek; [|exact H].
  cbn. intros us' Hus'. injection Hus' as <-.
  eapply holds_on_replace_acc; [apply H, Eu|exact Ek|]. intros x _. apply Hf.
Qed.

Lemma apply_names_holds nms : forall ps us,
  holds_on ps us ->
  let '(ps', us', _) := apply_names RN ps us nms in holds_on ps' us'.
Proof.
  induction nms as [|k tl IH]; intros ps us H; cbn [apply_names]; [exact H|].
  destruct (lookup k us) as [a|] eqn:Ek; [|exact H].
  destruct (lookup k ps) as [x|] eqn:Ex; [|exact H].
  pose proof (st_forward Hst k x a (H k x a Ex Ek)) as Hf.
  destruct (acc_forward RN a x) as [a' [y|e]].
  - apply IH. intros nm x' b Hx' Hb. destruct (Z.eq_dec nm k) as [->|Hne].
    + rewrite lookup_replace_same, Ex in Hx'. rewrite lookup_replace_same, Ek in Hb.
      injection Hx' as <-. injection Hb as <-. exact Hf.
    + rewrite lookup_replace_other in Hx' by exact Hne. rewrite lookup_replace_other in Hb by exact Hne.
      apply (H nm x' b); assumption.
  - eapply holds_on_replace_acc; [exact H|exact Ek|]. intros x' Hx' _.
    rewrite Ex in Hx'. injection Hx' as <-. exact Hf.
Qed.

Lemma clear_all_holds ps us : holds_on ps us -> holds_on ps (clear_all RN us).
Proof.
  intros H nm x b Hx Hb. unfold clear_all in Hb. rewrite lookup_map_snd in Hb.
  destruct (lookup nm us) as [a|] eqn:Ea; [|discriminate]. injection Hb as <-.
  apply st_clear, (H nm x a); assumption.
Qed.

Lemma update_some_holds nms clear : forall ps us,
  holds_on ps us ->
  let '(ps', us', _) := update_some RN ps us nms clear in holds_on ps' us'.
Proof.
  induction nms as [|k tl IH]; intros ps us H; cbn [update_some]; [exact H|].
  pose proof (apply_names_holds [k] ps us H) as H1.
  destruct (apply_names RN ps us [k]) as [[ps1 us1] [e|]]; [exact H1|].
  apply IH. destruct clear; [|exact H1].
  destruct (lookup k us1) as [a|] eqn:Ek; [|exact H1].
  eapply holds_on_replace_acc; [exact H1|exact Ek|]. intros x _. apply st_clear.
Qed.

Lemma finish_holds r :
  (let '(ps', us', _) := r in holds_on ps' us') -> holds (fst (finish RN r)).
Proof.
  destruct r as [[ps us] [e|]]; cbn; intros H us' E; injection E as <-; exact H.
Qed.

Lemma acc_step_holds {B} w k (g : accR -> tensorW -> accR * B) us a x :
  holds w -> upd RN w = Some us -> lookup k us = Some a -> lookup k (params RN w) = Some x ->
  (I k x a -> I k x (fst (g a x))) ->
  holds (put_acc RN w us k (fst (g a x))).
Proof.
  intros H Eu Ek Ex Hg us' E. cbn in E. injection E as <-. cbn.
  eapply holds_on_replace_acc; [apply H, Eu|exact Ek|]. intros x' Hx' Hi.
  rewrite Ex in Hx'. injection Hx' as <-. apply Hg, Hi.
Qed.

Theorem step_holds w o : safe_op o -> holds w -> holds (fst (step RN w o)).
Proof.
  intros Hs H. destruct o; cbn [step safe_op] in *.
  - apply on_acc_holds; assumption.
  - apply on_acc_holds; assumption.
  - apply on_acc_holds; assumption.
  - apply on_acc_holds; assumption.
  - apply on_acc_holds; [assumption|]. intros x a. apply st_clear.
  - apply on_acc_holds; [assumption|]. intros x a. apply (st_del_pos Hst).
  - apply on_acc_holds; [assumption|]. intros x a. apply (st_del_neg Hst).
  - (* OpGetPos *)
    unfold find_acc. destruct (upd RN w) as [us|] eqn:Eu; [|exact H].
    destruct (lookup nm us) as [a|] eqn:Ek; [|exact H].
    destruct (get_pos RN a) as [a' r] eqn:Eg. cbn [fst].
    intros us' E. cbn in E. injection E as <-. cbn.
    eapply holds_on_replace_acc; [apply H, Eu|exact Ek|]. intros x _ Hi.
    replace a' with (fst (get_pos RN a)) by (rewrite Eg; reflexivity). apply (st_get_pos Hst), Hi.
  - unfold find_acc. destruct (upd RN w) as [us|] eqn:Eu; [|exact H].
    destruct (lookup nm us) as [a|] eqn:Ek; [|exact H].
    destruct (get_neg RN a) as [a' r] eqn:Eg. cbn [fst].
    intros us' E. cbn in E. injection E as <-. cbn.
    eapply holds_on_replace_acc; [apply H, Eu|exact Ek|]. intros x _ Hi.
    replace a' with (fst (get_neg RN a)) by (rewrite Eg; reflexivity). apply (st_get_neg Hst), Hi.
  - (* OpAccUpdate *)
    unfold find_acc. destruct (upd RN w) as [us|] eqn:Eu; [|exact H].
    destruct (lookup nm us) as [a|] eqn:Ek; [|exact H].
    destruct (lookup nm (params RN w)) as [x|] eqn:Ex; [|exact H].
    destruct (acc_update RN a x) as [a' r] eqn:Eg. cbn [fst].
    replace a' with (fst (acc_update RN a x)) by (rewrite Eg; reflexivity).
    eapply (acc_step_holds w nm (acc_update RN)); eauto. apply (st_update Hst).
  - (* OpAccForward *)
    unfold find_acc. destruct (upd RN w) as [us|] eqn:Eu; [|exact H].
    destruct (lookup nm us) as [a|] eqn:Ek; [|exact H].
    destruct (lookup nm (params RN w)) as [x|] eqn:Ex; [|exact H].
    pose proof (st_forward Hst nm x a) as Hf.
    destruct (acc_forward RN a x) as [a' r] eqn:Eg. cbn [fst].
    intros us' E. cbn in E. injection E as <-. cbn.
    eapply holds_on_replace_acc; [apply H, Eu|exact Ek|]. intros x' Hx' Hi.
    rewrite Ex in Hx'. injection Hx' as <-. specialize (Hf Hi).
    (* acc(param) does not assign: the parameter keeps its value, the accumulator only its caches *)
    pose proof (st_update Hst nm x a Hi) as Hu. unfold acc_forward in Eg.
    destruct (acc_update RN a x) as [a2 r2]. injection Eg as <- _. exact Hu.
  - apply on_acc_holds; assumption.
  - apply on_acc_holds; assumption.
  - apply on_acc_holds; assumption.
  - apply on_acc_holds; assumption.
  - (* OpUpdate *)
    destruct (upd RN w) as [us|] eqn:Eu; [|exact H].
    pose proof (apply_names_holds (match @nil Z with [] => map fst us | _ => [] end) (params RN w) us (H us Eu)) as H1.
    unfold updater_forward.
    destruct (apply_names RN (params RN w) us (map fst us)) as [[ps1 us1] [e|]]; cbn [fst];
      intros us' E; cbn in E; injection E as <-; cbn; [exact H1|].
    destruct clear; [apply clear_all_holds|]; exact H1.
  - (* OpUpdateSome *)
    destruct (upd RN w) as [us|] eqn:Eu.
    + apply finish_holds, update_some_holds, H, Eu.
    + destruct nms; exact H.
  - (* OpClear *)
    destruct (upd RN w) as [us|] eqn:Eu; [|exact H].
    intros us' E. cbn in E. injection E as <-. cbn. apply clear_all_holds, H, Eu.
  - (* OpApply *)
    destruct (upd RN w) as [us|] eqn:Eu; [|exact H].
    apply finish_holds. unfold updater_forward. apply apply_names_holds, H, Eu.
  - (* OpSetParam *)
    intros us E. cbn in E. cbn. intros k x a Hx Ha. destruct (Z.eq_dec k nm) as [->|Hne].
    + rewrite lookup_replace_same in Hx. destruct (lookup nm (params RN w)) as [x0|] eqn:E0; [|discriminate].
      injection Hx as <-. apply (Hs x0), (H us E nm x0 a E0 Ha).
    + rewrite lookup_replace_other in Hx by exact Hne. apply (H us E k x a Hx Ha).
  - (* OpNewUpdater *)
    destruct (forallb _ nms); [|exact H].
    intros us E. cbn in E. injection E as <-. cbn. intros k x a Hx Ha.
    assert (Ha' : a = fresh f).
    { clear -Ha. induction nms as [|n t IH]; cbn in Ha; [discriminate|].
      destruct (Z.eqb k n); [injection Ha as <-; destruct f; reflexivity|apply IH, Ha]. }
    subst a. apply Hs.
  - (* OpDelUpdater *)
    intros us E. discriminate E.
Qed.

Theorem run_holds ops : forall w, Forall safe_op ops -> holds w -> holds (run RN w ops).
Proof.
  induction ops as [|o tl IH]; intros w Hs H; cbn [run]; [exact H|].
  inversion Hs; subst. apply IH; [assumption|]. apply step_holds; assumption.
Qed.
End Invariant.

(* ================================================================== instance 1: cache coherence *)
Definition Icoh (_ : Z) (_ : tensorW) (a : accR) : Prop := coh a.

Lemma Icoh_stable : stable Icoh.
Proof.
  constructor; unfold Icoh; intros nm x a H.
  - destruct (get_pos_spec a H) as (a' & E & H' & _). rewrite E. exact H'.
  - destruct (get_neg_spec a H) as (a' & E & H' & _). rewrite E. exact H'.
  - destruct (acc_update_coherent a x H) as (a' & E & H' & _). rewrite E. exact H'.
  - destruct (acc_forward_coherent a x H) as (a' & E & H' & _). rewrite E.
    destruct (forward_val a x); exact H'.
  - apply coh_del_pos, H.
  - apply coh_del_neg, H.
Qed.

Definition no_reduction (o : opR) : Prop := match o with OpReduction _ _ _ => False | _ => True end.

Lemma no_reduction_safe o : no_reduction o -> safe_op Icoh o.
Proof.
  destruct o; cbn; unfold Icoh; intros Hn; try exact I; try contradiction; intros.
  - apply coh_add_neg, coh_add_pos; assumption.
  - apply coh_add_pos; assumption.
  - apply coh_add_pos; assumption.
  - apply coh_add_neg; assumption.
  - unfold acc_upperbound. destruct (as_half RN (abind RN a)). apply coh_set_bind; assumption.
  - unfold acc_lowerbound. destruct (as_half RN (abind RN a)). apply coh_set_bind; assumption.
  - unfold acc_fullbound. destruct k; apply coh_set_bind; assumption.
  - assumption.
  - unfold fresh. destruct f; [apply coh_new_red|apply coh_new].
Qed.

(* every cached reduction equals the reduction of the pending parts, after ANY sequence of operations
   (contributions, reads, applications, clears, re-binding, new updaters, ...) that does not change a
   reduction after construction *)
Theorem cache_coherent ops w :
  holds Icoh w -> Forall no_reduction ops -> holds Icoh (run RN w ops).
Proof.
  intros H Hn. apply run_holds; [apply Icoh_stable| |exact H].
  eapply Forall_impl; [|exact Hn]. apply no_reduction_safe.
Qed.
Corollary cache_coherent_from_start ps ops us nm a :
  Forall no_reduction ops ->
  upd RN (run RN (mkWorld RN ps None) ops) = Some us -> lookup nm us = Some a ->
  lookup nm (params RN (run RN (mkWorld RN ps None) ops)) <> None -> coh a.
Proof.
  intros Hn Eu Ea Hp.
  assert (H0 : holds Icoh (mkWorld RN ps None)) by (intros us0 E; discriminate E).
  pose proof (cache_coherent ops _ H0 Hn us Eu) as H.
  destruct (lookup nm (params RN (run RN (mkWorld RN ps None) ops))) as [x|] eqn:Ex; [|congruence].
  apply (H nm x a Ex Ea).
Qed.

(* ================================================================== instance 2: range preservation *)
Section Range.
Variables (target : Z) (len : nat) (mx mn cap : R).

Definition in_range (x : tensorW) : Prop := Forall (fun v => mn <= v <= mx) x.
Definition unit_part (t : tensorW) : Prop := length t = len /\ Forall (fun v => 0 <= v <= cap) t.
(* the dependences for which the property claims the range invariant, with the admissible magnitude *)
Definition range_bind (b : bindT RN) : Prop :=
  (b = BFull RN (FMul RN) (Some mx) (Some mn) /\ cap = 1 /\ mn <= mx) \/
  (b = BFull RN (FSMul RN) (Some mx) (Some mn) /\ cap = mx - mn /\ mn < mx) \/
  (exists up lp, b = BFull RN (FSPow RN up lp) (Some mx) (Some mn) /\ 1 <= up /\ 1 <= lp /\ cap = mx - mn /\ mn < mx) \/
  (b = BHalf RN (HB RN (HMulU RN) (Some mx)) (HB RN (HMulL RN) (Some mn)) /\ cap = 1 /\ mn <= mx) \/
  (b = BHalf RN (HB RN (HSMulU RN (mx - mn)) (Some mx)) (HB RN (HSMulL RN (mx - mn)) (Some mn)) /\
   cap = mx - mn /\ mn < mx).

Lemma range_bind_step b x p n :
  range_bind b -> mn <= x <= mx -> 0 <= p <= cap -> 0 <= n <= cap ->
  mn <= x + bind_upper b x p - bind_lower b x n <= mx.
Proof.
  intros Hb Hx Hp Hn.
  destruct Hb as [(-> & -> & Hm)|[(-> & -> & Hm)|[(up & lp & -> & Hu & Hl & -> & Hm)|[(-> & -> & Hm)|(-> & -> & Hm)]]]];
    cbn [bind_upper bind_lower slot_fn].
  - pose proof (multiplicative_step_in_range x p n mx mn Hx Hp Hn) as H.
    pose proof (full_val_decomp (FMul RN) (Some mx) (Some mn) x p n eq_refl) as D. cbn [full_val] in D. lra.
  - pose proof (scaled_multiplicative_step_in_range x p n mx mn Hm Hx Hp Hn) as H.
    pose proof (full_val_decomp (FSMul RN) (Some mx) (Some mn) x p n eq_refl) as D. cbn [full_val] in D. lra.
  - pose proof (scaled_power_step_in_range x p n mx mn up lp Hm Hx Hu Hl Hp Hn) as H.
    pose proof (full_val_decomp (FSPow RN up lp) (Some mx) (Some mn) x p n eq_refl) as D. cbn [full_val] in D. lra.
  - pose proof (half_multiplicative_step_in_range x p n mx mn Hx Hp Hn) as H. cbn [half_apply]. lra.
  - pose proof (scaled_multiplicative_step_in_range x p n mx mn Hm Hx Hp Hn) as H.
    cbn [half_apply]. unfold bound_scaled_multiplicative in H. cbv zeta in H.
    rn_simpl. lra.
Qed.
Lemma range_bind_ok b : range_bind b -> bind_ok b /\ 0 <= cap.
Proof.
  intros [(-> & -> & Hm)|[(-> & -> & Hm)|[(up & lp & -> & Hu & Hl & -> & Hm)|[(-> & -> & Hm)|(-> & -> & Hm)]]]];
    cbn; repeat split; auto; lra.
Qed.

Ltac isplit := split; [|split; [|split; [|split; [|split; [|split]]]]].

Definition Irange (nm : Z) (x : tensorW) (a : accR) : Prop :=
  nm = target ->
  length x = len /\ in_range x /\ range_bind (abind RN a) /\ red_hull (ared RN a) /\
  Forall unit_part (apos RN a) /\ Forall unit_part (aneg RN a) /\ coh a.

Lemma Irange_cfg nm x a a' :
  Irange nm x a -> same_cfg a a' -> coh a' -> Irange nm x a'.
Proof.
  intros H (P & Nn & Rr & B) Hc E. destruct (H E) as (L & Hx & Hb & Hh & Hp & Hn & _).
  rewrite P, Nn, Rr, B. isplit; auto.
Qed.

Lemma rcol_unit red parts j :
  red_hull red -> 0 <= cap -> Forall unit_part parts -> (j < len)%nat -> 0 <= rcol red parts j <= cap.
Proof.
  intros Hh Hc Hp Hj. unfold rcol. destruct parts as [|p0 t]; [lra|].
  apply Hh; [cbn; congruence|]. unfold column. rewrite Forall_map.
  eapply Forall_impl; [|exact Hp]. intros p [Lp Fp]. rewrite Forall_forall in Fp. apply Fp, nth_In. rewrite <- Lp in Hj. exact Hj.
Qed.

Lemma Irange_stable : stable Irange.
Proof.
  constructor; intros nm x a H.
  - destruct (Z.eq_dec nm target) as [E|NE]; [|intros E; contradiction].
    destruct (H E) as (_ & _ & _ & _ & _ & _ & Hc).
    destruct (get_pos_spec a Hc) as (a' & Eg & Hc' & S). rewrite Eg. eapply Irange_cfg; eauto.
  - destruct (Z.eq_dec nm target) as [E|NE]; [|intros E; contradiction].
    destruct (H E) as (_ & _ & _ & _ & _ & _ & Hc).
    destruct (get_neg_spec a Hc) as (a' & Eg & Hc' & S). rewrite Eg. eapply Irange_cfg; eauto.
  - destruct (Z.eq_dec nm target) as [E|NE]; [|intros E; contradiction].
    destruct (H E) as (_ & _ & _ & _ & _ & _ & Hc).
    destruct (acc_update_coherent a x Hc) as (a' & Eg & Hc' & S). rewrite Eg. eapply Irange_cfg; eauto.
  - destruct (Z.eq_dec nm target) as [E|NE].
    2:{ destruct (acc_forward RN a x) as [a' [y|e]]; intros E; contradiction. }
    destruct (H E) as (L & Hx & Hb & Hh & Hp & Hn & Hc).
    destruct (range_bind_ok _ Hb) as [Hok Hcap].
    assert (W : wshape a (length x)).
    { rewrite L. split; (eapply Forall_impl; [|eassumption]); intros p [Lp _]; exact Lp. }
    destruct (apply_spec a x Hc W Hok) as (a' & y & Eg & Hc' & S & Ly & Hy). rewrite Eg.
    intros _. destruct S as (P & Nn & Rr & B). rewrite P, Nn, Rr, B.
    split; [exact (eq_trans Ly L)|]. split; [|split; [auto|split; [auto|split; [auto|split; auto]]]].
    unfold in_range. apply Forall_forall. intros v Hv.
    destruct (In_nth y v 0 Hv) as (j & Hj & <-). rewrite Ly in Hj. rewrite (Hy j Hj).
    assert (Hxj : mn <= nth j x 0 <= mx).
    { unfold in_range in Hx. rewrite Forall_forall in Hx. apply Hx, nth_In, Hj. }
    assert (Hj' : (j < len)%nat) by (rewrite <- L; exact Hj).
    pose proof (rcol_unit (ared RN a) (apos RN a) j Hh Hcap Hp Hj') as Rp.
    pose proof (rcol_unit (ared RN a) (aneg RN a) j Hh Hcap Hn Hj') as Rn.
    pose proof (range_bind_step _ _ _ _ Hb Hxj Rp Rn) as Hs.
    destruct (apos RN a), (aneg RN a); try exact Hs. exact Hxj.
  - intros E. destruct (H E) as (L & Hx & Hb & Hh & Hp & Hn & Hc).
    isplit; cbn; auto. apply coh_del_pos, Hc.
  - intros E. destruct (H E) as (L & Hx & Hb & Hh & Hp & Hn & Hc).
    isplit; cbn; auto. apply coh_del_neg, Hc.
Qed.

(* admissible operations of a history: contributions to the target parameter have the parameter's size and
   magnitudes in [0, cap]; the target's binding and reduction are not changed; a direct assignment of the
   target keeps it inside the limits; everything else (other parameters, reads, update / updatesome / clear /
   apply in any interleaving) is unrestricted *)
Definition ok_part (p : option tensorW) : Prop := match p with None => True | Some t => unit_part t end.
Definition good_op (o : opR) : Prop :=
  match o with
  | OpAdd _ k p n => k = target -> ok_part p /\ ok_part n
  | OpAddT _ k p | OpAddPos _ k p | OpAddNeg _ k p => k = target -> ok_part p
  | OpReduction _ k _ | OpUpper _ k _ _ | OpLower _ k _ _ | OpFull _ k _ _ _ => k <> target
  | OpSetParam _ k v => k = target -> length v = len /\ in_range v
  | OpNewUpdater _ _ _ => False
  | _ => True
  end.

Lemma Irange_add_pos nm x a p : (nm = target -> ok_part p) -> Irange nm x a -> Irange nm x (add_pos RN a p).
Proof.
  intros Hp H E. destruct (H E) as (L & Hx & Hb & Hh & Fp & Fn & Hc). specialize (Hp E).
  destruct p as [t|]; [|isplit; auto].
  isplit; cbn; auto; [|apply (coh_add_pos a (Some t)), Hc].
  apply Forall_app. split; [exact Fp|constructor; [exact Hp|constructor]].
Qed.
Lemma Irange_add_neg nm x a p : (nm = target -> ok_part p) -> Irange nm x a -> Irange nm x (add_neg RN a p).
Proof.
  intros Hp H E. destruct (H E) as (L & Hx & Hb & Hh & Fp & Fn & Hc). specialize (Hp E).
  destruct p as [t|]; [|isplit; auto].
  isplit; cbn; auto; [|apply (coh_add_neg a (Some t)), Hc].
  apply Forall_app. split; [exact Fn|constructor; [exact Hp|constructor]].
Qed.

Lemma good_op_safe o : good_op o -> safe_op Irange o.
Proof.
  destruct o; cbn; intros Hg; try exact I; try contradiction; intros.
  - apply Irange_add_neg; [intros E; apply Hg, E|]. apply Irange_add_pos; [intros E; apply Hg, E|assumption].
  - apply Irange_add_pos; assumption.
  - apply Irange_add_pos; assumption.
  - apply Irange_add_neg; assumption.
  - intros E; contradiction.
  - intros E; contradiction.
  - intros E; contradiction.
  - intros E; contradiction.
  - intros E. destruct (H E) as (L & Hx & Hr). destruct (Hg E) as [Lv Hv]. split; [exact Lv|split; [exact Hv|exact Hr]].
Qed.

(* THE INVARIANT over arbitrarily long histories *)
Theorem range_invariant_history ops w :
  holds Irange w -> Forall good_op ops -> holds Irange (run RN w ops).
Proof.
  intros H Hg. apply run_holds; [apply Irange_stable| |exact H].
  eapply Forall_impl; [|exact Hg]. apply good_op_safe.
Qed.

(* how the invariant is established: a fresh updater with a hull-preserving reduction, then fullbound *)
Lemma range_setup (ps : list (Z * tensorW)) (x : tensorW) g k :
  lookup target ps = Some x -> length x = len -> in_range x -> red_hull g ->
  range_bind (BFull RN k (Some mx) (Some mn)) ->
  holds Irange (run RN (mkWorld RN ps None)
                  [OpNewUpdater RN [target] (Some g); OpFull RN target (Some k) (Some mx) (Some mn)]).
Proof.
  intros Ex L Hx Hg Hb. cbn [run step fst forallb params]. rewrite Ex. cbn [andb fst map params].
  unfold on_acc, find_acc. cbn [upd lookup]. rewrite Z.eqb_refl. cbn [fst].
  unfold put_acc. cbn [replace params]. rewrite Z.eqb_refl. intros us E. cbn in E. injection E as <-.
  intros nm y a Hy Ha. cbn in Hy, Ha. destruct (Z.eqb nm target) eqn:En; [|discriminate].
  injection Ha as <-. apply Z.eqb_eq in En. subst nm. rewrite Ex in Hy. injection Hy as <-.
  intros _. isplit; cbn; auto. split; cbn; auto.
Qed.
End Range.

(* the property's sentence, end to end: configure, then ANY admissible history, then look at the parameter *)
Theorem stays_in_range_forever target mx mn cap (ps : list (Z * tensorW)) (x : tensorW) g k ops us a (y : tensorW) :
  lookup target ps = Some x -> in_range mx mn x -> red_hull g ->
  range_bind mx mn cap (BFull RN k (Some mx) (Some mn)) ->
  Forall (good_op target (length x) mx mn cap) ops ->
  let w := run RN (mkWorld RN ps None)
             ([OpNewUpdater RN [target] (Some g); OpFull RN target (Some k) (Some mx) (Some mn)] ++ ops) in
  upd RN w = Some us -> lookup target us = Some a -> lookup target (params RN w) = Some y ->
  length y = length x /\ in_range mx mn y.
Proof.
  intros Ex Hx Hg Hb Hops w Eu Ea Ey.
  assert (Hrun : forall l1 l2 w0, run RN w0 (l1 ++ l2) = run RN (run RN w0 l1) l2).
  { induction l1; intros; cbn [run app]; auto. }
  unfold w in *. rewrite Hrun in Eu, Ey.
  pose proof (range_setup target (length x) mx mn cap ps x g k Ex eq_refl Hx Hg Hb) as H0.
  pose proof (range_invariant_history target (length x) mx mn cap ops _ H0 Hops us Eu target y a Ey Ea eq_refl) as H.
  destruct H as (L & Hy & _). auto.
Qed.

(* the three dependences named by the property *)
Corollary multiplicative_stays_in_range target mx mn (ps : list (Z * tensorW)) (x : tensorW) g ops us a (y : tensorW) :
  mn <= mx -> lookup target ps = Some x -> in_range mx mn x -> red_hull g ->
  Forall (good_op target (length x) mx mn 1) ops ->
  let w := run RN (mkWorld RN ps None)
             ([OpNewUpdater RN [target] (Some g); OpFull RN target (Some (FMul RN)) (Some mx) (Some mn)] ++ ops) in
  upd RN w = Some us -> lookup target us = Some a -> lookup target (params RN w) = Some y ->
  in_range mx mn y.
Proof.
  intros Hm Ex Hx Hg Hops w Eu Ea Ey.
  eapply (stays_in_range_forever target mx mn 1 ps x g (FMul RN) ops us a y); eauto.
  left. auto.
Qed.
Corollary scaled_multiplicative_stays_in_range target mx mn (ps : list (Z * tensorW)) (x : tensorW) g ops us a (y : tensorW) :
  mn < mx -> lookup target ps = Some x -> in_range mx mn x -> red_hull g ->
  Forall (good_op target (length x) mx mn (mx - mn)) ops ->
  let w := run RN (mkWorld RN ps None)
             ([OpNewUpdater RN [target] (Some g); OpFull RN target (Some (FSMul RN)) (Some mx) (Some mn)] ++ ops) in
  upd RN w = Some us -> lookup target us = Some a -> lookup target (params RN w) = Some y ->
  in_range mx mn y.
Proof.
  intros Hm Ex Hx Hg Hops w Eu Ea Ey.
  eapply (stays_in_range_forever target mx mn (mx - mn) ps x g (FSMul RN) ops us a y); eauto.
  right. left. auto.
Qed.
Corollary scaled_power_stays_in_range target mx mn up lp (ps : list (Z * tensorW)) (x : tensorW) g ops us a (y : tensorW) :
  mn < mx -> 1 <= up -> 1 <= lp -> lookup target ps = Some x -> in_range mx mn x -> red_hull g ->
  Forall (good_op target (length x) mx mn (mx - mn)) ops ->
  let w := run RN (mkWorld RN ps None)
             ([OpNewUpdater RN [target] (Some g); OpFull RN target (Some (FSPow RN up lp)) (Some mx) (Some mn)] ++ ops) in
  upd RN w = Some us -> lookup target us = Some a -> lookup target (params RN w) = Some y ->
  in_range mx mn y.
Proof.
  intros Hm Hu Hl Ex Hx Hg Hops w Eu Ea Ey.
  eapply (stays_in_range_forever target mx mn (mx - mn) ps x g (FSPow RN up lp) ops us a y); eauto.
  right. right. left. exists up, lp. auto.
Qed.
