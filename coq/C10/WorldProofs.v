(* C10, part D: the Updater / Updatable level (operation sequences on a module).
   A generic per-parameter invariant principle over arbitrary operation sequences, and its first instance:
   cache coherence. *)
From Coq Require Import List ZArith Bool Arith Reals Lra Lia Permutation.
From Inferno Require Import Base.Num Base.NumR Gen.Bounding C10.Updater C10.KernelAlgebra C10.AccProofs C10.OrderProofs.
Import ListNotations.
Open Scope R_scope.

Notation worldR := (world RN).
Notation opR := (op RN).
(* in this file tensors are written as the model writes them (convertible to list R) *)
Notation tensorW := (tensor RN).

(* ------------------------------------------------------------------ association lists *)
Lemma lookup_replace_same {A} k (v : A) l :
  lookup k (replace k v l) = match lookup k l with Some _ => Some v | None => None end.
Proof.
  induction l as [|[k' v'] t IH]; cbn; [reflexivity|].
  destruct (Z.eqb k k') eqn:E; cbn; rewrite E; [reflexivity|exact IH].
Qed.
Lemma lookup_replace_other {A} k k' (v : A) l : k <> k' -> lookup k (replace k' v l) = lookup k l.
Proof.
  intros Hne. induction l as [|[k2 v2] t IH]; cbn; [reflexivity|].
  destruct (Z.eqb k' k2) eqn:E; cbn.
  - apply Z.eqb_eq in E. subst k2. destruct (Z.eqb k k') eqn:E2; [apply Z.eqb_eq in E2; contradiction|reflexivity].
  - destruct (Z.eqb k k2); [reflexivity|exact IH].
Qed.
Lemma replace_keys {A} k (v : A) l : map fst (replace k v l) = map fst l.
Proof.
  induction l as [|[k' v'] t IH]; cbn; [reflexivity|]. destruct (Z.eqb k k'); cbn; [reflexivity|f_equal; exact IH].
Qed.
Lemma replace_same {A} k (v : A) l : lookup k l = Some v -> replace k v l = l.
Proof.
  induction l as [|[k' v'] t IH]; cbn; [reflexivity|]. destruct (Z.eqb k k') eqn:E.
  - intros H. injection H as ->. reflexivity.
  - intros H. f_equal. apply IH, H.
Qed.
Lemma lookup_in_keys {A} k (l : list (Z * A)) : lookup k l <> None <-> In k (map fst l).
Proof.
  induction l as [|[k' v'] t IH]; cbn; [tauto|]. destruct (Z.eqb k k') eqn:E.
  - apply Z.eqb_eq in E. subst. split; [auto|congruence].
  - apply Z.eqb_neq in E. rewrite IH. split; [auto|intros [H|H]; [congruence|exact H]].
Qed.
Lemma lookup_map_snd {A B} (f : A -> B) k (l : list (Z * A)) :
  lookup k (map (fun na => (fst na, f (snd na))) l) = option_map f (lookup k l).
Proof. induction l as [|[k' v'] t IH]; cbn; [reflexivity|]. destruct (Z.eqb k k'); [reflexivity|exact IH]. Qed.

(* ------------------------------------------------------------------ a per-parameter invariant principle *)
(* I nm x a : a property of the value x of parameter nm together with its accumulator a *)
Section Invariant.
Variable I : Z -> tensorW -> accR -> Prop.

Definition holds_on (ps : list (Z * tensorW)) (us : list (Z * accR)) : Prop :=
  forall nm x a, lookup nm ps = Some x -> lookup nm us = Some a -> I nm x a.
Definition holds (w : worldR) : Prop :=
  forall us, upd RN w = Some us -> holds_on (params RN w) us.

(* the accumulator's own methods keep the invariant *)
Record stable : Prop := {
  st_get_pos : forall nm x a, I nm x a -> I nm x (fst (get_pos RN a));
  st_get_neg : forall nm x a, I nm x a -> I nm x (fst (get_neg RN a));
  st_update : forall nm x a, I nm x a -> I nm x (fst (acc_update RN a x));
  st_forward : forall nm x a, I nm x a ->
      match acc_forward RN a x with (a', Ok y) => I nm y a' | (a', Err _) => I nm x a' end;
  st_del_pos : forall nm x a, I nm x a -> I nm x (del_pos RN a);
  st_del_neg : forall nm x a, I nm x a -> I nm x (del_neg RN a)
}.
(* what is asked of the individual operations of a history *)
Definition fresh (f : option (list R -> R)) : accR :=
  match f with Some g => acc_reduction RN (acc_new RN) (Some g) | None => acc_new RN end.
Definition safe_op (o : opR) : Prop :=
  match o with
  | OpAdd _ k p n => forall x a, I k x a -> I k x (add_neg RN (add_pos RN a p) n)
  | OpAddT _ k p | OpAddPos _ k p => forall x a, I k x a -> I k x (add_pos RN a p)
  | OpAddNeg _ k v => forall x a, I k x a -> I k x (add_neg RN a v)
  | OpReduction _ k f => forall x a, I k x a -> I k x (acc_reduction RN a f)
  | OpUpper _ k kk lim => forall x a, I k x a -> I k x (acc_upperbound RN a kk lim)
  | OpLower _ k kk lim => forall x a, I k x a -> I k x (acc_lowerbound RN a kk lim)
  | OpFull _ k kk mx mn => forall x a, I k x a -> I k x (acc_fullbound RN a kk mx mn)
  | OpSetParam _ k v => forall x a, I k x a -> I k v a
  | OpNewUpdater _ nms f => forall k x, I k x (fresh f)
  | _ => True
  end.

Hypothesis Hst : stable.

Lemma st_clear nm x a : I nm x a -> I nm x (acc_clear RN a).
Proof. intros H. unfold acc_clear. apply (st_del_neg Hst), (st_del_pos Hst), H. Qed.

Lemma holds_on_replace_acc ps us k a a' :
  holds_on ps us -> lookup k us = Some a -> (forall x, lookup k ps = Some x -> I k x a -> I k x a') ->
  holds_on ps (replace k a' us).
Proof.
  intros H Hk Hf nm x b Hx Hb. destruct (Z.eq_dec nm k) as [->|Hne].
  - rewrite lookup_replace_same, Hk in Hb. injection Hb as <-. apply Hf; [exact Hx|]. apply (H k x a); assumption.
  - rewrite lookup_replace_other in Hb by exact Hne. apply (H nm x b); assumption.
Qed.

Lemma on_acc_holds w k f :
  holds w -> (forall x a, I k x a -> I k x (f a)) -> holds (fst (on_acc RN w k f)).
Proof.
  intros H Hf. unfold on_acc, find_acc. destruct (upd RN w) as [us|] eqn:Eu; [|exact H].
  destruct (lookup k us) as [a|] eqn:Ek; [|exact H].
  cbn. intros us' Hus'. injection Hus' as <-.
  eapply holds_on_replace_acc; [apply H, Eu|exact Ek|]. intros x _. apply Hf.
Qed.

Lemma apply_names_holds nms : forall ps us,
  holds_on ps us ->
  let '(ps', us', _) := apply_names RN ps us nms in holds_on ps' us'.
Proof.
  induction nms as [|k tl IH]; intros ps us H; cbn [apply_names]; [exact H|].
  destruct (lookup k us) as [a|] eqn:Ek; [|exact H].
  destruct (lookup k ps) as [x|] eqn:Ex; [|exact H].
  pose proof (st_forward Hst k x a (H k x a Ex Ek)) as Hf.
  destruct (acc_forward RN a x) as [a' [y|e]].
  - apply IH. intros nm x' b Hx' Hb. destruct (Z.eq_dec nm k) as [->|Hne].
    + rewrite lookup_replace_same, Ex in Hx'. rewrite lookup_replace_same, Ek in Hb.
      injection Hx' as <-. injection Hb as <-. exact Hf.
    + rewrite lookup_replace_other in Hx' by exact Hne. rewrite lookup_replace_other in Hb by exact Hne.
      apply (H nm x' b); assumption.
  - eapply holds_on_replace_acc; [exact H|exact Ek|]. intros x' Hx' _.
    rewrite Ex in Hx'. injection Hx' as <-. exact Hf.
Qed.

Lemma clear_all_holds ps us : holds_on ps us -> holds_on ps (clear_all RN us).
Proof.
  intros H nm x b Hx Hb. unfold clear_all in Hb. rewrite lookup_map_snd in Hb.
  destruct (lookup nm us) as [a|] eqn:Ea; [|discriminate]. injection Hb as <-.
  apply st_clear, (H nm x a); assumption.
Qed.

Lemma update_some_holds nms clear : forall ps us,
  holds_on ps us ->
  let '(ps', us', _) := update_some RN ps us nms clear in holds_on ps' us'.
Proof.
  induction nms as [|k tl IH]; intros ps us H; cbn [update_some]; [exact H|].
  pose proof (apply_names_holds [k] ps us H) as H1.
  destruct (apply_names RN ps us [k]) as [[ps1 us1] [e|]]; [exact H1|].
  apply IH. destruct clear; [|exact H1].
  destruct (lookup k us1) as [a|] eqn:Ek; [|exact H1].
  eapply holds_on_replace_acc; [exact H1|exact Ek|]. intros x _. apply st_clear.
Qed.

Lemma finish_holds r :
  (let '(ps', us', _) := r in holds_on ps' us') -> holds (fst (finish RN r)).
Proof.
  destruct r as [[ps us] [e|]]; cbn; intros H us' E; injection E as <-; exact H.
Qed.

Lemma acc_step_holds {B} w k (g : accR -> tensorW -> accR * B) us a x :
  holds w -> upd RN w = Some us -> lookup k us = Some a -> lookup k (params RN w) = Some x ->
  (I k x a -> I k x (fst (g a x))) ->
  holds (put_acc RN w us k (fst (g a x))).
Proof.
  intros H Eu Ek Ex Hg us' E. cbn in E. injection E as <-. cbn.
  eapply holds_on_replace_acc; [apply H, Eu|exact Ek|]. intros x' Hx' Hi.
  rewrite Ex in Hx'. injection Hx' as <-. apply Hg, Hi.
Qed.

Theorem step_holds w o : safe_op o -> holds w -> holds (fst (step RN w o)).
Proof.
  intros Hs H. destruct o; cbn [step safe_op] in *.
  - apply on_acc_holds; assumption.
  - apply on_acc_holds; assumption.
  - apply on_acc_holds; assumption.
  - apply on_acc_holds; assumption.
  - apply on_acc_holds; [assumption|]. intros x a. apply st_clear.
  - apply on_acc_holds; [assumption|]. intros x a. apply (st_del_pos Hst).
  - apply on_acc_holds; [assumption|]. intros x a. apply (st_del_neg Hst).
  - (* OpGetPos *)
    unfold find_acc. destruct (upd RN w) as [us|] eqn:Eu; [|exact H].
    destruct (lookup nm us) as [a|] eqn:Ek; [|exact H].
    destruct (get_pos RN a) as [a' r] eqn:Eg. cbn [fst].
    intros us' E. cbn in E. injection E as <-. cbn.
    eapply holds_on_replace_acc; [apply H, Eu|exact Ek|]. intros x _ Hi.
    replace a' with (fst (get_pos RN a)) by (rewrite Eg; reflexivity). apply (st_get_pos Hst), Hi.
  - unfold find_acc. destruct (upd RN w) as [us|] eqn:Eu; [|exact H].
    destruct (lookup nm us) as [a|] eqn:Ek; [|exact H].
    destruct (get_neg RN a) as [a' r] eqn:Eg. cbn [fst].
    intros us' E. cbn in E. injection E as <-. cbn.
    eapply holds_on_replace_acc; [apply H, Eu|exact Ek|]. intros x _ Hi.
    replace a' with (fst (get_neg RN a)) by (rewrite Eg; reflexivity). apply (st_get_neg Hst), Hi.
  - (* OpAccUpdate *)
    unfold find_acc. destruct (upd RN w) as [us|] eqn:Eu; [|exact H].
    destruct (lookup nm us) as [a|] eqn:Ek; [|exact H].
    destruct (lookup nm (params RN w)) as [x|] eqn:Ex; [|exact H].
    destruct (acc_update RN a x) as [a' r] eqn:Eg. cbn [fst].
    replace a' with (fst (acc_update RN a x)) by (rewrite Eg; reflexivity).
    eapply (acc_step_holds w nm (acc_update RN)); eauto. apply (st_update Hst).
  - (* OpAccForward *)
    unfold find_acc. destruct (upd RN w) as [us|] eqn:Eu; [|exact H].
    destruct (lookup nm us) as [a|] eqn:Ek; [|exact H].
    destruct (lookup nm (params RN w)) as [x|] eqn:Ex; [|exact H].
    pose proof (st_forward Hst nm x a) as Hf.
    destruct (acc_forward RN a x) as [a' r] eqn:Eg. cbn [fst].
    intros us' E. cbn in E. injection E as <-. cbn.
    eapply holds_on_replace_acc; [apply H, Eu|exact Ek|]. intros x' Hx' Hi.
    rewrite Ex in Hx'. injection Hx' as <-. specialize (Hf Hi).
    (* acc(param) does not assign: the parameter keeps its value, the accumulator only its caches *)
    pose proof (st_update Hst nm x a Hi) as Hu. unfold acc_forward in Eg.
    destruct (acc_update RN a x) as [a2 r2]. injection Eg as <- _. exact Hu.
  - apply on_acc_holds; assumption.
  - apply on_acc_holds; assumption.
  - apply on_acc_holds; assumption.
  - apply on_acc_holds; assumption.
  - (* OpUpdate *)
    destruct (upd RN w) as [us|] eqn:Eu; [|exact H].
    pose proof (apply_names_holds (match @nil Z with [] => map fst us | _ => [] end) (params RN w) us (H us Eu)) as H1.
    unfold updater_forward.
    destruct (apply_names RN (params RN w) us (map fst us)) as [[ps1 us1] [e|]]; cbn [fst];
      intros us' E; cbn in E; injection E as <-; cbn; [exact H1|].
    destruct clear; [apply clear_all_holds|]; exact H1.
  - (* OpUpdateSome *)
    destruct (upd RN w) as [us|] eqn:Eu.
    + apply finish_holds, update_some_holds, H, Eu.
    + destruct nms; exact H.
  - (* OpClear *)
    destruct (upd RN w) as [us|] eqn:Eu; [|exact H].
    intros us' E. cbn in E. injection E as <-. cbn. apply clear_all_holds, H, Eu.
  - (* OpApply *)
    destruct (upd RN w) as [us|] eqn:Eu; [|exact H].
    apply finish_holds. unfold updater_forward. apply apply_names_holds, H, Eu.
  - (* OpSetParam *)
    intros us E. cbn in E. cbn. intros k x a Hx Ha. destruct (Z.eq_dec k nm) as [->|Hne].
    + rewrite lookup_replace_same in Hx. destruct (lookup nm (params RN w)) as [x0|] eqn:E0; [|discriminate].
      injection Hx as <-. apply (Hs x0), (H us E nm x0 a E0 Ha).
    + rewrite lookup_replace_other in Hx by exact Hne. apply (H us E k x a Hx Ha).
  - (* OpNewUpdater *)
    destruct (forallb _ nms); [|exact H].
    intros us E. cbn in E. injection E as <-. cbn. intros k x a Hx Ha.
    assert (Ha' : a = fresh f).
    { clear -Ha. induction nms as [|n t IH]; cbn in Ha; [discriminate|].
      destruct (Z.eqb k n); [injection Ha as <-; destruct f; reflexivity|apply IH, Ha]. }
    subst a. apply Hs.
  - (* OpDelUpdater *)
    intros us E. discriminate E.
  - (* OpTrainerUpdate *)
    destruct (existsb (Z.eqb 0) cells); [|exact H].
    destruct (upd RN w) as [us|] eqn:Eu; [|exact H].
    apply finish_holds. unfold updater_forward. apply apply_names_holds, H, Eu.
Qed.

Theorem run_holds ops : forall w, Forall safe_op ops -> holds w -> holds (run RN w ops).
Proof.
  induction ops as [|o tl IH]; intros w Hs H; cbn [run]; [exact H|].
  inversion Hs; subst. apply IH; [assumption|]. apply step_holds; assumption.
Qed.
End Invariant.

(* ================================================================== instance 1: cache coherence *)
Definition Icoh (_ : Z) (_ : tensorW) (a : accR) : Prop := coh a.

Lemma Icoh_stable : stable Icoh.
Proof.
  constructor; unfold Icoh; intros nm x a H.
  - destruct (get_pos_spec a H) as (a' & E & H' & _). rewrite E. exact H'.
  - destruct (get_neg_spec a H) as (a' & E & H' & _). rewrite E. exact H'.
  - destruct (acc_update_coherent a x H) as (a' & E & H' & _). rewrite E. exact H'.
  - destruct (acc_forward_coherent a x H) as (a' & E & H' & _). rewrite E.
    destruct (forward_val a x); exact H'.
  - apply coh_del_pos, H.
  - apply coh_del_neg, H.
Qed.

Definition no_reduction (o : opR) : Prop := match o with OpReduction _ _ _ => False | _ => True end.

Lemma no_reduction_safe o : no_reduction o -> safe_op Icoh o.
Proof.
  destruct o; cbn; unfold Icoh; intros Hn; try exact I; try contradiction; intros.
  - apply coh_add_neg, coh_add_pos; assumption.
  - apply coh_add_pos; assumption.
  - apply coh_add_pos; assumption.
  - apply coh_add_neg; assumption.
  - unfold acc_upperbound. destruct (as_half RN (abind RN a)). apply coh_set_bind; assumption.
  - unfold acc_lowerbound. destruct (as_half RN (abind RN a)). apply coh_set_bind; assumption.
  - unfold acc_fullbound. destruct k; apply coh_set_bind; assumption.
  - assumption.
  - unfold fresh. destruct f; [apply coh_new_red|apply coh_new].
Qed.

(* every cached reduction equals the reduction of the pending parts, after ANY sequence of operations
   (contributions, reads, applications, clears, re-binding, new updaters, ...) that does not change a
   reduction after construction *)
Theorem cache_coherent ops w :
  holds Icoh w -> Forall no_reduction ops -> holds Icoh (run RN w ops).
Proof.
  intros H Hn. apply run_holds; [apply Icoh_stable| |exact H].
  eapply Forall_impl; [|exact Hn]. apply no_reduction_safe.
Qed.
Corollary cache_coherent_from_start ps ops us nm a :
  Forall no_reduction ops ->
  upd RN (run RN (mkWorld RN ps None) ops) = Some us -> lookup nm us = Some a ->
  lookup nm (params RN (run RN (mkWorld RN ps None) ops)) <> None -> coh a.
Proof.
  intros Hn Eu Ea Hp.
  assert (H0 : holds Icoh (mkWorld RN ps None)) by (intros us0 E; discriminate E).
  pose proof (cache_coherent ops _ H0 Hn us Eu) as H.
  destruct (lookup nm (params RN (run RN (mkWorld RN ps None) ops))) as [x|] eqn:Ex; [|congruence].
  apply (H nm x a Ex Ea).
Qed.

