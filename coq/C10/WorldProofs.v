(* C10, part D: the Updater / Updatable level (operation sequences on a module).
   A generic per-parameter invariant principle over arbitrary operation sequences, and its instances:
   cache coherence, range preservation over unbounded update histories. *)
From Coq Require Import List ZArith Bool Arith Reals Lra Lia Permutation.
From Inferno Require Import Base.Num Base.NumR Gen.Bounding C10.Updater C10.KernelProofs C10.AccProofs C10.OrderProofs.
Import ListNotations.
Open Scope R_scope.

Notation worldR := (world RN).
Notation opR := (op RN).

(* ------------------------------------------------------------------ association lists *)
Lemma lookup_replace_same {A} k (v : A) l :
  lookup k (replace k v l) = match lookup k l with Some _ => Some v | None => None end.
Proof.
  induction l as [|[k' v'] t IH]; cbn; [reflexivity|].
  destruct (Z.eqb k k') eqn:E; cbn; rewrite E; [reflexivity|exact IH].
Qed.
Lemma lookup_replace_other {A} k k' (v : A) l : k <> k' -> lookup k (replace k' v l) = lookup k l.
Proof.
  intros Hne. induction l as [|[k2 v2] t IH]; cbn; [reflexivity|].
  destruct (Z.eqb k' k2) eqn:E; cbn.
  - apply Z.eqb_eq in E. subst k2. destruct (Z.eqb k k') eqn:E2; [apply Z.eqb_eq in E2; contradiction|reflexivity].
  - destruct (Z.eqb k k2); [reflexivity|exact IH].
Qed.
Lemma replace_keys {A} k (v : A) l : map fst (replace k v l) = map fst l.
Proof.
  induction l as [|[k' v'] t IH]; cbn; [reflexivity|]. destruct (Z.eqb k k'); cbn; [reflexivity|f_equal; exact IH].
Qed.
Lemma replace_same {A} k (v : A) l : lookup k l = Some v -> replace k v l = l.
Proof.
  induction l as [|[k' v'] t IH]; cbn; [reflexivity|]. destruct (Z.eqb k k') eqn:E.
  - intros H. injection H as ->. reflexivity.
  - intros H. f_equal. apply IH, H.
Qed.
Lemma lookup_in_keys {A} k (l : list (Z * A)) : lookup k l <> None <-> In k (map fst l).
Proof.
  induction l as [|[k' v'] t IH]; cbn; [tauto|]. destruct (Z.eqb k k') eqn:E.
  - apply Z.eqb_eq in E. subst. split; [auto|congruence].
  - apply Z.eqb_neq in E. rewrite IH. split; [auto|intros [H|H]; [congruence|exact H]].
Qed.
Lemma lookup_map_snd {A B} (f : A -> B) k (l : list (Z * A)) :
  lookup k (map (fun na => (fst na, f (snd na))) l) = option_map f (lookup k l).
Proof. induction l as [|[k' v'] t IH]; cbn; [reflexivity|]. destruct (Z.eqb k k'); [reflexivity|exact IH]. Qed.

(* ------------------------------------------------------------------ a per-parameter invariant principle *)
(* I nm x a : a property of the value x of parameter nm together with its accumulator a *)
Section Invariant.
Variable I : Z -> tensorR -> accR -> Prop.

Definition holds_on (ps : list (Z * tensorR)) (us : list (Z * accR)) : Prop :=
  forall nm x a, lookup nm ps = Some x -> lookup nm us = Some a -> I nm x a.
Definition holds (w : worldR) : Prop :=
  forall us, upd RN w = Some us -> holds_on (params RN w) us.

(* the accumulator's own methods keep the invariant *)
Record stable : Prop := {
  st_get_pos : forall nm x a, I nm x a -> I nm x (fst (get_pos RN a));
  st_get_neg : forall nm x a, I nm x a -> I nm x (fst (get_neg RN a));
  st_update : forall nm x a, I nm x a -> I nm x (fst (acc_update RN a x));
  st_forward : forall nm x a, I nm x a ->
      match acc_forward RN a x with (a', Ok y) => I nm y a' | (a', Err _) => I nm x a' end;
  st_del_pos : forall nm x a, I nm x a -> I nm x (del_pos RN a);
  st_del_neg : forall nm x a, I nm x a -> I nm x (del_neg RN a)
}.
(* what is asked of the individual operations of a history *)
Definition fresh (f : option (list R -> R)) : accR :=
  match f with Some g => acc_reduction RN (acc_new RN) (Some g) | None => acc_new RN end.
Definition safe_op (o : opR) : Prop :=
  match o with
  | OpAdd _ k p n => forall x a, I k x a -> I k x (add_neg RN (add_pos RN a p) n)
  | OpAddT _ k p | OpAddPos _ k p => forall x a, I k x a -> I k x (add_pos RN a p)
  | OpAddNeg _ k v => forall x a, I k x a -> I k x (add_neg RN a v)
  | OpReduction _ k f => forall x a, I k x a -> I k x (acc_reduction RN a f)
  | OpUpper _ k kk lim => forall x a, I k x a -> I k x (acc_upperbound RN a kk lim)
  | OpLower _ k kk lim => forall x a, I k x a -> I k x (acc_lowerbound RN a kk lim)
  | OpFull _ k kk mx mn => forall x a, I k x a -> I k x (acc_fullbound RN a kk mx mn)
  | OpSetParam _ k v => forall x a, I k x a -> I k v a
  | OpNewUpdater _ nms f => forall k x, I k x (fresh f)
  | _ => True
  end.

Hypothesis Hst : stable.

Lemma st_clear nm x a : I nm x a -> I nm x (acc_clear RN a).
Proof. intros H. unfold acc_clear. apply (st_del_neg Hst), (st_del_pos Hst), H. Qed.

Lemma holds_on_replace_acc ps us k a a' :
  holds_on ps us -> lookup k us = Some a -> (forall x, I k x a -> I k x a') -> holds_on ps (replace k a' us).
Proof.
  intros H Hk Hf nm x b Hx Hb. destruct (Z.eq_dec nm k) as [->|Hne].
  - rewrite lookup_replace_same, Hk in Hb. injection Hb as <-. apply Hf, (H k x a); assumption.
  - rewrite lookup_replace_other in Hb by exact Hne. apply (H nm x b); assumption.
Qed.

Lemma on_acc_holds w k f :
  holds w -> (forall x a, I k x a -> I k x (f a)) -> holds (fst (on_acc RN w k f)).
Proof.
  intros H Hf. unfold on_acc, find_acc. destruct (upd RN w) as [us|] eqn:Eu; [|exact H].
  destruct (lookup k us) as [a|] eqn:Ek; [|exact H].
  cbn. intros us' Hus'. injection Hus' as <-.
  eapply holds_on_replace_acc; [apply H, Eu|exact Ek|]. intros x. apply Hf.
Qed.

Lemma apply_names_holds nms : forall ps us,
  holds_on ps us ->
  let '(ps', us', _) := apply_names RN ps us nms in holds_on ps' us'.
Proof.
  induction nms as [|k tl IH]; intros ps us H; cbn [apply_names]; [exact H|].
  destruct (lookup k us) as [a|] eqn:Ek; [|exact H].
  destruct (lookup k ps) as [x|] eqn:Ex; [|exact H].
  pose proof (st_forward Hst k x a (H k x a Ex Ek)) as Hf.
  destruct (acc_forward RN a x) as [a' [y|e]].
  - apply IH. intros nm x' b Hx' Hb. destruct (Z.eq_dec nm k) as [->|Hne].
    + rewrite lookup_replace_same, Ex in Hx'. rewrite lookup_replace_same, Ek in Hb.
      injection Hx' as <-. injection Hb as <-. exact Hf.
    + rewrite lookup_replace_other in Hx', Hb by exact Hne. apply (H nm x' b); assumption.
  - eapply holds_on_replace_acc; [exact H|exact Ek|]. intros x' Hx'.
    (* the parameter of k is x *) 
    pose proof (H k x a Ex Ek) as _. exact Hf.
Qed.
End Invariant.
