(* Executable (binary64) instance of the Updater model for the correspondence check, and the
   serialiser of its traces.  No theorem depends on this file. *)
From Coq Require Import List ZArith Bool.
From Inferno Require Import Base.Num Base.NumF C10.Updater.
Import ListNotations.

Definition ser_err (e : err) : tree :=
  match e with ERuntime => L 1 | EType => L 4 | EAttr => L 5 | EKey => L 6 end%Z.
Definition ser_tensor (t : tensor FN) : tree := ser_list ser_float t.
Definition ser_out (o : out FN) : tree :=
  match o with
  | OUnit _ => Nd [L 0]
  | OT _ None => Nd [L 1]
  | OT _ (Some t) => Nd [L 2; ser_tensor t]
  end%Z.
Definition ser_cache (c : option (option (tensor FN))) : tree :=
  match c with None => L 0 | Some _ => L 1 end%Z.
Definition ser_acc (na : Z * acc FN) : tree :=
  let a := snd na in
  Nd [L (fst na); ser_list ser_tensor (apos FN a); ser_list ser_tensor (aneg FN a);
      ser_cache (cpos FN a); ser_cache (cneg FN a)].
Definition ser_world (w : world FN) : tree :=
  Nd [ser_list (fun p => Nd [L (fst p); ser_tensor (snd p)]) (params FN w);
      ser_option (ser_list ser_acc) (upd FN w)].

(* per operation: [[0; output] | [1; error code]; state after] *)
Fixpoint trace (w : world FN) (ops : list (op FN)) : list tree :=
  match ops with
  | [] => []
  | o :: tl =>
      let (w', r) := step FN w o in
      Nd [match r with Ok v => Nd [L 0%Z; ser_out v] | Err e => Nd [L 1%Z; ser_err e] end; ser_world w']
      :: trace w' tl
  end.
Definition run_case (ps : list (Z * tensor FN)) (ops : list (op FN)) : tree :=
  Nd (trace (mkWorld FN ps None) ops).

(* short names used by the generated case files *)
Definition rsum := red_sum FN.
Definition rmean := red_mean FN.
Definition ramax := red_amax FN.
Definition ramin := red_amin FN.
Definition rfirst := red_first FN.
Definition rl2 := red_l2 FN.
