(* Executable (binary64) instance of the Updater model for the correspondence check, and the
   serialiser of its traces.  No theorem depends on this file. *)
From Coq Require Import List ZArith Bool.
From Inferno Require Import Base.Num Base.NumF C10.Updater.
Import ListNotations.

Definition ser_err (e : err) : tree :=
  match e with ERuntime => L 1 | EType => L 4 | EAttr => L 5 | EKey => L 6 end%Z.
Definition ser_tensor (t : tensor FN) : tree := ser_list ser_float t.
Definition ser_out (o : out FN) : tree :=
  match o with
  | OUnit _ => Nd [L 0]
  | OT _ None => Nd [L 1]
  | OT _ (Some t) => Nd [L 2; ser_tensor t]
  end%Z.
Definition ser_cache (c : option (option (tensor FN))) : tree :=
  match c with None => L 0 | Some _ => L 1 end%Z.
Definition ser_acc (na : Z * acc FN) : tree :=
  let a := snd na in
  Nd [L (fst na); ser_list ser_tensor (apos FN a); ser_list ser_tensor (aneg FN a);
      ser_cache (cpos FN a); ser_cache (cneg FN a)].
Definition ser_world (w : world FN) : tree :=
  Nd [ser_list (fun p => Nd [L (fst p); ser_tensor (snd p)]) (params FN w);
      ser_option (ser_list ser_acc) (upd FN w)].

(* Compact per-operation record (printing large trees dominates the cost of the check):
   [[0; output] | [1; error code]; parameters (only after the operations that can assign them, else []);
    per accumulator (name, number of pending pos parts, of neg parts, cache flags)].
   The complete final state (all pending parts) is serialised once at the end. *)
Definition assigns_params (o : op FN) : bool :=
  match o with
  | OpUpdate _ _ | OpUpdateSome _ _ _ | OpApply _ _ | OpSetParam _ _ _ | OpTrainerUpdate _ _ => true
  | _ => false
  end.
Definition ser_params (w : world FN) : tree :=
  ser_list (fun p => Nd [L (fst p); ser_tensor (snd p)]) (params FN w).
Definition ser_acc_small (na : Z * acc FN) : tree :=
  let a := snd na in
  Nd [L (fst na); ser_nat (length (apos FN a)); ser_nat (length (aneg FN a));
      ser_cache (cpos FN a); ser_cache (cneg FN a)].
Fixpoint trace (w : world FN) (ops : list (op FN)) : list tree * world FN :=
  match ops with
  | [] => ([], w)
  | o :: tl =>
      let (w', r) := step FN w o in
      let (t, wf) := trace w' tl in
      (Nd [match r with Ok v => Nd [L 0%Z; ser_out v] | Err e => Nd [L 1%Z; ser_err e] end;
           if assigns_params o then ser_params w' else Nd [];
           ser_option (ser_list ser_acc_small) (upd FN w')] :: t, wf)
  end.
Definition run_case (ps : list (Z * tensor FN)) (ops : list (op FN)) : tree :=
  let (t, wf) := trace (mkWorld FN ps None) ops in Nd [Nd t; ser_world wf].

(* short names used by the generated case files *)
Definition rsum := red_sum FN.
Definition rmean := red_mean FN.
Definition ramax := red_amax FN.
Definition ramin := red_amin FN.
Definition rfirst := red_first FN.
Definition rl2 := red_l2 FN.
