(* C10, part E: Updatable.update() as a whole - the value every managed parameter gets, the frame,
   the no-op laws, the reduction installed at construction, and independence of the order in which
   (several) trainers contributed their parts. *)
From Coq Require Import List ZArith Bool Arith Reals Lra Lia Permutation.
From Inferno Require Import Base.Num Base.NumR Gen.Bounding C10.Updater C10.KernelAlgebra C10.AccProofs C10.OrderProofs
  C10.WorldProofs.
Import ListNotations.
Open Scope R_scope.

(* ------------------------------------------------------------------ Updater.forward over a list of names *)
(* parameter nm is managed, exists on the module, and its accumulator is in a state in which
   Accumulator.forward cannot raise *)
Definition ready (ps : list (Z * tensorW)) (us : list (Z * accR)) (nm : Z) : Prop :=
  exists a x, lookup nm us = Some a /\ lookup nm ps = Some x /\ coh a /\ wshape a (length x) /\ bind_ok (abind RN a).

Lemma apply_names_keys nms : forall ps us,
  let '(ps', us', _) := apply_names RN ps us nms in map fst ps' = map fst ps /\ map fst us' = map fst us.
Proof.
  induction nms as [|k tl IH]; intros ps us; cbn [apply_names]; [auto|].
  destruct (lookup k us) as [a|]; [|auto]. destruct (lookup k ps) as [x|]; [|auto].
  destruct (acc_forward RN a x) as [a' [y|e]].
  - specialize (IH (replace k y ps) (replace k a' us)).
    destruct (apply_names RN (replace k y ps) (replace k a' us) tl) as [[ps' us'] e].
    rewrite !replace_keys in IH. exact IH.
  - rewrite replace_keys. auto.
Qed.

Lemma apply_names_spec nms : forall ps us,
  NoDup nms -> (forall nm, In nm nms -> ready ps us nm) ->
  exists ps' us',
    apply_names RN ps us nms = (ps', us', None) /\
    (forall nm, ~ In nm nms -> lookup nm ps' = lookup nm ps /\ lookup nm us' = lookup nm us) /\
    (forall nm a x, In nm nms -> lookup nm us = Some a -> lookup nm ps = Some x ->
       exists a' y, lookup nm us' = Some a' /\ lookup nm ps' = Some y /\ acc_forward RN a x = (a', Ok y)).
Proof.
  induction nms as [|k tl IH]; intros ps us Hnd Hr.
  - exists ps, us. split; [reflexivity|]. split; [auto|]. intros nm a x [].
  - inversion Hnd as [|? ? Hk Htl]; subst.
    destruct (Hr k (or_introl eq_refl)) as (a & x & Ea & Ex & Hc & Hw & Hb).
    destruct (apply_spec a x Hc Hw Hb) as (a' & y & Eg & Hc' & S & Ly & _).
    destruct (IH (replace k y ps) (replace k a' us) Htl) as (ps' & us' & E & Hout & Hin).
    { intros nm Hnm. assert (Hne : nm <> k) by (intros ->; contradiction).
      destruct (Hr nm (or_intror Hnm)) as (b & z & Eb & Ez & Hcb & Hwb & Hbb).
      exists b, z. rewrite !lookup_replace_other by exact Hne. auto. }
    exists ps', us'. split; [cbn [apply_names]; rewrite Ea, Ex, Eg; exact E|]. split.
    + intros nm Hnm. assert (Hne : nm <> k) by (intros ->; apply Hnm; left; reflexivity).
      destruct (Hout nm) as [O1 O2]; [intros Hn; apply Hnm; right; exact Hn|].
      rewrite O1, O2, !lookup_replace_other by exact Hne. auto.
    + intros nm b z [<-|Hnm] Eb Ez.
      * rewrite Ea in Eb. rewrite Ex in Ez. injection Eb as <-. injection Ez as <-.
        destruct (Hout k Hk) as [O1 O2]. exists a', y.
        rewrite O1, O2, !lookup_replace_same, Ea, Ex. auto.
      * assert (Hne : nm <> k) by (intros ->; contradiction).
        apply (Hin nm b z Hnm); rewrite lookup_replace_other by exact Hne; assumption.
Qed.

(* value of one element of a managed parameter after the update: the sentence of the property *)
Definition applied (a : accR) (x : tensorW) (j : nat) : R :=
  match apos RN a, aneg RN a with
  | [], [] => nth j x 0
  | _, _ => nth j x 0 + bind_upper (abind RN a) (nth j x 0) (rcol (ared RN a) (apos RN a) j)
                      - bind_lower (abind RN a) (nth j x 0) (rcol (ared RN a) (aneg RN a) j)
  end.

(* MAIN (module level): module.update(clear=...) sets every managed parameter to
   old + bound_upper(reduce(pos)) - bound_lower(reduce(neg)) element by element, leaves every other
   parameter alone, and (by default) empties every accumulator *)
Theorem update_spec (w : worldR) us clear :
  upd RN w = Some us -> NoDup (map fst us) ->
  (forall nm, In nm (map fst us) -> ready (params RN w) us nm) ->
  exists ps' us',
    step RN w (OpUpdate RN clear) =
      (mkWorld RN ps' (Some (if clear then clear_all RN us' else us')), Ok (OUnit RN)) /\
    map fst ps' = map fst (params RN w) /\ map fst us' = map fst us /\
    (forall nm, ~ In nm (map fst us) -> lookup nm ps' = lookup nm (params RN w)) /\
    (forall nm a x, lookup nm us = Some a -> lookup nm (params RN w) = Some x ->
       exists y, lookup nm ps' = Some y /\ length y = length x /\
                 forall j, (j < length x)%nat -> nth j y 0 = applied a x j).
Proof.
  intros Eu Hnd Hr.
  destruct (apply_names_spec (map fst us) (params RN w) us Hnd Hr) as (ps' & us' & E & Hout & Hin).
  pose proof (apply_names_keys (map fst us) (params RN w) us) as K. rewrite E in K. destruct K as [K1 K2].
  exists ps', us'. split; [|split; [exact K1|split; [exact K2|split]]].
  - cbn [step]. rewrite Eu. unfold updater_forward. rewrite E. reflexivity.
  - intros nm Hnm. apply Hout, Hnm.
  - intros nm a x Ea Ex.
    assert (Hnm : In nm (map fst us)) by (apply lookup_in_keys; congruence).
    destruct (Hin nm a x Hnm Ea Ex) as (a' & y & _ & Ey & Eg).
    destruct (Hr nm Hnm) as (a0 & x0 & Ea0 & Ex0 & Hc & Hw & Hb).
    rewrite Ea in Ea0. rewrite Ex in Ex0. injection Ea0 as <-. injection Ex0 as <-.
    destruct (apply_spec a x Hc Hw Hb) as (a2 & y2 & Eg2 & _ & _ & Ly & Hy).
    rewrite Eg in Eg2. injection Eg2 as <- <-.
    exists y. split; [exact Ey|]. split; [exact Ly|]. exact Hy.
Qed.

(* ------------------------------------------------------------------ nothing accumulated / after clear *)
Definition quiet (us : list (Z * accR)) : Prop :=
  forall nm a, lookup nm us = Some a -> apos RN a = [] /\ aneg RN a = [] /\ coh a.
Definition resolvable (ps : list (Z * tensorW)) (us : list (Z * accR)) (nms : list Z) : Prop :=
  forall nm, In nm nms -> lookup nm us <> None /\ lookup nm ps <> None.

Lemma acc_clear_cfg a a' : same_cfg a a' -> acc_clear RN a' = acc_clear RN a.
Proof. intros (P & Nn & Rr & B). unfold acc_clear, del_neg, del_pos, set_neg_parts, set_pos_parts. cbn. congruence. Qed.
Lemma clear_all_replace k a a' us :
  lookup k us = Some a -> acc_clear RN a' = acc_clear RN a -> clear_all RN (replace k a' us) = clear_all RN us.
Proof.
  intros Ek Hc. induction us as [|[k' b] t IH]; cbn in *; [reflexivity|].
  destruct (Z.eqb k k') eqn:E; cbn.
  - injection Ek as ->. rewrite Hc. reflexivity.
  - f_equal. apply IH, Ek.
Qed.

Lemma apply_names_quiet nms : forall ps us,
  quiet us -> resolvable ps us nms ->
  exists us', apply_names RN ps us nms = (ps, us', None) /\ clear_all RN us' = clear_all RN us /\ quiet us'.
Proof.
  induction nms as [|k tl IH]; intros ps us Hq Hr.
  - exists us. auto.
  - destruct (Hr k (or_introl eq_refl)) as [Hu Hp].
    destruct (lookup k us) as [a|] eqn:Ea; [|congruence]. destruct (lookup k ps) as [x|] eqn:Ex; [|congruence].
    destruct (Hq k a Ea) as (Ep & En & Hc).
    destruct (empty_noop a x Hc Ep En) as (a' & Eg & Hc' & S).
    assert (Hq1 : quiet (replace k a' us)).
    { intros nm b Eb. destruct (Z.eq_dec nm k) as [->|Hne].
      - rewrite lookup_replace_same, Ea in Eb. injection Eb as <-.
        destruct S as (P & Nn & _). rewrite P, Nn. auto.
      - rewrite lookup_replace_other in Eb by exact Hne. apply (Hq nm b Eb). }
    destruct (IH ps (replace k a' us) Hq1) as (us' & E & Hcl & Hq').
    { intros nm Hnm. destruct (Hr nm (or_intror Hnm)) as [H1 H2]. split; [|exact H2].
      destruct (Z.eq_dec nm k) as [->|Hne]; [rewrite lookup_replace_same, Ea; congruence|].
      rewrite lookup_replace_other by exact Hne. exact H1. }
    exists us'. split; [|split; [|exact Hq']].
    + cbn [apply_names]. rewrite Ea, Ex, Eg. rewrite (replace_same k x ps Ex). exact E.
    + rewrite Hcl. apply (clear_all_replace k a a' us Ea), acc_clear_cfg, S.
Qed.

(* module.update() with nothing accumulated anywhere leaves every parameter untouched *)
Theorem empty_noop_world (w : worldR) us clear :
  upd RN w = Some us -> quiet us -> resolvable (params RN w) us (map fst us) ->
  exists us', step RN w (OpUpdate RN clear) = (mkWorld RN (params RN w) (Some us'), Ok (OUnit RN)) /\
              clear_all RN us' = clear_all RN us.
Proof.
  intros Eu Hq Hr. destruct (apply_names_quiet (map fst us) (params RN w) us Hq Hr) as (us' & E & Hcl & Hq').
  cbn [step]. rewrite Eu. unfold updater_forward. rewrite E. destruct clear.
  - exists (clear_all RN us'). split; [reflexivity|]. rewrite Hcl. unfold clear_all. rewrite map_map. cbn.
    apply map_ext. intros [k a]. reflexivity.
  - exists us'. auto.
Qed.

Lemma quiet_clear_all us : quiet (clear_all RN us).
Proof.
  intros nm a Ea. unfold clear_all in Ea. rewrite lookup_map_snd in Ea.
  destruct (lookup nm us) as [b|]; [|discriminate]. injection Ea as <-. repeat split; cbn; auto.
Qed.
Lemma clear_all_keys us : map fst (clear_all RN us) = map fst us.
Proof. unfold clear_all. rewrite map_map. apply map_ext. intros [k a]. reflexivity. Qed.
Lemma clear_all_idem us : clear_all RN (clear_all RN us) = clear_all RN us.
Proof. unfold clear_all. rewrite map_map. apply map_ext. intros [k a]. reflexivity. Qed.

Lemma apply_names_success nms : forall ps us ps' us',
  apply_names RN ps us nms = (ps', us', None) ->
  forall nm, In nm nms -> lookup nm us <> None /\ lookup nm ps <> None.
Proof.
  induction nms as [|k tl IH]; intros ps us ps' us' E nm Hnm; [destruct Hnm|].
  cbn [apply_names] in E.
  destruct (lookup k us) as [a|] eqn:Ea; [|discriminate]. destruct (lookup k ps) as [x|] eqn:Ex; [|discriminate].
  destruct (acc_forward RN a x) as [a' [y|e]]; [|discriminate].
  destruct Hnm as [<-|Hnm]; [split; congruence|].
  destruct (IH _ _ _ _ E nm Hnm) as [H1 H2].
  split.
  - apply lookup_in_keys. apply lookup_in_keys in H1. rewrite replace_keys in H1. exact H1.
  - apply lookup_in_keys. apply lookup_in_keys in H2. rewrite replace_keys in H2. exact H2.
Qed.

(* after the default clear a second application changes nothing - for EVERY state of the module
   (no coherence or shape hypothesis: whatever the first update did, the second one is the identity) *)
Theorem clear_then_apply_noop_world (w w1 : worldR) :
  step RN w (OpUpdate RN true) = (w1, Ok (OUnit RN)) -> step RN w1 (OpUpdate RN true) = (w1, Ok (OUnit RN)).
Proof.
  cbn [step]. destruct (upd RN w) as [us|] eqn:Eu.
  2:{ intros E. injection E as <-. rewrite Eu. reflexivity. }
  unfold updater_forward.
  destruct (apply_names RN (params RN w) us (map fst us)) as [[ps' us'] [e|]] eqn:E; [discriminate|].
  intros E1. injection E1 as <-. cbn [upd params].
  pose proof (apply_names_keys (map fst us) (params RN w) us) as K. rewrite E in K. destruct K as [K1 K2].
  assert (Hr : resolvable ps' (clear_all RN us') (map fst (clear_all RN us'))).
  { intros nm Hnm. rewrite clear_all_keys, K2 in Hnm.
    destruct (apply_names_success _ _ _ _ _ E nm Hnm) as [H1 H2].
    apply lookup_in_keys in H1. apply lookup_in_keys in H2. split; apply lookup_in_keys.
    - rewrite clear_all_keys, K2. exact H1.
    - rewrite K1. exact H2. }
  destruct (apply_names_quiet _ ps' _ (quiet_clear_all us') Hr) as (us2 & E2 & Hcl & _).
  rewrite E2, Hcl, clear_all_idem. reflexivity.
Qed.

(* ------------------------------------------------------------------ the reduction given at construction *)
Theorem custom_reduction_used (w w' : worldR) nms g :
  step RN w (OpNewUpdater RN nms (Some g)) = (w', Ok (OUnit RN)) ->
  params RN w' = params RN w /\
  exists us, upd RN w' = Some us /\ map fst us = nms /\
    forall nm a, lookup nm us = Some a ->
      ared RN a = g /\ abind RN a = BDefault RN /\ apos RN a = [] /\ aneg RN a = [] /\ coh a.
Proof.
  cbn [step]. destruct (forallb _ nms); [|discriminate]. intros E. injection E as <-. cbn [params upd].
  split; [reflexivity|]. eexists. split; [reflexivity|]. split.
  - rewrite map_map. cbn. apply map_id.
  - intros nm a Ea. induction nms as [|n t IH]; cbn in Ea; [discriminate|].
    destruct (Z.eqb nm n); [injection Ea as <-; cbn; repeat split; auto|apply IH, Ea].
Qed.
Theorem default_reduction_is_sum (w w' : worldR) nms :
  step RN w (OpNewUpdater RN nms None) = (w', Ok (OUnit RN)) ->
  exists us, upd RN w' = Some us /\ forall nm a, lookup nm us = Some a -> ared RN a = red_sum RN.
Proof.
  cbn [step]. destruct (forallb _ nms); [|discriminate]. intros E. injection E as <-. cbn [params upd].
  eexists. split; [reflexivity|].
  intros nm a Ea. induction nms as [|n t IH]; cbn in Ea; [discriminate|].
  destruct (Z.eqb nm n); [injection Ea as <-; reflexivity|apply IH, Ea].
Qed.


(* ------------------------------------------------------------------ frame: updater(names) / updatesome(names) *)
(* whatever happens (success or an exception half way), a parameter that is not named keeps its value and its
   accumulator keeps its pending parts and caches *)
Lemma apply_names_frame nms : forall ps us nm,
  ~ In nm nms ->
  let '(ps', us', _) := apply_names RN ps us nms in lookup nm ps' = lookup nm ps /\ lookup nm us' = lookup nm us.
Proof.
  induction nms as [|k tl IH]; intros ps us nm Hn; cbn [apply_names]; [auto|].
  assert (Hne : nm <> k) by (intros ->; apply Hn; left; reflexivity).
  assert (Htl : ~ In nm tl) by (intros H; apply Hn; right; exact H).
  destruct (lookup k us) as [a|]; [|auto]. destruct (lookup k ps) as [x|]; [|auto].
  destruct (acc_forward RN a x) as [a' [y|e]].
  - specialize (IH (replace k y ps) (replace k a' us) nm Htl).
    destruct (apply_names RN (replace k y ps) (replace k a' us) tl) as [[ps' us'] e].
    rewrite !lookup_replace_other in IH by exact Hne. exact IH.
  - rewrite lookup_replace_other by exact Hne. auto.
Qed.
Lemma update_some_frame nms clear : forall ps us nm,
  ~ In nm nms ->
  let '(ps', us', _) := update_some RN ps us nms clear in lookup nm ps' = lookup nm ps /\ lookup nm us' = lookup nm us.
Proof.
  induction nms as [|k tl IH]; intros ps us nm Hn; cbn [update_some]; [auto|].
  assert (Hne : nm <> k) by (intros ->; apply Hn; left; reflexivity).
  assert (Htl : ~ In nm tl) by (intros H; apply Hn; right; exact H).
  pose proof (apply_names_frame [k] ps us nm) as H1.
  destruct (apply_names RN ps us [k]) as [[ps1 us1] [e|]].
  - apply H1. intros [E|[]]. congruence.
  - destruct H1 as [P1 U1]; [intros [E|[]]; congruence|].
    set (us2 := if clear then match lookup k us1 with Some a => replace k (acc_clear RN a) us1 | None => us1 end else us1).
    assert (U2 : lookup nm us2 = lookup nm us1).
    { unfold us2. destruct clear; [|reflexivity]. destruct (lookup k us1); [|reflexivity].
      apply lookup_replace_other, Hne. }
    specialize (IH ps1 us2 nm Htl). destruct (update_some RN ps1 us2 tl clear) as [[ps' us'] e].
    destruct IH as [P3 U3]. split; congruence.
Qed.
Theorem updatesome_frame (w : worldR) nms clear nm us :
  upd RN w = Some us -> ~ In nm nms ->
  let w' := fst (step RN w (OpUpdateSome RN nms clear)) in
  lookup nm (params RN w') = lookup nm (params RN w) /\
  exists us', upd RN w' = Some us' /\ lookup nm us' = lookup nm us.
Proof.
  intros Eu Hn. cbn [step]. rewrite Eu.
  pose proof (update_some_frame nms clear (params RN w) us nm Hn) as H.
  destruct (update_some RN (params RN w) us nms clear) as [[ps' us'] [e|]]; cbn; destruct H as [P U];
    (split; [exact P|exists us'; auto]).
Qed.

(* ------------------------------------------------------------------ the trainer-level route: CellTrainer.update() *)
(* Updater.forward() with no names = module.update(clear=False) *)
Lemma apply_all_is_update_noclear (w : worldR) us :
  upd RN w = Some us -> step RN w (OpApply RN []) = step RN w (OpUpdate RN false).
Proof.
  intros Eu. cbn [step]. rewrite Eu. unfold finish.
  destruct (updater_forward RN (params RN w) us []) as [[ps us'] [e|]]; reflexivity.
Qed.
(* "The updaters will each be called once, even if present in multiple cells": with at least one registered cell
   on this module, trainer.update() is exactly ONE module.update(clear=False), whatever the number of cells that
   share the module's updater and whatever other cells the trainer holds *)
Theorem trainer_update_once (w : worldR) us cells :
  In 0%Z cells -> upd RN w = Some us ->
  step RN w (OpTrainerUpdate RN cells) = step RN w (OpUpdate RN false).
Proof.
  intros Hin Eu. rewrite <- (apply_all_is_update_noclear w us Eu). cbn [step]. rewrite Eu.
  assert (E : existsb (Z.eqb 0) cells = true) by (apply existsb_exists; exists 0%Z; split; [exact Hin|reflexivity]).
  rewrite E. reflexivity.
Qed.
(* cells without an updater (None) and cells of other modules leave this module alone *)
Theorem trainer_update_skips (w : worldR) cells :
  ~ In 0%Z cells \/ upd RN w = None -> step RN w (OpTrainerUpdate RN cells) = (w, Ok (OUnit RN)).
Proof.
  intros H. cbn [step]. destruct (existsb (Z.eqb 0) cells) eqn:E; [|reflexivity].
  destruct H as [H|H]; [|rewrite H; reflexivity].
  exfalso. apply H. apply existsb_exists in E. destruct E as (z & Hz & Ez). apply Z.eqb_eq in Ez. subst z. exact Hz.
Qed.
(* hence the value: every managed parameter moves by exactly one application (update_spec with clear = false) *)
Corollary trainer_update_spec (w : worldR) us cells :
  In 0%Z cells -> upd RN w = Some us -> NoDup (map fst us) ->
  (forall nm, In nm (map fst us) -> ready (params RN w) us nm) ->
  exists ps' us',
    step RN w (OpTrainerUpdate RN cells) = (mkWorld RN ps' (Some us'), Ok (OUnit RN)) /\
    (forall nm, ~ In nm (map fst us) -> lookup nm ps' = lookup nm (params RN w)) /\
    (forall nm a x, lookup nm us = Some a -> lookup nm (params RN w) = Some x ->
       exists y, lookup nm ps' = Some y /\ length y = length x /\
                 forall j, (j < length x)%nat -> nth j y 0 = applied a x j).
Proof.
  intros Hin Eu Hnd Hr. rewrite (trainer_update_once w us cells Hin Eu).
  destruct (update_spec w us false Eu Hnd Hr) as (ps' & us' & E & _ & _ & Hout & Hv).
  exists ps', us'. auto.
Qed.
