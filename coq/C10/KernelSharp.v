(* C10, part A3: sharp dependence (Heaviside gate) - about the GENERATED kernels, over the reals. *)
From Coq Require Import List ZArith Bool Reals Lra Lia.
From Inferno Require Import Base.Num Base.NumR Gen.Bounding C10.Updater C10.KernelAlgebra.
Import ListNotations.
Open Scope R_scope.

(* ------------------------------------------------------------------ sharp dependence *)
Lemma heaviside_closed d : d <= 0 -> heaviside RN d 0 = 0.
Proof. intros H. rn_unfold. rcases; try reflexivity; lra. Qed.
Lemma heaviside_open d : 0 < d -> heaviside RN d 0 = 1.
Proof. intros H. rn_unfold. rcases; try reflexivity; lra. Qed.
Lemma heaviside_01 d : heaviside RN d 0 = 0 \/ heaviside RN d 0 = 1.
Proof. rn_unfold. rcases; auto. Qed.

(* the gate is closed AT the limit and beyond it *)
Theorem sharp_gate_closed x u lim :
  (lim <= x -> bound_upper_sharp RN x u lim = 0) /\ (x <= lim -> bound_lower_sharp RN x u lim = 0).
Proof.
  split; intros H; unfold bound_upper_sharp, bound_lower_sharp; cbv zeta;
    change (sub RN ?a ?b) with (a - b); change (mul RN ?a ?b) with (a * b); change (zero RN) with 0;
    (rewrite heaviside_closed by lra); rn_simpl; ring.
Qed.
Theorem sharp_gate_open x u lim :
  (x < lim -> bound_upper_sharp RN x u lim = u) /\ (lim < x -> bound_lower_sharp RN x u lim = u).
Proof.
  split; intros H; unfold bound_upper_sharp, bound_lower_sharp; cbv zeta;
    change (sub RN ?a ?b) with (a - b); change (mul RN ?a ?b) with (a * b); change (zero RN) with 0;
    (rewrite heaviside_open by lra); rn_simpl; ring.
Qed.

(* sharp dependence never moves a parameter further beyond a limit it has reached *)
Theorem sharp_never_further x p n mx mn :
  0 <= p -> 0 <= n ->
  (forall m, mx = Some m -> m <= x -> x + bound_sharp RN x p n mx mn <= x) /\
  (forall m, mn = Some m -> x <= m -> x <= x + bound_sharp RN x p n mx mn).
Proof.
  intros Hp Hn. split; intros m -> Hm; unfold bound_sharp; cbv zeta; change (sub RN ?a ?b) with (a - b).
  - rewrite (proj1 (sharp_gate_closed x p m) Hm).
    destruct mn as [b|]; [|lra].
    unfold bound_lower_sharp; cbv zeta; change (sub RN ?a ?b) with (a - b); change (mul RN ?a ?b) with (a * b);
      change (zero RN) with 0.
    destruct (heaviside_01 (x - b)) as [-> | ->]; lra.
  - rewrite (proj2 (sharp_gate_closed x n m) Hm).
    destruct mx as [a|]; [|lra].
    unfold bound_upper_sharp; cbv zeta; change (sub RN ?a ?b) with (a - b); change (mul RN ?a ?b) with (a * b);
      change (zero RN) with 0.
    destruct (heaviside_01 (a - x)) as [-> | ->]; lra.
Qed.

(* strictly inside the limits sharp dependence does nothing; in particular it is no clamp:
   a parameter inside the range can be carried outside in one step *)
Theorem sharp_inside_unbounded x p n mx mn :
  mn < x < mx -> bound_sharp RN x p n (Some mx) (Some mn) = p - n.
Proof.
  intros H. unfold bound_sharp; cbv zeta; change (sub RN ?a ?b) with (a - b).
  rewrite (proj1 (sharp_gate_open x p mx)), (proj2 (sharp_gate_open x n mn)) by lra. reflexivity.
Qed.
Theorem sharp_can_overshoot :
  exists x p n mx mn, mn <= x <= mx /\ 0 <= p <= 1 /\ 0 <= n <= 1 /\
    mx < x + bound_sharp RN x p n (Some mx) (Some mn).
Proof.
  exists (/2), 1, 0, 1, 0. rewrite sharp_inside_unbounded by lra. repeat split; lra.
Qed.

