(* C10, part A2: range preservation of (scaled) multiplicative and scaled power dependence - one step,
   about the GENERATED kernels, over the reals (real exponents >= 1 included). *)
From Coq Require Import List ZArith Bool Reals Lra Lia.
From Inferno Require Import Base.Num Base.NumR Gen.Bounding C10.Updater C10.KernelAlgebra.
Import ListNotations.
Open Scope R_scope.

(* ------------------------------------------------------------------ x ** y on [0, 1] *)
Lemma Rpow'_nonneg x y : 0 <= x -> 0 <= Rpow' x y.
Proof.
  intros Hx. unfold Rpow'. destruct (Req_EM_T x 0); [destruct (Req_EM_T y 0); lra|].
  unfold Rpower. left. apply exp_pos.
Qed.

Lemma Rpow'_le_base x y : 0 <= x <= 1 -> 1 <= y -> 0 <= Rpow' x y <= x.
Proof.
  intros [H0 H1] Hy. split; [apply Rpow'_nonneg; exact H0|].
  unfold Rpow'. destruct (Req_EM_T x 0) as [E|NE].
  - destruct (Req_EM_T y 0); lra.
  - assert (Hx : 0 < x) by lra.
    unfold Rpower.
    assert (Hln : Rpower.ln x <= 0).
    { destruct (Req_dec x 1) as [->|N1]; [rewrite ln_1; lra|].
      left. rewrite <- ln_1. apply ln_increasing; lra. }
    assert (Hle : y * Rpower.ln x <= Rpower.ln x) by nra.
    rewrite <- (exp_ln x Hx) at 2.
    destruct Hle as [Hlt|Heq]; [left; apply exp_increasing; exact Hlt|rewrite Heq; lra].
Qed.

Lemma Rpow'_one x : 0 <= x -> Rpow' x 1 = x.
Proof.
  intros Hx. unfold Rpow'. destruct (Req_EM_T x 0) as [->|NE].
  - destruct (Req_EM_T 1 0); lra.
  - apply Rpower_1. lra.
Qed.

Lemma unit_scale a q : 0 <= a -> 0 <= q <= 1 -> 0 <= a * q <= a.
Proof. intros. nra. Qed.

(* ------------------------------------------------------------------ range preservation (one step) *)
Theorem multiplicative_step_in_range x p n mx mn :
  mn <= x <= mx -> 0 <= p <= 1 -> 0 <= n <= 1 ->
  mn <= x + bound_multiplicative RN x p n (Some mx) (Some mn) <= mx.
Proof. intros Hx Hp Hn. kunfold. nra. Qed.

Theorem scaled_multiplicative_step_in_range x p n mx mn :
  mn < mx -> mn <= x <= mx -> 0 <= p <= mx - mn -> 0 <= n <= mx - mn ->
  mn <= x + bound_scaled_multiplicative RN x p n mx mn <= mx.
Proof.
  intros Hr Hx Hp Hn. kunfold.
  set (r := mx - mn) in *. assert (Hr0 : 0 < r) by (unfold r; lra).
  replace ((mx - x) / r * p) with ((mx - x) * (p / r)) by (field; lra).
  replace ((x - mn) / r * n) with ((x - mn) * (n / r)) by (field; lra).
  assert (Hp' : 0 <= p / r <= 1).
  { split; [apply Rmult_le_pos; [lra|left; apply Rinv_0_lt_compat; lra]|].
    apply Rmult_le_reg_r with r; [lra|]. unfold Rdiv. rewrite Rmult_assoc, Rinv_l by lra. lra. }
  assert (Hn' : 0 <= n / r <= 1).
  { split; [apply Rmult_le_pos; [lra|left; apply Rinv_0_lt_compat; lra]|].
    apply Rmult_le_reg_r with r; [lra|]. unfold Rdiv. rewrite Rmult_assoc, Rinv_l by lra. lra. }
  pose proof (unit_scale (mx - x) (p / r) ltac:(lra) Hp').
  pose proof (unit_scale (x - mn) (n / r) ltac:(lra) Hn').
  lra.
Qed.

(* scaled power dependence of every REAL order >= 1 (not only natural orders) *)
Theorem scaled_power_step_in_range x p n mx mn up lp :
  mn < mx -> mn <= x <= mx -> 1 <= up -> 1 <= lp -> 0 <= p <= mx - mn -> 0 <= n <= mx - mn ->
  mn <= x + bound_scaled_power RN x p n mx mn up lp <= mx.
Proof.
  intros Hr Hx Hup Hlp Hp Hn. kunfold.
  set (r := mx - mn) in *. assert (Hr0 : 0 < r) by (unfold r; lra).
  assert (Hbu : 0 <= (mx - x) / r <= 1).
  { split; [apply Rmult_le_pos; [lra|left; apply Rinv_0_lt_compat; lra]|].
    apply Rmult_le_reg_r with r; [lra|]. unfold Rdiv. rewrite Rmult_assoc, Rinv_l by lra. unfold r. lra. }
  assert (Hbl : 0 <= (x - mn) / r <= 1).
  { split; [apply Rmult_le_pos; [lra|left; apply Rinv_0_lt_compat; lra]|].
    apply Rmult_le_reg_r with r; [lra|]. unfold Rdiv. rewrite Rmult_assoc, Rinv_l by lra. unfold r. lra. }
  pose proof (Rpow'_le_base _ up Hbu Hup) as Hu.
  pose proof (Rpow'_le_base _ lp Hbl Hlp) as Hl.
  assert (Eu : (mx - x) / r * r = mx - x) by (field; lra).
  assert (El : (x - mn) / r * r = x - mn) by (field; lra).
  assert (0 <= Rpow' ((mx - x) / r) up * p <= mx - x) by nra.
  assert (0 <= Rpow' ((x - mn) / r) lp * n <= x - mn) by nra.
  lra.
Qed.

(* the same for the half kernels installed separately in the two slots *)
Theorem half_multiplicative_step_in_range x p n mx mn :
  mn <= x <= mx -> 0 <= p <= 1 -> 0 <= n <= 1 ->
  mn <= x + (bound_upper_multiplicative RN x p mx - bound_lower_multiplicative RN x n mn) <= mx.
Proof. intros. kunfold. nra. Qed.

(* the hypothesis "magnitude at most 1" cannot be dropped *)
Theorem multiplicative_needs_unit_magnitude :
  exists x p n mx mn, mn <= x <= mx /\ 0 <= p /\ 0 <= n <= 1 /\
    ~ (x + bound_multiplicative RN x p n (Some mx) (Some mn) <= mx).
Proof. exists 0, 2, 0, 1, 0. kunfold. repeat split; try lra. Qed.

(* ------------------------------------------------------------------ power of order 1 = multiplicative *)
Theorem power_one_is_multiplicative x u lim :
  (x <= lim -> bound_upper_power RN x u lim 1 = bound_upper_multiplicative RN x u lim) /\
  (lim <= x -> bound_lower_power RN x u lim 1 = bound_lower_multiplicative RN x u lim).
Proof. split; intros H; kunfold; rewrite Rpow'_one by lra; reflexivity. Qed.

