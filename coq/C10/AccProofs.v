(* C10, part B: the Accumulator model (C10/Updater.v) over the reals.
   apply_spec, cache coherence, permutation invariance, no-op laws. *)
From Coq Require Import List ZArith Bool Arith Reals Lra Lia Permutation.
From Inferno Require Import Base.Num Base.NumR Gen.Bounding C10.Updater C10.KernelAlgebra.
Import ListNotations.
Open Scope R_scope.

Notation tensorR := (list R).
Notation accR := (acc RN).

(* ------------------------------------------------------------------ list plumbing *)
Lemma map2_len {A B C} (f : A -> B -> C) a b : length a = length b -> length (map2 f a b) = length a.
Proof. intros H. unfold map2. rewrite map_length, combine_length, H. apply Nat.min_id. Qed.
Lemma map3_len {A B C D} (f : A -> B -> C -> D) a b c :
  length a = length b -> length b = length c -> length (map3 f a b c) = length a.
Proof. intros H1 H2. unfold map3. rewrite map_length, !combine_length, H1, H2, !Nat.min_id. reflexivity. Qed.
Lemma nth_map_default {A} (g : A -> R) (l : list A) (d : A) j :
  (j < length l)%nat -> nth j (map g l) 0 = g (nth j l d).
Proof.
  intros Hj. rewrite (nth_indep _ 0 (g d)) by (rewrite map_length; exact Hj). apply map_nth.
Qed.
Lemma nth_map2 (f : R -> R -> R) (a b : list R) j :
  length a = length b -> (j < length a)%nat -> nth j (map2 f a b) 0 = f (nth j a 0) (nth j b 0).
Proof.
  intros H Hj. unfold map2.
  rewrite (nth_map_default _ _ (0, 0)) by (rewrite combine_length, <- H, Nat.min_id; exact Hj).
  rewrite combine_nth by exact H. reflexivity.
Qed.
Lemma nth_map3 (f : R -> R -> R -> R) (a b c : list R) j :
  length a = length b -> length b = length c -> (j < length a)%nat ->
  nth j (map3 f a b c) 0 = f (nth j a 0) (nth j b 0) (nth j c 0).
Proof.
  intros H1 H2 Hj. unfold map3.
  rewrite (nth_map_default _ _ (0, (0, 0))) by (rewrite !combine_length, <- H2, <- H1, !Nat.min_id; exact Hj).
  rewrite combine_nth, combine_nth; [reflexivity|exact H2|].
  rewrite combine_length, <- H2, Nat.min_id. exact H1.
Qed.
Lemma nth_repeat0 (n j : nat) : nth j (repeat 0 n) 0 = 0.
Proof. revert j. induction n; intros [|j]; cbn; auto. Qed.
Lemma nth_map_opp (l : list R) j : nth j (map Ropp l) 0 = - nth j l 0.
Proof. rewrite <- (map_nth Ropp l 0 j). f_equal. lra. Qed.

Lemma map2e_ok (f : R -> R -> R) (a b : tensorR) :
  length a = length b -> map2e RN f a b = Ok (map2 f a b).
Proof. intros H. unfold map2e. change (T RN) with R. rewrite H, Nat.eqb_refl. reflexivity. Qed.
Lemma map3e_ok (f : R -> R -> R -> R) (a b c : tensorR) :
  length a = length b -> length b = length c -> map3e RN f a b c = Ok (map3 f a b c).
Proof. intros H1 H2. unfold map3e. change (T RN) with R. rewrite H1, H2, !Nat.eqb_refl. reflexivity. Qed.

(* ------------------------------------------------------------------ stack + reduce = reduce every column *)
(* the column of values the pending parts have at element position j (in contribution order) *)
Definition column (parts : list tensorR) (j : nat) : list R := map (fun p => nth j p 0) parts.
(* independent spec of `reduce(torch.stack(parts, 0), 0)` *)
Definition reduced (red : list R -> R) (parts : list tensorR) (len : nat) : tensorR :=
  map (fun j => red (column parts j)) (seq 0 len).

Lemma repeat_as_map {A} (x : A) n s : repeat x n = map (fun _ => x) (seq s n).
Proof. revert s. induction n; intros s; cbn; [reflexivity|]. f_equal. apply IHn. Qed.

Lemma map2_seq {A B} (f : R -> A -> B) (g : nat -> A) (p : list R) s :
  map2 f p (map g (seq s (length p))) = map (fun j => f (nth (j - s) p 0) (g j)) (seq s (length p)).
Proof.
  revert s. induction p as [|a p IH]; intros s; [reflexivity|].
  cbn [length seq map]. unfold map2 in *. cbn [combine map fst snd].
  rewrite Nat.sub_diag. cbn [nth]. f_equal.
  rewrite IH. apply map_ext_in. intros j Hj. apply in_seq in Hj.
  replace (j - s)%nat with (S (j - S s)) by lia. reflexivity.
Qed.

Lemma transpose_columns len (parts : list tensorR) :
  Forall (fun p => length p = len) parts -> transpose RN len parts = map (column parts) (seq 0 len).
Proof.
  induction 1 as [|p t Hp Ht IH]; cbn [transpose].
  - apply repeat_as_map.
  - rewrite IH. subst len. rewrite map2_seq. apply map_ext. intros j. rewrite Nat.sub_0_r. reflexivity.
Qed.

Lemma stack_ok_iff (p0 : tensorR) t :
  stack_ok RN (p0 :: t) = true <-> Forall (fun p => length p = length p0) (p0 :: t).
Proof.
  cbn [stack_ok]. rewrite forallb_forall, Forall_forall. split.
  - intros H q [<-|Hq]; [reflexivity|]. apply Nat.eqb_eq, H, Hq.
  - intros H q Hq. apply Nat.eqb_eq, H. right. exact Hq.
Qed.

Theorem calc_spec red (p0 : tensorR) t :
  Forall (fun p => length p = length p0) (p0 :: t) ->
  calc RN red (p0 :: t) = Ok (Some (reduced red (p0 :: t) (length p0))).
Proof.
  intros H. unfold calc. rewrite (proj2 (stack_ok_iff p0 t) H).
  rewrite transpose_columns by exact H. unfold reduced. rewrite map_map. reflexivity.
Qed.
Theorem calc_mismatch red (p0 : tensorR) t :
  ~ Forall (fun p => length p = length p0) (p0 :: t) -> calc RN red (p0 :: t) = Err ERuntime.
Proof.
  intros H. unfold calc. destruct (stack_ok RN (p0 :: t)) eqn:E; [|reflexivity].
  exfalso. apply H, stack_ok_iff, E.
Qed.
Lemma reduced_length red parts len : length (reduced red parts len) = len.
Proof. unfold reduced. rewrite map_length, seq_length. reflexivity. Qed.
Lemma nth_reduced red parts len j : (j < len)%nat -> nth j (reduced red parts len) 0 = red (column parts j).
Proof.
  intros Hj. unfold reduced.
  rewrite (nth_map_default _ _ 0%nat) by (rewrite seq_length; exact Hj).
  rewrite seq_nth by exact Hj. reflexivity.
Qed.

(* ------------------------------------------------------------------ cache coherence *)
Definition coh1 (red : list R -> R) (parts : list tensorR) (c : option (option tensorR)) : Prop :=
  match c with None => True | Some v => calc RN red parts = Ok v end.
Definition coh (a : accR) : Prop :=
  coh1 (ared RN a) (apos RN a) (cpos RN a) /\ coh1 (ared RN a) (aneg RN a) (cneg RN a).
(* same configuration and pending parts (only the cache cells may differ) *)
Definition same_cfg (a a' : accR) : Prop :=
  apos RN a' = apos RN a /\ aneg RN a' = aneg RN a /\ ared RN a' = ared RN a /\ abind RN a' = abind RN a.

Lemma same_cfg_refl a : same_cfg a a.
Proof. repeat split. Qed.
Lemma same_cfg_trans a b c : same_cfg a b -> same_cfg b c -> same_cfg a c.
Proof. intros (A1 & A2 & A3 & A4) (B1 & B2 & B3 & B4). repeat split; congruence. Qed.

Lemma get_pos_spec a :
  coh a -> exists a', get_pos RN a = (a', calc RN (ared RN a) (apos RN a)) /\ coh a' /\ same_cfg a a'.
Proof.
  intros [Hp Hn]. unfold get_pos. destruct (cpos RN a) as [v|] eqn:E.
  - cbn in Hp. exists a. rewrite Hp. repeat split; auto. red. rewrite E. exact Hp.
  - destruct (calc RN (ared RN a) (apos RN a)) as [v|e] eqn:C.
    + eexists. split; [reflexivity|]. split; [|repeat split]. split; cbn; auto.
    + exists a. repeat split; auto. red. rewrite E. exact I.
Qed.
Lemma get_neg_spec a :
  coh a -> exists a', get_neg RN a = (a', calc RN (ared RN a) (aneg RN a)) /\ coh a' /\ same_cfg a a'.
Proof.
  intros [Hp Hn]. unfold get_neg. destruct (cneg RN a) as [v|] eqn:E.
  - cbn in Hn. exists a. rewrite Hn. repeat split; auto. red. rewrite E. exact Hn.
  - destruct (calc RN (ared RN a) (aneg RN a)) as [v|e] eqn:C.
    + eexists. split; [reflexivity|]. split; [|repeat split]. split; cbn; auto.
    + exists a. repeat split; auto. red. rewrite E. exact I.
Qed.

(* value of acc.update(param) under coherent caches: the caches are invisible *)
Definition update_val (a : accR) (x : tensorR) : res (option tensorR) :=
  match calc RN (ared RN a) (apos RN a) with
  | Err e => Err e
  | Ok p =>
      match calc RN (ared RN a) (aneg RN a) with
      | Err e => Err e
      | Ok n => bind_apply RN (abind RN a) x p n
      end
  end.
Definition forward_val (a : accR) (x : tensorR) : res tensorR :=
  match update_val a x with
  | Err e => Err e
  | Ok None => Ok x
  | Ok (Some u) => map2e RN Rplus x u
  end.

Theorem acc_update_coherent a x :
  coh a -> exists a', acc_update RN a x = (a', update_val a x) /\ coh a' /\ same_cfg a a'.
Proof.
  intros H. unfold acc_update, update_val.
  destruct (get_pos_spec a H) as (a1 & E1 & H1 & S1). rewrite E1.
  destruct (calc RN (ared RN a) (apos RN a)) as [p|e]; [|exists a1; split; [reflexivity|split; assumption]].
  destruct (get_neg_spec a1 H1) as (a2 & E2 & H2 & S2). rewrite E2.
  destruct S1 as (P1 & N1 & R1 & B1). rewrite R1, N1.
  destruct (calc RN (ared RN a) (aneg RN a)) as [n|e].
  - exists a2. destruct S2 as (P2 & N2 & R2 & B2). rewrite B2, B1.
    split; [reflexivity|split; [exact H2|repeat split; congruence]].
  - exists a2. destruct S2 as (P2 & N2 & R2 & B2).
    split; [reflexivity|split; [exact H2|repeat split; congruence]].
Qed.
Theorem acc_forward_coherent a x :
  coh a -> exists a', acc_forward RN a x = (a', forward_val a x) /\ coh a' /\ same_cfg a a'.
Proof.
  intros H. unfold acc_forward, forward_val.
  destruct (acc_update_coherent a x H) as (a' & E & H' & S). rewrite E.
  exists a'. split; [reflexivity|split; assumption].
Qed.

(* every state-changing accumulator operation except `reduction` keeps the caches coherent *)
Lemma coh_add_pos a v : coh a -> coh (add_pos RN a v).
Proof. intros [Hp Hn]. destruct v; [split; cbn; auto|split; auto]. Qed.
Lemma coh_add_neg a v : coh a -> coh (add_neg RN a v).
Proof. intros [Hp Hn]. destruct v; [split; cbn; auto|split; auto]. Qed.
Lemma coh_del_pos a : coh a -> coh (del_pos RN a).
Proof. intros [Hp Hn]. split; cbn; auto. Qed.
Lemma coh_del_neg a : coh a -> coh (del_neg RN a).
Proof. intros [Hp Hn]. split; cbn; auto. Qed.
Lemma coh_clear a : coh (acc_clear RN a).
Proof. split; cbn; auto. Qed.
Lemma coh_set_bind a b : coh a -> coh (set_bind RN a b).
Proof. intros [Hp Hn]. split; cbn; auto. Qed.
Lemma coh_new : coh (acc_new RN).
Proof. split; cbn; auto. Qed.
Lemma coh_new_red f : coh (acc_reduction RN (acc_new RN) f).
Proof. destruct f; split; cbn; auto. Qed.
(* ... and `reduction` does when nothing is cached *)
Lemma coh_reduction_uncached a f :
  cpos RN a = None -> cneg RN a = None -> coh (acc_reduction RN a f).
Proof. intros Hp Hn. destruct f; split; cbn; rewrite ?Hp, ?Hn; exact I. Qed.

(* The cache is NOT invalidated by Accumulator.reduction: after a read, a change of reduction is ignored
   until the next append/delete (observed on the real class as well). *)
Theorem reduction_change_keeps_stale_cache :
  exists (a : accR),
    coh a /\
    let a1 := fst (get_pos RN a) in
    let a2 := acc_reduction RN a1 (Some (red_amax RN)) in
    snd (get_pos RN a2) = Ok (Some [3]) /\ calc RN (ared RN a2) (apos RN a2) = Ok (Some [2]) /\ ~ coh a2.
Proof.
  exists (mkAcc RN [[1]; [2]] [] None None (red_sum RN) (BDefault RN)).
  split; [split; cbn; auto|].
  cbn -[Rplus]. unfold red_sum, red_amax, tsum, tmax. rn_simpl. cbn [fold_left].
  replace (1 + (2 + 0)) with 3 by ring.
  assert (E : (if Rltb' 1 2 then 2 else 1) = 2) by (destruct (Rltb'_spec 1 2); lra).
  repeat split.
  - rewrite E. reflexivity.
  - intros [Hc _]. cbn in Hc. rewrite E in Hc. injection Hc. lra.
Qed.

(* ------------------------------------------------------------------ apply_spec *)
(* bound_upper / bound_lower of the property statement for each form of `bind` *)
Definition slot_fn (b : halfb RN) (x u : R) : R :=
  match b with HB _ k (Some lim) => half_apply RN k lim x u | _ => u end.
Definition bind_upper (b : bindT RN) (x p : R) : R :=
  match b with
  | BDefault _ => p
  | BFull _ k mx mn => full_upper k mx mn x p
  | BHalf _ u _ => slot_fn u x p
  end.
Definition bind_lower (b : bindT RN) (x n : R) : R :=
  match b with
  | BDefault _ => n
  | BFull _ k mx mn => full_lower k mx mn x n
  | BHalf _ _ l => slot_fn l x n
  end.
Definition slot_ok (b : halfb RN) : Prop := match b with HB _ _ None => False | _ => True end.
(* the configurations in which the bounding function does not raise TypeError *)
Definition bind_ok (b : bindT RN) : Prop :=
  match b with
  | BDefault _ => True
  | BFull _ k mx mn => full_typeerr RN k mx mn = false
  | BHalf _ u l => slot_ok u /\ slot_ok l
  end.

Lemma slot_fn_zero b x : slot_fn b x 0 = 0.
Proof. destruct b as [|k [lim|]]; cbn; auto. apply half_apply_zero. Qed.
Lemma bind_upper_zero b x : bind_upper b x 0 = 0.
Proof. destruct b; cbn; auto using full_upper_zero, slot_fn_zero. Qed.
Lemma bind_lower_zero b x : bind_lower b x 0 = 0.
Proof. destruct b; cbn; auto using full_lower_zero, slot_fn_zero. Qed.

Lemma half_t_ok b (x u : tensorR) :
  slot_ok b -> length x = length u -> half_t RN b x u = Ok (map2 (slot_fn b) x u).
Proof.
  intros Hb Hl. destruct b as [|k [lim|]]; cbn in *; [|apply map2e_ok; exact Hl|contradiction].
  f_equal. apply nth_ext with (d := 0) (d' := 0); [rewrite map2_len; auto|].
  intros j Hj. rewrite nth_map2 by (auto; rewrite Hl; exact Hj). reflexivity.
Qed.

Definition delta_fn (b : bindT RN) (x p n : R) : R := bind_upper b x p - bind_lower b x n.

Lemma full_t_ok b (x p n : tensorR) :
  match b with BHalf _ _ _ => False | _ => True end -> bind_ok b ->
  length p = length x -> length n = length x ->
  full_t RN b x p n = Ok (map3 (delta_fn b) x p n).
Proof.
  intros Hnh Hb Hp Hn.
  assert (Hsub : map2e RN (sub RN) p n = Ok (map2 Rminus p n)) by (apply map2e_ok; congruence).
  assert (Hplain : forall f, (forall a b c, f a b c = b - c) -> map2 Rminus p n = map3 f x p n).
  { intros f Hf. apply nth_ext with (d := 0) (d' := 0).
    - rewrite map2_len, map3_len; congruence.
    - intros j Hj. rewrite map2_len in Hj by congruence.
      rewrite nth_map2, nth_map3, Hf; auto; congruence. }
  destruct b as [|k mx mn|]; [| |contradiction]; cbn [full_t].
  - rewrite Hsub. f_equal. apply Hplain. reflexivity.
  - cbn in Hb. rewrite Hb.
    assert (Hfull : map3e RN (full_val RN k mx mn) x p n = Ok (map3 (delta_fn (BFull RN k mx mn)) x p n)).
    { rewrite map3e_ok by congruence. f_equal. apply nth_ext with (d := 0) (d' := 0).
      - rewrite !map3_len; congruence.
      - intros j Hj. rewrite map3_len in Hj by congruence.
        rewrite !nth_map3 by congruence. apply full_val_decomp, Hb. }
    destruct mx, mn; try exact Hfull.
    rewrite Hsub. f_equal. apply Hplain. intros. reflexivity.
Qed.

(* the three non-empty presence cases of Accumulator.update, against ONE formula:
   a missing side behaves as a zero tensor *)
Theorem bind_apply_both b (x p n : tensorR) :
  bind_ok b -> length p = length x -> length n = length x ->
  bind_apply RN b x (Some p) (Some n) = Ok (Some (map3 (delta_fn b) x p n)).
Proof.
  intros Hb Hp Hn. destruct b as [|k mx mn|u l].
  - cbn [bind_apply]. rewrite full_t_ok; auto.
  - cbn [bind_apply]. rewrite full_t_ok; auto.
  - destruct Hb as [Hu Hl]. cbn [bind_apply].
    rewrite !half_t_ok by (auto; congruence). cbn [rbind].
    rewrite map2e_ok by (rewrite !map2_len; congruence). cbn [rbind]. do 2 f_equal.
    apply nth_ext with (d := 0) (d' := 0).
    + rewrite map2_len, map2_len, map3_len; try rewrite !map2_len; congruence.
    + intros j Hj. rewrite map2_len, map2_len in Hj by (try rewrite !map2_len; congruence).
      rewrite nth_map2 by (rewrite ?map2_len; congruence).
      rewrite !nth_map2, nth_map3 by congruence. reflexivity.
Qed.
Theorem bind_apply_pos_only b (x p : tensorR) :
  bind_ok b -> length p = length x ->
  bind_apply RN b x (Some p) None = Ok (Some (map3 (delta_fn b) x p (repeat 0 (length x)))).
Proof.
  intros Hb Hp. destruct b as [|k mx mn|u l].
  - cbn [bind_apply]. unfold zeros_like. change (T RN) with R. change (zero RN) with 0. rewrite Hp, full_t_ok; auto using repeat_length.
  - cbn [bind_apply]. unfold zeros_like. change (T RN) with R. change (zero RN) with 0. rewrite Hp, full_t_ok; auto using repeat_length.
  - destruct Hb as [Hu Hl]. cbn [bind_apply]. rewrite half_t_ok by (auto; congruence). cbn [rbind]. do 2 f_equal.
    apply nth_ext with (d := 0) (d' := 0).
    + rewrite map2_len, map3_len; rewrite ?repeat_length; congruence.
    + intros j Hj. rewrite map2_len in Hj by congruence.
      rewrite nth_map2, nth_map3 by (rewrite ?repeat_length; congruence).
      rewrite nth_repeat0. unfold delta_fn. cbn [bind_upper bind_lower]. rewrite slot_fn_zero. lra.
Qed.
Theorem bind_apply_neg_only b (x n : tensorR) :
  bind_ok b -> length n = length x ->
  bind_apply RN b x None (Some n) = Ok (Some (map3 (delta_fn b) x (repeat 0 (length x)) n)).
Proof.
  intros Hb Hn. destruct b as [|k mx mn|u l].
  - cbn [bind_apply]. unfold zeros_like. change (T RN) with R. change (zero RN) with 0. rewrite Hn, full_t_ok; auto using repeat_length.
  - cbn [bind_apply]. unfold zeros_like. change (T RN) with R. change (zero RN) with 0. rewrite Hn, full_t_ok; auto using repeat_length.
  - destruct Hb as [Hu Hl]. cbn [bind_apply]. rewrite half_t_ok by (auto; congruence). cbn [rbind]. do 2 f_equal.
    apply nth_ext with (d := 0) (d' := 0).
    + rewrite map_length, map2_len, map3_len; rewrite ?repeat_length; congruence.
    + intros j Hj. rewrite map_length, map2_len in Hj by congruence.
      change (opp RN) with Ropp. rewrite nth_map_opp.
      rewrite nth_map2, nth_map3 by (rewrite ?repeat_length; congruence).
      rewrite nth_repeat0. unfold delta_fn. cbn [bind_upper bind_lower]. rewrite slot_fn_zero. lra.
Qed.

(* all pending parts have the parameter's size *)
Definition wshape (a : accR) (len : nat) : Prop :=
  Forall (fun p => length p = len) (apos RN a) /\ Forall (fun p => length p = len) (aneg RN a).
(* reduced value of one side at element j; nothing pending = contributes nothing *)
Definition rcol (red : list R -> R) (parts : list tensorR) (j : nat) : R :=
  match parts with [] => 0 | _ => red (column parts j) end.

Lemma calc_wshape red parts len :
  Forall (fun p => length p = len) parts ->
  calc RN red parts = Ok (match parts with [] => None | _ => Some (reduced red parts len) end).
Proof.
  intros H. destruct parts as [|p0 t]; [reflexivity|].
  assert (length p0 = len) by (inversion H; auto). subst len. apply calc_spec, H.
Qed.

(* MAIN: Accumulator.forward(param) = param + U(reduce pos) - L(reduce neg), element by element, for every
   number of pending parts on either side, every form of bind, every reduction, any (coherent) cache state *)
Theorem apply_spec (a : accR) (x : tensorR) :
  coh a -> wshape a (length x) -> bind_ok (abind RN a) ->
  exists a' y,
    acc_forward RN a x = (a', Ok y) /\ coh a' /\ same_cfg a a' /\ length y = length x /\
    forall j, (j < length x)%nat ->
      nth j y 0 =
        match apos RN a, aneg RN a with
        | [], [] => nth j x 0
        | _, _ => nth j x 0 + bind_upper (abind RN a) (nth j x 0) (rcol (ared RN a) (apos RN a) j)
                            - bind_lower (abind RN a) (nth j x 0) (rcol (ared RN a) (aneg RN a) j)
        end.
Proof.
  intros Hc [Wp Wn] Hb.
  destruct (acc_forward_coherent a x Hc) as (a' & E & Hc' & S).
  exists a'. unfold forward_val, update_val in E.
  rewrite (calc_wshape _ _ _ Wp), (calc_wshape _ _ _ Wn) in E.
  set (len := length x) in *.
  assert (Hfin : forall p n, length p = len -> length n = len ->
            exists y, map2e RN Rplus x (map3 (delta_fn (abind RN a)) x p n) = Ok y /\ length y = len /\
              forall j, (j < len)%nat -> nth j y 0 = nth j x 0 + delta_fn (abind RN a) (nth j x 0) (nth j p 0) (nth j n 0)).
  { intros p n Hp Hn. eexists. split; [apply map2e_ok; rewrite map3_len; auto; congruence|]. split.
    - rewrite map2_len; auto. rewrite map3_len; auto; congruence.
    - intros j Hj. rewrite nth_map2, nth_map3; auto; try congruence. rewrite map3_len; auto; congruence. }
  destruct (apos RN a) as [|p0 tp] eqn:EP, (aneg RN a) as [|n0 tn] eqn:EN.
  - exists x. cbn in E. split; [exact E|]. split; [exact Hc'|]. split; [exact S|]. split; [reflexivity|]. auto.
  - rewrite bind_apply_neg_only in E by (auto; apply reduced_length).
    destruct (Hfin (repeat 0 len) (reduced (ared RN a) (n0 :: tn) len)) as (y & Ey & Ly & Hy);
      [apply repeat_length|apply reduced_length|].
    exists y. fold len in E. rewrite Ey in E. split; [exact E|]. split; [exact Hc'|]. split; [exact S|]. split; [exact Ly|].
    intros j Hj. rewrite Hy by exact Hj. rewrite nth_repeat0, nth_reduced by exact Hj.
    unfold delta_fn, rcol. rewrite bind_upper_zero. lra.
  - rewrite bind_apply_pos_only in E by (auto; apply reduced_length).
    destruct (Hfin (reduced (ared RN a) (p0 :: tp) len) (repeat 0 len)) as (y & Ey & Ly & Hy);
      [apply reduced_length|apply repeat_length|].
    exists y. fold len in E. rewrite Ey in E. split; [exact E|]. split; [exact Hc'|]. split; [exact S|]. split; [exact Ly|].
    intros j Hj. rewrite Hy by exact Hj. rewrite nth_repeat0, nth_reduced by exact Hj.
    unfold delta_fn, rcol. rewrite bind_lower_zero. lra.
  - rewrite bind_apply_both in E by (auto; apply reduced_length).
    destruct (Hfin (reduced (ared RN a) (p0 :: tp) len) (reduced (ared RN a) (n0 :: tn) len)) as (y & Ey & Ly & Hy);
      [apply reduced_length|apply reduced_length|].
    exists y. rewrite Ey in E. split; [exact E|]. split; [exact Hc'|]. split; [exact S|]. split; [exact Ly|].
    intros j Hj. rewrite Hy by exact Hj. rewrite !nth_reduced by exact Hj.
    unfold delta_fn, rcol. lra.
Qed.

(* nothing accumulated: the parameter is returned untouched (whatever bounding is configured) *)
Theorem empty_noop (a : accR) (x : tensorR) :
  coh a -> apos RN a = [] -> aneg RN a = [] ->
  exists a', acc_forward RN a x = (a', Ok x) /\ coh a' /\ same_cfg a a'.
Proof.
  intros Hc Ep En. destruct (acc_forward_coherent a x Hc) as (a' & E & Hc' & S).
  exists a'. unfold forward_val, update_val in E. rewrite Ep, En in E. cbn in E. auto.
Qed.
(* after Accumulator.clear() an application changes nothing - no coherence hypothesis needed *)
Theorem clear_then_apply_noop (a : accR) (x : tensorR) :
  snd (acc_forward RN (acc_clear RN a) x) = Ok x.
Proof.
  destruct (empty_noop (acc_clear RN a) x (coh_clear a) eq_refl eq_refl) as (a' & E & _). rewrite E. reflexivity.
Qed.
