(* Model of inferno.neural.modeling: Accumulator, Updater, Updatable (hand-written, mirrors the code
   branch by branch; the bounding kernels are the GENERATED definitions of Gen/Bounding.v).
   Definitions only: this file must keep compiling (and running for the correspondence check) when a
   proof elsewhere is broken.

   A tensor is the flat (row-major) list of its elements; every kernel is element-wise.  Two tensors
   are combined element-wise only when they have the same number of elements (the harness never uses
   broadcastable-but-different shapes), otherwise torch raises RuntimeError.
   A reduction `fn(stacked, 0)` is modelled by a function on the column of values that the stacked
   parts have at one element position (torch.sum, torch.mean, torch.amax, ... are all of this form). *)
From Coq Require Import List ZArith Bool Arith.
From Inferno Require Import Base.Num Gen.Bounding.
Import ListNotations.

(* exception classes (codes of tools/impl/common.exc_code) *)
Inductive err := ERuntime | EType | EKey | EAttr.
Inductive res (A : Type) := Ok (a : A) | Err (e : err).
Arguments Ok {A} a.
Arguments Err {A} e.
Definition rbind {A B} (r : res A) (f : A -> res B) : res B :=
  match r with Ok a => f a | Err e => Err e end.

(* association lists keyed by parameter name (an integer id) *)
Fixpoint lookup {A} (k : Z) (l : list (Z * A)) : option A :=
  match l with
  | [] => None
  | (k', v) :: t => if Z.eqb k k' then Some v else lookup k t
  end.
Fixpoint replace {A} (k : Z) (v : A) (l : list (Z * A)) : list (Z * A) :=
  match l with
  | [] => []
  | (k', v') :: t => if Z.eqb k k' then (k', v) :: t else (k', v') :: replace k v t
  end.

Section Model.
Variable N : Num.
Notation E := (T N).
Definition tensor := list E.

(* ------------------------------------------------------------------ element-wise plumbing *)
Definition map2 {A B C} (f : A -> B -> C) (a : list A) (b : list B) : list C :=
  map (fun ab => f (fst ab) (snd ab)) (combine a b).
Definition map3 {A B C D} (f : A -> B -> C -> D) (a : list A) (b : list B) (c : list C) : list D :=
  map (fun abc => f (fst abc) (fst (snd abc)) (snd (snd abc))) (combine a (combine b c)).
Definition map2e (f : E -> E -> E) (a b : tensor) : res tensor :=
  if length a =? length b then Ok (map2 f a b) else Err ERuntime.
Definition map3e (f : E -> E -> E -> E) (a b c : tensor) : res tensor :=
  if (length a =? length b) && (length b =? length c) then Ok (map3 f a b c) else Err ERuntime.

(* ------------------------------------------------------------------ reductions *)
(* torch.sum / torch.mean / torch.amax / torch.amin over the stacking dimension, and two "custom"
   reductions used by the harness: lambda x, d: x.select(d, 0)  and  lambda x, d: (x * x).sum(d).sqrt() *)
Definition red_sum (l : list E) : E := tsum N l.
Definition red_mean (l : list E) : E := div N (tsum N l) (ofZ N (Z.of_nat (length l))).
Definition red_amax (l : list E) : E :=
  match l with [] => zero N | x :: t => fold_left (tmax N) t x end.
Definition red_amin (l : list E) : E :=
  match l with [] => zero N | x :: t => fold_left (tmin N) t x end.
Definition red_first (l : list E) : E := hd (zero N) l.
Definition red_l2 (l : list E) : E := sqrt N (tsum N (map (fun x => mul N x x) l)).

(* ------------------------------------------------------------------ bounding functions *)
(* the ten HalfBounding kernels of inferno.functional (any of them may be installed in either slot) *)
Inductive halfk :=
| HPowU (pw : E) | HPowL (pw : E)
| HSPowU (pw rg : E) | HSPowL (pw rg : E)
| HMulU | HMulL
| HSMulU (rg : E) | HSMulL (rg : E)
| HSharpU | HSharpL.
Definition half_apply (k : halfk) (lim x u : E) : E :=
  match k with
  | HPowU pw => bound_upper_power N x u lim pw
  | HPowL pw => bound_lower_power N x u lim pw
  | HSPowU pw rg => bound_upper_scaled_power N x u lim pw rg
  | HSPowL pw rg => bound_lower_scaled_power N x u lim pw rg
  | HMulU => bound_upper_multiplicative N x u lim
  | HMulL => bound_lower_multiplicative N x u lim
  | HSMulU rg => bound_upper_scaled_multiplicative N x u lim rg
  | HSMulL rg => bound_lower_scaled_multiplicative N x u lim rg
  | HSharpU => bound_upper_sharp N x u lim
  | HSharpL => bound_lower_sharp N x u lim
  end.
(* one slot of the list form of `bind`: `lambda x, p: p`  or  `lambda x, p, ub=max, k=kwargs: bound(x, p, ub, **k)` *)
Inductive halfb := HId | HB (k : halfk) (lim : option E).
Definition half_t (b : halfb) (x u : tensor) : res tensor :=
  match b with
  | HId => Ok u
  | HB k None => Err EType                       (* None - param / param - None *)
  | HB k (Some lim) => map2e (half_apply k lim) x u
  end.

(* the five FullBounding kernels *)
Inductive fullk := FPow (up lp : E) | FSPow (up lp : E) | FMul | FSMul | FSharp.
(* bound_scaled_* compute `max - min` inside `if max is not None` / `if min is not None`:
   exactly one limit None => TypeError; both None => plain pos - neg (hand-transcribed: bounding.py:195-205, 382-388) *)
Definition full_typeerr (k : fullk) (mx mn : option E) : bool :=
  match k with
  | FSPow _ _ | FSMul =>
      match mx, mn with Some _, None => true | None, Some _ => true | _, _ => false end
  | _ => false
  end.
Definition full_val (k : fullk) (mx mn : option E) (x p n : E) : E :=
  match k with
  | FPow up lp => bound_power N x p n mx mn up lp
  | FMul => bound_multiplicative N x p n mx mn
  | FSharp => bound_sharp N x p n mx mn
  | FSPow up lp =>
      match mx, mn with
      | Some a, Some b => bound_scaled_power N x p n a b up lp
      | _, _ => sub N p n
      end
  | FSMul =>
      match mx, mn with
      | Some a, Some b => bound_scaled_multiplicative N x p n a b
      | _, _ => sub N p n
      end
  end.

(* Accumulator.bind: the default / fullbound lambda (not a list), or the two-slot list *)
Inductive bindT :=
| BDefault                                           (* lambda x, p, n: p - n *)
| BFull (k : fullk) (mx mn : option E)               (* lambda x, p, n, ub=max, lb=min, k=kwargs: bound(x, p, n, ub, lb, **k) *)
| BHalf (u l : halfb).
Definition full_t (b : bindT) (x p n : tensor) : res tensor :=
  match b with
  | BFull k mx mn =>
      if full_typeerr k mx mn then Err EType
      else match mx, mn with
           | None, None => map2e (sub N) p n          (* the parameter is not touched *)
           | _, _ => map3e (full_val k mx mn) x p n
           end
  | _ => map2e (sub N) p n
  end.

(* ------------------------------------------------------------------ Accumulator *)
Record acc := mkAcc {
  apos : list tensor;                 (* _pos, in append order *)
  aneg : list tensor;                 (* _neg *)
  cpos : option (option tensor);      (* functools.cache cell of calc_pos: None = nothing cached *)
  cneg : option (option tensor);
  ared : list E -> E;                 (* reduce *)
  abind : bindT
}.
Definition acc_new : acc := mkAcc [] [] None None red_sum BDefault.
Definition set_pos_parts (a : acc) (l : list tensor) (c : option (option tensor)) : acc :=
  mkAcc l (aneg a) c (cneg a) (ared a) (abind a).
Definition set_neg_parts (a : acc) (l : list tensor) (c : option (option tensor)) : acc :=
  mkAcc (apos a) l (cpos a) c (ared a) (abind a).
Definition set_red (a : acc) (f : list E -> E) : acc :=
  mkAcc (apos a) (aneg a) (cpos a) (cneg a) f (abind a).
Definition set_bind (a : acc) (b : bindT) : acc :=
  mkAcc (apos a) (aneg a) (cpos a) (cneg a) (ared a) b.

(* torch.stack(parts, 0) requires equal sizes; the columns of the stacked tensor *)
Definition stack_ok (parts : list tensor) : bool :=
  match parts with
  | [] => true
  | p :: t => forallb (fun q => length q =? length p) t
  end.
Fixpoint transpose (len : nat) (parts : list tensor) : list (list E) :=
  match parts with
  | [] => repeat [] len
  | p :: t => map2 cons p (transpose len t)
  end.
(* calc_pos / calc_neg (modeling.py:29-39) *)
Definition calc (red : list E -> E) (parts : list tensor) : res (option tensor) :=
  match parts with
  | [] => Ok None
  | p :: _ =>
      if stack_ok parts then Ok (Some (map red (transpose (length p) parts))) else Err ERuntime
  end.

(* property getters: cached call (an exception is not cached) *)
Definition get_pos (a : acc) : acc * res (option tensor) :=
  match cpos a with
  | Some v => (a, Ok v)
  | None =>
      match calc (ared a) (apos a) with
      | Ok v => (set_pos_parts a (apos a) (Some v), Ok v)
      | Err e => (a, Err e)
      end
  end.
Definition get_neg (a : acc) : acc * res (option tensor) :=
  match cneg a with
  | Some v => (a, Ok v)
  | None =>
      match calc (ared a) (aneg a) with
      | Ok v => (set_neg_parts a (aneg a) (Some v), Ok v)
      | Err e => (a, Err e)
      end
  end.
(* property setters: None is ignored (and does not clear the cache) *)
Definition add_pos (a : acc) (v : option tensor) : acc :=
  match v with None => a | Some t => set_pos_parts a (apos a ++ [t]) None end.
Definition add_neg (a : acc) (v : option tensor) : acc :=
  match v with None => a | Some t => set_neg_parts a (aneg a ++ [t]) None end.
(* property deleters *)
Definition del_pos (a : acc) : acc := set_pos_parts a [] None.
Definition del_neg (a : acc) : acc := set_neg_parts a [] None.
Definition acc_clear (a : acc) : acc := del_neg (del_pos a).
(* Accumulator.reduction: the caches are NOT cleared (modeling.py:101-104) *)
Definition acc_reduction (a : acc) (f : option (list E -> E)) : acc :=
  match f with Some g => set_red a g | None => set_red a red_sum end.
(* upperbound / lowerbound / fullbound (modeling.py:124-189) *)
Definition as_half (b : bindT) : halfb * halfb :=
  match b with BHalf u l => (u, l) | _ => (HId, HId) end.
Definition mk_half (k : option halfk) (lim : option E) : halfb :=
  match k with Some k => HB k lim | None => HId end.
Definition acc_upperbound (a : acc) (k : option halfk) (lim : option E) : acc :=
  let (u, l) := as_half (abind a) in set_bind a (BHalf (mk_half k lim) l).
Definition acc_lowerbound (a : acc) (k : option halfk) (lim : option E) : acc :=
  let (u, l) := as_half (abind a) in set_bind a (BHalf u (mk_half k lim)).
Definition acc_fullbound (a : acc) (k : option fullk) (mx mn : option E) : acc :=
  match k with Some k => set_bind a (BFull k mx mn) | None => set_bind a BDefault end.

Definition zeros_like (t : tensor) : tensor := repeat (zero N) (length t).

(* Accumulator.update (modeling.py:196-231): the four presence cases, each in list / non-list form *)
Definition bind_apply (b : bindT) (x : tensor) (p n : option tensor) : res (option tensor) :=
  match p, n with
  | Some p, Some n =>
      match b with
      | BHalf u l =>
          rbind (half_t u x p) (fun up => rbind (half_t l x n) (fun ln =>
          rbind (map2e (sub N) up ln) (fun r => Ok (Some r))))
      | b => rbind (full_t b x p n) (fun r => Ok (Some r))
      end
  | Some p, None =>
      match b with
      | BHalf u l => rbind (half_t u x p) (fun r => Ok (Some r))
      | b => rbind (full_t b x p (zeros_like p)) (fun r => Ok (Some r))
      end
  | None, Some n =>
      match b with
      | BHalf u l => rbind (half_t l x n) (fun r => Ok (Some (map (opp N) r)))
      | b => rbind (full_t b x (zeros_like n) n) (fun r => Ok (Some r))
      end
  | None, None => Ok None
  end.
Definition acc_update (a : acc) (x : tensor) : acc * res (option tensor) :=
  let (a1, rp) := get_pos a in
  match rp with
  | Err e => (a1, Err e)
  | Ok p =>
      let (a2, rn) := get_neg a1 in
      match rn with
      | Err e => (a2, Err e)
      | Ok n => (a2, bind_apply (abind a2) x p n)
      end
  end.
(* Accumulator.forward (modeling.py:233-246) *)
Definition acc_forward (a : acc) (x : tensor) : acc * res tensor :=
  let (a', r) := acc_update a x in
  (a', match r with
       | Err e => Err e
       | Ok None => Ok x
       | Ok (Some u) => map2e (add N) x u
       end).

(* ------------------------------------------------------------------ Updater on an Updatable module *)
(* params: the module's parameter attributes (setter = plain assignment of the data);
   upd: module.updater (None = not updatable), accumulators in the order of the constructor arguments *)
Record world := mkWorld { params : list (Z * tensor); upd : option (list (Z * acc)) }.

Inductive out := OUnit | OT (o : option tensor).

Inductive op :=
| OpAdd (nm : Z) (p n : option tensor)        (* updater.nm = (p, n) *)
| OpAddT (nm : Z) (p : option tensor)         (* updater.nm = p  (a tensor or None: positive part only) *)
| OpAddPos (nm : Z) (v : option tensor)       (* updater.nm.pos = v *)
| OpAddNeg (nm : Z) (v : option tensor)       (* updater.nm.neg = v *)
| OpDel (nm : Z)                              (* del updater.nm *)
| OpDelPos (nm : Z)                           (* del updater.nm.pos *)
| OpDelNeg (nm : Z)
| OpGetPos (nm : Z)                           (* updater.nm.pos *)
| OpGetNeg (nm : Z)
| OpAccUpdate (nm : Z)                        (* updater.nm.update(module.nm) *)
| OpAccForward (nm : Z)                       (* updater.nm(module.nm) *)
| OpReduction (nm : Z) (f : option (list E -> E))        (* updater.nm.reduction(f) *)
| OpUpper (nm : Z) (k : option halfk) (lim : option E)   (* updater.nm.upperbound(k, lim, **kw) *)
| OpLower (nm : Z) (k : option halfk) (lim : option E)
| OpFull (nm : Z) (k : option fullk) (mx mn : option E)  (* updater.nm.fullbound(k, mx, mn, **kw) *)
| OpUpdate (clear : bool)                     (* module.update(clear=...) *)
| OpUpdateSome (nms : list Z) (clear : bool)  (* module.updatesome(nms..., clear=...) *)
| OpClear                                     (* Updatable.clear(module) *)
| OpApply (nms : list Z)                      (* module.updater(nms...) *)
| OpSetParam (nm : Z) (v : tensor)            (* module.nm = v *)
| OpNewUpdater (nms : list Z) (f : option (list E -> E))   (* module.updater = Updater(module, nms..., reduction=f) *)
| OpDelUpdater                                (* del module.updater *)
| OpTrainerUpdate (cells : list Z).           (* CellTrainer.update(kwargs...) for a trainer whose registered cells wrap the
                                                 connections cells (0 = this module, anything else = another module):
                                                 for updater in unique(filter(not None, map(cell.updater))): updater(kwargs...)
                                                 (learn/base.py:305-316); keyword arguments are ignored by Accumulator.forward *)

(* getattr(module.updater, nm): AttributeError on None and on an unknown name *)
Definition find_acc (w : world) (nm : Z) : res (list (Z * acc) * acc) :=
  match upd w with
  | None => Err EAttr
  | Some us => match lookup nm us with None => Err EAttr | Some a => Ok (us, a) end
  end.
Definition put_acc (w : world) (us : list (Z * acc)) (nm : Z) (a : acc) : world :=
  mkWorld (params w) (Some (replace nm a us)).
(* an operation on one accumulator that cannot fail once the accumulator is found *)
Definition on_acc (w : world) (nm : Z) (f : acc -> acc) : world * res out :=
  match find_acc w nm with
  | Err e => (w, Err e)
  | Ok (us, a) => (put_acc w us nm (f a), Ok OUnit)
  end.

(* Updater.forward (modeling.py:401-416) over explicit names: setattr(module, p, acc(getattr(module, p)))
   one name after the other; an exception leaves the earlier assignments (and the caches) in place *)
Fixpoint apply_names (ps : list (Z * tensor)) (us : list (Z * acc)) (nms : list Z)
  : list (Z * tensor) * list (Z * acc) * option err :=
  match nms with
  | [] => (ps, us, None)
  | nm :: tl =>
      match lookup nm us with
      | None => (ps, us, Some EKey)
      | Some a =>
          match lookup nm ps with
          | None => (ps, us, Some EAttr)
          | Some x =>
              let (a', r) := acc_forward a x in
              let us' := replace nm a' us in
              match r with
              | Err e => (ps, us', Some e)
              | Ok y => apply_names (replace nm y ps) us' tl
              end
          end
      end
  end.
Definition updater_forward (ps : list (Z * tensor)) (us : list (Z * acc)) (nms : list Z) :=
  apply_names ps us (match nms with [] => map fst us | _ => nms end).
Definition clear_all (us : list (Z * acc)) : list (Z * acc) :=
  map (fun na => (fst na, acc_clear (snd na))) us.

(* Updatable.updatesome (modeling.py:491-502) *)
Fixpoint update_some (ps : list (Z * tensor)) (us : list (Z * acc)) (nms : list Z) (clear : bool)
  : list (Z * tensor) * list (Z * acc) * option err :=
  match nms with
  | [] => (ps, us, None)
  | nm :: tl =>
      match apply_names ps us [nm] with
      | (ps', us', Some e) => (ps', us', Some e)
      | (ps', us', None) =>
          let us'' := if clear then
                        match lookup nm us' with Some a => replace nm (acc_clear a) us' | None => us' end
                      else us' in
          update_some ps' us'' tl clear
      end
  end.

Definition finish (r : list (Z * tensor) * list (Z * acc) * option err) : world * res out :=
  match r with
  | (ps, us, None) => (mkWorld ps (Some us), Ok OUnit)
  | (ps, us, Some e) => (mkWorld ps (Some us), Err e)
  end.

Definition step (w : world) (o : op) : world * res out :=
  match o with
  | OpAdd nm p n => on_acc w nm (fun a => add_neg (add_pos a p) n)
  | OpAddT nm p => on_acc w nm (fun a => add_pos a p)
  | OpAddPos nm v => on_acc w nm (fun a => add_pos a v)
  | OpAddNeg nm v => on_acc w nm (fun a => add_neg a v)
  | OpDel nm => on_acc w nm acc_clear
  | OpDelPos nm => on_acc w nm del_pos
  | OpDelNeg nm => on_acc w nm del_neg
  | OpGetPos nm =>
      match find_acc w nm with
      | Err e => (w, Err e)
      | Ok (us, a) =>
          let (a', r) := get_pos a in
          (put_acc w us nm a', match r with Ok v => Ok (OT v) | Err e => Err e end)
      end
  | OpGetNeg nm =>
      match find_acc w nm with
      | Err e => (w, Err e)
      | Ok (us, a) =>
          let (a', r) := get_neg a in
          (put_acc w us nm a', match r with Ok v => Ok (OT v) | Err e => Err e end)
      end
  | OpAccUpdate nm =>
      match find_acc w nm with
      | Err e => (w, Err e)
      | Ok (us, a) =>
          match lookup nm (params w) with
          | None => (w, Err EAttr)
          | Some x =>
              let (a', r) := acc_update a x in
              (put_acc w us nm a', match r with Ok v => Ok (OT v) | Err e => Err e end)
          end
      end
  | OpAccForward nm =>
      match find_acc w nm with
      | Err e => (w, Err e)
      | Ok (us, a) =>
          match lookup nm (params w) with
          | None => (w, Err EAttr)
          | Some x =>
              let (a', r) := acc_forward a x in
              (put_acc w us nm a', match r with Ok v => Ok (OT (Some v)) | Err e => Err e end)
          end
      end
  | OpReduction nm f => on_acc w nm (fun a => acc_reduction a f)
  | OpUpper nm k lim => on_acc w nm (fun a => acc_upperbound a k lim)
  | OpLower nm k lim => on_acc w nm (fun a => acc_lowerbound a k lim)
  | OpFull nm k mx mn => on_acc w nm (fun a => acc_fullbound a k mx mn)
  | OpUpdate clear =>
      match upd w with
      | None => (w, Ok OUnit)                              (* not updatable: nothing happens *)
      | Some us =>
          match updater_forward (params w) us [] with
          | (ps, us', Some e) => (mkWorld ps (Some us'), Err e)
          | (ps, us', None) => (mkWorld ps (Some (if clear then clear_all us' else us')), Ok OUnit)
          end
      end
  | OpUpdateSome nms clear =>
      match upd w with
      | None => match nms with [] => (w, Ok OUnit) | _ => (w, Err EType) end   (* None is not callable *)
      | Some us => finish (update_some (params w) us nms clear)
      end
  | OpClear =>
      match upd w with
      | None => (w, Ok OUnit)
      | Some us => (mkWorld (params w) (Some (clear_all us)), Ok OUnit)
      end
  | OpApply nms =>
      match upd w with
      | None => (w, Err EType)
      | Some us => finish (updater_forward (params w) us nms)
      end
  | OpSetParam nm v => (mkWorld (replace nm v (params w)) (upd w), Ok OUnit)
  | OpNewUpdater nms f =>
      (* argtest.members: RuntimeError when the module lacks one of the attributes *)
      if forallb (fun nm => match lookup nm (params w) with Some _ => true | None => false end) nms
      then (mkWorld (params w)
              (Some (map (fun nm => (nm, match f with Some g => acc_reduction acc_new (Some g) | None => acc_new end)) nms)),
            Ok OUnit)
      else (w, Err ERuntime)
  | OpDelUpdater => (mkWorld (params w) None, Ok OUnit)
  | OpTrainerUpdate cells =>
      (* the module's updater is called ONCE however many cells share it; a cell whose updater is None is skipped;
         Updater.forward() applies every accumulator and clears nothing *)
      if existsb (Z.eqb 0) cells
      then match upd w with
           | None => (w, Ok OUnit)
           | Some us => finish (updater_forward (params w) us [])
           end
      else (w, Ok OUnit)
  end.

Fixpoint run (w : world) (ops : list op) : world :=
  match ops with
  | [] => w
  | o :: tl => run (fst (step w o)) tl
  end.

End Model.
