(* C10, part C: reductions (symmetry, hull), permutation invariance of an accumulator. *)
From Coq Require Import List ZArith Bool Arith Reals Lra Lia Permutation.
From Inferno Require Import Base.Num Base.NumR Gen.Bounding C10.Updater C10.KernelAlgebra C10.AccProofs.
Import ListNotations.
Open Scope R_scope.

(* a reduction that does not depend on the order of the stacked parts *)
Definition red_sym (red : list R -> R) : Prop := forall l l', Permutation l l' -> red l = red l'.
(* a reduction that stays within [0, c] when all of its (>= 1) arguments do *)
Definition red_hull (red : list R -> R) : Prop :=
  forall c l, l <> [] -> Forall (fun v => 0 <= v <= c) l -> 0 <= red l <= c.

(* ------------------------------------------------------------------ the library reductions *)
Lemma tsum_perm l l' : Permutation l l' -> tsum RN l = tsum RN l'.
Proof. induction 1; cbn [tsum]; rn_simpl; try lra. Qed.

Theorem red_sum_sym : red_sym (red_sum RN).
Proof. intros l l' H. apply tsum_perm, H. Qed.
Theorem red_mean_sym : red_sym (red_mean RN).
Proof. intros l l' H. unfold red_mean. change (T RN) with R. rewrite (tsum_perm _ _ H), (Permutation_length H). reflexivity. Qed.
Theorem red_l2_sym : red_sym (red_l2 RN).
Proof. intros l l' H. unfold red_l2. f_equal. apply tsum_perm, Permutation_map, H. Qed.

(* amax / amin: characterised as THE greatest / least element *)
Lemma tmax_cases a b : (tmax RN a b = a /\ b <= a) \/ (tmax RN a b = b /\ a <= b).
Proof. rn_unfold. rcases; [right|left]; split; auto; lra. Qed.
Lemma tmin_cases a b : (tmin RN a b = a /\ a <= b) \/ (tmin RN a b = b /\ b <= a).
Proof. rn_unfold. rcases; [right|left]; split; auto; lra. Qed.

Lemma fold_tmax_spec t x :
  let m := fold_left (tmax RN) t x in (m = x \/ In m t) /\ x <= m /\ forall y, In y t -> y <= m.
Proof.
  revert x. induction t as [|a t IH]; intros x; cbn [fold_left].
  - split; [left; reflexivity|]. split; [lra|]. intros y [].
  - destruct (IH (tmax RN x a)) as (Hin & Hx & Hall).
    destruct (tmax_cases x a) as [[E L]|[E L]]; rewrite E in *.
    + split; [destruct Hin; [left|right; right]; assumption|]. split; [assumption|].
      intros y [<-|Hy]; [lra|apply Hall, Hy].
    + split; [right; destruct Hin as [->|Hin]; [left; reflexivity|right; exact Hin]|]. split; [lra|].
      intros y [<-|Hy]; [lra|apply Hall, Hy].
Qed.
Lemma fold_tmin_spec t x :
  let m := fold_left (tmin RN) t x in (m = x \/ In m t) /\ m <= x /\ forall y, In y t -> m <= y.
Proof.
  revert x. induction t as [|a t IH]; intros x; cbn [fold_left].
  - split; [left; reflexivity|]. split; [lra|]. intros y [].
  - destruct (IH (tmin RN x a)) as (Hin & Hx & Hall).
    destruct (tmin_cases x a) as [[E L]|[E L]]; rewrite E in *.
    + split; [destruct Hin; [left|right; right]; assumption|]. split; [assumption|].
      intros y [<-|Hy]; [lra|apply Hall, Hy].
    + split; [right; destruct Hin as [->|Hin]; [left; reflexivity|right; exact Hin]|]. split; [lra|].
      intros y [<-|Hy]; [lra|apply Hall, Hy].
Qed.
Theorem red_amax_spec l : l <> [] -> In (red_amax RN l) l /\ forall y, In y l -> y <= red_amax RN l.
Proof.
  destruct l as [|x t]; [congruence|]. intros _. cbn [red_amax].
  destruct (fold_tmax_spec t x) as (Hin & Hx & Hall). split.
  - destruct Hin as [->|H]; [left; reflexivity|right; exact H].
  - intros y [<-|Hy]; [exact Hx|apply Hall, Hy].
Qed.
Theorem red_amin_spec l : l <> [] -> In (red_amin RN l) l /\ forall y, In y l -> red_amin RN l <= y.
Proof.
  destruct l as [|x t]; [congruence|]. intros _. cbn [red_amin].
  destruct (fold_tmin_spec t x) as (Hin & Hx & Hall). split.
  - destruct Hin as [->|H]; [left; reflexivity|right; exact H].
  - intros y [<-|Hy]; [exact Hx|apply Hall, Hy].
Qed.
Theorem red_amax_sym : red_sym (red_amax RN).
Proof.
  intros l l' H. destruct l as [|x t].
  - apply Permutation_nil in H. subst. reflexivity.
  - assert (N1 : x :: t <> []) by congruence.
    assert (N2 : l' <> []) by (intros ->; apply Permutation_sym, Permutation_nil in H; congruence).
    destruct (red_amax_spec _ N1) as [I1 M1]. destruct (red_amax_spec _ N2) as [I2 M2].
    apply Rle_antisym.
    + apply M2. eapply Permutation_in; eauto.
    + apply M1. eapply Permutation_in; [apply Permutation_sym|]; eauto.
Qed.
Theorem red_amin_sym : red_sym (red_amin RN).
Proof.
  intros l l' H. destruct l as [|x t].
  - apply Permutation_nil in H. subst. reflexivity.
  - assert (N1 : x :: t <> []) by congruence.
    assert (N2 : l' <> []) by (intros ->; apply Permutation_sym, Permutation_nil in H; congruence).
    destruct (red_amin_spec _ N1) as [I1 M1]. destruct (red_amin_spec _ N2) as [I2 M2].
    apply Rle_antisym.
    + apply M1. eapply Permutation_in; [apply Permutation_sym|]; eauto.
    + apply M2. eapply Permutation_in; eauto.
Qed.
(* a custom reduction need not be symmetric: x.select(0, 0) *)
Theorem red_first_not_sym : ~ red_sym (red_first RN).
Proof. intros H. specialize (H [1; 2] [2; 1] (perm_swap _ _ _)). cbn in H. lra. Qed.

(* hull *)
Lemma tsum_bounds c l : Forall (fun v => 0 <= v <= c) l -> 0 <= tsum RN l <= c * INR (length l).
Proof.
  induction 1 as [|v l Hv Hl IH]; cbn [tsum length]; rn_simpl; [cbn; lra|].
  rewrite S_INR. lra.
Qed.
Theorem red_mean_hull : red_hull (red_mean RN).
Proof.
  intros c l Hne H. unfold red_mean. rn_simpl. rewrite <- INR_IZR_INZ.
  pose proof (tsum_bounds c l H) as [H0 H1].
  assert (Hn : 0 < INR (length l)) by (destruct l; [congruence|cbn [length]; rewrite S_INR; pose proof (pos_INR (length l)); lra]).
  split.
  - apply Rmult_le_pos; [exact H0|left; apply Rinv_0_lt_compat; exact Hn].
  - apply Rmult_le_reg_r with (INR (length l)); [exact Hn|].
    unfold Rdiv. rewrite Rmult_assoc, Rinv_l by lra. lra.
Qed.
Theorem red_amax_hull : red_hull (red_amax RN).
Proof. intros c l Hne H. destruct (red_amax_spec l Hne) as [I _]. rewrite Forall_forall in H. apply H, I. Qed.
Theorem red_amin_hull : red_hull (red_amin RN).
Proof. intros c l Hne H. destruct (red_amin_spec l Hne) as [I _]. rewrite Forall_forall in H. apply H, I. Qed.
Theorem red_first_hull : red_hull (red_first RN).
Proof. intros c [|x t] Hne H; [congruence|]. inversion H; subst. exact H2. Qed.

(* ------------------------------------------------------------------ permutation invariance *)
Lemma column_perm parts parts' j : Permutation parts parts' -> Permutation (column parts j) (column parts' j).
Proof. apply Permutation_map. Qed.

Theorem calc_perm red (parts parts' : list tensorR) :
  red_sym red -> Permutation parts parts' -> calc RN red parts = calc RN red parts'.
Proof.
  intros Hs H. destruct parts as [|p0 t].
  { apply Permutation_nil in H. subst. reflexivity. }
  destruct parts' as [|q0 t'].
  { apply Permutation_sym, Permutation_nil in H. congruence. }
  assert (Hq0 : In q0 (p0 :: t)) by (eapply Permutation_in; [apply Permutation_sym, H|left; reflexivity]).
  assert (Hp0 : In p0 (q0 :: t')) by (eapply Permutation_in; [apply H|left; reflexivity]).
  destruct (stack_ok RN (p0 :: t)) eqn:E.
  - apply stack_ok_iff in E. rewrite calc_spec by exact E.
    assert (El : length q0 = length p0) by (rewrite Forall_forall in E; apply E, Hq0).
    assert (E' : Forall (fun p => length p = length q0) (q0 :: t')).
    { rewrite El. eapply Permutation_Forall; eauto. }
    rewrite calc_spec by exact E'. rewrite El. do 2 f_equal. unfold reduced.
    apply map_ext. intros j. apply Hs, column_perm, H.
  - rewrite calc_mismatch; [rewrite calc_mismatch; [reflexivity|]|].
    + intros E'. assert (El : length p0 = length q0) by (rewrite Forall_forall in E'; apply E', Hp0).
      assert (F : Forall (fun p => length p = length p0) (p0 :: t)).
      { rewrite El. eapply Permutation_Forall; [apply Permutation_sym, H|exact E']. }
      apply stack_ok_iff in F. congruence.
    + intros F. apply stack_ok_iff in F. congruence.
Qed.

(* same accumulator up to the order of the pending parts *)
Definition acc_perm (a a' : accR) : Prop :=
  Permutation (apos RN a) (apos RN a') /\ Permutation (aneg RN a) (aneg RN a') /\
  ared RN a' = ared RN a /\ abind RN a' = abind RN a /\ cpos RN a' = cpos RN a /\ cneg RN a' = cneg RN a.

Lemma acc_perm_refl a : acc_perm a a.
Proof. repeat split; auto. Qed.
Lemma acc_perm_trans a b c : acc_perm a b -> acc_perm b c -> acc_perm a c.
Proof.
  intros (A1 & A2 & A3 & A4 & A5 & A6) (B1 & B2 & B3 & B4 & B5 & B6).
  split; [eapply Permutation_trans; eauto|]. split; [eapply Permutation_trans; eauto|]. repeat split; congruence.
Qed.

Lemma get_pos_perm a a' :
  red_sym (ared RN a) -> acc_perm a a' ->
  snd (get_pos RN a) = snd (get_pos RN a') /\ acc_perm (fst (get_pos RN a)) (fst (get_pos RN a')).
Proof.
  intros Hs (P & Nn & R & B & Cp & Cn). unfold get_pos. rewrite Cp, R.
  destruct (cpos RN a) as [v|] eqn:Ea; cbn [fst snd].
  { split; [reflexivity|]. repeat split; auto; congruence. }
  rewrite <- (calc_perm (ared RN a) _ _ Hs P).
  destruct (calc RN (ared RN a) (apos RN a)) as [v|e]; cbn [fst snd];
    (split; [reflexivity|repeat split; cbn; auto; congruence]).
Qed.
Lemma get_neg_perm a a' :
  red_sym (ared RN a) -> acc_perm a a' ->
  snd (get_neg RN a) = snd (get_neg RN a') /\ acc_perm (fst (get_neg RN a)) (fst (get_neg RN a')).
Proof.
  intros Hs (P & Nn & R & B & Cp & Cn). unfold get_neg. rewrite Cn, R.
  destruct (cneg RN a) as [v|] eqn:Ea; cbn [fst snd].
  { split; [reflexivity|]. repeat split; auto; congruence. }
  rewrite <- (calc_perm (ared RN a) _ _ Hs Nn).
  destruct (calc RN (ared RN a) (aneg RN a)) as [v|e]; cbn [fst snd];
    (split; [reflexivity|repeat split; cbn; auto; congruence]).
Qed.
Lemma get_pos_cfg a : ared RN (fst (get_pos RN a)) = ared RN a /\ abind RN (fst (get_pos RN a)) = abind RN a.
Proof. unfold get_pos. destruct (cpos RN a); [auto|]. destruct (calc RN _ _); auto. Qed.
Lemma get_neg_cfg a : ared RN (fst (get_neg RN a)) = ared RN a /\ abind RN (fst (get_neg RN a)) = abind RN a.
Proof. unfold get_neg. destruct (cneg RN a); [auto|]. destruct (calc RN _ _); auto. Qed.

(* acc.update / acc.forward do not see the order of the contributions (any cache state, errors included) *)
Theorem acc_update_perm a a' x :
  red_sym (ared RN a) -> acc_perm a a' ->
  snd (acc_update RN a x) = snd (acc_update RN a' x) /\
  acc_perm (fst (acc_update RN a x)) (fst (acc_update RN a' x)) /\
  ared RN (fst (acc_update RN a x)) = ared RN a.
Proof.
  intros Hs H. unfold acc_update.
  destruct (get_pos_perm a a' Hs H) as [E1 P1]. destruct (get_pos_cfg a) as [R1 B1].
  destruct (get_pos RN a) as [a1 r1], (get_pos RN a') as [a1' r1']. cbn [fst snd] in *. subst r1'.
  destruct r1 as [p|e]; [|cbn [fst snd]; auto].
  assert (Hs1 : red_sym (ared RN a1)) by (rewrite R1; exact Hs).
  destruct (get_neg_perm a1 a1' Hs1 P1) as [E2 P2]. destruct (get_neg_cfg a1) as [R2 B2].
  destruct (get_neg RN a1) as [a2 r2], (get_neg RN a1') as [a2' r2']. cbn [fst snd] in *. subst r2'.
  destruct r2 as [n|e]; cbn [fst snd]; [|split; [reflexivity|split; [exact P2|congruence]]].
  destruct P2 as (Q1 & Q2 & Q3 & Q4 & Q5 & Q6). rewrite Q4.
  split; [reflexivity|]. split; [repeat split; auto|congruence].
Qed.
Theorem order_independent_acc a a' x :
  red_sym (ared RN a) -> acc_perm a a' ->
  snd (acc_forward RN a x) = snd (acc_forward RN a' x) /\
  acc_perm (fst (acc_forward RN a x)) (fst (acc_forward RN a' x)) /\
  ared RN (fst (acc_forward RN a x)) = ared RN a.
Proof.
  intros Hs H. unfold acc_forward. destruct (acc_update_perm a a' x Hs H) as (E & P & Rr).
  destruct (acc_update RN a x) as [a1 r1], (acc_update RN a' x) as [a1' r1']. cbn [fst snd] in *. subst r1'.
  auto.
Qed.

(* without symmetry the order matters: Updater(..., reduction=lambda x, d: x.select(d, 0)) *)
Theorem order_dependent_custom_reduction :
  exists (a a' : accR) x,
    Permutation (apos RN a) (apos RN a') /\ aneg RN a = aneg RN a' /\
    snd (acc_forward RN a x) <> snd (acc_forward RN a' x).
Proof.
  exists (mkAcc RN [[1]; [2]] [] None None (red_first RN) (BDefault RN)),
         (mkAcc RN [[2]; [1]] [] None None (red_first RN) (BDefault RN)), [0].
  split; [apply perm_swap|]. split; [reflexivity|].
  cbn. rn_simpl. intros H. injection H. lra.
Qed.
