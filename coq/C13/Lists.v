(* Generic list facts used by the C13 proofs (update, chunks / concat of uniform rows). *)
From Coq Require Import List ZArith Bool Arith Lia.
From Inferno Require Import C01.Ring C13.Shaped.
Import ListNotations.

Lemma nth_upd_eq {X} (d : X) (l : list X) i o : i < length l -> nth i (upd l i o) d = o.
Proof.
  revert i; induction l as [|h t IH]; intros i Hi; [cbn in Hi; lia|].
  destruct i as [|i]; cbn; auto. apply IH. cbn in Hi; lia.
Qed.
Lemma nth_upd_neq {X} (d : X) (l : list X) i o j : j <> i -> nth j (upd l i o) d = nth j l d.
Proof.
  revert i j; induction l as [|h t IH]; intros i j Hne; [destruct i; reflexivity|].
  destruct i as [|i], j as [|j]; cbn; auto; try lia; try (apply IH; lia).
Qed.
Lemma nth_firstn_lt {X} (d : X) (l : list X) n j : j < n -> nth j (firstn n l) d = nth j l d.
Proof.
  revert l j; induction n as [|n IH]; intros l j Hj; [lia|].
  destruct l as [|h t]; [destruct j; reflexivity|]. destruct j as [|j]; cbn; [reflexivity|]. apply IH; lia.
Qed.
Lemma nth_skipn_add {X} (d : X) (l : list X) n j : nth j (skipn n l) d = nth (n + j) l d.
Proof.
  revert l; induction n as [|n IH]; intros l; [reflexivity|].
  destruct l as [|h t]; [destruct j; reflexivity|]. cbn. apply IH.
Qed.
Lemma nth_repeat_lt {X} (d x : X) n j : j < n -> nth j (repeat x n) d = x.
Proof. revert j; induction n as [|n IH]; intros j Hj; [lia|]. destruct j; cbn; auto. apply IH; lia. Qed.

(* ---- rows of uniform length m ---- *)
Definition uniform {X} (m : nat) (rows : list (list X)) : Prop := Forall (fun r => length r = m) rows.

Lemma concat_length_uniform {X} m (rows : list (list X)) : uniform m rows -> length (concat rows) = length rows * m.
Proof. induction 1 as [|r t Hr Ht IH]; cbn; [reflexivity|]. rewrite app_length, IH, Hr. reflexivity. Qed.

Lemma chunks_concat {X} m (rows : list (list X)) : uniform m rows -> chunks m (length rows) (concat rows) = rows.
Proof.
  induction 1 as [|r t Hr Ht IH]; cbn; [reflexivity|].
  rewrite firstn_app, <- Hr, Nat.sub_diag, firstn_all. cbn [firstn]. rewrite app_nil_r.
  rewrite skipn_app, Nat.sub_diag, skipn_all. cbn [skipn app]. rewrite Hr, IH. reflexivity.
Qed.
Lemma chunks_length {X} m cnt (l : list X) : length (chunks m cnt l) = cnt.
Proof. revert l; induction cnt as [|c IH]; intros l; cbn; auto. Qed.
Lemma chunks_uniform {X} m cnt (l : list X) : length l = cnt * m -> uniform m (chunks m cnt l).
Proof.
  revert l; induction cnt as [|c IH]; intros l Hl; cbn; constructor.
  - rewrite firstn_length. cbn in Hl. lia.
  - apply IH. rewrite skipn_length. cbn in Hl. lia.
Qed.
Lemma concat_chunks {X} m cnt (l : list X) : length l = cnt * m -> concat (chunks m cnt l) = l.
Proof.
  revert l; induction cnt as [|c IH]; intros l Hl; cbn.
  - destruct l; [reflexivity|cbn in Hl; lia].
  - rewrite IH by (rewrite skipn_length; cbn in Hl; lia). apply firstn_skipn.
Qed.

Lemma skipn_concat_uniform {X} m (rows : list (list X)) j : uniform m rows ->
  skipn (j * m) (concat rows) = concat (skipn j rows).
Proof.
  intros H. revert j. induction H as [|r t Hr Ht IH]; intros j; [destruct j; cbn; rewrite ?skipn_nil; reflexivity|].
  destruct j as [|j]; [reflexivity|]. cbn [concat skipn Nat.mul].
  rewrite skipn_app. rewrite skipn_all2 by lia. cbn [app]. rewrite Hr.
  replace (m + j * m - m) with (j * m) by lia. apply IH.
Qed.
Lemma concat_repeat_repeat {X} (x : X) m n : concat (repeat (repeat x m) n) = repeat x (n * m).
Proof. induction n as [|n IH]; cbn; [reflexivity|]. rewrite IH, repeat_app. reflexivity. Qed.
Lemma uniform_skipn {X} m (rows : list (list X)) j : uniform m rows -> uniform m (skipn j rows).
Proof.
  intros H. revert j. induction H; intros [|j]; cbn; try constructor; auto.
Qed.
Lemma uniform_app {X} m (a b : list (list X)) : uniform m a -> uniform m b -> uniform m (a ++ b).
Proof. intros; apply Forall_app; auto. Qed.
Lemma uniform_repeat {X} m (r : list X) n : length r = m -> uniform m (repeat r n).
Proof. intros H. induction n; cbn; constructor; auto. Qed.
Lemma upd_length' {X} (l : list X) i o : length (upd l i o) = length l.
Proof. revert i; induction l as [|h t IH]; intros [|i]; cbn; auto. Qed.

(* ---- number of elements of a shape, split around one dimension ---- *)
Lemma nel_cons a sh : nel (a :: sh) = a * nel sh.
Proof. reflexivity. Qed.
Lemma nel_split sh k : k < length sh -> nel sh = nel (firstn k sh) * (nth k sh 0 * nel (skipn (S k) sh)).
Proof.
  revert k; induction sh as [|a sh IH]; intros k Hk; [cbn in Hk; lia|].
  destruct k as [|k].
  - cbn [firstn nth skipn]. rewrite nel_cons. cbn [nel fold_right]. lia.
  - cbn [firstn nth skipn]. rewrite !nel_cons. rewrite (IH k) by (cbn in Hk; lia). cbn [skipn]. lia.
Qed.
Lemma nel_upd sh k size : k < length sh ->
  nel (upd sh k size) = nel (firstn k sh) * (size * nel (skipn (S k) sh)).
Proof.
  revert k; induction sh as [|a sh IH]; intros k Hk; [cbn in Hk; lia|].
  destruct k as [|k].
  - cbn [upd firstn skipn]. rewrite nel_cons. cbn [nel fold_right]. lia.
  - cbn [upd firstn skipn]. rewrite !nel_cons. rewrite (IH k) by (cbn in Hk; lia). cbn [skipn]. lia.
Qed.

Lemma concat_length_uniform' {X} m (rows : list (list X)) : uniform m rows -> length (concat rows) = length rows * m.
Proof. apply concat_length_uniform. Qed.

Lemma uniform_map {X} m m' (f : list X -> list X) (rows : list (list X)) :
  (forall r, length r = m -> length (f r) = m') -> uniform m rows -> uniform m' (map f rows).
Proof. intros Hf H. induction H; cbn; constructor; auto. Qed.

Lemma resize_dim_length {X} (z : X) sh fl k size : k < length sh -> length fl = nel sh ->
  length (resize_dim z sh fl k size) = nel (upd sh k size).
Proof.
  intros Hk Hl. unfold resize_dim. rewrite (nel_upd sh k size Hk).
  set (outer := nel (firstn k sh)). set (n := nth k sh 0). set (inner := nel (skipn (S k) sh)).
  assert (Hl' : length fl = outer * (n * inner)) by (rewrite Hl; apply nel_split; exact Hk).
  pose proof (chunks_uniform (n * inner) outer fl Hl') as Hu.
  destruct (Nat.ltb_spec size n) as [H1|H1].
  - rewrite (concat_length_uniform (size * inner)).
    + rewrite map_length, chunks_length. reflexivity.
    + eapply uniform_map; [|exact Hu]. intros r Hr. rewrite skipn_length, Hr. nia.
  - destruct (Nat.ltb_spec n size) as [H2|H2].
    + rewrite (concat_length_uniform (size * inner)).
      * rewrite map_length, chunks_length. reflexivity.
      * eapply uniform_map; [|exact Hu]. intros r Hr. rewrite app_length, repeat_length, Hr. nia.
    + assert (size = n) as -> by lia. exact Hl'.
Qed.

(* ---- resizing a trailing dimension of a record acts on every stored observation ---- *)
Lemma chunks_app {X} b c1 c2 (l1 l2 : list X) : length l1 = c1 * b ->
  chunks b (c1 + c2) (l1 ++ l2) = chunks b c1 l1 ++ chunks b c2 l2.
Proof.
  revert l1; induction c1 as [|c1 IH]; intros l1 Hl; cbn [Nat.add chunks].
  - destruct l1; [reflexivity|cbn in Hl; lia].
  - cbn in Hl. rewrite firstn_app, skipn_app.
    replace (b - length l1) with 0 by lia. cbn [firstn skipn]. rewrite app_nil_r.
    cbn [app]. f_equal. rewrite <- IH by (rewrite skipn_length; lia). reflexivity.
Qed.
Lemma chunks_concat_rows {X} b outer (rows : list (list X)) : uniform (outer * b) rows ->
  chunks b (length rows * outer) (concat rows) = concat (map (chunks b outer) rows).
Proof.
  induction 1 as [|r t Hr Ht IH]; cbn [length Nat.mul concat map]; [reflexivity|].
  rewrite chunks_app by exact Hr. rewrite IH. reflexivity.
Qed.
Lemma concat_map_concat {X Y} (f : list X -> list Y) (g : list X -> list (list X)) (rows : list (list X)) :
  concat (map f (concat (map g rows))) = concat (map (fun row => concat (map f (g row))) rows).
Proof.
  induction rows as [|r t IH]; cbn [map concat]; [reflexivity|].
  rewrite map_app, concat_app, IH. reflexivity.
Qed.

Lemma resize_dim_succ {X} (z : X) sh (rows : list (list X)) k size : k < length sh -> uniform (nel sh) rows ->
  resize_dim z (length rows :: sh) (concat rows) (S k) size =
  concat (map (fun row => resize_dim z sh row k size) rows).
Proof.
  intros Hk Hu. unfold resize_dim.
  change (firstn (S k) (length rows :: sh)) with (length rows :: firstn k sh).
  change (nth (S k) (length rows :: sh) 0) with (nth k sh 0).
  change (skipn (S (S k)) (length rows :: sh)) with (skipn (S k) sh).
  rewrite nel_cons.
  set (outer := nel (firstn k sh)). set (n := nth k sh 0). set (inner := nel (skipn (S k) sh)).
  assert (Hu' : uniform (outer * (n * inner)) rows).
  { unfold uniform in *. eapply Forall_impl; [|exact Hu]. intros r Hr. rewrite Hr. apply nel_split. exact Hk. }
  rewrite (chunks_concat_rows (n * inner) outer rows Hu').
  destruct (size <? n).
  - apply concat_map_concat.
  - destruct (n <? size).
    + apply concat_map_concat.
    + rewrite map_id. reflexivity.
Qed.

Lemma shape_eqb_eq a b : shape_eqb a b = true -> a = b.
Proof.
  unfold shape_eqb. revert b; induction a as [|x a IH]; intros [|y b]; cbn; try discriminate; auto.
  intros H. apply andb_true_iff in H as [H1 H2].
  apply andb_true_iff in H2 as [H2 H3]. apply Nat.eqb_eq in H2. subst. f_equal. apply IH.
  rewrite H1. exact H3.
Qed.
Lemma uniform_upd {X} m (l : list (list X)) i row : uniform m l -> length row = m -> uniform m (upd l i row).
Proof.
  intros H Hr. revert i; induction H as [|h t Hh Ht IH]; intros [|i]; cbn; try constructor; auto.
  apply IH.
Qed.
Lemma splice_is_upd {X} (l : list X) i o : i < length l -> firstn i l ++ [o] ++ skipn (i + 1) l = upd l i o.
Proof.
  revert i; induction l as [|h t IH]; intros i Hi; [cbn in Hi; lia|].
  destruct i as [|i]; cbn; [reflexivity|]. f_equal. apply IH. cbn in Hi; lia.
Qed.
