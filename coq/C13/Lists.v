(* Generic list facts used by the C13 proofs (update, chunks / concat of uniform rows). *)
From Coq Require Import List ZArith Bool Arith Lia.
From Inferno Require Import C01.Ring C13.Shaped.
Import ListNotations.

Lemma nth_upd_eq {X} (d : X) (l : list X) i o : i < length l -> nth i (upd l i o) d = o.
Proof.
  revert i; induction l as [|h t IH]; intros i Hi; [cbn in Hi; lia|].
  destruct i as [|i]; cbn; auto. apply IH. cbn in Hi; lia.
Qed.
Lemma nth_upd_neq {X} (d : X) (l : list X) i o j : j <> i -> nth j (upd l i o) d = nth j l d.
Proof.
  revert i j; induction l as [|h t IH]; intros i j Hne; [destruct i; reflexivity|].
  destruct i as [|i], j as [|j]; cbn; auto; try lia; try (apply IH; lia).
Qed.
Lemma nth_firstn_lt {X} (d : X) (l : list X) n j : j < n -> nth j (firstn n l) d = nth j l d.
Proof.
  revert l j; induction n as [|n IH]; intros l j Hj; [lia|].
  destruct l as [|h t]; [destruct j; reflexivity|]. destruct j as [|j]; cbn; [reflexivity|]. apply IH; lia.
Qed.
Lemma nth_skipn_add {X} (d : X) (l : list X) n j : nth j (skipn n l) d = nth (n + j) l d.
Proof.
  revert l; induction n as [|n IH]; intros l; [reflexivity|].
  destruct l as [|h t]; [destruct j; reflexivity|]. cbn. apply IH.
Qed.
Lemma nth_repeat_lt {X} (d x : X) n j : j < n -> nth j (repeat x n) d = x.
Proof. revert j; induction n as [|n IH]; intros j Hj; [lia|]. destruct j; cbn; auto. apply IH; lia. Qed.

(* ---- rows of uniform length m ---- *)
Definition uniform {X} (m : nat) (rows : list (list X)) : Prop := Forall (fun r => length r = m) rows.

Lemma concat_length_uniform {X} m (rows : list (list X)) : uniform m rows -> length (concat rows) = length rows * m.
Proof. induction 1 as [|r t Hr Ht IH]; cbn; [reflexivity|]. rewrite app_length, IH, Hr. reflexivity. Qed.

Lemma chunks_concat {X} m (rows : list (list X)) : uniform m rows -> chunks m (length rows) (concat rows) = rows.
Proof.
  induction 1 as [|r t Hr Ht IH]; cbn; [reflexivity|].
  rewrite firstn_app, <- Hr, Nat.sub_diag, firstn_all. cbn [firstn]. rewrite app_nil_r.
  rewrite skipn_app, Nat.sub_diag, skipn_all. cbn [skipn app]. rewrite Hr, IH. reflexivity.
Qed.
Lemma chunks_length {X} m cnt (l : list X) : length (chunks m cnt l) = cnt.
Proof. revert l; induction cnt as [|c IH]; intros l; cbn; auto. Qed.
Lemma chunks_uniform {X} m cnt (l : list X) : length l = cnt * m -> uniform m (chunks m cnt l).
Proof.
  revert l; induction cnt as [|c IH]; intros l Hl; cbn; constructor.
  - rewrite firstn_length. cbn in Hl. lia.
  - apply IH. rewrite skipn_length. cbn in Hl. lia.
Qed.
Lemma concat_chunks {X} m cnt (l : list X) : length l = cnt * m -> concat (chunks m cnt l) = l.
Proof.
  revert l; induction cnt as [|c IH]; intros l Hl; cbn.
  - destruct l; [reflexivity|cbn in Hl; lia].
  - rewrite IH by (rewrite skipn_length; cbn in Hl; lia). apply firstn_skipn.
Qed.

Lemma skipn_concat_uniform {X} m (rows : list (list X)) j : uniform m rows ->
  skipn (j * m) (concat rows) = concat (skipn j rows).
Proof.
  intros H. revert j. induction H as [|r t Hr Ht IH]; intros j; [destruct j; cbn; rewrite ?skipn_nil; reflexivity|].
  destruct j as [|j]; [reflexivity|]. cbn [concat skipn Nat.mul].
  rewrite skipn_app. rewrite skipn_all2 by lia. cbn [app]. rewrite Hr.
  replace (m + j * m - m) with (j * m) by lia. apply IH.
Qed.
Lemma concat_repeat_repeat {X} (x : X) m n : concat (repeat (repeat x m) n) = repeat x (n * m).
Proof. induction n as [|n IH]; cbn; [reflexivity|]. rewrite IH, repeat_app. reflexivity. Qed.
Lemma uniform_skipn {X} m (rows : list (list X)) j : uniform m rows -> uniform m (skipn j rows).
Proof.
  intros H. revert j. induction H; intros [|j]; cbn; try constructor; auto.
Qed.
Lemma uniform_app {X} m (a b : list (list X)) : uniform m a -> uniform m b -> uniform m (a ++ b).
Proof. intros; apply Forall_app; auto. Qed.
Lemma uniform_repeat {X} m (r : list X) n : length r = m -> uniform m (repeat r n).
Proof. intros H. induction n; cbn; constructor; auto. Qed.
Lemma upd_length' {X} (l : list X) i o : length (upd l i o) = length l.
Proof. revert i; induction l as [|h t IH]; intros [|i]; cbn; auto. Qed.
