(* Executable instances of the C13 models for the correspondence check (binary64 numbers, integer
   elements z standing for z/2, data types 0 = bool, 1 = int64, 2 = float64 as in C01/RingExec.v). *)
From Coq Require Import List ZArith Bool.
From Inferno Require Import Base.Num Base.NumF C01.Ring C01.RingExec C13.Shaped C13.Resize.
Import ListNotations.

Definition tensor0 := @tensor Z Z.
Definition sdata0 := @sdata Z Z.
Definition shaped0 := @shaped Z Z.
Definition rec0 := @rec FN Z Z.

Definition ser_xerr (e : option xerr) : tree :=
  match e with
  | None => L 0 | Some XRuntime => L 1 | Some XValue => L 2 | Some XIndex => L 3 | Some XAttr => L 5
  end%Z.
Definition ser_cons (c : cons_t) : tree := ser_list (ser_pair ser_Z ser_nat) c.
Definition ser_sdata (x : sdata0) : tree :=
  match x with
  | DNone => Nd [L 0]
  | DUninit => Nd [L 1]
  | DTensor t => Nd [L 2; L (tdt t); ser_shape (tshape t); ser_list ser_Z (tflat t)]
  end%Z.

(* ---------------- ShapedTensor ---------------- *)
Definition ser_shaped (s : shaped0) : tree :=
  Nd [ser_cons (scons s); ser_sdata (sdat s); ser_bool (valid s); ser_bool (ignore (sdat s));
      L (constraint_dimensionality (scons s) (sstrict s));
      ser_bool (sparam s && match sdat s with DNone => false | _ => true end)].

Fixpoint strace (s : shaped0) (ops : list (@sop Z Z)) : list tree :=
  match ops with
  | [] => []
  | o :: tl => let '(s', e) := sstep 0%Z s o in Nd [ser_xerr e; ser_shaped s'] :: strace s' tl
  end.
Definition shaped_case (strict live param : bool) (c : cons_t) (x : sdata0) (ops : list (@sop Z Z)) : tree :=
  match create strict live param c x with
  | inl s => Nd (Nd [L 0; ser_shaped s] :: strace s ops)
  | inr e => Nd [Nd [ser_xerr (Some e)]]
  end%Z.

(* ---------------- RecordTensor ---------------- *)
Definition ser_rec (r : rec0) : tree :=
  Nd [ser_state (rg FN r); ser_cons (rcons FN r); ser_float (rdt FN r); ser_float (rdur FN r); ser_bool (rincl FN r);
      ser_bool (rvalid FN r); ser_bool (rignored FN r);
      ser_bool (rparam FN r && match st (rg FN r) with SNone => false | _ => true end);
      ser_cons (user_cons FN r)].

Definition rstep0 : rec0 -> rop FN -> rec0 * option xerr * option (@output Z Z) :=
  @rstep FN Z Z castZ promoteZ Z.eqb 0%Z 2%Z.

Fixpoint rtrace (r : rec0) (ops : list (rop FN)) : list tree :=
  match ops with
  | [] => []
  | o :: tl =>
      let '(r', e, out) := rstep0 r o in
      Nd [ser_xerr e; ser_option ser_out out; ser_rec r'] :: rtrace r' tl
  end.
Definition record_case (strict live param : bool) (ucons : cons_t) (dt dur : PrimFloat.float) (incl : bool)
                       (value : option tensor0) (ops : list (rop FN)) : tree :=
  match rcreate FN strict live param ucons dt dur incl value with
  | inl r => Nd (Nd [L 0; ser_rec r] :: rtrace r ops)
  | inr e => Nd [Nd [ser_xerr (Some e)]]
  end%Z.
