(* Model of inferno.core.infrastructure.ShapedTensor: the constraint dictionary, compatibility /
   validity tests and reconstrain (add / edit / remove a constraint, with the tail-preserving shrink and
   the zero-prepending grow of __make_compatible), mirroring the code branch by branch.
   Definitions only (no proofs): this file must keep compiling and running for the correspondence
   check when a proof elsewhere is broken.

   A tensor is (data type, shape, flat row-major elements).  The constraint dictionary is an
   association list dim -> size with unique keys (python dict: assignment to an existing key keeps its
   position, a new key is appended, del removes). *)
From Coq Require Import List ZArith Bool Arith Lia.
From Inferno Require Import C01.Ring.
Import ListNotations.

(* exception classes distinguished by the model *)
Inductive xerr := XRuntime | XValue | XIndex | XAttr.
Definition xerr_of (e : Ring.err) : xerr :=
  match e with ERuntime => XRuntime | EValue => XValue | EIndex => XIndex end.

Definition cons_t := list (Z * nat).

Fixpoint lookup (c : cons_t) (d : Z) : option nat :=
  match c with
  | [] => None
  | (k, s) :: tl => if (k =? d)%Z then Some s else lookup tl d
  end.
(* constraints[dim] = size   and   constraints | {dim: size} *)
Fixpoint dict_set (c : cons_t) (d : Z) (s : nat) : cons_t :=
  match c with
  | [] => [(d, s)]
  | (k, s0) :: tl => if (k =? d)%Z then (k, s) :: tl else (k, s0) :: dict_set tl d s
  end.
(* del constraints[dim] *)
Fixpoint dict_del (c : cons_t) (d : Z) : cons_t :=
  match c with
  | [] => []
  | (k, s0) :: tl => if (k =? d)%Z then tl else (k, s0) :: dict_del tl d
  end.

(* python indexing of a sequence of length nd with a possibly negative index *)
Definition pyidx (nd : nat) (d : Z) : nat :=
  if (0 <=? d)%Z then Z.to_nat d else Z.to_nat (Z.of_nat nd + d).

(* hand-transcribed: inferno/core/infrastructure.py:188-203 (_constraint_dimensionality) *)
Definition constraint_dimensionality (c : cons_t) (strict : bool) : Z :=
  match map fst c with
  | [] => 0
  | k :: ks =>
      let mx := fold_right Z.max k ks in
      let mn := fold_right Z.min k ks in
      if strict then (Z.max (mx + 1) 0 - Z.min mn 0)%Z
      else Z.max (mx + 1) (Z.abs mn)
  end.

(* hand-transcribed: inferno/core/infrastructure.py:227-251 (_constraints_consistent): the loop over
   constraints.items() with the list of hypothesised sizes *)
Fixpoint consistent_loop (ndims : nat) (c : cons_t) (hyp : list (option nat)) : bool :=
  match c with
  | [] => true
  | (d, s) :: tl =>
      match nth (pyidx ndims d) hyp None with
      | None => consistent_loop ndims tl (upd hyp (pyidx ndims d) (Some s))
      | Some s0 => if s0 =? s then consistent_loop ndims tl hyp else false
      end
  end.
Definition constraints_consistent (c : cons_t) (ndims : nat) : bool :=
  consistent_loop ndims c (repeat None ndims).

Fixpoint chunks {X} (m cnt : nat) (l : list X) : list (list X) :=
  match cnt with
  | O => []
  | S c => firstn m l :: chunks m c (skipn m l)
  end.

Section Shaped.
Context {A D : Type}.
Variable zeroA : A.

Record tensor := mkT { tdt : D; tshape : list nat; tflat : list A }.
(* value of the attribute: None, an nn.UninitializedBuffer / nn.UninitializedParameter, or a tensor *)
Inductive sdata := DNone | DUninit | DTensor (t : tensor).

Definition ndim (t : tensor) : nat := length (tshape t).

(* infrastructure.py:206-224 (_constraints_compatible) *)
Definition constraints_compatible (t : tensor) (c : cons_t) (strict : bool) : bool :=
  if (Z.of_nat (ndim t) <? constraint_dimensionality c strict)%Z then false
  else forallb (fun ds => nth (pyidx (ndim t) (fst ds)) (tshape t) 0 =? snd ds) c.

(* infrastructure.py:430-443 (_ignore): None, uninitialised, or no elements and at most one dimension *)
Definition ignore (x : sdata) : bool :=
  match x with
  | DTensor t => (nel (tshape t) =? 0) && (ndim t <=? 1)
  | _ => true
  end.
(* infrastructure.py:446-466 *)
Definition ignore_or_compatible (x : sdata) (c : cons_t) (strict : bool) : bool :=
  match x with
  | DTensor t => ignore x || constraints_compatible t c strict
  | _ => true
  end.

(* resize dimension k of a row-major tensor to [size]: keep the tail (highest indices) when shrinking,
   prepend zeros when growing *)
Definition resize_dim (sh : list nat) (fl : list A) (k size : nat) : list A :=
  let outer := nel (firstn k sh) in
  let n := nth k sh 0 in
  let inner := nel (skipn (S k) sh) in
  let blocks := chunks (n * inner) outer fl in
  if size <? n then concat (map (skipn ((n - size) * inner)) blocks)
  else if n <? size then concat (map (fun b => repeat zeroA ((size - n) * inner) ++ b) blocks)
  else fl.

(* infrastructure.py:408-427 (__make_compatible) *)
Definition make_compatible (t : tensor) (dim : Z) (size : nat) : tensor :=
  let k := pyidx (ndim t) dim in
  let n := nth k (tshape t) 0 in
  if size <? n then mkT (tdt t) (upd (tshape t) k size) (resize_dim (tshape t) (tflat t) k size)
  else if n <? size then mkT (tdt t) (upd (tshape t) k size) (resize_dim (tshape t) (tflat t) k size)
  else t.   (* a parameter's .data, or the tensor itself: the same values *)

(* the attribute: strict / live flags, whether the value is (and therefore stays) an nn.Parameter,
   the constraint dictionary and the value *)
Record shaped := mkShaped { sstrict : bool; slive : bool; sparam : bool; scons : cons_t; sdat : sdata }.

Definition set_cons (s : shaped) (c : cons_t) : shaped :=
  mkShaped (sstrict s) (slive s) (sparam s) c (sdat s).
Definition set_dat (s : shaped) (x : sdata) : shaped :=
  mkShaped (sstrict s) (slive s) (sparam s) (scons s) x.

(* infrastructure.py:302-353 (__init__): refuses an initial value that is neither ignored nor compatible *)
Definition create (strict live param : bool) (c : cons_t) (x : sdata) : shaped + xerr :=
  if ignore_or_compatible x c strict then inl (mkShaped strict live param c x) else inr XRuntime.

(* infrastructure.py:698-710 (valid; the owner is kept alive) *)
Definition valid (s : shaped) : bool := ignore_or_compatible (sdat s) (scons s) (sstrict s).

(* infrastructure.py:621-637 (value setter) with the internal data setter 551-562: a plain tensor
   assigned over a parameter goes to its .data (so the attribute stays a parameter) *)
Definition set_value (s : shaped) (x : sdata) : shaped * option xerr :=
  if sparam s && match x with DNone => true | _ => false end then (s, Some XRuntime)
  else if slive s then
    if ignore_or_compatible x (scons s) (sstrict s) then (set_dat s x, None) else (s, Some XValue)
  else (set_dat s x, None).

(* infrastructure.py:732-842 (reconstrain).  Result: the state after the call and the exception raised,
   if any (the removal branch deletes the constraint before it tests validity). *)
Definition reconstrain (s : shaped) (dim : Z) (size : option Z) : shaped * option xerr :=
  if match size with Some z => (z <? 0)%Z | None => false end then (s, Some XValue)   (* argtest.gte *)
  else
    let c := scons s in
    let strict := sstrict s in
    match lookup c dim, option_map Z.to_nat size with
    | None, None => (s, Some XValue)                       (* remove an unconstrained dim *)
    | None, Some sz =>                                     (* create a constraint *)
        match sdat s with
        | DTensor t =>
            if ignore (sdat s) then (set_cons s (dict_set c dim sz), None)
            else if constraints_compatible t c strict then
              if constraints_compatible t (dict_set c dim sz) strict
              then (set_cons s (dict_set c dim sz), None)
              else (s, Some XValue)
            else (s, Some XRuntime)
        | _ => (set_cons s (dict_set c dim sz), None)
        end
    | Some _, None =>                                      (* remove a constraint *)
        let s' := set_cons s (dict_del c dim) in
        if ignore_or_compatible (sdat s) (dict_del c dim) strict then (s', None) else (s', Some XRuntime)
    | Some _, Some sz =>                                   (* alter a constraint *)
        match sdat s with
        | DTensor t =>
            if ignore (sdat s) then (set_cons s (dict_set c dim sz), None)
            else if (constraint_dimensionality c strict <=? Z.of_nat (ndim t))%Z
                    && constraints_consistent (dict_set c dim sz) (ndim t) then
              let c' := dict_set c dim sz in
              if constraints_compatible t c' strict then (set_cons s c', None)
              else (mkShaped (sstrict s) (slive s) (sparam s) c' (DTensor (make_compatible t dim sz)), None)
            else (s, Some XRuntime)
        | _ => (set_cons s (dict_set c dim sz), None)
        end
    end.

(* operations as data, and runs (an exception leaves whatever state the call had reached) *)
Inductive sop :=
| SRecon (dim : Z) (size : option Z)
| SSetValue (x : sdata).

Definition sstep (s : shaped) (o : sop) : shaped * option xerr :=
  match o with
  | SRecon d z => reconstrain s d z
  | SSetValue x => set_value s x
  end.

Fixpoint srun (s : shaped) (ops : list sop) : shaped :=
  match ops with
  | [] => s
  | o :: tl => srun (fst (sstep s o)) tl
  end.

End Shaped.
