(* The tie of the hand-written ShapedTensor model (C13/Shaped.v) to the definitions GENERATED from the source
   (Gen/Constraints.v, re-translated from inferno/core/infrastructure.py on every run): every function of the model
   that mirrors a translated function is proved EQUAL to the generated one, so every C13 theorem is a theorem about
   the translated code, and an edit of the source that changes a generated definition breaks these obligations.
   No axioms. *)
From Coq Require Import List ZArith Bool Arith Lia.
From Inferno Require Import Base.Num Gen.Constraints C01.Ring C13.Shaped C13.Lists C13.ShapedProofs C13.Resize.
Import ListNotations.

(* ------------------------------------------------------------------ the reading of the python primitives *)
Lemma py_in_lookup c d : py_in c d = match lookup c d with Some _ => true | None => false end.
Proof. induction c as [|[k s] tl IH]; cbn; [reflexivity|]. destruct (k =? d)%Z; [reflexivity|exact IH]. Qed.
Lemma py_setitem_eq c d s : py_setitem c d s = dict_set c d s.
Proof. induction c as [|[k s0] tl IH]; cbn; [reflexivity|]. destruct (k =? d)%Z; [reflexivity|now rewrite IH]. Qed.
Lemma py_delitem_eq c d : py_delitem c d = dict_del c d.
Proof. induction c as [|[k s0] tl IH]; cbn; [reflexivity|]. destruct (k =? d)%Z; [reflexivity|now rewrite IH]. Qed.
Lemma py_index_eq n d : py_index n d = pyidx n d.
Proof. reflexivity. Qed.
Lemma py_list_set_eq {X} (l : list X) i x : py_list_set l i x = upd l i x.
Proof. revert i; induction l as [|h t IH]; intros [|i]; cbn; auto. Qed.
Lemma py_numel_eq sh : py_numel sh = nel sh.
Proof. reflexivity. Qed.

(* ------------------------------------------------------------------ _constraint_dimensionality *)
Theorem gen_dimensionality_eq c strict : constraint_dimensionality c strict = _constraint_dimensionality c strict.
Proof.
  unfold constraint_dimensionality, _constraint_dimensionality, py_max_key, py_min_key.
  destruct c as [|[k s] tl]; [reflexivity|]. cbn [map fst py_empty]. destruct strict; reflexivity.
Qed.

(* ------------------------------------------------------------------ _constraints_consistent *)
Lemma gen_consistent_loop_eq nd : forall c hyp, length hyp = nd ->
  consistent_loop nd c hyp = _constraints_consistent_loop c hyp.
Proof.
  induction c as [|[d s] tl IH]; intros hyp Hl; [reflexivity|].
  cbn -[nth pyidx py_getitem py_setitem_list py_opt_is_none py_opt_eqb Nat.eqb upd]. unfold py_getitem, py_setitem_list.
  change (py_index (length hyp) d) with (pyidx (length hyp) d). rewrite Hl. destruct (nth (pyidx nd d) hyp None) as [s0|]; cbn [py_opt_is_none py_opt_eqb].
  - destruct (s0 =? s); [apply IH; exact Hl|reflexivity].
  - apply (IH (upd hyp (pyidx nd d) (Some s))). rewrite upd_length'. exact Hl.
Qed.
Theorem gen_consistent_eq c nd : constraints_consistent c nd = _constraints_consistent c nd.
Proof. unfold constraints_consistent, _constraints_consistent. apply gen_consistent_loop_eq. apply repeat_length. Qed.

Section GenTie.
Context {A D : Type}.
Variable zeroA : A.
Notation tensor := (@tensor A D).
Notation sdata := (@sdata A D).
Notation shaped := (@shaped A D).

(* what the bookkeeping sees of the attribute's value *)
Definition pd_of (x : sdata) : pydata :=
  match x with DNone => PyNone | DUninit => PyUninit | DTensor t => PyTensor (tshape t) end.

(* ------------------------------------------------------------------ _constraints_compatible, ShapedTensor.compatible *)
Theorem gen_compatible_eq (t : tensor) c strict :
  constraints_compatible t c strict = _constraints_compatible (tshape t) c strict.
Proof.
  unfold constraints_compatible, _constraints_compatible, ndim. rewrite <- gen_dimensionality_eq.
  destruct (_ <? _)%Z; reflexivity.
Qed.
Theorem gen_compatible_method_eq (t : tensor) c strict :
  constraints_compatible t c strict = ShapedTensor_compatible (tshape t) c strict.
Proof. unfold ShapedTensor_compatible. apply gen_compatible_eq. Qed.

(* ------------------------------------------------------------------ ShapedTensor._ignore, ._ignore_or_compatible, .valid *)
Lemma ignore_bool (a : bool) n : negb (negb a || (1 <? n)) = a && (n <=? 1).
Proof. destruct a, (Nat.ltb_spec 1 n), (Nat.leb_spec n 1); try reflexivity; lia. Qed.

Theorem gen_ignore_eq (x : sdata) : ignore x = ShapedTensor__ignore (pd_of x).
Proof.
  destruct x as [| |t]; [reflexivity|reflexivity|].
  unfold ignore, ShapedTensor__ignore, pd_of, ndim. cbn [pd_is_none pd_is_uninit pd_shape orb].
  rewrite ignore_bool. reflexivity.
Qed.
Theorem gen_ignore_or_compatible_eq (x : sdata) c strict :
  ignore_or_compatible x c strict = ShapedTensor__ignore_or_compatible (pd_of x) c strict.
Proof.
  destruct x as [| |t]; [reflexivity|reflexivity|].
  unfold ignore_or_compatible, ignore, ShapedTensor__ignore_or_compatible, pd_of, ndim.
  cbn [pd_is_none pd_is_uninit pd_shape orb]. rewrite ignore_bool, <- gen_compatible_eq. reflexivity.
Qed.
(* valid, the owner being kept alive *)
Theorem gen_valid_eq (s : shaped) : valid s = ShapedTensor_valid true (pd_of (sdat s)) (scons s) (sstrict s).
Proof. unfold valid, ShapedTensor_valid. cbn [andb]. apply gen_ignore_or_compatible_eq. Qed.

(* ------------------------------------------------------------------ ShapedTensor.reconstrain: decision logic *)
Definition xerr_of_exc (e : pyexc) : xerr :=
  match e with ExcValueError => XValue | ExcRuntimeError => XRuntime | ExcAssertionError => XRuntime end.

(* the model's reconstrain is the generated decision, acted out on the model state: the constraint dictionary the
   generated function leaves behind, the data passed through __make_compatible exactly when it says so, the
   exception it raises *)
Theorem gen_reconstrain_eq (s : shaped) (d : Z) (z : option Z) :
  reconstrain zeroA s d z =
  match ShapedTensor_reconstrain (pd_of (sdat s)) (scons s) (sstrict s) d z with
  | RcReturn c false => (set_cons s c, None)
  | RcReturn c true =>
      match sdat s, z with
      | DTensor t, Some zz =>
          (mkShaped (sstrict s) (slive s) (sparam s) c (DTensor (make_compatible zeroA t d (Z.to_nat zz))), None)
      | _, _ => (set_cons s c, None)
      end
  | RcRaise e c => (set_cons s c, Some (xerr_of_exc e))
  end.
Proof.
  destruct s as [strict live param c x]. unfold reconstrain, ShapedTensor_reconstrain, set_cons.
  cbn [sstrict slive sparam scons sdat]. change py_setitem with dict_set. change py_delitem with dict_del.
  destruct z as [z|]; cbn [option_map]; [destruct (z <? 0)%Z; [reflexivity|]|].
  - (* a size *)
    rewrite py_in_lookup. destruct (lookup c d) as [s0|] eqn:El; cbn [negb andb py_opt_is_none].
    + (* alter *)
      destruct x as [| |t]; [reflexivity|reflexivity|]. rewrite <- gen_ignore_eq.
      destruct (ignore (DTensor t)) eqn:Ei; [reflexivity|].
      cbn [pd_of pd_is_none pd_shape]. rewrite <- gen_dimensionality_eq, <- gen_consistent_eq.
      unfold ndim. destruct (_ && _); [|reflexivity].
      rewrite <- gen_compatible_eq. destruct (constraints_compatible t _ strict); reflexivity.
    + (* create *)
      destruct x as [| |t]; [reflexivity|reflexivity|].
      rewrite <- gen_ignore_eq. destruct (ignore (DTensor t)) eqn:Ei; [reflexivity|].
      cbn [pd_of pd_is_none pd_shape]. rewrite <- !gen_compatible_eq.
      destruct (constraints_compatible t c strict); [|reflexivity].
      destruct (constraints_compatible t _ strict); reflexivity.
  - (* removal *)
    rewrite py_in_lookup. destruct (lookup c d) as [s0|] eqn:El; cbn [negb andb py_opt_is_none]; [|reflexivity].
    rewrite <- gen_ignore_or_compatible_eq.
    destruct (ignore_or_compatible x (dict_del c d) strict); reflexivity.
Qed.

End GenTie.

(* ------------------------------------------------------------------ the independent specifications, restated directly
   on the generated functions *)
Theorem gen_dimensionality_spec c strict n : (0 <= n)%Z ->
  ((_constraint_dimensionality c strict <= n)%Z <-> dim_ok c strict n).
Proof. rewrite <- gen_dimensionality_eq. apply dimensionality_le_iff. Qed.

Theorem gen_consistent_spec c nd : in_range nd c ->
  (_constraints_consistent c nd = true <-> pairwise_consistent nd c).
Proof. rewrite <- gen_consistent_eq. apply constraints_consistent_spec. Qed.

(* a shape is reported compatible exactly when every constrained dim exists and has the constrained size (strict:
   front-addressed dims strictly before back-addressed ones) *)
Theorem gen_compatible_spec (shape : list nat) c strict :
  _constraints_compatible shape c strict = true <->
  (forall d s, In (d, s) c ->
     (- Z.of_nat (length shape) <= d < Z.of_nat (length shape))%Z /\ nth (pyidx (length shape) d) shape 0 = s) /\
  (strict = true ->
   forall d1 d2, In d1 (map fst c) -> In d2 (map fst c) -> (0 <= d1)%Z -> (d2 < 0)%Z ->
     pyidx (length shape) d1 < pyidx (length shape) d2).
Proof.
  pose proof (compatible_spec (@mkT nat unit tt shape []) c strict) as H.
  rewrite gen_compatible_eq in H. exact H.
Qed.

(* ------------------------------------------------------------------ RecordTensor.reconstrain: the shifted dimension *)
Lemma gen_record_dim_eq dim : (dim + (if (0 <=? dim)%Z then 1 else 0))%Z = RecordTensor_reconstrain_dim dim.
Proof. unfold RecordTensor_reconstrain_dim. destruct (0 <=? dim)%Z; reflexivity. Qed.

Theorem gen_rreconstrain_eq (Nm : Num) {A D : Type} (zeroA : A) (r : @rec Nm A D) dim size :
  rreconstrain Nm zeroA r dim size =
  match (if rignored Nm r then inl r else align0 Nm r) with
  | inr e => (r, Some e)
  | inl r1 =>
      let '(s', e) := reconstrain zeroA (to_shaped Nm r1) (RecordTensor_reconstrain_dim dim) size in
      (of_shaped Nm r1 s', e)
  end.
Proof. unfold rreconstrain. rewrite gen_record_dim_eq. reflexivity. Qed.
