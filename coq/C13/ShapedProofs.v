(* Proofs about the ShapedTensor model (C13/Shaped.v): the hand-transcribed dimensionality and
   consistency tests characterised by independent specifications, soundness AND completeness of the
   validity test, the effect of reconstrain in each branch, and validity as an invariant of arbitrary
   operation sequences.  No axioms. *)
From Coq Require Import List ZArith Bool Arith Lia.
From Inferno Require Import C01.Ring C13.Shaped C13.Lists.
Import ListNotations.

(* ------------------------------------------------------------------ the constraint dictionary *)
Notation keys c := (map fst c).

Lemma lookup_in c d s : lookup c d = Some s -> In (d, s) c.
Proof.
  induction c as [|[k s0] tl IH]; cbn; [discriminate|].
  destruct (Z.eqb_spec k d) as [->|Hne]; intros H; [injection H as ->; auto|auto].
Qed.
Lemma lookup_none c d : lookup c d = None <-> ~ In d (keys c).
Proof.
  induction c as [|[k s0] tl IH]; cbn; [tauto|].
  destruct (Z.eqb_spec k d) as [->|Hne]; [split; [discriminate|tauto]|]. rewrite IH. tauto.
Qed.
Lemma lookup_some_key c d s : lookup c d = Some s -> In d (keys c).
Proof. intros H. apply lookup_in in H. apply (in_map fst) in H. exact H. Qed.
Lemma in_lookup c d s : NoDup (keys c) -> In (d, s) c -> lookup c d = Some s.
Proof.
  induction c as [|[k s0] tl IH]; cbn; [tauto|]. intros Hnd [H|H].
  - injection H as -> ->. now rewrite Z.eqb_refl.
  - inversion Hnd as [|? ? Hk Hnd']; subst. destruct (Z.eqb_spec k d) as [->|Hne]; [|auto].
    exfalso. apply Hk. apply (in_map fst) in H. exact H.
Qed.

Lemma keys_dict_set_in c d s : In d (keys c) -> keys (dict_set c d s) = keys c.
Proof.
  induction c as [|[k s0] tl IH]; cbn; [tauto|].
  destruct (Z.eqb_spec k d) as [->|Hne]; cbn; [reflexivity|]. intros [H|H]; [congruence|]. now rewrite IH.
Qed.
Lemma keys_dict_set_notin c d s : ~ In d (keys c) -> keys (dict_set c d s) = keys c ++ [d].
Proof.
  induction c as [|[k s0] tl IH]; cbn; [reflexivity|].
  destruct (Z.eqb_spec k d) as [->|Hne]; cbn; [tauto|]. intros H. rewrite IH by tauto. reflexivity.
Qed.
Lemma in_dict_set c d s d' s' : NoDup (keys c) ->
  (In (d', s') (dict_set c d s) <-> (d' = d /\ s' = s) \/ (d' <> d /\ In (d', s') c)).
Proof.
  induction c as [|[k s0] tl IH]; cbn.
  - intros _. split; [intros [H|[]]; injection H as <- <-; auto|intros [[-> ->]|[_ []]]; auto].
  - intros Hnd. inversion Hnd as [|? ? Hk Hnd']; subst.
    destruct (Z.eqb_spec k d) as [->|Hne]; cbn.
    + split.
      * intros [H|H]; [injection H as <- <-; auto|]. right. split; [|auto].
        intros ->. apply Hk. apply (in_map fst) in H. exact H.
      * intros [[-> ->]|[Hne [H|H]]]; auto. injection H as -> _. congruence.
    + rewrite (IH Hnd'). split.
      * intros [H|[[-> ->]|[H1 H2]]]; [injection H as <- <-; right; split; [exact Hne|left; reflexivity]|tauto|tauto].
      * intros [[-> ->]|[H1 [H|H]]]; tauto.
Qed.
Lemma in_dict_del c d d' s' : In (d', s') (dict_del c d) -> In (d', s') c.
Proof.
  induction c as [|[k s0] tl IH]; cbn; [tauto|].
  destruct (Z.eqb_spec k d) as [->|Hne]; cbn; [auto|]. intros [H|H]; auto.
Qed.
Lemma keys_dict_del_incl c d k : In k (keys (dict_del c d)) -> In k (keys c).
Proof.
  rewrite !in_map_iff. intros ([k' s'] & <- & H). exists (k', s'). split; [reflexivity|].
  eapply in_dict_del; eauto.
Qed.
Lemma nodup_dict_del c d : NoDup (keys c) -> NoDup (keys (dict_del c d)).
Proof.
  induction c as [|[k s0] tl IH]; cbn; [auto|]. intros Hnd. inversion Hnd as [|? ? Hk Hnd']; subst.
  destruct (Z.eqb_spec k d) as [->|Hne]; cbn; [exact Hnd'|]. constructor; [|auto].
  intros H. apply Hk. eapply keys_dict_del_incl; eauto.
Qed.
Lemma notin_dict_del c d : NoDup (keys c) -> ~ In d (keys (dict_del c d)).
Proof.
  induction c as [|[k s0] tl IH]; cbn; [tauto|]. intros Hnd. inversion Hnd as [|? ? Hk Hnd']; subst.
  destruct (Z.eqb_spec k d) as [->|Hne]; cbn; [exact Hk|]. intros [H|H]; [congruence|]. now apply IH.
Qed.
Lemma in_dict_del_iff c d d' s' : NoDup (keys c) ->
  (In (d', s') (dict_del c d) <-> d' <> d /\ In (d', s') c).
Proof.
  induction c as [|[k s0] tl IH]; cbn; [tauto|]. intros Hnd. inversion Hnd as [|? ? Hk Hnd']; subst.
  destruct (Z.eqb_spec k d) as [->|Hne]; cbn.
  - split.
    + intros H. split; [|auto]. intros ->. apply Hk. apply (in_map fst) in H. exact H.
    + intros [Hne [H|H]]; [injection H as -> _; congruence|exact H].
  - rewrite (IH Hnd'). split.
    + intros [H|[H1 H2]]; [injection H as <- <-; auto|auto].
    + intros [H1 [H|H]]; auto.
Qed.
Lemma nodup_dict_set c d s : NoDup (keys c) -> NoDup (keys (dict_set c d s)).
Proof.
  induction c as [|[k s0] tl IH]; cbn; [intros _; constructor; [tauto|constructor]|].
  intros Hnd. inversion Hnd as [|? ? Hk Hnd']; subst.
  destruct (Z.eqb_spec k d) as [->|Hne]; cbn; [exact Hnd|]. constructor; [|auto].
  intros H. destruct (in_dec Z.eq_dec d (keys tl)) as [Hin|Hin].
  - rewrite keys_dict_set_in in H by exact Hin. tauto.
  - rewrite keys_dict_set_notin in H by exact Hin. apply in_app_or in H. destruct H as [H|[H|[]]]; [tauto|congruence].
Qed.

(* ------------------------------------------------------------------ _constraint_dimensionality *)
Lemma fold_max_ge k ks x : In x (k :: ks) -> (x <= fold_right Z.max k ks)%Z.
Proof.
  induction ks as [|a t IH]; cbn; [intros [->|[]]; lia|].
  intros [->|[->|H]]; [specialize (IH (or_introl eq_refl))|..|specialize (IH (or_intror H))]; lia.
Qed.
Lemma fold_max_in k ks : In (fold_right Z.max k ks) (k :: ks).
Proof.
  induction ks as [|a t IH]; cbn; [auto|].
  destruct (Z.max_spec a (fold_right Z.max k t)) as [[_ ->]|[_ ->]]; [|auto].
  destruct IH as [H|H]; auto.
Qed.
Lemma fold_min_le k ks x : In x (k :: ks) -> (fold_right Z.min k ks <= x)%Z.
Proof.
  induction ks as [|a t IH]; cbn; [intros [->|[]]; lia|].
  intros [->|[->|H]]; [specialize (IH (or_introl eq_refl))|..|specialize (IH (or_intror H))]; lia.
Qed.
Lemma fold_min_in k ks : In (fold_right Z.min k ks) (k :: ks).
Proof.
  induction ks as [|a t IH]; cbn; [auto|].
  destruct (Z.min_spec a (fold_right Z.min k t)) as [[_ ->]|[_ ->]]; [auto|].
  destruct IH as [H|H]; auto.
Qed.

(* independent reading of "a tensor with n dimensions is big enough for the constrained dims":
   non-strict: every key indexes an existing dim; strict: additionally every non-negative key,
   counted from the front, lies strictly before every negative key, counted from the back *)
Definition dim_ok (c : cons_t) (strict : bool) (n : Z) : Prop :=
  if strict then forall k1 k2, In k1 (keys c) -> In k2 (keys c) -> (Z.max (k1 + 1) 0 - Z.min k2 0 <= n)%Z
  else forall k, In k (keys c) -> (- n <= k < n)%Z.

Lemma dimensionality_le_iff c strict n : (0 <= n)%Z ->
  ((constraint_dimensionality c strict <= n)%Z <-> dim_ok c strict n).
Proof.
  intros Hn. unfold constraint_dimensionality, dim_ok.
  destruct (keys c) as [|k ks] eqn:Ek.
  - destruct strict; split; intros; try lia; contradiction.
  - pose proof (fold_max_in k ks) as Hmi. pose proof (fold_min_in k ks) as Hni.
    destruct strict; split.
    + intros H k1 k2 H1 H2. pose proof (fold_max_ge k ks k1 H1). pose proof (fold_min_le k ks k2 H2). lia.
    + intros H. apply (H _ _ Hmi Hni).
    + intros H x Hx. pose proof (fold_max_ge k ks x Hx). pose proof (fold_min_le k ks x Hx). lia.
    + intros H. pose proof (H _ Hmi). pose proof (H _ Hni). lia.
Qed.

Lemma dim_ok_incl c c' strict n : incl (keys c') (keys c) -> dim_ok c strict n -> dim_ok c' strict n.
Proof. unfold dim_ok. destruct strict; intros Hi H; intros; apply H; auto. Qed.

Lemma dim_ok_range c strict n k : dim_ok c strict n -> In k (keys c) -> (- n <= k < n)%Z.
Proof.
  unfold dim_ok. destruct strict; intros H Hk; [|auto]. pose proof (H k k Hk Hk). lia.
Qed.

Lemma dimensionality_nonneg c strict : (0 <= constraint_dimensionality c strict)%Z.
Proof. unfold constraint_dimensionality. destruct (keys c); [lia|]. destruct strict; lia. Qed.

(* removing a constraint never raises the required dimensionality; editing keeps it *)
Lemma dimensionality_del c d strict :
  (constraint_dimensionality (dict_del c d) strict <= constraint_dimensionality c strict)%Z.
Proof.
  apply (proj2 (dimensionality_le_iff (dict_del c d) strict _ (dimensionality_nonneg c strict))).
  eapply dim_ok_incl; [|apply (proj1 (dimensionality_le_iff c strict _ (dimensionality_nonneg c strict))); lia].
  intros k Hk. eapply keys_dict_del_incl; eauto.
Qed.
Lemma dimensionality_set_in c d s strict : In d (keys c) ->
  constraint_dimensionality (dict_set c d s) strict = constraint_dimensionality c strict.
Proof. intros H. unfold constraint_dimensionality. rewrite keys_dict_set_in by exact H. reflexivity. Qed.

(* ------------------------------------------------------------------ python indexing *)
Lemma pyidx_lt n d : (- Z.of_nat n <= d < Z.of_nat n)%Z -> pyidx n d < n.
Proof. unfold pyidx. destruct (Z.leb_spec 0 d); lia. Qed.
Lemma pyidx_nonneg n d : (0 <= d)%Z -> pyidx n d = Z.to_nat d.
Proof. unfold pyidx. destruct (Z.leb_spec 0 d); lia. Qed.
Lemma pyidx_neg n d : (d < 0)%Z -> pyidx n d = Z.to_nat (Z.of_nat n + d).
Proof. unfold pyidx. destruct (Z.leb_spec 0 d); lia. Qed.

(* ------------------------------------------------------------------ _constraints_consistent *)
(* independent reading: constraints that address the same dimension of an nd-dimensional tensor
   agree on its size *)
Definition pairwise_consistent (nd : nat) (c : cons_t) : Prop :=
  forall d1 s1 d2 s2, In (d1, s1) c -> In (d2, s2) c -> pyidx nd d1 = pyidx nd d2 -> s1 = s2.
Definition agrees (nd : nat) (c : cons_t) (hyp : list (option nat)) : Prop :=
  forall d s s0, In (d, s) c -> nth (pyidx nd d) hyp None = Some s0 -> s0 = s.
Definition in_range (nd : nat) (c : cons_t) : Prop := forall d s, In (d, s) c -> pyidx nd d < nd.

Lemma consistent_loop_spec nd : forall c hyp, length hyp = nd -> in_range nd c ->
  (consistent_loop nd c hyp = true <-> agrees nd c hyp /\ pairwise_consistent nd c).
Proof.
  induction c as [|[d s] tl IH]; intros hyp Hlen Hr.
  - cbn. split; [intros _|reflexivity]. split; intros ? **; contradiction.
  - assert (Hr' : in_range nd tl) by (intros ? ? ?; eapply Hr; right; eauto).
    assert (Hi : pyidx nd d < length hyp) by (rewrite Hlen; eapply Hr; left; reflexivity).
    cbn [consistent_loop]. destruct (nth (pyidx nd d) hyp None) as [s0|] eqn:En.
    + destruct (Nat.eqb_spec s0 s) as [->|Hne].
      * rewrite (IH hyp Hlen Hr'). split.
        -- intros [Ha Hp]. split.
           ++ intros d' s' s0' [H|H] Hn; [injection H as <- <-; congruence|eauto].
           ++ intros d1 s1 d2 s2 [H1|H1] [H2|H2] He.
              ** congruence.
              ** injection H1 as <- <-. apply (Ha d2 s2 s H2). rewrite <- He. exact En.
              ** injection H2 as <- <-. symmetry. apply (Ha d1 s1 s H1). rewrite He. exact En.
              ** eauto.
        -- intros [Ha Hp]. split.
           ++ intros d' s' s0' H Hn. eapply Ha; [right; exact H|exact Hn].
           ++ intros d1 s1 d2 s2 H1 H2. apply Hp; right; assumption.
      * split; [discriminate|]. intros [Ha _]. exfalso. apply Hne. eapply Ha; [left; reflexivity|exact En].
    + rewrite (IH (upd hyp (pyidx nd d) (Some s)) ltac:(rewrite upd_length'; exact Hlen) Hr'). split.
      * intros [Ha Hp]. split.
        -- intros d' s' s0' [H|H] Hn; [injection H as <- <-; congruence|].
           destruct (Nat.eq_dec (pyidx nd d') (pyidx nd d)) as [He|He]; [rewrite He in Hn; congruence|].
           eapply Ha; [exact H|]. rewrite nth_upd_neq by exact He. exact Hn.
        -- intros d1 s1 d2 s2 [H1|H1] [H2|H2] He.
           ++ congruence.
           ++ injection H1 as <- <-. apply (Ha d2 s2 s H2). rewrite <- He. apply nth_upd_eq. exact Hi.
           ++ injection H2 as <- <-. symmetry. apply (Ha d1 s1 s H1). rewrite He. apply nth_upd_eq. exact Hi.
           ++ eauto.
      * intros [Ha Hp]. split.
        -- intros d' s' s0' H Hn.
           destruct (Nat.eq_dec (pyidx nd d') (pyidx nd d)) as [He|He].
           ++ rewrite He, nth_upd_eq in Hn by exact Hi. injection Hn as <-.
              eapply Hp; [left; reflexivity|right; exact H|symmetry; exact He].
           ++ rewrite nth_upd_neq in Hn by exact He. eapply Ha; [right; exact H|exact Hn].
        -- intros d1 s1 d2 s2 H1 H2. apply Hp; right; assumption.
Qed.

Theorem constraints_consistent_spec c nd : in_range nd c ->
  (constraints_consistent c nd = true <-> pairwise_consistent nd c).
Proof.
  intros Hr. unfold constraints_consistent.
  rewrite (consistent_loop_spec nd c (repeat None nd) (repeat_length _ _) Hr). split; [tauto|].
  intros H. split; [|exact H]. intros d s s0 Hin Hn. exfalso.
  rewrite nth_repeat_lt in Hn by (eapply Hr; eauto). discriminate.
Qed.

Lemma in_keys (c : cons_t) k : In k (keys c) <-> exists s, In (k, s) c.
Proof.
  rewrite in_map_iff. split.
  - intros ([k' s] & <- & H). exists s. exact H.
  - intros (s & H). exists (k, s). auto.
Qed.

Section ShapedProofs.
Context {A D : Type}.
Variable zeroA : A.
Notation tensor := (@tensor A D).
Notation sdata := (@sdata A D).
Notation shaped := (@shaped A D).
Notation DTensor := (@DTensor A D).
Notation reconstrain := (@reconstrain A D zeroA).
Notation sstep := (@sstep A D zeroA).
Notation srun := (@srun A D zeroA).

(* ------------------------------------------------------------------ _constraints_compatible *)
(* independent reading of "the tensor satisfies every constraint": every constrained dim exists and
   has the constrained size; with strict constraints every dim addressed from the front lies strictly
   before every dim addressed from the back (so distinct keys address distinct dims) *)
Definition holds (t : tensor) (c : cons_t) : Prop :=
  forall d s, In (d, s) c ->
    (- Z.of_nat (ndim t) <= d < Z.of_nat (ndim t))%Z /\ nth (pyidx (ndim t) d) (tshape t) 0 = s.
Definition front_before_back (nd : nat) (c : cons_t) : Prop :=
  forall d1 d2, In d1 (keys c) -> In d2 (keys c) -> (0 <= d1)%Z -> (d2 < 0)%Z -> pyidx nd d1 < pyidx nd d2.
Definition satisfies (t : tensor) (c : cons_t) (strict : bool) : Prop :=
  holds t c /\ (strict = true -> front_before_back (ndim t) c).

Theorem compatible_spec t c strict : constraints_compatible t c strict = true <-> satisfies t c strict.
Proof.
  unfold constraints_compatible, satisfies.
  destruct (Z.ltb_spec (Z.of_nat (ndim t)) (constraint_dimensionality c strict)) as [Hlt|Hge].
  - split; [discriminate|]. intros [Hh Hs]. exfalso.
    assert (Hok : dim_ok c strict (Z.of_nat (ndim t))).
    { unfold dim_ok. destruct strict.
      - intros k1 k2 H1 H2. pose proof H1 as H1'. pose proof H2 as H2'.
        apply in_keys in H1 as (s1 & H1). apply in_keys in H2 as (s2 & H2).
        destruct (Hh _ _ H1) as [R1 _]. destruct (Hh _ _ H2) as [R2 _].
        destruct (Z_lt_le_dec k1 0) as [N1|P1]; [lia|].
        destruct (Z_lt_le_dec k2 0) as [N2|P2]; [|lia].
        pose proof (Hs eq_refl k1 k2 H1' H2' P1 N2) as Hlt'.
        rewrite pyidx_nonneg, pyidx_neg in Hlt' by lia. lia.
      - intros k Hk. apply in_keys in Hk as (s & Hk). destruct (Hh _ _ Hk) as [R _]. exact R. }
    apply dimensionality_le_iff in Hok; lia.
  - assert (Hok : dim_ok c strict (Z.of_nat (ndim t))) by (apply dimensionality_le_iff; lia).
    rewrite forallb_forall. split.
    + intros Hf. split.
      * intros d s Hin. split.
        -- eapply dim_ok_range; [exact Hok|]. apply in_keys. eauto.
        -- specialize (Hf _ Hin). cbn in Hf. apply Nat.eqb_eq in Hf. exact Hf.
      * intros -> d1 d2 H1 H2 P1 N2. unfold dim_ok in Hok. pose proof (Hok d1 d2 H1 H2).
        rewrite pyidx_nonneg, pyidx_neg by lia. lia.
    + intros [Hh _] [d s] Hin. cbn. apply Nat.eqb_eq. apply (Hh _ _ Hin).
Qed.

(* with strict constraints distinct keys address distinct dimensions *)
Theorem strict_distinct t c : constraints_compatible t c true = true ->
  forall d1 d2, In d1 (keys c) -> In d2 (keys c) -> pyidx (ndim t) d1 = pyidx (ndim t) d2 -> d1 = d2.
Proof.
  intros H. apply compatible_spec in H as [Hh Hs]. specialize (Hs eq_refl).
  intros d1 d2 H1 H2 He. pose proof H1 as H1'. pose proof H2 as H2'.
  apply in_keys in H1' as (s1 & K1). apply in_keys in H2' as (s2 & K2).
  destruct (Hh _ _ K1) as [R1 _]. destruct (Hh _ _ K2) as [R2 _].
  destruct (Z_lt_le_dec d1 0) as [N1|P1]; destruct (Z_lt_le_dec d2 0) as [N2|P2].
  - rewrite !pyidx_neg in He by lia. lia.
  - pose proof (Hs d2 d1 H2 H1 P2 N1). lia.
  - pose proof (Hs d1 d2 H1 H2 P1 N2). lia.
  - rewrite !pyidx_nonneg in He by lia. lia.
Qed.

(* ------------------------------------------------------------------ valid is sound (and complete) *)
Theorem valid_spec (s : shaped) :
  valid s = true <->
  match sdat s with
  | Shaped.DTensor t => ignore (sdat s) = true \/ satisfies t (scons s) (sstrict s)
  | _ => True
  end.
Proof.
  unfold valid, ignore_or_compatible. destruct (sdat s) as [| |t]; [tauto|tauto|].
  rewrite orb_true_iff, compatible_spec. tauto.
Qed.

(* the statement of the property: a tensor reported valid satisfies every constraint *)
Theorem valid_sound (s : shaped) (t : tensor) : valid s = true -> sdat s = DTensor t -> ignore (sdat s) = false ->
  forall d sz, In (d, sz) (scons s) ->
    (- Z.of_nat (ndim t) <= d < Z.of_nat (ndim t))%Z /\ nth (pyidx (ndim t) d) (tshape t) 0 = sz.
Proof.
  intros Hv Hd Hi. apply valid_spec in Hv. rewrite Hd in *. destruct Hv as [Hv|[Hh _]]; [congruence|exact Hh].
Qed.
