(* Proofs about the ShapedTensor model (C13/Shaped.v): the hand-transcribed dimensionality and
   consistency tests characterised by independent specifications, soundness AND completeness of the
   validity test, the effect of reconstrain in each branch, and validity as an invariant of arbitrary
   operation sequences.  No axioms. *)
From Coq Require Import List ZArith Bool Arith Lia.
From Inferno Require Import C01.Ring C01.RingProofs C13.Shaped.
Import ListNotations.

(* ------------------------------------------------------------------ the constraint dictionary *)
Notation keys c := (map fst c).

Lemma lookup_in c d s : lookup c d = Some s -> In (d, s) c.
Proof.
  induction c as [|[k s0] tl IH]; cbn; [discriminate|].
  destruct (Z.eqb_spec k d) as [->|Hne]; intros H; [injection H as ->; auto|auto].
Qed.
Lemma lookup_none c d : lookup c d = None <-> ~ In d (keys c).
Proof.
  induction c as [|[k s0] tl IH]; cbn; [tauto|].
  destruct (Z.eqb_spec k d) as [->|Hne]; [split; [discriminate|tauto]|]. rewrite IH. tauto.
Qed.
Lemma lookup_some_key c d s : lookup c d = Some s -> In d (keys c).
Proof. intros H. apply lookup_in in H. apply (in_map fst) in H. exact H. Qed.
Lemma in_lookup c d s : NoDup (keys c) -> In (d, s) c -> lookup c d = Some s.
Proof.
  induction c as [|[k s0] tl IH]; cbn; [tauto|]. intros Hnd [H|H].
  - injection H as -> ->. now rewrite Z.eqb_refl.
  - inversion Hnd as [|? ? Hk Hnd']; subst. destruct (Z.eqb_spec k d) as [->|Hne]; [|auto].
    exfalso. apply Hk. apply (in_map fst) in H. exact H.
Qed.

Lemma keys_dict_set_in c d s : In d (keys c) -> keys (dict_set c d s) = keys c.
Proof.
  induction c as [|[k s0] tl IH]; cbn; [tauto|].
  destruct (Z.eqb_spec k d) as [->|Hne]; cbn; [reflexivity|]. intros [H|H]; [congruence|]. now rewrite IH.
Qed.
Lemma keys_dict_set_notin c d s : ~ In d (keys c) -> keys (dict_set c d s) = keys c ++ [d].
Proof.
  induction c as [|[k s0] tl IH]; cbn; [reflexivity|].
  destruct (Z.eqb_spec k d) as [->|Hne]; cbn; [tauto|]. intros H. rewrite IH by tauto. reflexivity.
Qed.
Lemma in_dict_set c d s d' s' : NoDup (keys c) ->
  (In (d', s') (dict_set c d s) <-> (d' = d /\ s' = s) \/ (d' <> d /\ In (d', s') c)).
Proof.
  induction c as [|[k s0] tl IH]; cbn.
  - intros _. split; [intros [H|[]]; injection H as <- <-; auto|intros [[-> ->]|[_ []]]; auto].
  - intros Hnd. inversion Hnd as [|? ? Hk Hnd']; subst.
    destruct (Z.eqb_spec k d) as [->|Hne]; cbn.
    + split.
      * intros [H|H]; [injection H as <- <-; auto|]. right. split; [|auto].
        intros ->. apply Hk. apply (in_map fst) in H. exact H.
      * intros [[-> ->]|[Hne [H|H]]]; auto. injection H as -> _. congruence.
    + rewrite (IH Hnd'). split.
      * intros [H|[H|H]]; auto. injection H as <- <-. auto.
      * intros [H|[H1 [H|H]]]; auto.
  Qed.
Lemma in_dict_del c d d' s' : In (d', s') (dict_del c d) -> In (d', s') c.
Proof.
  induction c as [|[k s0] tl IH]; cbn; [tauto|].
  destruct (Z.eqb_spec k d) as [->|Hne]; cbn; [auto|]. intros [H|H]; auto.
Qed.
Lemma keys_dict_del_incl c d k : In k (keys (dict_del c d)) -> In k (keys c).
Proof.
  rewrite !in_map_iff. intros ([k' s'] & <- & H). exists (k', s'). split; [reflexivity|].
  eapply in_dict_del; eauto.
Qed.
Lemma nodup_dict_del c d : NoDup (keys c) -> NoDup (keys (dict_del c d)).
Proof.
  induction c as [|[k s0] tl IH]; cbn; [auto|]. intros Hnd. inversion Hnd as [|? ? Hk Hnd']; subst.
  destruct (Z.eqb_spec k d) as [->|Hne]; cbn; [exact Hnd'|]. constructor; [|auto].
  intros H. apply Hk. eapply keys_dict_del_incl; eauto.
Qed.
Lemma notin_dict_del c d : NoDup (keys c) -> ~ In d (keys (dict_del c d)).
Proof.
  induction c as [|[k s0] tl IH]; cbn; [tauto|]. intros Hnd. inversion Hnd as [|? ? Hk Hnd']; subst.
  destruct (Z.eqb_spec k d) as [->|Hne]; cbn; [exact Hk|]. intros [H|H]; [congruence|]. now apply IH.
Qed.
Lemma in_dict_del_iff c d d' s' : NoDup (keys c) ->
  (In (d', s') (dict_del c d) <-> d' <> d /\ In (d', s') c).
Proof.
  induction c as [|[k s0] tl IH]; cbn; [tauto|]. intros Hnd. inversion Hnd as [|? ? Hk Hnd']; subst.
  destruct (Z.eqb_spec k d) as [->|Hne]; cbn.
  - split.
    + intros H. split; [|auto]. intros ->. apply Hk. apply (in_map fst) in H. exact H.
    + intros [Hne [H|H]]; [injection H as -> _; congruence|exact H].
  - rewrite (IH Hnd'). split.
    + intros [H|[H1 H2]]; [injection H as <- <-; auto|auto].
    + intros [H1 [H|H]]; auto.
Qed.
Lemma nodup_dict_set c d s : NoDup (keys c) -> NoDup (keys (dict_set c d s)).
Proof.
  induction c as [|[k s0] tl IH]; cbn; [intros _; constructor; [tauto|constructor]|].
  intros Hnd. inversion Hnd as [|? ? Hk Hnd']; subst.
  destruct (Z.eqb_spec k d) as [->|Hne]; cbn; [exact Hnd|]. constructor; [|auto].
  intros H. destruct (in_dec Z.eq_dec d (keys tl)) as [Hin|Hin].
  - rewrite keys_dict_set_in in H by exact Hin. tauto.
  - rewrite keys_dict_set_notin in H by exact Hin. apply in_app_or in H. destruct H as [H|[H|[]]]; [tauto|congruence].
Qed.
