(* Proofs about the ShapedTensor model (C13/Shaped.v): the hand-transcribed dimensionality and
   consistency tests characterised by independent specifications, soundness AND completeness of the
   validity test, the effect of reconstrain in each branch, and validity as an invariant of arbitrary
   operation sequences.  No axioms. *)
From Coq Require Import List ZArith Bool Arith Lia.
From Inferno Require Import C01.Ring C13.Shaped C13.Lists.
Import ListNotations.

(* ------------------------------------------------------------------ the constraint dictionary *)
Notation keys c := (map fst c).

Lemma lookup_in c d s : lookup c d = Some s -> In (d, s) c.
Proof.
  induction c as [|[k s0] tl IH]; cbn; [discriminate|].
  destruct (Z.eqb_spec k d) as [->|Hne]; intros H; [injection H as ->; auto|auto].
Qed.
Lemma lookup_none c d : lookup c d = None <-> ~ In d (keys c).
Proof.
  induction c as [|[k s0] tl IH]; cbn; [tauto|].
  destruct (Z.eqb_spec k d) as [->|Hne]; [split; [discriminate|tauto]|]. rewrite IH. tauto.
Qed.
Lemma lookup_some_key c d s : lookup c d = Some s -> In d (keys c).
Proof. intros H. apply lookup_in in H. apply (in_map fst) in H. exact H. Qed.
Lemma in_lookup c d s : NoDup (keys c) -> In (d, s) c -> lookup c d = Some s.
Proof.
  induction c as [|[k s0] tl IH]; cbn; [tauto|]. intros Hnd [H|H].
  - injection H as -> ->. now rewrite Z.eqb_refl.
  - inversion Hnd as [|? ? Hk Hnd']; subst. destruct (Z.eqb_spec k d) as [->|Hne]; [|auto].
    exfalso. apply Hk. apply (in_map fst) in H. exact H.
Qed.

Lemma keys_dict_set_in c d s : In d (keys c) -> keys (dict_set c d s) = keys c.
Proof.
  induction c as [|[k s0] tl IH]; cbn; [tauto|].
  destruct (Z.eqb_spec k d) as [->|Hne]; cbn; [reflexivity|]. intros [H|H]; [congruence|]. now rewrite IH.
Qed.
Lemma keys_dict_set_notin c d s : ~ In d (keys c) -> keys (dict_set c d s) = keys c ++ [d].
Proof.
  induction c as [|[k s0] tl IH]; cbn; [reflexivity|].
  destruct (Z.eqb_spec k d) as [->|Hne]; cbn; [tauto|]. intros H. rewrite IH by tauto. reflexivity.
Qed.
Lemma in_dict_set c d s d' s' : NoDup (keys c) ->
  (In (d', s') (dict_set c d s) <-> (d' = d /\ s' = s) \/ (d' <> d /\ In (d', s') c)).
Proof.
  induction c as [|[k s0] tl IH]; cbn.
  - intros _. split; [intros [H|[]]; injection H as <- <-; auto|intros [[-> ->]|[_ []]]; auto].
  - intros Hnd. inversion Hnd as [|? ? Hk Hnd']; subst.
    destruct (Z.eqb_spec k d) as [->|Hne]; cbn.
    + split.
      * intros [H|H]; [injection H as <- <-; auto|]. right. split; [|auto].
        intros ->. apply Hk. apply (in_map fst) in H. exact H.
      * intros [[-> ->]|[Hne [H|H]]]; auto. injection H as -> _. congruence.
    + rewrite (IH Hnd'). split.
      * intros [H|[[-> ->]|[H1 H2]]]; [injection H as <- <-; right; split; [exact Hne|left; reflexivity]|tauto|tauto].
      * intros [[-> ->]|[H1 [H|H]]]; tauto.
Qed.
Lemma in_dict_del c d d' s' : In (d', s') (dict_del c d) -> In (d', s') c.
Proof.
  induction c as [|[k s0] tl IH]; cbn; [tauto|].
  destruct (Z.eqb_spec k d) as [->|Hne]; cbn; [auto|]. intros [H|H]; auto.
Qed.
Lemma keys_dict_del_incl c d k : In k (keys (dict_del c d)) -> In k (keys c).
Proof.
  rewrite !in_map_iff. intros ([k' s'] & <- & H). exists (k', s'). split; [reflexivity|].
  eapply in_dict_del; eauto.
Qed.
Lemma nodup_dict_del c d : NoDup (keys c) -> NoDup (keys (dict_del c d)).
Proof.
  induction c as [|[k s0] tl IH]; cbn; [auto|]. intros Hnd. inversion Hnd as [|? ? Hk Hnd']; subst.
  destruct (Z.eqb_spec k d) as [->|Hne]; cbn; [exact Hnd'|]. constructor; [|auto].
  intros H. apply Hk. eapply keys_dict_del_incl; eauto.
Qed.
Lemma notin_dict_del c d : NoDup (keys c) -> ~ In d (keys (dict_del c d)).
Proof.
  induction c as [|[k s0] tl IH]; cbn; [tauto|]. intros Hnd. inversion Hnd as [|? ? Hk Hnd']; subst.
  destruct (Z.eqb_spec k d) as [->|Hne]; cbn; [exact Hk|]. intros [H|H]; [congruence|]. now apply IH.
Qed.
Lemma in_dict_del_iff c d d' s' : NoDup (keys c) ->
  (In (d', s') (dict_del c d) <-> d' <> d /\ In (d', s') c).
Proof.
  induction c as [|[k s0] tl IH]; cbn; [tauto|]. intros Hnd. inversion Hnd as [|? ? Hk Hnd']; subst.
  destruct (Z.eqb_spec k d) as [->|Hne]; cbn.
  - split.
    + intros H. split; [|auto]. intros ->. apply Hk. apply (in_map fst) in H. exact H.
    + intros [Hne [H|H]]; [injection H as -> _; congruence|exact H].
  - rewrite (IH Hnd'). split.
    + intros [H|[H1 H2]]; [injection H as <- <-; auto|auto].
    + intros [H1 [H|H]]; auto.
Qed.
Lemma nodup_dict_set c d s : NoDup (keys c) -> NoDup (keys (dict_set c d s)).
Proof.
  induction c as [|[k s0] tl IH]; cbn; [intros _; constructor; [tauto|constructor]|].
  intros Hnd. inversion Hnd as [|? ? Hk Hnd']; subst.
  destruct (Z.eqb_spec k d) as [->|Hne]; cbn; [exact Hnd|]. constructor; [|auto].
  intros H. destruct (in_dec Z.eq_dec d (keys tl)) as [Hin|Hin].
  - rewrite keys_dict_set_in in H by exact Hin. tauto.
  - rewrite keys_dict_set_notin in H by exact Hin. apply in_app_or in H. destruct H as [H|[H|[]]]; [tauto|congruence].
Qed.

(* ------------------------------------------------------------------ _constraint_dimensionality *)
Lemma fold_max_ge k ks x : In x (k :: ks) -> (x <= fold_right Z.max k ks)%Z.
Proof.
  induction ks as [|a t IH]; cbn; [intros [->|[]]; lia|].
  intros [->|[->|H]]; [specialize (IH (or_introl eq_refl))|..|specialize (IH (or_intror H))]; lia.
Qed.
Lemma fold_max_in k ks : In (fold_right Z.max k ks) (k :: ks).
Proof.
  induction ks as [|a t IH]; cbn; [auto|].
  destruct (Z.max_spec a (fold_right Z.max k t)) as [[_ ->]|[_ ->]]; [|auto].
  destruct IH as [H|H]; auto.
Qed.
Lemma fold_min_le k ks x : In x (k :: ks) -> (fold_right Z.min k ks <= x)%Z.
Proof.
  induction ks as [|a t IH]; cbn; [intros [->|[]]; lia|].
  intros [->|[->|H]]; [specialize (IH (or_introl eq_refl))|..|specialize (IH (or_intror H))]; lia.
Qed.
Lemma fold_min_in k ks : In (fold_right Z.min k ks) (k :: ks).
Proof.
  induction ks as [|a t IH]; cbn; [auto|].
  destruct (Z.min_spec a (fold_right Z.min k t)) as [[_ ->]|[_ ->]]; [auto|].
  destruct IH as [H|H]; auto.
Qed.

(* independent reading of "a tensor with n dimensions is big enough for the constrained dims":
   non-strict: every key indexes an existing dim; strict: additionally every non-negative key,
   counted from the front, lies strictly before every negative key, counted from the back *)
Definition dim_ok (c : cons_t) (strict : bool) (n : Z) : Prop :=
  if strict then forall k1 k2, In k1 (keys c) -> In k2 (keys c) -> (Z.max (k1 + 1) 0 - Z.min k2 0 <= n)%Z
  else forall k, In k (keys c) -> (- n <= k < n)%Z.

Lemma dimensionality_le_iff c strict n : (0 <= n)%Z ->
  ((constraint_dimensionality c strict <= n)%Z <-> dim_ok c strict n).
Proof.
  intros Hn. unfold constraint_dimensionality, dim_ok.
  destruct (keys c) as [|k ks] eqn:Ek.
  - destruct strict; split; intros; try lia; contradiction.
  - pose proof (fold_max_in k ks) as Hmi. pose proof (fold_min_in k ks) as Hni.
    destruct strict; split.
    + intros H k1 k2 H1 H2. pose proof (fold_max_ge k ks k1 H1). pose proof (fold_min_le k ks k2 H2). lia.
    + intros H. apply (H _ _ Hmi Hni).
    + intros H x Hx. pose proof (fold_max_ge k ks x Hx). pose proof (fold_min_le k ks x Hx). lia.
    + intros H. pose proof (H _ Hmi). pose proof (H _ Hni). lia.
Qed.

Lemma dim_ok_incl c c' strict n : incl (keys c') (keys c) -> dim_ok c strict n -> dim_ok c' strict n.
Proof. unfold dim_ok. destruct strict; intros Hi H; intros; apply H; auto. Qed.

Lemma dim_ok_range c strict n k : dim_ok c strict n -> In k (keys c) -> (- n <= k < n)%Z.
Proof.
  unfold dim_ok. destruct strict; intros H Hk; [|auto]. pose proof (H k k Hk Hk). lia.
Qed.

Lemma dimensionality_nonneg c strict : (0 <= constraint_dimensionality c strict)%Z.
Proof. unfold constraint_dimensionality. destruct (keys c); [lia|]. destruct strict; lia. Qed.

(* removing a constraint never raises the required dimensionality; editing keeps it *)
Lemma dimensionality_del c d strict :
  (constraint_dimensionality (dict_del c d) strict <= constraint_dimensionality c strict)%Z.
Proof.
  apply (proj2 (dimensionality_le_iff (dict_del c d) strict _ (dimensionality_nonneg c strict))).
  eapply dim_ok_incl; [|apply (proj1 (dimensionality_le_iff c strict _ (dimensionality_nonneg c strict))); lia].
  intros k Hk. eapply keys_dict_del_incl; eauto.
Qed.
Lemma dimensionality_set_in c d s strict : In d (keys c) ->
  constraint_dimensionality (dict_set c d s) strict = constraint_dimensionality c strict.
Proof. intros H. unfold constraint_dimensionality. rewrite keys_dict_set_in by exact H. reflexivity. Qed.

(* ------------------------------------------------------------------ python indexing *)
Lemma pyidx_lt n d : (- Z.of_nat n <= d < Z.of_nat n)%Z -> pyidx n d < n.
Proof. unfold pyidx. destruct (Z.leb_spec 0 d); lia. Qed.
Lemma pyidx_nonneg n d : (0 <= d)%Z -> pyidx n d = Z.to_nat d.
Proof. unfold pyidx. destruct (Z.leb_spec 0 d); lia. Qed.
Lemma pyidx_neg n d : (d < 0)%Z -> pyidx n d = Z.to_nat (Z.of_nat n + d).
Proof. unfold pyidx. destruct (Z.leb_spec 0 d); lia. Qed.

(* ------------------------------------------------------------------ _constraints_consistent *)
(* independent reading: constraints that address the same dimension of an nd-dimensional tensor
   agree on its size *)
Definition pairwise_consistent (nd : nat) (c : cons_t) : Prop :=
  forall d1 s1 d2 s2, In (d1, s1) c -> In (d2, s2) c -> pyidx nd d1 = pyidx nd d2 -> s1 = s2.
Definition agrees (nd : nat) (c : cons_t) (hyp : list (option nat)) : Prop :=
  forall d s s0, In (d, s) c -> nth (pyidx nd d) hyp None = Some s0 -> s0 = s.
Definition in_range (nd : nat) (c : cons_t) : Prop := forall d s, In (d, s) c -> pyidx nd d < nd.

Lemma consistent_loop_spec nd : forall c hyp, length hyp = nd -> in_range nd c ->
  (consistent_loop nd c hyp = true <-> agrees nd c hyp /\ pairwise_consistent nd c).
Proof.
  induction c as [|[d s] tl IH]; intros hyp Hlen Hr.
  - cbn. split; [intros _|reflexivity]. split; intros ? **; contradiction.
  - assert (Hr' : in_range nd tl) by (intros ? ? ?; eapply Hr; right; eauto).
    assert (Hi : pyidx nd d < length hyp) by (rewrite Hlen; eapply Hr; left; reflexivity).
    cbn [consistent_loop]. destruct (nth (pyidx nd d) hyp None) as [s0|] eqn:En.
    + destruct (Nat.eqb_spec s0 s) as [->|Hne].
      * rewrite (IH hyp Hlen Hr'). split.
        -- intros [Ha Hp]. split.
           ++ intros d' s' s0' [H|H] Hn; [injection H as <- <-; congruence|eauto].
           ++ intros d1 s1 d2 s2 [H1|H1] [H2|H2] He.
              ** congruence.
              ** injection H1 as <- <-. apply (Ha d2 s2 s H2). rewrite <- He. exact En.
              ** injection H2 as <- <-. symmetry. apply (Ha d1 s1 s H1). rewrite He. exact En.
              ** eauto.
        -- intros [Ha Hp]. split.
           ++ intros d' s' s0' H Hn. eapply Ha; [right; exact H|exact Hn].
           ++ intros d1 s1 d2 s2 H1 H2. apply Hp; right; assumption.
      * split; [discriminate|]. intros [Ha _]. exfalso. apply Hne. eapply Ha; [left; reflexivity|exact En].
    + rewrite (IH (upd hyp (pyidx nd d) (Some s)) ltac:(rewrite upd_length'; exact Hlen) Hr'). split.
      * intros [Ha Hp]. split.
        -- intros d' s' s0' [H|H] Hn; [injection H as <- <-; congruence|].
           destruct (Nat.eq_dec (pyidx nd d') (pyidx nd d)) as [He|He]; [rewrite He in Hn; congruence|].
           eapply Ha; [exact H|]. rewrite nth_upd_neq by exact He. exact Hn.
        -- intros d1 s1 d2 s2 [H1|H1] [H2|H2] He.
           ++ congruence.
           ++ injection H1 as <- <-. apply (Ha d2 s2 s H2). rewrite <- He. apply nth_upd_eq. exact Hi.
           ++ injection H2 as <- <-. symmetry. apply (Ha d1 s1 s H1). rewrite He. apply nth_upd_eq. exact Hi.
           ++ eauto.
      * intros [Ha Hp]. split.
        -- intros d' s' s0' H Hn.
           destruct (Nat.eq_dec (pyidx nd d') (pyidx nd d)) as [He|He].
           ++ rewrite He, nth_upd_eq in Hn by exact Hi. injection Hn as <-.
              eapply Hp; [left; reflexivity|right; exact H|symmetry; exact He].
           ++ rewrite nth_upd_neq in Hn by exact He. eapply Ha; [right; exact H|exact Hn].
        -- intros d1 s1 d2 s2 H1 H2. apply Hp; right; assumption.
Qed.

Theorem constraints_consistent_spec c nd : in_range nd c ->
  (constraints_consistent c nd = true <-> pairwise_consistent nd c).
Proof.
  intros Hr. unfold constraints_consistent.
  rewrite (consistent_loop_spec nd c (repeat None nd) (repeat_length _ _) Hr). split; [tauto|].
  intros H. split; [|exact H]. intros d s s0 Hin Hn. exfalso.
  rewrite nth_repeat_lt in Hn by (eapply Hr; eauto). discriminate.
Qed.

Lemma in_keys (c : cons_t) k : In k (keys c) <-> exists s, In (k, s) c.
Proof.
  rewrite in_map_iff. split.
  - intros ([k' s] & <- & H). exists s. exact H.
  - intros (s & H). exists (k, s). auto.
Qed.

Section ShapedProofs.
Context {A D : Type}.
Variable zeroA : A.
Notation tensor := (@tensor A D).
Notation sdata := (@sdata A D).
Notation shaped := (@shaped A D).
Notation DTensor := (@DTensor A D).
Notation reconstrain := (@reconstrain A D zeroA).
Notation make_compatible := (@make_compatible A D zeroA).
Notation sstep := (@sstep A D zeroA).
Notation srun := (@srun A D zeroA).

(* ------------------------------------------------------------------ _constraints_compatible *)
(* independent reading of "the tensor satisfies every constraint": every constrained dim exists and
   has the constrained size; with strict constraints every dim addressed from the front lies strictly
   before every dim addressed from the back (so distinct keys address distinct dims) *)
Definition holds (t : tensor) (c : cons_t) : Prop :=
  forall d s, In (d, s) c ->
    (- Z.of_nat (ndim t) <= d < Z.of_nat (ndim t))%Z /\ nth (pyidx (ndim t) d) (tshape t) 0 = s.
Definition front_before_back (nd : nat) (c : cons_t) : Prop :=
  forall d1 d2, In d1 (keys c) -> In d2 (keys c) -> (0 <= d1)%Z -> (d2 < 0)%Z -> pyidx nd d1 < pyidx nd d2.
Definition satisfies (t : tensor) (c : cons_t) (strict : bool) : Prop :=
  holds t c /\ (strict = true -> front_before_back (ndim t) c).

Theorem compatible_spec (t : tensor) c strict : constraints_compatible t c strict = true <-> satisfies t c strict.
Proof.
  unfold constraints_compatible, satisfies.
  destruct (Z.ltb_spec (Z.of_nat (ndim t)) (constraint_dimensionality c strict)) as [Hlt|Hge].
  - split; [discriminate|]. intros [Hh Hs]. exfalso.
    assert (Hok : dim_ok c strict (Z.of_nat (ndim t))).
    { unfold dim_ok. destruct strict.
      - intros k1 k2 H1 H2. pose proof H1 as H1'. pose proof H2 as H2'.
        apply in_keys in H1 as (s1 & H1). apply in_keys in H2 as (s2 & H2).
        destruct (Hh _ _ H1) as [R1 _]. destruct (Hh _ _ H2) as [R2 _].
        destruct (Z_lt_le_dec k1 0) as [N1|P1]; [lia|].
        destruct (Z_lt_le_dec k2 0) as [N2|P2]; [|lia].
        pose proof (Hs eq_refl k1 k2 H1' H2' P1 N2) as Hlt'.
        rewrite pyidx_nonneg, pyidx_neg in Hlt' by lia. lia.
      - intros k Hk. apply in_keys in Hk as (s & Hk). destruct (Hh _ _ Hk) as [R _]. exact R. }
    apply dimensionality_le_iff in Hok; lia.
  - assert (Hok : dim_ok c strict (Z.of_nat (ndim t))) by (apply dimensionality_le_iff; lia).
    rewrite forallb_forall. split.
    + intros Hf. split.
      * intros d s Hin. split.
        -- eapply dim_ok_range; [exact Hok|]. apply in_keys. eauto.
        -- specialize (Hf _ Hin). cbn in Hf. apply Nat.eqb_eq in Hf. exact Hf.
      * intros -> d1 d2 H1 H2 P1 N2. unfold dim_ok in Hok. pose proof (Hok d1 d2 H1 H2).
        rewrite pyidx_nonneg, pyidx_neg by lia. lia.
    + intros [Hh _] [d s] Hin. cbn. apply Nat.eqb_eq. apply (Hh _ _ Hin).
Qed.

(* with strict constraints distinct keys address distinct dimensions *)
Theorem strict_distinct (t : tensor) c : constraints_compatible t c true = true ->
  forall d1 d2, In d1 (keys c) -> In d2 (keys c) -> pyidx (ndim t) d1 = pyidx (ndim t) d2 -> d1 = d2.
Proof.
  intros H. apply compatible_spec in H as [Hh Hs]. specialize (Hs eq_refl).
  intros d1 d2 H1 H2 He. pose proof H1 as H1'. pose proof H2 as H2'.
  apply in_keys in H1' as (s1 & K1). apply in_keys in H2' as (s2 & K2).
  destruct (Hh _ _ K1) as [R1 _]. destruct (Hh _ _ K2) as [R2 _].
  destruct (Z_lt_le_dec d1 0) as [N1|P1]; destruct (Z_lt_le_dec d2 0) as [N2|P2].
  - rewrite !pyidx_neg in He by lia. lia.
  - pose proof (Hs d2 d1 H2 H1 P2 N1). lia.
  - pose proof (Hs d1 d2 H1 H2 P1 N2). lia.
  - rewrite !pyidx_nonneg in He by lia. lia.
Qed.

(* ------------------------------------------------------------------ valid is sound (and complete) *)
Theorem valid_spec (s : shaped) :
  valid s = true <->
  match sdat s with
  | Shaped.DTensor t => ignore (sdat s) = true \/ satisfies t (scons s) (sstrict s)
  | _ => True
  end.
Proof.
  unfold valid, ignore_or_compatible. destruct (sdat s) as [| |t]; [tauto|tauto|].
  rewrite orb_true_iff, compatible_spec. tauto.
Qed.

(* the statement of the property: a tensor reported valid satisfies every constraint *)
Theorem valid_sound (s : shaped) (t : tensor) : valid s = true -> sdat s = DTensor t -> ignore (sdat s) = false ->
  forall d sz, In (d, sz) (scons s) ->
    (- Z.of_nat (ndim t) <= d < Z.of_nat (ndim t))%Z /\ nth (pyidx (ndim t) d) (tshape t) 0 = sz.
Proof.
  intros Hv Hd Hi. apply valid_spec in Hv. rewrite Hd in *. destruct Hv as [Hv|[Hh _]]; [congruence|exact Hh].
Qed.

(* ------------------------------------------------------------------ monotonicity of "satisfies" *)
Lemma satisfies_del (t : tensor) c d strict : satisfies t c strict -> satisfies t (dict_del c d) strict.
Proof.
  intros [Hh Hs]. split.
  - intros d' s' H. apply Hh. eapply in_dict_del; eauto.
  - intros E d1 d2 H1 H2. apply (Hs E); eapply keys_dict_del_incl; eauto.
Qed.

Lemma make_compatible_shape (t : tensor) dim sz :
  tshape (make_compatible t dim sz) =
  if nth (pyidx (ndim t) dim) (tshape t) 0 =? sz then tshape t else upd (tshape t) (pyidx (ndim t) dim) sz.
Proof.
  unfold make_compatible.
  destruct (Nat.ltb_spec sz (nth (pyidx (ndim t) dim) (tshape t) 0));
    destruct (Nat.ltb_spec (nth (pyidx (ndim t) dim) (tshape t) 0) sz);
    destruct (Nat.eqb_spec (nth (pyidx (ndim t) dim) (tshape t) 0) sz); try lia; reflexivity.
Qed.
Lemma make_compatible_ndim (t : tensor) dim sz : ndim (make_compatible t dim sz) = ndim t.
Proof.
  unfold ndim. rewrite make_compatible_shape. destruct (_ =? _); [reflexivity|apply upd_length'].
Qed.
Lemma make_compatible_dt (t : tensor) dim sz : tdt (make_compatible t dim sz) = tdt t.
Proof. unfold make_compatible. repeat destruct (_ <? _); reflexivity. Qed.
Lemma make_compatible_nth (t : tensor) dim sz : pyidx (ndim t) dim < ndim t ->
  nth (pyidx (ndim t) dim) (tshape (make_compatible t dim sz)) 0 = sz /\
  forall j, j <> pyidx (ndim t) dim -> nth j (tshape (make_compatible t dim sz)) 0 = nth j (tshape t) 0.
Proof.
  intros Hk. rewrite make_compatible_shape.
  destruct (Nat.eqb_spec (nth (pyidx (ndim t) dim) (tshape t) 0) sz) as [E|E]; [auto|].
  split; [apply nth_upd_eq; exact Hk|intros j Hj; apply nth_upd_neq; exact Hj].
Qed.

(* the altered tensor satisfies the altered constraints *)
Lemma satisfies_edit (t : tensor) c d sz strict : NoDup (keys c) -> In d (keys c) ->
  satisfies t c strict -> pairwise_consistent (ndim t) (dict_set c d sz) ->
  satisfies (make_compatible t d sz) (dict_set c d sz) strict.
Proof.
  intros Hnd Hin [Hh Hs] Hp. apply in_keys in Hin as (s0 & Hin0).
  destruct (Hh _ _ Hin0) as [Rd _].
  pose proof (make_compatible_nth t d sz (pyidx_lt _ _ Rd)) as [Hk Hother].
  split.
  - intros d' s' H'. rewrite make_compatible_ndim.
    pose proof H' as H''. apply (proj1 (in_dict_set c d sz d' s' Hnd)) in H'' as [[-> ->]|[Hne Hold]].
    + split; [exact Rd|exact Hk].
    + destruct (Hh _ _ Hold) as [R' V']. split; [exact R'|].
      destruct (Nat.eq_dec (pyidx (ndim t) d') (pyidx (ndim t) d)) as [E|E].
      * rewrite E, Hk. symmetry. apply (Hp d' s' d sz H'); [|exact E].
        apply (proj2 (in_dict_set c d sz d sz Hnd)). left; auto.
      * rewrite Hother by exact E. exact V'.
  - intros E. rewrite make_compatible_ndim. intros d1 d2 H1 H2.
    rewrite keys_dict_set_in in H1, H2 by (apply in_keys; eauto). apply (Hs E); assumption.
Qed.

(* ------------------------------------------------------------------ reconstrain, branch by branch *)
Definition wfc (s : shaped) : Prop := NoDup (keys (scons s)).

(* removing a constraint never alters the data, whatever the state *)
Theorem remove_never_alters_data (s : shaped) d : sdat (fst (reconstrain s d None)) = sdat s.
Proof.
  unfold reconstrain. cbn. destruct (lookup (scons s) d); [|reflexivity].
  destruct (ignore_or_compatible _ _ _); reflexivity.
Qed.
Theorem remove_unconstrained (s : shaped) d : lookup (scons s) d = None -> reconstrain s d None = (s, Some XValue).
Proof. intros H. unfold reconstrain. cbn. rewrite H. reflexivity. Qed.
Theorem remove_spec (s : shaped) d sz : wfc s -> lookup (scons s) d = Some sz ->
  fst (reconstrain s d None) = set_cons s (dict_del (scons s) d) /\
  lookup (scons (fst (reconstrain s d None))) d = None /\
  (forall d' s', d' <> d -> In (d', s') (scons s) -> In (d', s') (scons (fst (reconstrain s d None)))) /\
  (valid s = true -> snd (reconstrain s d None) = None).
Proof.
  intros Hw Hl. unfold reconstrain. cbn. rewrite Hl.
  assert (E : fst (if ignore_or_compatible (sdat s) (dict_del (scons s) d) (sstrict s)
                   then (set_cons s (dict_del (scons s) d), @None xerr)
                   else (set_cons s (dict_del (scons s) d), Some XRuntime)) = set_cons s (dict_del (scons s) d))
    by (destruct (ignore_or_compatible _ _ _); reflexivity).
  rewrite E. split; [reflexivity|]. cbn [scons set_cons]. split; [|split].
  - apply lookup_none. apply notin_dict_del. exact Hw.
  - intros d' s' Hne Hin. apply in_dict_del_iff; auto.
  - intros Hv. apply valid_spec in Hv. unfold ignore_or_compatible.
    destruct (sdat s) as [| |t] eqn:Ed; [reflexivity|reflexivity|].
    destruct Hv as [Hv|Hv]; [rewrite Hv; reflexivity|].
    apply (satisfies_del t _ d) in Hv. apply compatible_spec in Hv. rewrite Hv, orb_true_r. reflexivity.
Qed.

(* every refused add / edit (and every refused call with a bad size) leaves the state untouched; the
   only exception raised after a state change is the removal from an already invalid tensor *)
Theorem refused_noeffect (s : shaped) d z s' e : reconstrain s d z = (s', Some e) ->
  s' = s \/ (z = None /\ valid s = false /\ s' = set_cons s (dict_del (scons s) d)).
Proof.
  unfold reconstrain. destruct z as [z|]; cbn [option_map].
  - destruct (z <? 0)%Z; [intros H; injection H as <- _; auto|].
    destruct (lookup (scons s) d); destruct (sdat s) as [| |t]; cbn [ignore];
      repeat match goal with |- context [if ?b then _ else _] => destruct b end;
      intros H; try discriminate; injection H as <- _; auto.
  - destruct (lookup (scons s) d) as [sz|] eqn:El; [|intros H; injection H as <- _; auto].
    destruct (ignore_or_compatible (sdat s) (dict_del (scons s) d) (sstrict s)) eqn:Ei; intros H; [discriminate|].
    injection H as <- _. right. split; [reflexivity|]. split; [|reflexivity].
    destruct (valid s) eqn:Ev; [|reflexivity]. exfalso.
    apply valid_spec in Ev. unfold ignore_or_compatible in Ei. destruct (sdat s) as [| |t]; try discriminate.
    destruct Ev as [Ev|Ev]; [rewrite Ev in Ei; discriminate|].
    apply (satisfies_del t _ d) in Ev. apply compatible_spec in Ev. rewrite Ev, orb_true_r in Ei. discriminate.
Qed.

(* adding a constraint the tensor does not satisfy is refused, without side effects *)
Theorem add_incompatible_refused_noeffect (s : shaped) (t : tensor) d z :
  lookup (scons s) d = None -> (0 <= z)%Z -> sdat s = DTensor t -> ignore (sdat s) = false ->
  ~ satisfies t (dict_set (scons s) d (Z.to_nat z)) (sstrict s) ->
  exists e, reconstrain s d (Some z) = (s, Some e).
Proof.
  intros Hl Hz Hd Hi Hn. unfold reconstrain. cbn [option_map]. replace (z <? 0)%Z with false by lia.
  rewrite Hl. rewrite Hd in *. rewrite Hi.
  destruct (constraints_compatible t (scons s) (sstrict s)); [|eauto].
  destruct (constraints_compatible t (dict_set (scons s) d (Z.to_nat z)) (sstrict s)) eqn:E; [|eauto].
  exfalso. apply Hn. apply compatible_spec. exact E.
Qed.
(* ... and adding one it does satisfy (or adding to uninitialised storage) is accepted, data untouched *)
Theorem add_accepted (s : shaped) d z :
  lookup (scons s) d = None -> (0 <= z)%Z -> valid s = true ->
  match sdat s with
  | Shaped.DTensor t => ignore (sdat s) = true \/ satisfies t (dict_set (scons s) d (Z.to_nat z)) (sstrict s)
  | _ => True
  end ->
  reconstrain s d (Some z) = (set_cons s (dict_set (scons s) d (Z.to_nat z)), None).
Proof.
  intros Hl Hz Hv Hn. unfold reconstrain. cbn [option_map]. replace (z <? 0)%Z with false by lia. rewrite Hl.
  apply valid_spec in Hv. destruct (sdat s) as [| |t] eqn:Ed; [reflexivity|reflexivity|].
  destruct (ignore (DTensor t)) eqn:Ei; [reflexivity|].
  destruct Hv as [Hv|Hv]; [congruence|]. destruct Hn as [Hn|Hn]; [congruence|].
  apply compatible_spec in Hv, Hn. rewrite Hv, Hn. reflexivity.
Qed.

(* altering a constraint of an initialised, valid tensor: accepted exactly when the new size does not
   contradict another constraint on the same dimension; then the constraint is updated and the data
   is left alone (already of that size) or resized along that dimension *)
Theorem edit_spec (s : shaped) (t : tensor) d z s0 : wfc s ->
  lookup (scons s) d = Some s0 -> (0 <= z)%Z -> sdat s = DTensor t -> ignore (sdat s) = false -> valid s = true ->
  let sz := Z.to_nat z in
  let c' := dict_set (scons s) d sz in
  (pairwise_consistent (ndim t) c' ->
     reconstrain s d (Some z) =
       (mkShaped (sstrict s) (slive s) (sparam s) c' (DTensor (make_compatible t d sz)), None) /\
     satisfies (make_compatible t d sz) c' (sstrict s)) /\
  (~ pairwise_consistent (ndim t) c' -> reconstrain s d (Some z) = (s, Some XRuntime)).
Proof.
  intros Hw Hl Hz Hd Hi Hv sz c'. unfold reconstrain. cbn [option_map]. replace (z <? 0)%Z with false by lia.
  rewrite Hl. apply valid_spec in Hv. rewrite Hd in *. rewrite Hi.
  destruct Hv as [Hv|Hv]; [congruence|]. pose proof Hv as Hc. apply compatible_spec in Hc.
  assert (Hdim : (constraint_dimensionality (scons s) (sstrict s) <=? Z.of_nat (ndim t))%Z = true).
  { unfold constraints_compatible in Hc. destruct (Z.ltb_spec (Z.of_nat (ndim t)) (constraint_dimensionality (scons s) (sstrict s))); [discriminate|lia]. }
  rewrite Hdim. cbn [andb]. fold sz. fold c'.
  assert (Hin : In d (keys (scons s))) by (eapply lookup_some_key; eauto).
  assert (Hr : in_range (ndim t) c').
  { intros d' s' H'. apply pyidx_lt. apply (proj1 (in_dict_set _ _ _ _ _ Hw)) in H' as [[-> _]|[_ H']].
    - apply in_keys in Hin as (s1 & Hin). apply (proj1 Hv _ _ Hin).
    - apply (proj1 Hv _ _ H'). }
  pose proof (constraints_consistent_spec c' (ndim t) Hr) as Hcs.
  split.
  - intros Hp. rewrite (proj2 Hcs Hp).
    pose proof (satisfies_edit t (scons s) d sz (sstrict s) Hw Hin Hv Hp) as Hsat. fold c' in Hsat.
    split; [|exact Hsat].
    destruct (constraints_compatible t c' (sstrict s)) eqn:Ec; [|reflexivity].
    (* already compatible: make_compatible is the identity *)
    apply compatible_spec in Ec. assert (Hsz : nth (pyidx (ndim t) d) (tshape t) 0 = sz).
    { apply (proj1 Ec d sz). apply (proj2 (in_dict_set _ _ _ _ _ Hw)). left; auto. }
    unfold set_cons. rewrite Hd. do 3 f_equal. unfold make_compatible. rewrite Hsz, Nat.ltb_irrefl. reflexivity.
  - intros Hp. destruct (constraints_consistent c' (ndim t)) eqn:Ec; [|reflexivity].
    exfalso. apply Hp. apply Hcs. reflexivity.
Qed.

(* ------------------------------------------------------------------ validity is invariant *)
Lemma valid_set_cons_ignored (s : shaped) c : ignore (sdat s) = true -> valid (set_cons s c) = true.
Proof.
  unfold valid, ignore_or_compatible. cbn [sdat set_cons]. destruct (sdat s); auto. intros ->. reflexivity.
Qed.

Theorem reconstrain_inv (s : shaped) d z : wfc s -> valid s = true ->
  let s' := fst (reconstrain s d z) in
  wfc s' /\ valid s' = true /\ sstrict s' = sstrict s /\ slive s' = slive s /\ sparam s' = sparam s.
Proof.
  intros Hw Hv. cbv zeta.
  destruct (reconstrain s d z) as [s' e] eqn:Er. cbn [fst].
  destruct e as [e|].
  { apply refused_noeffect in Er as [->|(_ & Hf & _)]; [auto|congruence]. }
  unfold reconstrain in Er.
  destruct (match z with Some z0 => (z0 <? 0)%Z | None => false end) eqn:Ez; [discriminate|].
  destruct (lookup (scons s) d) as [s0|] eqn:El; destruct z as [z|]; cbn [option_map] in Er.
  - (* alter *)
    assert (Hin : In d (keys (scons s))) by (eapply lookup_some_key; eauto).
    destruct (sdat s) as [| |t] eqn:Ed.
    + injection Er as <-. repeat split; auto. apply nodup_dict_set; exact Hw.
      apply valid_set_cons_ignored. rewrite Ed. reflexivity.
    + injection Er as <-. repeat split; auto. apply nodup_dict_set; exact Hw.
      apply valid_set_cons_ignored. rewrite Ed. reflexivity.
    + destruct (ignore (DTensor t)) eqn:Ei.
      * injection Er as <-. repeat split; auto. apply nodup_dict_set; exact Hw.
        apply valid_set_cons_ignored. rewrite Ed. exact Ei.
      * destruct ((constraint_dimensionality (scons s) (sstrict s) <=? Z.of_nat (ndim t))%Z
                  && constraints_consistent (dict_set (scons s) d (Z.to_nat z)) (ndim t)) eqn:Eg; [|discriminate].
        apply andb_true_iff in Eg as [Eg1 Eg2].
        apply valid_spec in Hv. rewrite Ed in Hv. destruct Hv as [Hv|Hv]; [cbn in Ei, Hv; congruence|].
        destruct (constraints_compatible t (dict_set (scons s) d (Z.to_nat z)) (sstrict s)) eqn:Ec; injection Er as <-.
        -- repeat split; auto. apply nodup_dict_set; exact Hw.
           unfold valid, ignore_or_compatible. cbn [sdat set_cons scons sstrict]. rewrite Ed, Ec. apply orb_true_r.
        -- repeat split; auto. unfold wfc. cbn [scons]. apply nodup_dict_set; exact Hw.
           apply valid_spec. cbn [sdat scons sstrict]. right.
           apply satisfies_edit; auto.
           apply constraints_consistent_spec; [|exact Eg2].
           intros d' s' H'. apply pyidx_lt. apply (proj1 (in_dict_set _ _ _ _ _ Hw)) in H' as [[-> _]|[_ H']].
           ++ apply in_keys in Hin as (s1 & Hin). apply (proj1 Hv _ _ Hin).
           ++ apply (proj1 Hv _ _ H').
  - (* remove *)
    destruct (ignore_or_compatible (sdat s) (dict_del (scons s) d) (sstrict s)) eqn:Ei; [|discriminate].
    injection Er as <-. repeat split; auto. apply nodup_dict_del; exact Hw.
  - (* create *)
    destruct (sdat s) as [| |t] eqn:Ed.
    + injection Er as <-. repeat split; auto. apply nodup_dict_set; exact Hw.
      apply valid_set_cons_ignored. rewrite Ed. reflexivity.
    + injection Er as <-. repeat split; auto. apply nodup_dict_set; exact Hw.
      apply valid_set_cons_ignored. rewrite Ed. reflexivity.
    + destruct (ignore (DTensor t)) eqn:Ei.
      * injection Er as <-. repeat split; auto. apply nodup_dict_set; exact Hw.
        apply valid_set_cons_ignored. rewrite Ed. exact Ei.
      * destruct (constraints_compatible t (scons s) (sstrict s)); [|discriminate].
        destruct (constraints_compatible t (dict_set (scons s) d (Z.to_nat z)) (sstrict s)) eqn:Ec; [|discriminate].
        injection Er as <-. repeat split; auto. apply nodup_dict_set; exact Hw.
        unfold valid, ignore_or_compatible. cbn [sdat set_cons scons sstrict]. rewrite Ed, Ec. apply orb_true_r.
  - discriminate.
Qed.

(* value assignment keeps validity when the attribute is live (assignments are tested) *)
Theorem set_value_inv (s : shaped) x : wfc s -> valid s = true -> slive s = true ->
  let s' := fst (set_value s x) in
  wfc s' /\ valid s' = true /\ sstrict s' = sstrict s /\ slive s' = slive s /\ sparam s' = sparam s.
Proof.
  intros Hw Hv Hl. unfold set_value. rewrite Hl.
  destruct (sparam s && _); cbn [fst]; [auto|].
  destruct (ignore_or_compatible x (scons s) (sstrict s)) eqn:E; cbn [fst]; [|auto].
  repeat split; auto.
Qed.

(* constraint bookkeeping stays consistent over arbitrary sequences of add / edit / remove operations
   (successful or refused) - and of assignments too when the attribute is live *)
Definition is_recon (o : @sop A D) : Prop := match o with SRecon _ _ => True | _ => False end.

Theorem reconstrain_sequence_consistent : forall ops (s : shaped),
  wfc s -> valid s = true -> (slive s = true \/ Forall is_recon ops) ->
  wfc (srun s ops) /\ valid (srun s ops) = true.
Proof.
  induction ops as [|o ops IH]; intros s Hw Hv Hl; cbn [Shaped.srun]; [auto|].
  destruct o as [d z|x]; cbn [Shaped.sstep].
  - destruct (reconstrain_inv s d z Hw Hv) as (H1 & H2 & _ & H4 & _). apply IH; auto.
    destruct Hl as [Hl|Hl]; [left; congruence|right; inversion Hl; auto].
  - destruct Hl as [Hl|Hl]; [|inversion Hl as [|? ? Hbad]; contradiction].
    destruct (set_value_inv s x Hw Hv Hl) as (H1 & H2 & _ & H4 & _). apply IH; auto. left; congruence.
Qed.


(* ------------------------------------------------------------------ what a call can do to the state *)
Lemma reconstrain_cases (s : shaped) d z s' e : reconstrain s d z = (s', e) ->
  s' = s \/
  (exists zz, z = Some zz /\ (0 <= zz)%Z /\ s' = set_cons s (dict_set (scons s) d (Z.to_nat zz)) /\ e = None) \/
  (z = None /\ s' = set_cons s (dict_del (scons s) d) /\ In d (keys (scons s))) \/
  (exists (t : tensor) zz, z = Some zz /\ (0 <= zz)%Z /\
     sdat s = DTensor t /\ ignore (sdat s) = false /\ In d (keys (scons s)) /\
     s' = mkShaped (sstrict s) (slive s) (sparam s) (dict_set (scons s) d (Z.to_nat zz))
            (DTensor (make_compatible t d (Z.to_nat zz))) /\
     e = None).
Proof.
  unfold reconstrain.
  destruct z as [z|]; [destruct (Z.ltb_spec z 0) as [Hz|Hz]; [intros H; injection H as <- _; auto|]|];
  destruct (lookup (scons s) d) as [s0|] eqn:El; cbn [option_map].
  - assert (Hin : In d (keys (scons s))) by (eapply lookup_some_key; eauto).
    destruct (sdat s) as [| |t] eqn:Ed.
    + intros H; injection H as <- <-. right; left. eauto 6.
    + intros H; injection H as <- <-. right; left. eauto 6.
    + destruct (ignore (DTensor t)) eqn:Ei; [intros H; injection H as <- <-; right; left; eauto 6|].
      destruct (_ && _); [|intros H; injection H as <- _; auto].
      destruct (constraints_compatible t _ _); intros H; injection H as <- <-.
      * right; left. eauto 6.
      * right; right; right. exists t, z. auto 8.
  - destruct (sdat s) as [| |t] eqn:Ed.
    + intros H; injection H as <- <-. right; left. eauto 6.
    + intros H; injection H as <- <-. right; left. eauto 6.
    + destruct (ignore (DTensor t)); [intros H; injection H as <- <-; right; left; eauto 6|].
      destruct (constraints_compatible t (scons s) (sstrict s)); [|intros H; injection H as <- _; auto].
      destruct (constraints_compatible t _ _); intros H; injection H as <- <-; [right; left; eauto 6|auto].
  - assert (Hin : In d (keys (scons s))) by (eapply lookup_some_key; eauto).
    destruct (ignore_or_compatible _ _ _); intros H; injection H as <- _; right; right; left; auto.
  - intros H; injection H as <- _; auto.
Qed.

(* not initialised yet (None, uninitialised buffer/parameter, empty tensor): every add / edit with an
   admissible size is accepted and only recorded; removal of an existing constraint too *)
Theorem uninitialised_always_accepted (s : shaped) d z : ignore (sdat s) = true -> (0 <= z)%Z ->
  reconstrain s d (Some z) = (set_cons s (dict_set (scons s) d (Z.to_nat z)), None).
Proof.
  intros Hi Hz. unfold reconstrain. cbn [option_map]. destruct (Z.ltb_spec z 0); [lia|].
  destruct (lookup (scons s) d); destruct (sdat s) as [| |t]; try reflexivity; rewrite Hi; reflexivity.
Qed.
Theorem uninitialised_remove_accepted (s : shaped) d sz : ignore (sdat s) = true -> lookup (scons s) d = Some sz ->
  reconstrain s d None = (set_cons s (dict_del (scons s) d), None).
Proof.
  intros Hi Hl. unfold reconstrain. cbn [option_map]. rewrite Hl.
  unfold ignore_or_compatible. destruct (sdat s) as [| |t]; try reflexivity. rewrite Hi. reflexivity.
Qed.

End ShapedProofs.
