(* Independent, index-level specification of the data resize performed by __make_compatible
   (C13/Shaped.v: resize_dim, written with chunks of a flat row-major list):
   along the resized dimension the TAIL is kept - new index i reads old index i + old - new - and
   positions before the old data read zero; every other coordinate is untouched.  Any dimension, any
   shape.  No axioms. *)
From Coq Require Import List ZArith Bool Arith Lia.
From Inferno Require Import C01.Ring C13.Shaped C13.Lists.
Import ListNotations.

(* row-major linear position of a multi-index *)
Fixpoint lin (sh idx : list nat) : nat :=
  match sh, idx with
  | _ :: sh', i :: idx' => i * nel sh' + lin sh' idx'
  | _, _ => 0
  end.
Fixpoint in_bounds (sh idx : list nat) : Prop :=
  match sh, idx with
  | [], [] => True
  | s :: sh', i :: idx' => i < s /\ in_bounds sh' idx'
  | _, _ => False
  end.

Lemma lin_lt sh : forall idx, in_bounds sh idx -> lin sh idx < nel sh.
Proof.
  induction sh as [|s sh IH]; intros [|i idx]; cbn [in_bounds lin]; try tauto.
  - intros _. cbn. lia.
  - intros [Hi Hb]. specialize (IH _ Hb). rewrite nel_cons. nia.
Qed.
Lemma in_bounds_upd sh : forall idx k v size, in_bounds (upd sh k size) idx -> v < nth k sh 0 -> in_bounds sh (upd idx k v).
Proof.
  induction sh as [|s sh IH]; intros [|i idx] k v size; cbn [upd in_bounds]; try tauto.
  - destruct k; cbn [upd in_bounds]; tauto.
  - destruct k as [|k]; cbn [upd in_bounds nth]; intros [Hi Hb] Hv; [tauto|]. split; [exact Hi|]. eapply IH; eauto.
Qed.
Lemma in_bounds_length sh : forall idx, in_bounds sh idx -> length idx = length sh.
Proof. induction sh as [|s sh IH]; intros [|i idx]; cbn; try tauto. intros [_ H]. f_equal. auto. Qed.

Lemma nth_chunk {X} (z : X) m : forall cnt (l : list X) i j, i < cnt -> j < m ->
  nth j (nth i (chunks m cnt l) []) z = nth (i * m + j) l z.
Proof.
  induction cnt as [|c IH]; intros l i j Hi Hj; [lia|]. cbn [chunks].
  destruct i as [|i]; cbn [nth].
  - rewrite nth_firstn_lt by exact Hj. reflexivity.
  - rewrite IH by lia. rewrite nth_skipn_add. f_equal. lia.
Qed.
Lemma nth_concat_uniform {X} (z : X) m (rows : list (list X)) i j : uniform m rows -> i < length rows -> j < m ->
  nth (i * m + j) (concat rows) z = nth j (nth i rows []) z.
Proof.
  intros H. revert i. induction H as [|r t Hr Ht IH]; intros i Hi Hj; [cbn in Hi; lia|].
  cbn [concat]. destruct i as [|i]; cbn [nth].
  - rewrite app_nth1 by lia. reflexivity.
  - rewrite app_nth2 by nia. rewrite <- IH by (cbn in Hi; lia). f_equal. nia.
Qed.

Theorem resize_dim_spec {X} (z : X) : forall sh fl k size idx,
  k < length sh -> length fl = nel sh -> in_bounds (upd sh k size) idx ->
  nth (lin (upd sh k size) idx) (resize_dim z sh fl k size) z =
  if nth k idx 0 + nth k sh 0 <? size then z
  else nth (lin sh (upd idx k (nth k idx 0 + nth k sh 0 - size))) fl z.
Proof.
  induction sh as [|a sh IH]; intros fl k size idx Hk Hl Hb; [cbn in Hk; lia|].
  destruct idx as [|i0 idx]; [destruct k; cbn in Hb; tauto|].
  destruct k as [|k].
  - (* the leading dimension *)
    cbn [upd in_bounds] in Hb. destruct Hb as [Hi0 Hb]. pose proof (lin_lt _ _ Hb) as Hr.
    cbn [upd lin nth]. set (m := nel sh) in *. set (r := lin sh idx) in *.
    unfold resize_dim. cbn [firstn nth skipn nel fold_right chunks map concat]. fold (nel sh). fold m.
    rewrite nel_cons in Hl. fold m in Hl.
    assert (Hf : firstn (a * m) fl = fl) by (rewrite <- Hl; apply firstn_all). rewrite Hf, !app_nil_r.
    destruct (Nat.ltb_spec size a) as [H1|H1].
    + destruct (Nat.ltb_spec (i0 + a) size); [lia|].
      rewrite nth_skipn_add. f_equal. nia.
    + destruct (Nat.ltb_spec a size) as [H2|H2].
      * destruct (Nat.ltb_spec (i0 + a) size) as [H3|H3].
        -- rewrite app_nth1 by (rewrite repeat_length; nia). apply nth_repeat_lt. nia.
        -- rewrite app_nth2 by (rewrite repeat_length; nia). rewrite repeat_length. f_equal. nia.
      * assert (size = a) as -> by lia. destruct (Nat.ltb_spec (i0 + a) a); [lia|]. f_equal. f_equal. lia.
  - (* a trailing dimension: act on every leading slice *)
    cbn [upd in_bounds] in Hb. destruct Hb as [Hi0 Hb]. cbn [length] in Hk.
    cbn [upd lin nth]. rewrite nel_cons in Hl.
    set (m := nel sh) in *. set (m' := nel (upd sh k size)).
    set (rows := chunks m a fl).
    assert (Hu : uniform m rows) by (apply chunks_uniform; exact Hl).
    assert (Hlen : length rows = a) by apply chunks_length.
    assert (Hcat : concat rows = fl) by (apply concat_chunks; exact Hl).
    rewrite <- Hcat at 1. rewrite <- Hlen at 1.
    rewrite (resize_dim_succ z sh rows k size ltac:(lia) Hu).
    assert (Hu' : uniform m' (map (fun row => resize_dim z sh row k size) rows)).
    { eapply uniform_map; [|exact Hu]. intros row Hrow. apply resize_dim_length; [lia|exact Hrow]. }
    pose proof (lin_lt _ _ Hb) as Hr. fold m' in Hr.
    rewrite (nth_concat_uniform z m' _ i0 _ Hu') by (rewrite ?map_length; lia).
    rewrite (nth_indep _ [] (resize_dim z sh [] k size)) by (rewrite map_length; lia).
    rewrite (map_nth (fun row => resize_dim z sh row k size)).
    assert (Hrow : length (nth i0 rows []) = m).
    { unfold uniform in Hu. rewrite Forall_forall in Hu. apply Hu. apply nth_In. lia. }
    rewrite (IH (nth i0 rows []) k size idx ltac:(lia) Hrow Hb).
    destruct (Nat.ltb_spec (nth k idx 0 + nth k sh 0) size) as [H3|H3]; [reflexivity|].
    assert (Hk' : k < length idx) by (rewrite (in_bounds_length _ _ Hb), upd_length'; lia).
    assert (Hi : nth k idx 0 < size).
    { clear - Hb Hk Hk'. revert idx k Hb Hk Hk'. induction sh as [|s sh IHs]; intros [|i idx] [|k] Hb Hk Hk'; cbn in *; try lia; try tauto.
      apply IHs; try tauto; lia. }
    assert (Hb2 : in_bounds sh (upd idx k (nth k idx 0 + nth k sh 0 - size))) by (eapply in_bounds_upd; [exact Hb|lia]).
    pose proof (lin_lt _ _ Hb2) as Hr2. fold m in Hr2.
    unfold rows. rewrite (nth_chunk z m a fl i0 _ Hi0 Hr2). reflexivity.
Qed.

(* __make_compatible as a whole: data type kept, only the addressed dimension changes, the flat data
   still matches the shape, and the content is the tail-preserving / zero-prepending resize *)
Theorem make_compatible_spec {A D} (zeroA : A) (t : @tensor A D) dim sz idx :
  let k := pyidx (ndim t) dim in
  k < ndim t -> length (tflat t) = nel (tshape t) -> in_bounds (upd (tshape t) k sz) idx ->
  let t' := make_compatible zeroA t dim sz in
  tdt t' = tdt t /\ tshape t' = upd (tshape t) k sz /\ length (tflat t') = nel (tshape t') /\
  nth (lin (tshape t') idx) (tflat t') zeroA =
    if nth k idx 0 + nth k (tshape t) 0 <? sz then zeroA
    else nth (lin (tshape t) (upd idx k (nth k idx 0 + nth k (tshape t) 0 - sz))) (tflat t) zeroA.
Proof.
  intros k Hk Hl Hb t'.
  assert (E : tdt t' = tdt t /\ tshape t' = upd (tshape t) k sz /\ tflat t' = resize_dim zeroA (tshape t) (tflat t) k sz).
  { unfold t', make_compatible. fold k.
    destruct (Nat.ltb_spec sz (nth k (tshape t) 0)) as [H1|H1]; [auto|].
    destruct (Nat.ltb_spec (nth k (tshape t) 0) sz) as [H2|H2]; [auto|].
    assert (sz = nth k (tshape t) 0) as -> by lia.
    split; [reflexivity|]. split.
    - clear. generalize (tshape t) k. induction l as [|h tl IH]; intros [|j]; cbn; auto. f_equal. apply IH.
    - unfold resize_dim. rewrite Nat.ltb_irrefl. reflexivity. }
  destruct E as (E1 & E2 & E3). split; [exact E1|]. split; [exact E2|]. rewrite E2, E3. split.
  - apply resize_dim_length; [exact Hk|exact Hl].
  - apply resize_dim_spec; assumption.
Qed.
