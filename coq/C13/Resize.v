(* Model of the resizing operations of inferno.core.infrastructure.RecordTensor: the temporal setters
   (dt, duration, inclusive), RecordTensor.reconstrain, value assignment and deinitialisation, on top
   of the C01 ring model (C01/Ring.v) and the ShapedTensor model (C13/Shaped.v).
   Definitions only.  Numbers (step time, duration) are in an arbitrary Num; the record size is the
   GENERATED expression Gen.Infra.recordsz_expr (translated from the three occurrences in the source).

   State: the ring (record size N = constraints[0], pointer, storage), the flags, the constraints on
   the other dimensions in STORAGE coordinates (key d+1 for a user dimension d >= 0, key d for d < 0),
   the temporal configuration. *)
From Coq Require Import List ZArith Bool Arith Lia.
From Inferno Require Import Base.Num Gen.Infra C01.Ring C13.Shaped.
Import ListNotations.

Section Resize.
Variable Nm : Num.
Context {A D : Type}.
Variable cast : D -> A -> A.
Variable promote : D -> D -> D.
Variable D_eqb : D -> D -> bool.
Variable zeroA : A.
Variable default_d : D.          (* torch default dtype (torch.empty(0) created by deinitialize from None) *)

Notation ring := (@ring A D).
Notation storage := (@storage A D).
Notation sdata := (@sdata A D).
Notation shaped := (@shaped A D).

Record rec := mkRec {
  rg : ring;
  rstrict : bool; rlive : bool; rparam : bool;
  rcons : cons_t;                 (* constraints other than the record dimension (key 0) *)
  rdt : T Nm; rdur : T Nm; rincl : bool
}.

Definition set_rg (r : rec) (g : ring) : rec :=
  mkRec g (rstrict r) (rlive r) (rparam r) (rcons r) (rdt r) (rdur r) (rincl r).

(* ---------- storage <-> tensor ---------- *)
Definition data_of (x : storage) : sdata :=
  match x with
  | SNone => DNone
  | SEmpty d => DTensor (mkT d [0] [])
  | SFull d sh rows => DTensor (mkT d (length rows :: sh) (concat rows))
  end.
Definition storage_of (x : sdata) (dflt : storage) : storage :=
  match x with
  | DNone => SNone
  | DUninit => dflt
  | DTensor t =>
      match tshape t with
      | [] => dflt
      | n :: sh => if (n =? 0) && (length sh =? 0) then SEmpty (tdt t)
                   else SFull (tdt t) sh (chunks (nel sh) n (tflat t))
      end
  end.

(* the full constraint dictionary of the underlying ShapedTensor *)
Definition all_cons (r : rec) : cons_t := (0%Z, N (rg r)) :: rcons r.
Definition to_shaped (r : rec) : shaped :=
  mkShaped (rstrict r) (rlive r) (rparam r) (all_cons r) (data_of (st (rg r))).
Definition of_shaped (r : rec) (s : shaped) : rec :=
  mkRec (mkRing (match lookup (scons s) 0 with Some n => n | None => N (rg r) end) (ptr (rg r))
                (storage_of (sdat s) (st (rg r))))
        (rstrict r) (rlive r) (rparam r) (dict_del (scons s) 0) (rdt r) (rdur r) (rincl r).

Definition rignored (r : rec) : bool := ignore (data_of (st (rg r))).
Definition rvalid (r : rec) : bool := valid (to_shaped r).
(* RecordTensor.constraints (infrastructure.py:1130-1143): user coordinates, record dimension hidden *)
Definition user_cons (r : rec) : cons_t :=
  map (fun ds => ((if (0 <=? fst ds)%Z then fst ds - 1 else fst ds)%Z, snd ds)) (rcons r).

(* ---------- construction: infrastructure.py:908-994 ---------- *)
Definition shift_cons (c : cons_t) : cons_t :=
  map (fun ds => ((if (0 <=? fst ds)%Z then fst ds + 1 else fst ds)%Z, snd ds)) c.
Definition rcreate (strict live param : bool) (ucons : cons_t) (dt dur : T Nm) (incl : bool)
                   (value : option (@tensor A D)) : rec + xerr :=
  if negb (gtb Nm dt (zero Nm)) then inr XValue
  else if negb (geb Nm dur (zero Nm)) then inr XValue
  else
    let size := Z.to_nat (recordsz_expr Nm dur dt incl) in
    (* value.unsqueeze(0).repeat(size, 1, ...) when the given observation is not ignored *)
    let v := match value with
             | None => SNone
             | Some t => if ignore (DTensor t) then SEmpty (tdt t)
                         else SFull (tdt t) (tshape t) (repeat (tflat t) size)
             end in
    let r := mkRec (mkRing size 0 v) strict live param (shift_cons ucons) dt dur incl in
    if ignore_or_compatible (data_of v) (all_cons r) strict then inl r else inr XRuntime.

(* ---------- the size change shared by the three setters: infrastructure.py:1172-1180, 1213-1221 ---- *)
Definition align0 (r : rec) : rec + xerr :=
  match align (rg r) 0 with
  | Ok g _ => inl (set_rg r g)
  | Err e => inr (xerr_of e)
  end.

Definition resize_record (r : rec) : rec * option xerr :=
  let size := Z.to_nat (recordsz_expr Nm (rdur r) (rdt r) (rincl r)) in
  if size =? N (rg r) then (r, None)
  else
    match (if rignored r then inl r else align0 r) with
    | inr e => (r, Some e)
    | inl r1 =>
        let '(s', e) := reconstrain zeroA (to_shaped r1) 0 (Some (Z.of_nat size)) in
        (of_shaped r1 s', e)
    end.

(* infrastructure.py:1164-1180 *)
Definition set_dt (r : rec) (v : T Nm) : rec * option xerr :=
  if negb (gtb Nm v (zero Nm)) then (r, Some XValue)
  else resize_record (mkRec (rg r) (rstrict r) (rlive r) (rparam r) (rcons r) v (rdur r) (rincl r)).
(* infrastructure.py:1205-1221 *)
Definition set_duration (r : rec) (v : T Nm) : rec * option xerr :=
  if negb (geb Nm v (zero Nm)) then (r, Some XValue)
  else resize_record (mkRec (rg r) (rstrict r) (rlive r) (rparam r) (rcons r) (rdt r) v (rincl r)).
(* infrastructure.py:1240-1249: stores the flag, then re-assigns the duration through the property *)
Definition set_inclusive (r : rec) (b : bool) : rec * option xerr :=
  set_duration (mkRec (rg r) (rstrict r) (rlive r) (rparam r) (rcons r) (rdt r) (rdur r) b) (rdur r).

(* infrastructure.py:2379-2399 (RecordTensor.reconstrain): align first (even when the call then
   fails), shift non-negative dims past the record dimension *)
Definition rreconstrain (r : rec) (dim : Z) (size : option Z) : rec * option xerr :=
  match (if rignored r then inl r else align0 r) with
  | inr e => (r, Some e)
  | inl r1 =>
      let '(s', e) := reconstrain zeroA (to_shaped r1) (dim + (if (0 <=? dim)%Z then 1 else 0)) size in
      (of_shaped r1 s', e)
  end.

(* infrastructure.py:1368-1372 (RecordTensor.value setter): ShapedTensor's setter (which may refuse:
   None over a parameter, an incompatible tensor on a live attribute), then - when the value now stored
   is ignored (None, or no elements and at most one dimension) - the pointer is rewound to 0; a
   non-ignored value leaves the pointer where it was *)
Definition rset_value (r : rec) (v : storage) : rec * option xerr :=
  let '(s', e) := set_value (to_shaped r) (data_of v) in
  match e with
  | Some x => (r, Some x)
  | None =>
      if ignore (data_of v) then (set_rg r (mkRing (N (rg r)) 0 v), None)
      else (set_rg r (mkRing (N (rg r)) (ptr (rg r)) v), None)
  end.

(* infrastructure.py:1477-1542 (deinitialize(False)): empty tensor of the same data type, pointer 0 *)
Definition rdeinit (r : rec) : rec * option xerr :=
  let d := match st (rg r) with SNone => default_d | SEmpty d => d | SFull d _ _ => d end in
  (set_rg r (mkRing (N (rg r)) 0 (SEmpty d)), None).

(* ---------- operations as data ---------- *)
Inductive rop :=
| RRing (o : @Ring.op A D)
| RSetDt (v : T Nm) | RSetDur (v : T Nm) | RSetIncl (b : bool)
| RRecon (dim : Z) (size : option Z)
| RSetValue (v : storage)
| RDeinit.

Definition rstep (r : rec) (o : rop) : rec * option xerr * option (@Ring.output A D) :=
  match o with
  | RRing x =>
      match step cast promote D_eqb zeroA (rg r) x with
      | Ok g out => (set_rg r g, None, Some out)
      | Err e => (r, Some (xerr_of e), None)
      end
  | RSetDt v => (set_dt r v, None)
  | RSetDur v => (set_duration r v, None)
  | RSetIncl b => (set_inclusive r b, None)
  | RRecon d z => (rreconstrain r d z, None)
  | RSetValue v => (rset_value r v, None)
  | RDeinit => (rdeinit r, None)
  end.

Fixpoint rrun (r : rec) (ops : list rop) : rec :=
  match ops with
  | [] => r
  | o :: tl => rrun (fst (fst (rstep r o))) tl
  end.

End Resize.
