(* The record-size formula over the reals: the GENERATED expression (Gen.Infra.recordsz_expr, translated
   from the three occurrences in infrastructure.py on every run) is the documented
   max(ceil(T/dt) + [inclusive], 1), it is the least admissible number of slots, and every temporal
   setter of the model leaves exactly that many slots. *)
From Coq Require Import List ZArith Bool Arith Lia Reals Lra.
From Flocq Require Import Core.Raux.
From Inferno Require Import Base.Num Base.NumR Gen.Infra C01.Ring C01.RingProofs C13.Shaped C13.Resize C13.ResizeProofs.
Import ListNotations.
Open Scope R_scope.

Theorem recordsz_expr_documented (dur dt : R) (incl : bool) :
  recordsz_expr RN dur dt incl = Z.max (Zceil (dur / dt) + (if incl then 1 else 0)) 1.
Proof. unfold recordsz_expr. rn_simpl. destruct incl; reflexivity. Qed.

(* independent characterisation: the least n >= 1 such that (n - [inclusive]) steps of length dt cover
   the duration *)
Theorem recordsz_least (dur dt : R) (incl : bool) : 0 < dt -> 0 <= dur ->
  let n := recordsz_expr RN dur dt incl in
  let i := (if incl then 1 else 0)%Z in
  (1 <= n)%Z /\ dur <= IZR (n - i) * dt /\
  forall m : Z, (1 <= m)%Z -> dur <= IZR (m - i) * dt -> (n <= m)%Z.
Proof.
  intros Hdt Hdur n i. unfold n. rewrite recordsz_expr_documented. fold i.
  set (q := dur / dt). assert (Hq : dur = q * dt) by (unfold q; field; lra).
  pose proof (Zceil_ub q) as Hub.
  split; [lia|]. split.
  - rewrite Hq. apply Rmult_le_compat_r; [lra|].
    apply Rle_trans with (IZR (Zceil q)); [exact Hub|]. apply IZR_le. lia.
  - intros m Hm Hcov. rewrite Hq in Hcov. apply Rmult_le_reg_r in Hcov; [|exact Hdt].
    apply Zceil_glb in Hcov. lia.
Qed.

Section Formula.
Context {A D : Type}.
Variable cast : D -> A -> A.
Variable promote : D -> D -> D.
Variable D_eqb : D -> D -> bool.
Variable zeroA : A.
Variable default_d : D.

Notation rec := (@rec RN A D).

(* the record always has the documented number of slots *)
Definition formula_inv (r : rec) : Prop :=
  Z.of_nat (N (rg RN r)) = Z.max (Zceil (rdur RN r / rdt RN r) + (if rincl RN r then 1 else 0)) 1.

(* C13, first clause: changing step time, duration or inclusivity always leaves exactly
   max(ceil(duration/dt) + inclusive, 1) slots (real arithmetic), for every accepted argument, from every
   well-formed valid state - initialised or not *)
Theorem recordsz_formula (r : rec) (s : setter RN) :
  rwf RN r -> rvalid RN r = true -> no_alias0 RN r -> setter_ok RN r s ->
  exists r', apply_setter RN zeroA r s = (r', None) /\
    rdt RN r' = rdt RN (configured RN r s) /\ rdur RN r' = rdur RN (configured RN r s) /\
    rincl RN r' = rincl RN (configured RN r s) /\
    Z.of_nat (N (rg RN r')) = Z.max (Zceil (rdur RN r' / rdt RN r') + (if rincl RN r' then 1 else 0)) 1.
Proof.
  intros Hwf Hv Hna Hok.
  destruct (setter_spec RN cast promote D_eqb zeroA default_d r s Hwf Hv Hna Hok)
    as (r' & Hr & _ & _ & _ & HN & Hdt & Hdur & Hincl & _).
  exists r'. split; [exact Hr|]. split; [exact Hdt|]. split; [exact Hdur|]. split; [exact Hincl|].
  unfold formula_inv. rewrite HN, Hdt, Hdur, Hincl. unfold rsize.
  pose proof (rsize_pos RN cast promote D_eqb zeroA default_d (configured RN r s)) as Hp. unfold rsize in Hp.
  rewrite Z2Nat.id by lia. apply recordsz_expr_documented.
Qed.

Lemma inv_formula (r : rec) : Inv RN r -> formula_inv r.
Proof.
  intros (_ & _ & _ & _ & HN). unfold formula_inv. rewrite HN. unfold rsize.
  pose proof (rsize_pos RN cast promote D_eqb zeroA default_d r) as Hp. unfold rsize in Hp.
  rewrite Z2Nat.id by lia. apply recordsz_expr_documented.
Qed.

(* ... and this holds in every state reachable from the constructor through pushes, reads, pointer
   moves, temporal assignments (accepted or refused), reconstrain calls (accepted or refused) and
   deinitialisation, in any order *)
Theorem run_formula strict live param ucons dt dur incl (value : option (@tensor A D)) (r0 : rec) ops :
  rcreate RN strict live param ucons dt dur incl value = inl r0 ->
  NoDup (map fst ucons) ->
  match value with Some t => length (tflat t) = nel (tshape t) | None => True end ->
  (strict = true \/ match value with
                    | Some t => forall dd s, In (dd, s) (shift_cons ucons) -> pyidx (S (length (tshape t))) dd <> 0%nat
                    | None => True end) ->
  all_good RN cast promote D_eqb zeroA default_d r0 ops ->
  let r := rrun RN cast promote D_eqb zeroA default_d r0 ops in
  Inv RN r /\
  Z.of_nat (N (rg RN r)) = Z.max (Zceil (rdur RN r / rdt RN r) + (if rincl RN r then 1 else 0)) 1.
Proof.
  intros Hc Hnd Hv Hal Hg.
  pose proof (rcreate_inv RN cast promote D_eqb zeroA default_d _ _ _ _ _ _ _ _ _ Hc Hnd Hv Hal) as H0.
  pose proof (rrun_inv RN cast promote D_eqb zeroA default_d ops r0 H0 Hg) as H1.
  split; [exact H1|apply inv_formula; exact H1].
Qed.

End Formula.
