(* The record-size formula over the reals: the GENERATED expression (Gen.Infra.recordsz_expr, translated
   from the three occurrences in infrastructure.py on every run) is the documented
   max(ceil(T/dt) + [inclusive], 1), it is the least admissible number of slots, and every temporal
   setter of the model leaves exactly that many slots. *)
From Coq Require Import List ZArith Bool Arith Lia Reals Lra.
From Flocq Require Import Core.Raux.
From Inferno Require Import Base.Num Base.NumR Gen.Infra C01.Ring C01.RingProofs C13.Shaped C13.Resize C13.ResizeProofs.
Import ListNotations.
Open Scope R_scope.

Theorem recordsz_expr_documented (dur dt : R) (incl : bool) :
  recordsz_expr RN dur dt incl = Z.max (Zceil (dur / dt) + (if incl then 1 else 0)) 1.
Proof. unfold recordsz_expr. rn_simpl. destruct incl; reflexivity. Qed.

(* independent characterisation: the least n >= 1 such that (n - [inclusive]) steps of length dt cover
   the duration *)
Theorem recordsz_least (dur dt : R) (incl : bool) : 0 < dt -> 0 <= dur ->
  let n := recordsz_expr RN dur dt incl in
  let i := (if incl then 1 else 0)%Z in
  (1 <= n)%Z /\ dur <= IZR (n - i) * dt /\
  forall m : Z, (1 <= m)%Z -> dur <= IZR (m - i) * dt -> (n <= m)%Z.
Proof.
  intros Hdt Hdur n i. unfold n. rewrite recordsz_expr_documented. fold i.
  set (q := dur / dt). assert (Hq : dur = q * dt) by (unfold q; field; lra).
  pose proof (Zceil_ub q) as Hub.
  split; [lia|]. split.
  - rewrite Hq. apply Rmult_le_compat_r; [lra|].
    apply Rle_trans with (IZR (Zceil q)); [exact Hub|]. apply IZR_le. lia.
  - intros m Hm Hcov. rewrite Hq in Hcov. apply Rmult_le_reg_r in Hcov; [|exact Hdt].
    apply Zceil_glb in Hcov. lia.
Qed.

Section Formula.
Context {A D : Type}.
Variable cast : D -> A -> A.
Variable promote : D -> D -> D.
Variable D_eqb : D -> D -> bool.
Variable zeroA : A.
Variable default_d : D.

Notation rec := (@rec RN A D).

(* the record always has the documented number of slots *)
Definition formula_inv (r : rec) : Prop :=
  Z.of_nat (N (rg RN r)) = Z.max (Zceil (rdur RN r / rdt RN r) + (if rincl RN r then 1 else 0)) 1.

(* C13, first clause: changing step time, duration or inclusivity always leaves exactly
   max(ceil(duration/dt) + inclusive, 1) slots (real arithmetic), for every accepted argument, from every
   well-formed valid state - initialised or not *)
Theorem recordsz_formula (r : rec) (s : setter RN) :
  rwf RN r -> rvalid RN r = true -> no_alias0 RN r -> setter_ok RN r s ->
  exists r', apply_setter RN zeroA r s = (r', None) /\
    rdt RN r' = rdt RN (configured RN r s) /\ rdur RN r' = rdur RN (configured RN r s) /\
    rincl RN r' = rincl RN (configured RN r s) /\ formula_inv r'.
Proof.
  intros Hwf Hv Hna Hok.
  destruct (setter_spec RN cast promote D_eqb zeroA default_d r s Hwf Hv Hna Hok)
    as (r' & Hr & _ & _ & _ & HN & Hdt & Hdur & Hincl & _).
  exists r'. split; [exact Hr|]. split; [exact Hdt|]. split; [exact Hdur|]. split; [exact Hincl|].
  unfold formula_inv. rewrite HN, Hdt, Hdur, Hincl. unfold rsize.
  pose proof (rsize_pos RN cast promote D_eqb zeroA default_d (configured RN r s)) as Hp. unfold rsize in Hp.
  rewrite Z2Nat.id by lia. apply recordsz_expr_documented.
Qed.

End Formula.
