(* Proofs about the resizing of a RecordTensor (C13/Resize.v): the size formula, preservation of the
   newest observations at the same steps-before-present positions, zero fill of older new slots,
   success on uninitialised storage, constraint operations on a record, and the invariants over
   arbitrary operation sequences.  The structural theorems hold for every number type; the size
   formula is stated for the real instance. *)
From Coq Require Import List ZArith Bool Arith Lia.
From Inferno Require Import Base.Num Gen.Infra C01.Ring C01.RingProofs C13.Shaped C13.Lists C13.ShapedProofs C13.Resize.
Import ListNotations.
Ltac Zify.zify_post_hook ::= Z.div_mod_to_equations.

(* ------------------------------------------------------------------ resizing the leading dimension *)
(* the record after its leading dimension went from [length rows] to [size]: the newest [size] rows
   are kept, or zero rows are prepended *)
Definition resized_rows {A} (zeroA : A) (m : nat) (rows : list (list A)) (size : nat) : list (list A) :=
  if size <? length rows then skipn (length rows - size) rows
  else repeat (repeat zeroA m) (size - length rows) ++ rows.

Lemma resized_rows_length {A} (z : A) m rows size : length (resized_rows z m rows size) = size.
Proof.
  unfold resized_rows. destruct (Nat.ltb_spec size (length rows)).
  - rewrite skipn_length. lia.
  - rewrite app_length, repeat_length. lia.
Qed.
Lemma resized_rows_uniform {A} (z : A) m rows size : uniform m rows -> uniform m (resized_rows z m rows size).
Proof.
  intros H. unfold resized_rows. destruct (size <? length rows).
  - apply uniform_skipn; exact H.
  - apply uniform_app; [apply uniform_repeat; apply repeat_length|exact H].
Qed.

Lemma resize_dim0 {A} (z : A) sh (rows : list (list A)) size : uniform (nel sh) rows ->
  resize_dim z (length rows :: sh) (concat rows) 0 size = concat (resized_rows z (nel sh) rows size).
Proof.
  intros Hu. unfold resize_dim, resized_rows. cbn [firstn nth skipn nel fold_right chunks map concat].
  fold (nel sh). pose proof (concat_length_uniform _ _ Hu) as Hl.
  assert (Hf : firstn (length rows * nel sh) (concat rows) = concat rows) by (rewrite <- Hl; apply firstn_all).
  rewrite Hf, !app_nil_r.
  destruct (Nat.ltb_spec size (length rows)) as [H1|H1].
  - apply skipn_concat_uniform; exact Hu.
  - destruct (Nat.ltb_spec (length rows) size) as [H2|H2].
    + rewrite concat_app, concat_repeat_repeat. reflexivity.
    + replace (size - length rows) with 0 by lia. reflexivity.
Qed.

(* position of "k steps before the write position" when the pointer is 0 *)
Lemma idx0 n k : 0 < n -> (1 <= k <= Z.of_nat n)%Z -> unwind 0 k n = n - Z.to_nat k.
Proof.
  intros Hn Hk. unfold unwind, _unwind_ptr.
  replace (Z.of_nat 0 - k)%Z with ((Z.of_nat n - k) + (-1) * Z.of_nat n)%Z by lia.
  rewrite Z.mod_add by lia. rewrite Z.mod_small by lia. lia.
Qed.

Lemma resized_rows_newest {A} (z : A) m rows size k :
  1 <= k -> k <= length rows -> k <= size ->
  nth (size - k) (resized_rows z m rows size) [] = nth (length rows - k) rows [].
Proof.
  intros H1 H2 H3. unfold resized_rows. destruct (Nat.ltb_spec size (length rows)).
  - rewrite nth_skipn_add. f_equal. lia.
  - rewrite app_nth2 by (rewrite repeat_length; lia). rewrite repeat_length. f_equal. lia.
Qed.
Lemma resized_rows_older {A} (z : A) m rows size k :
  length rows < k -> k <= size -> nth (size - k) (resized_rows z m rows size) [] = repeat z m.
Proof.
  intros H1 H2. unfold resized_rows. destruct (Nat.ltb_spec size (length rows)); [lia|].
  rewrite app_nth1 by (rewrite repeat_length; lia). apply nth_repeat_lt. lia.
Qed.

Section ResizeProofs.
Variable Nm : Num.
Context {A D : Type}.
Variable cast : D -> A -> A.
Variable promote : D -> D -> D.
Variable D_eqb : D -> D -> bool.
Variable zeroA : A.
Variable default_d : D.

Notation rec := (@rec Nm A D).
Notation ring := (@ring A D).
Notation tensor := (@tensor A D).
Notation rg := (@rg Nm A D).
Notation rcons := (@rcons Nm A D).
Notation rstrict := (@rstrict Nm A D).
Notation rlive := (@rlive Nm A D).
Notation rparam := (@rparam Nm A D).
Notation rdt := (@rdt Nm A D).
Notation rdur := (@rdur Nm A D).
Notation rincl := (@rincl Nm A D).
Notation all_cons := (@all_cons Nm A D).
Notation to_shaped := (@to_shaped Nm A D).
Notation of_shaped := (@of_shaped Nm A D).
Notation rignored := (@rignored Nm A D).
Notation rvalid := (@rvalid Nm A D).
Notation resize_record := (@resize_record Nm A D zeroA).
Notation set_dt := (@set_dt Nm A D zeroA).
Notation set_duration := (@set_duration Nm A D zeroA).
Notation set_inclusive := (@set_inclusive Nm A D zeroA).
Notation rreconstrain := (@rreconstrain Nm A D zeroA).
Notation align0 := (@align0 Nm A D).
Notation SFull := (@SFull A D).
Notation DTensor := (@DTensor A D).

(* ------------------------------------------------------------------ well-formedness *)
Definition rows_uniform (g : ring) : Prop :=
  match st g with Ring.SFull d sh rws => uniform (nel sh) rws | _ => True end.
(* ring well formed (C01), every stored observation has the observation shape's number of elements,
   constraint keys unique (in particular no second constraint stored under key 0), pointer at 0
   while there is no storage (deinitialize and initialize reset it) *)
Definition rwf (r : rec) : Prop :=
  wf (rg r) /\ rows_uniform (rg r) /\ NoDup (keys (all_cons r)) /\ (~ full (rg r) -> ptr (rg r) = 0).
(* no constraint on another key addresses the record dimension (possible only with non-strict
   constraints: a negative key equal to minus the number of storage dimensions) *)
Definition no_alias0 (r : rec) : Prop :=
  match st (rg r) with
  | Ring.SFull d sh rws => forall dd s, In (dd, s) (rcons r) -> pyidx (S (length sh)) dd <> 0
  | _ => True
  end.

Lemma full_not_ignored (g : ring) d sh rws : wf g -> st g = SFull d sh rws -> ignore (data_of (st g)) = false.
Proof.
  intros (Hn & _ & Hl) Hs. rewrite Hs in *. cbn. destruct sh as [|a sh']; cbn.
  - rewrite Nat.mul_1_r. destruct (Nat.eqb_spec (length rws) 0); [lia|reflexivity].
  - apply andb_false_r.
Qed.
Lemma notfull_ignored (g : ring) : ~ full g -> ignore (data_of (st g)) = true.
Proof. unfold full. destruct (st g); cbn; tauto. Qed.
Lemma rignored_iff (r : rec) : rwf r -> (rignored r = true <-> ~ full (rg r)).
Proof.
  intros (Hw & _). unfold Resize.rignored. split.
  - intros Hi Hf. unfold full in Hf. destruct (st (rg r)) as [| |d sh rws] eqn:Es; try contradiction.
    pose proof (full_not_ignored _ _ _ _ Hw Es) as H. rewrite Es in H. congruence.
  - apply notfull_ignored.
Qed.

(* with strict constraints a valid record never has a constraint aliasing the record dimension *)
Lemma strict_no_alias0 (r : rec) : rwf r -> rstrict r = true -> rvalid r = true -> no_alias0 r.
Proof.
  intros (Hw & Hu & Hnd & Hp0) Hs Hv. unfold no_alias0. destruct (st (rg r)) as [| |d sh rws] eqn:Es; [exact I|exact I|].
  intros dd s Hin. unfold Resize.rvalid in Hv. apply valid_spec in Hv. cbn [sdat Resize.to_shaped] in Hv.
  pose proof (full_not_ignored _ _ _ _ Hw Es) as Hi. rewrite Es in Hv, Hi. cbn [data_of] in Hv, Hi.
  destruct Hv as [Hv|[Hh Hf]]; [congruence|]. cbn [sstrict scons] in Hh, Hf. specialize (Hf Hs).
  assert (Hk : In dd (keys (all_cons r))) by (apply in_keys; exists s; right; exact Hin).
  assert (H0 : In 0%Z (keys (all_cons r))) by (left; reflexivity).
  assert (Hne : dd <> 0%Z).
  { intros ->. unfold Resize.all_cons in Hnd. cbn in Hnd. inversion Hnd as [|? ? Hni _]. apply Hni.
    apply in_keys. exists s. exact Hin. }
  change (ndim (mkT d (length rws :: sh) (concat rws))) with (S (length sh)) in *.
  destruct (Z_lt_le_dec dd 0) as [Hneg|Hpos].
  - pose proof (Hf 0%Z dd H0 Hk ltac:(lia) Hneg) as Hlt. rewrite (pyidx_nonneg _ 0) in Hlt by lia. lia.
  - rewrite pyidx_nonneg by lia. lia.
Qed.

(* ------------------------------------------------------------------ the edit of the record dimension *)
Lemma reconstrain0_full (r : rec) d sh rws size : rwf r -> st (rg r) = SFull d sh rws ->
  rvalid r = true -> no_alias0 r ->
  reconstrain zeroA (to_shaped r) 0 (Some (Z.of_nat size)) =
    (mkShaped (rstrict r) (rlive r) (rparam r) ((0%Z, size) :: rcons r)
       (DTensor (mkT d (size :: sh) (concat (resized_rows zeroA (nel sh) rws size)))), None).
Proof.
  intros (Hw & Hu & Hnd & Hp0) Es Hv Hna.
  pose proof (full_not_ignored _ _ _ _ Hw Es) as Hi.
  unfold rows_uniform in Hu. unfold no_alias0 in Hna. rewrite Es in Hu, Hna.
  set (t := mkT d (length rws :: sh) (concat rws)).
  assert (Hd : sdat (to_shaped r) = DTensor t) by (unfold Resize.to_shaped; cbn [sdat]; rewrite Es; reflexivity).
  assert (Hl : lookup (scons (to_shaped r)) 0 = Some (N (rg r))) by reflexivity.
  assert (Hi' : ignore (sdat (to_shaped r)) = false) by (unfold Resize.to_shaped; cbn [sdat]; exact Hi).
  pose proof (edit_spec zeroA (to_shaped r) t 0 (Z.of_nat size) (N (rg r)) Hnd Hl ltac:(lia) Hd Hi' Hv) as [Hok _].
  cbv zeta in Hok. rewrite Nat2Z.id in Hok.
  assert (Hc' : dict_set (scons (to_shaped r)) 0 size = (0%Z, size) :: rcons r) by reflexivity.
  rewrite Hc' in Hok.
  assert (Hp : pairwise_consistent (ndim t) ((0%Z, size) :: rcons r)).
  { unfold Resize.rvalid in Hv. apply valid_spec in Hv. rewrite Hd in Hv.
    destruct Hv as [Hv|[Hh _]]; [rewrite Hd in Hi'; congruence|].
    change (ndim t) with (S (length sh)) in *.
    intros d1 s1 d2 s2 [H1|H1] [H2|H2] He.
    - congruence.
    - injection H1 as <- <-. exfalso. apply (Hna _ _ H2). rewrite <- He. reflexivity.
    - injection H2 as <- <-. exfalso. apply (Hna _ _ H1). rewrite He. reflexivity.
    - destruct (Hh d1 s1 (or_intror H1)) as [_ V1]. destruct (Hh d2 s2 (or_intror H2)) as [_ V2].
      change (ndim t) with (S (length sh)) in *. rewrite <- V1, <- V2, He. reflexivity. }
  destruct (Hok Hp) as [Hr _]. rewrite Hr. f_equal. f_equal. f_equal.
  (* make_compatible on the leading dimension *)
  unfold make_compatible. change (pyidx (ndim t) 0) with 0. cbn [tshape t nth tdt tflat upd].
  rewrite (resize_dim0 zeroA sh rws size Hu).
  destruct (Nat.ltb_spec size (length rws)) as [H1|H1]; [reflexivity|].
  destruct (Nat.ltb_spec (length rws) size) as [H2|H2]; [reflexivity|].
  assert (size = length rws) as -> by lia. unfold t, resized_rows. rewrite Nat.ltb_irrefl, Nat.sub_diag. reflexivity.
Qed.

(* ------------------------------------------------------------------ alignment keeps everything but the layout *)
Lemma roll_In {X} (dflt : X) (l : list X) z x : In x (roll dflt l z) -> In x l.
Proof.
  unfold roll. rewrite in_map_iff. intros (j & <- & Hj). apply in_seq in Hj.
  apply nth_In. destruct l as [|h t]; [cbn in Hj; lia|].
  assert (0 < Z.of_nat (length (h :: t)))%Z by (cbn [length]; lia).
  pose proof (Z.mod_pos_bound (Z.of_nat j - z) (Z.of_nat (length (h :: t))) ltac:(lia)). lia.
Qed.
Lemma roll_uniform {X} m (l : list (list X)) z : uniform m l -> uniform m (roll [] l z).
Proof. unfold uniform. rewrite !Forall_forall. intros H x Hx. apply H. eapply roll_In; eauto. Qed.

Definition rsize (r : rec) : nat := Z.to_nat (recordsz_expr Nm (rdur r) (rdt r) (rincl r)).
(* the generated size expression is at least 1, whatever the numbers *)
Lemma rsize_pos (r : rec) : 1 <= rsize r.
Proof. unfold rsize, recordsz_expr. lia. Qed.

Lemma align0_full (r : rec) d sh rws : rwf r -> st (rg r) = SFull d sh rws ->
  exists rws1, align0 r = inl (set_rg Nm r (mkRing (N (rg r)) 0 (SFull d sh rws1))) /\
    length rws1 = N (rg r) /\ uniform (nel sh) rws1 /\
    forall k, at_ (mkRing (N (rg r)) 0 (SFull d sh rws1)) k = at_ (rg r) k.
Proof.
  intros (Hw & Hu & Hnd & Hp0) Es. pose proof Hw as (Hn & Hp & Hl). rewrite Es in Hl.
  assert (Hf : full (rg r)) by (unfold full; rewrite Es; exact I).
  destruct (align_spec cast promote D_eqb zeroA (rg r) 0 Hw Hf ltac:(lia)) as (g1 & Ha & Hw1 & HN1 & Hp1 & _ & Hat).
  unfold Resize.align0. rewrite Ha.
  unfold align in Ha. replace ((0 <=? 0)%Z && (0 <? Z.of_nat (N (rg r)))%Z) with true in Ha by lia.
  cbn [negb] in Ha. rewrite Es in Ha. injection Ha as <-.
  exists (roll [] rws (0 - Z.of_nat (ptr (rg r)))). split; [reflexivity|]. split; [|split].
  - rewrite roll_length. exact Hl.
  - apply roll_uniform. unfold rows_uniform in Hu. rewrite Es in Hu. exact Hu.
  - exact Hat.
Qed.

(* validity only looks at the shape *)
Lemma rvalid_full (r : rec) d sh rws : st (rg r) = SFull d sh rws ->
  rvalid r = ignore_or_compatible (DTensor (mkT d (length rws :: sh) (concat rws))) (all_cons r) (rstrict r).
Proof. intros Es. unfold Resize.rvalid, valid, Resize.to_shaped. cbn [sdat scons sstrict]. rewrite Es. reflexivity. Qed.
Lemma ioc_shape (t1 t2 : tensor) c strict : tshape t1 = tshape t2 ->
  ignore_or_compatible (DTensor t1) c strict = ignore_or_compatible (DTensor t2) c strict.
Proof.
  intros E. unfold ignore_or_compatible, ignore, constraints_compatible, ndim. rewrite E. reflexivity.
Qed.

(* ------------------------------------------------------------------ the size change of the setters *)
Lemma reconstrain0_ignored (r : rec) size : ~ full (rg r) ->
  reconstrain zeroA (to_shaped r) 0 (Some (Z.of_nat size)) =
    (set_cons (to_shaped r) ((0%Z, size) :: rcons r), None) /\
  storage_of (data_of (st (rg r))) (st (rg r)) = st (rg r).
Proof.
  intros Hf. unfold full in Hf. unfold reconstrain, Resize.to_shaped, Resize.all_cons.
  cbn [option_map scons sdat sstrict lookup dict_set].
  destruct (Z.ltb_spec (Z.of_nat size) 0) as [Hlt|_]; [lia|]. rewrite Z.eqb_refl, Nat2Z.id.
  destruct (st (rg r)) as [| |d sh rws]; [| |exfalso; apply Hf; exact I]; cbn; auto.
Qed.

Definition zero_obs (sh : list nat) : list A := repeat zeroA (nel sh).

(* Every temporal setter ends in this size change.  For a well-formed, valid record without a
   constraint aliasing the record dimension it always succeeds, and: *)
Theorem resize_record_spec (r : rec) : rwf r -> rvalid r = true -> no_alias0 r ->
  exists r', resize_record r = (r', None) /\
    rwf r' /\ rvalid r' = true /\ no_alias0 r' /\
    (* exactly the generated number of slots; configuration and constraints untouched *)
    N (rg r') = rsize r /\ rcons r' = rcons r /\
    rstrict r' = rstrict r /\ rlive r' = rlive r /\ rparam r' = rparam r /\
    rdt r' = rdt r /\ rdur r' = rdur r /\ rincl r' = rincl r /\
    (* storage not initialised yet: no failure, storage and pointer untouched *)
    (~ full (rg r) -> st (rg r') = st (rg r) /\ ptr (rg r') = ptr (rg r)) /\
    (* initialised: same data type and observation shape, the newest min(old,new) observations keep
       their steps-before-present position, older new slots read zero *)
    (forall d sh rws, st (rg r) = SFull d sh rws ->
       exists rws', st (rg r') = SFull d sh rws' /\
         (forall k, (1 <= k <= Z.of_nat (Nat.min (N (rg r)) (rsize r)))%Z -> at_ (rg r') k = at_ (rg r) k) /\
         (forall k, (Z.of_nat (N (rg r)) < k <= Z.of_nat (rsize r))%Z -> at_ (rg r') k = zero_obs sh)).
Proof.
  intros Hwf Hv Hna. pose proof Hwf as (Hw & Hu & Hnd & Hp0). pose proof (rsize_pos r) as Hsz.
  unfold Resize.resize_record. fold (rsize r).
  destruct (Nat.eqb_spec (rsize r) (N (rg r))) as [E|E].
  { (* the size does not change: nothing happens *)
    exists r. split; [reflexivity|]. split; [exact Hwf|]. split; [exact Hv|]. split; [exact Hna|].
    split; [auto|]. do 7 (split; [reflexivity|]). split; [auto|].
    intros d sh rws Es. exists rws. split; [exact Es|]. split; [auto|]. intros k Hk. lia. }
  destruct (rignored r) eqn:Eig.
  - (* uninitialised storage *)
    apply (rignored_iff r Hwf) in Eig.
    destruct (reconstrain0_ignored r (rsize r) Eig) as [Hr Hst]. rewrite Hr.
    eexists. split; [reflexivity|].
    unfold Resize.of_shaped, set_cons. cbn [scons sdat Resize.to_shaped lookup dict_del]. rewrite Z.eqb_refl.
    cbn [Resize.rg Resize.rcons Resize.rstrict Resize.rlive Resize.rparam Resize.rdt Resize.rdur Resize.rincl N ptr st].
    rewrite Hst. specialize (Hp0 Eig).
    assert (Hnf : ~ full (mkRing (rsize r) (ptr (rg r)) (st (rg r)))) by (unfold full in *; cbn [st]; exact Eig).
    assert (Hcase : st (rg r) = SNone \/ exists d0, st (rg r) = SEmpty d0).
    { unfold full in Eig. destruct (st (rg r)); eauto. exfalso; apply Eig; exact I. }
    split. { split; [apply wf0; cbn [N ptr Resize.rg]; [lia|lia|exact Hnf]|]. split.
             - unfold rows_uniform. cbn [st Resize.rg]. destruct Hcase as [->|(d0 & ->)]; exact I.
             - split; [exact Hnd|]. intros _. exact Hp0. }
    split. { unfold Resize.rvalid, valid, Resize.to_shaped. cbn [sdat Resize.rg st].
             destruct Hcase as [->|(d0 & ->)]; reflexivity. }
    split. { unfold no_alias0. cbn [Resize.rg st]. destruct Hcase as [->|(d0 & ->)]; exact I. }
    do 8 (split; [reflexivity|]). split; [intros _; split; reflexivity|].
    intros d sh rws Es. exfalso. apply Eig. unfold full. rewrite Es. exact I.
  - (* initialised storage: align to 0, then resize the leading dimension *)
    assert (Hf : full (rg r)).
    { destruct (rignored_iff r Hwf) as [_ H2]. unfold full.
      destruct (st (rg r)) eqn:Es; auto; exfalso;
        (rewrite H2 in Eig; [discriminate|unfold full; rewrite Es; tauto]). }
    unfold full in Hf. destruct (st (rg r)) as [| |d sh rws] eqn:Es; try contradiction. clear Hf.
    destruct (align0_full r d sh rws Hwf Es) as (rws1 & Ha & Hl1 & Hu1 & Hat1). rewrite Ha.
    set (g1 := mkRing (N (rg r)) 0 (SFull d sh rws1)) in *.
    set (r1 := set_rg Nm r g1) in *.
    assert (Hw1 : wf g1) by (unfold wf, g1; cbn [N ptr st]; destruct Hw as (Hn & _); auto).
    assert (Hwf1 : rwf r1).
    { split; [exact Hw1|]. split; [exact Hu1|]. split; [exact Hnd|]. intros Hnf. reflexivity. }
    assert (Hv1 : rvalid r1 = true).
    { rewrite (rvalid_full r1 d sh rws1 eq_refl). rewrite (rvalid_full r d sh rws Es) in Hv.
      rewrite <- Hv. apply ioc_shape. cbn [tshape]. destruct Hw as (_ & _ & Hl). rewrite Es in Hl. congruence. }
    assert (Hna1 : no_alias0 r1) by (unfold no_alias0 in *; cbn [Resize.rg r1 Resize.set_rg g1 st]; rewrite Es in Hna; exact Hna).
    pose proof (reconstrain0_full r1 d sh rws1 (rsize r) Hwf1 eq_refl Hv1 Hna1) as Hr.
    rewrite Hr.
    set (rws' := resized_rows zeroA (nel sh) rws1 (rsize r)).
    assert (Hl' : length rws' = rsize r) by apply resized_rows_length.
    assert (Hu' : uniform (nel sh) rws') by (apply resized_rows_uniform; exact Hu1).
    (* validity of the result, from the invariant of reconstrain *)
    pose proof (reconstrain_inv zeroA (to_shaped r1) 0 (Some (Z.of_nat (rsize r))) Hnd Hv1) as (_ & Hv' & _).
    rewrite Hr in Hv'. cbn [fst] in Hv'.
    eexists. split; [reflexivity|].
    unfold Resize.of_shaped. cbn [scons sdat lookup dict_del storage_of tshape tdt tflat]. rewrite Z.eqb_refl.
    replace ((rsize r =? 0) && (length sh =? 0)) with false by (destruct (Nat.eqb_spec (rsize r) 0); [lia|reflexivity]).
    fold rws'. pose proof (chunks_concat _ _ Hu') as Hch. rewrite Hl' in Hch. rewrite Hch.
    cbn [Resize.rg Resize.rcons Resize.rstrict Resize.rlive Resize.rparam Resize.rdt Resize.rdur Resize.rincl
         r1 Resize.set_rg g1 N ptr st].
    set (g' := mkRing (rsize r) 0 (SFull d sh rws')).
    assert (Hw' : wf g') by (unfold wf, g'; cbn [N ptr st]; repeat split; auto; lia).
    split; [|split; [|split; [|do 8 (split; [reflexivity|]); split]]].
    + split; [exact Hw'|]. split; [exact Hu'|]. split; [exact Hnd|]. intros Hnf. reflexivity.
    + match goal with |- Resize.rvalid _ ?x = true => rewrite (rvalid_full x d sh rws' eq_refl) end. cbn [Resize.all_cons Resize.rg Resize.rcons Resize.rstrict N g'].
      unfold valid in Hv'. cbn [sdat scons sstrict] in Hv'. rewrite <- Hv'. apply ioc_shape. cbn [tshape]. congruence.
    + unfold no_alias0 in *. cbn [Resize.rg Resize.rcons st g']. rewrite Es in Hna. exact Hna.
    + intros Hnf. exfalso. apply Hnf. unfold full. rewrite Es. exact I.
    + intros d0 sh0 rws0 E0. injection E0 as <- <- <-. exists rws'. split; [reflexivity|].
      destruct Hw as (Hn & _ & _).
      assert (Hidx1 : forall k, (1 <= k <= Z.of_nat (N (rg r)))%Z -> at_ (rg r) k = nth (N (rg r) - Z.to_nat k) rws1 []).
      { intros k Hk. rewrite <- Hat1. unfold at_, rows, idx, g1. cbn [N ptr st]. rewrite idx0 by lia. reflexivity. }
      split.
      * intros k Hk. rewrite Hidx1 by lia. unfold at_, rows, idx, g'. cbn [N ptr st]. rewrite idx0 by lia.
        unfold rws'. rewrite (resized_rows_newest zeroA (nel sh) rws1 (rsize r) (Z.to_nat k)) by lia.
        rewrite Hl1. reflexivity.
      * intros k Hk. unfold at_, rows, idx, g'. cbn [N ptr st]. rewrite idx0 by lia.
        unfold rws'. apply resized_rows_older; lia.
Qed.

(* ------------------------------------------------------------------ RecordTensor.reconstrain *)
Definition shifted (dim : Z) : Z := (dim + (if (0 <=? dim)%Z then 1 else 0))%Z.
Lemma shifted_nonzero dim : shifted dim <> 0%Z.
Proof. unfold shifted. destruct (Z.leb_spec 0 dim); lia. Qed.

Definition with_cons (r : rec) (c : cons_t) : rec :=
  mkRec Nm (rg r) (rstrict r) (rlive r) (rparam r) c (rdt r) (rdur r) (rincl r).

Lemma storage_roundtrip (g : ring) : wf g -> rows_uniform g -> storage_of (data_of (st g)) (st g) = st g.
Proof.
  intros (Hn & _ & Hl) Hu. unfold rows_uniform in Hu. destruct (st g) as [| |d sh rws]; [reflexivity|reflexivity|].
  cbn [data_of storage_of tshape tdt tflat].
  destruct (Nat.eqb_spec (length rws) 0) as [E|E]; [lia|]. cbn [andb]. rewrite (chunks_concat _ _ Hu). reflexivity.
Qed.
Lemma of_shaped_set_cons (r : rec) c : rwf r ->
  of_shaped r (set_cons (to_shaped r) ((0%Z, N (rg r)) :: c)) = with_cons r c.
Proof.
  intros (Hw & Hu & _). unfold Resize.of_shaped, set_cons, with_cons. cbn [scons sdat Resize.to_shaped lookup dict_del].
  rewrite Z.eqb_refl. rewrite (storage_roundtrip _ Hw Hu). destruct r as [[n p s] ? ? ? ? ? ? ?]; reflexivity.
Qed.
Lemma dict_set_head n c d sz : d <> 0%Z -> dict_set ((0%Z, n) :: c) d sz = (0%Z, n) :: dict_set c d sz.
Proof. intros H. cbn [dict_set]. destruct (Z.eqb_spec 0 d); [congruence|reflexivity]. Qed.
Lemma dict_del_head n c d : d <> 0%Z -> dict_del ((0%Z, n) :: c) d = (0%Z, n) :: dict_del c d.
Proof. intros H. cbn [dict_del]. destruct (Z.eqb_spec 0 d); [congruence|reflexivity]. Qed.

Lemma upd_same {X} (l : list X) i (d : X) : upd l i (nth i l d) = l.
Proof. revert i; induction l as [|h t IH]; intros [|i]; cbn; auto. f_equal. apply IH. Qed.
Lemma resize_dim_same sh (fl : list A) k : resize_dim zeroA sh fl k (nth k sh 0) = fl.
Proof. unfold resize_dim. rewrite Nat.ltb_irrefl. reflexivity. Qed.

(* altering a trailing dimension of the storage = altering that dimension of every observation *)
Lemma make_compatible_trailing (d : D) sh (rws : list (list A)) dim sz j :
  uniform (nel sh) rws -> pyidx (S (length sh)) dim = S j -> j < length sh ->
  make_compatible zeroA (mkT d (length rws :: sh) (concat rws)) dim sz =
  mkT d (length rws :: upd sh j sz) (concat (map (fun row => resize_dim zeroA sh row j sz) rws)).
Proof.
  intros Hu Hp Hj. unfold make_compatible. change (ndim (mkT d (length rws :: sh) (concat rws))) with (S (length sh)).
  rewrite Hp. cbn [tshape tdt tflat]. change (nth (S j) (length rws :: sh) 0) with (nth j sh 0).
  change (upd (length rws :: sh) (S j) sz) with (length rws :: upd sh j sz).
  rewrite (resize_dim_succ zeroA sh rws j sz Hj Hu).
  destruct (Nat.ltb_spec sz (nth j sh 0)) as [H1|H1]; [reflexivity|].
  destruct (Nat.ltb_spec (nth j sh 0) sz) as [H2|H2]; [reflexivity|].
  assert (sz = nth j sh 0) as -> by lia. rewrite upd_same. f_equal.
  rewrite (map_ext _ (fun row => row)) by (intros; apply resize_dim_same). rewrite map_id. reflexivity.
Qed.

Lemma in_keys_rcons (r : rec) d : d <> 0%Z -> In d (keys (all_cons r)) -> In d (keys (rcons r)).
Proof. intros Hne [H|H]; [cbn in H; congruence|exact H]. Qed.

(* the outcome of an alteration that resizes the data, in the record's own representation *)
Lemma rrecon_edit (r1 : rec) (d : D) sh rws1 dim' sz : rwf r1 -> rvalid r1 = true -> no_alias0 r1 ->
  st (rg r1) = SFull d sh rws1 -> dim' <> 0%Z -> In dim' (keys (rcons r1)) ->
  exists j, pyidx (S (length sh)) dim' = S j /\ j < length sh /\
    of_shaped r1 (mkShaped (rstrict r1) (rlive r1) (rparam r1) (dict_set (all_cons r1) dim' sz)
                    (DTensor (make_compatible zeroA (mkT d (length rws1 :: sh) (concat rws1)) dim' sz))) =
    mkRec Nm (mkRing (N (rg r1)) (ptr (rg r1))
                (SFull d (upd sh j sz) (map (fun row => resize_dim zeroA sh row j sz) rws1)))
          (rstrict r1) (rlive r1) (rparam r1) (dict_set (rcons r1) dim' sz) (rdt r1) (rdur r1) (rincl r1) /\
    uniform (nel (upd sh j sz)) (map (fun row => resize_dim zeroA sh row j sz) rws1).
Proof.
  intros Hwf Hv Hna Es Hnz Hin. pose proof Hwf as (Hw & Hu & Hnd & Hp0).
  unfold rows_uniform in Hu. rewrite Es in Hu. pose proof Hw as (Hn & _ & Hl). rewrite Es in Hl.
  apply in_keys in Hin as (s0 & Hin).
  (* the key addresses an existing trailing dimension *)
  assert (Hrange : pyidx (S (length sh)) dim' < S (length sh)).
  { pose proof (full_not_ignored _ _ _ _ Hw Es) as Hi. rewrite Es in Hi.
    unfold Resize.rvalid in Hv. apply valid_spec in Hv. cbn [sdat Resize.to_shaped] in Hv. rewrite Es in Hv.
    cbn [data_of] in Hv, Hi. destruct Hv as [Hv|[Hh _]]; [congruence|].
    destruct (Hh dim' s0 (or_intror Hin)) as [R _]. apply pyidx_lt in R. exact R. }
  assert (Hne0 : pyidx (S (length sh)) dim' <> 0) by (unfold no_alias0 in Hna; rewrite Es in Hna; eapply Hna; eauto).
  destruct (pyidx (S (length sh)) dim') as [|j] eqn:Ep; [congruence|]. exists j.
  split; [reflexivity|]. split; [lia|].
  assert (Hu' : uniform (nel (upd sh j sz)) (map (fun row => resize_dim zeroA sh row j sz) rws1)).
  { eapply uniform_map; [|exact Hu]. intros row Hrow. apply resize_dim_length; [lia|exact Hrow]. }
  split; [|exact Hu'].
  rewrite (make_compatible_trailing d sh rws1 dim' sz j Hu Ep ltac:(lia)).
  unfold Resize.of_shaped. cbn [scons sdat storage_of tshape tdt tflat].
  unfold Resize.all_cons. rewrite (dict_set_head _ _ _ _ Hnz). cbn [lookup dict_del]. rewrite Z.eqb_refl.
  destruct (Nat.eqb_spec (length rws1) 0) as [E|E]; [lia|]. cbn [andb].
  pose proof (chunks_concat _ _ Hu') as Hch. rewrite map_length in Hch. rewrite Hch. reflexivity.
Qed.

(* RecordTensor.reconstrain from a well-formed valid record: never breaks the record - the number of
   slots and the temporal configuration are untouched, the record stays valid - and
   * a refused call, an added and a removed constraint leave every observation as it was (the storage
     is only re-aligned);
   * an altered constraint resizes that dimension of every observation (tail kept / zeros prepended). *)
Theorem rreconstrain_spec (r : rec) dim size : rwf r -> rvalid r = true -> no_alias0 r ->
  (rstrict r = true \/
   forall d sh rws, st (rg r) = SFull d sh rws -> pyidx (S (length sh)) (shifted dim) <> 0) ->
  exists r' e, rreconstrain r dim size = (r', e) /\
    rwf r' /\ rvalid r' = true /\ no_alias0 r' /\ N (rg r') = N (rg r) /\
    rdt r' = rdt r /\ rdur r' = rdur r /\ rincl r' = rincl r /\
    rstrict r' = rstrict r /\ rlive r' = rlive r /\ rparam r' = rparam r /\
    (rcons r' = rcons r \/
     (exists sz, rcons r' = dict_set (rcons r) (shifted dim) sz /\ e = None /\ size = Some (Z.of_nat sz)) \/
     (rcons r' = dict_del (rcons r) (shifted dim) /\ size = None)) /\
    (~ full (rg r) -> st (rg r') = st (rg r) /\ ptr (rg r') = ptr (rg r)) /\
    (forall d sh rws, st (rg r) = SFull d sh rws ->
       (exists rws', st (rg r') = SFull d sh rws' /\ forall k, at_ (rg r') k = at_ (rg r) k) \/
       (exists j sz rws', e = None /\ size = Some (Z.of_nat sz) /\ In (shifted dim) (keys (rcons r)) /\
          pyidx (S (length sh)) (shifted dim) = S j /\ j < length sh /\
          rcons r' = dict_set (rcons r) (shifted dim) sz /\
          st (rg r') = SFull d (upd sh j sz) rws' /\
          forall k, at_ (rg r') k = resize_dim zeroA sh (at_ (rg r) k) j sz)).
Proof.
  intros Hwf Hv Hna Hnew. pose proof Hwf as (Hw & Hu & Hnd & Hp0).
  pose proof (shifted_nonzero dim) as Hnz.
  unfold Resize.rreconstrain. fold (shifted dim).
  (* step 1: alignment *)
  assert (Hal : exists r1, (if rignored r then inl r else align0 r) = inl r1 /\
            rwf r1 /\ rvalid r1 = true /\ no_alias0 r1 /\ N (rg r1) = N (rg r) /\ rcons r1 = rcons r /\
            rdt r1 = rdt r /\ rdur r1 = rdur r /\ rincl r1 = rincl r /\
            rstrict r1 = rstrict r /\ rlive r1 = rlive r /\ rparam r1 = rparam r /\
            (~ full (rg r) -> r1 = r) /\
            (forall d sh rws, st (rg r) = SFull d sh rws ->
               exists rws1, st (rg r1) = SFull d sh rws1 /\ ptr (rg r1) = 0 /\ forall k, at_ (rg r1) k = at_ (rg r) k)).
  { destruct (rignored r) eqn:Eig.
    - exists r. apply (rignored_iff r Hwf) in Eig. do 12 (split; [auto|]). split; [auto|].
      intros d sh rws Es. exfalso. apply Eig. unfold full. rewrite Es. exact I.
    - assert (Hf : full (rg r)).
      { destruct (rignored_iff r Hwf) as [_ H2]. unfold full.
        destruct (st (rg r)) eqn:Es; auto; exfalso;
          (rewrite H2 in Eig; [discriminate|unfold full; rewrite Es; tauto]). }
      unfold full in Hf. destruct (st (rg r)) as [| |d sh rws] eqn:Es; try contradiction. clear Hf.
      destruct (align0_full r d sh rws Hwf Es) as (rws1 & Ha & Hl1 & Hu1 & Hat1). rewrite Ha.
      eexists. split; [reflexivity|].
      set (g1 := mkRing (N (rg r)) 0 (SFull d sh rws1)) in *.
      assert (Hw1 : wf g1) by (unfold wf, g1; cbn [N ptr st]; destruct Hw as (Hn & _); auto).
      split. { split; [exact Hw1|]. split; [exact Hu1|]. split; [exact Hnd|]. intros _. reflexivity. }
      split. { rewrite (rvalid_full (set_rg Nm r g1) d sh rws1 eq_refl). rewrite (rvalid_full r d sh rws Es) in Hv.
               rewrite <- Hv. apply ioc_shape. cbn [tshape]. destruct Hw as (_ & _ & Hl). rewrite Es in Hl. congruence. }
      split. { unfold no_alias0 in *. cbn [Resize.rg Resize.set_rg g1 st]. rewrite Es in Hna. exact Hna. }
      do 8 (split; [reflexivity|]). split.
      + intros Hnf. exfalso. apply Hnf. unfold full. rewrite Es. exact I.
      + intros d0 sh0 rws0 E0. injection E0 as <- <- <-. exists rws1. auto. }
  destruct Hal as (r1 & Hr1 & Hwf1 & Hv1 & Hna1 & HN1 & Hc1 & Ht1 & Ht2 & Ht3 & Hf1 & Hf2 & Hf3 & Hsame1 & Hfull1).
  rewrite Hr1. pose proof Hwf1 as (Hw1 & Hu1 & Hnd1 & Hp1).
  (* step 2: the ShapedTensor call *)
  destruct (reconstrain zeroA (to_shaped r1) (shifted dim) size) as [s' e] eqn:Er.
  pose proof (reconstrain_inv zeroA (to_shaped r1) (shifted dim) size Hnd1 Hv1) as Hinv. rewrite Er in Hinv. cbn [fst] in Hinv.
  destruct Hinv as (Hwfc' & Hval' & _).
  exists (of_shaped r1 s'), e. split; [reflexivity|].
  assert (Hall : all_cons r1 = (0%Z, N (rg r1)) :: rcons r1) by reflexivity.
  (* the three outcomes that do not touch the data *)
  assert (Hkeep : forall c'', s' = set_cons (to_shaped r1) ((0%Z, N (rg r1)) :: c'') ->
            (forall dd ss, In (dd, ss) c'' -> In dd (keys (rcons r)) \/ dd = (shifted dim)) ->
            rwf (with_cons r1 c'') /\ rvalid (with_cons r1 c'') = true /\ no_alias0 (with_cons r1 c'')).
  { intros c'' -> Hsub. split; [|split].
    - split; [exact Hw1|]. split; [exact Hu1|]. split; [exact Hwfc'|exact Hp1].
    - exact Hval'.
    - assert (Hwfk : rwf (with_cons r1 c'')) by (split; [exact Hw1|]; split; [exact Hu1|]; split; [exact Hwfc'|exact Hp1]).
      destruct (rstrict r) eqn:Est.
      + apply strict_no_alias0; [exact Hwfk|cbn [with_cons Resize.rstrict]; congruence|exact Hval'].
      + destruct Hnew as [Hnew|Hnew]; [discriminate|].
        unfold no_alias0 in *. cbn [with_cons Resize.rg Resize.rcons].
        destruct (st (rg r1)) as [| |d1 sh1 rws1] eqn:Es1; [exact I|exact I|].
        intros dd ss Hin. destruct (Hsub _ _ Hin) as [Hk| ->].
        * apply in_keys in Hk as (s0 & Hk). rewrite <- Hc1 in Hk. exact (Hna1 _ _ Hk).
        * destruct (st (rg r)) as [| |d0 sh0 rws0] eqn:Es0.
          -- rewrite (Hsame1 ltac:(unfold full; rewrite Es0; tauto)) in Es1. congruence.
          -- rewrite (Hsame1 ltac:(unfold full; rewrite Es0; tauto)) in Es1. congruence.
          -- destruct (Hfull1 _ _ _ eq_refl) as (rws1' & E1 & _). try rewrite Es1 in E1. injection E1 as <- <- <-.
             apply (Hnew _ _ _ eq_refl). }
  assert (Hstsame : forall c'', (~ full (rg r) -> st (rg (with_cons r1 c'')) = st (rg r) /\ ptr (rg (with_cons r1 c'')) = ptr (rg r)) /\
            (forall d sh rws, st (rg r) = SFull d sh rws ->
               exists rws', st (rg (with_cons r1 c'')) = SFull d sh rws' /\ forall k, at_ (rg (with_cons r1 c'')) k = at_ (rg r) k)).
  { intros c''. cbn [with_cons Resize.rg]. split.
    - intros Hnf. rewrite (Hsame1 Hnf). auto.
    - intros d sh rws Es. destruct (Hfull1 _ _ _ Es) as (rws1 & E1 & _ & Hat). eauto. }
  destruct (reconstrain_cases zeroA _ _ _ _ _ Er)
    as [->|[(zz & -> & Hzz & -> & ->)|[(-> & -> & Hin)|(t & zz & -> & Hzz & Hd & Hig & Hin & -> & ->)]]].
  - (* nothing changed *)
    replace (to_shaped r1) with (set_cons (to_shaped r1) ((0%Z, N (rg r1)) :: rcons r1)) by reflexivity.
    rewrite (of_shaped_set_cons r1 _ Hwf1).
    destruct (Hkeep (rcons r1) eq_refl) as (K1 & K2 & K3).
    { intros dd ss Hin. left. rewrite <- Hc1. apply in_keys. eauto. }
    destruct (Hstsame (rcons r1)) as [S1 S2].
    split; [exact K1|]. split; [exact K2|]. split; [exact K3|]. cbn [with_cons Resize.rg Resize.rcons Resize.rdt Resize.rdur Resize.rincl Resize.rstrict Resize.rlive Resize.rparam].
    do 7 (split; [assumption|]). split; [left; exact Hc1|]. split; [exact S1|].
    intros d sh rws Es. left. exact (S2 _ _ _ Es).
  - (* constraint added, or altered without touching the data *)
    cbn [scons Resize.to_shaped]. rewrite Hall, (dict_set_head _ _ _ _ Hnz).
    rewrite (of_shaped_set_cons r1 _ Hwf1).
    destruct (Hkeep (dict_set (rcons r1) (shifted dim) (Z.to_nat zz))) as (K1 & K2 & K3).
    { cbn [scons Resize.to_shaped]. rewrite Hall, (dict_set_head _ _ _ _ Hnz). reflexivity. }
    { intros dd ss Hin. assert (Hndc : NoDup (keys (rcons r1))) by (rewrite Hall in Hnd1; cbn in Hnd1; inversion Hnd1; assumption).
      apply (proj1 (in_dict_set _ _ _ _ _ Hndc)) in Hin as [[-> _]|[_ Hin]]; [auto|].
      left. rewrite <- Hc1. apply in_keys. eauto. }
    destruct (Hstsame (dict_set (rcons r1) (shifted dim) (Z.to_nat zz))) as [S1 S2].
    split; [exact K1|]. split; [exact K2|]. split; [exact K3|]. cbn [with_cons Resize.rg Resize.rcons Resize.rdt Resize.rdur Resize.rincl Resize.rstrict Resize.rlive Resize.rparam].
    do 7 (split; [assumption|]). split.
    { right; left. exists (Z.to_nat zz). rewrite Hc1, Z2Nat.id by exact Hzz. auto. }
    split; [exact S1|]. intros d sh rws Es. left. exact (S2 _ _ _ Es).
  - (* constraint removed *)
    cbn [scons Resize.to_shaped]. rewrite Hall, (dict_del_head _ _ _ Hnz).
    rewrite (of_shaped_set_cons r1 _ Hwf1).
    destruct (Hkeep (dict_del (rcons r1) (shifted dim))) as (K1 & K2 & K3).
    { cbn [scons Resize.to_shaped]. rewrite Hall, (dict_del_head _ _ _ Hnz). reflexivity. }
    { intros dd ss Hin'. left. rewrite <- Hc1. apply in_keys. exists ss. eapply in_dict_del; eauto. }
    destruct (Hstsame (dict_del (rcons r1) (shifted dim))) as [S1 S2].
    split; [exact K1|]. split; [exact K2|]. split; [exact K3|]. cbn [with_cons Resize.rg Resize.rcons Resize.rdt Resize.rdur Resize.rincl Resize.rstrict Resize.rlive Resize.rparam].
    do 7 (split; [assumption|]). split.
    { right; right. rewrite Hc1. auto. }
    split; [exact S1|]. intros d sh rws Es. left. exact (S2 _ _ _ Es).
  - (* constraint altered and the data resized along that dimension *)
    cbn [sdat scons sstrict slive sparam Resize.to_shaped] in *.
    destruct (st (rg r1)) as [| |d sh rws1] eqn:Es1; [discriminate|cbn in Hd, Hig; injection Hd as <-; cbn in Hig; discriminate|].
    cbn [data_of] in Hd. injection Hd as <-.
    assert (Hin1 : In (shifted dim) (keys (rcons r1))) by (apply in_keys_rcons; assumption).
    destruct (rrecon_edit r1 d sh rws1 (shifted dim) (Z.to_nat zz) Hwf1 Hv1 Hna1 Es1 Hnz Hin1)
      as (j & Hpj & Hj & Hof & Hu').
    rewrite Hof.
    set (rws' := map (fun row => resize_dim zeroA sh row j (Z.to_nat zz)) rws1) in *.
    set (g' := mkRing (N (rg r1)) (ptr (rg r1)) (SFull d (upd sh j (Z.to_nat zz)) rws')).
    pose proof Hw1 as (Hn1 & Hptr1 & Hl1). rewrite Es1 in Hl1.
    assert (Hlen' : length rws' = N (rg r1)) by (unfold rws'; rewrite map_length; exact Hl1).
    assert (Hw' : wf g') by (unfold wf, g'; cbn [N ptr st]; auto).
    (* the state before the call was initialised *)
    assert (Hfr : exists rws, st (rg r) = SFull d sh rws /\ forall k, at_ (rg r1) k = at_ (rg r) k).
    { destruct (st (rg r)) as [| |d0 sh0 rws0] eqn:Es0.
      - rewrite (Hsame1 ltac:(unfold full; rewrite Es0; tauto)) in Es1. congruence.
      - rewrite (Hsame1 ltac:(unfold full; rewrite Es0; tauto)) in Es1. congruence.
      - destruct (Hfull1 _ _ _ eq_refl) as (rws1' & E1 & _ & Hat). try rewrite Es1 in E1. injection E1 as <- <- <-. eauto. }
    destruct Hfr as (rws & Es & Hat1).
    assert (Hwfk : rwf (mkRec Nm g' (rstrict r1) (rlive r1) (rparam r1) (dict_set (rcons r1) (shifted dim) (Z.to_nat zz))
                          (rdt r1) (rdur r1) (rincl r1))).
    { split; [exact Hw'|]. split; [exact Hu'|]. split.
      - unfold wfc in Hwfc'. cbn [scons] in Hwfc'. unfold Resize.all_cons in *.
        rewrite (dict_set_head _ _ _ _ Hnz) in Hwfc'. exact Hwfc'.
      - intros Hnf. exfalso. apply Hnf. exact I. }
    assert (Hvk : rvalid (mkRec Nm g' (rstrict r1) (rlive r1) (rparam r1) (dict_set (rcons r1) (shifted dim) (Z.to_nat zz))
                          (rdt r1) (rdur r1) (rincl r1)) = true).
    { match goal with |- Resize.rvalid _ ?x = true => rewrite (rvalid_full x d (upd sh j (Z.to_nat zz)) rws' eq_refl) end.
      unfold valid in Hval'. cbn [sdat scons sstrict] in Hval'. rewrite <- Hval'.
      unfold Resize.all_cons. cbn [Resize.rg Resize.rcons Resize.rstrict N g'].
      rewrite (dict_set_head _ _ _ _ Hnz). apply ioc_shape.
      rewrite (make_compatible_trailing d sh rws1 _ _ j) by (try exact Hpj; try lia; unfold rows_uniform in Hu1; rewrite Es1 in Hu1; exact Hu1).
      cbn [tshape]. congruence. }
    split; [exact Hwfk|]. split; [exact Hvk|]. split.
    { destruct (rstrict r) eqn:Est.
      - apply strict_no_alias0; [exact Hwfk|cbn [Resize.rstrict]; congruence|exact Hvk].
      - unfold no_alias0 in *. cbn [Resize.rg Resize.rcons st g']. rewrite Es1 in Hna1.
        assert (Hndc : NoDup (keys (rcons r1))) by (rewrite Hall in Hnd1; cbn in Hnd1; inversion Hnd1; assumption).
        intros dd ss Hin'. rewrite upd_length'.
        apply (proj1 (in_dict_set _ _ _ _ _ Hndc)) in Hin' as [[-> _]|[_ Hin']]; [lia|eauto]. }
    cbn [Resize.rg Resize.rcons Resize.rdt Resize.rdur Resize.rincl Resize.rstrict Resize.rlive Resize.rparam N g'].
    do 7 (split; [assumption|]). split.
    { right; left. exists (Z.to_nat zz). rewrite Hc1, Z2Nat.id by exact Hzz. auto. }
    split. { intros Hnf. exfalso. apply Hnf. unfold full. rewrite Es. exact I. }
    intros d0 sh0 rws0 E0. rewrite Es in E0. injection E0 as <- <- <-. right.
    exists j, (Z.to_nat zz), rws'. rewrite Z2Nat.id by exact Hzz. rewrite <- Hc1.
    do 5 (split; [auto|]). split; [reflexivity|]. split; [reflexivity|].
    intros k. rewrite <- Hat1. unfold at_, rows, idx. unfold g'. cbn [N ptr st]. rewrite Es1. unfold rws'.
    assert (Hi : unwind (ptr (rg r1)) k (N (rg r1)) < length rws1) by (rewrite Hl1; unfold unwind, _unwind_ptr; lia).
    rewrite (nth_indep _ [] (resize_dim zeroA sh [] j (Z.to_nat zz))) by (rewrite map_length; exact Hi).
    apply (map_nth (fun row => resize_dim zeroA sh row j (Z.to_nat zz))).
Qed.

(* ------------------------------------------------------------------ the three temporal setters *)
Inductive setter := SetDt (v : T Nm) | SetDur (v : T Nm) | SetIncl (b : bool).
Definition apply_setter (r : rec) (s : setter) : rec * option xerr :=
  match s with SetDt v => set_dt r v | SetDur v => set_duration r v | SetIncl b => set_inclusive r b end.
(* the argument test of the setter (dt > 0, duration >= 0; inclusive re-assigns the stored duration) *)
Definition setter_ok (r : rec) (s : setter) : Prop :=
  match s with
  | SetDt v => gtb Nm v (zero Nm) = true
  | SetDur v => geb Nm v (zero Nm) = true
  | SetIncl _ => geb Nm (rdur r) (zero Nm) = true
  end.
(* the configuration the caller asked for *)
Definition configured (r : rec) (s : setter) : rec :=
  match s with
  | SetDt v => mkRec Nm (rg r) (rstrict r) (rlive r) (rparam r) (rcons r) v (rdur r) (rincl r)
  | SetDur v => mkRec Nm (rg r) (rstrict r) (rlive r) (rparam r) (rcons r) (rdt r) v (rincl r)
  | SetIncl b => mkRec Nm (rg r) (rstrict r) (rlive r) (rparam r) (rcons r) (rdt r) (rdur r) b
  end.

Theorem setter_refused (r : rec) (s : setter) : ~ setter_ok r s -> apply_setter r s = (r, Some XValue) \/
  (exists b, s = SetIncl b /\ snd (apply_setter r s) = Some XValue).
Proof.
  destruct s as [v|v|b]; cbn [setter_ok apply_setter]; intros H.
  - left. unfold Resize.set_dt. destruct (gtb Nm v (zero Nm)); [congruence|reflexivity].
  - left. unfold Resize.set_duration. destruct (geb Nm v (zero Nm)); [congruence|reflexivity].
  - right. exists b. split; [reflexivity|]. unfold Resize.set_inclusive, Resize.set_duration. cbn [Resize.rdur].
    destruct (geb Nm (rdur r) (zero Nm)); [congruence|reflexivity].
Qed.

Theorem setter_spec (r : rec) (s : setter) : rwf r -> rvalid r = true -> no_alias0 r -> setter_ok r s ->
  let c := configured r s in
  exists r', apply_setter r s = (r', None) /\
    rwf r' /\ rvalid r' = true /\ no_alias0 r' /\
    N (rg r') = rsize c /\ rdt r' = rdt c /\ rdur r' = rdur c /\ rincl r' = rincl c /\
    rcons r' = rcons r /\ rstrict r' = rstrict r /\ rlive r' = rlive r /\ rparam r' = rparam r /\
    (~ full (rg r) -> st (rg r') = st (rg r) /\ ptr (rg r') = ptr (rg r)) /\
    (forall d sh rws, st (rg r) = SFull d sh rws ->
       exists rws', st (rg r') = SFull d sh rws' /\
         (forall k, (1 <= k <= Z.of_nat (Nat.min (N (rg r)) (rsize c)))%Z -> at_ (rg r') k = at_ (rg r) k) /\
         (forall k, (Z.of_nat (N (rg r)) < k <= Z.of_nat (rsize c))%Z -> at_ (rg r') k = zero_obs sh)).
Proof.
  intros Hwf Hv Hna Hok c.
  assert (Hc : rwf c /\ rvalid c = true /\ no_alias0 c) by (destruct s; exact (conj Hwf (conj Hv Hna))).
  destruct Hc as (Hwfc & Hvc & Hnac).
  destruct (resize_record_spec c Hwfc Hvc Hnac)
    as (r' & Hr & H1 & H2 & H3 & H4 & H5 & H6 & H7 & H8 & H9 & H10 & H11 & H12 & H13).
  assert (Ha : apply_setter r s = resize_record c).
  { destruct s as [v|v|b]; cbn [apply_setter setter_ok] in *.
    - unfold Resize.set_dt. rewrite Hok. reflexivity.
    - unfold Resize.set_duration. rewrite Hok. reflexivity.
    - unfold Resize.set_inclusive, Resize.set_duration. cbn [Resize.rdur]. rewrite Hok. reflexivity. }
  exists r'. rewrite Ha. split; [exact Hr|]. split; [exact H1|]. split; [exact H2|]. split; [exact H3|].
  split; [exact H4|]. split; [exact H9|]. split; [exact H10|]. split; [exact H11|].
  assert (Eg : rg c = rg r) by (destruct s; reflexivity).
  assert (Ec : rcons c = rcons r /\ rstrict c = rstrict r /\ rlive c = rlive r /\ rparam c = rparam r)
    by (destruct s; repeat split; reflexivity).
  destruct Ec as (E1 & E2 & E3 & E4).
  split; [congruence|]. split; [congruence|]. split; [congruence|]. split; [congruence|].
  rewrite Eg in H12, H13. split; [exact H12|exact H13].
Qed.

(* ------------------------------------------------------------------ invariants over operation sequences *)
Notation rstep := (@rstep Nm A D cast promote D_eqb zeroA default_d).
Notation rrun := (@rrun Nm A D cast promote D_eqb zeroA default_d).
Notation obs := (@Ring.obs A D).

Definition temporal_ok (r : rec) : Prop :=
  gtb Nm (rdt r) (zero Nm) = true /\ geb Nm (rdur r) (zero Nm) = true.
(* what every reachable record satisfies: well formed, valid, no alias of the record dimension,
   admissible temporal configuration, and exactly the generated number of slots *)
Definition Inv (r : rec) : Prop :=
  rwf r /\ rvalid r = true /\ no_alias0 r /\ temporal_ok r /\ N (rg r) = rsize r.

Definition obs_wf (o : obs) : Prop := length (oel o) = nel (oshape o).

(* side conditions under which an operation is covered by the invariant theorem (everything else a
   caller can do to a record through these operations is covered) *)
Definition good (r : rec) (o : rop Nm) : Prop :=
  match o with
  | RRing _ (OpPush ob _) =>
      obs_wf ob /\
      match st (rg r) with
      | Ring.SFull _ _ _ => True
      | _ => (* the push that creates the storage: the observation shape must fit the constraints *)
          (forall d, ignore_or_compatible (DTensor (mkT d (N (rg r) :: oshape ob) [])) (all_cons r) (rstrict r) = true) /\
          (rstrict r = true \/ forall dd s, In (dd, s) (rcons r) -> pyidx (S (length (oshape ob))) dd <> 0)
      end
  | RRing _ (OpWrite ob _ _) => obs_wf ob
  | RRing _ (OpRead _) | RRing _ OpPeek | RRing _ OpPop | RRing _ (OpIncr _) | RRing _ (OpDecr _)
  | RRing _ (OpAlign _) | RRing _ (OpReset _)
  | RRing _ (OpReadRangeS _ _ _) | RRing _ (OpReadRangeT _ _ _ _) => True
  | RRing _ _ => False   (* range writes: not covered by the invariant theorem *)
  | RSetDt _ _ | RSetDur _ _ | RSetIncl _ _ => True
  | RRecon _ dim _ =>
      rstrict r = true \/
      forall d sh rws, st (rg r) = SFull d sh rws -> pyidx (S (length sh)) (shifted dim) <> 0
  | RSetValue _ v =>    (* de-initialising assignments (None / empty tensor); other assignments can invalidate the record *)
      match v with Ring.SFull _ _ _ => False | _ => True end
  | RDeinit _ => True
  end.

(* a ring operation that keeps the record size, the observation shape and the row layout keeps Inv *)
Lemma ring_change_inv (r : rec) (g' : ring) : Inv r -> wf g' -> rows_uniform g' -> N g' = N (rg r) ->
  (~ full g' -> ptr g' = 0) ->
  match st (rg r), st g' with
  | Ring.SFull d sh rws, Ring.SFull d' sh' rws' => sh' = sh
  | Ring.SFull _ _ _, _ => True
  | _, Ring.SFull d' sh' rws' =>
      ignore_or_compatible (DTensor (mkT d' (N (rg r) :: sh') [])) (all_cons r) (rstrict r) = true /\
      (rstrict r = true \/ forall dd s, In (dd, s) (rcons r) -> pyidx (S (length sh')) dd <> 0)
  | _, _ => True
  end ->
  Inv (set_rg Nm r g').
Proof.
  intros ((Hw & Hu & Hnd & Hp0) & Hv & Hna & Ht & Hsz) Hw' Hu' HN' Hp' Hsh.
  assert (Hwf' : rwf (set_rg Nm r g')).
  { split; [exact Hw'|]. split; [exact Hu'|]. split; [|exact Hp'].
    unfold Resize.all_cons in *. cbn [Resize.set_rg Resize.rg Resize.rcons]. rewrite HN'. exact Hnd. }
  assert (Hv' : rvalid (set_rg Nm r g') = true).
  { destruct (st g') as [| |d' sh' rws'] eqn:Es'.
    - unfold Resize.rvalid, valid, Resize.to_shaped. cbn [sdat Resize.set_rg Resize.rg]. rewrite Es'. reflexivity.
    - unfold Resize.rvalid, valid, Resize.to_shaped. cbn [sdat Resize.set_rg Resize.rg]. rewrite Es'. reflexivity.
    - rewrite (rvalid_full (set_rg Nm r g') d' sh' rws' Es').
      unfold Resize.all_cons. cbn [Resize.set_rg Resize.rg Resize.rcons Resize.rstrict]. rewrite HN'.
      pose proof Hw' as (_ & _ & Hl'). rewrite Es' in Hl'.
      destruct (st (rg r)) as [| |d sh rws] eqn:Es.
      + destruct Hsh as [Hc _]. rewrite <- Hc. apply ioc_shape. cbn [tshape]. congruence.
      + destruct Hsh as [Hc _]. rewrite <- Hc. apply ioc_shape. cbn [tshape]. congruence.
      + subst sh'. rewrite (rvalid_full r d sh rws Es) in Hv. rewrite <- Hv. apply ioc_shape. cbn [tshape].
        destruct Hw as (_ & _ & Hl). rewrite Es in Hl. congruence. }
  split; [exact Hwf'|]. split; [exact Hv'|]. split; [|split; [exact Ht|exact (eq_trans HN' Hsz)]].
  destruct (rstrict r) eqn:Est.
  - apply strict_no_alias0; [exact Hwf'|exact Est|exact Hv'].
  - unfold no_alias0 in *. cbn [Resize.set_rg Resize.rg Resize.rcons].
    destruct (st g') as [| |d' sh' rws'] eqn:Es'; [exact I|exact I|].
    destruct (st (rg r)) as [| |d sh rws] eqn:Es.
    + destruct Hsh as [_ [Hc|Hc]]; [discriminate|exact Hc].
    + destruct Hsh as [_ [Hc|Hc]]; [discriminate|exact Hc].
    + subst sh'. exact Hna.
Qed.

Lemma push_ring (g : ring) (o : obs) ip : wf g -> rows_uniform g -> obs_wf o ->
  match push cast zeroA g o ip with
  | Ok g' _ => wf g' /\ rows_uniform g' /\ N g' = N g /\
      exists d' rws', st g' = SFull d' (match st g with Ring.SFull _ sh _ => sh | _ => oshape o end) rws'
  | Err _ => True
  end.
Proof.
  intros Hw Hu Ho. pose proof Hw as (Hn & Hp & Hl).
  unfold push.
  set (g1 := match st g with Ring.SFull _ _ _ => g | _ => initialize zeroA g (oshape o) (odt o) end).
  set (sh1 := match st g with Ring.SFull _ sh _ => sh | _ => oshape o end).
  assert (H1 : exists d1 rws1, st g1 = SFull d1 sh1 rws1 /\ length rws1 = N g /\ uniform (nel sh1) rws1 /\
                 N g1 = N g /\ ptr g1 < N g).
  { unfold g1, sh1, rows_uniform in *. destruct (st g) as [| |d sh rws] eqn:Es.
    - exists (odt o), (repeat (repeat zeroA (nel (oshape o))) (N g)). unfold initialize. rewrite Es. cbn [st N ptr].
      rewrite repeat_length. repeat split; auto. apply uniform_repeat. apply repeat_length.
    - exists d, (repeat (repeat zeroA (nel (oshape o))) (N g)). unfold initialize. rewrite Es. cbn [st N ptr].
      rewrite repeat_length. repeat split; auto. apply uniform_repeat. apply repeat_length.
    - exists d, rws. rewrite Es. auto. }
  destruct H1 as (d1 & rws1 & E1 & Hl1 & Hu1 & HN1 & Hp1).
  unfold write. rewrite E1.
  destruct (shape_eqb (oshape o) sh1) eqn:Esh; cbn [negb]; [|exact I].
  apply shape_eqb_eq in Esh.
  assert (Hi : idx g1 0 < length rws1) by (rewrite Hl1; unfold idx, unwind, _unwind_ptr; rewrite HN1; lia).
  rewrite (splice_is_upd rws1 _ (map (cast d1) (oel o)) Hi).
  set (g2 := set_st g1 (SFull d1 sh1 (upd rws1 (idx g1 0) (map (cast d1) (oel o))))).
  assert (E2 : (if ip then Ok g2 (@OUnit A D) else Ok g2 OUnit) = Ok g2 OUnit) by (destruct ip; reflexivity).
  rewrite E2. unfold incr. unfold g2 at 1. cbn [set_st st].
  split; [|split; [|split; [exact HN1|]]].
  3: { unfold set_ptr, g2, set_st. cbn [st]. eauto. }
  - unfold wf, set_ptr, g2, set_st. cbn [N ptr st]. rewrite upd_length', HN1. repeat split; auto.
    unfold unwind, _unwind_ptr. lia.
  - unfold rows_uniform, set_ptr, g2, set_st. cbn [st]. apply uniform_upd; [exact Hu1|].
    rewrite map_length, Ho, Esh. reflexivity.
Qed.

Lemma align_inv (r : rec) i : Inv r ->
  Inv (fst (fst match align (rg r) i with
                | Ok g out => (set_rg Nm r g, @None xerr, Some out)
                | Err e => (r, Some (xerr_of e), None)
                end)).
Proof.
  intros HI. pose proof HI as ((Hw & Hu & Hnd & Hp0) & _).
  unfold align. destruct ((0 <=? i)%Z && (i <? Z.of_nat (N (rg r)))%Z) eqn:Ei; cbn [negb fst]; [|exact HI].
  destruct (st (rg r)) as [| |d sh rws] eqn:Es; cbn [fst]; try exact HI.
  pose proof Hw as (Hn & Hp & Hl). rewrite Es in Hl.
  apply ring_change_inv; [exact HI| | | | |]; cbn [N ptr st].
  - unfold wf. cbn [N ptr st]. rewrite roll_length. repeat split; auto. lia.
  - unfold rows_uniform in *. cbn [st]. rewrite Es in Hu. apply roll_uniform. exact Hu.
  - reflexivity.
  - intros Hnf. exfalso. apply Hnf. exact I.
  - rewrite Es. reflexivity.
Qed.

Theorem rstep_inv (r : rec) (o : rop Nm) : Inv r -> good r o -> Inv (fst (fst (rstep r o))).
Proof.
  intros HI Hg. pose proof HI as (Hwf & Hv & Hna & (Ht1 & Ht2) & Hsz). pose proof Hwf as (Hw & Hu & Hnd & Hp0).
  destruct o as [x|v|v|b|dim z|v|]; cbn [Resize.rstep good] in *.
  - (* ring operations *)
    destruct x; try contradiction; cbn [step].
    + (* push *)
      destruct Hg as [Ho Hg]. pose proof (push_ring (rg r) o inplace Hw Hu Ho) as Hp.
      destruct (push cast zeroA (rg r) o inplace) as [g' out|e]; cbn [fst]; [|exact HI].
      destruct Hp as (Hw' & Hu' & HN' & d' & rws' & Es').
      apply ring_change_inv; [exact HI|exact Hw'|exact Hu'|exact HN'| |].
      * intros Hnf. exfalso. apply Hnf. unfold full. rewrite Es'. exact I.
      * rewrite Es'. destruct (st (rg r)); auto; destruct Hg as [Hg1 Hg2]; split; auto.
    + (* pop *)
      unfold pop. destruct (st (rg r)) as [| |d sh rws] eqn:Es; cbn [fst];
        [destruct r as [[n p s] ? ? ? ? ? ? ?]; exact HI|destruct r as [[n p s] ? ? ? ? ? ? ?]; exact HI|].
      unfold decr. rewrite Es. unfold read. cbn [set_ptr st]. rewrite Es. cbn [fst].
      apply ring_change_inv; [exact HI| | | | |].
      * destruct Hw as (Hn & _ & Hl). unfold wf, set_ptr. cbn [N ptr st]. rewrite Es in *. repeat split; auto.
        unfold unwind, _unwind_ptr. lia.
      * unfold rows_uniform, set_ptr in *. cbn [st]. exact Hu.
      * reflexivity.
      * intros Hnf. exfalso. apply Hnf. unfold full, set_ptr. cbn [st]. rewrite Es. exact I.
      * unfold set_ptr. cbn [st]. rewrite Es. reflexivity.
    + (* peek *)
      unfold peek, read. destruct (st (rg r)); cbn [fst]; first [exact HI|destruct r as [[n p s] ? ? ? ? ? ? ?]; exact HI].
    + (* read *)
      unfold read. destruct (st (rg r)); cbn [fst]; first [exact HI|destruct r as [[n p s] ? ? ? ? ? ? ?]; exact HI].
    + (* write *)
      unfold write. destruct (st (rg r)) as [| |d sh rws] eqn:Es; cbn [fst]; try exact HI.
      destruct (shape_eqb (oshape o) sh) eqn:Esh; cbn [negb fst]; [|exact HI].
      apply shape_eqb_eq in Esh. pose proof Hw as (Hn & Hp & Hl). rewrite Es in Hl.
      assert (Hi : idx (rg r) off < length rws) by (rewrite Hl; unfold idx, unwind, _unwind_ptr; lia).
      rewrite (splice_is_upd rws _ (map (cast d) (oel o)) Hi).
      assert (E2 : forall g, (if inplace then Ok g (@OUnit A D) else Ok g OUnit) = Ok g OUnit) by (intros; destruct inplace; reflexivity).
      rewrite E2. cbn [fst].
      apply ring_change_inv; [exact HI| | | | |]; unfold set_st; cbn [N ptr st].
      * unfold wf. cbn [N ptr st]. rewrite upd_length'. auto.
      * unfold rows_uniform in *. cbn [st]. rewrite Es in Hu. apply uniform_upd; [exact Hu|].
        rewrite map_length, Hg, Esh. reflexivity.
      * reflexivity.
      * intros Hnf. exfalso. apply Hnf. exact I.
      * rewrite Es. reflexivity.
    + (* incr *)
      unfold incr. destruct (st (rg r)) as [| |d sh rws] eqn:Es; cbn [fst]; try exact HI.
      apply ring_change_inv; [exact HI| | | | |].
      * destruct Hw as (Hn & _ & Hl). unfold wf, set_ptr. cbn [N ptr st]. rewrite Es in *. repeat split; auto.
        unfold unwind, _unwind_ptr. lia.
      * exact Hu.
      * reflexivity.
      * intros Hnf. exfalso. apply Hnf. unfold full, set_ptr. cbn [st]. rewrite Es. exact I.
      * unfold set_ptr. cbn [st]. rewrite Es. reflexivity.
    + (* decr *)
      unfold decr. destruct (st (rg r)) as [| |d sh rws] eqn:Es; cbn [fst]; try exact HI.
      apply ring_change_inv; [exact HI| | | | |].
      * destruct Hw as (Hn & _ & Hl). unfold wf, set_ptr. cbn [N ptr st]. rewrite Es in *. repeat split; auto.
        unfold unwind, _unwind_ptr. lia.
      * exact Hu.
      * reflexivity.
      * intros Hnf. exfalso. apply Hnf. unfold full, set_ptr. cbn [st]. rewrite Es. exact I.
      * unfold set_ptr. cbn [st]. rewrite Es. reflexivity.
    + (* align *)
      apply align_inv. exact HI.
    + (* reset *)
      destruct fill as [f|]; [|apply align_inv; exact HI].
      unfold reset. destruct (st (rg r)) as [| |d sh rws] eqn:Es; cbn [fst].
      * apply ring_change_inv; [exact HI| | | | |]; cbn [N ptr st].
        -- destruct Hw as (Hn & _). unfold wf. cbn [N ptr st]. auto.
        -- exact I.
        -- reflexivity.
        -- reflexivity.
        -- rewrite Es. exact I.
      * apply ring_change_inv; [exact HI| | | | |]; cbn [N ptr st].
        -- destruct Hw as (Hn & _). unfold wf. cbn [N ptr st]. auto.
        -- exact I.
        -- reflexivity.
        -- reflexivity.
        -- rewrite Es. exact I.
      * pose proof Hw as (Hn & Hp & Hl). rewrite Es in Hl.
        apply ring_change_inv; [exact HI| | | | |]; cbn [N ptr st].
        -- unfold wf. cbn [N ptr st]. rewrite map_length. auto.
        -- unfold rows_uniform in *. cbn [st]. rewrite Es in Hu. eapply uniform_map; [|exact Hu].
           intros row Hrow. rewrite map_length. exact Hrow.
        -- reflexivity.
        -- intros Hnf. exfalso. apply Hnf. exact I.
        -- rewrite Es. reflexivity.
    + (* readrange, scalar offset *)
      unfold readrange_scalar. destruct (st (rg r)); cbn [fst]; first [exact HI|destruct r as [[n p s] ? ? ? ? ? ? ?]; exact HI].
    + (* readrange, tensor offsets *)
      unfold readrange_tensor. destruct (st (rg r)); cbn [fst]; try exact HI.
      destruct (negb _); cbn [fst]; first [exact HI|destruct r as [[n p s] ? ? ? ? ? ? ?]; exact HI].
  - (* dt *)
    destruct (gtb Nm v (zero Nm)) eqn:Ev.
    + destruct (setter_spec r (SetDt v) Hwf Hv Hna Ev) as (r' & Hr & H1 & H2 & H3 & H4 & H5 & H6 & H7 & _).
      cbn [apply_setter] in Hr. rewrite Hr. cbn [fst configured Resize.rdt Resize.rdur Resize.rincl] in *.
      split; [exact H1|]. split; [exact H2|]. split; [exact H3|]. split; [split; congruence|].
      rewrite H4. unfold rsize. cbn [Resize.rdt Resize.rdur Resize.rincl]. congruence.
    + unfold Resize.set_dt. rewrite Ev. exact HI.
  - (* duration *)
    destruct (geb Nm v (zero Nm)) eqn:Ev.
    + destruct (setter_spec r (SetDur v) Hwf Hv Hna Ev) as (r' & Hr & H1 & H2 & H3 & H4 & H5 & H6 & H7 & _).
      cbn [apply_setter] in Hr. rewrite Hr. cbn [fst configured Resize.rdt Resize.rdur Resize.rincl] in *.
      split; [exact H1|]. split; [exact H2|]. split; [exact H3|]. split; [split; congruence|].
      rewrite H4. unfold rsize. cbn [Resize.rdt Resize.rdur Resize.rincl]. congruence.
    + unfold Resize.set_duration. rewrite Ev. exact HI.
  - (* inclusive *)
    destruct (setter_spec r (SetIncl b) Hwf Hv Hna Ht2) as (r' & Hr & H1 & H2 & H3 & H4 & H5 & H6 & H7 & _).
    cbn [apply_setter] in Hr. rewrite Hr. cbn [fst configured Resize.rdt Resize.rdur Resize.rincl] in *.
    split; [exact H1|]. split; [exact H2|]. split; [exact H3|]. split; [split; congruence|].
    rewrite H4. unfold rsize. cbn [Resize.rdt Resize.rdur Resize.rincl]. congruence.
  - (* reconstrain *)
    destruct (rreconstrain_spec r dim z Hwf Hv Hna Hg) as (r' & e & Hr & H1 & H2 & H3 & H4 & H5 & H6 & H7 & _).
    rewrite Hr. cbn [fst]. split; [exact H1|]. split; [exact H2|]. split; [exact H3|]. split; [split; congruence|].
    rewrite H4, Hsz. unfold rsize. congruence.
  - (* value := None / empty tensor: refused (None over a parameter) or storage replaced and pointer rewound *)
    unfold Resize.rset_value, set_value. cbn [Resize.to_shaped sparam slive scons sstrict].
    destruct v as [|dv|dv shv rwsv]; [| |contradiction]; cbn [data_of].
    + destruct (rparam r); cbn [andb fst]; [exact HI|].
      destruct (rlive r); cbn [ignore_or_compatible ignore fst];
        (apply ring_change_inv; [exact HI| | | | |]; cbn [N ptr st];
         [destruct Hw as (Hn & _); unfold wf; cbn [N ptr st]; auto|exact I|reflexivity|reflexivity
         |destruct (st (rg r)); exact I]).
    + rewrite andb_false_r.
      assert (Hig : ignore (DTensor (mkT dv [0] [])) = true) by reflexivity.
      assert (Hioc : forall c b, ignore_or_compatible (DTensor (mkT dv [0] [])) c b = true) by reflexivity.
      rewrite Hioc, Hig. destruct (rlive r); cbn [fst];
        (apply ring_change_inv; [exact HI| | | | |]; cbn [N ptr st];
         [destruct Hw as (Hn & _); unfold wf; cbn [N ptr st]; auto|exact I|reflexivity|reflexivity
         |destruct (st (rg r)); exact I]).
  - (* deinitialize *)
    unfold Resize.rdeinit. cbn [fst].
    apply ring_change_inv; [exact HI| | | | |]; cbn [N ptr st].
    + destruct Hw as (Hn & _). unfold wf. cbn [N ptr st]. auto.
    + exact I.
    + reflexivity.
    + reflexivity.
    + destruct (st (rg r)); exact I.
Qed.

(* every state reachable by covered operations satisfies the invariant: in particular it always has
   exactly the generated number of slots, and the hypotheses of the resizing theorems hold in it *)
Fixpoint all_good (r : rec) (ops : list (rop Nm)) : Prop :=
  match ops with
  | [] => True
  | o :: tl => good r o /\ all_good (fst (fst (rstep r o))) tl
  end.
Theorem rrun_inv : forall ops (r : rec), Inv r -> all_good r ops -> Inv (rrun r ops).
Proof.
  induction ops as [|o ops IH]; intros r HI Hg; cbn [Resize.rrun]; [exact HI|].
  destruct Hg as [Hg1 Hg2]. apply IH; [apply rstep_inv; assumption|exact Hg2].
Qed.

End ResizeProofs.

(* ------------------------------------------------------------------ the constructor establishes the invariant *)
Section Create.
Variable Nm : Num.
Context {A D : Type}.
Variable cast : D -> A -> A.
Variable promote : D -> D -> D.
Variable D_eqb : D -> D -> bool.
Variable zeroA : A.
Variable default_d : D.

Lemma shift_cons_keys (c : cons_t) : NoDup (keys c) -> NoDup (keys (shift_cons c)) /\ ~ In 0%Z (keys (shift_cons c)).
Proof.
  unfold shift_cons. rewrite map_map. cbn [fst].
  set (f := fun d : Z => if (0 <=? d)%Z then (d + 1)%Z else d).
  replace (map (fun x : Z * nat => if (0 <=? fst x)%Z then (fst x + 1)%Z else fst x) c) with (map f (keys c))
    by (rewrite map_map; reflexivity).
  assert (Hinj : forall a b, f a = f b -> a = b).
  { intros a b. unfold f. destruct (Z.leb_spec 0 a); destruct (Z.leb_spec 0 b); lia. }
  intros Hnd. split.
  - induction Hnd as [|k ks Hk Hnd IH]; cbn; constructor; auto.
    rewrite in_map_iff. intros (k' & E & Hin). apply Hinj in E. subst. contradiction.
  - rewrite in_map_iff. intros (k & E & _). unfold f in E. destruct (Z.leb_spec 0 k); lia.
Qed.

Theorem rcreate_inv strict live param ucons dt dur incl (value : option (@tensor A D)) (r : @rec Nm A D) :
  rcreate Nm strict live param ucons dt dur incl value = inl r ->
  NoDup (keys ucons) ->
  match value with Some t => length (tflat t) = nel (tshape t) | None => True end ->
  (strict = true \/ match value with
                    | Some t => forall dd s, In (dd, s) (shift_cons ucons) -> pyidx (S (length (tshape t))) dd <> 0
                    | None => True end) ->
  Inv Nm r.
Proof.
  unfold rcreate. intros Hc Hnd Hval Hal.
  destruct (gtb Nm dt (zero Nm)) eqn:E1; cbn [negb] in Hc; [|discriminate].
  destruct (geb Nm dur (zero Nm)) eqn:E2; cbn [negb] in Hc; [|discriminate].
  set (size := Z.to_nat (recordsz_expr Nm dur dt incl)) in *.
  assert (Hsz : 1 <= size) by (unfold size, recordsz_expr; lia).
  set (v := match value with
            | Some t => if ignore (DTensor t) then SEmpty (tdt t) else SFull (tdt t) (tshape t) (repeat (tflat t) size)
            | None => SNone end) in *.
  destruct (ignore_or_compatible (data_of v) _ strict) eqn:Ev; [|discriminate]. injection Hc as <-.
  destruct (shift_cons_keys ucons Hnd) as [Hk1 Hk2].
  assert (Hwf : rwf Nm (mkRec Nm (mkRing size 0 v) strict live param (shift_cons ucons) dt dur incl)).
  { split; [|split; [|split]].
    - unfold wf. cbn [Resize.rg N ptr st]. repeat split; try lia.
      unfold v. destruct value as [t|]; [|exact I]. destruct (ignore (DTensor t)); [exact I|]. apply repeat_length.
    - unfold rows_uniform. cbn [Resize.rg st]. unfold v. destruct value as [t|]; [|exact I].
      destruct (ignore (DTensor t)); [exact I|]. apply uniform_repeat. exact Hval.
    - unfold Resize.all_cons. cbn [Resize.rg Resize.rcons N map fst]. constructor; assumption.
    - intros _. reflexivity. }
  split; [exact Hwf|]. split; [exact Ev|]. split; [|split; [split; assumption|reflexivity]].
  destruct strict eqn:Es.
  - apply (strict_no_alias0 Nm cast promote D_eqb zeroA); [exact Hwf|reflexivity|exact Ev].
  - destruct Hal as [Hal|Hal]; [discriminate|]. unfold no_alias0. cbn [Resize.rg Resize.rcons st].
    unfold v. destruct value as [t|]; [|exact I]. destruct (ignore (DTensor t)); [exact I|]. exact Hal.
Qed.

(* RecordTensor.constraints shows the caller exactly the constraints it gave (record dimension hidden,
   the shift of the non-negative dims undone) *)
Theorem user_cons_created strict live param ucons dt dur incl (value : option (@tensor A D)) (r : @rec Nm A D) :
  rcreate Nm strict live param ucons dt dur incl value = inl r -> user_cons Nm r = ucons.
Proof.
  unfold rcreate. intros Hc.
  destruct (negb (gtb Nm dt (zero Nm))); [discriminate|]. destruct (negb (geb Nm dur (zero Nm))); [discriminate|].
  destruct (ignore_or_compatible _ _ strict); [|discriminate]. injection Hc as <-.
  unfold user_cons, shift_cons. cbn [Resize.rcons]. rewrite map_map.
  rewrite <- (map_id ucons) at 2. apply map_ext. intros [dd s]. cbn [fst snd].
  destruct (Z.leb_spec 0 dd) as [H|H].
  - destruct (Z.leb_spec 0 (dd + 1)); [f_equal; lia|lia].
  - destruct (Z.leb_spec 0 dd); [lia|reflexivity].
Qed.

End Create.

(* ------------------------------------------------------------------ the clauses of C13, one by one *)
Section Clauses.
Variable Nm : Num.
Context {A D : Type}.
Variable cast : D -> A -> A.
Variable promote : D -> D -> D.
Variable D_eqb : D -> D -> bool.
Variable zeroA : A.
Variable default_d : D.
Notation rec := (@rec Nm A D).

(* the newest min(old, new) observations keep their steps-before-present position *)
Theorem resize_preserves_newest (r r' : rec) (s : setter Nm) :
  rwf Nm r -> rvalid Nm r = true -> no_alias0 Nm r -> setter_ok Nm r s ->
  apply_setter Nm zeroA r s = (r', None) ->
  forall k, (1 <= k <= Z.of_nat (Nat.min (N (rg Nm r)) (N (rg Nm r'))))%Z -> at_ (rg Nm r') k = at_ (rg Nm r) k.
Proof.
  intros Hwf Hv Hna Hok Hr k Hk.
  destruct (setter_spec Nm cast promote D_eqb zeroA default_d r s Hwf Hv Hna Hok)
    as (r'' & Hr' & _ & _ & _ & HN & _ & _ & _ & _ & _ & _ & _ & Hnf & Hfull).
  rewrite Hr in Hr'. injection Hr' as <-.
  destruct (st (rg Nm r)) as [| |d sh rws] eqn:Es.
  - destruct (Hnf ltac:(unfold full; rewrite Es; tauto)) as [E1 E2].
    unfold at_, rows. rewrite E1, Es. destruct (idx (rg Nm r') k), (idx (rg Nm r) k); reflexivity.
  - destruct (Hnf ltac:(unfold full; rewrite Es; tauto)) as [E1 E2].
    unfold at_, rows. rewrite E1, Es. destruct (idx (rg Nm r') k), (idx (rg Nm r) k); reflexivity.
  - destruct (Hfull _ _ _ eq_refl) as (rws' & _ & Hnew & _). apply Hnew. rewrite <- HN. exact Hk.
Qed.

(* older new slots read zero *)
Theorem resize_zero_fills_older (r r' : rec) (s : setter Nm) d sh rws :
  rwf Nm r -> rvalid Nm r = true -> no_alias0 Nm r -> setter_ok Nm r s ->
  apply_setter Nm zeroA r s = (r', None) -> st (rg Nm r) = SFull d sh rws ->
  forall k, (Z.of_nat (N (rg Nm r)) < k <= Z.of_nat (N (rg Nm r')))%Z -> at_ (rg Nm r') k = repeat zeroA (nel sh).
Proof.
  intros Hwf Hv Hna Hok Hr Es k Hk.
  destruct (setter_spec Nm cast promote D_eqb zeroA default_d r s Hwf Hv Hna Hok)
    as (r'' & Hr' & _ & _ & _ & HN & _ & _ & _ & _ & _ & _ & _ & _ & Hfull).
  rewrite Hr in Hr'. injection Hr' as <-.
  destruct (Hfull _ _ _ Es) as (rws' & _ & _ & Hold). apply Hold. rewrite <- HN. exact Hk.
Qed.

(* never fails merely because storage is not initialised yet (the only hypothesis on the state is
   well-formedness; validity and alias-freedom are trivial without storage) *)
Theorem temporal_setter_uninit_ok (r : rec) (s : setter Nm) :
  rwf Nm r -> ~ full (rg Nm r) -> setter_ok Nm r s ->
  exists r', apply_setter Nm zeroA r s = (r', None) /\
    N (rg Nm r') = rsize Nm (configured Nm r s) /\
    st (rg Nm r') = st (rg Nm r) /\ ptr (rg Nm r') = ptr (rg Nm r) /\ rcons Nm r' = rcons Nm r.
Proof.
  intros Hwf Hnf Hok.
  assert (Hv : rvalid Nm r = true).
  { unfold rvalid, valid, to_shaped. cbn [sdat]. unfold full in Hnf. destruct (st (rg Nm r)); cbn; auto; tauto. }
  assert (Hna : no_alias0 Nm r).
  { unfold no_alias0. unfold full in Hnf. destruct (st (rg Nm r)); auto; tauto. }
  destruct (setter_spec Nm cast promote D_eqb zeroA default_d r s Hwf Hv Hna Hok)
    as (r' & Hr' & _ & _ & _ & HN & _ & _ & _ & Hc & _ & _ & _ & Hst & _).
  exists r'. destruct (Hst Hnf). auto.
Qed.

(* the same as one equation on the list of stored observations, newest first: the list is truncated to
   the new number of slots, or extended behind the oldest observation with zero observations *)
Theorem resize_hist (r r' : rec) (s : setter Nm) d sh rws :
  rwf Nm r -> rvalid Nm r = true -> no_alias0 Nm r -> setter_ok Nm r s ->
  apply_setter Nm zeroA r s = (r', None) -> st (rg Nm r) = SFull d sh rws ->
  hist (rg Nm r') =
  firstn (N (rg Nm r')) (hist (rg Nm r) ++ repeat (repeat zeroA (nel sh)) (N (rg Nm r') - N (rg Nm r))).
Proof.
  intros Hwf Hv Hna Hok Hr Es.
  pose proof (resize_preserves_newest r r' s Hwf Hv Hna Hok Hr) as Hnew.
  pose proof (resize_zero_fills_older r r' s d sh rws Hwf Hv Hna Hok Hr Es) as Hold.
  set (n := N (rg Nm r)) in *. set (n' := N (rg Nm r')) in *.
  assert (Hlh : length (hist (rg Nm r)) = n) by (unfold hist; rewrite map_length, seq_length; reflexivity).
  apply nth_ext with (d := []) (d' := []).
  - unfold hist at 1. rewrite map_length, seq_length. fold n'.
    rewrite firstn_length, app_length, repeat_length, Hlh. lia.
  - intros i Hi. unfold hist at 1 in Hi. rewrite map_length, seq_length in Hi. fold n' in Hi.
    unfold hist at 1. fold n'.
    rewrite (nth_indep _ [] (at_ (rg Nm r') (Z.of_nat 0 + 1))) by (rewrite map_length, seq_length; exact Hi).
    rewrite (map_nth (fun k => at_ (rg Nm r') (Z.of_nat k + 1))), seq_nth by exact Hi. cbn [Nat.add].
    rewrite nth_firstn_lt by exact Hi.
    destruct (Nat.lt_ge_cases i n) as [Hlt|Hge].
    + rewrite app_nth1 by lia. rewrite Hnew by lia.
      unfold hist. fold n.
      rewrite (nth_indep _ [] (at_ (rg Nm r) (Z.of_nat 0 + 1))) by (rewrite map_length, seq_length; exact Hlt).
      rewrite (map_nth (fun k => at_ (rg Nm r) (Z.of_nat k + 1))), seq_nth by exact Hlt. reflexivity.
    + rewrite app_nth2 by lia. rewrite Hlh. rewrite nth_repeat_lt by lia. apply Hold. lia.
Qed.

(* RecordTensor.reconstrain on the list of stored observations: untouched by a refused call, an added or
   a removed constraint; an altered constraint resizes that dimension of every stored observation *)
Theorem reconstrain_hist (r : rec) dim size d sh rws :
  rwf Nm r -> rvalid Nm r = true -> no_alias0 Nm r ->
  (rstrict Nm r = true \/
   forall d sh rws, st (rg Nm r) = SFull d sh rws -> pyidx (S (length sh)) (shifted dim) <> 0) ->
  st (rg Nm r) = SFull d sh rws ->
  let r' := fst (rreconstrain Nm zeroA r dim size) in
  N (rg Nm r') = N (rg Nm r) /\
  (hist (rg Nm r') = hist (rg Nm r) \/
   exists j sz, snd (rreconstrain Nm zeroA r dim size) = None /\ size = Some (Z.of_nat sz) /\
     In (shifted dim) (map fst (rcons Nm r)) /\ pyidx (S (length sh)) (shifted dim) = S j /\ j < length sh /\
     hist (rg Nm r') = map (fun o => resize_dim zeroA sh o j sz) (hist (rg Nm r))).
Proof.
  intros Hwf Hv Hna Hnew Es.
  destruct (rreconstrain_spec Nm cast promote D_eqb zeroA default_d r dim size Hwf Hv Hna Hnew)
    as (r' & e & Hr & _ & _ & _ & HN & _ & _ & _ & _ & _ & _ & _ & _ & Hfull).
  rewrite Hr. cbn [fst snd]. split; [exact HN|].
  destruct (Hfull _ _ _ Es) as [(rws' & _ & Hat)|(j & sz & rws' & -> & -> & Hin & Hp & Hj & _ & _ & Hat)].
  - left. unfold hist. rewrite HN. apply map_ext. intros k. apply Hat.
  - right. exists j, sz. do 5 (split; [auto|]). unfold hist. rewrite HN, map_map. apply map_ext. intros k. apply Hat.
Qed.

(* RecordTensor.value := v.  The assignment never raises anything but what ShapedTensor's setter raises (in
   particular no AttributeError); a de-initialising value (None, empty tensor) that is accepted replaces the
   storage and rewinds the pointer to 0; an accepted initialised value leaves the pointer alone; a refused
   assignment changes nothing.  The number of slots, the constraints and the temporal configuration are never touched. *)
Theorem rset_value_spec (r : rec) (v : @Ring.storage A D) :
  let '(r', e) := rset_value Nm r v in
  e <> Some XAttr /\ e <> Some XIndex /\
  N (rg Nm r') = N (rg Nm r) /\ rcons Nm r' = rcons Nm r /\
  rdt Nm r' = rdt Nm r /\ rdur Nm r' = rdur Nm r /\ rincl Nm r' = rincl Nm r /\
  match e with
  | Some _ => r' = r
  | None => st (rg Nm r') = v /\
            ptr (rg Nm r') = (if ignore (data_of v) then 0 else ptr (rg Nm r))
  end.
Proof.
  unfold rset_value, set_value.
  destruct (sparam (to_shaped Nm r) && _).
  { repeat split; congruence. }
  destruct (slive (to_shaped Nm r)).
  - destruct (ignore_or_compatible _ _ _).
    + destruct (ignore (data_of v)); cbn; repeat split; congruence.
    + repeat split; congruence.
  - destruct (ignore (data_of v)); cbn; repeat split; congruence.
Qed.

(* what is refused: None over a parameter (RuntimeError); on a live attribute, a tensor that is neither
   ignored nor compatible with the constraints (ValueError) *)
Theorem rset_value_refused (r : rec) (v : @Ring.storage A D) e :
  snd (rset_value Nm r v) = Some e ->
  (e = XRuntime /\ rparam Nm r = true /\ v = SNone) \/
  (e = XValue /\ rlive Nm r = true /\ ignore_or_compatible (data_of v) (all_cons Nm r) (rstrict Nm r) = false).
Proof.
  unfold rset_value, set_value. cbn [to_shaped sparam slive scons sstrict].
  destruct (rparam Nm r) eqn:Ep; cbn [andb].
  - destruct v as [|dv|dv shv rwsv]; cbn [data_of].
    + cbn [snd]. intros H; injection H as <-. left; auto.
    + destruct (rlive Nm r) eqn:El.
      * destruct (ignore_or_compatible _ _ _) eqn:Ei; [destruct (ignore _); cbn [snd]; discriminate|].
        cbn [snd]. intros H; injection H as <-. right; auto.
      * destruct (ignore _); cbn [snd]; discriminate.
    + destruct (rlive Nm r) eqn:El.
      * destruct (ignore_or_compatible _ _ _) eqn:Ei; [destruct (ignore _); cbn [snd]; discriminate|].
        cbn [snd]. intros H; injection H as <-. right; auto.
      * destruct (ignore _); cbn [snd]; discriminate.
  - destruct (rlive Nm r) eqn:El.
    + destruct (ignore_or_compatible _ _ _) eqn:Ei; [destruct (ignore _); cbn [snd]; discriminate|].
      cbn [snd]. intros H; injection H as <-. right; auto.
    + destruct (ignore _); cbn [snd]; discriminate.
Qed.

End Clauses.
