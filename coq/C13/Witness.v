(* Concrete witnesses for C13: a non-trivial reachable record satisfying the hypotheses of the theorems
   (non-vacuity), and the concrete state showing what the theorems' alias-freedom hypothesis excludes.
   The structural model does not depend on the number type, so the witnesses use integers as numbers
   (duration / dt is integer division, ceil is the identity) and compute with vm_compute. *)
From Coq Require Import List ZArith Bool Arith Lia.
From Inferno Require Import Base.Num Gen.Infra C01.Ring C01.RingProofs C13.Shaped C13.Lists C13.ShapedProofs
  C13.Resize C13.ResizeProofs.
Import ListNotations.
Open Scope Z_scope.

Definition ZN : Num :=
  mkNum Z 0 1 Z.add Z.sub Z.mul Z.div Z.opp Z.abs (fun x => x) (fun x => x) (fun x => x) (fun a _ => a)
        Z.leb Z.ltb Z.eqb (fun z => z) 0 (fun x => x) (fun x => x) (fun x => x) (fun x => x).

Definition castI (d : Z) (z : Z) : Z := z.
Definition promoteI (a b : Z) : Z := Z.max a b.
Notation stepI := (@rstep ZN Z Z castI promoteI Z.eqb 0 2).
Notation runI := (@rrun ZN Z Z castI promoteI Z.eqb 0 2).

Definition pushI (a b : Z) : rop ZN := RRing ZN (OpPush (mkObs 2 [2%nat] [a; b]) false).

(* step 1, duration 3, constraint "dim 0 of an observation has size 2", four pushes into three slots,
   then: grow to 6 slots, widen the observations to 3, halve the resolution, make the duration inclusive *)
Definition ops_demo : list (rop ZN) :=
  [pushI 1 10; pushI 2 20; pushI 3 30; pushI 4 40;
   RSetDur ZN 6; RRecon ZN 0 (Some 3); RSetDt ZN 2; RSetIncl ZN true; pushI 5 50].
Definition created := rcreate ZN true false false [(0, 2%nat)] 1 3 false (Some (mkT 2 [2%nat] [0; 0])).

Definition r0 : rec ZN :=
  mkRec ZN (mkRing 3 0 (SFull 2 [2%nat] [[0; 0]; [0; 0]; [0; 0]])) true false false [(1, 2%nat)] 1 3 false.

Theorem nonvacuous :
  created = inl r0 /\ Inv ZN r0 /\ all_good ZN castI promoteI Z.eqb 0 2 r0 ops_demo /\
  Inv ZN (runI r0 ops_demo) /\
  (* after the four pushes: 3 slots, pointer 1, newest first = 4, 3, 2 *)
  hist (rg ZN (runI r0 (firstn 4 ops_demo))) = [[4; 40]; [3; 30]; [2; 20]] /\
  (* grown to 6 slots: the three survivors keep their positions, three zero observations behind them *)
  hist (rg ZN (runI r0 (firstn 5 ops_demo))) = [[4; 40]; [3; 30]; [2; 20]; [0; 0]; [0; 0]; [0; 0]] /\
  (* widened to 3 elements (zero prepended), then 3 slots, then 4 slots (inclusive) *)
  hist (rg ZN (runI r0 (firstn 8 ops_demo))) = [[0; 4; 40]; [0; 3; 30]; [0; 2; 20]; [0; 0; 0]] /\
  N (rg ZN (runI r0 ops_demo)) = 4%nat /\ rcons ZN (runI r0 ops_demo) = [(1, 3%nat)].
Proof.
  assert (Hc : created = inl r0) by (vm_compute; reflexivity).
  split; [exact Hc|].
  assert (H0 : Inv ZN r0).
  { apply (rcreate_inv ZN castI promoteI Z.eqb 0 2 true false false [(0, 2%nat)] 1 3 false (Some (mkT 2 [2%nat] [0; 0]))).
    - exact Hc.
    - repeat constructor. cbn. tauto.
    - reflexivity.
    - left. reflexivity. }
  assert (Hg : all_good ZN castI promoteI Z.eqb 0 2 r0 ops_demo).
  { vm_compute. repeat split; auto. }
  split; [exact H0|]. split; [exact Hg|].
  split; [apply rrun_inv; assumption|].
  repeat split; vm_compute; reflexivity.
Qed.

(* What alias-freedom excludes.  With NON-strict constraints a negative key can address the record
   dimension itself (here key -2 on 2-dimensional storage).  The record is valid, yet a duration
   assignment raises RuntimeError ("cannot be made valid with altered constraint") after the new
   duration has been stored: the record is left with 3 slots where the formula says 5. *)
Definition aliased := rcreate ZN false false false [(-2, 3%nat)] 1 3 false (Some (mkT 2 [2%nat] [0; 0])).

Definition r_al : rec ZN :=
  mkRec ZN (mkRing 3 0 (SFull 2 [2%nat] [[0; 0]; [0; 0]; [0; 0]])) false false false [(-2, 3%nat)] 1 3 false.
Definition r_al' : rec ZN :=
  mkRec ZN (mkRing 3 0 (SFull 2 [2%nat] [[0; 0]; [0; 0]; [0; 0]])) false false false [(-2, 3%nat)] 1 5 false.

Theorem setter_alias_nonstrict_refuted : exists r r',
  aliased = inl r /\ rwf ZN r /\ rvalid ZN r = true /\ rstrict ZN r = false /\ ~ no_alias0 ZN r /\
  setter_ok ZN r (SetDur ZN 5) /\
  apply_setter ZN 0 r (SetDur ZN 5) = (r', Some XRuntime) /\
  rdur ZN r' = 5 /\ N (rg ZN r') = 3%nat /\ rsize ZN r' = 5%nat.
Proof.
  exists r_al, r_al'. split; [vm_compute; reflexivity|].
  split.
  { split; [|split; [|split]].
    - unfold wf. cbn. lia.
    - unfold rows_uniform. cbn. repeat constructor.
    - cbn. repeat constructor; cbn; intuition lia.
    - intros _. reflexivity. }
  split; [vm_compute; reflexivity|]. split; [reflexivity|]. split.
  { intros H. unfold no_alias0 in H. cbn in H. apply (H (-2) 3%nat); [left; reflexivity|reflexivity]. }
  split; [reflexivity|]. split; [vm_compute; reflexivity|]. repeat split.
Qed.
