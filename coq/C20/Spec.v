(* C20 - independent specifications the theorems are stated against (definitions only; no proofs).
   Everything here is deliberately simpler than, and written independently of, the models in C20/Model.v. *)
From Coq Require Import List ZArith Bool Arith Reals.
From Coquelicot Require Import Coquelicot.
From Inferno Require Import Base.Num Base.NumR.
Import ListNotations.
Close Scope R_scope.

(* ================================================================== inter-spike intervals *)
Section Spec.
Variable N : Num.
(* indices of the time steps at which the train spikes *)
Definition spike_indices (tr : list bool) : list nat :=
  filter (fun i => nth i tr false) (seq 0 (length tr)).
(* spike times: index * step time *)
Definition spike_times (dt : T N) (tr : list bool) : list (T N) :=
  map (fun i => mul N (ofZ N (Z.of_nat i)) dt) (spike_indices tr).
Fixpoint diffs (l : list (T N)) : list (T N) :=
  match l with
  | a :: ((b :: _) as r) => sub N b a :: diffs r
  | _ => []
  end.
Definition count (tr : list bool) : nat := length (spike_indices tr).
Definition maxcount (trains : list (list bool)) : nat :=
  fold_right (fun tr m => Nat.max (count tr) m) 0 trains.
(* one output row: the count-1 intervals, then NaN up to (largest count) - 1 columns *)
Definition isi_spec_row (dt : T N) (C : nat) (tr : list bool) : list (option (T N)) :=
  map Some (diffs (spike_times dt tr)) ++ repeat None ((C - 1) - (count tr - 1)).
End Spec.


Open Scope R_scope.
(* first spike time, then running sums of the intervals *)
Fixpoint integrate (t0 : R) (ds : list R) : list R :=
  match ds with
  | [] => [t0]
  | d :: r => t0 :: integrate (t0 + d) r
  end.


(* ================================================================== Victor-Purpura distance *)
(* cost: Some q = finite cost per unit time, None = +inf (shifts unavailable) *)
Definition cell3 (cost : option R) (del ins : R) (shift : R -> R) : R :=
  match cost with
  | Some q => Rmin (Rmin del ins) (shift q)
  | None => Rmin del ins
  end.

Fixpoint D (cost : option R) (a : list R) : list R -> R :=
  match a with
  | [] => fun b => INR (length b)
  | x :: a' =>
      fix Dx (b : list R) : R :=
        match b with
        | [] => INR (length a)
        | y :: b' => cell3 cost (D cost a' b + 1) (Dx b' + 1) (fun q => D cost a' b' + q * Rabs (x - y))
        end
  end.

(* edit scripts turning train a into train b *)
Inductive script : list R -> list R -> Type :=
| s_nil : script [] []
| s_del : forall x a b, script a b -> script (x :: a) b
| s_ins : forall y a b, script a b -> script a (y :: b)
| s_shift : forall x y a b, script a b -> script (x :: a) (y :: b).
(* cost of a script; None when it uses a shift although shifting is unavailable (cost = inf) *)
Fixpoint script_cost (cost : option R) {a b} (s : script a b) : option R :=
  match s with
  | s_nil => Some 0
  | s_del _ _ _ s' => option_map (fun c => c + 1) (script_cost cost s')
  | s_ins _ _ _ s' => option_map (fun c => c + 1) (script_cost cost s')
  | s_shift x y _ _ s' =>
      match cost, script_cost cost s' with
      | Some q, Some c => Some (c + q * Rabs (x - y))
      | _, _ => None
      end
  end.


(* costs are non-negative (or inf) *)
Definition nonneg_cost (cost : option R) : Prop := forall q, cost = Some q -> 0 <= q.

(* ================================================================== special functions *)
(* the defining property of the error function: erf' z = 2/sqrt(pi) * exp(-z^2) *)
Definition erf_derivative (erf : R -> R) : Prop :=
  forall z, is_derive erf z (2 / R_sqrt.sqrt PI * Rtrigo_def.exp (- z ^ 2)).

(* the defining property of lgamma at the integers: lgamma(k + 1) = ln(k!)  (Gamma(k + 1) = k!) *)
Definition lgamma_spec (lgamma : R -> R) : Prop :=
  forall k : nat, lgamma (INR k + 1) = Rpower.ln (INR (fact k)).
(* the regularised upper incomplete gamma function at an integer first argument a >= 1:
   Q(a, x) = exp(-x) * sum_{j < a} x^j / j!   (DLMF 8.4.10) *)
Definition gammaincc_spec (gammaincc : R -> R -> R) : Prop :=
  forall (n : nat) (x : R), gammaincc (INR (S n)) x = Rtrigo_def.exp (- x) * sum_n (fun j => x ^ j / INR (fact j)) n.
