(* C20 - executable (binary64) instance of the models and result serialisers for the correspondence
   check.  No theorem depends on this file. *)
From Coq Require Import List ZArith Bool PrimFloat.
From Inferno Require Import Base.Num Base.NumF Gen.Interpolation Gen.Extrapolation Gen.Distributions C20.Model.
Import ListNotations.
Open Scope float_scope.

(* ---- special functions of the float instance (trusted; validated by the correspondence) ---- *)
Definition f_tau : float := 0x1.921fb54442d18p+2.          (* math.tau *)
Definition two_over_sqrtpi : float := 0x1.20dd750429b6dp+0.
(* erf z = 2/sqrt(pi) * exp(-z^2) * sum_n 2^n z^(2n+1) / (2n+1)!!   (all terms of one sign: stable) *)
Fixpoint erf_series (z2 : float) (n : nat) (k : float) (term acc : float) : float :=
  match n with
  | O => acc
  | S n' => let term' := term * (2 * z2) / (k + 2) in erf_series z2 n' (k + 2) term' (acc + term')
  end.
Definition f_erf (z : float) : float :=
  if is_nan z then z
  else if 6 <=? z then 1
  else if z <=? -6 then -1
  else two_over_sqrtpi * f_exp (- (z * z)) * erf_series (z * z) 160 1 z z.

(* lgamma at an integer-valued argument k + 1: ln(k!) *)
Definition f_lgamma (x : float) : float := f_ln (f_ofZ (factZ (Z.to_nat (f2Z_trunc x - 1)))).
(* gammaincc(a, x) at an integer-valued a >= 1: exp(-x) * sum_{j < a} x^j / j! *)
Definition f_gammaincc (a x : float) : float :=
  f_exp (- x) * Num.tsum FN (map (fun j => Num.pown FN x j / f_ofZ (factZ j)) (seq 0 (Z.to_nat (f2Z_trunc a)))).

(* ---- interp / extrap pairs ---- *)
Definition FT := Num.T FN.
Definition halfadj (b : bool) : option (FT -> FT) := if b then Some (fun x : float => x * 0.5) else None.
Definition extrap_k (k : Z) (adj : bool) (s t p n dt c : float) : float * float :=
  match k with
  | 0 => extrap_previous FN s t p n dt
  | 1 => extrap_next FN s t p n dt
  | 2 => extrap_nearest FN s t p n dt
  | 3 | 4 | 5 | 6 => extrap_neighbors FN s t p n dt
  | 7 => extrap_linear_forward FN s t p n dt (halfadj adj)
  | 8 => extrap_linear_backward FN s t p n dt (halfadj adj)
  | 9 => extrap_expdecay FN s t p n dt c
  | _ => extrap_expratedecay FN s t p n dt c
  end%Z.
Definition interp_k (k : Z) (p n t dt c : float) : float :=
  match k with
  | 0 | 3 => interp_previous FN p n t dt
  | 1 | 4 => interp_next FN p n t dt
  | 2 | 5 => interp_nearest FN p n t dt
  | 6 | 7 | 8 => interp_linear FN p n t dt
  | 9 => interp_expdecay FN p n t dt c
  | _ => interp_expratedecay FN p n t dt c
  end%Z.
(* [extrapolated prev; extrapolated next; interp of the extrapolated pair at t; interp of (p, n) at t] *)
Definition ie_case (k : Z) (adj : bool) (s t p n dt c : float) : tree :=
  let e := extrap_k k adj s t p n dt c in
  Nd [ser_float (fst e); ser_float (snd e); ser_float (interp_k k (fst e) (snd e) t dt c);
      ser_float (interp_k k p n t dt c)].

(* ---- isi ---- *)
Definition isi_case (dt : float) (time_first : bool) (m : nat) (data : list (list bool)) : tree :=
  match isi FN dt time_first m data with
  | None => Nd []
  | Some (r, c, rows) => Nd [ser_nat r; ser_nat c; ser_list (ser_list (ser_option ser_float)) rows]
  end.

(* ---- Victor-Purpura ---- *)
Definition vp_case (scalar : bool) (cost : option float) (t0 t1 : list float) : tree :=
  ser_float (if scalar then vp_scalar FN cost t0 t1 else vp_tensor FN cost t0 t1).

(* ---- distributions ---- *)
Definition normal_case (x loc scale : float) : tree :=
  ser_list ser_float
    [normal_pdf FN f_tau x loc scale; normal_logpdf FN f_tau x loc scale;
     normal_cdf FN f_erf x loc scale; normal_logcdf FN f_erf x loc scale;
     normal_mean FN loc; normal_variance FN scale].
Definition normal_mv_case (m v : float) : tree :=
  let p := normal_params_mv FN m v in
  ser_list ser_float [fst p; snd p; normal_mean FN (fst p); normal_variance FN (snd p)].
Definition lognormal_case (x loc scale : float) : tree :=
  ser_list ser_float
    [lognormal_pdf FN f_tau x loc scale; lognormal_logpdf FN f_tau x loc scale;
     lognormal_cdf FN f_erf x loc scale; lognormal_logcdf FN f_erf x loc scale;
     lognormal_mean FN loc scale; lognormal_variance FN loc scale].
Definition lognormal_mv_case (m v : float) : tree :=
  let p := lognormal_params_mv FN m v in
  ser_list ser_float [fst p; snd p; lognormal_mean FN (fst p) (snd p); lognormal_variance FN (fst p) (snd p)].
Definition poisson_case (k : nat) (support rate : float) : tree :=
  let kf := f_ofZ (Z.of_nat k) in
  ser_list ser_float
    [poisson_pmf_ext FN f_lgamma k rate;
     match poisson_logpmf_ext FN f_lgamma k rate with None => neg_infinity | Some l => l end;
     (* the generated formula evaluated in IEEE arithmetic (log 0 = -inf natively): must agree with the above *)
     poisson_pmf FN f_lgamma kf rate; poisson_logpmf FN f_lgamma kf rate; poisson_cdf FN f_gammaincc support rate;
     poisson_logcdf FN f_gammaincc support rate; poisson_mean FN rate; poisson_variance FN rate].
