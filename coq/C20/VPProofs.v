(* C20 - Victor-Purpura spike-train distance.
   (1) the grid computation of inferno.core.math.victor_purpura_pair_dist (C20/Model.v: vp_dp, a fold over
       rows) equals the textbook recursive edit distance D (delete a spike: 1, insert a spike: 1, shift a spike by
       dt: cost*|dt|) of the reversed trains - for all trains and costs;
   (2) D is the minimum cost over all edit scripts (so "distance" means what Victor & Purpura define);
   (3) metric laws, bounds and the documented cost limits, for trains of every length. *)
From Coq Require Import List ZArith Bool Arith Lia Reals Lra.
From Inferno Require Import Base.Num Base.NumR Gen.SpikeMath C20.Model C20.Spec.
Import ListNotations.
Open Scope R_scope.

Lemma D_nil_l : forall cost b, D cost [] b = INR (length b).
Proof. reflexivity. Qed.
Lemma D_nil_r : forall cost a, D cost a [] = INR (length a).
Proof. destruct a; reflexivity. Qed.
Lemma D_cons : forall cost x a y b,
  D cost (x :: a) (y :: b) =
  cell3 cost (D cost a (y :: b) + 1) (D cost (x :: a) b + 1) (fun q => D cost a b + q * Rabs (x - y)).
Proof. reflexivity. Qed.

(* ------------------------------------------------------------------ induction principle on two lists *)
Lemma list2_ind : forall (P : list R -> list R -> Prop),
  (forall b, P [] b) -> (forall a, P a []) ->
  (forall x a y b, P a (y :: b) -> P (x :: a) b -> P a b -> P (x :: a) (y :: b)) ->
  forall a b, P a b.
Proof.
  intros P H1 H2 H3. induction a as [|x a IHa]; [exact H1|].
  induction b as [|y b IHb]; [apply H2|]. apply H3; auto.
Qed.

Lemma Rmin3_cases : forall u v s, Rmin (Rmin u v) s = u \/ Rmin (Rmin u v) s = v \/ Rmin (Rmin u v) s = s.
Proof. intros; unfold Rmin; repeat destruct (Rle_dec _ _); auto. Qed.
Lemma Rmin_cases : forall u v, Rmin u v = u \/ Rmin u v = v.
Proof. intros; unfold Rmin; destruct (Rle_dec _ _); auto. Qed.

(* ------------------------------------------------------------------ basic laws of D *)
Lemma shift_nonneg : forall cost q x y, nonneg_cost cost -> cost = Some q -> 0 <= q * Rabs (x - y).
Proof. intros cost q x y Hc E. apply Rmult_le_pos; [apply Hc; assumption | apply Rabs_pos]. Qed.

Lemma D_nonneg : forall cost, nonneg_cost cost -> forall a b, 0 <= D cost a b.
Proof.
  intros cost Hc. apply list2_ind.
  - intros b; rewrite D_nil_l; apply pos_INR.
  - intros a; rewrite D_nil_r; apply pos_INR.
  - intros x a y b H1 H2 H3. rewrite D_cons. unfold cell3. destruct cost as [q|] eqn:E.
    + pose proof (shift_nonneg (Some q) q x y Hc eq_refl). repeat apply Rmin_glb; lra.
    + apply Rmin_glb; lra.
Qed.

Lemma D_upper : forall cost a b, D cost a b <= INR (length a) + INR (length b).
Proof.
  intros cost. apply list2_ind.
  - intros b; rewrite D_nil_l; cbn [length INR]; lra.
  - intros a; rewrite D_nil_r; cbn [length]; change (INR 0) with 0; lra.
  - intros x a y b H1 H2 H3. rewrite D_cons. cbn [length] in *. rewrite !S_INR in *.
    unfold cell3. destruct cost.
    + eapply Rle_trans; [apply Rmin_l|]. eapply Rle_trans; [apply Rmin_l|]. lra.
    + eapply Rle_trans; [apply Rmin_l|]. lra.
Qed.

Lemma D_lower : forall cost, nonneg_cost cost -> forall a b, Rabs (INR (length a) - INR (length b)) <= D cost a b.
Proof.
  intros cost Hc. apply list2_ind.
  - intros b; rewrite D_nil_l. cbn [length]. change (INR 0) with 0.
    rewrite Rabs_minus_sym, Rminus_0_r, Rabs_pos_eq by apply pos_INR. lra.
  - intros a; rewrite D_nil_r. cbn [length]. change (INR 0) with 0.
    rewrite Rminus_0_r, Rabs_pos_eq by apply pos_INR. lra.
  - intros x a y b H1 H2 H3. rewrite D_cons. cbn [length] in *. rewrite !S_INR in *.
    unfold cell3. destruct cost as [q|] eqn:E.
    + pose proof (shift_nonneg (Some q) q x y Hc eq_refl) as Hw.
      set (w := q * Rabs (x - y)) in *. clearbody w.
      repeat apply Rmin_glb; revert H1 H2 H3; unfold Rabs; repeat destruct (Rcase_abs _); lra.
    + apply Rmin_glb; revert H1 H2 H3; unfold Rabs; repeat destruct (Rcase_abs _); lra.
Qed.

Lemma D_sym : forall cost a b, D cost a b = D cost b a.
Proof.
  intros cost. apply list2_ind.
  - intros b; rewrite D_nil_l, D_nil_r; reflexivity.
  - intros a; rewrite D_nil_l, D_nil_r; reflexivity.
  - intros x a y b H1 H2 H3. rewrite !D_cons. unfold cell3. rewrite H1, H2, H3, (Rabs_minus_sym x y).
    destruct cost; rewrite (Rmin_comm (D _ (y :: b) a + 1)); reflexivity.
Qed.

(* the three elementary edits bound the distance *)
Lemma D_le_del : forall cost x a c, D cost (x :: a) c <= D cost a c + 1.
Proof.
  intros cost x a [|z c].
  - rewrite !D_nil_r. cbn [length]. rewrite S_INR. lra.
  - rewrite D_cons. unfold cell3. destruct cost.
    + eapply Rle_trans; [apply Rmin_l|]. apply Rmin_l.
    + apply Rmin_l.
Qed.
Lemma D_le_ins : forall cost a z c, D cost a (z :: c) <= D cost a c + 1.
Proof. intros cost a z c. rewrite (D_sym cost a (z :: c)), (D_sym cost a c). apply D_le_del. Qed.
Lemma D_le_shift : forall cost q x a z c, cost = Some q -> D cost (x :: a) (z :: c) <= D cost a c + q * Rabs (x - z).
Proof. intros cost q x a z c E. rewrite D_cons. unfold cell3. rewrite E. apply Rmin_r. Qed.

Lemma D_cons_cases : forall cost x a y b,
  D cost (x :: a) (y :: b) = D cost a (y :: b) + 1 \/
  D cost (x :: a) (y :: b) = D cost (x :: a) b + 1 \/
  (exists q, cost = Some q /\ D cost (x :: a) (y :: b) = D cost a b + q * Rabs (x - y)).
Proof.
  intros. rewrite D_cons. unfold cell3. destruct cost as [q|].
  - destruct (Rmin3_cases (D (Some q) a (y :: b) + 1) (D (Some q) (x :: a) b + 1) (D (Some q) a b + q * Rabs (x - y)))
      as [E | [E | E]]; rewrite E; auto. right; right; exists q; auto.
  - destruct (Rmin_cases (D None a (y :: b) + 1) (D None (x :: a) b + 1)) as [E | E]; rewrite E; auto.
Qed.

(* triangle inequality, by induction on the total number of spikes *)
Lemma D_triangle_n : forall cost, nonneg_cost cost -> forall n a b c, (length a + length b + length c <= n)%nat ->
  D cost a c <= D cost a b + D cost b c.
Proof.
  intros cost Hc. induction n as [|n IH]; intros a b c Hn.
  - destruct a, b, c; cbn [length] in Hn; try lia. rewrite !D_nil_l. cbn; lra.
  - destruct a as [|x a].
    { (* |c| <= |b| + D b c *)
      rewrite !D_nil_l. pose proof (D_lower cost Hc b c) as L. revert L. unfold Rabs. destruct (Rcase_abs _); lra. }
    destruct c as [|z c].
    { rewrite !D_nil_r. pose proof (D_lower cost Hc (x :: a) b) as L. revert L. unfold Rabs. destruct (Rcase_abs _); lra. }
    destruct b as [|y b].
    { rewrite D_nil_r, D_nil_l. apply D_upper. }
    cbn [length] in Hn.
    destruct (D_cons_cases cost x a y b) as [E1 | [E1 | [q [Eq E1]]]]; rewrite E1.
    + (* first step deletes x *)
      pose proof (D_le_del cost x a (z :: c)). pose proof (IH a (y :: b) (z :: c)) as I. cbn [length] in I.
      specialize (I ltac:(lia)). lra.
    + destruct (D_cons_cases cost y b z c) as [E2 | [E2 | [q2 [Eq2 E2]]]]; rewrite E2.
      * (* insert y, then delete y *)
        pose proof (IH (x :: a) b (z :: c)) as I. cbn [length] in I. specialize (I ltac:(lia)). lra.
      * pose proof (D_le_ins cost (x :: a) z c). pose proof (IH (x :: a) (y :: b) c) as I. cbn [length] in I.
        specialize (I ltac:(lia)). rewrite E1 in I. lra.
      * (* insert y, then shift y to z: insert z *)
        pose proof (D_le_ins cost (x :: a) z c). pose proof (IH (x :: a) b c) as I. cbn [length] in I.
        specialize (I ltac:(lia)). pose proof (shift_nonneg cost q2 y z Hc Eq2). lra.
    + destruct (D_cons_cases cost y b z c) as [E2 | [E2 | [q2 [Eq2 E2]]]]; rewrite E2.
      * (* shift x to y, then delete y: delete x *)
        pose proof (D_le_del cost x a (z :: c)). pose proof (IH a b (z :: c)) as I. cbn [length] in I.
        specialize (I ltac:(lia)). pose proof (shift_nonneg cost q x y Hc Eq). lra.
      * pose proof (D_le_ins cost (x :: a) z c). pose proof (IH (x :: a) (y :: b) c) as I. cbn [length] in I.
        specialize (I ltac:(lia)). rewrite E1 in I. lra.
      * (* shift, shift: one shift, by the triangle inequality of |.| *)
        assert (q2 = q) by congruence. subst q2.
        pose proof (D_le_shift cost q x a z c Eq). pose proof (IH a b c) as I. specialize (I ltac:(lia)).
        assert (Rabs (x - z) <= Rabs (x - y) + Rabs (y - z)).
        { replace (x - z) with ((x - y) + (y - z)) by ring. apply Rabs_triang. }
        pose proof (Hc q Eq). nra.
Qed.

Lemma D_triangle : forall cost, nonneg_cost cost -> forall a b c, D cost a c <= D cost a b + D cost b c.
Proof. intros cost Hc a b c; eapply D_triangle_n; [assumption | apply Nat.le_refl]. Qed.

(* D is a lower bound of every script's cost, and is attained by a script *)
Lemma D_le_script : forall cost a b (s : script a b) c, script_cost cost s = Some c -> D cost a b <= c.
Proof.
  intros cost a b s.
  induction s as [|x a b s IH|y a b s IH|x y a b s IH]; intros c Hc; cbn [script_cost] in Hc.
  - inversion Hc; subst. cbn; lra.
  - destruct (script_cost cost s) as [c'|]; [|discriminate]. inversion Hc; subst.
    specialize (IH c' eq_refl). pose proof (D_le_del cost x a b). lra.
  - destruct (script_cost cost s) as [c'|]; [|discriminate]. inversion Hc; subst.
    specialize (IH c' eq_refl). pose proof (D_le_ins cost a y b). lra.
  - destruct cost as [q|] eqn:E; [|discriminate].
    destruct (script_cost (Some q) s) as [c'|]; [|discriminate]. inversion Hc; subst.
    specialize (IH c' eq_refl). pose proof (D_le_shift (Some q) q x a y b eq_refl). lra.
Qed.

Fixpoint del_all (a : list R) : script a [] :=
  match a with [] => s_nil | x :: a' => s_del x a' [] (del_all a') end.
Fixpoint ins_all (b : list R) : script [] b :=
  match b with [] => s_nil | y :: b' => s_ins y [] b' (ins_all b') end.

Lemma D_attained : forall cost a b, exists s : script a b, script_cost cost s = Some (D cost a b).
Proof.
  intros cost. apply list2_ind.
  - intros b. exists (ins_all b). rewrite D_nil_l. induction b as [|y b IH]; [reflexivity|].
    cbn [ins_all script_cost length]. rewrite IH, S_INR. reflexivity.
  - intros a. exists (del_all a). rewrite D_nil_r. induction a as [|x a IH]; [reflexivity|].
    cbn [del_all script_cost length]. rewrite IH, S_INR. reflexivity.
  - intros x a y b [s1 H1] [s2 H2] [s3 H3].
    destruct (D_cons_cases cost x a y b) as [E | [E | [q [Eq E]]]]; rewrite E.
    + exists (s_del x a (y :: b) s1). cbn [script_cost]. rewrite H1. reflexivity.
    + exists (s_ins y (x :: a) b s2). cbn [script_cost]. rewrite H2. reflexivity.
    + exists (s_shift x y a b s3). subst cost. cbn [script_cost]. rewrite H3. reflexivity.
Qed.

(* ---- laws that depend on the value of the cost ---- *)
Lemma D_refl : forall q a, 0 <= q -> D (Some q) a a = 0.
Proof.
  intros q a Hq. assert (Hc : nonneg_cost (Some q)) by (intros ? [= <-]; assumption).
  induction a as [|x a IH]; [reflexivity|].
  apply Rle_antisym; [|apply D_nonneg; assumption].
  pose proof (D_le_shift (Some q) q x a x a eq_refl) as H. rewrite IH in H.
  replace (x - x) with 0 in H by ring. rewrite Rabs_R0 in H. lra.
Qed.

Lemma D_zero_eq : forall q, 0 < q -> forall a b, D (Some q) a b = 0 -> a = b.
Proof.
  intros q Hq.
  assert (Hc : nonneg_cost (Some q)) by (intros ? [= <-]; lra).
  apply (list2_ind (fun a b => D (Some q) a b = 0 -> a = b)).
  - intros b H. rewrite D_nil_l in H. destruct b; [reflexivity|]. cbn [length] in H. rewrite S_INR in H.
    pose proof (pos_INR (length b)). lra.
  - intros a H. rewrite D_nil_r in H. destruct a; [reflexivity|]. cbn [length] in H. rewrite S_INR in H.
    pose proof (pos_INR (length a)). lra.
  - intros x a y b _ _ IH H.
    pose proof (D_nonneg (Some q) Hc a (y :: b)). pose proof (D_nonneg (Some q) Hc (x :: a) b).
    pose proof (D_nonneg (Some q) Hc a b) as H3. pose proof (Rabs_pos (x - y)) as H4.
    destruct (D_cons_cases (Some q) x a y b) as [E | [E | [q' [Eq E]]]]; rewrite E in H; try lra.
    inversion Eq; subst q'.
    assert (H5 : 0 <= q * Rabs (x - y)) by (apply Rmult_le_pos; lra).
    assert (D (Some q) a b = 0) by lra. assert (H6 : q * Rabs (x - y) = 0) by lra.
    assert (Rabs (x - y) = 0) by (apply Rmult_integral in H6; destruct H6; lra).
    assert (x = y). { destruct (Req_dec (x - y) 0) as [Z | Z]; [lra|]. apply Rabs_no_R0 in Z. contradiction. }
    subst. f_equal. auto.
Qed.

Lemma D_cost_zero : forall a b, D (Some 0) a b = Rabs (INR (length a) - INR (length b)).
Proof.
  apply list2_ind.
  - intros b. rewrite D_nil_l. cbn [length]. change (INR 0) with 0.
    rewrite Rabs_minus_sym, Rminus_0_r, Rabs_pos_eq by apply pos_INR. reflexivity.
  - intros a. rewrite D_nil_r. cbn [length]. change (INR 0) with 0.
    rewrite Rminus_0_r, Rabs_pos_eq by apply pos_INR. reflexivity.
  - intros x a y b H1 H2 H3. rewrite D_cons. unfold cell3. rewrite H1, H2, H3. cbn [length]. rewrite !S_INR.
    rewrite Rmult_0_l, Rplus_0_r.
    unfold Rmin, Rabs; repeat destruct (Rle_dec _ _); repeat destruct (Rcase_abs _); lra.
Qed.

Lemma D_cost_inf : forall a b, D None a b = INR (length a) + INR (length b).
Proof.
  apply list2_ind.
  - intros b. rewrite D_nil_l. cbn [length]. change (INR 0) with 0. lra.
  - intros a. rewrite D_nil_r. cbn [length]. change (INR 0) with 0. lra.
  - intros x a y b H1 H2 H3. rewrite D_cons. unfold cell3. rewrite H1, H2. cbn [length]. rewrite !S_INR.
    unfold Rmin; destruct (Rle_dec _ _); lra.
Qed.

Lemma D_mono_cost : forall q1 q2, 0 <= q1 <= q2 -> forall a b, D (Some q1) a b <= D (Some q2) a b.
Proof.
  intros q1 q2 Hq. apply list2_ind.
  - intros; rewrite !D_nil_l; lra.
  - intros; rewrite !D_nil_r; lra.
  - intros x a y b H1 H2 H3. rewrite !D_cons. unfold cell3.
    pose proof (Rabs_pos (x - y)).
    assert (D (Some q1) a b + q1 * Rabs (x - y) <= D (Some q2) a b + q2 * Rabs (x - y)) by nra.
    repeat apply Rmin_glb.
    + eapply Rle_trans; [apply Rmin_l|]. eapply Rle_trans; [apply Rmin_l|]. lra.
    + eapply Rle_trans; [apply Rmin_l|]. eapply Rle_trans; [apply Rmin_r|]. lra.
    + eapply Rle_trans; [apply Rmin_r|]. lra.
Qed.

Lemma D_le_inf : forall q, 0 <= q -> forall a b, D (Some q) a b <= D None a b.
Proof.
  intros q Hq a b. rewrite D_cost_inf. apply D_upper.
Qed.

(* ------------------------------------------------------------------ the grid computation refines D *)
Lemma tmin_Rmin : forall a b : R, tmin RN a b = Rmin a b.
Proof.
  intros a b. unfold tmin. rn_simpl. unfold Rmin.
  destruct (Rltb'_spec b a); destruct (Rle_dec a b); try reflexivity; lra.
Qed.

(* all prefixes pre, pre++[s1], pre++[s1;s2], ... of pre ++ suf *)
Fixpoint prefixes_from (pre suf : list R) : list (list R) :=
  pre :: match suf with [] => [] | y :: suf' => prefixes_from (pre ++ [y]) suf' end.

Lemma prefixes_lengths : forall suf pre,
  map (@length R) (prefixes_from pre suf) = seq (length pre) (S (length suf)).
Proof.
  induction suf as [|y suf IH]; intros pre; [reflexivity|].
  cbn [prefixes_from map length seq]. f_equal. rewrite IH, app_length. cbn [length].
  replace (length pre + 1)%nat with (S (length pre)) by lia. reflexivity.
Qed.

Lemma prefixes_last : forall suf pre d, last (prefixes_from pre suf) d = pre ++ suf.
Proof.
  induction suf as [|y suf IH]; intros pre d.
  - cbn. rewrite app_nil_r; reflexivity.
  - cbn [prefixes_from]. destruct (prefixes_from (pre ++ [y]) suf) eqn:E.
    + destruct suf; discriminate.
    + rewrite <- E. change (last (pre :: prefixes_from (pre ++ [y]) suf) d) with
        (match prefixes_from (pre ++ [y]) suf with [] => pre | _ => last (prefixes_from (pre ++ [y]) suf) d end).
      rewrite E. rewrite <- E. rewrite IH, <- app_assoc. reflexivity.
Qed.

Lemma last_map_ne : forall {A B} (f : A -> B) (l : list A) d d', l <> [] -> last (map f l) d' = f (last l d).
Proof.
  induction l as [|a l IH]; intros d d' H; [contradiction|].
  destruct l as [|b l]; [reflexivity|].
  change (last (map f (a :: b :: l)) d') with (last (map f (b :: l)) d').
  change (last (a :: b :: l) d) with (last (b :: l) d). apply IH. discriminate.
Qed.

(* the GENERATED loop body (Gen/SpikeMath.v, from victor_purpura_pair_dist's two nested loops): delete = up + 1,
   insert = left + 1, shift = diag + cost * |x - y|, and the stored value is their minimum *)
Theorem vp_cell_finite_is_min3 : forall up lft diag q x y : R,
  vp_cell_finite RN up lft diag q x y = Rmin (Rmin (up + 1) (lft + 1)) (diag + q * Rabs (x - y)).
Proof. intros. unfold vp_cell_finite. cbv zeta. rewrite !tmin_Rmin. rn_simpl. reflexivity. Qed.

Section Refine.
Variable cost : option R.
(* row of the grid after the prefix p of t0: column c holds D (rev p) (rev (firstn c t1)) *)
Definition rowof (p t1 : list R) : list R := map (fun s => D cost (rev p) (rev s)) (prefixes_from [] t1).

Lemma vp_cell_spec : forall up left diag x y,
  vp_cell RN cost up left diag x y = cell3 cost (up + 1) (left + 1) (fun q => diag + q * Rabs (x - y)).
Proof.
  intros. unfold vp_cell, vp_cell_finite, cell3. destruct cost; cbv zeta; rewrite !tmin_Rmin; rn_simpl; reflexivity.
Qed.

Lemma row_fill_spec : forall x p suf pre,
  vp_row_fill RN cost x (map (fun s => D cost (rev p) (rev s)) (prefixes_from pre suf)) suf
              (D cost (x :: rev p) (rev pre))
  = map (fun s => D cost (x :: rev p) (rev s)) (tl (prefixes_from pre suf)).
Proof.
  intros x p. induction suf as [|y suf IH]; intros pre; [reflexivity|].
  cbn [prefixes_from map tl].
  destruct (prefixes_from (pre ++ [y]) suf) as [|s0 rest] eqn:E; [destruct suf; discriminate|].
  assert (Es0 : s0 = pre ++ [y]) by (destruct suf; cbn in E; inversion E; reflexivity).
  cbn [map vp_row_fill].
  rewrite vp_cell_spec.
  assert (Ev : cell3 cost (D cost (rev p) (rev s0) + 1) (D cost (x :: rev p) (rev pre) + 1)
                 (fun q => D cost (rev p) (rev pre) + q * Rabs (x - y)) = D cost (x :: rev p) (rev s0)).
  { rewrite Es0, rev_app_distr. cbn [rev app]. rewrite D_cons. reflexivity. }
  rewrite Ev. f_equal.
  specialize (IH (pre ++ [y])). rewrite E in IH. cbn [map tl] in IH. rewrite <- Es0 in IH. exact IH.
Qed.

Lemma next_row_spec : forall x p t1,
  vp_next_row RN cost (S (length p)) x (rowof p t1) t1 = rowof (p ++ [x]) t1.
Proof.
  intros x p t1. unfold vp_next_row, rowof. rewrite rev_app_distr. cbn [rev app].
  pose proof (row_fill_spec x p t1 []) as H. cbn [rev] in H.
  rn_simpl. rewrite <- INR_IZR_INZ.
  assert (E : D cost (x :: rev p) [] = INR (S (length p))).
  { rewrite D_nil_r. cbn [length]. rewrite rev_length. reflexivity. }
  rewrite <- E. rewrite H. destruct t1; reflexivity.
Qed.

Lemma rows_spec : forall t0 p t1,
  vp_rows RN cost (S (length p)) t0 (rowof p t1) t1 = rowof (p ++ t0) t1.
Proof.
  induction t0 as [|x t0 IH]; intros p t1.
  - cbn. rewrite app_nil_r. reflexivity.
  - cbn [vp_rows]. rewrite next_row_spec.
    replace (S (S (length p))) with (S (length (p ++ [x]))) by (rewrite app_length; cbn; lia).
    rewrite IH, <- app_assoc. reflexivity.
Qed.

Lemma row0_spec : forall t1 : list R, vp_row0 RN t1 = rowof [] t1.
Proof.
  intros t1. unfold vp_row0, rowof. cbn [rev]. change (T RN) with R.
  change (seq 0 (S (length t1))) with (seq (length (@nil R)) (S (length t1))).
  rewrite <- (prefixes_lengths t1 []). rewrite map_map. apply map_ext. intros s.
  rn_simpl. rewrite <- INR_IZR_INZ, D_nil_l, rev_length. reflexivity.
Qed.

Theorem vp_dp_is_D : forall t0 t1, vp_dp RN cost t0 t1 = D cost (rev t0) (rev t1).
Proof.
  intros t0 t1. unfold vp_dp. rewrite row0_spec.
  pose proof (rows_spec t0 [] t1) as H. cbn [length app] in H. rewrite H.
  unfold rowof. rn_simpl.
  rewrite (last_map_ne (fun s => D cost (rev t0) (rev s)) (prefixes_from [] t1) t1).
  - rewrite prefixes_last. reflexivity.
  - destruct t1; discriminate.
Qed.
End Refine.

(* ------------------------------------------------------------------ the obligations: laws of the model of the code *)
Lemma rev_inj : forall a b : list R, rev a = rev b -> a = b.
Proof. intros a b H. rewrite <- (rev_involutive a), <- (rev_involutive b), H. reflexivity. Qed.

(* the value computed by the grid is the cost of the cheapest edit script (between the trains read backwards,
   which is the same set of alignments), for every cost including inf *)
Theorem vp_equals_min_over_scripts : forall cost (t0 t1 : list R),
  (forall (s : script (rev t0) (rev t1)) c, script_cost cost s = Some c -> vp_tensor RN cost t0 t1 <= c) /\
  (exists s : script (rev t0) (rev t1), script_cost cost s = Some (vp_tensor RN cost t0 t1)).
Proof.
  intros cost t0 t1. unfold vp_tensor. rewrite vp_dp_is_D. split.
  - intros s c H. eapply D_le_script; eassumption.
  - apply D_attained.
Qed.

Theorem vp_nonneg : forall cost (t0 t1 : list R), nonneg_cost cost -> 0 <= vp_tensor RN cost t0 t1.
Proof. intros; unfold vp_tensor; rewrite vp_dp_is_D; apply D_nonneg; assumption. Qed.

Theorem vp_bounds : forall cost (t0 t1 : list R), nonneg_cost cost ->
  Rabs (INR (length t0) - INR (length t1)) <= vp_tensor RN cost t0 t1 <= INR (length t0) + INR (length t1).
Proof.
  intros cost t0 t1 Hc. unfold vp_tensor. rewrite vp_dp_is_D.
  rewrite <- (rev_length t0), <- (rev_length t1). split; [apply D_lower; assumption | apply D_upper].
Qed.

(* the documented limits: cost 0 -> |n - m|, cost inf -> n + m; computed by the dynamic programme itself *)
Theorem vp_cost_limits : forall t0 t1 : list R,
  vp_tensor RN (Some 0) t0 t1 = Rabs (INR (length t0) - INR (length t1)) /\
  vp_tensor RN None t0 t1 = INR (length t0) + INR (length t1).
Proof.
  intros. unfold vp_tensor. rewrite !vp_dp_is_D, D_cost_zero, D_cost_inf, !rev_length. split; reflexivity.
Qed.

(* hence the two shortcuts of the python-number branch agree with the tensor branch for EVERY cost *)
Theorem vp_scalar_tensor_agree : forall cost (t0 t1 : list R),
  vp_scalar RN cost t0 t1 = vp_tensor RN cost t0 t1.
Proof.
  intros cost t0 t1. unfold vp_scalar. destruct cost as [q|].
  - rn_simpl. destruct (Reqb'_spec q 0) as [-> | Hq]; [|reflexivity].
    destruct (vp_cost_limits t0 t1) as [-> _].
    rewrite abs_IZR, minus_IZR, <- !INR_IZR_INZ. reflexivity.
  - destruct (vp_cost_limits t0 t1) as [_ ->]. rn_simpl. rewrite plus_IZR, <- !INR_IZR_INZ. reflexivity.
Qed.

Theorem vp_symmetric : forall cost (t0 t1 : list R), vp_tensor RN cost t0 t1 = vp_tensor RN cost t1 t0.
Proof. intros; unfold vp_tensor; rewrite !vp_dp_is_D; apply D_sym. Qed.

Theorem vp_identity : forall q (t : list R), 0 <= q -> vp_tensor RN (Some q) t t = 0.
Proof. intros; unfold vp_tensor; rewrite vp_dp_is_D; apply D_refl; assumption. Qed.

Theorem vp_zero_iff_equal : forall q (t0 t1 : list R), 0 < q -> (vp_tensor RN (Some q) t0 t1 = 0 <-> t0 = t1).
Proof.
  intros q t0 t1 Hq. unfold vp_tensor. rewrite vp_dp_is_D. split.
  - intros H. apply rev_inj. eapply D_zero_eq; eassumption.
  - intros ->. apply D_refl; lra.
Qed.

Theorem vp_triangle : forall cost (a b c : list R), nonneg_cost cost ->
  vp_tensor RN cost a c <= vp_tensor RN cost a b + vp_tensor RN cost b c.
Proof. intros; unfold vp_tensor; rewrite !vp_dp_is_D; apply D_triangle; assumption. Qed.

Theorem vp_monotone_in_cost : forall q1 q2 (t0 t1 : list R), 0 <= q1 <= q2 ->
  vp_tensor RN (Some q1) t0 t1 <= vp_tensor RN (Some q2) t0 t1 <= vp_tensor RN None t0 t1.
Proof.
  intros q1 q2 t0 t1 H. unfold vp_tensor. rewrite !vp_dp_is_D. split.
  - apply D_mono_cost; assumption.
  - apply D_le_inf; lra.
Qed.

(* At cost = inf the value is NOT zero on identical trains: d(a, a) = 2|a|.  This is the behaviour the docstring
   warns about ("using inf as the cost will only return the total number of spikes, not accounting for spikes
   occurring at the same time"), so "identity of indiscernibles" holds for finite costs only. *)
Theorem vp_inf_self : forall t : list R, vp_tensor RN None t t = 2 * INR (length t).
Proof. intros t. destruct (vp_cost_limits t t) as [_ E]. rewrite E. rn_simpl. lra. Qed.

(* at cost 0 distinct trains of equal length are at distance 0 (a pseudo-metric there) *)
Theorem vp_zero_cost_pseudo : exists t0 t1 : list R, t0 <> t1 /\ vp_tensor RN (Some 0) t0 t1 = 0.
Proof.
  exists [0], [1]. split; [intros H; inversion H; lra|].
  destruct (vp_cost_limits [0] [1]) as [-> _]. cbn [length]. replace (INR 1 - INR 1) with 0 by ring. apply Rabs_R0.
Qed.
