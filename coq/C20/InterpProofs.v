(* C20 - interp/extrap laws, stated about the GENERATED kernels (Gen/Interpolation.v, Gen/Extrapolation.v),
   real-number instance.  Independent of C02/RoundTrip.v on purpose (own short proofs). *)
From Coq Require Import Reals Lra List ZArith Bool.
From Inferno Require Import Base.Num Base.NumR Gen.Interpolation Gen.Extrapolation.
Open Scope R_scope.

(* "interp at the time the sample was extrapolated from returns the sample" (parsing abbreviation only: the
   obligations are printed in expanded form) *)
Local Notation roundtrip interp extrap s t p n dt :=
  (interp (fst (extrap s t p n dt)) (snd (extrap s t p n dt)) t dt = s) (only parsing).

(* ---- pairs that hold for every sample time (no side condition at all) ---- *)
Theorem roundtrip_previous : forall s t p n dt,
  roundtrip (interp_previous RN) (extrap_previous RN) s t p n dt.
Proof. intros; reflexivity. Qed.

Theorem roundtrip_next : forall s t p n dt,
  roundtrip (interp_next RN) (extrap_next RN) s t p n dt.
Proof. intros; reflexivity. Qed.

Theorem roundtrip_neighbors_previous : forall s t p n dt,
  roundtrip (interp_previous RN) (extrap_neighbors RN) s t p n dt.
Proof. intros; reflexivity. Qed.

Theorem roundtrip_neighbors_next : forall s t p n dt,
  roundtrip (interp_next RN) (extrap_neighbors RN) s t p n dt.
Proof. intros; reflexivity. Qed.

Theorem roundtrip_neighbors_nearest : forall s t p n dt,
  roundtrip (interp_nearest RN) (extrap_neighbors RN) s t p n dt.
Proof.
  intros; unfold interp_nearest, extrap_neighbors; rn_unfold; cbn [fst snd].
  destruct (Rltb' (/ 2) (t / dt)); reflexivity.
Qed.

Theorem roundtrip_neighbors_linear : forall s t p n dt,
  roundtrip (interp_linear RN) (extrap_neighbors RN) s t p n dt.
Proof.
  intros; unfold interp_linear, extrap_neighbors; rn_unfold; cbn [fst snd].
  unfold Rdiv; ring.
Qed.

Theorem roundtrip_expdecay : forall s t p n dt tc,
  roundtrip (fun a b c d => interp_expdecay RN a b c d tc)
            (fun a b c d e => extrap_expdecay RN a b c d e tc) s t p n dt.
Proof.
  intros; unfold interp_expdecay, extrap_expdecay; rn_unfold; cbn [fst snd].
  rewrite Rmult_assoc, <- exp_plus.
  replace (t / tc + - t / tc) with 0 by (unfold Rdiv; ring).
  rewrite exp_0; ring.
Qed.

Theorem roundtrip_expratedecay : forall s t p n dt rc,
  roundtrip (fun a b c d => interp_expratedecay RN a b c d rc)
            (fun a b c d e => extrap_expratedecay RN a b c d e rc) s t p n dt.
Proof.
  intros; unfold interp_expratedecay, extrap_expratedecay; rn_unfold; cbn [fst snd].
  rewrite Rmult_assoc, <- exp_plus.
  replace (t * rc + - t * rc) with 0 by ring.
  rewrite exp_0; ring.
Qed.

(* ---- nearest: needs only a positive step ---- *)
Theorem roundtrip_nearest : forall s t p n dt, 0 < dt ->
  roundtrip (interp_nearest RN) (extrap_nearest RN) s t p n dt.
Proof.
  intros s t p n dt Hdt; unfold interp_nearest, extrap_nearest; rn_unfold.
  replace (IZR 2) with 2 by reflexivity.
  destruct (Rltb'_spec (dt / 2) t) as [H1 | H1]; destruct (Rltb'_spec (/ 2) (t / dt)) as [H2 | H2];
    cbn [fst snd]; try reflexivity; exfalso.
  - apply H2. apply Rmult_lt_reg_r with dt; [lra|].
    unfold Rdiv; rewrite Rmult_assoc, Rinv_l by lra. lra.
  - apply H1. apply Rmult_lt_compat_r with (r := dt) in H2; [|lra].
    unfold Rdiv in H2; rewrite Rmult_assoc, Rinv_l in H2 by lra. lra.
Qed.

(* ---- linear: the only side conditions are the divisions actually performed ---- *)
Definition app_adjust (adjust : option (R -> R)) (x : R) : R :=
  match adjust with Some f => f x | None => x end.

Theorem roundtrip_linear_forward : forall adjust s t p n dt, t <> 0 -> dt <> 0 ->
  roundtrip (interp_linear RN) (fun a b c d e => extrap_linear_forward RN a b c d e adjust) s t p n dt.
Proof.
  intros adjust s t p n dt Ht Hdt; unfold interp_linear, extrap_linear_forward; rn_unfold.
  cbn [fst snd]. set (p' := match adjust with Some f => f p | None => p end). field; auto.
Qed.

Theorem roundtrip_linear_backward : forall adjust s t p n dt, t <> dt -> dt <> 0 ->
  roundtrip (interp_linear RN) (fun a b c d e => extrap_linear_backward RN a b c d e adjust) s t p n dt.
Proof.
  intros adjust s t p n dt Ht Hdt; unfold interp_linear, extrap_linear_backward; rn_unfold.
  cbn [fst snd]. set (n' := match adjust with Some f => f n | None => n end).
  field; split; auto. intro H; apply Ht; lra.
Qed.

(* the form DESIGN.md asks for: every shipped matching pair, sample strictly inside the step *)
Theorem interp_extrap_roundtrip_all : forall s t p n dt tc adjust, 0 < t < dt ->
  roundtrip (interp_previous RN) (extrap_previous RN) s t p n dt /\
  roundtrip (interp_next RN) (extrap_next RN) s t p n dt /\
  roundtrip (interp_nearest RN) (extrap_nearest RN) s t p n dt /\
  roundtrip (interp_previous RN) (extrap_neighbors RN) s t p n dt /\
  roundtrip (interp_next RN) (extrap_neighbors RN) s t p n dt /\
  roundtrip (interp_nearest RN) (extrap_neighbors RN) s t p n dt /\
  roundtrip (interp_linear RN) (extrap_neighbors RN) s t p n dt /\
  roundtrip (interp_linear RN) (fun a b c d e => extrap_linear_forward RN a b c d e adjust) s t p n dt /\
  roundtrip (interp_linear RN) (fun a b c d e => extrap_linear_backward RN a b c d e adjust) s t p n dt /\
  roundtrip (fun a b c d => interp_expdecay RN a b c d tc)
            (fun a b c d e => extrap_expdecay RN a b c d e tc) s t p n dt /\
  roundtrip (fun a b c d => interp_expratedecay RN a b c d tc)
            (fun a b c d e => extrap_expratedecay RN a b c d e tc) s t p n dt.
Proof.
  intros s t p n dt tc adjust [H0 H1].
  repeat split.
  - apply roundtrip_nearest; lra.
  - apply roundtrip_neighbors_nearest.
  - apply roundtrip_neighbors_linear.
  - apply roundtrip_linear_forward; lra.
  - apply roundtrip_linear_backward; lra.
  - apply roundtrip_expdecay.
  - apply roundtrip_expratedecay.
Qed.

(* the extrapolated pair is untouched where the method says so (frame facts used by insert) *)
Theorem extrap_keeps_other_bracket : forall s t p n dt adjust,
  snd (extrap_previous RN s t p n dt) = n /\ fst (extrap_next RN s t p n dt) = p /\
  fst (extrap_linear_forward RN s t p n dt adjust) = app_adjust adjust p /\
  snd (extrap_linear_backward RN s t p n dt adjust) = app_adjust adjust n.
Proof. intros; repeat split. Qed.

(* the exponential pair lies on ONE decay curve: interpolating the extrapolated previous value to the end of the
   step gives the extrapolated next value (so the two written slots are mutually consistent) *)
Theorem extrap_expdecay_consistent : forall s t p n dt tc,
  interp_expdecay RN (fst (extrap_expdecay RN s t p n dt tc)) n dt dt tc = snd (extrap_expdecay RN s t p n dt tc).
Proof.
  intros; unfold interp_expdecay, extrap_expdecay; rn_unfold; cbn [fst snd].
  rewrite Rmult_assoc, <- exp_plus. f_equal. f_equal. unfold Rdiv; ring.
Qed.
Theorem extrap_expratedecay_consistent : forall s t p n dt rc,
  interp_expratedecay RN (fst (extrap_expratedecay RN s t p n dt rc)) n dt dt rc
  = snd (extrap_expratedecay RN s t p n dt rc).
Proof.
  intros; unfold interp_expratedecay, extrap_expratedecay; rn_unfold; cbn [fst snd].
  rewrite Rmult_assoc, <- exp_plus. f_equal. f_equal. ring.
Qed.

(* ---- linear interpolation: between the brackets, equal to them at the ends ---- *)
Theorem linear_at_ends : forall p n dt, dt <> 0 ->
  interp_linear RN p n 0 dt = p /\ interp_linear RN p n dt dt = n.
Proof.
  intros p n dt Hdt; unfold interp_linear; rn_unfold; split; field; auto.
Qed.

Theorem linear_between_brackets : forall p n t dt, 0 < dt -> 0 <= t <= dt ->
  Rmin p n <= interp_linear RN p n t dt <= Rmax p n.
Proof.
  intros p n t dt Hdt [H0 H1]; unfold interp_linear; rn_unfold.
  set (u := t / dt).
  assert (Hu : 0 <= u <= 1).
  { unfold u; split.
    - apply Rmult_le_pos; [lra | left; apply Rinv_0_lt_compat; lra].
    - apply Rmult_le_reg_r with dt; [lra|]. unfold Rdiv; rewrite Rmult_assoc, Rinv_l by lra. lra. }
  replace (p + (n - p) / dt * t) with (p + (n - p) * u) by (unfold u; field; lra).
  unfold Rmin, Rmax; destruct (Rle_dec p n) as [Hpn | Hpn]; split; nra.
Qed.

(* convex-combination form: the weight of the newer bracket is exactly t/dt *)
Theorem linear_is_convex_combination : forall p n t dt, dt <> 0 ->
  interp_linear RN p n t dt = (1 - t / dt) * p + (t / dt) * n.
Proof. intros p n t dt Hdt; unfold interp_linear; rn_unfold; field; auto. Qed.

(* the other interpolations never leave the bracket values either *)
Theorem nearest_is_a_bracket : forall p n t dt,
  interp_nearest RN p n t dt = p \/ interp_nearest RN p n t dt = n.
Proof. intros; unfold interp_nearest; rn_unfold. destruct (Rltb' (/ 2) (t / dt)); auto. Qed.

Theorem nearest_picks_closer : forall p n t dt, 0 < dt ->
  (t < dt / 2 -> interp_nearest RN p n t dt = p) /\ (dt / 2 < t -> interp_nearest RN p n t dt = n).
Proof.
  intros p n t dt Hdt; unfold interp_nearest; rn_unfold.
  assert (E : t / dt * dt = t) by (field; lra).
  split; intros H; destruct (Rltb'_spec (/ 2) (t / dt)) as [H2 | H2]; try reflexivity; exfalso; nra.
Qed.

Theorem expdecay_contracts : forall p n t dt tc, 0 < tc -> 0 <= t ->
  Rabs (interp_expdecay RN p n t dt tc) <= Rabs p.
Proof.
  intros p n t dt tc Htc Ht; unfold interp_expdecay; rn_unfold.
  rewrite Rabs_mult, (Rabs_pos_eq (Rtrigo_def.exp _)) by (left; apply exp_pos).
  assert (Rtrigo_def.exp (- t / tc) <= 1).
  { rewrite <- exp_0. destruct (Req_dec t 0) as [-> | Hne].
    - right; f_equal; unfold Rdiv; ring.
    - left; apply exp_increasing. unfold Rdiv.
      assert (0 < t * / tc) by (apply Rmult_lt_0_compat; [lra | apply Rinv_0_lt_compat; lra]). lra. }
  pose proof (Rabs_pos p). nra.
Qed.
