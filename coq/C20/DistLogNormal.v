(* C20 - inferno.stats, LogNormal: laws of the GENERATED formulas (Gen/Distributions.v); see DistNormal.v for conventions. *)
From Coq Require Import Reals Lra Lia List ZArith Bool.
From Coquelicot Require Import Coquelicot.
From Flocq Require Import Core.Raux.
From Inferno Require Import Base.Num Base.NumR Gen.Distributions C20.Model C20.Spec C20.DistNormal.
Import ListNotations.
Open Scope R_scope.

Local Notation Rexp := Rtrigo_def.exp.
Local Notation Rln := Rpower.ln.
Local Notation Rsqrt := R_sqrt.sqrt.

(* guard: names of the constant / special-function parameters of the generated formulas (see DistNormal.v) *)
Arguments lognormal_pdf N tau support loc scale : assert.
Arguments lognormal_logpdf N tau support loc scale : assert.
Arguments lognormal_cdf N erf support loc scale : assert.
Arguments lognormal_logcdf N erf support loc scale : assert.
Arguments lognormal_params_mv N mean variance : assert.
Arguments lognormal_mean N loc scale : assert.
Arguments lognormal_variance N loc scale : assert.

(* ================================================================== LogNormal *)
(* exp(log-density) = density holds by construction (pdf := exp(logpdf)); what needs proof is that this IS the
   log-normal density: the normal density at ln x divided by x *)
Theorem lognormal_pdf_closed_form : forall tau x loc scale, 0 < tau -> 0 < scale -> 0 < x ->
  lognormal_pdf RN tau x loc scale = Rexp (lognormal_logpdf RN tau x loc scale) /\
  lognormal_pdf RN tau x loc scale = normal_pdf RN tau (Rln x) loc scale / x /\
  lognormal_pdf RN tau x loc scale
    = 1 / (x * scale * Rsqrt tau) * Rexp (- / 2 * ((Rln x - loc) / scale) ^ 2).
Proof.
  intros tau x loc scale Ht Hs Hx. split; [reflexivity|].
  assert (Hq : 0 < Rsqrt tau) by (apply sqrt_lt_R0; assumption).
  assert (E : lognormal_pdf RN tau x loc scale = 1 / (x * scale * Rsqrt tau) * Rexp (- / 2 * ((Rln x - loc) / scale) ^ 2)).
  { dist_unfold.
    replace (- Rln scale - Rln x - / 2 * (Rln tau + (loc - Rln x) / scale * ((loc - Rln x) / scale)))
      with (- Rln scale + (- Rln x + (- (/ 2 * Rln tau) + - / 2 * ((Rln x - loc) / scale) ^ 2))) by (field; lra).
    rewrite !exp_plus, !exp_Ropp, !exp_ln by assumption.
    replace (Rexp (/ 2 * Rln tau)) with (Rsqrt tau).
    - field. repeat split; lra.
    - rewrite <- (exp_ln (Rsqrt tau)) by assumption. f_equal.
      rewrite <- (sqrt_sqrt tau) at 2 by lra. rewrite ln_mult by assumption. lra. }
  split; [|exact E]. rewrite E. clear E. dist_unfold.
  replace (((Rln x - loc) / scale) ^ 2) with ((Rln x - loc) / scale * ((Rln x - loc) / scale)) by ring.
  field. repeat split; lra.
Qed.

Theorem lognormal_logcdf_eq_log_cdf : forall (erf : R -> R) x loc scale,
  lognormal_logcdf RN erf x loc scale = Rln (lognormal_cdf RN erf x loc scale) /\
  lognormal_cdf RN erf x loc scale = normal_cdf RN erf (Rln x) loc scale /\
  ((forall z, -1 < erf z) -> Rexp (lognormal_logcdf RN erf x loc scale) = lognormal_cdf RN erf x loc scale).
Proof.
  intros erf x loc scale. split; [reflexivity|]. split; [reflexivity|]. intros He.
  unfold lognormal_logcdf. rn_simpl. apply exp_ln.
  dist_unfold. specialize (He ((Rln x - loc) / (scale * Rsqrt 2))). lra.
Qed.

Theorem lognormal_pdf_is_derivative_of_cdf : forall (erf : R -> R) loc scale x, erf_derivative erf -> 0 < scale -> 0 < x ->
  is_derive (fun x => lognormal_cdf RN erf x loc scale) x (lognormal_pdf RN (2 * PI) x loc scale).
Proof.
  intros erf loc scale x He Hs Hx.
  assert (Ht : 0 < 2 * PI) by (pose proof PI_RGT_0; lra).
  destruct (lognormal_pdf_closed_form (2 * PI) x loc scale Ht Hs Hx) as [_ [E _]]. rewrite E.
  pose proof (is_derive_comp (fun u => normal_cdf RN erf u loc scale) Rln x _ _
                (normal_pdf_is_derivative_of_cdf erf loc scale (Rln x) He Hs) (is_derive_ln x Hx)) as H.
  match type of H with is_derive _ _ ?d => replace (normal_pdf RN (2 * PI) (Rln x) loc scale / x) with d; [exact H|] end.
  generalize (normal_pdf RN (2 * PI) (Rln x) loc scale). intros p.
  unfold scal; simpl. unfold mult; simpl. field. lra.
Qed.

Theorem lognormal_pdf_integrates_to_cdf : forall (erf : R -> R) loc scale a b, erf_derivative erf -> 0 < scale ->
  0 < a -> 0 < b ->
  is_RInt (fun x => lognormal_pdf RN (2 * PI) x loc scale) a b
          (lognormal_cdf RN erf b loc scale - lognormal_cdf RN erf a loc scale).
Proof.
  intros erf loc scale a b He Hs Ha Hb.
  assert (Ht : 0 < 2 * PI) by (pose proof PI_RGT_0; lra).
  assert (Hpos : forall x, Rmin a b <= x <= Rmax a b -> 0 < x).
  { intros x [H1 _]. unfold Rmin in H1. destruct (Rle_dec a b); lra. }
  apply (is_RInt_derive (fun x => lognormal_cdf RN erf x loc scale) (fun x => lognormal_pdf RN (2 * PI) x loc scale)).
  - intros x Hx. apply lognormal_pdf_is_derivative_of_cdf; auto.
  - intros x Hx. specialize (Hpos x Hx).
    apply (ex_derive_continuous (fun x => lognormal_pdf RN (2 * PI) x loc scale)).
    dist_unfold. auto_derive. repeat split; auto.
Qed.

(* mean / variance parameterisation: the stated mean and variance of the distribution with the parameters
   returned by params_mv are the requested ones, and conversely *)
Theorem lognormal_params_mv_roundtrip : forall m v, 0 < m -> 0 <= v ->
  let p := lognormal_params_mv RN m v in
  lognormal_mean RN (fst p) (snd p) = m /\ lognormal_variance RN (fst p) (snd p) = v.
Proof.
  intros m v Hm Hv. dist_unfold. cbn [fst snd].
  assert (Hmm : 0 < m * m) by nra.
  assert (Hs : 0 < Rsqrt (m * m + v)) by (apply sqrt_lt_R0; lra).
  assert (Hr : 1 <= 1 + v / (m * m)).
  { assert (0 <= v / (m * m)) by (apply Rmult_le_pos; [lra | left; apply Rinv_0_lt_compat; lra]). lra. }
  assert (Hln : 0 <= Rln (1 + v / (m * m))).
  { rewrite <- ln_1. destruct Hr as [Hr | <-]; [left; apply ln_increasing; lra | lra]. }
  rewrite sqrt_sqrt by assumption.
  assert (Hq : 0 < m * m / Rsqrt (m * m + v)) by (apply Rmult_lt_0_compat; [lra | apply Rinv_0_lt_compat; lra]).
  assert (Hss : Rsqrt (m * m + v) * Rsqrt (m * m + v) = m * m + v) by (apply sqrt_sqrt; lra).
  split.
  - rewrite exp_plus, exp_ln by assumption.
    replace (Rln (1 + v / (m * m)) / 2) with (/ 2 * Rln (1 + v / (m * m))) by field.
    replace (Rexp (/ 2 * Rln (1 + v / (m * m)))) with (Rsqrt (1 + v / (m * m))).
    + replace (1 + v / (m * m)) with ((m * m + v) / (m * m)) by (field; lra).
      rewrite sqrt_div_alt by lra. rewrite sqrt_square by lra. field. split; lra.
    + assert (0 < Rsqrt (1 + v / (m * m))) by (apply sqrt_lt_R0; lra).
      rewrite <- (exp_ln (Rsqrt (1 + v / (m * m)))) by assumption. f_equal.
      rewrite <- (sqrt_sqrt (1 + v / (m * m))) at 2 by lra. rewrite ln_mult by assumption. lra.
  - rewrite exp_ln by lra. rewrite exp_plus.
    replace (2 * Rln (m * m / Rsqrt (m * m + v))) with (Rln (m * m / Rsqrt (m * m + v)) + Rln (m * m / Rsqrt (m * m + v))) by ring.
    rewrite exp_plus, !exp_ln by lra.
    replace (m * m / Rsqrt (m * m + v) * (m * m / Rsqrt (m * m + v)))
      with ((m * m) * (m * m) / (Rsqrt (m * m + v) * Rsqrt (m * m + v))) by (field; lra).
    rewrite Hss. field. split; lra.
Qed.

Theorem lognormal_params_mv_inverse : forall loc scale, 0 <= scale ->
  lognormal_params_mv RN (lognormal_mean RN loc scale) (lognormal_variance RN loc scale) = (loc, scale).
Proof.
  intros loc scale Hs. dist_unfold.
  set (M := Rexp (loc + scale * scale / 2)).
  assert (HM : 0 < M) by apply exp_pos.
  assert (EMM : M * M = Rexp (2 * loc + scale * scale)).
  { unfold M. rewrite <- exp_plus. f_equal. field. }
  assert (Hsum : M * M + (Rexp (scale * scale) - 1) * Rexp (2 * loc + scale * scale)
                 = Rexp (2 * loc + scale * scale) * Rexp (scale * scale)).
  { rewrite EMM. ring. }
  f_equal.
  - rewrite Hsum. rewrite <- exp_plus.
    replace (Rsqrt (Rexp (2 * loc + scale * scale + scale * scale))) with (Rexp (loc + scale * scale)).
    + rewrite EMM. unfold Rdiv. rewrite <- exp_Ropp, <- exp_plus, ln_exp. ring.
    + symmetry. apply sqrt_lem_1; [left; apply exp_pos | left; apply exp_pos |].
      rewrite <- exp_plus. f_equal. ring.
  - rewrite EMM.
    replace (1 + (Rexp (scale * scale) - 1) * Rexp (2 * loc + scale * scale) / Rexp (2 * loc + scale * scale))
      with (Rexp (scale * scale)) by (field; apply Rgt_not_eq, exp_pos).
    rewrite ln_exp. apply sqrt_square; assumption.
Qed.

(* ================================================================== LogNormal: total mass and moments *)
(* exponential tilting of the normal density: e^(k u) phi(u; mu, s) = e^(k mu + k^2 s^2 / 2) phi(u; mu + k s^2, s) *)
Lemma normal_pdf_tilt : forall tau u loc scale k, 0 < tau -> 0 < scale ->
  Rexp (k * loc + k * k * (scale * scale) / 2) * normal_pdf RN tau u (loc + k * (scale * scale)) scale
  = Rexp (k * u) * normal_pdf RN tau u loc scale.
Proof.
  intros tau u loc scale k Ht Hs. dist_unfold.
  assert (Hq : 0 < Rsqrt tau) by (apply sqrt_lt_R0; assumption).
  set (c := 1 / (scale * Rsqrt tau)).
  match goal with |- Rexp ?A * (c * Rexp ?B) = Rexp ?C * (c * Rexp ?D) =>
    replace (Rexp A * (c * Rexp B)) with (c * Rexp (A + B)) by (rewrite exp_plus; ring);
    replace (Rexp C * (c * Rexp D)) with (c * Rexp (C + D)) by (rewrite exp_plus; ring) end.
  f_equal. f_equal. field. lra.
Qed.

Lemma lognormal_cdf_derivative_gen : forall (erf : R -> R) loc' scale x, erf_derivative erf -> 0 < scale -> 0 < x ->
  is_derive (fun x => normal_cdf RN erf (Rln x) loc' scale) x (normal_pdf RN (2 * PI) (Rln x) loc' scale / x).
Proof.
  intros erf loc' scale x He Hs Hx.
  pose proof (is_derive_comp (fun u => normal_cdf RN erf u loc' scale) Rln x _ _
                (normal_pdf_is_derivative_of_cdf erf loc' scale (Rln x) He Hs) (is_derive_ln x Hx)) as H.
  match type of H with is_derive _ _ ?d => replace (normal_pdf RN (2 * PI) (Rln x) loc' scale / x) with d; [exact H|] end.
  generalize (normal_pdf RN (2 * PI) (Rln x) loc' scale). intros p.
  unfold scal; simpl. unfold mult; simpl. field. lra.
Qed.

(* antiderivatives of x * pdf and x^2 * pdf on (0, inf): closed forms through the normal cdf with shifted location *)
Theorem lognormal_moment_antiderivatives : forall (erf : R -> R) loc scale x, erf_derivative erf -> 0 < scale -> 0 < x ->
  is_derive (fun x => lognormal_mean RN loc scale * normal_cdf RN erf (Rln x) (loc + scale * scale) scale) x
            (x * lognormal_pdf RN (2 * PI) x loc scale) /\
  is_derive (fun x => Rexp (2 * loc + 2 * (scale * scale)) * normal_cdf RN erf (Rln x) (loc + 2 * (scale * scale)) scale) x
            (x ^ 2 * lognormal_pdf RN (2 * PI) x loc scale).
Proof.
  intros erf loc scale x He Hs Hx.
  assert (Ht : 0 < 2 * PI) by (pose proof PI_RGT_0; lra).
  destruct (lognormal_pdf_closed_form (2 * PI) x loc scale Ht Hs Hx) as [_ [E _]]. rewrite E.
  split.
  - pose proof (is_derive_scal _ x (lognormal_mean RN loc scale) _
                  (lognormal_cdf_derivative_gen erf (loc + scale * scale) scale x He Hs Hx)) as H.
    match type of H with is_derive _ _ ?d => replace (x * (normal_pdf RN (2 * PI) (Rln x) loc scale / x)) with d; [exact H|] end.
    pose proof (normal_pdf_tilt (2 * PI) (Rln x) loc scale 1 Ht Hs) as T.
    rewrite !Rmult_1_l, exp_ln in T by assumption.
    unfold lognormal_mean. cbn [pown]. rn_unfold. rewrite ?Rmult_1_r.
        unfold Rdiv in *. rewrite <- !Rmult_assoc. try rewrite <- !Rmult_assoc in T. rewrite T. reflexivity.
  - pose proof (is_derive_scal _ x (Rexp (2 * loc + 2 * (scale * scale))) _
                  (lognormal_cdf_derivative_gen erf (loc + 2 * (scale * scale)) scale x He Hs Hx)) as H.
    match type of H with is_derive _ _ ?d => replace (x ^ 2 * (normal_pdf RN (2 * PI) (Rln x) loc scale / x)) with d; [exact H|] end.
    pose proof (normal_pdf_tilt (2 * PI) (Rln x) loc scale 2 Ht Hs) as T.
    replace (2 * loc + 2 * 2 * (scale * scale) / 2) with (2 * loc + 2 * (scale * scale)) in T by field.
    replace (Rexp (2 * Rln x)) with (x ^ 2) in T.
    2:{ replace (2 * Rln x) with (Rln x + Rln x) by ring. rewrite exp_plus, exp_ln by assumption. ring. }
    unfold Rdiv in *. rewrite <- !Rmult_assoc. try rewrite <- !Rmult_assoc in T. rewrite T. reflexivity.
Qed.

(* the stated variance is (second raw moment) - mean^2, with the second raw moment exp(2 mu + 2 sigma^2) *)
Theorem lognormal_variance_from_moments : forall loc scale,
  lognormal_variance RN loc scale = Rexp (2 * loc + 2 * (scale * scale)) - (lognormal_mean RN loc scale) ^ 2.
Proof.
  intros loc scale. dist_unfold.
  replace (Rexp (2 * loc + 2 * (scale * scale))) with (Rexp (scale * scale) * Rexp (2 * loc + scale * scale))
    by (rewrite <- exp_plus; f_equal; ring).
  replace (Rexp (loc + scale * scale / 2) ^ 2) with (Rexp (2 * loc + scale * scale)).
  - ring.
  - simpl. rewrite Rmult_1_r, <- exp_plus. f_equal. field.
Qed.

(* limits: at +infinity and at 0+ (the support is (0, inf)) *)
Theorem lognormal_cdf_limits : forall (erf : R -> R) loc' scale (Lp Lm : R), 0 < scale ->
  is_lim erf p_infty Lp -> is_lim erf m_infty Lm ->
  is_lim (fun x => normal_cdf RN erf (Rln x) loc' scale) p_infty (/ 2 * (1 + Lp)) /\
  filterlim (fun x => normal_cdf RN erf (Rln x) loc' scale) (at_right 0) (locally (/ 2 * (1 + Lm))).
Proof.
  intros erf loc' scale Lp Lm Hs Hp Hm.
  destruct (normal_cdf_limits erf loc' scale Lp Lm Hs Hp Hm) as [L1 L2].
  split.
  - apply (is_lim_comp (fun u => normal_cdf RN erf u loc' scale) Rln p_infty (/ 2 * (1 + Lp)) p_infty L1 is_lim_ln_p).
    exists 0. intros y _. discriminate.
  - exact (filterlim_comp _ _ _ Rln (fun u => normal_cdf RN erf u loc' scale) _ _ _ is_lim_ln_0 L2).
Qed.

(* total mass one and the stated mean / second moment, as limits of the antiderivatives, when erf(+-inf) = +-1 *)
Theorem lognormal_mass_and_moments : forall (erf : R -> R) loc scale, 0 < scale ->
  is_lim erf p_infty 1 -> is_lim erf m_infty (-1) ->
  (is_lim (fun x => lognormal_cdf RN erf x loc scale) p_infty 1 /\
   filterlim (fun x => lognormal_cdf RN erf x loc scale) (at_right 0) (locally 0)) /\
  (is_lim (fun x => lognormal_mean RN loc scale * normal_cdf RN erf (Rln x) (loc + scale * scale) scale) p_infty
          (lognormal_mean RN loc scale) /\
   filterlim (fun x => lognormal_mean RN loc scale * normal_cdf RN erf (Rln x) (loc + scale * scale) scale)
             (at_right 0) (locally 0)) /\
  (is_lim (fun x => Rexp (2 * loc + 2 * (scale * scale)) * normal_cdf RN erf (Rln x) (loc + 2 * (scale * scale)) scale)
          p_infty (Rexp (2 * loc + 2 * (scale * scale))) /\
   filterlim (fun x => Rexp (2 * loc + 2 * (scale * scale)) * normal_cdf RN erf (Rln x) (loc + 2 * (scale * scale)) scale)
             (at_right 0) (locally 0)).
Proof.
  intros erf loc scale Hs Hp Hm.
  assert (G : forall loc' (k : R),
            is_lim (fun x => k * normal_cdf RN erf (Rln x) loc' scale) p_infty k /\
            filterlim (fun x => k * normal_cdf RN erf (Rln x) loc' scale) (at_right 0) (locally 0)).
  { intros loc' k. destruct (lognormal_cdf_limits erf loc' scale 1 (-1) Hs Hp Hm) as [L1 L2].
    replace (/ 2 * (1 + 1)) with 1 in L1 by field. replace (/ 2 * (1 + -1)) with 0 in L2 by field.
    split.
    - pose proof (is_lim_scal_l _ k p_infty 1 L1) as H. simpl in H. rewrite Rmult_1_r in H. exact H.
    - pose proof (filterlim_comp _ _ _ (fun x => normal_cdf RN erf (Rln x) loc' scale) (fun z : R => scal k z)
                    _ _ _ L2 (filterlim_scal_r k 0)) as H1.
      match type of H1 with filterlim _ _ (locally ?z) => replace z with (0 : R) in H1 end.
      + exact H1.
      + unfold scal; simpl; unfold mult; simpl; ring. }
  split; [|split].
  - destruct (G loc 1) as [A B]. split.
    + eapply is_lim_ext; [|exact A]. intros y. unfold lognormal_cdf. rn_simpl. ring.
    + eapply filterlim_ext; [|exact B]. intros y. unfold lognormal_cdf. rn_simpl. ring.
  - apply G.
  - apply G.
Qed.

